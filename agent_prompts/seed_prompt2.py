#!/usr/bin/env python3
"""Second-round seeding prompt: like seed_prompt.py but asks for changes C and D, different from the recorded A and B."""
import json, sys, subprocess, os
pid = sys.argv[1]
base = subprocess.run([sys.executable, '/verif/agent_prompts/seed_prompt.py', pid], capture_output=True, text=True).stdout
prev = []
for v in ('A', 'B'):
    mp = '/verif/seeded/%s-%s/meta.json' % (pid, v)
    if os.path.exists(mp):
        m = json.load(open(mp))
        prev.append('  %s: %s' % (v, (m.get('summary') or m.get('description') or '')[:400].replace('\n', ' ')))
base = base.replace('produce TWO independent changes (A and B)', 'produce TWO independent changes (called C and D)')
base = base.replace('A and B should break the property through different mechanisms / code sites.',
                    'C and D should break the property through different mechanisms / code sites — and differently from two changes that somebody else already produced for this property:\n' + '\n'.join(prev) + '\nDo not repeat those mechanisms or code sites; look for other parts of the behaviour the property covers.')
base = base.replace('-out/A/ and', '-out/C/ and').replace('-out/B/ :', '-out/D/ :').replace('two short paragraphs (A, B)', 'two short paragraphs (C, D)')
print(base)
