#!/usr/bin/env python3
"""Prints the prompt for a seeding sub-agent: only the property text and its scratch worktree."""
import json, sys
pid = sys.argv[1]
for l in open('/verif/properties.jsonl'):
    d = json.loads(l)
    if d['id'] == pid:
        break
wt = "/tmp/seed-%s" % pid
print(f"""You are a software engineer asked to produce a realistic *regression* for a Go code base, for the purpose of evaluating
how good a verification suite is at catching regressions. You have your own scratch git worktree of the repository
(KafScale/platform, a Kafka-compatible broker) at {wt} . Work ONLY inside {wt} and {wt}-out . Do not read, list or modify anything
under /verif or /repo (you would spoil the experiment), and use no network. Go environment for every shell call:
`export GOFLAGS=-mod=mod GOPROXY=off` (leave GOTOOLCHAIN unset; add-on modules under addons/processors/* are separate Go modules).
The machine is shared and busy: wrap commands in `timeout`, keep outputs short (pipe through tail).

THE PROPERTY (of the system as it is in your worktree, where it currently holds):

  {d['id']} — {d['title']}
  {d['statement']}
  (Quantified over: {d['quantifier']['text']})

YOUR TASK: produce TWO independent changes (A and B) to the non-test source code that each BREAK this property while the repository
still compiles and its existing test suite still passes (run at least the tests of every package you touch and of the packages that
import it; say exactly what you ran). Each change must be the kind of mistake a real developer could plausibly make in a refactoring,
optimisation or feature change (a dropped guard, a reordered step, a wrong boundary, a stale copy, an unsynchronised window…), a few
lines, and it must need something SPECIFIC to manifest: a particular interleaving, a crash or fault at a particular point, a multi-step
sequence of operations, an unusual input, or two cooperating sites that each look fine alone — NOT something ordinary use or the
existing tests expose at once. A and B should break the property through different mechanisms / code sites.
For each change write a demonstration: a Go test (or small program) that FAILS with the change applied and PASSES without it, and
run it both ways yourself.

DELIVERABLES, in {wt}-out/A/ and {wt}-out/B/ :
  patch.diff   — `git diff` of the source change only (apply-able with `git apply` at the worktree's HEAD; no test files inside)
  demo_test.go — the demonstration, plus a first-line comment saying in which package directory it must be placed and how to run it
  meta.json    — {{"property": "{d['id']}", "summary": "...", "needs_to_manifest": "...", "files_touched": [...],
                   "existing_tests_run": "<commands and result>", "demo_fails_with_patch": true, "demo_passes_without_patch": true}}
NEVER use `git stash` (the stash is shared by all worktrees of this repository and other people are working in sibling worktrees): to toggle a change use `git diff > /tmp/x.diff; git apply -R /tmp/x.diff; ...; git apply /tmp/x.diff`. Leave the worktree clean (git checkout -- . ; remove untracked files) when you are done. Final answer: two short paragraphs (A, B).""")
