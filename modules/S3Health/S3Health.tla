---- MODULE S3Health ----
(* pkg/broker/s3_health.go (S3HealthMonitor) and its use as a gate in cmd/broker/main.go            *)
(* (handleProduce / handleFetch / backpressureErrorCode).                                           *)
(*                                                                                                  *)
(* One action per public method of the monitor (each is one critical section under m.mu):           *)
(*   Record  = RecordOperation: append, cap at MaxSamples, truncateLocked, recomputeLocked          *)
(*   Query   = State()/Snapshot(): truncateLocked, recomputeLocked, return m.state                  *)
(*   Tick    = passage of (virtual) time; the monitor itself does nothing until it is called        *)
(*   Probe   = a Produce/Fetch partition reaching the handler's gate: State() # healthy => reject   *)
(* Time is counted in ticks, latencies in latency units.  The harness configures the real monitor   *)
(* with Window = W ticks minus half a tick, so "inside the window" is  age < W  on both sides and    *)
(* no observation ever sits exactly on the cutoff.                                                   *)
EXTENDS Integers, Sequences, FiniteSets, TLC, Json
CONSTANTS Cfgs,        \* set of threshold configurations [id, lw, lc, ewn, ecn, ed]: latency warn/crit (units),
                       \* error-rate warn/crit as fractions ewn/ed, ecn/ed.  Includes warn > crit misconfigurations.
          Window,      \* ticks
          MaxSamples, Lats, MaxTick, MaxOps,
          Kinds,       \* probe kinds, subset of {"produce","fetch"} ({} switches probes off)
          DevRateNonMonotone,   \* deviation: warn thresholds tested before crit (wrong for warn > crit configurations)
          DevNoTruncOnQuery,    \* deviation: State() rates the stored samples without dropping expired ones
          DevNoCap,             \* deviation: MaxSamples cap not applied
          DevHealthNotChecked,  \* deviation: set of probe kinds whose gate is missing
          DevDegradedPasses,    \* deviation: gate rejects only "unavailable"
          DevGateHoisted,       \* deviation: produce reads the rating once per request instead of once per partition
          DevIgnoreCtxErrors    \* deviation: failed S3 operations whose error wraps a context error (timeouts) are not recorded
VARIABLES cfg, now, samples, state, recent, ret, probe, nops, hist
vars == <<cfg, now, samples, state, recent, ret, probe, nops, hist>>

PW == INSTANCE S3HealthProps WITH new <- {}, all <- {}, probes <- {}   \* window arithmetic only
Sum3(win) == PW!Summary(win)

Rate3(c, n, tot, ec) ==
  IF n = 0 THEN "healthy"
  ELSE LET crit == tot >= c.lc * n \/ ec * c.ed >= c.ecn * n
           warn == tot >= c.lw * n \/ ec * c.ed >= c.ewn * n
       IN IF DevRateNonMonotone
          THEN IF warn THEN "degraded" ELSE IF crit THEN "unavailable" ELSE "healthy"
          ELSE IF crit THEN "unavailable" ELSE IF warn THEN "degraded" ELSE "healthy"
RateOf(c, win) == LET s == Sum3(win) IN Rate3(c, s.n, s.tot, s.ec)
Trunc(s, t) == PW!Young(s, t, Window)
Cap(s) == IF DevNoCap THEN s ELSE PW!LastN(s, MaxSamples)
MaxLat == CHOOSE m \in Lats : \A x \in Lats : x <= m

NoObs == [is |-> FALSE, o |-> [cfg |-> "", n |-> 0, tot |-> 0, ec |-> 0, st |-> "healthy"]]
NoProbe == <<>>      \* probe = sequence of [kind, health, acked, data, code], one per partition of the request
BpCode(st) == IF st = "degraded" THEN 7 ELSE -1
ObsOf(c, t, rec, st) == LET s == Sum3(PW!InWindow(rec, t, Window, MaxSamples))
                        IN [cfg |-> c.id, n |-> s.n, tot |-> s.tot, ec |-> s.ec, st |-> st]

Init == /\ cfg \in Cfgs /\ now = 0 /\ samples = <<>> /\ state = "healthy" /\ recent = <<>>
        /\ ret = NoObs /\ probe = NoProbe /\ nops = 0 /\ hist = <<>>

Record(lat, err) ==
  /\ nops < MaxOps
  /\ LET smp == [ts |-> now, lat |-> lat, err |-> err]
         s3 == Trunc(Cap(Append(samples, smp)), now)
     IN /\ samples' = s3 /\ state' = RateOf(cfg, s3)
        /\ recent' = PW!LastN(Append(recent, smp), MaxSamples)
  /\ ret' = NoObs /\ probe' = NoProbe /\ nops' = nops + 1
  /\ hist' = Append(hist, [a |-> "Record", lat |-> lat, err |-> err])
  /\ UNCHANGED <<cfg, now>>

Tick ==
  /\ nops < MaxOps /\ now < MaxTick
  /\ now' = now + 1 /\ ret' = NoObs /\ probe' = NoProbe /\ nops' = nops + 1
  /\ hist' = Append(hist, [a |-> "Tick"])
  /\ UNCHANGED <<cfg, samples, state, recent>>

Rerate == LET s3 == IF DevNoTruncOnQuery THEN samples ELSE Trunc(samples, now)
          IN samples' = s3 /\ state' = RateOf(cfg, s3)

Query ==
  /\ nops < MaxOps
  /\ Rerate
  /\ ret' = [is |-> TRUE, o |-> ObsOf(cfg, now, recent, state')]
  /\ probe' = NoProbe /\ nops' = nops + 1
  /\ hist' = Append(hist, [a |-> "Query"])
  /\ UNCHANGED <<cfg, now, recent>>

\* handleProduce: `if h.s3Health.State() != S3StateHealthy { code = backpressureErrorCode(); continue }` before the log is
\* opened; handleFetch: `switch State() { case Degraded, Unavailable: ... continue }` before getPartitionLog.
Probe(kind) ==
  /\ nops < MaxOps
  /\ Rerate
  /\ LET pass == \/ kind \in DevHealthNotChecked
                 \/ state' = "healthy"
                 \/ (DevDegradedPasses /\ state' = "degraded")
     IN probe' = << [kind |-> kind, health |-> state',
                    acked |-> pass /\ kind = "produce", data |-> pass /\ kind = "fetch",
                    code |-> IF pass THEN 0 ELSE BpCode(state')] >>
  /\ ret' = [is |-> TRUE, o |-> ObsOf(cfg, now, recent, state')]
  /\ nops' = nops + 1
  /\ hist' = Append(hist, [a |-> "Probe", kind |-> kind])
  /\ UNCHANGED <<cfg, now, recent>>

\* One Produce request for two partitions whose first partition's flush fails in S3: uploadFlush starts the segment and
\* the index upload concurrently, so nerr = 1 or 2 failed operations are recorded (the second upload may be cancelled
\* before it starts) before the handler reaches the second partition, which must be gated on the NEW rating.
Produce2(nerr, ctxerr) ==
  /\ nops < MaxOps /\ "produce" \in Kinds
  /\ LET s0 == IF DevNoTruncOnQuery THEN samples ELSE Trunc(samples, now)
         st0 == RateOf(cfg, s0)
         pass1 == st0 = "healthy" \/ "produce" \in DevHealthNotChecked \/ (DevDegradedPasses /\ st0 = "degraded")
         bad == [ts |-> now, lat |-> 0, err |-> TRUE]
         add(q, k) == IF k = 0 THEN q ELSE Trunc(Cap(Append(IF k = 2 THEN Trunc(Cap(Append(q, bad)), now) ELSE q, bad)), now)
         \* ctxerr: the refused uploads fail with an error wrapping context.DeadlineExceeded (a hanging endpoint) instead of a plain error;
         \* either way they are failed S3 operations and enter the window through handler.recordS3Op
         s1 == IF pass1 /\ ~(DevIgnoreCtxErrors /\ ctxerr) THEN add(s0, nerr) ELSE s0
         st1 == RateOf(cfg, s1)
         pass2 == IF DevGateHoisted THEN pass1
                  ELSE st1 = "healthy" \/ "produce" \in DevHealthNotChecked \/ (DevDegradedPasses /\ st1 = "degraded")
         rec1 == IF pass1 THEN PW!LastN(recent \o [i \in 1..nerr |-> bad], MaxSamples) ELSE recent
     IN /\ samples' = s1 /\ state' = st1 /\ recent' = rec1
        /\ probe' = << [kind |-> "produce", health |-> st0, acked |-> FALSE, data |-> FALSE,
                        code |-> IF pass1 THEN BpCode(st1) ELSE BpCode(st0)],       \* flush failed: backpressureErrorCode()
                       [kind |-> "produce", health |-> st1, acked |-> pass2, data |-> FALSE,
                        code |-> IF pass2 THEN 0 ELSE BpCode(st1)] >>
        /\ ret' = [is |-> TRUE, o |-> ObsOf(cfg, now, rec1, st1)]
  /\ nops' = nops + 1
  /\ hist' = Append(hist, [a |-> "Produce2", nerr |-> nerr, ctx |-> ctxerr])
  /\ UNCHANGED <<cfg, now>>

Next == \/ \E lat \in Lats, err \in BOOLEAN : Record(lat, err)
        \/ Tick \/ Query
        \/ \E k \in Kinds : Probe(k)
        \/ \E k \in {1, 2}, c \in BOOLEAN : Produce2(k, c)
Spec == Init /\ [][Next]_vars

\* every window summary that can occur, rated by the (possibly deviant) rating function: the "grid"
Grid(c) == {[cfg |-> c.id, n |-> n, tot |-> t, ec |-> e, st |-> Rate3(c, n, t, e)] :
              n \in 0..MaxSamples, t \in 0..(MaxSamples * MaxLat), e \in 0..MaxSamples}
GridObs(c) == {o \in Grid(c) : o.tot <= o.n * MaxLat /\ o.ec <= o.n}

\* model instantiation of the property: every returned rating is compared with the grid (P); the grid compared with
\* itself is the theorem "Rate is a monotone function of (error rate, latency)" (PG, evaluated once per configuration)
P == INSTANCE S3HealthProps WITH
       new <- (IF ret.is THEN {ret.o} ELSE {}), all <- GridObs(cfg), probes <- {probe[i] : i \in DOMAIN probe}
C25_FunctionOfWindow == P!C25_FunctionOfWindow
C25_Monotone == P!C25_Monotone
C25_Gate == P!C25_Gate
PG == INSTANCE S3HealthProps WITH new <- GridObs(cfg), all <- GridObs(cfg), probes <- {}
C25_GridTheorem == (nops = 0) => (PG!C25_FunctionOfWindow /\ PG!C25_Monotone)
\* internal facts (conformance level)
StoredIsWindow == Trunc(samples, now) = PW!InWindow(recent, now, Window, MaxSamples)
Bounded == Len(samples) <= MaxSamples

View == <<cfg, now, samples, state, recent, ret, probe, nops>>
EmitSched == PrintT(<<"SCHED", ToJson([cfg |-> cfg, steps |-> hist])>>)
====
