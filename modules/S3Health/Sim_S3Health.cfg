CONSTANTS
 Cfgs <- AllCfgs
 Window = 3
 MaxSamples = 3
 Lats = {0,1,2,3}
 MaxTick = 8
 MaxOps = 16
 Kinds <- None
 DevRateNonMonotone = FALSE
 DevNoTruncOnQuery = FALSE
 DevNoCap = FALSE
 DevHealthNotChecked <- None
 DevDegradedPasses = FALSE
 DevGateHoisted = FALSE
 DevIgnoreCtxErrors = FALSE
INIT Init
NEXT Next
INVARIANTS EmitSched C25_FunctionOfWindow C25_Monotone C25_Gate

CHECK_DEADLOCK FALSE
