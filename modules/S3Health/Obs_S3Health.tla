---- MODULE Obs_S3Health ----
(* Observation layer for C25.  No model actions: TLC keeps its own copy of the recorded samples      *)
(* (from the Record lines), computes which of them are inside the window at every query itself, and   *)
(* evaluates the S3HealthProps predicates on the rating the real monitor returned.  `all` accumulates *)
(* every observation of the run (all schedules), so ratings are compared across executions.           *)
EXTENDS Integers, Sequences, FiniteSets, TLC, Json
TraceLog == ndJsonDeserialize("trace.ndjson")
VARIABLES l, samples, now, win, maxn, cfgid, all, viol
ovars == <<l, samples, now, win, maxn, cfgid, all, viol>>
\* an observation carries the line at which it was first made (`line`, ignored by the predicates) so that a
\* violated pairwise predicate can name both observations; cfg = <<threshold configuration, source harness>>
PW == INSTANCE S3HealthProps WITH new <- {}, all <- {}, probe <- [is |-> FALSE]
P(o, al, pr) == INSTANCE S3HealthProps WITH new <- {o}, all <- al, probe <- pr
NoProbe == [is |-> FALSE, health |-> "healthy", acked |-> FALSE, data |-> FALSE, code |-> 0]
OInit == l = 0 /\ samples = <<>> /\ now = 0 /\ win = 1 /\ maxn = 1 /\ cfgid = <<"", "">> /\ all = {} /\ viol = {}
Step ==
  /\ l < Len(TraceLog) /\ l' = l + 1
  /\ LET e == TraceLog[l + 1]
         isQ == e.ev \in {"Query", "Probe"}
         s == PW!Summary(PW!InWindow(samples, now, win, maxn))
         pr == IF e.ev = "Probe" THEN [is |-> TRUE, health |-> e.st, acked |-> e.acked, data |-> e.data, code |-> e.code]
               ELSE NoProbe
         o == [cfg |-> cfgid, n |-> s.n, tot |-> s.tot, ec |-> s.ec, st |-> IF isQ THEN e.st ELSE "healthy", line |-> l + 1]
         Same(a, b) == a.cfg = b.cfg /\ a.n = b.n /\ a.tot = b.tot /\ a.ec = b.ec /\ a.st = b.st
         seen == \E b \in all : Same(o, b)
         \* earliest earlier observation with which o violates the named pairwise predicate (0: none / not pairwise)
         Partner(name) == LET bad == {b \in all : IF name = "C25_Monotone" THEN ~P(o, {b}, pr)!C25_Monotone
                                                   ELSE IF name = "C25_FunctionOfWindow" THEN ~P(o, {b}, pr)!C25_FunctionOfWindow ELSE FALSE}
                          IN IF bad = {} THEN 0 ELSE (CHOOSE b \in bad : \A c \in bad : b.line <= c.line).line
     IN
     /\ win' = IF e.ev = "Reset" THEN e.win ELSE win
     /\ maxn' = IF e.ev = "Reset" THEN e.maxn ELSE maxn
     /\ cfgid' = IF e.ev = "Reset" THEN <<e.cfg.id, e.src>> ELSE cfgid
     /\ now' = IF e.ev = "Reset" THEN 0 ELSE IF e.ev = "Tick" THEN now + 1 ELSE now
     /\ samples' = IF e.ev = "Reset" THEN <<>>
                   ELSE IF e.ev = "Record" THEN PW!LastN(Append(samples, [ts |-> now, lat |-> e.lat, err |-> e.err]), maxn)
                   ELSE samples
     /\ all' = IF isQ /\ ~seen THEN all \cup {o} ELSE all
     /\ viol' = IF ~isQ THEN viol ELSE viol \cup
          {<<l + 1, n, Partner(n)>> : n \in
             (IF P(o, all', pr)!C25_FunctionOfWindow THEN {} ELSE {"C25_FunctionOfWindow"}) \cup
             (IF P(o, all', pr)!C25_Monotone THEN {} ELSE {"C25_Monotone"}) \cup
             (IF P(o, all', pr)!C25_Gate THEN {} ELSE {"C25_Gate"})}
     /\ (l' = Len(TraceLog)) => PrintT(<<"OBS", ToJson([consumed |-> l', viol |-> viol'])>>)
OSpec == OInit /\ [][Step]_ovars
====
