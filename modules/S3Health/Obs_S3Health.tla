---- MODULE Obs_S3Health ----
(* Observation layer for C25.  No model actions: TLC keeps its own copy of the recorded samples      *)
(* (from the Record lines), computes which of them are inside the window at every query itself, and   *)
(* evaluates the S3HealthProps predicates on the rating the real monitor returned.  `all` accumulates *)
(* every observation of the run (all schedules), so ratings are compared across executions.           *)
EXTENDS Integers, Sequences, FiniteSets, TLC, Json
TraceLog == ndJsonDeserialize("trace.ndjson")
VARIABLES l, samples, now, win, maxn, cfgid, all, viol
ovars == <<l, samples, now, win, maxn, cfgid, all, viol>>
\* an observation carries the line at which it was first made (`line`, ignored by the predicates) so that a
\* violated pairwise predicate can name both observations; cfg = <<threshold configuration, source harness>>
PW == INSTANCE S3HealthProps WITH new <- {}, all <- {}, probes <- {}
P(o, al, pr) == INSTANCE S3HealthProps WITH new <- {o}, all <- al, probes <- pr
OInit == l = 0 /\ samples = <<>> /\ now = 0 /\ win = 1 /\ maxn = 1 /\ cfgid = <<"", "">> /\ all = {} /\ viol = {}
Step ==
  /\ l < Len(TraceLog) /\ l' = l + 1
  /\ LET e == TraceLog[l + 1]
         isQ == e.ev \in {"Query", "Probe", "Produce2"}
         \* rating that belongs to the window as it is after this line: Produce2 = the rating while the 2nd partition was handled
         rated == IF e.ev = "Produce2" THEN e.items[2].st ELSE IF isQ THEN e.st ELSE "healthy"
         bad == [ts |-> now, lat |-> 0, err |-> TRUE]
         smp == IF e.ev = "Produce2" THEN PW!LastN(samples \o [i \in 1..e.nerr |-> bad], maxn) ELSE samples
         s == PW!Summary(PW!InWindow(smp, now, win, maxn))
         pr == IF e.ev = "Probe" THEN {[health |-> e.st, acked |-> e.acked, data |-> e.data, code |-> e.code]}
               ELSE IF e.ev = "Produce2" THEN {[health |-> e.items[i].st, acked |-> e.items[i].acked, data |-> e.items[i].data, code |-> e.items[i].code] : i \in DOMAIN e.items}
               ELSE {}
         o == [cfg |-> cfgid, n |-> s.n, tot |-> s.tot, ec |-> s.ec, st |-> rated, line |-> l + 1]
         Same(a, b) == a.cfg = b.cfg /\ a.n = b.n /\ a.tot = b.tot /\ a.ec = b.ec /\ a.st = b.st
         seen == \E b \in all : Same(o, b)
         \* earliest earlier observation with which o violates the named pairwise predicate (0: none / not pairwise)
         Partner(name) == LET conf == {b \in all : IF name = "C25_Monotone" THEN ~P(o, {b}, pr)!C25_Monotone
                                                   ELSE IF name = "C25_FunctionOfWindow" THEN ~P(o, {b}, pr)!C25_FunctionOfWindow ELSE FALSE}
                          IN IF conf = {} THEN 0 ELSE (CHOOSE b \in conf : \A c \in conf : b.line <= c.line).line
     IN
     /\ win' = IF e.ev = "Reset" THEN e.win ELSE win
     /\ maxn' = IF e.ev = "Reset" THEN e.maxn ELSE maxn
     /\ cfgid' = IF e.ev = "Reset" THEN <<e.cfg.id, e.src>> ELSE cfgid
     /\ now' = IF e.ev = "Reset" THEN 0 ELSE IF e.ev = "Tick" THEN now + 1 ELSE now
     /\ samples' = IF e.ev = "Reset" THEN <<>>
                   ELSE IF e.ev = "Record" THEN PW!LastN(Append(samples, [ts |-> now, lat |-> e.lat, err |-> e.err]), maxn)
                   ELSE smp
     /\ all' = IF isQ /\ ~seen THEN all \cup {o} ELSE all
     /\ viol' = IF ~isQ THEN viol ELSE viol \cup
          {<<l + 1, n, Partner(n)>> : n \in
             (IF P(o, all', pr)!C25_FunctionOfWindow THEN {} ELSE {"C25_FunctionOfWindow"}) \cup
             (IF P(o, all', pr)!C25_Monotone THEN {} ELSE {"C25_Monotone"}) \cup
             (IF P(o, all', pr)!C25_Gate THEN {} ELSE {"C25_Gate"})}
     /\ (l' = Len(TraceLog)) => PrintT(<<"OBS", ToJson([consumed |-> l', viol |-> viol'])>>)
OSpec == OInit /\ [][Step]_ovars
====
