"""S3Health.tla — C25 (pkg/broker/s3_health.go + the health gate of handleProduce/handleFetch in cmd/broker/main.go)."""
import copy, json, os, re
from lib import tlc as T, layers, gorun
from lib.common import Broken, Violation, verdict, save_replay

PROPS = {
    "C25": {
        "text": "S3Health.tla models the S3HealthMonitor (sample window, MaxSamples cap, expiry, integer-average and error-rate thresholds incl. warn>crit misconfigurations) and the broker's gate on it (Produce/Fetch partitions are rejected with the backpressure code of the rating). TLC checks exhaustively that every returned rating is a monotone function of (error rate, average latency) of the samples inside the window and that no probe passes the gate while the rating is degraded/unavailable. TLC-generated Record/Tick/Query sequences (simulation + counterexamples of named wrong designs) are replayed on the real monitor under virtual time (testing/synctest) and TLC-generated Record/Probe sequences on the real broker handler (handler.Handle with the real monitor, in-memory store and bucket); the recorded traces are validated by TLC: the C25 predicates on observed ratings/replies (layer O, ratings compared across all executions of the run) and step-by-step conformance (layer C).",
        "note": "Trusted: TLC; virtual time of testing/synctest; the in-package read of len(m.samples)/m.state (conformance only). 'Retriable error' is read as the broker's two backpressure codes REQUEST_TIMED_OUT / UNKNOWN_SERVER_ERROR (docs/architecture.md, pinned by the repository's tests). The window boundary itself (a sample exactly Window old) is deliberately never exercised: the real Window is W ticks minus half a tick. For gate probes the harness installs a fresh real monitor fed with the schedule's samples before each request, so S3 operations of earlier requests do not dilute the window.",
        "technique": "TLA+ model (S3Health.tla) + TLC exhaustive check + replay of TLC behaviours into S3HealthMonitor (synctest) and handler.Handle + TLC trace validation (observation and conformance layers)",
    }
}
# cfg suffix -> (invariant TLC must report, which harness replays the counterexample)
DEVIATIONS = {
    "RateNonMonotone": ("C25_Monotone", "monitor"), "NoTruncOnQuery": ("C25_FunctionOfWindow", "monitor"),
    "NoCap": ("C25_FunctionOfWindow", "monitor"),
    "ProduceNotChecked": ("C25_Gate", "gate"), "FetchNotChecked": ("C25_Gate", "gate"), "DegradedPasses": ("C25_Gate", "gate"),
    "GateHoisted": ("C25_Gate", "gate"), "IgnoreCtxErrors": ("C25_FunctionOfWindow", "gate"),
}
DEV_WIN, DEV_MAXN = 2, 2      # constants of the Dev_*.cfg files
SIM_WIN, SIM_MAXN = 3, 3      # constants of the Sim_*.cfg files
HUGE_WIN = 100000             # gate harness: samples never expire (no virtual time in cmd/broker)
TRACE_CFG = """CONSTANTS
 Cfgs <- AllCfgs
 Window = %d
 MaxSamples = %d
 Lats = {0,1,2,3}
 MaxTick = 1000000
 MaxOps = 1000000
 Kinds <- Both
 DevRateNonMonotone = FALSE
 DevNoTruncOnQuery = FALSE
 DevNoCap = FALSE
 DevHealthNotChecked <- None
 DevDegradedPasses = FALSE
 DevGateHoisted = FALSE
 DevIgnoreCtxErrors = FALSE
INIT TInit
NEXT TNext
POSTCONDITION Reached
CHECK_DEADLOCK FALSE
"""
ALL_PERMS = {"allow": [["*", "*"]], "deny": [], "dflt": False}
HANDLER_HARNESS = lambda: os.path.join(DIR, "..", "Handler", "harness", "handler_verif_test.go")


def monitor_harness(ctx, scheds, tag):
    sp = os.path.join(ctx.scratch, "sched-%s.ndjson" % tag)
    tp = os.path.join(ctx.scratch, "trace-%s.ndjson" % tag)
    gorun.write_ndjson(sp, scheds)
    rc, out = gorun.go_test(ctx, ".", "./pkg/broker/", {"pkg/broker/zz_verif_s3health_test.go": os.path.join(DIR, "harness", "s3health_verif_test.go")},
                            "^TestVerifS3HealthReplay$", env={"VERIF_SCHEDULES": sp, "VERIF_TRACE_OUT": tp})
    if rc != 0 or "replayed %d schedules" % len(scheds) not in out:
        raise Broken("s3health harness failed:\n" + out[-3000:])
    rows = gorun.read_ndjson(tp)
    for r in rows:
        if r["ev"] == "Reset":
            r["src"] = "monitor"
    return rows


def gate_harness(ctx, scheds, tag):
    """Replay Record/Probe schedules on the real broker handler (Handler module's harness file, gate mode) and
    reformat its lines into S3Health trace lines (renaming only)."""
    hs = []
    for s in scheds:
        steps = []
        for st in s["steps"]:
            if st["a"] == "Record":
                steps.append({"a": "S3Sample", "lat": st["lat"], "err": st["err"]})
            elif st["a"] == "Probe":
                steps.append({"a": "Req", "api": "Produce" if st["kind"] == "produce" else "Fetch", "tg": [["tk", 0]], "perms": ALL_PERMS, "probe": st["kind"]})
            elif st["a"] == "Produce2":
                # one produce for tk/0 and tk/1; the bucket refuses the uploads of tk/0
                steps.append({"a": "Req", "api": "Produce", "tg": [["tk", 0], ["tk", 1]], "perms": ALL_PERMS, "probe": "produce2", "s3fail": [["tk", 0]],
                              "s3err": "timeout" if st.get("ctx") else "plain"})
            elif st["a"] == "Query":
                steps.append({"a": "S3Query"})
            else:
                raise Broken("gate schedule contains step %r" % st)
        hs.append({"mode": "mem", "auto": False, "s3cfg": dict(s["cfg"], maxn=s["maxn"]), "steps": steps})
    sp = os.path.join(ctx.scratch, "sched-%s.ndjson" % tag)
    tp = os.path.join(ctx.scratch, "trace-%s.ndjson" % tag)
    gorun.write_ndjson(sp, hs)
    rc, out = gorun.go_test(ctx, ".", "./cmd/broker/", {"cmd/broker/zz_verif_handler_test.go": HANDLER_HARNESS()},
                            "^TestVerifHandlerReplay$", env={"VERIF_SCHEDULES": sp, "VERIF_TRACE_OUT": tp})
    if rc != 0 or "replayed %d schedules" % len(scheds) not in out:
        raise Broken("handler (gate) harness failed:\n" + out[-3000:])
    rows, i = [], -1
    for r in gorun.read_ndjson(tp):
        if r["ev"] == "Reset":
            i += 1
            rows.append({"ev": "Reset", "sched": i, "src": "gate", "cfg": scheds[i]["cfg"], "win": scheds[i]["win"], "maxn": scheds[i]["maxn"]})
        elif r["ev"] == "S3Sample":
            rows.append({"ev": "Record", "lat": r["lat"], "err": r["err"], "now": 0, "stored": r["stored"], "sstate": r["health"]})
        elif r["ev"] == "S3Query":
            rows.append({"ev": "Query", "now": 0, "st": r["health"], "stored": r["stored"], "sstate": r["health"]})
        elif r["ev"] == "Req" and r["probe"] == "produce2":
            rows.append({"ev": "Produce2", "nerr": r["nfail"], "ctx": r.get("s3err") == "timeout", "st": r["items"][1]["healthAt"],
                         "items": [{"st": it["healthAt"], "acked": it["code"] == 0, "data": False, "code": it["code"], "uploaded": it["uploaded"]} for it in r["items"]]})
        elif r["ev"] == "Req":
            it = r["items"][0]
            rows.append({"ev": "Probe", "kind": r["probe"], "st": r["health"], "acked": r["api"] == "Produce" and it["code"] == 0,
                         "data": bool(it["data"]), "code": it["code"], "appended": bool(r["changed"])})
    return rows


def simulate(ctx, d, spec, cfg, num, depth, seed, timeout=1200):
    """tlc -simulate; EmitSched prints [header..., steps] at every visited state: keep the maximal step sequences."""
    r = T.tlc(ctx, d, spec, cfg, workers=1, simulate="num=%d" % num, depth=depth, seed=seed, deadlock_off=True, timeout=timeout)
    if r.violated:
        raise Broken("simulation config %s reported a violation:\n%s" % (cfg, r.out[-2000:]))
    hs = r.prints.get("SCHED", [])
    out, seen = [], set()
    for i, h in enumerate(hs):
        nxt = hs[i + 1] if i + 1 < len(hs) else None
        if nxt is not None and len(nxt["steps"]) > len(h["steps"]) and nxt["steps"][:len(h["steps"])] == h["steps"]:
            continue
        k = json.dumps(h, sort_keys=True)
        if h["steps"] and k not in seen:
            seen.add(k)
            out.append(h)
    return out, r


def split(rows):
    runs, cur = [], None
    for r in rows:
        if r["ev"] == "Reset":
            cur = []
            runs.append(cur)
        cur.append(r)
    return runs


def sched_of(h, win, maxn):
    return {"cfg": h["cfg"], "win": win, "maxn": maxn, "steps": h["steps"]}


def check(ctx, prop):
    quick = ctx.quick()
    d = T.stage(ctx, DIR, "mc")
    mc = T.model_check(ctx, d, "MC_S3Health.tla", "MC_S3Health_%s.cfg" % ctx.tier, coverage=not quick, timeout=2400, workers=8)
    ctx.log("model: %d distinct states, depth %d" % (mc.distinct, mc.depth))
    mon, gate = [], []   # (label, schedule)
    for dev, (inv, where) in sorted(DEVIATIONS.items()):
        h, r = T.counterexample_hist(ctx, d, "MC_S3Health.tla", "Dev_S3Health_%s.cfg" % dev, var="hist", timeout=600, workers=4)
        if h is None or inv not in r.violated:
            raise Broken("deviation %s does not violate %s in the model (vacuous deviation, or TLC failed):\n%s" % (dev, inv, r.out[-1500:]))
        cfg = json.load(open(os.path.join(d, "ce-Dev_S3Health_%s.json" % dev)))["counterexample"]["state"][-1][1]["cfg"]
        s = {"cfg": cfg, "win": DEV_WIN, "maxn": DEV_MAXN, "steps": h}
        if where == "gate":
            s["win"] = HUGE_WIN
            gate.append(("dev:" + dev, s))
        else:
            mon.append(("dev:" + dev, s))
    n = 150 if quick else 1500
    hs, _ = simulate(ctx, d, "MC_S3Health.tla", "Sim_S3Health.cfg", num=n, depth=16, seed=ctx.seed)
    for h in hs:
        mon.append(("sim", sched_of(h, SIM_WIN, SIM_MAXN)))
    ng = 60 if quick else 400
    hg, _ = simulate(ctx, d, "MC_S3Health.tla", "Sim_S3Health_gate.cfg", num=ng, depth=12, seed=ctx.seed + 7)
    for h in hg:
        gate.append(("simgate", sched_of(h, HUGE_WIN, SIM_MAXN)))
    ctx.log("%d monitor schedules, %d gate schedules (%d deviation counterexamples)" % (len(mon), len(gate), len(DEVIATIONS)))
    mrows = monitor_harness(ctx, [s for _, s in mon], "mon")
    grows = gate_harness(ctx, [s for _, s in gate], "gate")
    scheds = [s for _, s in mon] + [s for _, s in gate]
    labels = [l for l, _ in mon] + [l for l, _ in gate]
    rows = mrows + grows
    runs = split(rows)
    if len(runs) != len(scheds):
        raise Broken("harness recorded %d runs for %d schedules" % (len(runs), len(scheds)))
    nprobe = sum(1 for r in rows if r["ev"] == "Probe")
    nrej = sum(1 for r in rows if r["ev"] == "Probe" and r["st"] != "healthy")
    nquery = sum(1 for r in rows if r["ev"] in ("Query", "Probe", "Produce2"))
    ratings = {r["st"] for r in rows if r["ev"] in ("Query", "Probe")}
    p2 = [r for r in rows if r["ev"] == "Produce2"]
    nflip = sum(1 for r in p2 if r["items"][0]["st"] == "healthy" and r["items"][1]["st"] != "healthy")   # rating turned bad between the two partitions
    if nprobe == 0 or nrej == 0 or nrej == nprobe or ratings != {"healthy", "degraded", "unavailable"} or nflip == 0:
        raise Broken("vacuous run: probes=%d rejected=%d ratings=%s two-partition produces=%d with a mid-request flip=%d" % (nprobe, nrej, sorted(ratings), len(p2), nflip))
    consumed, _, ores = layers.observe(ctx, DIR, "Obs_S3Health.tla", "Obs_S3Health.cfg", rows, timeout=3000)
    sched_of_line = lambda line: sum(1 for r in rows[:line] if r["ev"] == "Reset") - 1
    where_of = lambda i: "gate" if scheds[i]["win"] == HUGE_WIN else "monitor"
    violations, first = [], set()
    for line, inv, partner in sorted(tuple(v) for v in ores.prints["OBS"][-1]["viol"]):
        ev = rows[line - 1]
        idx = sched_of_line(line)
        sig = "%s@%s" % (inv, where_of(idx) if inv != "C25_Gate" else ("Probe." + ev["kind"] if ev["ev"] == "Probe" else "Produce2"))
        if sig in first:
            continue
        first.add(sig)
        # pairwise predicates: the replay holds both executions (the earlier observation first)
        idxs = ([sched_of_line(partner)] if partner and sched_of_line(partner) != idx else []) + [idx]
        other = (" vs. the rating %s returned earlier (line %d: %s)" % (rows[partner - 1].get("st"), partner, json.dumps(rows[partner - 1], sort_keys=True))) if partner else ""
        path = save_replay(prop, "sched-%s.json" % re.sub(r"\W", "_", sig), {"schedules": [scheds[i] for i in idxs], "where": [where_of(i) for i in idxs], "labels": [labels[i] for i in idxs], "trace": [runs[i] for i in idxs], "line": ev})
        violations.append(Violation(prop, sig, "%s false on the real %s: %s%s [schedule %s, cfg %s, replay %s]" % (inv, "handler" if where_of(idx) == "gate" else "monitor", json.dumps(ev, sort_keys=True), other, labels[idx], scheds[idx]["cfg"]["id"], path), {"schedules": [scheds[i] for i in idxs], "where": [where_of(i) for i in idxs], "event": ev}))
    # layer C per (window, maxsamples)
    conf = {"accepted": 0, "rejected": 0, "first_rejection": None}
    for key in sorted({(s["win"], s["maxn"]) for s in scheds}):
        idxs = [i for i, s in enumerate(scheds) if (s["win"], s["maxn"]) == key]
        sub = [r for i in idxs for r in runs[i]]
        reached, total, _ = layers.conform(ctx, DIR, "Trace_S3Health.tla", "Trace_S3Health.cfg", sub, name="conf%d_%d" % key, cfg_text=TRACE_CFG % key, timeout=3000)
        if reached == total:
            conf["accepted"] += len(idxs)
        else:
            conf["rejected"] += 1
            conf["first_rejection"] = conf["first_rejection"] or {"win_maxn": key, "line": sub[reached] if reached < len(sub) else None}
    st = self_test(ctx, runs, scheds)
    level = "model_checking"
    drift = conf["rejected"] > 0
    if drift and not violations:
        level = "exploration"
        ctx.log("DRIFT: conformance layer rejected a trace although C25 held: " + json.dumps(conf["first_rejection"]))
    nontrivial = len({json.dumps(s, sort_keys=True) for i, s in enumerate(scheds) if len({r["st"] for r in runs[i] if r["ev"] in ("Query", "Probe")}) >= 2})
    cov = {
        "states": mc.distinct, "transitions": mc.generated, "depth": mc.depth, "exhaustive": True,
        "model_config": "MC_S3Health_%s.cfg" % ctx.tier,
        "traces_validated_against_impl": len(runs), "trace_events": len(rows),
        "evaluations": nquery, "gate_probes": nprobe, "gate_probes_while_unhealthy": nrej,
        "two_partition_produces": len(p2), "two_partition_produces_rating_flipped_mid_request": nflip,
        "distinct_nontrivial": nontrivial,
        "rule": "schedules = TLC counterexamples of the named deviations + TLC -simulate behaviours (seeded) of the monitor model (with ticks) and of the gate model (Record/Probe); evaluations = ratings returned by the real monitor and checked; non-trivial = distinct schedules in which the real code returned at least two different ratings",
        "deviation_schedules": sorted(DEVIATIONS), "conformance": ("drift" if drift else "accepted"), "conformance_detail": conf,
        "binding_self_test": st,
        "samples": [mon[0][1], gate[0][1], runs[0][:5], runs[len(mon)][:5]],
    }
    if not quick:
        cov["action_coverage"] = {k: v[1] for k, v in mc.action_coverage().items()}
        dead = [k for k in ("Record", "Tick", "Query", "Probe", "Produce2") if cov["action_coverage"].get(k, 0) == 0]
        if dead:
            raise Broken("vacuous model run: actions never taken: %s" % dead)
    return verdict(ctx, violations, level, cov, [
        "every S3HealthMonitor method is one critical section under m.mu: sequential histories cover all interleavings of complete calls",
        "virtual time (testing/synctest) stands for the wall clock; 1 tick = 1 s, latency unit = 100 ms; Window = W ticks - 0.5 tick (cutoff never hit exactly)",
        "gate probes: fresh real monitor fed with the schedule's samples before each request (window of 100000 ticks)",
        "ratings are compared across all executions of one run per threshold configuration (function-of-window, monotonicity)"])


def self_test(ctx, runs, scheds):
    """Corrupt recorded fields: layer O must flag a wrong rating and an acked probe, layer C must reject a wrong stored count."""
    qi = next(i for i, run in enumerate(runs) if any(r["ev"] == "Query" and r["st"] == "unavailable" for r in run))
    bad = copy.deepcopy(runs[qi])
    # a healthy twin of the same observation: same window, different rating -> not a function of the window
    k = next(j for j, r in enumerate(bad) if r["ev"] == "Query" and r["st"] == "unavailable")
    twin = dict(bad[k]); twin["st"] = "healthy"
    bad.insert(k + 1, twin)
    _, viol, _ = layers.observe(ctx, DIR, "Obs_S3Health.tla", "Obs_S3Health.cfg", bad, name="selfO1")
    if not any(v[1] == "C25_FunctionOfWindow" for v in viol):
        raise Broken("binding self-test: observation layer did not flag two ratings for one window")
    gi = next(i for i, run in enumerate(runs) if any(r["ev"] == "Probe" and r["st"] != "healthy" for r in run))
    bad = copy.deepcopy(runs[gi])
    tgt = next(r for r in bad if r["ev"] == "Probe" and r["st"] != "healthy")
    tgt["code"], tgt["acked"] = 0, tgt["kind"] == "produce"
    _, viol, _ = layers.observe(ctx, DIR, "Obs_S3Health.tla", "Obs_S3Health.cfg", bad, name="selfO2")
    if not any(v[1] == "C25_Gate" for v in viol):
        raise Broken("binding self-test: observation layer did not flag an accepted probe while unhealthy")
    bad = copy.deepcopy(runs[qi])
    tgt = [r for r in bad if r["ev"] == "Query"][-1]
    tgt["stored"] += 1
    key = (scheds[qi]["win"], scheds[qi]["maxn"])
    reached, total, _ = layers.conform(ctx, DIR, "Trace_S3Health.tla", "Trace_S3Health.cfg", bad, name="selfC", cfg_text=TRACE_CFG % key)
    if reached == total:
        raise Broken("binding self-test: conformance layer accepted a corrupted stored-sample count")
    return {"observation_layer_flags_corrupted_rating": True, "observation_layer_flags_accepted_probe": True, "conformance_layer_rejects_corrupted_state": True}


def replay(ctx, prop, path):
    obj = json.load(open(path))
    src = obj if "schedules" in obj else obj.get("detail", {})
    rows = []
    for k, (sched, where) in enumerate(zip(src["schedules"], src["where"])):
        rows += gate_harness(ctx, [sched], "replay%d" % k) if where == "gate" else monitor_harness(ctx, [sched], "replay%d" % k)
    _, viol, _ = layers.observe(ctx, DIR, "Obs_S3Health.tla", "Obs_S3Health.cfg", rows)
    for r in rows:
        print(json.dumps(r, sort_keys=True))
    for line, inv in viol:
        print("VIOLATION property=%s replay=%s" % (prop, path))
        print("  %s false at line %d" % (inv, line))
    return 1 if viol else 0
