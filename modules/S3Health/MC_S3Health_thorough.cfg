CONSTANTS
 Cfgs <- AllCfgs
 Window = 2
 MaxSamples = 3
 Lats = {0,1,2,3}
 MaxTick = 3
 MaxOps = 6
 Kinds <- Both
 DevRateNonMonotone = FALSE
 DevNoTruncOnQuery = FALSE
 DevNoCap = FALSE
 DevHealthNotChecked <- None
 DevDegradedPasses = FALSE
 DevGateHoisted = FALSE
 DevIgnoreCtxErrors = FALSE
INIT Init
NEXT Next
INVARIANTS C25_GridTheorem C25_FunctionOfWindow C25_Monotone C25_Gate StoredIsWindow Bounded
VIEW View
CHECK_DEADLOCK FALSE
