---- MODULE Trace_S3Health ----
(* Conformance layer: every recorded step of the real monitor (and of the handler's gate) must be a   *)
(* step of S3Health.tla with the same arguments, and the logged projection (stored sample count,      *)
(* stored m.state, returned rating, gate outcome) must equal the model's post-state.                  *)
EXTENDS MC_S3Health
TraceLog == ndJsonDeserialize("trace.ndjson")
VARIABLE l
tvars == <<vars, l>>
E == TraceLog[l]
Cur(ev) == l <= Len(TraceLog) /\ E.ev = ev /\ l' = l + 1
TInit == Init /\ l = 1 /\ TLCSet(7, 0)
TReset == /\ Cur("Reset") /\ E.win = Window /\ E.maxn = MaxSamples
          /\ cfg' \in {c \in Cfgs : c.id = E.cfg.id}
          /\ now' = 0 /\ samples' = <<>> /\ state' = "healthy" /\ recent' = <<>>
          /\ ret' = NoObs /\ probe' = NoProbe /\ nops' = 0 /\ hist' = <<>>
StoredOk == E.stored = -1 \/ Len(samples') = E.stored      \* -1: not observable from package main (gate harness)
TRecord == Cur("Record") /\ Record(E.lat, E.err) /\ StoredOk /\ state' = E.sstate
TTick == Cur("Tick") /\ Tick /\ now' = E.now /\ StoredOk /\ state' = E.sstate
TQuery == Cur("Query") /\ Query /\ state' = E.st /\ StoredOk /\ state' = E.sstate
PMatch(m, st, acked, data, code) == m.health = st /\ m.acked = acked /\ m.data = data /\ m.code = code
TProbe == /\ Cur("Probe") /\ Probe(E.kind)
          /\ PMatch(probe'[1], E.st, E.acked, E.data, E.code)
TProduce2 == /\ Cur("Produce2") /\ \E k \in {1, 2} : (E.nerr = 0 \/ E.nerr = k) /\ Produce2(k, E.ctx)
             /\ Len(E.items) = 2
             /\ \A i \in 1..2 : PMatch(probe'[i], E.items[i].st, E.items[i].acked, E.items[i].data, E.items[i].code)
Consumed == TLCSet(7, IF TLCGet(7) < l THEN l ELSE TLCGet(7))
TNext == (TReset \/ TRecord \/ TTick \/ TQuery \/ TProbe \/ TProduce2) /\ Consumed
TSpec == TInit /\ [][TNext]_tvars
Reached == PrintT(<<"CONF", ToJson([reached |-> TLCGet(7), total |-> Len(TraceLog)])>>)
====
