---- MODULE MC_S3Health ----
EXTENDS S3Health
\* threshold configurations in latency units / fractions (ed = denominator); c3, c4 are warn > crit misconfigurations
AllCfgs == { [id |-> "c1", lw |-> 1, lc |-> 3, ewn |-> 1, ecn |-> 2, ed |-> 3],
             [id |-> "c2", lw |-> 2, lc |-> 2, ewn |-> 1, ecn |-> 3, ed |-> 4],
             [id |-> "c3", lw |-> 3, lc |-> 2, ewn |-> 1, ecn |-> 2, ed |-> 2],
             [id |-> "c4", lw |-> 2, lc |-> 3, ewn |-> 2, ecn |-> 1, ed |-> 3] }
TwoCfgs == { c \in AllCfgs : c.id \in {"c1", "c3"} }
Both == {"produce", "fetch"}
None == {}
OnlyProduce == {"produce"}
OnlyFetch == {"fetch"}
====
