package broker

// Verification harness (injected with `go test -overlay`; not part of the repository).
// Replays TLC-generated Record/Tick/Query sequences on the real S3HealthMonitor under virtual time
// (testing/synctest) and records one ndjson line per step.  Time unit: 1 tick = 1 s, latency unit = 100 ms.
// The monitor's Window is W ticks minus half a tick, so no sample ever sits exactly on the cutoff.

import (
	"bufio"
	"encoding/json"
	"errors"
	"os"
	"testing"
	"testing/synctest"
	"time"
)

type vsCfg struct {
	ID  string `json:"id"`
	Lw  int    `json:"lw"`
	Lc  int    `json:"lc"`
	Ewn int    `json:"ewn"`
	Ecn int    `json:"ecn"`
	Ed  int    `json:"ed"`
}

type vsStep struct {
	A    string `json:"a"`
	Lat  int    `json:"lat"`
	Err  bool   `json:"err"`
	Kind string `json:"kind"`
}

type vsSched struct {
	Cfg   vsCfg    `json:"cfg"`
	Win   int      `json:"win"`
	MaxN  int      `json:"maxn"`
	Steps []vsStep `json:"steps"`
}

const (
	vsTick = time.Second
	vsUnit = 100 * time.Millisecond
)

func vsStored(m *S3HealthMonitor) (int, string) {
	m.mu.Lock()
	defer m.mu.Unlock()
	return len(m.samples), string(m.state)
}

func TestVerifS3HealthReplay(t *testing.T) {
	in, outPath := os.Getenv("VERIF_SCHEDULES"), os.Getenv("VERIF_TRACE_OUT")
	if in == "" || outPath == "" {
		t.Skip("no schedules")
	}
	f, err := os.Open(in)
	if err != nil {
		t.Fatal(err)
	}
	defer f.Close()
	out, err := os.Create(outPath)
	if err != nil {
		t.Fatal(err)
	}
	defer out.Close()
	w := bufio.NewWriter(out)
	defer w.Flush()
	emit := func(m map[string]any) {
		b, _ := json.Marshal(m)
		w.Write(b)
		w.WriteByte('\n')
	}
	var scheds []vsSched
	sc := bufio.NewScanner(f)
	sc.Buffer(make([]byte, 1<<20), 1<<26)
	for sc.Scan() {
		var s vsSched
		if err := json.Unmarshal(sc.Bytes(), &s); err != nil {
			t.Fatal(err)
		}
		scheds = append(scheds, s)
	}
	n := 0
	synctest.Test(t, func(t *testing.T) {
		boom := errors.New("verif: injected S3 failure")
		for i, s := range scheds {
			m := NewS3HealthMonitor(S3HealthConfig{
				Window:      time.Duration(s.Win)*vsTick - vsTick/2,
				LatencyWarn: time.Duration(s.Cfg.Lw) * vsUnit,
				LatencyCrit: time.Duration(s.Cfg.Lc) * vsUnit,
				ErrorWarn:   float64(s.Cfg.Ewn) / float64(s.Cfg.Ed),
				ErrorCrit:   float64(s.Cfg.Ecn) / float64(s.Cfg.Ed),
				MaxSamples:  s.MaxN,
			})
			emit(map[string]any{"ev": "Reset", "sched": i, "cfg": s.Cfg, "win": s.Win, "maxn": s.MaxN})
			now := 0
			for _, st := range s.Steps {
				switch st.A {
				case "Record":
					var e error
					if st.Err {
						e = boom
					}
					m.RecordOperation("verif", time.Duration(st.Lat)*vsUnit, e)
					stored, sstate := vsStored(m)
					emit(map[string]any{"ev": "Record", "lat": st.Lat, "err": st.Err, "now": now, "stored": stored, "sstate": sstate})
				case "Tick":
					time.Sleep(vsTick)
					now++
					stored, sstate := vsStored(m)
					emit(map[string]any{"ev": "Tick", "now": now, "stored": stored, "sstate": sstate})
				case "Query", "Probe":
					var got string
					if st.A == "Query" && now%2 == 1 {
						got = string(m.Snapshot().State) // both read paths
					} else {
						got = string(m.State())
					}
					stored, sstate := vsStored(m)
					emit(map[string]any{"ev": "Query", "now": now, "st": got, "stored": stored, "sstate": sstate})
				default:
					t.Fatalf("unknown step %q", st.A)
				}
			}
			n++
		}
	})
	t.Logf("replayed %d schedules", n)
}
