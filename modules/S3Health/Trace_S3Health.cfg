CONSTANTS
 Cfgs <- AllCfgs
 Window = 3
 MaxSamples = 3
 Lats = {0,1,2,3}
 MaxTick = 1000000
 MaxOps = 1000000
 Kinds <- Both
 DevRateNonMonotone = FALSE
 DevNoTruncOnQuery = FALSE
 DevNoCap = FALSE
 DevHealthNotChecked <- None
 DevDegradedPasses = FALSE
 DevGateHoisted = FALSE
 DevIgnoreCtxErrors = FALSE
INIT TInit
NEXT TNext
POSTCONDITION Reached
CHECK_DEADLOCK FALSE
