CONSTANTS
 Cfgs <- TwoCfgs
 Window = 2
 MaxSamples = 2
 Lats = {0,1,3}
 MaxTick = 0
 MaxOps = 4
 Kinds <- Both
 DevRateNonMonotone = FALSE
 DevNoTruncOnQuery = FALSE
 DevNoCap = FALSE
 DevHealthNotChecked <- None
 DevDegradedPasses = FALSE
 DevGateHoisted = FALSE
 DevIgnoreCtxErrors = TRUE
INIT Init
NEXT Next
INVARIANTS C25_FunctionOfWindow C25_Monotone C25_Gate
VIEW View
CHECK_DEADLOCK FALSE
