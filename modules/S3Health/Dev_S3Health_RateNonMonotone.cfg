CONSTANTS
 Cfgs <- AllCfgs
 Window = 2
 MaxSamples = 2
 Lats = {0,1,3}
 MaxTick = 3
 MaxOps = 6
 Kinds <- None
 DevRateNonMonotone = TRUE
 DevNoTruncOnQuery = FALSE
 DevNoCap = FALSE
 DevHealthNotChecked <- None
 DevDegradedPasses = FALSE
 DevGateHoisted = FALSE
 DevIgnoreCtxErrors = FALSE
INIT Init
NEXT Next
INVARIANTS C25_FunctionOfWindow C25_Monotone C25_Gate
VIEW View
CHECK_DEADLOCK FALSE
