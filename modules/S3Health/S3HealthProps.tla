---- MODULE S3HealthProps ----
(* C25 stated once, over parameters.  S3Health.tla instantiates the predicates with model values,   *)
(* Obs_S3Health.tla with values observed on the real S3HealthMonitor / the real broker handler.      *)
(*                                                                                                  *)
(* An *observation* is what a caller of State() can relate: the samples that are inside the window  *)
(* at that instant, summarised as  n (count), tot (sum of latencies), ec (number of errors), and the *)
(* rating st that was returned, under threshold configuration cfg.                                   *)
(* error rate = ec/n and average latency = tot/n are compared as exact rationals (cross-multiplied); *)
(* an empty window has rate 0 and latency 0.                                                         *)
EXTENDS Integers, Sequences
CONSTANTS new,    \* observations made at this step
          all,    \* observations to compare with (everything seen so far / the whole grid)
          probes  \* the partitions of the last request that reached the handler's health gate, a set of
                  \*   [health, acked, data, code]: health = rating of the monitor while the broker handled (decided /
                  \*   wrote) that partition; acked = produce acknowledged; data = fetch reply carries records

Rank(s) == CASE s = "healthy" -> 0 [] s = "degraded" -> 1 [] s = "unavailable" -> 2 [] OTHER -> 3
Den(o) == IF o.n = 0 THEN 1 ELSE o.n
RateEq(a, b) == a.ec * Den(b) = b.ec * Den(a)
RateGe(a, b) == a.ec * Den(b) >= b.ec * Den(a)
LatEq(a, b) == a.tot * Den(b) = b.tot * Den(a)
LatGe(a, b) == a.tot * Den(b) >= b.tot * Den(a)

\* the window itself (shared by model and observation layer): the most recent `maxn` of the samples
\* younger than `w` ticks;  samples = sequence of [ts, lat, err] in recording order
RECURSIVE Young(_, _, _)
Young(s, now, w) == IF s = <<>> THEN <<>>
                    ELSE IF now - Head(s).ts < w THEN s      \* recording order = time order: keep the suffix
                    ELSE Young(Tail(s), now, w)
LastN(s, k) == IF Len(s) <= k THEN s ELSE SubSeq(s, Len(s) - k + 1, Len(s))
InWindow(s, now, w, maxn) == Young(LastN(s, maxn), now, w)
RECURSIVE SumLat(_)
SumLat(s) == IF s = <<>> THEN 0 ELSE Head(s).lat + SumLat(Tail(s))
RECURSIVE NumErr(_)
NumErr(s) == IF s = <<>> THEN 0 ELSE (IF Head(s).err THEN 1 ELSE 0) + NumErr(Tail(s))
Summary(win) == [n |-> Len(win), tot |-> SumLat(win), ec |-> NumErr(win)]

\* the rating depends only on (error rate, latency) of the window ...
C25_FunctionOfWindow ==
  \A a \in new : \A b \in all : (a.cfg = b.cfg /\ RateEq(a, b) /\ LatEq(a, b)) => a.st = b.st
\* ... and a higher error rate or latency never gives a better rating
C25_Monotone ==
  \A a \in new : \A b \in all :
     a.cfg = b.cfg =>
       /\ (RateGe(a, b) /\ LatGe(a, b)) => Rank(a.st) >= Rank(b.st)
       /\ (RateGe(b, a) /\ LatGe(b, a)) => Rank(b.st) >= Rank(a.st)
\* while S3 is rated degraded/unavailable: no produce acked, no fetch data, a backpressure code per partition.
\* "retriable error" is read as the broker's two backpressure codes REQUEST_TIMED_OUT(7) / UNKNOWN_SERVER_ERROR(-1)
\* (docs/architecture.md "S3 Health Backpressure"; pinned by the repository's own tests).
Backpressure == {7, -1}
C25_Gate == \A p \in probes : p.health # "healthy" => (~p.acked /\ ~p.data /\ p.code \in Backpressure)
====
