"""Keys.tla — C22 (topic-name acceptance; S3 / etcd / in-memory key functions).  Function-level module (DESIGN §3.3)."""
import copy, json, os, re
from lib import tlc as T, layers, gorun
from lib.common import Broken, Violation, verdict, save_replay

PROPS = {
    "C22": {
        "text": "Keys.tla enumerates, by TLC actions, every ordered pair of topic names built from 1..3 '/'-separated segments over {a, b, 0, ., .., empty, a:0, a.0}; it transcribes topic-name acceptance and the key functions (segmentKey/indexKey/segmentPrefix/cacheTopicKey with path.Join's cleaning, offsetKey, consumerOffsetKey, partitionLeaseKey, in-memory partitionKey/consumerKey, the DeleteTopic prefixes of both stores) on real strings, and TLC checks C22 (KeysProps.tla, from the statement: names with separators or dot segments are rejected; two distinct accepted names share no key, no key of one lies under a partition prefix of the other, deleting one removes no key of the other) for every pair. Every enumerated name is pushed through the real InMemoryStore.CreateTopic, EtcdStore.CreateTopic (embedded etcd) and CreateTopics API (each with partition counts -1 = broker default, 0, 1, 2), the broker's Metadata auto-create and produce-path auto-create, the real key functions, and the real DeleteTopic of both stores with all other topics' offsets stored; TLC evaluates the same predicates on the recorded acceptance decisions and key strings for every ordered pair (layer O) and compares every string with the model (layer C).",
        "note": "Trusted: TLC, embedded etcd, the harness (names rendered by joining segments with '/', partitions 0 and 1, base offset 0, one consumer group 'g', S3 namespace 'ns'). The cache key is observed as cacheTopicKey:partition. Topic-level S3 prefixes used by point-in-time recovery and topics that enter through the operator's snapshot (not through a creation path) are not covered. Names are bounded to 3 segments over 8 symbols.",
        "technique": "TLA+ model (Keys.tla) + TLC exhaustive check over all name pairs of the bounded domain + every enumerated name run through the real creation paths, key functions and DeleteTopic + TLC evaluation of the property predicates on the real strings (observation layer) and comparison with the model (conformance layer)",
    }
}
DEVIATIONS = {"AnyName": "C22_Rejects", "AnyNameCollide": "C22_DisjointKeys", "SlashOnly": "C22_Rejects", "DotOnly": "C22_NoCapture", "AllowColon": "C22_NoCapture", "DefaultParts": "C22_Rejects"}
W = 6


def par(fns):
    from concurrent.futures import ThreadPoolExecutor
    with ThreadPoolExecutor(max_workers=len(fns)) as ex:
        futs = [ex.submit(f) for f in fns]
        return [f.result() for f in futs]


def harness(ctx, names, tag, counts):
    """names: list of segment lists.  Three packages are driven; their lines are merged per name (index order)."""
    sp = os.path.join(ctx.scratch, "in-%s.ndjson" % tag)
    gorun.write_ndjson(sp, [{"counts": counts}] + [{"segs": n} for n in names])
    jobs = [
        ("s3", "./pkg/storage/", "pkg/storage/zz_verif_keys_s3_test.go", "keys_s3_verif_test.go", "^TestVerifKeysS3$"),
        ("meta", "./pkg/metadata/", "pkg/metadata/zz_verif_keys_meta_test.go", "keys_meta_verif_test.go", "^TestVerifKeysMeta$"),
        ("broker", "./cmd/broker/", "cmd/broker/zz_verif_keys_broker_test.go", "keys_broker_verif_test.go", "^TestVerifKeysBroker$"),
    ]
    got = {}
    for key, pkg, target, src, run_re in jobs:
        tp = os.path.join(ctx.scratch, "trace-%s-%s.ndjson" % (tag, key))
        rc, out = gorun.go_test(ctx, ".", pkg, {target: os.path.join(DIR, "harness", src)}, run_re,
                                env={"VERIF_SCHEDULES": sp, "VERIF_TRACE_OUT": tp}, timeout=1500)
        if rc != 0 or "replayed %d schedules" % len(names) not in out:
            raise Broken("keys harness %s failed:\n%s" % (key, out[-3000:]))
        got[key] = gorun.read_ndjson(tp)
        if len(got[key]) != len(names):
            raise Broken("keys harness %s recorded %d lines for %d names" % (key, len(got[key]), len(names)))
    rows = []
    for i, segs in enumerate(names):
        s3, me, br = got["s3"][i], got["meta"][i], got["broker"][i]
        if not (s3["i"] == me["i"] == br["i"] == i and s3["name"] == me["name"] == br["name"]):
            raise Broken("keys harness lines out of step at %d" % i)
        acc_by = {"auto": br["accAuto"], "prod": br["accProd"]}                       # auto-creation: the broker picks the count
        acc_cnt = {"mem": me["cntMem"], "etcd": me["cntEtcd"], "api": br["cntApi"]}   # explicit creation, one flag per count
        in_store = {"mem": me["accMem"], "etcd": me["accEtcd"]}
        acc = any(acc_by.values()) or any(any(v) for v in acc_cnt.values())
        rows.append({"ev": "Name", "i": i, "segs": segs, "name": me["name"], "accBy": acc_by, "accCnt": acc_cnt, "inStore": in_store, "acc": acc,
                     "s3": s3["s3"], "s3pre": s3["s3pre"], "cache": s3["cache"], "etcd": me["etcd"], "lease": me["lease"],
                     "mem": me["mem"], "memc": me["memc"], "delEtcd": me["delEtcd"], "delMem": me["delMem"], "delMemC": me["delMemC"]})
    return rows


def name_class(segs):
    """Class of an abstract name (signatures / non-triviality); computed from the input only."""
    c = []
    if len(segs) > 1:
        c.append("separator")
    if any(s in (".", "..") for s in segs):
        c.append("dot-segment")
    if any(":" in s for s in segs):
        c.append("colon")
    if segs == [""]:
        c.append("empty")
    return "+".join(c) or "plain"


def check(ctx, prop):
    quick = ctx.quick()
    d = T.stage(ctx, DIR, "mc")
    mc = T.model_check(ctx, d, "MC_Keys.tla", "MC_Keys_%s.cfg" % ctx.tier, workers=W, coverage=not quick, timeout=3000)
    names = mc.prints.get("INPUT", [])
    counts = (mc.prints.get("COUNTS") or [None])[0]
    if not names or not counts:
        raise Broken("the model printed no names / partition counts")
    if not quick:
        cov_actions = {k: v[1] for k, v in mc.action_coverage().items() if k in ("Seg", "EndName")}
        if any(v == 0 for v in cov_actions.values()) or len(cov_actions) < 2:
            raise Broken("vacuous model run: action coverage %s" % cov_actions)
    names.sort(key=lambda n: (len(n), json.dumps(n)))
    ctx.log("model: %d distinct states, %d names (%d ordered pairs)" % (mc.distinct, len(names), len(names) ** 2))
    devs = sorted(DEVIATIONS)

    def dev_run(dev):
        dd = T.stage(ctx, DIR, "dev-" + dev)
        return T.counterexample_hist(ctx, dd, "MC_Keys.tla", "Dev_Keys_%s.cfg" % dev, workers=1, timeout=600)
    dev_pairs = {}
    for dev, (h, r) in zip(devs, par([(lambda dv=dv: dev_run(dv)) for dv in devs])):
        if h is None or DEVIATIONS[dev] not in r.violated:
            raise Broken("deviation %s no longer violates %s in the model (vacuous deviation)" % (dev, DEVIATIONS[dev]))
        pair = [[s["s"] for s in h if s["a"] == "Seg" and s["w"] == w] for w in (1, 2)]
        dev_pairs[dev] = pair
        for n in pair:
            if n not in names:
                raise Broken("deviation %s counterexample uses a name outside the enumerated domain: %s" % (dev, n))
    rows = harness(ctx, names, "main", counts)
    ctx.log("harness: %d names through the creation paths (2 auto-create + 3 explicit x partition counts), key functions and DeleteTopic of both stores; %d accepted by some path" % (len(rows), sum(1 for r in rows if r["acc"])))
    # binding self-test lines ride at the end: two accepted names sharing an S3 key (O), a changed key string (C)
    base = next((r for r in rows if r["acc"] and name_class(r["segs"]) == "plain"), None)
    if base is None:
        raise Broken("no plain name was accepted by any creation path: harness or tree is broken")
    badO = copy.deepcopy(base)
    badO["segs"] = base["segs"] + ["zz"]     # pretend a second, distinct accepted name produced the same keys
    badC = copy.deepcopy(base)
    badC["s3"][0] += "x"   # (an S3 key: etcd/mem keys would also change the DeleteTopic universe of the other lines)
    _, _, ro = layers.observe(ctx, DIR, "Obs_Keys.tla", "Obs_Keys.cfg", rows + [badO], timeout=3000)
    viol = ro.prints["OBS"][-1]["viol"]
    n = len(rows)
    if not any(v[0] == n + 1 and v[1] == "C22_DisjointKeys" for v in viol):
        raise Broken("binding self-test: observation layer did not flag two accepted names with identical keys")
    viol = sorted((v for v in viol if v[0] <= n), key=lambda v: (v[0], v[1], v[3]))
    ctx.log("layer O: %d lines, %d predicate failures recorded" % (n, len(viol)))
    violations, per_sig = [], {}
    for line, inv, other, direction in viol:
        row = rows[line - 1]
        if inv == "C22_Rejects":
            paths = "+".join(sorted([k for k, v in row["accBy"].items() if v] +
                                    ["%s(%s)" % (k, ",".join(str(c) for c, ok in zip(counts, v) if ok)) for k, v in row["accCnt"].items() if any(v)]))
            sig = "%s@%s:%s" % (inv, name_class(row["segs"]), paths)
            what = "name %s (%s) is accepted by %s" % (json.dumps(row["name"]), name_class(row["segs"]), paths)
            detail = {"names": [row["segs"]], "line": row}
        else:
            a, b = (rows[other - 1], row) if direction == "ab" else (row, rows[other - 1])
            sig = "%s@pair:%s" % (inv, "+".join(sorted(set((name_class(a["segs"]) + "+" + name_class(b["segs"])).split("+")) - {"plain"})) or "plain")
            what = "accepted names a=%s b=%s: %s" % (json.dumps(a["name"]), json.dumps(b["name"]), describe(inv, a, b))
            detail = {"names": [a["segs"], b["segs"]], "a": a, "b": b}
        per_sig.setdefault(sig, []).append(line)
        if len(per_sig[sig]) > 1:
            continue
        path = save_replay(prop, "names-%s.json" % re.sub(r"\W", "_", sig)[:80], detail)
        violations.append(Violation(prop, sig, "%s false on the real code: %s [replay %s]" % (inv, what, path), detail))
    for v in violations:
        v.what += " (%d recorded failures with this signature)" % len(per_sig[v.sig])
    reached, total, _ = layers.conform(ctx, DIR, "Trace_Keys.tla", "Trace_Keys.cfg", rows + [badC], timeout=3000)
    if reached > n:
        raise Broken("binding self-test: conformance layer accepted a changed key string")
    if reached < n:
        # the self-test line needs the whole trace as context (DeleteTopic universe): put it first
        r1, t1, _ = layers.conform(ctx, DIR, "Trace_Keys.tla", "Trace_Keys.cfg", [badC] + rows, name="selfC")
        if r1 >= 1:
            raise Broken("binding self-test: conformance layer accepted a changed key string")
    ctx.log("layer C: %d of %d lines accepted" % (reached, n))
    drift = reached != n
    conf = {"accepted_lines": reached, "total_lines": n, "first_rejection": None if not drift else rows[reached]}
    level = "model_checking"
    if drift and not violations:
        level = "exploration"
        ctx.log("DRIFT: conformance layer rejected line %d although C22 held: %s" % (reached + 1, json.dumps(conf["first_rejection"])[:800]))
    classes = {}
    for r in rows:
        c = name_class(r["segs"])
        classes[c] = classes.get(c, 0) + 1
    acc = [r for r in rows if r["acc"]]
    cov = {
        "states": mc.distinct, "transitions": mc.generated, "depth": mc.depth, "exhaustive": True,
        "model_config": "MC_Keys_%s.cfg" % ctx.tier,
        "traces_validated_against_impl": len(rows), "trace_events": len(rows),
        "evaluations": len(rows), "ordered_pairs_of_accepted_names_evaluated": len(acc) * (len(acc) - 1),
        "distinct_nontrivial": sum(1 for r in rows if name_class(r["segs"]) != "plain"), "name_classes": classes,
        "accepted_names": [r["name"] for r in acc][:40],
        "rule": "inputs = every name enumerated by TLC in MC_Keys_<tier> (all of them are run); each goes through the creation paths (Metadata / produce auto-create; InMemoryStore.CreateTopic, EtcdStore.CreateTopic and the CreateTopics API each with partition counts -1, 0, 1, 2), 9 key functions x 2 partitions and DeleteTopic of both stores; layer O evaluates C22_Rejects per name and the pair predicates for every ordered pair of names accepted by some path; non-trivial = name has a separator, a dot segment, a colon or is empty",
        "deviation_schedules": devs, "deviation_pairs": dev_pairs, "conformance": ("drift" if drift else "accepted"), "conformance_detail": conf,
        "binding_self_test": {"observation_layer_flags_corrupted_field": True, "conformance_layer_rejects_corrupted_state": True},
        "samples": [names[0], names[len(names) // 2], {k: rows[len(rows) // 2][k] for k in ("name", "accBy", "s3", "etcd", "mem")}],
    }
    if not quick:
        cov["action_coverage"] = cov_actions
    return verdict(ctx, violations, level, cov, [
        "a name is 'accepted' when any creation path creates it: Metadata auto-create, produce-path auto-create, or InMemoryStore.CreateTopic / EtcdStore.CreateTopic / CreateTopics API with any partition count of {-1 (broker default), 0, 1, 2}",
        "keys are observed for partitions 0 and 1, base offset 0, consumer group 'g', S3 namespace 'ns'",
        "DeleteTopic is exercised with the offsets and consumer offsets of every accepted name stored; removed keys are found by diffing the store contents"])


def describe(inv, a, b):
    """Human-readable pointer to what is shared (reporting only; the verdict is TLC's)."""
    out = []
    for fam in ("s3", "cache", "etcd", "lease", "mem", "memc"):
        common = sorted(set(a[fam]) & set(b[fam]))
        if common:
            out.append("%s key %s belongs to both" % (fam, common[0]))
    for k in b["s3"]:
        for p in a["s3pre"]:
            if k.startswith(p):
                out.append("S3 object %s of b lies under partition prefix %s of a" % (k, p))
                break
    de = sorted(set(a["delEtcd"]) & (set(b["etcd"]) - set(a["etcd"])))
    dm = sorted((set(a["delMem"]) & (set(b["mem"]) - set(a["mem"]))) | (set(a["delMemC"]) & (set(b["memc"]) - set(a["memc"]))))
    if de:
        out.append("EtcdStore.DeleteTopic(a) removed %s of b" % de[0])
    if dm:
        out.append("InMemoryStore.DeleteTopic(a) removed %s of b" % dm[0])
    return "; ".join(out[:3]) or inv


def replay(ctx, prop, path):
    obj = json.load(open(path))
    det = obj.get("detail", obj)
    names = det["names"]
    if ["a"] not in names:
        names = names + [["a"]]
    rows = harness(ctx, names, "replay", det.get("counts") or [-1, 0, 1, 2])
    _, _, ro = layers.observe(ctx, DIR, "Obs_Keys.tla", "Obs_Keys.cfg", rows)
    viol = ro.prints["OBS"][-1]["viol"]
    for r in rows:
        print(json.dumps(r, sort_keys=True))
    for v in viol:
        print("VIOLATION property=%s replay=%s" % (prop, path))
        print("  %s false at line %d (partner line %s)" % (v[1], v[0], v[2]))
    return 1 if viol else 0
