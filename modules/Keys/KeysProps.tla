---- MODULE KeysProps ----
(* C22 stated once, from the property statement, over parameters.  Keys.tla instantiates it    *)
(* with the keys computed by the model's transcription of the key functions, Obs_Keys.tla with *)
(* the acceptance decisions and key strings observed from the real code.                       *)
EXTENDS Integers, Sequences, FiniteSets
CONSTANTS a, b,    \* two topic names as observed: [segs, acc, s3, s3pre, cache, etcd, lease, mem, memc]
                   \*   segs  = the name as a sequence of "/"-separated segments (the abstract input)
                   \*   acc   = accepted by some topic-creation / auto-creation path
                   \*   s3    = S3 object keys of partitions 0,1 (segment + index), s3pre = the partitions' listing prefixes
                   \*   cache = segment-cache topic keys, etcd = offset + consumer-offset keys, lease = partition lease keys
                   \*   mem / memc = keys of the in-memory metadata store's offsets / consumer-offsets maps
          delEtcd, \* the etcd keys of b (not also keys of a) that DeleteTopic(a) removes
          delMem   \* the in-memory offsets / consumer-offsets keys of b (not also keys of a) that DeleteTopic(a) removes
HasPrefix(s, pre) == Len(s) >= Len(pre) /\ SubSeq(s, 1, Len(pre)) = pre
HasSeparator(x) == Len(x.segs) > 1
HasDotSegment(x) == \E i \in DOMAIN x.segs : x.segs[i] \in {".", ".."}
Pair == a.acc /\ b.acc /\ a.segs # b.segs       \* two distinct accepted topic names

\* names containing path separators or dot segments are rejected
C22_Rejects == (HasSeparator(a) \/ HasDotSegment(a)) => ~a.acc
\* two distinct accepted topics never map to the same S3 objects / cache entries / etcd keys / metadata keys
C22_DisjointKeys == Pair =>
  /\ a.s3 \cap b.s3 = {} /\ a.cache \cap b.cache = {}
  /\ a.etcd \cap b.etcd = {} /\ a.lease \cap b.lease = {} /\ a.mem \cap b.mem = {} /\ a.memc \cap b.memc = {}
\* ... nor does a topic's storage lie inside a partition of another (listing prefix), nor does deleting one remove keys of the other
C22_NoCapture == Pair =>
  /\ \A k \in b.s3 : \A p \in a.s3pre : ~HasPrefix(k, p)
  /\ delEtcd = {} /\ delMem = {}
====
