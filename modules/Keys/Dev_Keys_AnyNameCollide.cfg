CONSTANTS
 Sym = {"a","b","0",".","..","","a:0","a.0"}
 MaxSeg = 2
 FixValidate = FALSE
 DevSlashOnly = FALSE
 DevDotOnly = FALSE
 DevAllowColon = FALSE
 DevDefaultPartsSkipsNameCheck = FALSE
INIT Init
NEXT Next
INVARIANTS C22_DisjointKeys
VIEW View
CHECK_DEADLOCK FALSE
