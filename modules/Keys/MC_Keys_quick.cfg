CONSTANTS
 Sym = {"a","b","0",".","..","","a:0","a.0"}
 MaxSeg = 2
 FixValidate = TRUE
 DevSlashOnly = FALSE
 DevDotOnly = FALSE
 DevAllowColon = FALSE
 DevDefaultPartsSkipsNameCheck = FALSE
INIT Init
NEXT Next
INVARIANTS C22_Rejects C22_DisjointKeys C22_NoCapture EmitInput
VIEW View
CHECK_DEADLOCK FALSE
