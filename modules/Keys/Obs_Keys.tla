---- MODULE Obs_Keys ----
(* Observation layer: no model.  One line per topic name: whether the real creation paths      *)
(* accepted it, the real key strings, and the keys the real DeleteTopic removed.  C22 is the    *)
(* KeysProps text, evaluated for every ordered pair of recorded names.                          *)
EXTENDS Integers, Sequences, FiniteSets, TLC, Json
TraceLog == ndJsonDeserialize("trace.ndjson")
Rng(s) == {s[i] : i \in DOMAIN s}
VARIABLES l, viol
ovars == <<l, viol>>
R(e) == [segs |-> e.segs, acc |-> e.acc, s3 |-> Rng(e.s3), s3pre |-> Rng(e.s3pre), cache |-> Rng(e.cache),
         etcd |-> Rng(e.etcd), lease |-> Rng(e.lease), mem |-> Rng(e.mem), memc |-> Rng(e.memc)]
P(x, y, de, dm) == INSTANCE KeysProps WITH a <- x, b <- y, delEtcd <- de, delMem <- dm
\* predicates for the ordered pair (a = line i, b = line j)
Fails(i, j) ==
  LET ei == TraceLog[i]  ej == TraceLog[j]
      x == R(ei)  y == R(ej)
      de == Rng(ei.delEtcd) \cap (y.etcd \ x.etcd)
      dm == (Rng(ei.delMem) \cap (y.mem \ x.mem)) \cup (Rng(ei.delMemC) \cap (y.memc \ x.memc))
  IN (IF P(x, y, de, dm)!C22_DisjointKeys THEN {} ELSE {"C22_DisjointKeys"}) \cup
     (IF P(x, y, de, dm)!C22_NoCapture THEN {} ELSE {"C22_NoCapture"})
Min(S) == CHOOSE m \in S : \A o \in S : m <= o
OInit == l = 0 /\ viol = {}
Step ==
  /\ l < Len(TraceLog) /\ l' = l + 1
  /\ LET j == l + 1
         e == TraceLog[j]
         x == R(e)
         \* only accepted names can form a violating pair (Pair in KeysProps): skip the others early
         cand == IF e.acc THEN {i \in 1..(j - 1) : TraceLog[i].acc} ELSE {}
         fwd == [i \in cand |-> Fails(i, j)]     \* a = earlier line, b = this line
         bwd == [i \in cand |-> Fails(j, i)]     \* a = this line, b = earlier line
         pairBad == {<<n, d>> \in {"C22_DisjointKeys", "C22_NoCapture"} \X {"ab", "ba"} :
                       \E i \in cand : n \in (IF d = "ab" THEN fwd[i] ELSE bwd[i])}
     IN
     /\ viol' = viol
          \cup (IF P(x, x, {}, {})!C22_Rejects THEN {} ELSE {<<j, "C22_Rejects", 0, "a">>})
          \cup {<<j, nd[1], Min({i \in cand : nd[1] \in (IF nd[2] = "ab" THEN fwd[i] ELSE bwd[i])}), nd[2]>> : nd \in pairBad}
     /\ (l' = Len(TraceLog)) => PrintT(<<"OBS", ToJson([consumed |-> l', viol |-> viol'])>>)
OSpec == OInit /\ [][Step]_ovars
====
