---- MODULE Trace_Keys ----
(* Conformance layer: for every recorded name the acceptance decision of every creation path,   *)
(* every real key string and the set of keys removed by the real DeleteTopic must equal what    *)
(* Keys.tla computes (repaired-tree constants).                                                 *)
EXTENDS Keys
TraceLog == ndJsonDeserialize("trace.ndjson")
VARIABLE l
tvars == <<vars, l>>
E == TraceLog[l]
Rng(s) == {s[i] : i \in DOMAIN s}
Cur(ev) == l <= Len(TraceLog) /\ E.ev = ev /\ l' = l + 1
\* everything stored when DeleteTopic was exercised: the keys of all names accepted by that store
EtcdUniverse == UNION {Rng(TraceLog[i].etcd) : i \in {j \in DOMAIN TraceLog : TraceLog[j].inStore.etcd}}
MemUniverse == UNION {Rng(TraceLog[i].mem) : i \in {j \in DOMAIN TraceLog : TraceLog[j].inStore.mem}}
MemCUniverse == UNION {Rng(TraceLog[i].memc) : i \in {j \in DOMAIN TraceLog : TraceLog[j].inStore.mem}}
TInit == Init /\ l = 1 /\ TLCSet(7, 0)
TName == /\ Cur("Name") /\ UNCHANGED vars
         /\ LET k == KeysOf(E.segs) IN
            /\ E.name = k.name
            /\ E.acc = k.acc
            \* auto-creation paths ask for a positive partition count; explicit creation is probed with every count of Counts
            /\ \A path \in DOMAIN E.accBy : E.accBy[path] = AcceptsWith(E.segs, 2)
            /\ \A path \in DOMAIN E.accCnt : /\ Len(E.accCnt[path]) = Len(Counts)
                                               /\ \A i \in DOMAIN Counts : E.accCnt[path][i] = AcceptsWith(E.segs, Counts[i])
            /\ E.inStore.mem = k.acc /\ E.inStore.etcd = k.acc
            /\ Rng(E.s3) = k.s3 /\ Rng(E.s3pre) = k.s3pre /\ Rng(E.cache) = k.cache
            /\ Rng(E.etcd) = k.etcd /\ Rng(E.lease) = k.lease /\ Rng(E.mem) = k.mem /\ Rng(E.memc) = k.memc
            /\ Rng(E.delEtcd) = (IF E.inStore.etcd THEN EtcdDeleted(k.name, EtcdUniverse) ELSE {})
            /\ Rng(E.delMem) = (IF E.inStore.mem THEN MemDeleted(k.name, MemUniverse) ELSE {})
            /\ Rng(E.delMemC) = (IF E.inStore.mem THEN MemCDeleted(k.name, MemCUniverse) ELSE {})
Consumed == TLCSet(7, IF TLCGet(7) < l THEN l ELSE TLCGet(7))
TNext == TName /\ Consumed
TSpec == TInit /\ [][TNext]_tvars
Reached == PrintT(<<"CONF", ToJson([reached |-> TLCGet(7), total |-> Len(TraceLog)])>>)
====
