CONSTANTS
 Sym = {"a"}
 MaxSeg = 1
 FixValidate = TRUE
 DevSlashOnly = FALSE
 DevDotOnly = FALSE
 DevAllowColon = FALSE
 DevDefaultPartsSkipsNameCheck = FALSE
INIT TInit
NEXT TNext
POSTCONDITION Reached
CHECK_DEADLOCK FALSE
