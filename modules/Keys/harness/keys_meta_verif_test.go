package metadata

// Verification harness (injected with `go test -overlay`; not part of the repository).
// For every topic name enumerated by TLC (Keys.tla): is it accepted by CreateTopic of the in-memory
// store and of the etcd store (embedded etcd); the real key strings of partitions 0 and 1; and which
// stored keys the real DeleteTopic of each store removes when the topic is deleted while all other
// accepted topics have offsets and consumer offsets stored.

import (
	"bufio"
	"context"
	"encoding/json"
	"os"
	"sort"
	"strings"
	"testing"

	"github.com/KafScale/platform/internal/testutil"
	"github.com/KafScale/platform/pkg/protocol"
	clientv3 "go.etcd.io/etcd/client/v3"
)

func vkSnapshot() ClusterMetadata {
	return ClusterMetadata{Brokers: []protocol.MetadataBroker{{NodeID: 1, Host: "localhost", Port: 9092}}, ControllerID: 1}
}

func vkEtcdKeys(t *testing.T, cli *clientv3.Client) map[string]string {
	out := map[string]string{}
	for _, pre := range []string{"/kafscale/topics/", "/kafscale/consumers/"} {
		resp, err := cli.Get(context.Background(), pre, clientv3.WithPrefix())
		if err != nil {
			t.Fatal(err)
		}
		for _, kv := range resp.Kvs {
			out[string(kv.Key)] = string(kv.Value)
		}
	}
	return out
}

func vkSorted(m map[string]bool) []string {
	out := []string{}
	for k := range m {
		out = append(out, k)
	}
	sort.Strings(out)
	return out
}

func TestVerifKeysMeta(t *testing.T) {
	in, outPath := os.Getenv("VERIF_SCHEDULES"), os.Getenv("VERIF_TRACE_OUT")
	if in == "" || outPath == "" {
		t.Skip("no inputs")
	}
	f, err := os.Open(in)
	if err != nil {
		t.Fatal(err)
	}
	defer f.Close()
	var names []string
	var segs [][]string
	var counts []int32
	sc := bufio.NewScanner(f)
	for sc.Scan() {
		var l struct {
			Counts []int32  `json:"counts"`
			Segs   []string `json:"segs"`
		}
		if err := json.Unmarshal(sc.Bytes(), &l); err != nil {
			t.Fatal(err)
		}
		if l.Counts != nil {
			counts = l.Counts
			continue
		}
		segs = append(segs, l.Segs)
		names = append(names, strings.Join(l.Segs, "/"))
	}
	if len(counts) == 0 {
		t.Fatal("first line must carry the partition counts to probe")
	}
	ctx := context.Background()
	mem := NewInMemoryStore(vkSnapshot())
	endpoints := testutil.StartEmbeddedEtcd(t)
	es, err := NewEtcdStore(ctx, vkSnapshot(), EtcdStoreConfig{Endpoints: endpoints})
	if err != nil {
		t.Fatal(err)
	}
	cli := es.client
	specN := func(n string, c int32) TopicSpec { return TopicSpec{Name: n, NumPartitions: c, ReplicationFactor: 1} }
	// Probe CreateTopic of both stores with every partition count of the alphabet (-1 = "broker default", 0, 1, 2).
	// An accepted probe is deleted again; afterwards the topic is (re)created with the largest accepted count and kept,
	// so that "in the store" = "some creation request creates it".
	cntMem, cntEtcd := make([][]bool, len(names)), make([][]bool, len(names))
	accMem, accEtcd := make([]bool, len(names)), make([]bool, len(names))
	keepMem, keepEtcd := make([]int32, len(names)), make([]int32, len(names))
	for i, n := range names {
		for _, c := range counts {
			_, e1 := mem.CreateTopic(ctx, specN(n, c))
			cntMem[i] = append(cntMem[i], e1 == nil)
			if e1 == nil {
				accMem[i] = true
				if c >= keepMem[i] || keepMem[i] == 0 {
					keepMem[i] = c
				}
				if err := mem.DeleteTopic(ctx, n); err != nil {
					t.Fatalf("mem probe delete %q: %v", n, err)
				}
			}
			_, e2 := es.CreateTopic(ctx, specN(n, c))
			cntEtcd[i] = append(cntEtcd[i], e2 == nil)
			if e2 == nil {
				accEtcd[i] = true
				if c >= keepEtcd[i] || keepEtcd[i] == 0 {
					keepEtcd[i] = c
				}
				if err := es.DeleteTopic(ctx, n); err != nil {
					t.Fatalf("etcd probe delete %q: %v", n, err)
				}
			}
		}
		if accMem[i] {
			if _, err := mem.CreateTopic(ctx, specN(n, keepMem[i])); err != nil {
				t.Fatalf("mem create %q: %v", n, err)
			}
		}
		if accEtcd[i] {
			if _, err := es.CreateTopic(ctx, specN(n, keepEtcd[i])); err != nil {
				t.Fatalf("etcd create %q: %v", n, err)
			}
		}
	}
	// store offsets and consumer offsets for every accepted topic, through the real store operations
	for i, n := range names {
		for p := int32(0); p < 2; p++ {
			if accMem[i] {
				if err := mem.UpdateOffsets(ctx, n, p, 4); err != nil {
					t.Fatal(err)
				}
				if err := mem.CommitConsumerOffset(ctx, "g", n, p, 7, ""); err != nil {
					t.Fatal(err)
				}
			}
			if accEtcd[i] {
				if err := es.UpdateOffsets(ctx, n, p, 4); err != nil {
					t.Fatal(err)
				}
				if err := es.CommitConsumerOffset(ctx, "g", n, p, 7, ""); err != nil {
					t.Fatal(err)
				}
			}
		}
	}
	// the key functions name exactly what the store operations wrote
	all := vkEtcdKeys(t, cli)
	for i, n := range names {
		for p := int32(0); p < 2; p++ {
			if accEtcd[i] {
				if _, ok := all[offsetKey(n, p)]; !ok {
					t.Fatalf("UpdateOffsets(%q,%d) did not write offsetKey", n, p)
				}
				if _, ok := all[consumerOffsetKey("g", n, p)]; !ok {
					t.Fatalf("CommitConsumerOffset(%q,%d) did not write consumerOffsetKey", n, p)
				}
			}
			if accMem[i] {
				if _, ok := mem.offsets[partitionKey(n, p)]; !ok {
					t.Fatalf("UpdateOffsets(%q,%d) did not write partitionKey", n, p)
				}
			}
		}
	}
	out, err := os.Create(outPath)
	if err != nil {
		t.Fatal(err)
	}
	defer out.Close()
	w := bufio.NewWriter(out)
	defer w.Flush()
	for i, n := range names {
		etcdKeys, lease, memKeys, memc := []string{}, []string{}, []string{}, []string{}
		for p := int32(0); p < 2; p++ {
			etcdKeys = append(etcdKeys, offsetKey(n, p), consumerOffsetKey("g", n, p))
			lease = append(lease, partitionLeaseKey(n, p))
			memKeys = append(memKeys, partitionKey(n, p))
			memc = append(memc, consumerKey("g", n, p))
		}
		delMem, delMemC, delEtcd := map[string]bool{}, map[string]bool{}, map[string]bool{}
		if accMem[i] {
			before := map[string]int64{}
			for k, v := range mem.offsets {
				before[k] = v
			}
			beforeC := map[string]int64{}
			for k, v := range mem.consumerOffsets {
				beforeC[k] = v
			}
			if err := mem.DeleteTopic(ctx, n); err != nil {
				t.Fatalf("mem DeleteTopic(%q): %v", n, err)
			}
			for k, v := range before {
				if _, ok := mem.offsets[k]; !ok {
					delMem[k] = true
					mem.offsets[k] = v
				}
			}
			for k, v := range beforeC {
				if _, ok := mem.consumerOffsets[k]; !ok {
					delMemC[k] = true
					mem.consumerOffsets[k] = v
				}
			}
			if _, err := mem.CreateTopic(ctx, specN(n, keepMem[i])); err != nil {
				t.Fatalf("mem re-create %q: %v", n, err)
			}
		}
		if accEtcd[i] {
			before := vkEtcdKeys(t, cli)
			if err := es.DeleteTopic(ctx, n); err != nil {
				t.Fatalf("etcd DeleteTopic(%q): %v", n, err)
			}
			after := vkEtcdKeys(t, cli)
			for k, v := range before {
				if _, ok := after[k]; !ok {
					delEtcd[k] = true
					if _, err := cli.Put(ctx, k, v); err != nil {
						t.Fatal(err)
					}
				}
			}
			if _, err := es.CreateTopic(ctx, specN(n, keepEtcd[i])); err != nil {
				t.Fatalf("etcd re-create %q: %v", n, err)
			}
		}
		bs, _ := json.Marshal(map[string]any{"ev": "Meta", "i": i, "segs": segs[i], "name": n, "accMem": accMem[i], "accEtcd": accEtcd[i], "cntMem": cntMem[i], "cntEtcd": cntEtcd[i],
			"etcd": etcdKeys, "lease": lease, "mem": memKeys, "memc": memc, "delMem": vkSorted(delMem), "delMemC": vkSorted(delMemC), "delEtcd": vkSorted(delEtcd)})
		w.Write(bs)
		w.WriteByte('\n')
	}
	t.Logf("replayed %d schedules", len(names))
}
