package storage

// Verification harness (injected with `go test -overlay`; not part of the repository).
// For every topic name enumerated by TLC (Keys.tla) the real PartitionLog key functions are
// evaluated for partitions 0 and 1.

import (
	"bufio"
	"encoding/json"
	"fmt"
	"os"
	"strings"
	"testing"
)

func TestVerifKeysS3(t *testing.T) {
	in, outPath := os.Getenv("VERIF_SCHEDULES"), os.Getenv("VERIF_TRACE_OUT")
	if in == "" || outPath == "" {
		t.Skip("no inputs")
	}
	f, err := os.Open(in)
	if err != nil {
		t.Fatal(err)
	}
	defer f.Close()
	out, err := os.Create(outPath)
	if err != nil {
		t.Fatal(err)
	}
	defer out.Close()
	w := bufio.NewWriter(out)
	defer w.Flush()
	sc := bufio.NewScanner(f)
	n := 0
	for sc.Scan() {
		var l struct {
			Counts []int32  `json:"counts"`
			Segs   []string `json:"segs"`
		}
		if err := json.Unmarshal(sc.Bytes(), &l); err != nil {
			t.Fatal(err)
		}
		if l.Counts != nil {
			continue
		}
		name := strings.Join(l.Segs, "/")
		s3, pre, cache := []string{}, []string{}, []string{}
		for p := int32(0); p < 2; p++ {
			pl := NewPartitionLog("ns", name, p, 0, NewMemoryS3Client(), nil, PartitionLogConfig{}, nil, nil, nil)
			s3 = append(s3, pl.segmentKey(0), pl.indexKey(0))
			pre = append(pre, pl.segmentPrefix())
			// pkg/cache keys are "<cacheTopicKey>:<partition>:<base>"; the topic/partition part is logged
			cache = append(cache, fmt.Sprintf("%s:%d", pl.cacheTopicKey(), p))
		}
		bs, _ := json.Marshal(map[string]any{"ev": "S3", "i": n, "name": name, "s3": s3, "s3pre": pre, "cache": cache})
		w.Write(bs)
		w.WriteByte('\n')
		n++
	}
	t.Logf("replayed %d schedules", n)
}
