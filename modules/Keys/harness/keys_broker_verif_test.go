package main

// Verification harness (injected with `go test -overlay`; not part of the repository).
// For every topic name enumerated by TLC (Keys.tla): does the broker create the topic
//   auto : through a Metadata request with auto-create on,
//   prod : through the produce/fetch path (getPartitionLog -> ensureTopic),
//   api  : through the CreateTopics API.
// Each probe uses a fresh in-memory metadata store; "created" = the store lists the topic afterwards.

import (
	"bufio"
	"context"
	"encoding/json"
	"os"
	"strings"
	"testing"

	"github.com/KafScale/platform/pkg/metadata"
	"github.com/KafScale/platform/pkg/protocol"
	"github.com/twmb/franz-go/pkg/kmsg"
)

func vkHas(store *metadata.InMemoryStore, name string) bool {
	meta, err := store.Metadata(context.Background(), nil)
	if err != nil {
		return false
	}
	for _, tp := range meta.Topics {
		if tp.Topic != nil && *tp.Topic == name && tp.ErrorCode == 0 {
			return true
		}
	}
	return false
}

func TestVerifKeysBroker(t *testing.T) {
	in, outPath := os.Getenv("VERIF_SCHEDULES"), os.Getenv("VERIF_TRACE_OUT")
	if in == "" || outPath == "" {
		t.Skip("no inputs")
	}
	f, err := os.Open(in)
	if err != nil {
		t.Fatal(err)
	}
	defer f.Close()
	out, err := os.Create(outPath)
	if err != nil {
		t.Fatal(err)
	}
	defer out.Close()
	w := bufio.NewWriter(out)
	defer w.Flush()
	ctx := context.Background()
	sc := bufio.NewScanner(f)
	var counts []int32
	n := 0
	for sc.Scan() {
		var l struct {
			Counts []int32  `json:"counts"`
			Segs   []string `json:"segs"`
		}
		if err := json.Unmarshal(sc.Bytes(), &l); err != nil {
			t.Fatal(err)
		}
		if l.Counts != nil {
			counts = l.Counts
			continue
		}
		if len(counts) == 0 {
			t.Fatal("first line must carry the partition counts to probe")
		}
		name := strings.Join(l.Segs, "/")
		// auto-create through Metadata
		s1 := metadata.NewInMemoryStore(defaultMetadata())
		h1 := newTestHandler(s1)
		h1.autoCreateTopics = true
		h1.autoCreatePartitions = 2
		mreq := kmsg.NewPtrMetadataRequest()
		mt := kmsg.NewMetadataRequestTopic()
		mt.Topic = kmsg.StringPtr(name)
		mreq.Topics = append(mreq.Topics, mt)
		_, _ = h1.Handle(ctx, &protocol.RequestHeader{APIKey: protocol.APIKeyMetadata, APIVersion: 1, CorrelationID: 1}, mreq)
		auto := vkHas(s1, name)
		// auto-create through the partition-log path
		s2 := metadata.NewInMemoryStore(defaultMetadata())
		h2 := newTestHandler(s2)
		h2.autoCreateTopics = true
		h2.autoCreatePartitions = 2
		_, _ = h2.getPartitionLog(ctx, name, 0)
		prod := vkHas(s2, name)
		// CreateTopics API, once per partition count of the alphabet (-1 = "broker default"), fresh store each time
		api := false
		cntApi := []bool{}
		for _, c := range counts {
			s3 := metadata.NewInMemoryStore(defaultMetadata())
			h3 := newTestHandler(s3)
			h3.allowAdminAPIs = true
			creq := &kmsg.CreateTopicsRequest{Topics: []kmsg.CreateTopicsRequestTopic{{Topic: name, NumPartitions: c, ReplicationFactor: 1}}}
			_, _ = h3.handleCreateTopics(ctx, &protocol.RequestHeader{CorrelationID: 2}, creq)
			ok := vkHas(s3, name)
			cntApi = append(cntApi, ok)
			api = api || ok
		}
		bs, _ := json.Marshal(map[string]any{"ev": "Broker", "i": n, "name": name, "accAuto": auto, "accProd": prod, "accApi": api, "cntApi": cntApi})
		w.Write(bs)
		w.WriteByte('\n')
		n++
	}
	t.Logf("replayed %d schedules", n)
}
