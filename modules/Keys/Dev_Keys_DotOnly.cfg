CONSTANTS
 Sym = {"a","b","0",".","..","","a:0","a.0"}
 MaxSeg = 2
 FixValidate = TRUE
 DevSlashOnly = FALSE
 DevDotOnly = TRUE
 DevAllowColon = FALSE
 DevDefaultPartsSkipsNameCheck = FALSE
INIT Init
NEXT Next
INVARIANTS C22_NoCapture
VIEW View
CHECK_DEADLOCK FALSE
