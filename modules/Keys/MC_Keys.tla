---- MODULE MC_Keys ----
EXTENDS Keys
====
