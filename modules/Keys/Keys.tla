---- MODULE Keys ----
(* Topic-name acceptance and the key functions of pkg/storage/log.go (segmentKey, indexKey,       *)
(* segmentPrefix, cacheTopicKey), pkg/metadata (offsetKey, consumerOffsetKey, partitionLeaseKey,  *)
(* in-memory partitionKey / consumerKey, the DeleteTopic prefixes of both stores).                *)
(* Function-level module (DESIGN 3.3): the actions ENUMERATE ordered pairs of names (a name is a  *)
(* sequence of segments over Sym, rendered with "/"); the key functions are transcribed on real   *)
(* strings (path.Join's Clean on the segment list); C22 (KeysProps, from the statement) is an     *)
(* invariant over every pair.                                                                     *)
EXTENDS Integers, Sequences, FiniteSets, TLC, Json
CONSTANTS Sym,          \* segment alphabet, e.g. {"a","b","0",".","..","","a:0","a.0"}
          MaxSeg,       \* a name has 1..MaxSeg segments
          FixValidate,  \* TRUE: creation accepts only Kafka-legal names (repaired tree); FALSE: any non-blank name (pinned tree)
          DevSlashOnly, \* deviation: the validator only refuses names containing "/"
          DevDotOnly,   \* deviation: the validator only refuses names having a "." or ".." segment
          DevAllowColon, \* deviation: the legal character set also admits ":"
          DevDefaultPartsSkipsNameCheck \* deviation: partition count -1 ("broker default") is handled before, and instead of, the name check
VARIABLES n1, n2, phase, hist
vars == <<n1, n2, phase, hist>>
Namespace == "ns"
Group == "g"
Parts == <<"0", "1">>

Init == n1 = <<>> /\ n2 = <<>> /\ phase = "n1" /\ hist = <<>>
Seg(w, s) == /\ phase = (IF w = 1 THEN "n1" ELSE "n2")
             /\ IF w = 1 THEN Len(n1) < MaxSeg /\ n1' = Append(n1, s) /\ n2' = n2
                         ELSE Len(n2) < MaxSeg /\ n2' = Append(n2, s) /\ n1' = n1
             /\ hist' = Append(hist, [a |-> "Seg", w |-> w, s |-> s]) /\ UNCHANGED phase
EndName == /\ \/ phase = "n1" /\ n1 # <<>> /\ phase' = "n2"
              \/ phase = "n2" /\ n2 # <<>> /\ phase' = "done"
           /\ hist' = Append(hist, [a |-> "End", w |-> IF phase = "n1" THEN 1 ELSE 2, s |-> ""]) /\ UNCHANGED <<n1, n2>>
Next == (\E w \in {1, 2}, s \in Sym : Seg(w, s)) \/ EndName
Spec == Init /\ [][Next]_vars
Done == phase = "done"

\* ---- strings -----------------------------------------------------------------------------------
RECURSIVE Join(_, _)
Join(segs, sep) == IF segs = <<>> THEN "" ELSE IF Len(segs) = 1 THEN segs[1] ELSE segs[1] \o sep \o Join(Tail(segs), sep)
Render(n) == Join(n, "/")
Contains(s, sub) == \E i \in 1..(Len(s) - Len(sub) + 1) : SubSeq(s, i, i + Len(sub) - 1) = sub
HasPrefix(s, pre) == Len(s) >= Len(pre) /\ SubSeq(s, 1, Len(pre)) = pre
\* path.Clean on a relative path given as segments: drop "" and ".", ".." removes the previous real segment
RECURSIVE CleanSegs(_, _)
CleanSegs(in, out) ==
  IF in = <<>> THEN out
  ELSE LET s == Head(in) IN
       IF s = "" \/ s = "." THEN CleanSegs(Tail(in), out)
       ELSE IF s = ".." THEN (IF out # <<>> /\ out[Len(out)] # ".." THEN CleanSegs(Tail(in), SubSeq(out, 1, Len(out) - 1))
                              ELSE CleanSegs(Tail(in), Append(out, "..")))
       ELSE CleanSegs(Tail(in), Append(out, s))
\* path.Join(elems...): empty elements are ignored, the rest joined with "/" and cleaned ("." when nothing is left)
PathJoin(segs) == LET c == CleanSegs(segs, <<>>) IN IF c = <<>> THEN "." ELSE Join(c, "/")

\* consumerKeyEscaper of pkg/metadata/store.go: "%" -> "%25", ":" -> "%3A" (keeps the ':'-joined consumer key unambiguous)
RECURSIVE EscFrom(_, _)
EscFrom(s, i) == IF i > Len(s) THEN ""
                 ELSE LET c == SubSeq(s, i, i) IN (IF c = "%" THEN "%25" ELSE IF c = ":" THEN "%3A" ELSE c) \o EscFrom(s, i + 1)
Esc(s) == EscFrom(s, 1)
\* parseConsumerKey: exactly three ':'-separated parts; the middle one is the (escaped) topic
ColonPos(k) == {i \in 1..Len(k) : SubSeq(k, i, i) = ":"}
ConsumerTopicIs(k, s) == LET cs == ColonPos(k) IN
  /\ Cardinality(cs) = 2
  /\ LET c1 == CHOOSE i \in cs : \A j \in cs : i <= j
         c2 == CHOOSE i \in cs : \A j \in cs : j <= i
     IN SubSeq(k, c1 + 1, c2 - 1) = Esc(s)     \* stored keys are always escaped, so comparing escaped forms = comparing topics

\* ---- acceptance (CreateTopic of both stores, auto-create) ------------------------------------------
LegalChars == {"a","b","c","d","e","f","g","h","i","j","k","l","m","n","o","p","q","r","s","t","u","v","w","x","y","z",
               "A","B","C","D","E","F","G","H","I","J","K","L","M","N","O","P","Q","R","S","T","U","V","W","X","Y","Z",
               "0","1","2","3","4","5","6","7","8","9",".","_","-"} \cup (IF DevAllowColon THEN {":"} ELSE {})
LegalName(s) == s # "" /\ s # "." /\ s # ".." /\ Len(s) <= 249 /\ \A i \in 1..Len(s) : SubSeq(s, i, i) \in LegalChars
\* partition counts a creation request may carry: -1 = "use the broker default", 0 = invalid, 1, 2
Counts == <<-1, 0, 1, 2>>
NameOk(n) ==
  LET s == Render(n) IN
  IF DevSlashOnly THEN s # "" /\ Len(n) = 1
  ELSE IF DevDotOnly THEN s # "" /\ \A i \in DOMAIN n : n[i] \notin {".", ".."}
  ELSE IF FixValidate THEN LegalName(s)
  ELSE s # ""
\* CreateTopic(name, partition count): `if !ValidTopicName(name) || NumPartitions <= 0 { reject }`
AcceptsWith(n, c) == IF DevDefaultPartsSkipsNameCheck /\ c = -1 THEN TRUE ELSE NameOk(n) /\ c > 0
\* a name is accepted when some creation request (any partition count) creates it; auto-creation always asks for a positive count
Accepts(n) == \E i \in DOMAIN Counts : AcceptsWith(n, Counts[i])

\* ---- the key functions ----------------------------------------------------------------------------
SegFile == "segment-00000000000000000000.kfs"
IdxFile == "segment-00000000000000000000.index"
KeysOf(n) ==
  LET s == Render(n) IN
  [segs |-> n, name |-> s, acc |-> Accepts(n),
   s3 |-> {PathJoin(<<Namespace>> \o n \o <<Parts[p], f>>) : p \in DOMAIN Parts, f \in {SegFile, IdxFile}},
   s3pre |-> {PathJoin(<<Namespace>> \o n \o <<Parts[p]>>) \o "/" : p \in DOMAIN Parts},
   cache |-> {PathJoin(<<Namespace>> \o n) \o ":" \o Parts[p] : p \in DOMAIN Parts},
   etcd |-> {"/kafscale/topics/" \o s \o "/partitions/" \o Parts[p] \o "/next_offset" : p \in DOMAIN Parts}
            \cup {"/kafscale/consumers/" \o Group \o "/offsets/" \o s \o "/" \o Parts[p] : p \in DOMAIN Parts},
   lease |-> {"/kafscale/partition-leases/" \o s \o "/" \o Parts[p] : p \in DOMAIN Parts},
   mem |-> {s \o ":" \o Parts[p] : p \in DOMAIN Parts},
   memc |-> {Esc(Group) \o ":" \o Esc(s) \o ":" \o Parts[p] : p \in DOMAIN Parts}]
\* EtcdStore.DeleteTopic: delete prefix /kafscale/topics/<name>/ ; every consumer key containing /offsets/<name>/
EtcdDeleted(s, keys) == {k \in keys : HasPrefix(k, "/kafscale/topics/" \o s \o "/")
                                      \/ (HasPrefix(k, "/kafscale/consumers/") /\ Contains(k, "/offsets/" \o s \o "/"))}
\* InMemoryStore.DeleteTopic: offsets whose key starts with <name>: ; consumer offsets whose parsed topic is <name>
MemDeleted(s, keys) == {k \in keys : HasPrefix(k, s \o ":")}
MemCDeleted(s, keys) == {k \in keys : ConsumerTopicIs(k, s)}

\* constant-level table: TLC computes the keys of every name of the domain once
AllNames == UNION {[1..k -> Sym] : k \in 1..MaxSeg}
KeyTab == [n \in AllNames |-> KeysOf(n)]
A == KeyTab[n1]
B == KeyTab[n2]
P == INSTANCE KeysProps WITH a <- A, b <- B, delEtcd <- EtcdDeleted(A.name, B.etcd \ A.etcd), delMem <- MemDeleted(A.name, B.mem \ A.mem) \cup MemCDeleted(A.name, B.memc \ A.memc)
C22_Rejects == Done => P!C22_Rejects
C22_DisjointKeys == Done => P!C22_DisjointKeys
C22_NoCapture == Done => P!C22_NoCapture

View == <<n1, n2, phase>>
EmitInput == /\ (phase = "n1" /\ n1 = <<>>) => PrintT(<<"COUNTS", ToJson(Counts)>>)
             /\ (phase = "n2" /\ n2 = <<>>) => PrintT(<<"INPUT", ToJson(n1)>>)
EmitSched == EmitInput
====
