---- MODULE Trace_Pitr ----
(* Conformance layer: the source segments the real PartitionLog produced must decode to what the *)
(* model's AddSeg describes; every S3 operation the real RecoverTopicToTimestamp issued must be   *)
(* the operation the model issues next (kind, object, per-kind ordinal) with the logged outcome;  *)
(* at Done the result, the decoded target segments and the set of target index objects must equal *)
(* the model's.                                                                                   *)
EXTENDS MC_Pitr
TraceLog == ndJsonDeserialize("trace.ndjson")
VARIABLE l
tvars == <<vars, l>>
E == TraceLog[l]
Cur(ev) == l <= Len(TraceLog) /\ E.ev = ev /\ l' = l + 1
ToSet(s) == {s[i] : i \in DOMAIN s}
TInit == Init /\ l = 1 /\ TLCSet(7, 0)
TReset == /\ Cur("Reset") /\ E.parts = Cardinality(Parts)
          /\ want' = [p \in Parts |-> E.want[p + 1]]
          /\ src' = [p \in Parts |-> <<>>] /\ sel' = {} /\ pc' = "build" /\ ip' = 1 /\ cp' = 1 /\ ci' = 1 /\ plan' = <<>>
          /\ tgtSeg' = {} /\ tgtIdx' = {} /\ copied' = <<>> /\ rb' = 0 /\ cnt' = [k \in Kinds |-> 0]
          /\ nCopyF' = 0 /\ nDelF' = 0 /\ delFailed' = FALSE /\ result' = "none" /\ hist' = <<>>
TAddSeg == /\ Cur("AddSeg") /\ AddSeg(E.p, E.created, E.batches)
           /\ E.valid /\ E.gotCreated = E.created
           /\ LET i == Len(src'[E.p]) IN
                /\ E.base = BaseOf(E.p, i)          \* segments before i are unchanged, so BaseOf over src equals BaseOf over src'
                /\ Len(E.recs) = NRecs(src'[E.p][i])
                /\ \A k \in 1..Len(E.recs) : E.recs[k].off = E.base + k - 1 /\ E.recs[k].ts = Concat(E.batches)[k]
TStart == Cur("Start") /\ Start(ToSet(E.sel)) /\ E.T = T
TS3 == /\ Cur("S3") /\ CurOp.kind = E.kind /\ CurOp.obj.where = E.where /\ CurOp.obj.p = E.p /\ CurOp.obj.base = E.base
       /\ Op(~E.ok) /\ cnt'[E.kind] = E.n
SegOf(p, sg) == [p |-> p, base |-> sg.base, recs |-> [k \in 1..Len(sg.recs) |-> [off |-> sg.recs[k].off, ts |-> sg.recs[k].ts]]]
TDone == /\ Cur("Done") /\ Finish
         /\ (result = "ok") = E.ok /\ delFailed = E.delFailed
         /\ tgtSeg = UNION {{SegOf(q - 1, E.target[q][i]) : i \in 1..Len(E.target[q])} : q \in 1..Len(E.target)}
         /\ tgtIdx = {[p |-> E.idx[i].p, base |-> E.idx[i].base] : i \in 1..Len(E.idx)}
         /\ E.objects = Cardinality(tgtSeg) + Cardinality(tgtIdx) /\ E.valid /\ E.bytesEq
Consumed == TLCSet(7, IF TLCGet(7) < l THEN l ELSE TLCGet(7))
TNext == (TReset \/ TAddSeg \/ TStart \/ TS3 \/ TDone) /\ Consumed
TSpec == TInit /\ [][TNext]_tvars
Reached == PrintT(<<"CONF", ToJson([reached |-> TLCGet(7), total |-> Len(TraceLog)])>>)
====
