CONSTANTS
 Parts = {0, 1}
 T = 2
 Created = {1,2,3}
 Layouts <- LayS
 MaxSegs <- SegS
 Sels <- SelsAll
 MaxCopyFaults = 1
 MaxDelFaults = 1
 InspFaultWeight = 1
 FaultWeight = 1
 DelFaultWeight = 1
 DevNoRollback = FALSE
 DevCutInclusive = FALSE
 DevRollbackBeforeIndex = FALSE
INIT TInit
NEXT TNext
POSTCONDITION Reached
CHECK_DEADLOCK FALSE
