---- MODULE PitrProps ----
(* C08 stated once, over parameters.  Pitr.tla instantiates it with model state,               *)
(* Obs_Pitr.tla with values decoded from the real source and target objects.                    *)
EXTENDS Integers, Sequences, FiniteSets
CONSTANTS done,      \* the restore call has returned
          ok,        \* it returned success
          delFailed, \* some delete issued by the restore failed
          T,         \* restore time
          sel,       \* requested partitions ({} = all)
          source,    \* function partition -> sequence of source segments [created, recs], recs = sequence of [off, ts], in offset order
          target,    \* function partition -> sequence of target segments [base, recs] in base order, as decoded from the target objects
          objects,   \* number of objects (segments + indexes) under the target topic
          valid,     \* every batch of every target segment has a consistent length field, record count and CRC
          bytesEq    \* every target record is byte-identical to the source record at the same offset

RECURSIVE Flat(_)
Flat(segs) == IF segs = <<>> THEN <<>> ELSE Head(segs).recs \o Flat(Tail(segs))
RECURSIVE UpTo(_)
UpTo(recs) == IF recs = <<>> \/ Head(recs).ts > T THEN <<>> ELSE <<Head(recs)>> \o UpTo(Tail(recs))   \* cut at the first record later than T
\* the final segment of a restore to T: the first one created after T, else the last one
Final(segs) == IF \E i \in 1..Len(segs) : segs[i].created > T
               THEN CHOOSE i \in 1..Len(segs) : segs[i].created > T /\ \A j \in 1..(i - 1) : ~(segs[j].created > T)
               ELSE Len(segs)
Wanted(p) == p \in DOMAIN source /\ (sel = {} \/ p \in sel)
Expected(p) == IF ~Wanted(p) \/ source[p] = <<>> THEN <<>>
               ELSE LET f == Final(source[p]) IN Flat(SubSeq(source[p], 1, f - 1)) \o UpTo(source[p][f].recs)

\* whole earlier segments + the final segment cut at its first record later than T; nothing for other partitions
C08_ExactPrefix == (done /\ ok) => \A p \in DOMAIN target : Flat(target[p]) = Expected(p)
\* offsets of the restored records are contiguous and start at the first source offset; each target segment is named by its first offset
C08_Contiguous == (done /\ ok) => \A p \in DOMAIN target :
     LET r == Flat(target[p]) IN
       /\ \A i \in 1..Len(r) : Flat(source[p]) # <<>> /\ r[i].off = Flat(source[p])[1].off + i - 1
       /\ \A i \in 1..Len(target[p]) : target[p][i].recs # <<>> /\ target[p][i].base = target[p][i].recs[1].off
C08_ValidBytes == (done /\ ok) => (valid /\ bytesEq)
\* a failed restore leaves nothing under the target topic unless a delete failed too
C08_FailedLeavesNothing == (done /\ ~ok /\ ~delFailed) => objects = 0
====
