---- MODULE MC_Pitr ----
EXTENDS Pitr
L1(TS) == {<<<<a>>>> : a \in TS}
L2(TS) == L1(TS) \cup {<<<<a, b>>>> : a, b \in TS} \cup {<<<<a>>, <<b>>>> : a, b \in TS}
L3(TS) == L2(TS) \cup {<<<<a, b, c>>>> : a, b, c \in TS} \cup {<<<<a, b>>, <<c>>>> : a, b, c \in TS} \cup {<<<<a>>, <<b, c>>>> : a, b, c \in TS}
\* quick: partition 0 up to 2 segments of up to 2 records, partition 1 up to 1 single-record segment; timestamps = T and > T
LayQ == (0 :> {<<<<2>>>>, <<<<3>>>>, <<<<2, 3>>>>, <<<<2>>, <<3>>>>, <<<<3, 2>>>>}) @@ (1 :> L1({2, 3}))
SegQ == (0 :> 2) @@ (1 :> 1)
\* thorough: timestamps < T, = T, > T
LayT == (0 :> L2({1, 2, 3})) @@ (1 :> {<<<<2>>>>})
SegT == (0 :> 2) @@ (1 :> 1)
\* three segments (candidate selection), single records
LayC == (0 :> L1({2, 3})) @@ (1 :> L1({2, 3}))
SegC == (0 :> 3) @@ (1 :> 1)
LayS == (0 :> L3({1, 2, 3})) @@ (1 :> L3({1, 2, 3}))
SegS == (0 :> 3) @@ (1 :> 3)
\* small sources for the deviation searches (their counterexamples are the regression schedules)
LayD == (0 :> {<<<<2>>>>, <<<<2, 3>>>>, <<<<3>>>>}) @@ (1 :> {<<<<2>>>>})
SegD == (0 :> 2) @@ (1 :> 1)
SelsT == {{}, {0}}
SelsAll == {{}, {0}, {1}}
====
