package storage

// Verification harness (injected with `go test -overlay`; not part of the repository).
// For every TLC-generated schedule: produce the source topic through the real PartitionLog
// (AppendBatch + Flush, segment creation times from testing/synctest virtual time) into a
// MemoryS3Client, run the real RecoverTopicToTimestamp through an S3 wrapper that fails the
// n-th operation of a kind and logs every operation, then decode the source and target
// objects and record one ndjson line per step.

import (
	"bufio"
	"bytes"
	"context"
	"encoding/binary"
	"encoding/json"
	"errors"
	"fmt"
	"hash/crc32"
	"os"
	"sort"
	"strconv"
	"strings"
	"testing"
	"testing/synctest"
	"time"
)

type vpStep struct {
	A       string    `json:"a"`
	P       int32     `json:"p"`
	Created int64     `json:"created"`
	Batches [][]int64 `json:"batches"`
	Sel     []int32   `json:"sel"`
	T       int64     `json:"T"`
	Kind    string    `json:"kind"`
	N       int       `json:"n"`
}

type vpSched struct {
	Parts int      `json:"parts"`
	Steps []vpStep `json:"steps"`
}

const (
	vpSrcTopic = "orders"
	vpTgtTopic = "orders-restore"
)

type vpRec struct {
	Off int64 `json:"off"`
	Ts  int64 `json:"ts"`
	raw []byte
}

type vpSeg struct {
	Base    int64   `json:"base"`
	Created int64   `json:"created"`
	Recs    []vpRec `json:"recs"`
	valid   bool
}

func vpVarint(v int64) []byte {
	z := uint64(v<<1) ^ uint64(v>>63)
	out := []byte{}
	for {
		b := byte(z & 0x7f)
		z >>= 7
		if z != 0 {
			b |= 0x80
		}
		out = append(out, b)
		if z == 0 {
			return out
		}
	}
}

// vpBatch builds a Kafka v2 record batch whose records carry the given absolute timestamps (ms)
// and a value that is unique per record (so byte identity of records is meaningful).
func vpBatch(tsMs []int64, tag string) RecordBatch {
	first := tsMs[0]
	maxTs := first
	body := []byte{}
	for i, ts := range tsMs {
		if ts > maxTs {
			maxTs = ts
		}
		val := []byte(fmt.Sprintf("%s/r%d", tag, i))
		p := []byte{0}
		p = append(p, vpVarint(ts-first)...)
		p = append(p, vpVarint(int64(i))...)
		p = append(p, vpVarint(-1)...)
		p = append(p, vpVarint(int64(len(val)))...)
		p = append(p, val...)
		p = append(p, vpVarint(0)...)
		body = append(body, vpVarint(int64(len(p)))...)
		body = append(body, p...)
	}
	b := make([]byte, recordBatchHeaderLen+len(body))
	binary.BigEndian.PutUint32(b[8:12], uint32(len(b)-batchFrameHeaderLen))
	b[16] = 2
	binary.BigEndian.PutUint32(b[23:27], uint32(len(tsMs)-1))
	binary.BigEndian.PutUint64(b[27:35], uint64(first))
	binary.BigEndian.PutUint64(b[35:43], uint64(maxTs))
	binary.BigEndian.PutUint64(b[43:51], ^uint64(0))
	binary.BigEndian.PutUint16(b[51:53], ^uint16(0))
	binary.BigEndian.PutUint32(b[53:57], ^uint32(0))
	binary.BigEndian.PutUint32(b[57:61], uint32(len(tsMs)))
	copy(b[recordBatchHeaderLen:], body)
	binary.BigEndian.PutUint32(b[17:21], crc32.Checksum(b[21:], crc32.MakeTable(crc32.Castagnoli)))
	return RecordBatch{BaseOffset: 0, LastOffsetDelta: int32(len(tsMs) - 1), MessageCount: int32(len(tsMs)), Bytes: b}
}

func vpReadVarint(r *bytes.Reader) (int64, error) {
	var v uint64
	var shift uint
	for {
		b, err := r.ReadByte()
		if err != nil {
			return 0, err
		}
		v |= uint64(b&0x7f) << shift
		if b&0x80 == 0 {
			break
		}
		shift += 7
		if shift > 63 {
			return 0, errors.New("varint too long")
		}
	}
	return int64(v>>1) ^ -int64(v&1), nil
}

// vpDecode decodes a segment object independently of the code under test: header, batches, records.
// valid = every batch has a length field matching its frame, a record count matching the records that
// exactly fill it, and a CRC matching its bytes.
func vpDecode(data []byte, baseMs int64) vpSeg {
	seg := vpSeg{Base: -1, Created: -1, Recs: []vpRec{}, valid: false}
	if len(data) < 48 || string(data[:4]) != "KAFS" || string(data[len(data)-4:]) != "END!" {
		return seg
	}
	seg.Base = int64(binary.BigEndian.Uint64(data[8:16]))
	seg.Created = (int64(binary.BigEndian.Uint64(data[20:28])) - baseMs) / 1000
	body := data[32 : len(data)-16]
	tbl := crc32.MakeTable(crc32.Castagnoli)
	valid := true
	for off := 0; off < len(body); {
		if off+61 > len(body) {
			valid = false
			break
		}
		blen := int(binary.BigEndian.Uint32(body[off+8 : off+12]))
		if blen <= 0 || off+12+blen > len(body) {
			valid = false
			break
		}
		frame := body[off : off+12+blen]
		off += 12 + blen
		base := int64(binary.BigEndian.Uint64(frame[0:8]))
		first := int64(binary.BigEndian.Uint64(frame[27:35]))
		count := int(int32(binary.BigEndian.Uint32(frame[57:61])))
		if binary.BigEndian.Uint32(frame[17:21]) != crc32.Checksum(frame[21:], tbl) {
			valid = false
		}
		r := bytes.NewReader(frame[61:])
		n := 0
		for r.Len() > 0 {
			startPos := len(frame[61:]) - r.Len()
			l, err := vpReadVarint(r)
			if err != nil || l < 0 || l > int64(r.Len()) {
				valid = false
				break
			}
			p := make([]byte, l)
			r.Read(p)
			endPos := len(frame[61:]) - r.Len()
			pr := bytes.NewReader(p)
			pr.ReadByte()
			td, e1 := vpReadVarint(pr)
			od, e2 := vpReadVarint(pr)
			if e1 != nil || e2 != nil {
				valid = false
				break
			}
			seg.Recs = append(seg.Recs, vpRec{Off: base + od, Ts: (first + td - baseMs) / 1000, raw: append([]byte(nil), frame[61+startPos:61+endPos]...)})
			n++
		}
		if n != count {
			valid = false
		}
	}
	seg.valid = valid
	return seg
}

// vpS3 wraps the MemoryS3Client: sorted listings, per-kind operation counters, injected failures, operation log.
type vpS3 struct {
	inner     *MemoryS3Client
	armed     bool
	count     map[string]int
	plan      map[string]bool // "kind#n"
	delFailed bool
	emit      func(map[string]any)
}

var errVpInjected = errors.New("injected s3 failure")

func vpWhere(key string) (string, int, int64) {
	parts := strings.Split(strings.TrimSuffix(key, "/"), "/")
	where := "other"
	if len(parts) >= 2 {
		switch parts[1] {
		case vpSrcTopic:
			where = "src"
		case vpTgtTopic:
			where = "tgt"
		}
	}
	p, base := -1, int64(-1)
	if len(parts) == 4 {
		if v, err := strconv.Atoi(parts[2]); err == nil {
			p = v
		}
		name := strings.TrimPrefix(parts[3], "segment-")
		name = strings.TrimSuffix(strings.TrimSuffix(name, ".kfs"), ".index")
		if b, err := strconv.ParseInt(name, 10, 64); err == nil {
			base = b
		}
	}
	return where, p, base
}

func (s *vpS3) op(kind, key string) error {
	if !s.armed {
		return nil
	}
	s.count[kind]++
	fail := s.plan[kind+"#"+strconv.Itoa(s.count[kind])]
	where, p, base := vpWhere(key)
	if fail && (kind == "DelIdx" || kind == "DelSeg") {
		s.delFailed = true
	}
	s.emit(map[string]any{"ev": "S3", "kind": kind, "where": where, "p": p, "base": base, "ok": !fail, "n": s.count[kind]})
	if fail {
		return errVpInjected
	}
	return nil
}

func (s *vpS3) UploadSegment(ctx context.Context, key string, body []byte) error {
	if err := s.op("UpSeg", key); err != nil {
		return err
	}
	return s.inner.UploadSegment(ctx, key, body)
}
func (s *vpS3) UploadIndex(ctx context.Context, key string, body []byte) error {
	if err := s.op("UpIdx", key); err != nil {
		return err
	}
	return s.inner.UploadIndex(ctx, key, body)
}
func (s *vpS3) DeleteSegment(ctx context.Context, key string) error {
	if err := s.op("DelSeg", key); err != nil {
		return err
	}
	return s.inner.DeleteSegment(ctx, key)
}
func (s *vpS3) DeleteIndex(ctx context.Context, key string) error {
	if err := s.op("DelIdx", key); err != nil {
		return err
	}
	return s.inner.DeleteIndex(ctx, key)
}
func (s *vpS3) DownloadSegment(ctx context.Context, key string, rng *ByteRange) ([]byte, error) {
	if err := s.op("DlSeg", key); err != nil {
		return nil, err
	}
	return s.inner.DownloadSegment(ctx, key, rng)
}
func (s *vpS3) DownloadIndex(ctx context.Context, key string) ([]byte, error) {
	if err := s.op("DlIdx", key); err != nil {
		return nil, err
	}
	return s.inner.DownloadIndex(ctx, key)
}
func (s *vpS3) ListSegments(ctx context.Context, prefix string) ([]S3Object, error) {
	if err := s.op("List", prefix); err != nil {
		return nil, err
	}
	out, err := s.inner.ListSegments(ctx, prefix)
	sort.Slice(out, func(i, j int) bool { return out[i].Key < out[j].Key })
	return out, err
}
func (s *vpS3) EnsureBucket(ctx context.Context) error { return s.inner.EnsureBucket(ctx) }

// vpTopic decodes all segment objects under a topic, per partition in base order; also counts objects.
func vpTopic(m *MemoryS3Client, topic string, parts int, baseMs int64) ([][]vpSeg, int, []string) {
	prefix := "default/" + topic + "/"
	m.mu.Lock()
	defer m.mu.Unlock()
	out := make([][]vpSeg, parts)
	for i := range out {
		out[i] = []vpSeg{}
	}
	keys := []string{}
	for k := range m.data {
		if strings.HasPrefix(k, prefix) {
			keys = append(keys, k)
		}
	}
	sort.Strings(keys)
	objects := len(keys)
	for _, k := range keys {
		_, p, _ := vpWhere(k)
		seg := vpDecode(m.data[k], baseMs)
		if p >= 0 && p < parts {
			out[p] = append(out[p], seg)
		} else {
			objects += 1000 // an object outside the expected partitions: never "nothing left", never a match
		}
	}
	for k := range m.index {
		if strings.HasPrefix(k, prefix) {
			keys = append(keys, k)
			objects++
		}
	}
	sort.Strings(keys)
	for i := range out {
		sort.Slice(out[i], func(a, b int) bool { return out[i][a].Base < out[i][b].Base })
	}
	return out, objects, keys
}

func TestVerifPitrReplay(t *testing.T) {
	in, outPath := os.Getenv("VERIF_SCHEDULES"), os.Getenv("VERIF_TRACE_OUT")
	if in == "" || outPath == "" {
		t.Skip("no schedules")
	}
	f, err := os.Open(in)
	if err != nil {
		t.Fatal(err)
	}
	defer f.Close()
	out, err := os.Create(outPath)
	if err != nil {
		t.Fatal(err)
	}
	defer out.Close()
	w := bufio.NewWriter(out)
	defer w.Flush()
	emit := func(m map[string]any) {
		b, _ := json.Marshal(m)
		w.Write(b)
		w.WriteByte('\n')
	}
	sc := bufio.NewScanner(f)
	sc.Buffer(make([]byte, 1<<20), 1<<26)
	n := 0
	for sc.Scan() {
		var s vpSched
		if err := json.Unmarshal(sc.Bytes(), &s); err != nil {
			t.Fatal(err)
		}
		idx := n
		synctest.Test(t, func(t *testing.T) { vpRun(t, idx, s, emit) })
		n++
	}
	t.Logf("replayed %d schedules", n)
}

func vpRun(t *testing.T, idx int, s vpSched, emit func(map[string]any)) {
	ctx := context.Background()
	start := time.Now()
	baseMs := start.UnixMilli()
	mem := NewMemoryS3Client()
	s3 := &vpS3{inner: mem, count: map[string]int{}, plan: map[string]bool{}, emit: emit}
	want := make([]int, s.Parts)
	for _, st := range s.Steps {
		if st.A == "AddSeg" && int(st.P) < s.Parts {
			want[st.P]++
		}
	}
	emit(map[string]any{"ev": "Reset", "sched": idx, "parts": s.Parts, "want": want})

	// 1. the source topic, through the real PartitionLog; segments are flushed in creation-time order
	type addSeg struct {
		st  vpStep
		ord int
	}
	adds := []addSeg{}
	var startStep *vpStep
	for i := range s.Steps {
		st := s.Steps[i]
		switch st.A {
		case "AddSeg":
			adds = append(adds, addSeg{st, len(adds)})
		case "Start":
			startStep = &s.Steps[i]
		case "Fault":
			s3.plan[st.Kind+"#"+strconv.Itoa(st.N)] = true
		case "Done":
		default:
			t.Fatalf("unknown step %q", st.A)
		}
	}
	if startStep == nil {
		t.Fatalf("schedule %d has no Start", idx)
	}
	sort.SliceStable(adds, func(i, j int) bool { return adds[i].st.Created < adds[j].st.Created })
	logs := map[int32]*PartitionLog{}
	segNo := map[int32]int{}
	lines := make([]map[string]any, len(adds))
	for _, a := range adds {
		st := a.st
		l := logs[st.P]
		if l == nil {
			l = NewPartitionLog("default", vpSrcTopic, st.P, 0, s3, nil, PartitionLogConfig{Segment: SegmentWriterConfig{IndexIntervalMessages: 1}}, nil, nil, nil)
			logs[st.P] = l
		}
		if d := start.Add(time.Duration(st.Created) * time.Second).Sub(time.Now()); d > 0 {
			time.Sleep(d)
		}
		var base int64 = -1
		for bi, b := range st.Batches {
			ts := make([]int64, len(b))
			for i, x := range b {
				ts[i] = baseMs + x*1000
			}
			res, err := l.AppendBatch(ctx, vpBatch(ts, fmt.Sprintf("p%d/s%d/b%d", st.P, segNo[st.P], bi)))
			if err != nil {
				t.Fatalf("AppendBatch: %v", err)
			}
			if base < 0 {
				base = res.BaseOffset
			}
		}
		if err := l.Flush(ctx); err != nil {
			t.Fatalf("Flush: %v", err)
		}
		segNo[st.P]++
		data, err := mem.DownloadSegment(ctx, segmentObjectKey("default", vpSrcTopic, st.P, base), nil)
		if err != nil {
			t.Fatalf("source segment missing after Flush: %v", err)
		}
		seg := vpDecode(data, baseMs)
		lines[a.ord] = map[string]any{"ev": "AddSeg", "p": st.P, "created": st.Created, "batches": st.Batches, "base": seg.Base, "gotCreated": seg.Created, "recs": seg.Recs, "valid": seg.valid}
	}
	for _, l := range lines {
		emit(l)
	}
	synctest.Wait()

	// 2. the restore, through the fault-injecting wrapper
	sel := startStep.Sel
	if sel == nil {
		sel = []int32{}
	}
	emit(map[string]any{"ev": "Start", "sel": sel, "T": startStep.T})
	s3.armed = true
	res, rerr := RecoverTopicToTimestamp(ctx, s3, TopicRecoveryConfig{
		SourceNamespace: "default", SourceTopic: vpSrcTopic, TargetNamespace: "default", TargetTopic: vpTgtTopic,
		RestoreTo: time.UnixMilli(baseMs + startStep.T*1000), Partitions: sel,
	})
	s3.armed = false

	// 3. projection: decode source and target objects
	source, _, _ := vpTopic(mem, vpSrcTopic, s.Parts, baseMs)
	target, objects, keys := vpTopic(mem, vpTgtTopic, s.Parts, baseMs)
	srcRaw := map[string][]byte{}
	for p, segs := range source {
		for _, sg := range segs {
			for _, r := range sg.Recs {
				srcRaw[fmt.Sprintf("%d/%d", p, r.Off)] = r.raw
			}
		}
	}
	valid, bytesEq := true, true
	for p, segs := range target {
		for _, sg := range segs {
			if !sg.valid {
				valid = false
			}
			for _, r := range sg.Recs {
				if raw, ok := srcRaw[fmt.Sprintf("%d/%d", p, r.Off)]; !ok || !bytes.Equal(raw, r.raw) {
					bytesEq = false
				}
			}
		}
	}
	idxKeys := []map[string]any{}
	for _, k := range keys {
		if strings.HasSuffix(k, ".index") {
			_, p, base := vpWhere(k)
			idxKeys = append(idxKeys, map[string]any{"p": p, "base": base})
		}
	}
	errText := ""
	if rerr != nil {
		errText = rerr.Error()
	}
	copied := -1
	if res != nil {
		copied = res.SegmentsCopied
	}
	emit(map[string]any{"ev": "Done", "ok": rerr == nil, "err": errText, "delFailed": s3.delFailed, "sel": sel, "T": startStep.T,
		"source": source, "target": target, "idx": idxKeys, "objects": objects, "valid": valid, "bytesEq": bytesEq, "segmentsCopied": copied})
}
