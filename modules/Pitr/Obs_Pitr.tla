---- MODULE Obs_Pitr ----
(* Observation layer: no model actions.  Each Done line carries what the harness decoded from    *)
(* the real source and target objects after RecoverTopicToTimestamp returned (records as         *)
(* [off, ts], batch validity and byte identity as booleans, number of objects left under the     *)
(* target topic, whether an injected delete failure was hit); the C08 predicates are the         *)
(* PitrProps definitions instantiated with those values.  Partitions are 1-based here (p + 1).   *)
EXTENDS Integers, Sequences, FiniteSets, TLC, Json
TraceLog == ndJsonDeserialize("trace.ndjson")
VARIABLES l, viol
ovars == <<l, viol>>
P(e) == INSTANCE PitrProps WITH done <- TRUE, ok <- e.ok, delFailed <- e.delFailed, T <- e.T,
          sel <- {e.sel[i] + 1 : i \in DOMAIN e.sel}, source <- e.source, target <- e.target,
          objects <- e.objects, valid <- e.valid, bytesEq <- e.bytesEq
OInit == l = 0 /\ viol = {}
Step ==
  /\ l < Len(TraceLog) /\ l' = l + 1
  /\ LET e == TraceLog[l + 1] IN
     /\ viol' = IF e.ev # "Done" THEN viol ELSE viol \cup
          {<<l + 1, n>> : n \in
             (IF P(e)!C08_ExactPrefix THEN {} ELSE {"C08_ExactPrefix"}) \cup
             (IF P(e)!C08_Contiguous THEN {} ELSE {"C08_Contiguous"}) \cup
             (IF P(e)!C08_ValidBytes THEN {} ELSE {"C08_ValidBytes"}) \cup
             (IF P(e)!C08_FailedLeavesNothing THEN {} ELSE {"C08_FailedLeavesNothing"})}
     /\ (l' = Len(TraceLog)) => PrintT(<<"OBS", ToJson([consumed |-> l', viol |-> viol'])>>)
OSpec == OInit /\ [][Step]_ovars
====
