CONSTANTS
 Parts = {0, 1}
 T = 2
 Created = {2,3}
 Layouts <- LayT
 MaxSegs <- SegT
 Sels <- SelsT
 MaxCopyFaults = 1
 MaxDelFaults = 1
 InspFaultWeight = 1
 FaultWeight = 1
 DelFaultWeight = 1
 DevNoRollback = FALSE
 DevCutInclusive = FALSE
 DevRollbackBeforeIndex = FALSE
INIT Init
NEXT Next
INVARIANTS C08_ExactPrefix C08_Contiguous C08_ValidBytes C08_FailedLeavesNothing PairsComplete ResultSet
VIEW View
CHECK_DEADLOCK FALSE
