CONSTANTS
 Parts = {0, 1}
 T = 2
 Created = {1,2,3}
 Layouts <- LayS
 MaxSegs <- SegS
 Sels <- SelsAll
 MaxCopyFaults = 1
 MaxDelFaults = 1
 InspFaultWeight = 40
 FaultWeight = 6
 DelFaultWeight = 1
 DevNoRollback = FALSE
 DevCutInclusive = FALSE
 DevRollbackBeforeIndex = FALSE
INIT Init
NEXT Next
INVARIANTS EmitSched C08_ExactPrefix C08_Contiguous C08_ValidBytes C08_FailedLeavesNothing

CHECK_DEADLOCK FALSE
