---- MODULE Trace_Handover ----
(* Conformance layer: every line recorded on the two real brokers must be a step of Handover.tla *)
(* (same action, same arguments, same outcome and reply code) whose post-state equals the logged *)
(* projection: etcd lease key, store end offset, ownership maps, parked monitors, ReleaseAll     *)
(* flags, the cached logs (open, next offset, buffered and in-flight batches) and what a fresh   *)
(* broker reads from the bucket.                                                                 *)
EXTENDS Handover
TraceLog == ndJsonDeserialize("trace.ndjson")
VARIABLE l
tvars == <<vars, l>>
E == TraceLog[l]
Cur(ev) == l <= Len(TraceLog) /\ E.ev = ev /\ l' = l + 1
Bases(s) == [i \in 1..Len(s) |-> s[i].base]
Tup(x) == <<x[1], x[2]>>
StMatch ==
  /\ key'.owner = E.key.owner /\ key'.ep = E.key.ep /\ store' = E.store
  /\ \A b \in Brokers :
       /\ own'[b] = E.own[b] /\ closed'[b] = E.closed[b] /\ (sess'[b] = "dead") = E.monp[b]
       /\ mem'[b].open = E.mem[b].open
       /\ (E.mem[b].open => (mem'[b].next = E.mem[b].next /\ Bases(mem'[b].buf) = E.mem[b].buf /\ Bases(mem'[b].fb) = E.mem[b].fb))
  /\ FreshFailOf(s3seg', s3idx', store') = E.fresh.fail
  /\ FreshOf(s3seg', s3idx', store') = {[id |-> Tup(x.id), base |-> x.base] : x \in Range(E.fresh.batches)}
OutMatch == out'.res = E.res /\ out'.code = E.code
TInit == Init /\ l = 1 /\ TLCSet(7, 0)
TReset == /\ Cur("Reset")
          /\ key' = NoKey /\ nep' = 0
          /\ sess' = [b \in Brokers |-> "none"] /\ own' = [b \in Brokers |-> FALSE] /\ closed' = [b \in Brokers |-> FALSE]
          /\ mem' = [b \in Brokers |-> EmptyMem] /\ s3seg' = {} /\ s3idx' = {} /\ store' = 0
          /\ pc' = [b \in Brokers |-> "idle"] /\ req' = [b \in Brokers |-> NoReq] /\ art' = [b \in Brokers |-> NoArt]
          /\ segUp' = [b \in Brokers |-> "none"] /\ idxUp' = [b \in Brokers |-> "none"]
          /\ nreq' = 0 /\ sent' = [b \in Brokers |-> 0] /\ cnt' = [expires |-> 0, releases |-> 0, faults |-> 0, fopens |-> 0]
          /\ acked' = {} /\ tainted' = FALSE /\ overwritten' = {} /\ storeReg' = FALSE
          /\ out' = [b |-> "", res |-> "", code |-> 0] /\ hist' = <<>>
TStart == Cur("Start") /\ Start(E.b, E.n) /\ sent'[E.b] = E.k /\ OutMatch /\ StMatch
TAcqDone == Cur("AcqDone") /\ AcqDone(E.b) /\ OutMatch /\ StMatch
TAppend == Cur("Append") /\ Append_(E.b) /\ OutMatch /\ req'[E.b].base = E.base /\ StMatch
TUpSeg == /\ Cur("UpSeg") /\ UpSeg(E.b, E.ok) /\ art[E.b].base = E.base
          /\ (E.ok => (art[E.b].last = E.last
                       /\ [i \in 1..Len(art[E.b].batches) |-> [id |-> art[E.b].batches[i].id, base |-> art[E.b].batches[i].base, cnt |-> art[E.b].batches[i].cnt]]
                          = [i \in 1..Len(E.batches) |-> [id |-> Tup(E.batches[i].id), base |-> E.batches[i].base, cnt |-> E.batches[i].cnt]]))
          /\ StMatch
TUpIdx == Cur("UpIdx") /\ UpIdx(E.b, E.ok) /\ art[E.b].base = E.base /\ StMatch
TUpSkip == Cur("UpSkip") /\ UpSkip(E.b) /\ (segUp'[E.b] = "skip") = (E.which = "seg") /\ (idxUp'[E.b] = "skip") = (E.which = "idx") /\ StMatch
TUpDone == Cur("UpDone") /\ UpDone(E.b) /\ OutMatch /\ StMatch
TPublish == Cur("Publish") /\ Publish(E.b) /\ OutMatch /\ req[E.b].base = E.base /\ req[E.b].n = E.cnt /\ req[E.b].id[2] = E.k /\ StMatch
TFetchOpen == Cur("FetchOpen") /\ FetchOpen(E.b) /\ OutMatch /\ StMatch
TExpire == Cur("Expire") /\ Expire(E.b) /\ StMatch
TMonitor == Cur("Monitor") /\ Monitor(E.b) /\ StMatch
TReleaseAll == Cur("ReleaseAll") /\ ReleaseAll(E.b) /\ StMatch
TFinal == Cur("Final") /\ UNCHANGED vars /\ StMatch /\ \A b \in Brokers : pc[b] = "idle"
Consumed == TLCSet(7, IF TLCGet(7) < l THEN l ELSE TLCGet(7))
TNext == (TReset \/ TStart \/ TAcqDone \/ TAppend \/ TUpSeg \/ TUpIdx \/ TUpSkip \/ TUpDone \/ TPublish \/ TFetchOpen \/ TExpire
          \/ TMonitor \/ TReleaseAll \/ TFinal) /\ Consumed
TSpec == TInit /\ [][TNext]_tvars
Reached == PrintT(<<"CONF", ToJson([reached |-> TLCGet(7), total |-> Len(TraceLog)])>>)
====
