CONSTANTS
 Brokers = {"b1","b2"}
 MaxReq = 1000000
 Shapes = {1,2}
 MaxExpire = 1000000
 MaxRelease = 1000000
 MaxFaults = 1000000
 MaxFetchOpen = 1000000
 FixReopen = FALSE
 DevNoLeaseCheck = FALSE
 DevMonitorKeepsOwned = FALSE
INIT TInit
NEXT TNext
POSTCONDITION Reached
CHECK_DEADLOCK FALSE
