---- MODULE MC_Handover ----
EXTENDS Handover
====
