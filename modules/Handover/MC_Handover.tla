---- MODULE MC_Handover ----
EXTENDS Handover
\* the cached-log defects need no concurrency at all: search them among behaviours with one request in flight at a time
Sequential == \A a, b \in Brokers : (pc[a] # "idle" /\ pc[b] # "idle") => a = b
====
