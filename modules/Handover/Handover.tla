---- MODULE Handover ----
(* Two brokers, ONE partition whose S3 prefix and metadata-store end offset are shared, during   *)
(* partition-lease handover.  Composition of the essentials of Log.tla (AppendBatch / Flush /    *)
(* the two uploads / commit / publish / open = getPartitionLog + RestoreFromS3) with the         *)
(* essentials of Lease.tla (acquire txn, session expiry noticed late by the old owner,           *)
(* ReleaseAll), cut at the scheduler gates of the code:                                          *)
(*   cmd/broker/main.go  handleProduce: acquirePartitionLeases -> lease check -> getPartitionLog *)
(*                       (cached per broker for the life of the process) -> AppendBatch -> Flush *)
(*                       -> reply;  handleFetch: getPartitionLog without any lease               *)
(*   pkg/metadata/lease_manager.go  doAcquire (create-if-absent txn, local commit), monitorSession, ReleaseAll *)
(*   pkg/storage/log.go  AppendBatch, prepareFlush, uploadFlush, RestoreFromS3                   *)
(* One request at a time per broker (one client per broker); the two brokers interleave freely.  *)
(* FixReopen = FALSE is the pinned tree: a broker that newly acquires the lease keeps using the  *)
(* PartitionLog it cached earlier (as a former owner, or while serving a fetch as a non-owner).  *)
EXTENDS Integers, Sequences, FiniteSets, TLC, Json
CONSTANTS Brokers, MaxReq, Shapes, MaxExpire, MaxRelease, MaxFaults, MaxFetchOpen,
          FixReopen,             \* TRUE: a newly acquired lease makes the broker re-open the partition from S3 + store
          DevNoLeaseCheck,       \* handleProduce goes on although the lease acquisition answered "not owner"
          DevMonitorKeepsOwned   \* monitorSession does not clear the ownership map
VARIABLES key, nep,        \* etcd lease key of the partition [owner, ep] (ep = how many key instances were created so far), NoKey if absent
          sess, own, closed, \* per broker: lease-manager session ("none" | "live" | "dead" = gone in etcd, monitorSession not yet run), owned map, ReleaseAll called
          mem,             \* per broker: the cached PartitionLog [open, next, buf, fb, pub]  (pub = `published` of the flush callback)
          s3seg, s3idx,    \* bucket: segment objects [base, last, batches, w], set of bases with an index object
          store,           \* metadata store: next_offset of the partition
          pc, req, art, segUp, idxUp,   \* per broker: the produce request in flight
          nreq, sent, cnt, \* budgets
          acked, tainted, overwritten, storeReg,   \* history for the properties
          out, hist
vars == <<key, nep, sess, own, closed, mem, s3seg, s3idx, store, pc, req, art, segUp, idxUp, nreq, sent, cnt,
          acked, tainted, overwritten, storeReg, out, hist>>

NoKey == [owner |-> "", ep |-> 0]
EmptyMem == [open |-> FALSE, next |-> 0, buf |-> <<>>, fb |-> <<>>, pub |-> -1]
NoArt == [base |-> -1, last |-> -1, batches |-> <<>>]
NoReq == [id |-> <<"none", 0>>, n |-> 0, base |-> -1, ep |-> 0, held |-> FALSE, unnoticed |-> FALSE, txn |-> FALSE]
Range(s) == {s[i] : i \in DOMAIN s}
LastOf(b) == b.base + b.cnt - 1
MkArt(bs) == [base |-> bs[1].base, last |-> LastOf(bs[Len(bs)]), batches |-> bs]
Log(e) == hist' = Append(hist, e)
Out(b, res, code) == out' = [b |-> b, res |-> res, code |-> code]

Init == /\ key = NoKey /\ nep = 0
        /\ sess = [b \in Brokers |-> "none"] /\ own = [b \in Brokers |-> FALSE] /\ closed = [b \in Brokers |-> FALSE]
        /\ mem = [b \in Brokers |-> EmptyMem] /\ s3seg = {} /\ s3idx = {} /\ store = 0
        /\ pc = [b \in Brokers |-> "idle"] /\ req = [b \in Brokers |-> NoReq] /\ art = [b \in Brokers |-> NoArt]
        /\ segUp = [b \in Brokers |-> "none"] /\ idxUp = [b \in Brokers |-> "none"]
        /\ nreq = 0 /\ sent = [b \in Brokers |-> 0] /\ cnt = [expires |-> 0, releases |-> 0, faults |-> 0, fopens |-> 0]
        /\ acked = {} /\ tainted = FALSE /\ overwritten = {} /\ storeReg = FALSE
        /\ out = [b |-> "", res |-> "", code |-> 0] /\ hist = <<>>

\* the broker's lease, as etcd sees it now, is the one its request in flight checked
Held(b) == key.owner = b /\ req[b].ep # 0 /\ key.ep = req[b].ep

\* ---------------------------------------------------------------- open = getPartitionLog (NextOffset, RestoreFromS3, store sync)
RECURSIVE SortObjs(_)
SortObjs(S) == IF S = {} THEN <<>> ELSE LET m == CHOOSE x \in S : \A y \in S : x.base <= y.base IN <<m>> \o SortObjs(S \ {m})
Good == {o \in s3seg : o.base \in s3idx}
RestoreResult ==
  LET start == store
      bad == \E o \in s3seg : o.base \notin s3idx /\ o.base < start   \* orphan below the published end offset: RestoreFromS3 fails
      good == SortObjs(Good)
      last == IF good = <<>> THEN -1 ELSE good[Len(good)].last
  IN [bad |-> bad,
      next |-> IF last >= start THEN last + 1 ELSE start,
      store |-> IF ~bad /\ last >= start THEN last + 1 ELSE store,
      pub |-> IF last >= start THEN last ELSE start - 1]
\* request r of broker b has passed its lease check: getPartitionLog, then park before AppendBatch
OpenPark(b, r, drop) ==
  LET m0 == IF drop THEN EmptyMem ELSE mem[b]
      R == RestoreResult
  IN IF m0.open
     THEN /\ mem' = [mem EXCEPT ![b] = m0] /\ UNCHANGED store
          /\ pc' = [pc EXCEPT ![b] = "atappend"] /\ req' = [req EXCEPT ![b] = r] /\ Out(b, "atappend", 0)
     ELSE IF R.bad
          THEN /\ mem' = [mem EXCEPT ![b] = EmptyMem] /\ UNCHANGED store
               /\ pc' = [pc EXCEPT ![b] = "idle"] /\ req' = [req EXCEPT ![b] = NoReq] /\ Out(b, "openfail", -1)
          ELSE /\ mem' = [mem EXCEPT ![b] = [open |-> TRUE, next |-> R.next, buf |-> <<>>, fb |-> <<>>, pub |-> R.pub]]
               /\ store' = R.store
               /\ pc' = [pc EXCEPT ![b] = "atappend"] /\ req' = [req EXCEPT ![b] = r] /\ Out(b, "atappend", 0)

\* ---------------------------------------------------------------- produce
\* handleProduce up to the first gate: AcquireAll (ownership map lookup, or session + create-if-absent txn)
Start(b, n) ==
  /\ pc[b] = "idle" /\ nreq < MaxReq
  /\ nreq' = nreq + 1 /\ sent' = [sent EXCEPT ![b] = @ + 1]
  /\ Log([a |-> "Start", b |-> b, n |-> n])
  /\ LET id == <<b, sent[b] + 1>> IN
     IF closed[b]
     THEN \* ErrShuttingDown -> NOT_LEADER_OR_FOLLOWER
          /\ Out(b, "refused", 6)
          /\ UNCHANGED <<key, nep, sess, own, mem, store, pc, req>>
     ELSE IF own[b]
     THEN \* owned according to the local map: no etcd round trip
          /\ OpenPark(b, [id |-> id, n |-> n, base |-> -1, ep |-> IF key.owner = b THEN key.ep ELSE 0, held |-> key.owner = b,
                          unnoticed |-> sess[b] = "dead", txn |-> TRUE], FALSE)
          /\ UNCHANGED <<key, nep, sess, own>>
     ELSE \* getOrCreateSession (a dead session is replaced) + txn; parked at lease.afterTxn
          /\ sess' = [sess EXCEPT ![b] = "live"]
          /\ IF key = NoKey
             THEN /\ key' = [owner |-> b, ep |-> nep + 1] /\ nep' = nep + 1
                  /\ req' = [req EXCEPT ![b] = [id |-> id, n |-> n, base |-> -1, ep |-> nep + 1, held |-> TRUE, unnoticed |-> FALSE, txn |-> TRUE]]
             ELSE /\ UNCHANGED <<key, nep>>
                  /\ req' = [req EXCEPT ![b] = [id |-> id, n |-> n, base |-> -1, ep |-> 0, held |-> FALSE, unnoticed |-> FALSE, txn |-> FALSE]]
          /\ pc' = [pc EXCEPT ![b] = "aftertxn"] /\ Out(b, "aftertxn", 0)
          /\ UNCHANGED <<own, mem, store>>
  /\ UNCHANGED <<closed, s3seg, s3idx, art, segUp, idxUp, cnt, acked, tainted, overwritten, storeReg>>
\* doAcquire after the txn: local commit (unless the session is gone), then the rest of handleProduce up to AppendBatch
AcqDone(b) ==
  /\ pc[b] = "aftertxn"
  /\ Log([a |-> "AcqDone", b |-> b])
  /\ IF ~req[b].txn /\ ~DevNoLeaseCheck
     THEN /\ Out(b, "refused", 6) /\ pc' = [pc EXCEPT ![b] = "idle"] /\ req' = [req EXCEPT ![b] = NoReq]
          /\ UNCHANGED <<own, mem, store>>
     ELSE IF req[b].txn /\ sess[b] = "none"
     THEN \* "session changed during acquire" -> REQUEST_TIMED_OUT
          /\ Out(b, "refused", 7) /\ pc' = [pc EXCEPT ![b] = "idle"] /\ req' = [req EXCEPT ![b] = NoReq]
          /\ UNCHANGED <<own, mem, store>>
     ELSE /\ own' = [own EXCEPT ![b] = req[b].txn]
          /\ OpenPark(b, req[b], FixReopen /\ req[b].txn)
  /\ UNCHANGED <<key, nep, sess, closed, s3seg, s3idx, art, segUp, idxUp, nreq, sent, cnt, acked, tainted, overwritten, storeReg>>
\* AppendBatch's critical section, then Flush: prepareFlush drains the buffer (nothing else is in flight on this log)
Append_(b) ==
  /\ pc[b] = "atappend"
  /\ Log([a |-> "Append", b |-> b])
  /\ LET bt == [id |-> req[b].id, base |-> mem[b].next, cnt |-> req[b].n]
         buf1 == Append(mem[b].buf, bt)
     IN /\ mem' = [mem EXCEPT ![b].next = @ + req[b].n, ![b].buf = <<>>, ![b].fb = buf1]
        /\ art' = [art EXCEPT ![b] = MkArt(buf1)]
        /\ req' = [req EXCEPT ![b].base = mem[b].next]
  /\ segUp' = [segUp EXCEPT ![b] = "pending"] /\ idxUp' = [idxUp EXCEPT ![b] = "pending"]
  /\ pc' = [pc EXCEPT ![b] = "upload"] /\ Out(b, "upload", 0)
  /\ UNCHANGED <<key, nep, sess, own, closed, s3seg, s3idx, store, nreq, sent, cnt, acked, tainted, overwritten, storeReg>>
UpSeg(b, ok) ==
  /\ pc[b] = "upload" /\ segUp[b] = "pending"
  /\ Log([a |-> "UpSeg", b |-> b, ok |-> ok])
  /\ Out(b, "upseg", 0)
  /\ IF ok
     THEN LET new == [base |-> art[b].base, last |-> art[b].last, batches |-> art[b].batches, w |-> b]
              old == {o \in s3seg : o.base = art[b].base}
              keep == {[id |-> x.id, base |-> x.base] : x \in Range(new.batches)}
              gone == {a \in acked : \E o \in old : \E x \in Range(o.batches) : x.id = a.id /\ x.base = a.base /\ [id |-> x.id, base |-> x.base] \notin keep}
          IN /\ s3seg' = {o \in s3seg : o.base # new.base} \cup {new}
             /\ overwritten' = overwritten \cup {a.id : a \in gone}
             /\ tainted' = (tainted \/ ~Held(b))
             /\ segUp' = [segUp EXCEPT ![b] = "ok"] /\ UNCHANGED cnt
     ELSE /\ cnt.faults < MaxFaults /\ cnt' = [cnt EXCEPT !.faults = @ + 1]
          /\ segUp' = [segUp EXCEPT ![b] = "fail"] /\ UNCHANGED <<s3seg, overwritten, tainted>>
  /\ UNCHANGED <<key, nep, sess, own, closed, mem, s3idx, store, pc, req, art, idxUp, nreq, sent, acked, storeReg>>
UpIdx(b, ok) ==
  /\ pc[b] = "upload" /\ idxUp[b] = "pending"
  /\ Log([a |-> "UpIdx", b |-> b, ok |-> ok])
  /\ Out(b, "upidx", 0)
  /\ IF ok
     THEN /\ s3idx' = s3idx \cup {art[b].base} /\ tainted' = (tainted \/ ~Held(b))
          /\ idxUp' = [idxUp EXCEPT ![b] = "ok"] /\ UNCHANGED cnt
     ELSE /\ cnt.faults < MaxFaults /\ cnt' = [cnt EXCEPT !.faults = @ + 1]
          /\ idxUp' = [idxUp EXCEPT ![b] = "fail"] /\ UNCHANGED <<s3idx, tainted>>
  /\ UNCHANGED <<key, nep, sess, own, closed, mem, s3seg, store, pc, req, art, segUp, nreq, sent, acked, overwritten, storeReg>>
\* errgroup cancelled the sibling after a failure: the pending upload is abandoned
UpSkip(b) ==
  /\ pc[b] = "upload"
  /\ \/ segUp[b] = "pending" /\ idxUp[b] = "fail" /\ segUp' = [segUp EXCEPT ![b] = "skip"] /\ UNCHANGED idxUp
        /\ Log([a |-> "UpSkip", b |-> b, which |-> "seg"])
     \/ idxUp[b] = "pending" /\ segUp[b] = "fail" /\ idxUp' = [idxUp EXCEPT ![b] = "skip"] /\ UNCHANGED segUp
        /\ Log([a |-> "UpSkip", b |-> b, which |-> "idx"])
  /\ Out(b, "upskip", 0)
  /\ UNCHANGED <<key, nep, sess, own, closed, mem, s3seg, s3idx, store, pc, req, art, nreq, sent, cnt, acked, tainted, overwritten, storeReg>>
\* uploadFlush's second critical section: commit, or put the drained batches back and fail the request
UpDone(b) ==
  /\ pc[b] = "upload" /\ segUp[b] # "pending" /\ idxUp[b] # "pending"
  /\ Log([a |-> "UpDone", b |-> b])
  /\ IF segUp[b] = "ok" /\ idxUp[b] = "ok"
     THEN /\ mem' = [mem EXCEPT ![b].fb = <<>>]
          /\ pc' = [pc EXCEPT ![b] = "publish"] /\ Out(b, "commit", 0) /\ UNCHANGED <<req, art>>
     ELSE /\ mem' = [mem EXCEPT ![b].fb = <<>>, ![b].buf = mem[b].fb \o @]
          /\ pc' = [pc EXCEPT ![b] = "idle"] /\ Out(b, "flushfail", -1) /\ req' = [req EXCEPT ![b] = NoReq] /\ art' = [art EXCEPT ![b] = NoArt]
  /\ segUp' = [segUp EXCEPT ![b] = "none"] /\ idxUp' = [idxUp EXCEPT ![b] = "none"]
  /\ UNCHANGED <<key, nep, sess, own, closed, s3seg, s3idx, store, nreq, sent, cnt, acked, tainted, overwritten, storeReg>>
\* onFlush -> store.UpdateOffsets (a plain put, guarded only by this log's own `published`), then the success reply
Publish(b) ==
  /\ pc[b] = "publish"
  /\ Log([a |-> "Publish", b |-> b])
  /\ LET lastv == art[b].last
         skip == lastv < mem[b].pub
     IN /\ store' = IF skip THEN store ELSE lastv + 1
        /\ storeReg' = (storeReg \/ (~skip /\ lastv + 1 < store))
        /\ mem' = [mem EXCEPT ![b].pub = IF skip THEN @ ELSE lastv]
  /\ acked' = acked \cup {[id |-> req[b].id, br |-> b, base |-> req[b].base, cnt |-> req[b].n,
                            held |-> req[b].held, unnoticed |-> req[b].unnoticed, other |-> key.owner \notin {"", b}]}
  /\ tainted' = (tainted \/ ~Held(b))
  /\ pc' = [pc EXCEPT ![b] = "idle"] /\ req' = [req EXCEPT ![b] = NoReq] /\ art' = [art EXCEPT ![b] = NoArt] /\ Out(b, "ack", 0)
  /\ UNCHANGED <<key, nep, sess, own, closed, s3seg, s3idx, segUp, idxUp, nreq, sent, cnt, overwritten>>

\* ---------------------------------------------------------------- a fetch served by a broker opens (and caches) the log without any lease
FetchOpen(b) ==
  /\ pc[b] = "idle" /\ ~mem[b].open /\ cnt.fopens < MaxFetchOpen /\ cnt' = [cnt EXCEPT !.fopens = @ + 1]
  /\ Log([a |-> "FetchOpen", b |-> b])
  /\ LET R == RestoreResult IN
       IF R.bad THEN /\ Out(b, "openfail", -1) /\ UNCHANGED <<mem, store, tainted>>
       ELSE /\ mem' = [mem EXCEPT ![b] = [open |-> TRUE, next |-> R.next, buf |-> <<>>, fb |-> <<>>, pub |-> R.pub]]
            /\ store' = R.store /\ Out(b, "opened", 0)
            \* getPartitionLog syncs the store's end offset from S3 whoever calls it: a store write by a broker that holds no lease
            /\ tainted' = (tainted \/ (R.store # store /\ key.owner # b))
  /\ UNCHANGED <<key, nep, sess, own, closed, s3seg, s3idx, pc, req, art, segUp, idxUp, nreq, sent, acked, overwritten, storeReg>>

\* ---------------------------------------------------------------- lease environment
\* the broker's etcd lease expires / is revoked: its key vanishes; the manager has not noticed yet (monitorSession parked)
Expire(b) ==
  /\ sess[b] = "live" /\ key.owner = b /\ cnt.expires < MaxExpire /\ cnt' = [cnt EXCEPT !.expires = @ + 1]
  /\ Log([a |-> "Expire", b |-> b])
  /\ key' = NoKey /\ sess' = [sess EXCEPT ![b] = "dead"] /\ Out(b, "expired", 0)
  /\ UNCHANGED <<nep, own, closed, mem, s3seg, s3idx, store, pc, req, art, segUp, idxUp, nreq, sent, acked, tainted, overwritten, storeReg>>
\* monitorSession's body
Monitor(b) ==
  /\ sess[b] = "dead"
  /\ Log([a |-> "Monitor", b |-> b])
  /\ sess' = [sess EXCEPT ![b] = "none"] /\ own' = [own EXCEPT ![b] = IF DevMonitorKeepsOwned THEN @ ELSE FALSE] /\ Out(b, "monitor", 0)
  /\ UNCHANGED <<key, nep, closed, mem, s3seg, s3idx, store, pc, req, art, segUp, idxUp, nreq, sent, cnt, acked, tainted, overwritten, storeReg>>
\* graceful shutdown: main() calls ReleaseAll BEFORE the in-flight requests have drained
ReleaseAll(b) ==
  /\ ~closed[b] /\ sess[b] # "none" /\ cnt.releases < MaxRelease /\ cnt' = [cnt EXCEPT !.releases = @ + 1]
  /\ Log([a |-> "ReleaseAll", b |-> b])
  /\ closed' = [closed EXCEPT ![b] = TRUE] /\ own' = [own EXCEPT ![b] = FALSE] /\ sess' = [sess EXCEPT ![b] = "none"]
  /\ key' = (IF key.owner = b THEN NoKey ELSE key) /\ Out(b, "released", 0)
  /\ UNCHANGED <<nep, mem, s3seg, s3idx, store, pc, req, art, segUp, idxUp, nreq, sent, acked, tainted, overwritten, storeReg>>

StartAny(b) == \E n \in Shapes : Start(b, n)
UpSegOk(b) == UpSeg(b, TRUE)
UpSegFail(b) == UpSeg(b, FALSE)
UpIdxOk(b) == UpIdx(b, TRUE)
UpIdxFail(b) == UpIdx(b, FALSE)
Next == \E b \in Brokers : \/ StartAny(b) \/ AcqDone(b) \/ Append_(b) \/ UpSegOk(b) \/ UpSegFail(b) \/ UpIdxOk(b) \/ UpIdxFail(b)
                           \/ UpSkip(b) \/ UpDone(b) \/ Publish(b) \/ FetchOpen(b) \/ Expire(b) \/ Monitor(b) \/ ReleaseAll(b)
Spec == Init /\ [][Next]_vars

\* ---------------------------------------------------------------- what a fresh broker reads from S3 + store (PartitionLog.Read after RestoreFromS3)
FreshFailOf(sg, si, st) == \E o \in sg : o.base \notin si /\ o.base < st
\* Read picks the first registered segment (by base) whose last offset reaches the offset
FreshOf(sg, si, st) ==
  LET good == {o \in sg : o.base \in si}
      Visible(o, x) == ~\E s \in good : s.base < o.base /\ s.last >= x.base
  IN IF FreshFailOf(sg, si, st) THEN {}
     ELSE UNION {{[id |-> x.id, base |-> x.base] : x \in {y \in Range(o.batches) : Visible(o, y)}} : o \in good}
FreshFail == FreshFailOf(s3seg, s3idx, store)
Fresh == FreshOf(s3seg, s3idx, store)

P == INSTANCE HandoverProps WITH acked <- acked, tainted <- tainted, freshFail <- FreshFail, fresh <- Fresh,
                                 overwritten <- overwritten, storeReg <- storeReg
G01_Durable == P!G01_Durable
G02_Unique == P!G02_Unique
G02_NoOverwrite == P!G02_NoOverwrite
G03_AckOnlyIfHeld == P!G03_AckOnlyIfHeld
G04_NoRegress == P!G04_NoRegress
D01_Durable == P!D01_Durable
D02_Unique == P!D02_Unique
D02_NoOverwrite == P!D02_NoOverwrite
D03_HeldAtCheck == P!D03_HeldAtCheck
D03_NotAfterTakeover == P!D03_NotAfterTakeover
D04_NoRegress == P!D04_NoRegress

\* internal invariants of the composition
OwnedBacked == \A b \in Brokers : own[b] => (key.owner = b \/ sess[b] = "dead" \/ DevMonitorKeepsOwned)
KeyHasSession == key.owner # "" => sess[key.owner] = "live"

View == <<key, nep, sess, own, closed, mem, s3seg, s3idx, store, pc, req, art, segUp, idxUp, nreq, sent, cnt, acked, tainted, overwritten, storeReg>>
EmitSched == PrintT(<<"SCHED", ToJson(hist)>>)
====
