---- MODULE Obs_Handover ----
(* Observation layer for Handover.tla: the state is accumulated ONLY from lines recorded on the  *)
(* two real brokers (etcd lease key and store end offset read by an admin client after every     *)
(* step, the fake bucket's puts, the produce replies, what a fresh PartitionLog reads); the      *)
(* Gnn_* (verdict) and Dnn_* (diagnostic) predicates are the HandoverProps definitions           *)
(* instantiated with those values.                                                               *)
EXTENDS Integers, Sequences, FiniteSets, TLC, Json
TraceLog == ndJsonDeserialize("trace.ndjson")
VARIABLES l, acked, tainted, overwritten, storeReg, s3seg, prevStore, req, viol
ovars == <<l, acked, tainted, overwritten, storeReg, s3seg, prevStore, req, viol>>
Range(s) == {s[i] : i \in DOMAIN s}
Bs == {"b1", "b2"}
NoReq == [ep |-> 0, held |-> FALSE, unnoticed |-> FALSE]
Tup(x) == <<x[1], x[2]>>
P(a, t, ff, fr, ow, sr) == INSTANCE HandoverProps WITH acked <- a, tainted <- t, freshFail <- ff, fresh <- fr, overwritten <- ow, storeReg <- sr
Names == {"G01_Durable", "G02_Unique", "G02_NoOverwrite", "G03_AckOnlyIfHeld", "G04_NoRegress",
          "D01_Durable", "D02_Unique", "D02_NoOverwrite", "D03_HeldAtCheck", "D03_NotAfterTakeover", "D04_NoRegress"}
Bad(a, t, ff, fr, ow, sr) == {n \in Names :
    \/ n = "G01_Durable" /\ ~P(a, t, ff, fr, ow, sr)!G01_Durable
    \/ n = "G02_Unique" /\ ~P(a, t, ff, fr, ow, sr)!G02_Unique
    \/ n = "G02_NoOverwrite" /\ ~P(a, t, ff, fr, ow, sr)!G02_NoOverwrite
    \/ n = "G03_AckOnlyIfHeld" /\ ~P(a, t, ff, fr, ow, sr)!G03_AckOnlyIfHeld
    \/ n = "G04_NoRegress" /\ ~P(a, t, ff, fr, ow, sr)!G04_NoRegress
    \/ n = "D01_Durable" /\ ~P(a, t, ff, fr, ow, sr)!D01_Durable
    \/ n = "D02_Unique" /\ ~P(a, t, ff, fr, ow, sr)!D02_Unique
    \/ n = "D02_NoOverwrite" /\ ~P(a, t, ff, fr, ow, sr)!D02_NoOverwrite
    \/ n = "D03_HeldAtCheck" /\ ~P(a, t, ff, fr, ow, sr)!D03_HeldAtCheck
    \/ n = "D03_NotAfterTakeover" /\ ~P(a, t, ff, fr, ow, sr)!D03_NotAfterTakeover
    \/ n = "D04_NoRegress" /\ ~P(a, t, ff, fr, ow, sr)!D04_NoRegress}
OInit == /\ l = 0 /\ acked = {} /\ tainted = FALSE /\ overwritten = {} /\ storeReg = FALSE /\ s3seg = {} /\ prevStore = 0
         /\ req = [b \in Bs |-> NoReq] /\ viol = {}
Step ==
  /\ l < Len(TraceLog) /\ l' = l + 1
  /\ LET e == TraceLog[l + 1]
         reset == e.ev = "Reset"
     IN IF reset
        THEN /\ acked' = {} /\ tainted' = FALSE /\ overwritten' = {} /\ storeReg' = FALSE /\ s3seg' = {} /\ prevStore' = 0
             /\ req' = [b \in Bs |-> NoReq] /\ viol' = viol
        ELSE LET b == IF e.ev = "Final" THEN "b1" ELSE e.b
                 \* the lease instance etcd shows now is the one the request of b checked
                 held == e.key.owner = b /\ req[b].ep # 0 /\ e.key.ep = req[b].ep
                 putseg == e.ev = "UpSeg" /\ e.ok
                 effect == putseg \/ (e.ev = "UpIdx" /\ e.ok) \/ (e.ev = "Publish" /\ e.code = 0)
                 newobj == [base |-> e.base, batches |-> {[id |-> Tup(x.id), base |-> x.base] : x \in Range(e.batches)}]
                 gone == {a \in acked : \E o \in s3seg : o.base = e.base /\ [id |-> a.id, base |-> a.base] \in o.batches
                                                        /\ [id |-> a.id, base |-> a.base] \notin newobj.batches}
             IN /\ req' = IF e.ev = "Start" /\ e.res \in {"atappend", "aftertxn", "openfail"}
                          THEN [req EXCEPT ![b] = [ep |-> IF e.key.owner = b THEN e.key.ep ELSE 0, held |-> e.key.owner = b,
                                                   unnoticed |-> (e.res # "aftertxn" /\ e.monp[b])]]
                          ELSE req
                /\ s3seg' = IF putseg THEN {o \in s3seg : o.base # e.base} \cup {newobj} ELSE s3seg
                /\ overwritten' = IF putseg THEN overwritten \cup {a.id : a \in gone} ELSE overwritten
                /\ tainted' = (tainted \/ (effect /\ ~held) \/ (e.ev = "FetchOpen" /\ e.store # prevStore /\ e.key.owner # b))
                /\ acked' = IF e.ev = "Publish" /\ e.code = 0
                            THEN acked \cup {[id |-> <<b, e.k>>, br |-> b, base |-> e.base, cnt |-> e.cnt, held |-> req[b].held,
                                              unnoticed |-> req[b].unnoticed, other |-> e.key.owner \notin {"", b}]}
                            ELSE acked
                /\ storeReg' = (storeReg \/ e.store < prevStore)
                /\ prevStore' = e.store
                /\ viol' = viol \cup {<<l + 1, n>> : n \in Bad(acked', tainted', e.fresh.fail,
                                                              {[id |-> Tup(x.id), base |-> x.base] : x \in Range(e.fresh.batches)}, overwritten', storeReg')}
  /\ (l' = Len(TraceLog)) => PrintT(<<"OBS", ToJson([consumed |-> l', viol |-> viol'])>>)
OSpec == OInit /\ [][Step]_ovars
====
