CONSTANTS
 Brokers = {"b1","b2"}
 MaxReq = 3
 Shapes = {1}
 MaxExpire = 1
 MaxRelease = 1
 MaxFaults = 0
 MaxFetchOpen = 1
 FixReopen = FALSE
 DevNoLeaseCheck = FALSE
 DevMonitorKeepsOwned = FALSE
INIT Init
NEXT Next
CHECK_DEADLOCK FALSE
VIEW View
CONSTRAINT Sequential
INVARIANTS G02_Unique
