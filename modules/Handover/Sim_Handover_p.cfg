CONSTANTS
 Brokers = {"b1","b2"}
 MaxReq = 5
 Shapes = {1,2}
 MaxExpire = 2
 MaxRelease = 1
 MaxFaults = 2
 MaxFetchOpen = 1
 FixReopen = FALSE
 DevNoLeaseCheck = FALSE
 DevMonitorKeepsOwned = FALSE
INIT Init
NEXT Next
CHECK_DEADLOCK FALSE
INVARIANTS EmitSched
