CONSTANTS
 Brokers = {"b1","b2"}
 MaxReq = 2
 Shapes = {1,2}
 MaxExpire = 1
 MaxRelease = 1
 MaxFaults = 1
 MaxFetchOpen = 1
 FixReopen = TRUE
 DevNoLeaseCheck = FALSE
 DevMonitorKeepsOwned = FALSE
INIT Init
NEXT Next
CHECK_DEADLOCK FALSE
VIEW View
INVARIANTS G01_Durable G02_Unique G02_NoOverwrite G03_AckOnlyIfHeld G04_NoRegress OwnedBacked KeyHasSession
