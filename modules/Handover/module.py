"""Handover.tla — growth module G01..G04: two brokers, one partition, shared S3 prefix + store offset, during lease handover."""
import bisect, copy, json, os, re
from concurrent.futures import ThreadPoolExecutor
from lib import tlc as T, layers, gorun
from lib.common import Broken, Violation, verdict, save_replay

GROWTH = True
_TXT = ("Handover.tla composes the produce path of Log.tla (AppendBatch, Flush, the two uploads, commit / failure reset, store update, reply, "
        "open = getPartitionLog + RestoreFromS3 + store sync, incl. a fetch opening the log on a non-owner) with the lease path of Lease.tla "
        "(create-if-absent txn, local commit, session expiry noticed late, monitorSession, ReleaseAll before the drain) for TWO brokers that share one "
        "partition's S3 prefix and metadata-store end offset. TLC checks %s exhaustively for 2 brokers, <=3 produce requests, <=1 expiry, <=1 ReleaseAll, "
        "<=1 S3 fault, <=1 fetch-open. TLC behaviours (counterexamples of the named wrong designs, counterexamples of the unguarded diagnostics = the "
        "inherent lease-expiry window, seeded simulations of the repaired and of the pinned design) are replayed on two real handlers with real "
        "PartitionLeaseManagers and EtcdStores over one embedded etcd and one shared fake bucket; the recorded traces are validated by TLC: the "
        "HandoverProps predicates on observed values (layer O) and step-by-step conformance with the model (layer C).")
_NOTE = ("Verdict predicates Gnn_* cover run prefixes without a stale effect (a put / store update / ack by a request whose checked lease instance etcd no "
         "longer shows, or a store sync by a broker holding no lease); the unguarded Dnn_* statements are diagnostics counted in the evidence (what any "
         "lease without fencing admits). Trusted: TLC, the fake bucket, the admin client's reads of etcd between steps, the projection of segment bytes to "
         "batch ids, the keepalive wrapper (leases end only by the schedule's Revoke). One request at a time per broker; index contents are not compared.")
PROPS = {
    "G01": {"text": _TXT % "G01_Durable (extends C01/C06: every acknowledged record is read at its offset by a fresh broker)", "note": _NOTE},
    "G02": {"text": _TXT % "G02_Unique and G02_NoOverwrite (extends C02: acknowledged batches never overlap, none is overwritten by a same-base segment upload)", "note": _NOTE},
    "G03": {"text": _TXT % "G03_AckOnlyIfHeld (C19: success only under a lease check backed by etcd, or whose loss the broker had not been told yet)", "note": _NOTE},
    "G04": {"text": _TXT % "G04_NoRegress (extends C05: the store's end offset never decreases across the handover)", "note": _NOTE},
}
for _p in PROPS.values():
    _p["technique"] = "TLA+ model (Handover.tla) + TLC exhaustive check + gate-scheduled replay of TLC behaviours into two real brokers on embedded etcd + TLC trace validation (observation and conformance layers)"
    _p["design_ref"] = "DESIGN.md §8 (1); modules/Handover/NOTES.md"

# named wrong designs: config suffix -> predicate TLC must report
DEVS = {"NoReopen": "G01_Durable", "NoReopenFetch": "G02_NoOverwrite", "NoReopenRegress": "G04_NoRegress", "NoReopenUnique": "G02_Unique",
        "NoLeaseCheck": "G03_AckOnlyIfHeld", "MonitorKeepsOwned": "G03_AckOnlyIfHeld"}
# the inherent window in the repaired design: unguarded statements TLC must refute; replayed, they must show up as diagnostics
DIAGS = {"Durable": "D01_Durable", "Unique": "D02_Unique", "NoOverwrite": "D02_NoOverwrite", "HeldAtCheck": "D03_HeldAtCheck",
         "NotAfterTakeover": "D03_NotAfterTakeover", "NoRegress": "D04_NoRegress"}
GATES = ["aftertxn", "append", "flush", "upseg", "upidx", "updone", "publish", "monitor"]
SPEC = "MC_Handover.tla"


def harness(ctx, scheds, tag):
    sp = os.path.join(ctx.scratch, "sched-%s.ndjson" % tag)
    tp = os.path.join(ctx.scratch, "trace-%s.ndjson" % tag)
    gorun.write_ndjson(sp, scheds)
    rc, out = gorun.go_test(ctx, ".", "./cmd/broker/", {"cmd/broker/zz_verif_handover_test.go": os.path.join(DIR, "harness", "handover_verif_test.go")},
                            "^TestVerifHandoverReplay$", env={"VERIF_SCHEDULES": sp, "VERIF_TRACE_OUT": tp}, timeout=1500)
    if rc != 0 or "replayed %d schedules" % len(scheds) not in out:
        raise Broken("handover harness failed:\n" + out[-4000:])
    m = re.search(r"gate hits (\{.*\})", out)
    hits = json.loads(m.group(1)) if m else {}
    m = re.search(r"steps not imposed (\d+)", out)
    return gorun.read_ndjson(tp), hits, int(m.group(1)) if m else -1


def split(rows):
    runs = []
    for r in rows:
        if r["ev"] == "Reset":
            runs.append([])
        runs[-1].append(r)
    return runs


def _req(b, n, acquire):
    return ([{"a": "Start", "b": b, "n": n}] + ([{"a": "AcqDone", "b": b}] if acquire else []) +
            [{"a": "Append", "b": b}, {"a": "UpSeg", "b": b, "ok": True}, {"a": "UpIdx", "b": b, "ok": True}, {"a": "UpDone", "b": b}, {"a": "Publish", "b": b}])


# a plain behaviour of the model without any lease event (two produces of the owner, a refused produce of the other broker):
# certainly free of stale effects; the binding self-test corrupts it
BASE = {"label": "base:plain", "steps": _req("b1", 1, True) + _req("b1", 2, False) + [{"a": "Start", "b": "b2", "n": 1}, {"a": "AcqDone", "b": "b2"}]}


def gen_schedules(ctx, d):
    scheds = [BASE]

    def one(item):
        kind, name, pred = item
        h, r = T.counterexample_hist(ctx, d, SPEC, "%s_Handover_%s.cfg" % (kind, name), workers=2, timeout=900)
        return kind, name, pred, h, r
    items = [("Dev", n, p) for n, p in sorted(DEVS.items())] + [("Diag", n, p) for n, p in sorted(DIAGS.items())]
    with ThreadPoolExecutor(max_workers=6) as ex:
        res = list(ex.map(one, items))
    for kind, name, pred, h, r in res:
        if h is None or pred not in r.violated:
            raise Broken("%s config %s no longer violates %s in the model (vacuous)" % (kind, name, pred))
        scheds.append({"label": "%s:%s" % (kind.lower(), name), "steps": h})
    nsim = 40 if ctx.quick() else 400
    for i, cfg in enumerate(["Sim_Handover_a.cfg", "Sim_Handover_p.cfg"]):
        hs, _ = T.simulate_hists(ctx, d, SPEC, cfg, num=nsim, depth=45, seed=ctx.seed * 11 + i, timeout=900)
        for h in hs:
            scheds.append({"label": "sim:" + cfg[13], "steps": h})
    return scheds


def observe(ctx, rows, name="obs"):
    _, viol, _ = layers.observe(ctx, DIR, "Obs_Handover.tla", "Obs_Handover.cfg", rows, name=name, timeout=1800)
    return viol


def situation(run, upto, b):
    """Signature class of a violating step of broker b (classification of the recorded history, not an oracle): did b take the
    lease while it already had a PartitionLog cached (as a former owner or from serving a fetch)?"""
    last = None
    for i, r in enumerate(run[:upto + 1]):
        if r.get("ev") in ("AcqDone",) and r.get("b") == b and r.get("res") == "atappend":
            last = i
    if last is None or last == 0:
        return "no-acquire"
    before = run[last - 1]
    if "mem" in before and before["mem"][b]["open"]:
        same = run[last]["mem"][b]["open"] and run[last]["mem"][b]["next"] == before["mem"][b]["next"] and run[last]["mem"][b]["buf"] == before["mem"][b]["buf"]
        return "acquired-lease-keeps-cached-log" if same else "acquired-lease-reopened-log"
    return "acquired-lease-no-cached-log"


def conformance(ctx, rows, designs=("pinned", "repaired"), tag="", save=True):
    """Layer C under both designs of the model (FixReopen FALSE = pinned tree, TRUE = with the proposed repair): the tree must conform to one."""
    def one(design):
        reached, total, _ = layers.conform(ctx, DIR, "Trace_Handover.tla", "Trace_Handover_%s.cfg" % design, rows, name="conf-%s%s" % (design, tag), timeout=1800)
        return design, reached, total
    with ThreadPoolExecutor(max_workers=2) as ex:
        res = list(ex.map(one, designs))
    out = {"lines": len(rows), "by_design": {d: {"reached": r, "of": t} for d, r, t in res}, "accepted_design": None, "first_rejection": None}
    for d, r, t in res:
        if r == t:
            out["accepted_design"] = d
            break
    if out["accepted_design"] is None:
        d, r, t = max(res, key=lambda x: x[1])
        nxt = rows[r] if r < len(rows) else None
        out["first_rejection"] = {"design": d, "consumed": r, "of": t, "next_line": nxt}
        start = max(j for j in range(min(r, len(rows) - 1) + 1) if rows[j]["ev"] == "Reset")
        if save:
            save_replay(ctx.prop, "drift-trace.json", {"rejected_line": nxt, "trace_so_far": rows[start:r + 1]})
    return out


def nontrivial(s):
    acts = [(x["a"], x.get("b")) for x in s["steps"]]
    producers = {b for a, b in acts if a == "Append"}
    return len(producers) == 2 and any(a in ("Expire", "ReleaseAll", "FetchOpen") for a, _ in acts)


def pipeline(ctx):
    d = T.stage(ctx, DIR, "mc")
    cfgs = ["MC_Handover_quick.cfg"] if ctx.quick() else ["MC_Handover_quick.cfg", "MC_Handover_thorough.cfg"]
    mcs = {}

    def mc(cfg):
        return cfg, T.model_check(ctx, d, SPEC, cfg, workers=6, timeout=3000, coverage=(not ctx.quick() and cfg.endswith("quick.cfg")))
    with ThreadPoolExecutor(max_workers=2) as ex:
        for cfg, r in ex.map(mc, cfgs):
            mcs[cfg] = r
            ctx.log("model %s: %d distinct states, %d transitions, depth %d" % (cfg, r.distinct, r.generated, r.depth))
    scheds = gen_schedules(ctx, d)
    ctx.log("%d schedules (%d deviation, %d diagnostic counterexamples)" % (len(scheds), len(DEVS), len(DIAGS)))
    rows, hits, skipped = harness(ctx, scheds, "main")
    runs = split(rows)
    if len(runs) != len(scheds):
        raise Broken("harness recorded %d runs for %d schedules" % (len(runs), len(scheds)))
    missing = ["gate:" + g for g in GATES if not hits.get(g)]
    if missing:
        raise Broken("hook presence check failed, never hit: %s (hooks missing?)" % missing)
    viol = observe(ctx, rows)
    starts = [i for i, r in enumerate(rows) if r["ev"] == "Reset"]
    found, first, diag, diag_runs = [], set(), {}, {}
    for line, inv in sorted(viol):
        idx = bisect.bisect_right(starts, line - 1) - 1
        if (idx, inv) in first:
            continue
        first.add((idx, inv))
        ev = rows[line - 1]
        if inv.startswith("D"):
            diag[inv] = diag.get(inv, 0) + 1
            diag_runs.setdefault(idx, set()).add(inv)
            continue
        pos = line - 1 - starts[idx]
        found.append({"inv": inv, "ev": ev["ev"], "sched": idx, "label": scheds[idx]["label"], "line": ev,
                      "situation": situation(runs[idx], pos, ev.get("b", "b1"))})
    # the inherent-window schedules must manifest on the real brokers as the diagnostic they were generated for
    for i, s in enumerate(scheds):
        if s["label"].startswith("diag:"):
            want = DIAGS[s["label"][5:]]
            if want not in diag_runs.get(i, set()) and not any(f["sched"] == i for f in found):
                raise Broken("the model's inherent-window behaviour %s did not reproduce on the real brokers (%s stayed true): binding broken" % (s["label"], want))
    return {"mcs": mcs, "scheds": scheds, "rows": rows, "runs": runs, "found": found, "hits": hits, "skipped": skipped, "diag": diag}


def self_test(ctx, runs, obs_viol_runs):
    """Corrupt recorded fields; layer O must flag, layer C must reject."""
    # a run without any lease event is certainly free of stale effects: the guarded predicates must bite there
    clean = [r for i, r in enumerate(runs) if i not in obs_viol_runs and any(x["ev"] == "Publish" and x.get("code") == 0 for x in r)
             and not any(x["ev"] in ("Expire", "ReleaseAll", "FetchOpen") for x in r)]
    if not clean:
        if obs_viol_runs:  # a tree on which even the plain run violates a predicate: the verdict stands, the self-test has nothing to corrupt
            return {"skipped": "no violation-free run to corrupt"}
        raise Broken("binding self-test: no violation-free run with an acknowledged produce")
    run = clean[0]
    bad = copy.deepcopy(run)
    bad[-1]["fresh"]["batches"] = []  # pretend a fresh broker reads nothing
    if not any(v[1] == "G01_Durable" for v in observe(ctx, bad, "selfO1")):
        raise Broken("binding self-test: observation layer did not flag an acknowledged batch a fresh broker cannot read")
    bad = copy.deepcopy(run)
    tgt = [x for x in bad if x["ev"] == "Publish" and x.get("code") == 0][-1]
    i = bad.index(tgt)
    before = bad[i - 1]["store"]
    for x in bad[i:]:
        if before > 0:
            x["store"] = before - 1  # pretend this publish lowered the store's end offset
    flagged = True
    if before > 0:
        flagged = any(v[1] == "G04_NoRegress" for v in observe(ctx, bad, "selfO2"))
        if not flagged:
            raise Broken("binding self-test: observation layer did not flag a lowered end offset")
    bad = copy.deepcopy(run)
    tgt = [x for x in bad if x["ev"] == "Publish" and x.get("code") == 0][-1]
    tgt["mem"][tgt["b"]]["next"] += 1
    c = conformance(ctx, bad, tag="-self", save=False)
    if c["accepted_design"] is not None:
        raise Broken("binding self-test: conformance layer accepted a corrupted nextOffset in a Publish line")
    return {"observation_layer_flags_unreadable_acked_batch": True, "observation_layer_flags_lowered_end_offset": flagged,
            "conformance_layer_rejects_corrupted_state": True}


def check(ctx, prop):
    res = pipeline(ctx)
    scheds, runs, rows = res["scheds"], res["runs"], res["rows"]
    violations = []
    for f in res["found"]:
        if not f["inv"].startswith(prop + "_"):
            continue
        sig = "%s@%s:%s" % (f["inv"], f["ev"], f["situation"])
        i = f["sched"]
        path = save_replay(prop, "sched-%s.json" % re.sub(r"\W", "_", sig), {"schedule": scheds[i], "trace": runs[i], "line": f["line"]})
        violations.append(Violation(prop, sig, "%s false on the two real brokers at a %s step of %s, no stale effect before it [schedule %s; schedule+trace in %s]"
                                    % (f["inv"], f["ev"], f["line"].get("b"), scheds[i]["label"], path), {"schedule": scheds[i]}))
    others = sorted({f["inv"] for f in res["found"] if not f["inv"].startswith(prop + "_")})
    if others:
        ctx.log("note: predicates of the module's other properties were false in this run (reported by their own checks): %s" % others)
    bad_runs = {f["sched"] for f in res["found"]}
    st = self_test(ctx, runs, bad_runs)
    conf = conformance(ctx, rows)
    drift = conf["accepted_design"] is None
    level = "model_checking"
    if drift:
        ctx.log("DRIFT: conformance layer stopped at " + json.dumps(conf["first_rejection"])[:800])
        if not violations:
            level = "exploration"
    else:
        ctx.log("conformance: every line accepted under the %s design of the model" % conf["accepted_design"])
    mcs = res["mcs"]
    cov = {
        "states": sum(r.distinct for r in mcs.values()), "transitions": sum(r.generated for r in mcs.values()),
        "model_configs": {c: {"distinct": r.distinct, "generated": r.generated, "depth": r.depth} for c, r in mcs.items()},
        "exhaustive": True, "traces_validated_against_impl": len(runs), "trace_events": len(rows),
        "evaluations": len(scheds), "distinct_nontrivial": len({json.dumps(s["steps"], sort_keys=True) for s in scheds if nontrivial(s)}),
        "rule": "schedules = TLC counterexamples of the named wrong designs + TLC counterexamples of the unguarded diagnostics (inherent window) + seeded TLC -simulate "
                "behaviours of the repaired and of the pinned design; non-trivial = both brokers append and there is an expiry, a ReleaseAll or a fetch-open; distinct by step sequence",
        "deviation_schedules": sorted(DEVS), "diagnostic_schedules": sorted(DIAGS), "gate_hits": res["hits"], "steps_not_imposed": res["skipped"],
        "diagnostics_false_in_runs": res["diag"],
        "diagnostics_note": "Dnn_* = the listed properties' statements WITHOUT the stale-effect guard; false = the inherent lease-expiry / release-before-drain window manifested on the real brokers; not a verdict",
        "binding_self_test": st, "conformance": ("drift" if drift else "accepted"), "conformance_detail": {k: v for k, v in conf.items() if k != "first_rejection" or v},
        "samples": [scheds[0]["steps"], scheds[-1]["steps"][:25], [{k: v for k, v in r.items() if k not in ("fresh", "mem")} for r in runs[0][:6]]],
    }
    if not ctx.quick():
        cov["action_coverage"] = {k: list(v) for k, v in mcs["MC_Handover_quick.cfg"].action_coverage().items()}
    return verdict(ctx, violations, level, cov,
                   ["one partition, two brokers, one request in flight per broker; the bucket is an in-process fake recording every put; etcd is the embedded server",
                    "leases end only by the schedule's Revoke (keepalive wrapper); the expiry-unnoticed window is the parked monitorSession goroutine",
                    "replay is steering: lines are named after what the code did; steps that cannot be imposed are skipped and counted",
                    "index objects are compared by presence, not content (one index entry per segment at the configured interval)"])


def replay(ctx, prop, path):
    obj = json.load(open(path))
    sched = obj.get("schedule") or obj.get("detail", {}).get("schedule")
    rows, _, _ = harness(ctx, [sched], "replay")
    viol = observe(ctx, rows)
    for r in rows:
        print(json.dumps({k: v for k, v in r.items() if k != "fresh"}, sort_keys=True))
    mine = [(l, i) for l, i in viol if i.startswith(prop + "_")]
    for line, inv in mine[:5]:
        print("VIOLATION property=%s replay=%s" % (prop, path))
        print("  %s false at line %d" % (inv, line))
    return 1 if mine else 0
