---- MODULE HandoverProps ----
(* G01..G04 stated once over parameters: Handover.tla instantiates them with model state,        *)
(* Obs_Handover.tla with values observed on two real brokers (shared fake bucket, etcd, replies).*)
(*                                                                                               *)
(* Reading (NOTES.md): a lease without fencing tokens admits that a request which passed its     *)
(* lease check keeps writing after the lease is gone ("stale effect": a segment/index put, a     *)
(* store update or an acknowledgement performed while etcd no longer shows the lease instance    *)
(* the request checked).  `tainted` is TRUE once any stale effect has happened in the run.  The   *)
(* verdict predicates Gnn_* demand the listed properties' guarantees (C01/C06, C02, C19, C05) of  *)
(* every run prefix WITHOUT a stale effect; the unguarded statements Dnn_* are diagnostics: they  *)
(* are counted and reported (how the inherent window manifests), never a verdict.                 *)
EXTENDS Integers, Sequences, FiniteSets
CONSTANTS acked,        \* set of acknowledged produces [id, br, base, cnt, held, unnoticed, other] (reply code 0, either broker)
                        \*   held      = etcd showed br as the lease owner at the request's lease check (local map lookup or acquire txn)
                        \*   unnoticed = at the lease check br's etcd session had ended but its lease manager had not been told yet
                        \*   other     = at the acknowledgement etcd showed the OTHER broker as the owner
          tainted,      \* a stale effect has happened (see above)
          freshFail,    \* a fresh broker cannot open the partition from S3 + store now
          fresh,        \* set of [id, base]: batches a fresh broker reads at their base offset now
          overwritten,  \* ids of acknowledged batches that a later segment upload with the same base offset removed from the bucket
          storeReg      \* TRUE once an update lowered the end offset in the metadata store

Last(a) == a.base + a.cnt - 1
\* C01 / C06 across the handover
D01_Durable == \A a \in acked : ~freshFail /\ [id |-> a.id, base |-> a.base] \in fresh
G01_Durable == ~tainted => D01_Durable
\* C02 across the handover
D02_Unique == \A a, b \in acked : a.id # b.id => (Last(a) < b.base \/ Last(b) < a.base)
G02_Unique == ~tainted => D02_Unique
D02_NoOverwrite == overwritten = {}
G02_NoOverwrite == ~tainted => D02_NoOverwrite
\* C19: success only under a lease check that etcd backed (or whose loss the broker could not know yet)
G03_AckOnlyIfHeld == \A a \in acked : a.held \/ a.unnoticed
D03_HeldAtCheck == \A a \in acked : a.held
D03_NotAfterTakeover == \A a \in acked : ~a.other
\* C05 across the handover
D04_NoRegress == ~storeReg
G04_NoRegress == ~tainted => ~storeReg
====
