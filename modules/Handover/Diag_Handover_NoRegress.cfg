CONSTANTS
 Brokers = {"b1","b2"}
 MaxReq = 2
 Shapes = {1,2}
 MaxExpire = 1
 MaxRelease = 0
 MaxFaults = 0
 MaxFetchOpen = 0
 FixReopen = TRUE
 DevNoLeaseCheck = FALSE
 DevMonitorKeepsOwned = FALSE
INIT Init
NEXT Next
CHECK_DEADLOCK FALSE
VIEW View
INVARIANTS D04_NoRegress
