CONSTANTS
 Brokers = {"b1","b2"}
 MaxReq = 5
 Shapes = {1,2}
 MaxExpire = 2
 MaxRelease = 1
 MaxFaults = 2
 MaxFetchOpen = 1
 FixReopen = TRUE
 DevNoLeaseCheck = FALSE
 DevMonitorKeepsOwned = FALSE
INIT Init
NEXT Next
CHECK_DEADLOCK FALSE
INVARIANTS EmitSched G01_Durable G02_Unique G02_NoOverwrite G03_AckOnlyIfHeld G04_NoRegress OwnedBacked KeyHasSession
