CONSTANTS
 Keys = {"k1","k2","k3","k4"}
 Sizes = {1,2,3,5,8,9,12}
 Capacity = 8
 MaxOps = 14
 FixCopyOnSet = TRUE
 DevNoEvict = FALSE
 DevEvictFront = FALSE
 DevUndercount = FALSE
INIT Init
NEXT Next
INVARIANTS EmitSched C09_WithinCapacity C09_GetCurrent C09_HandedStable
