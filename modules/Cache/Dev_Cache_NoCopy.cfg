CONSTANTS
 Keys = {"k1","k2","k3"}
 Sizes = {1,2,3,5}
 Capacity = 4
 MaxOps = 6
 FixCopyOnSet = FALSE
 DevNoEvict = FALSE
 DevEvictFront = FALSE
 DevUndercount = FALSE
INIT Init
NEXT Next
INVARIANTS C09_WithinCapacity C09_GetCurrent C09_HandedStable
VIEW View
CHECK_DEADLOCK FALSE
