"""Cache.tla — C09 (pkg/cache/segment_cache.go)."""
import copy, json, os, re
from lib import tlc as T, layers, gorun
from lib.common import Broken, Violation, verdict, save_replay

PROPS = {
    "C09": {
        "text": "Cache.tla models SegmentCache (LRU order, byte accounting, backing-array aliasing of handed-out slices); TLC checks the three C09 clauses exhaustively for small key/size/capacity sets, then TLC-generated operation sequences (simulation + counterexamples of named wrong designs) are replayed on the real SegmentCache and the recorded traces are validated by TLC: the C09 predicates on observed values (layer O) and step-by-step conformance with the model (layer C).",
        "note": "Trusted: TLC, the in-package projection of c.ll/c.size/entry lengths, one-byte version markers as the identity of stored bytes. Sequential histories only (every method is one critical section under c.mu); concurrent readers are covered by the handed-slice stability clause, data races themselves are C41 (not applicable).",
        "technique": "TLA+ model (Cache.tla) + TLC exhaustive check + replay of TLC behaviours into SegmentCache + TLC trace validation (observation and conformance layers)",
    }
}
DEVIATIONS = {  # cfg suffix -> invariant TLC must report
    "NoCopy": "C09_HandedStable", "NoEvict": "C09_WithinCapacity", "Undercount": "C09_WithinCapacity",
}
TRACE_CFG = """CONSTANTS
 Keys = {"k1","k2","k3","k4"}
 Sizes = {1,2,3,5,8,9,12}
 Capacity = %d
 MaxOps = 1000000
 FixCopyOnSet = TRUE
 DevNoEvict = FALSE
 DevEvictFront = FALSE
 DevUndercount = FALSE
INIT TInit
NEXT TNext
POSTCONDITION Reached
CHECK_DEADLOCK FALSE
"""


def harness(ctx, scheds, tag):
    sp = os.path.join(ctx.scratch, "sched-%s.ndjson" % tag)
    tp = os.path.join(ctx.scratch, "trace-%s.ndjson" % tag)
    gorun.write_ndjson(sp, scheds)
    rc, out = gorun.go_test(ctx, ".", "./pkg/cache/", {"pkg/cache/zz_verif_cache_test.go": os.path.join(DIR, "harness", "cache_verif_test.go")},
                            "^TestVerifCacheReplay$", env={"VERIF_SCHEDULES": sp, "VERIF_TRACE_OUT": tp})
    if rc != 0 or "replayed %d schedules" % len(scheds) not in out:
        raise Broken("cache harness failed:\n" + out[-3000:])
    return gorun.read_ndjson(tp)


def split(rows):
    runs, cur = [], None
    for r in rows:
        if r["ev"] == "Reset":
            cur = []
            runs.append(cur)
        cur.append(r)
    return runs


def check(ctx, prop):
    quick = ctx.quick()
    d = T.stage(ctx, DIR, "mc")
    mc = T.model_check(ctx, d, "MC_Cache.tla", "MC_Cache_%s.cfg" % ctx.tier, coverage=not quick, timeout=1500)
    ctx.log("model: %d distinct states, depth %d" % (mc.distinct, mc.depth))
    scheds, labels = [], []
    for dev, inv in sorted(DEVIATIONS.items()):
        h, r = T.counterexample_hist(ctx, d, "MC_Cache.tla", "Dev_Cache_%s.cfg" % dev, timeout=300)
        if h is None or inv not in r.violated:
            raise Broken("deviation %s no longer violates %s in the model (vacuous deviation)" % (dev, inv))
        scheds.append({"cap": 4, "steps": h}); labels.append("dev:" + dev)
    n = 150 if quick else 3000
    hs, _ = T.simulate_hists(ctx, d, "MC_Cache.tla", "Sim_Cache.cfg", num=n, depth=14, seed=ctx.seed)
    for h in hs:
        scheds.append({"cap": 8, "steps": h}); labels.append("sim")
    ctx.log("%d schedules (%d deviation counterexamples, %d simulated)" % (len(scheds), len(DEVIATIONS), len(hs)))
    rows = harness(ctx, scheds, "main")
    runs = split(rows)
    if len(runs) != len(scheds):
        raise Broken("harness recorded %d runs for %d schedules" % (len(runs), len(scheds)))
    consumed, viol, _ = layers.observe(ctx, DIR, "Obs_Cache.tla", "Obs_Cache.cfg", rows)
    violations, first = [], set()
    for line, inv in sorted(viol):
        ev = rows[line - 1]
        idx = sum(1 for r in rows[:line] if r["ev"] == "Reset") - 1  # which schedule
        if (idx, inv) in first:
            continue  # only the first line of a schedule at which a clause becomes false
        first.add((idx, inv))
        sig = "%s@%s" % (inv, ev["ev"])
        path = save_replay(prop, "sched-%s.json" % re.sub(r"\W", "_", sig), {"schedule": scheds[idx], "label": labels[idx], "trace": runs[idx], "line": ev})
        violations.append(Violation(prop, sig, "%s false on the real cache after %s(%s) [schedule %s, replay %s]" % (inv, ev["ev"], ev.get("k"), labels[idx], path), {"schedule": scheds[idx], "event": ev}))
    # layer C per capacity
    conf = {"accepted": 0, "rejected": 0, "first_rejection": None}
    for cap in sorted({s["cap"] for s in scheds}):
        sub = [r for i, run in enumerate(runs) if scheds[i]["cap"] == cap for r in run]
        reached, total, _ = layers.conform(ctx, DIR, "Trace_Cache.tla", "Trace_Cache.cfg", sub, name="conf%d" % cap, cfg_text=TRACE_CFG % cap)
        if reached == total:
            conf["accepted"] += sum(1 for s in scheds if s["cap"] == cap)
        else:
            conf["rejected"] += 1
            conf["first_rejection"] = conf["first_rejection"] or {"cap": cap, "line": sub[reached] if reached < len(sub) else None}
    # binding self-test: corrupt one observed field / one state field; both layers must notice
    st = self_test(ctx, runs[len(DEVIATIONS)] if len(runs) > len(DEVIATIONS) else runs[0])
    level = "model_checking"
    drift = conf["rejected"] > 0
    if drift and not violations:
        level = "exploration"
        ctx.log("DRIFT: conformance layer rejected a trace although C09 held: " + json.dumps(conf["first_rejection"]))
    nontrivial = sum(1 for s in scheds if len({x["k"] for x in s["steps"]}) >= 2 and any(x["a"] == "Get" for x in s["steps"]) and sum(x.get("s", 0) for x in s["steps"]) > s["cap"])
    cov = {
        "states": mc.distinct, "transitions": mc.generated, "depth": mc.depth, "exhaustive": True,
        "model_config": "MC_Cache_%s.cfg" % ctx.tier,
        "traces_validated_against_impl": len(runs), "trace_events": len(rows),
        "evaluations": len(scheds), "distinct_nontrivial": nontrivial,
        "rule": "schedules = TLC counterexamples of the named deviations + TLC -simulate behaviours (seeded); non-trivial = touches >=2 keys, has a Get, and stores more bytes than the capacity (forces eviction)",
        "deviation_schedules": sorted(DEVIATIONS), "conformance": ("drift" if drift else "accepted"), "conformance_detail": conf,
        "binding_self_test": st,
        "samples": [scheds[0], scheds[min(len(scheds) - 1, len(DEVIATIONS) + 1)], runs[0][:4]],
    }
    if not quick:
        cov["action_coverage"] = {k: v[1] for k, v in mc.action_coverage().items()}
    return verdict(ctx, violations, level, cov, ["every SegmentCache method is a single critical section under c.mu, so sequential histories cover all interleavings of complete calls", "byte identity is tracked with a one-byte marker per stored value (<=250 stores per schedule)"])


def self_test(ctx, run):
    """Corrupt recorded fields: layer O must flag a capacity overflow, layer C must reject a reordered LRU."""
    bad = copy.deepcopy(run)
    tgt = [r for r in bad if r["ev"] != "Reset"][-1]
    tgt["st"]["held"] = bad[0]["cap"] + 1
    _, viol, _ = layers.observe(ctx, DIR, "Obs_Cache.tla", "Obs_Cache.cfg", bad, name="selfO")
    if not any(v[1] == "C09_WithinCapacity" for v in viol):
        raise Broken("binding self-test: observation layer did not flag a corrupted 'held' field")
    bad = copy.deepcopy(run)
    tgt = [r for r in bad if r["ev"] != "Reset"][-1]
    tgt["st"]["size"] += 1
    reached, total, _ = layers.conform(ctx, DIR, "Trace_Cache.tla", "Trace_Cache.cfg", bad, name="selfC", cfg_text=TRACE_CFG % bad[0]["cap"])
    if reached == total:
        raise Broken("binding self-test: conformance layer accepted a corrupted 'size' field")
    return {"observation_layer_flags_corrupted_field": True, "conformance_layer_rejects_corrupted_state": True}


def replay(ctx, prop, path):
    obj = json.load(open(path))
    sched = obj.get("schedule") or obj.get("detail", {}).get("schedule")
    rows = harness(ctx, [sched], "replay")
    _, viol, _ = layers.observe(ctx, DIR, "Obs_Cache.tla", "Obs_Cache.cfg", rows)
    for r in rows:
        print(json.dumps(r, sort_keys=True))
    for line, inv in viol:
        print("VIOLATION property=%s replay=%s" % (prop, path))
        print("  %s false at line %d" % (inv, line))
    return 1 if viol else 0
