---- MODULE Trace_Cache ----
(* Conformance layer: every recorded step of the real SegmentCache must be a step of Cache.tla *)
(* (same action, same arguments) and the logged projection of the lock-protected state must    *)
(* equal the model's post-state.                                                               *)
EXTENDS Cache
TraceLog == ndJsonDeserialize("trace.ndjson")
VARIABLE l
tvars == <<vars, l>>
E == TraceLog[l]
Cur(ev) == l <= Len(TraceLog) /\ E.ev = ev /\ l' = l + 1
\* logged st.lru = [[key, ver, len], ...] front first
StMatch(st) == /\ size' = st.size
               /\ Len(lru') = Len(st.lru)
               /\ \A i \in 1..Len(lru') : lru'[i].k = st.lru[i][1] /\ lru'[i].ver = st.lru[i][2] /\ lru'[i].size = st.lru[i][3]
TInit == Init /\ l = 1 /\ TLCSet(7, 0)
TReset == /\ Cur("Reset") /\ E.cap = Capacity
          /\ lru' = <<>> /\ size' = 0 /\ content' = <<>> /\ nbuf' = 0 /\ nver' = 0 /\ handed' = {}
          /\ lastSet' = [k \in Keys |-> 0] /\ last' = [op |-> "init"] /\ hist' = <<>>
TSet == Cur("Set") /\ Set(E.k, E.s) /\ nver' = E.ver /\ StMatch(E.st)
TGet == Cur("Get") /\ Get(E.k) /\ last'.hit = E.hit /\ (E.hit => last'.ver = E.ver) /\ StMatch(E.st)
Consumed == TLCSet(7, IF TLCGet(7) < l THEN l ELSE TLCGet(7))   \* high-water mark of consumed lines
TNext == (TReset \/ TSet \/ TGet) /\ Consumed
TSpec == TInit /\ [][TNext]_tvars
Reached == PrintT(<<"CONF", ToJson([reached |-> TLCGet(7), total |-> Len(TraceLog)])>>)
====
