---- MODULE Obs_Cache ----
(* Observation layer: no model actions.  State is accumulated from the lines recorded on the   *)
(* real SegmentCache; the C09 predicates are the CacheProps definitions, instantiated with     *)
(* observed values.  Violations are accumulated and printed once (no -continue).               *)
EXTENDS Integers, Sequences, FiniteSets, TLC, Json
TraceLog == ndJsonDeserialize("trace.ndjson")
AllKeys == {"k1", "k2", "k3", "k4"}
VARIABLES l, capacity, lastSet, viol
ovars == <<l, capacity, lastSet, viol>>
P(e, cap, ls) == INSTANCE CacheProps WITH
      held <- e.st.held, capacity <- cap, lastSet <- ls, handedOk <- e.handedOk,
      last <- IF e.ev = "Get" THEN [op |-> "get", k |-> e.k, hit |-> e.hit, ver |-> IF e.intact THEN e.ver ELSE -1]
              ELSE [op |-> "set", k |-> e.k, hit |-> FALSE, ver |-> 0]
Zero == [k \in AllKeys |-> 0]
OInit == l = 0 /\ capacity = 0 /\ lastSet = Zero /\ viol = {}
Step ==
  /\ l < Len(TraceLog) /\ l' = l + 1
  /\ LET e == TraceLog[l + 1] IN
     /\ capacity' = IF e.ev = "Reset" THEN e.cap ELSE capacity
     /\ lastSet' = IF e.ev = "Reset" THEN Zero ELSE IF e.ev = "Set" THEN [lastSet EXCEPT ![e.k] = e.ver] ELSE lastSet
     /\ viol' = IF e.ev = "Reset" THEN viol ELSE viol \cup
          {<<l + 1, n>> : n \in
             (IF P(e, capacity', lastSet')!C09_WithinCapacity THEN {} ELSE {"C09_WithinCapacity"}) \cup
             (IF P(e, capacity', lastSet')!C09_GetCurrent THEN {} ELSE {"C09_GetCurrent"}) \cup
             (IF P(e, capacity', lastSet')!C09_HandedStable THEN {} ELSE {"C09_HandedStable"})}
     /\ (l' = Len(TraceLog)) => PrintT(<<"OBS", ToJson([consumed |-> l', viol |-> viol'])>>)
OSpec == OInit /\ [][Step]_ovars
====
