CONSTANTS
 Keys = {"k1","k2"}
 Sizes = {1,2,5}
 Capacity = 4
 MaxOps = 6
 FixCopyOnSet = TRUE
 DevNoEvict = FALSE
 DevEvictFront = FALSE
 DevUndercount = FALSE
INIT Init
NEXT Next
INVARIANTS C09_WithinCapacity C09_GetCurrent C09_HandedStable Accounting UniqueKeys
VIEW View
CHECK_DEADLOCK FALSE
