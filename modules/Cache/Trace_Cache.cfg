CONSTANTS
 Keys = {"k1","k2","k3","k4"}
 Sizes = {1,2,3,5,8,9,12}
 Capacity = 8
 MaxOps = 1000000
 FixCopyOnSet = TRUE
 DevNoEvict = FALSE
 DevEvictFront = FALSE
 DevUndercount = FALSE
INIT TInit
NEXT TNext
POSTCONDITION Reached
CHECK_DEADLOCK FALSE
