package cache

// Verification harness (injected with `go test -overlay`; not part of the repository).
// Replays TLC-generated operation sequences on the real SegmentCache and records one
// ndjson line per operation with the projected lock-protected state.

import (
	"bufio"
	"encoding/json"
	"os"
	"testing"
)

type vcStep struct {
	A string `json:"a"`
	K string `json:"k"`
	S int    `json:"s"`
}

type vcSched struct {
	Cap   int      `json:"cap"`
	Steps []vcStep `json:"steps"`
}

type vcKey struct {
	topic string
	part  int32
	base  int64
}

var vcKeys = map[string]vcKey{
	"k1": {"ns/t", 0, 0},
	"k2": {"ns/t", 0, 7},
	"k3": {"ns/t", 1, 0},
	"k4": {"ns/t:1", 0, 0},
}

type vcHanded struct {
	live []byte
	copy []byte
}

func vcProject(c *SegmentCache, rev map[string]string) map[string]any {
	c.mu.Lock()
	defer c.mu.Unlock()
	lru := [][]any{}
	held := 0
	for e := c.ll.Front(); e != nil; e = e.Next() {
		ent := e.Value.(*cacheEntry)
		ver := 0
		if len(ent.data) > 0 {
			ver = int(ent.data[0])
		}
		lru = append(lru, []any{rev[ent.key], ver, len(ent.data)})
		held += len(ent.data)
	}
	return map[string]any{"size": c.size, "held": held, "lru": lru, "items": len(c.items)}
}

func TestVerifCacheReplay(t *testing.T) {
	in, outPath := os.Getenv("VERIF_SCHEDULES"), os.Getenv("VERIF_TRACE_OUT")
	if in == "" || outPath == "" {
		t.Skip("no schedules")
	}
	f, err := os.Open(in)
	if err != nil {
		t.Fatal(err)
	}
	defer f.Close()
	out, err := os.Create(outPath)
	if err != nil {
		t.Fatal(err)
	}
	defer out.Close()
	w := bufio.NewWriter(out)
	defer w.Flush()
	emit := func(m map[string]any) {
		b, _ := json.Marshal(m)
		w.Write(b)
		w.WriteByte('\n')
	}
	rev := map[string]string{}
	for k, v := range vcKeys {
		rev[makeKey(v.topic, v.part, v.base)] = k
	}
	sc := bufio.NewScanner(f)
	sc.Buffer(make([]byte, 1<<20), 1<<26)
	n := 0
	for sc.Scan() {
		var s vcSched
		if err := json.Unmarshal(sc.Bytes(), &s); err != nil {
			t.Fatal(err)
		}
		c := NewSegmentCache(s.Cap)
		emit(map[string]any{"ev": "Reset", "cap": s.Cap, "sched": n})
		ver := 0
		sizeOf := map[int]int{}
		var handed []vcHanded
		handedOk := func() bool {
			for _, h := range handed {
				if string(h.live) != string(h.copy) {
					return false
				}
			}
			return true
		}
		for _, st := range s.Steps {
			key := vcKeys[st.K]
			switch st.A {
			case "Set":
				ver++
				if ver > 250 {
					t.Fatal("schedule too long for one-byte version ids")
				}
				data := make([]byte, st.S)
				for i := range data {
					data[i] = byte(ver)
				}
				sizeOf[ver] = st.S
				c.SetSegment(key.topic, key.part, key.base, data)
				// the caller may reuse its buffer afterwards: the cache must have copied
				for i := range data {
					data[i] = 0xEE
				}
				emit(map[string]any{"ev": "Set", "k": st.K, "s": st.S, "ver": ver, "st": vcProject(c, rev), "handedOk": handedOk()})
			case "Get":
				data, hit := c.GetSegment(key.topic, key.part, key.base)
				v, intact := 0, true
				if hit {
					if len(data) > 0 {
						v = int(data[0])
					}
					if len(data) != sizeOf[v] {
						intact = false
					}
					for _, b := range data {
						if int(b) != v {
							intact = false
						}
					}
					handed = append(handed, vcHanded{live: data, copy: append([]byte(nil), data...)})
				}
				emit(map[string]any{"ev": "Get", "k": st.K, "hit": hit, "ver": v, "intact": intact, "st": vcProject(c, rev), "handedOk": handedOk()})
			}
		}
		n++
	}
	t.Logf("replayed %d schedules", n)
}
