---- MODULE CacheProps ----
(* C09 stated once, over parameters.  Cache.tla instantiates it with model state, *)
(* Obs_Cache.tla with values observed on the real SegmentCache.                   *)
EXTENDS Integers
CONSTANTS held,      \* bytes actually held by the cache (sum of entry lengths)
          capacity,  \* configured capacity
          last,      \* last operation: [op, k, hit, ver]  (ver = id of the bytes returned)
          lastSet,   \* function key -> id of the bytes most recently stored under that key (0 = never)
          handedOk   \* TRUE iff every slice ever handed to a reader still holds the bytes it held then

C09_WithinCapacity == held <= capacity
C09_GetCurrent == (last.op = "get" /\ last.hit) => (lastSet[last.k] # 0 /\ last.ver = lastSet[last.k])
C09_HandedStable == handedOk
====
