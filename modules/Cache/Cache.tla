---- MODULE Cache ----
(* pkg/cache/segment_cache.go: LRU of byte slices with byte accounting.                         *)
(* One action per public method (each is one critical section under c.mu).                      *)
(* Backing arrays are modelled explicitly (buf ids) because GetSegment returns the entry's own  *)
(* slice: what a reader holds is an alias of a backing array, not a value.                      *)
EXTENDS Integers, Sequences, FiniteSets, TLC, Json
CONSTANTS Keys, Sizes, Capacity, MaxOps,
          FixCopyOnSet,   \* TRUE: update allocates a fresh array (repaired tree); FALSE: append(entry.data[:0], ...) in place
          DevNoEvict,     \* deviation: update branch forgets evictIfNeeded
          DevEvictFront,  \* deviation: evicts the most recently used entry
          DevUndercount   \* deviation: update branch does not add the new length
VARIABLES lru, size, content, nbuf, nver, handed, lastSet, last, hist
vars == <<lru, size, content, nbuf, nver, handed, lastSet, last, hist>>

Init == /\ lru = <<>> /\ size = 0 /\ content = <<>> /\ nbuf = 0 /\ nver = 0
        /\ handed = {} /\ lastSet = [k \in Keys |-> 0] /\ last = [op |-> "init"] /\ hist = <<>>

Pos(k) == IF \E i \in 1..Len(lru) : lru[i].k = k THEN CHOOSE i \in 1..Len(lru) : lru[i].k = k ELSE 0
Without(s, i) == [j \in 1..(Len(s)-1) |-> IF j < i THEN s[j] ELSE s[j+1]]
RECURSIVE SumSize(_)
SumSize(s) == IF s = <<>> THEN 0 ELSE Head(s).size + SumSize(Tail(s))
Held == SumSize(lru)

RECURSIVE Evict(_, _)
Evict(s, sz) == IF sz > Capacity /\ Len(s) > 0
                THEN IF DevEvictFront THEN Evict(Tail(s), sz - Head(s).size)
                     ELSE Evict(SubSeq(s, 1, Len(s)-1), sz - s[Len(s)].size)
                ELSE <<s, sz>>

Set(k, s) ==
  /\ Len(hist) < MaxOps
  /\ LET ver == nver + 1
         i == Pos(k)
     IN /\ nver' = ver
        /\ lastSet' = [lastSet EXCEPT ![k] = ver]
        /\ IF i # 0
           THEN LET e == lru[i]
                    inplace == ~FixCopyOnSet /\ s <= e.cap
                    b == IF inplace THEN e.buf ELSE nbuf + 1
                    ne == [k |-> k, ver |-> ver, size |-> s, buf |-> b, cap |-> IF inplace THEN e.cap ELSE s]
                    sz1 == size - e.size + (IF DevUndercount THEN 0 ELSE s)
                    l1 == <<ne>> \o Without(lru, i)
                    r == IF DevNoEvict THEN <<l1, sz1>> ELSE Evict(l1, sz1)
                IN /\ lru' = r[1] /\ size' = r[2]
                   /\ nbuf' = IF inplace THEN nbuf ELSE nbuf + 1
                   /\ content' = IF inplace THEN [content EXCEPT ![b] = ver] ELSE Append(content, ver)
           ELSE LET ne == [k |-> k, ver |-> ver, size |-> s, buf |-> nbuf + 1, cap |-> s]
                    r == Evict(<<ne>> \o lru, size + s)
                IN /\ lru' = r[1] /\ size' = r[2] /\ nbuf' = nbuf + 1 /\ content' = Append(content, ver)
  /\ last' = [op |-> "set", k |-> k, hit |-> FALSE, ver |-> 0]
  /\ hist' = Append(hist, [a |-> "Set", k |-> k, s |-> s])
  /\ UNCHANGED handed

Get(k) ==
  /\ Len(hist) < MaxOps
  /\ LET i == Pos(k) IN
       IF i # 0
       THEN /\ lru' = <<lru[i]>> \o Without(lru, i)
            /\ handed' = handed \cup {[buf |-> lru[i].buf, ver |-> lru[i].ver]}
            /\ last' = [op |-> "get", k |-> k, hit |-> TRUE, ver |-> content[lru[i].buf]]
       ELSE /\ UNCHANGED <<lru, handed>> /\ last' = [op |-> "get", k |-> k, hit |-> FALSE, ver |-> 0]
  /\ hist' = Append(hist, [a |-> "Get", k |-> k])
  /\ UNCHANGED <<size, content, nbuf, nver, lastSet>>

Next == \E k \in Keys : Get(k) \/ \E s \in Sizes : Set(k, s)
Spec == Init /\ [][Next]_vars

HandedOk == \A h \in handed : content[h.buf] = h.ver
P == INSTANCE CacheProps WITH held <- Held, capacity <- Capacity, last <- last, lastSet <- lastSet, handedOk <- HandedOk
C09_WithinCapacity == P!C09_WithinCapacity
C09_GetCurrent == P!C09_GetCurrent
C09_HandedStable == P!C09_HandedStable
\* internal (conformance-level) facts, not part of the property
Accounting == size = Held
UniqueKeys == \A i, j \in 1..Len(lru) : i # j => lru[i].k # lru[j].k

View == <<lru, size, content, handed, lastSet, last, Len(hist)>>
EmitSched == PrintT(<<"SCHED", ToJson(hist)>>)
====
