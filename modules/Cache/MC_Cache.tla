---- MODULE MC_Cache ----
EXTENDS Cache
====
