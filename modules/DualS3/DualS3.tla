---- MODULE DualS3 ----
(* cmd/broker/s3_dual.go: dualS3Client{write: primary, read: replica}.  One action per method of the   *)
(* client (each is a straight-line sequence of at most two backend calls), plus environment actions    *)
(* that change what the replica does for an object: present / absent (not yet replicated, lagging:     *)
(* a not-found error) / failing (generic error) / timeout, canceled (the replica's own deadline- or     *)
(* cancel-class error while the caller's context is alive) / stalled (the replica blocks until the      *)
(* context it was handed is done), and whether the primary bucket answers at all.  Both buckets honour  *)
(* the context they are handed: a call on a context that is already done fails with the context error. *)
(* Every client call is made with a caller deadline; `alive` = the caller's context is still alive when *)
(* the call returns (a read that used up the caller's own deadline owes the caller nothing).           *)
(* Write-once assumption (DESIGN §4 C44): the content of an object is a function of its key, so a     *)
(* replica copy that exists holds exactly the bytes the primary holds or held.                         *)
EXTENDS Integers, Sequences, FiniteSets, TLC, Json
CONSTANTS Keys,                  \* subset of {"k1","k2","k3"}; a key names a segment object and its index object
          ContentLen,            \* every object is ContentLen bytes long
          Ranges,                \* byte ranges <<start,end>> (inclusive, 0-based) offered to DownloadSegment besides "no range" <<>>
          MaxOps,
          RepStates,             \* replica states offered to SetRep (subset of AllRepStates)
          DevNoFallback,         \* deviation: replica error is returned, primary never asked
          DevFallbackDropsRange, \* deviation: the fallback read asks the primary for the whole object
          DevIndexNoFallback,    \* deviation: only DownloadSegment falls back
          DevWriteToReplica,     \* deviation: UploadSegment goes to the read client
          DevListFromReplica,    \* deviation: ListSegments asks the read client
          DevNoFallbackOnCtxErr, \* deviation: a cancel/deadline-class error of the REPLICA ends the read (the caller's ctx is not consulted)
          DevReplicaTimeoutShadows, \* deviation: a replica read timeout derived with ctx := WithTimeout(ctx) shadows the caller's ctx, so the fallback runs on the expired context
          Concurrent,            \* TRUE: two readers may overlap (a second read starts while the first is parked inside its primary GET)
          DevCoalesceIgnoresRange \* deviation: concurrent primary-fallback reads are coalesced per object key, the byte range is not part of the key
VARIABLES prim, primFail, rep, written, rd, last, hist
vars == <<prim, primFail, rep, written, rd, last, hist>>

R_small == {<<0, 1>>, <<2, 9>>, <<7, 9>>}                           \* inside, clamped at the end, entirely past the end
R_big == {<<0, 1>>, <<1, 2>>, <<2, 9>>, <<3, 3>>, <<7, 9>>}
AllRepStates == {"present", "absent", "failing", "timeout", "canceled", "stalled"}
Kinds == {"seg", "idx"}
KeyNum == [k \in {"k1", "k2", "k3"} |-> CASE k = "k1" -> 1 [] k = "k2" -> 2 [] OTHER -> 3]
Content(kind, k) == [i \in 1..ContentLen |-> KeyNum[k] * 32 + (IF kind = "idx" THEN 16 ELSE 0) + i]
Err == [ok |-> FALSE, bytes |-> <<>>]
Slice(c, rng) ==
  IF rng = <<>> THEN [ok |-> TRUE, bytes |-> c]
  ELSE LET s == IF rng[1] < 0 THEN 0 ELSE rng[1]
           e == IF rng[2] >= Len(c) THEN Len(c) - 1 ELSE rng[2]
       IN IF s > e \/ s >= Len(c) THEN Err ELSE [ok |-> TRUE, bytes |-> SubSeq(c, s + 1, e + 1)]

PrimRead(kind, k, rng) == IF primFail \/ ~prim[kind][k] THEN Err ELSE Slice(Content(kind, k), rng)   \* on a live context
PrimReadCtx(kind, k, rng, ctxDone) == IF ctxDone THEN Err ELSE PrimRead(kind, k, rng)
RepRead(kind, k, rng) == IF rep[kind][k] = "present" THEN Slice(Content(kind, k), rng) ELSE Err
PrimList == {k \in Keys : prim["seg"][k]}
RepList == {k \in Keys : rep["seg"][k] = "present"}
SetToSeq(S) == LET RECURSIVE F(_) F(T) == IF T = {} THEN <<>> ELSE LET x == CHOOSE y \in T : \A z \in T : KeyNum[y] <= KeyNum[z] IN <<x>> \o F(T \ {x}) IN F(S)

KindOf(op) == IF op \in {"UploadIndex", "DeleteIndex", "DownloadIndex"} THEN "idx" ELSE "seg"
Call(b, op, k, rng) == [b |-> b, op |-> op, k |-> k, rng |-> rng]
ResA(op, k, rng, ok, bytes, listed, calls, alive) == [op |-> op, k |-> k, rng |-> rng, ok |-> ok, bytes |-> bytes, listed |-> listed, calls |-> calls, alive |-> alive]
Res(op, k, rng, ok, bytes, listed, calls) == ResA(op, k, rng, ok, bytes, listed, calls, TRUE)

\* overlapping reads: a reader is idle, parked inside its primary GET ("gate"), waiting on another reader's coalesced
\* GET ("flight", only under DevCoalesceIgnoresRange) or holding that GET's result ("done")
Readers == {"A", "B"}
Idle == [st |-> "idle", op |-> "", k |-> "", rng |-> <<>>, asked |-> <<>>, lead |-> "", res |-> Err]
Busy == \E r \in Readers : rd[r].st # "idle"

Init == /\ prim = [kd \in Kinds |-> [k \in Keys |-> FALSE]] /\ primFail = FALSE
        /\ rep = [kd \in Kinds |-> [k \in Keys |-> "absent"]]
        /\ written = [kd \in Kinds |-> [k \in Keys |-> FALSE]]
        /\ rd = [r \in Readers |-> Idle]
        /\ last = Res("init", "", <<>>, TRUE, <<>>, <<>>, <<>>) /\ hist = <<>>

Step(h) == Len(hist) < MaxOps /\ hist' = Append(hist, h) /\ ~Busy /\ rd' = rd      \* complete (non-overlapping) operations
CStep(h) == Len(hist) < MaxOps /\ hist' = Append(hist, h)

Upload(op, k) ==
  LET kind == KindOf(op)
      toRep == DevWriteToReplica /\ op = "UploadSegment" IN
  /\ Step([a |-> op, k |-> k, rng |-> <<>>])
  /\ IF toRep
     THEN /\ rep' = [rep EXCEPT ![kind][k] = "present"] /\ UNCHANGED <<prim, written>>
          /\ last' = Res(op, k, <<>>, TRUE, <<>>, <<>>, <<Call("R", op, k, <<>>)>>)
     ELSE /\ prim' = [prim EXCEPT ![kind][k] = IF primFail THEN @ ELSE TRUE]
          /\ written' = [written EXCEPT ![kind][k] = IF primFail THEN @ ELSE TRUE]
          /\ last' = Res(op, k, <<>>, ~primFail, <<>>, <<>>, <<Call("P", op, k, <<>>)>>)
          /\ UNCHANGED rep
  /\ UNCHANGED primFail

Delete(op, k) ==
  LET kind == KindOf(op) IN
  /\ Step([a |-> op, k |-> k, rng |-> <<>>])
  /\ prim' = [prim EXCEPT ![kind][k] = IF primFail THEN @ ELSE FALSE]
  /\ last' = Res(op, k, <<>>, ~primFail, <<>>, <<>>, <<Call("P", op, k, <<>>)>>)
  /\ UNCHANGED <<primFail, rep, written>>

Download(op, k, rng) ==
  LET kind == KindOf(op)
      st == rep[kind][k]
      r1 == RepRead(kind, k, rng)
      ctxClass == st \in {"timeout", "canceled", "stalled"}      \* the replica's error is a cancel/deadline-class error
      nofb == DevNoFallback \/ (DevIndexNoFallback /\ op = "DownloadIndex") \/ (DevNoFallbackOnCtxErr /\ ctxClass)
      rng2 == IF DevFallbackDropsRange THEN <<>> ELSE rng
      \* a stalled replica returns when the context it was handed is done: the caller's own context on this tree,
      \* the derived 2 s context under DevReplicaTimeoutShadows (then the caller is still alive, but the fallback
      \* inherits the expired derived context)
      alive == (st # "stalled") \/ DevReplicaTimeoutShadows
      r2 == PrimReadCtx(kind, k, rng2, st = "stalled") IN
  /\ Step([a |-> op, k |-> k, rng |-> rng])
  /\ IF r1.ok \/ nofb
     THEN last' = ResA(op, k, rng, r1.ok, r1.bytes, <<>>, <<Call("R", op, k, rng)>>, alive)
     ELSE last' = ResA(op, k, rng, r2.ok, r2.bytes, <<>>, <<Call("R", op, k, rng), Call("P", op, k, rng2)>>, alive)
  /\ UNCHANGED <<prim, primFail, rep, written>>

List ==
  /\ Step([a |-> "ListSegments", k |-> "", rng |-> <<>>])
  /\ IF DevListFromReplica
     THEN last' = Res("ListSegments", "", <<>>, TRUE, <<>>, SetToSeq(RepList), <<Call("R", "ListSegments", "", <<>>)>>)
     ELSE last' = Res("ListSegments", "", <<>>, ~primFail, <<>>, IF primFail THEN <<>> ELSE SetToSeq(PrimList), <<Call("P", "ListSegments", "", <<>>)>>)
  /\ UNCHANGED <<prim, primFail, rep, written>>

Ensure ==
  /\ Step([a |-> "EnsureBucket", k |-> "", rng |-> <<>>])
  /\ last' = Res("EnsureBucket", "", <<>>, ~primFail, <<>>, <<>>, <<Call("P", "EnsureBucket", "", <<>>)>>)
  /\ UNCHANGED <<prim, primFail, rep, written>>

\* environment: replication progress / replica trouble for one object; primary outage
SetRep(kind, k, s) ==
  /\ rep[kind][k] # s
  /\ s = "present" => written[kind][k]      \* the replica only ever receives copies of objects written to the primary
  /\ Step([a |-> "SetRep", k |-> k, rng |-> <<>>, kind |-> kind, s |-> s])
  /\ rep' = [rep EXCEPT ![kind][k] = s]
  /\ last' = Res("env", k, <<>>, TRUE, <<>>, <<>>, <<>>)
  /\ UNCHANGED <<prim, primFail, written>>
SetPrimFail(on) ==
  /\ primFail # on
  /\ Step([a |-> "SetPrimFail", k |-> "", rng |-> <<>>, on |-> on])
  /\ primFail' = on
  /\ last' = Res("env", "", <<>>, TRUE, <<>>, <<>>, <<>>)
  /\ UNCHANGED <<prim, rep, written>>

\* ---- two overlapping reads -----------------------------------------------------------------------
\* While a read is in flight only reads start / return (no write or environment change), so "what the primary
\* answers" is the same at start and at return.
ReadStart(r, op, k, rng) ==
  LET kind == KindOf(op)
      st == rep[kind][k]
      r1 == RepRead(kind, k, rng)
      nofb == DevNoFallback \/ (DevIndexNoFallback /\ op = "DownloadIndex") \/ (DevNoFallbackOnCtxErr /\ st \in {"timeout", "canceled"})
      rng2 == IF DevFallbackDropsRange THEN <<>> ELSE rng
      leaders == {q \in Readers \ {r} : rd[q].st = "gate" /\ rd[q].op = op /\ rd[q].k = k} IN
  /\ Concurrent /\ rd[r].st = "idle" /\ st # "stalled"
  /\ CStep([a |-> "ReadStart", r |-> r, op |-> op, k |-> k, rng |-> rng])
  /\ IF r1.ok \/ nofb
     THEN /\ last' = ResA(op, k, rng, r1.ok, r1.bytes, <<>>, <<Call("R", op, k, rng)>>, TRUE) /\ rd' = rd
     ELSE /\ last' = Res("env", k, <<>>, TRUE, <<>>, <<>>, <<>>)
          /\ IF DevCoalesceIgnoresRange /\ leaders # {}
             THEN rd' = [rd EXCEPT ![r] = [st |-> "flight", op |-> op, k |-> k, rng |-> rng, asked |-> rng2, lead |-> CHOOSE q \in leaders : TRUE, res |-> Err]]
             ELSE rd' = [rd EXCEPT ![r] = [st |-> "gate", op |-> op, k |-> k, rng |-> rng, asked |-> rng2, lead |-> "", res |-> Err]]
  /\ UNCHANGED <<prim, primFail, rep, written>>
\* the primary GET of reader r returns: r completes; readers coalesced onto it receive the same result
PrimaryGetReturn(r) ==
  LET x == rd[r]
      r2 == PrimRead(KindOf(x.op), x.k, x.asked) IN
  /\ x.st = "gate"
  /\ CStep([a |-> "Return", r |-> r])
  /\ last' = ResA(x.op, x.k, x.rng, r2.ok, r2.bytes, <<>>, <<Call("R", x.op, x.k, x.rng), Call("P", x.op, x.k, x.asked)>>, TRUE)
  /\ rd' = [q \in Readers |-> IF q = r THEN Idle
                               ELSE IF rd[q].st = "flight" /\ rd[q].lead = r THEN [rd[q] EXCEPT !.st = "done", !.res = r2] ELSE rd[q]]
  /\ UNCHANGED <<prim, primFail, rep, written>>
JoinFinish(r) ==
  LET x == rd[r] IN
  /\ x.st = "done"
  /\ CStep([a |-> "JoinFinish", r |-> r])
  /\ last' = ResA(x.op, x.k, x.rng, x.res.ok, x.res.bytes, <<>>, <<Call("R", x.op, x.k, x.rng)>>, TRUE)
  /\ rd' = [rd EXCEPT ![r] = Idle]
  /\ UNCHANGED <<prim, primFail, rep, written>>

Next == \/ \E k \in Keys : \/ Upload("UploadSegment", k) \/ Upload("UploadIndex", k)
                           \/ Delete("DeleteSegment", k) \/ Delete("DeleteIndex", k)
                           \/ \E rng \in Ranges \cup {<<>>} : Download("DownloadSegment", k, rng)
                           \/ Download("DownloadIndex", k, <<>>)
                           \/ \E kind \in Kinds, s \in RepStates : SetRep(kind, k, s)
        \/ List \/ Ensure
        \/ \E on \in BOOLEAN : SetPrimFail(on)
        \/ \E r \in Readers : \/ \E k \in Keys : \/ \E rng \in Ranges \cup {<<>>} : ReadStart(r, "DownloadSegment", k, rng)
                                               \/ ReadStart(r, "DownloadIndex", k, <<>>)
                              \/ PrimaryGetReturn(r) \/ JoinFinish(r)
Spec == Init /\ [][Next]_vars

\* what the primary answers to the question the last operation asked, evaluated in the state the operation ran in
\* (reads and listings do not change state; for writes the answer is whether the primary accepted them)
Want == IF last.op \in {"DownloadSegment", "DownloadIndex"}
        THEN LET r == PrimRead(KindOf(last.op), last.k, last.rng) IN [ok |-> r.ok, bytes |-> r.bytes, listed |-> <<>>]
        ELSE [ok |-> ~primFail, bytes |-> <<>>, listed |-> IF last.op = "ListSegments" /\ ~primFail THEN SetToSeq(PrimList) ELSE <<>>]
Once == IF last.op \in {"DownloadSegment", "DownloadIndex"} THEN Slice(Content(KindOf(last.op), last.k), last.rng) ELSE Err
P == INSTANCE DualS3Props WITH last <- last, want <- Want, once <- Once
C44_ReadMatchesPrimary == P!C44_ReadMatchesPrimary
C44_PrimaryOnly == P!C44_PrimaryOnly
C44_ReachesPrimary == P!C44_ReachesPrimary
\* model sanity (not part of the property): a present replica copy was written to the primary before
ReplicaIsCopy == \A kd \in Kinds, k \in Keys : rep[kd][k] = "present" => written[kd][k]

View == <<prim, primFail, rep, written, rd, last>>   \* hist is pure history: the reachable state space is finite without any bound on the number of operations
EmitSched == PrintT(<<"SCHED", ToJson(hist)>>)
====
