CONSTANTS
 Keys = {"k1","k2"}
 ContentLen = 4
 Ranges <- R_big
 RepStates = {"present","absent","failing","timeout","canceled","stalled"}
 MaxOps = 30
 DevNoFallback = FALSE
 DevFallbackDropsRange = FALSE
 DevIndexNoFallback = FALSE
 DevWriteToReplica = FALSE
 DevListFromReplica = FALSE
 DevNoFallbackOnCtxErr = FALSE
 DevReplicaTimeoutShadows = FALSE
 Concurrent = TRUE
 DevCoalesceIgnoresRange = FALSE
INIT Init
NEXT Next
INVARIANTS EmitSched C44_ReadMatchesPrimary C44_PrimaryOnly C44_ReachesPrimary

CHECK_DEADLOCK FALSE
