CONSTANTS
 Keys = {"k1","k2"}
 ContentLen = 4
 Ranges <- R_small
 RepStates = {"present","absent","timeout","stalled"}
 MaxOps = 1000000
 DevNoFallback = FALSE
 DevFallbackDropsRange = FALSE
 DevIndexNoFallback = FALSE
 DevWriteToReplica = FALSE
 DevListFromReplica = FALSE
 DevNoFallbackOnCtxErr = FALSE
 DevReplicaTimeoutShadows = FALSE
 Concurrent = FALSE
 DevCoalesceIgnoresRange = FALSE
INIT Init
NEXT Next
INVARIANTS C44_ReadMatchesPrimary C44_PrimaryOnly C44_ReachesPrimary ReplicaIsCopy
VIEW View
CHECK_DEADLOCK FALSE
