CONSTANTS
 Keys = {"k1","k2"}
 ContentLen = 4
 Ranges <- R_big
 RepStates = {"present","absent","failing","timeout","canceled","stalled"}
 MaxOps = 1000000
 DevNoFallback = FALSE
 DevFallbackDropsRange = FALSE
 DevIndexNoFallback = FALSE
 DevWriteToReplica = FALSE
 DevListFromReplica = FALSE
 DevNoFallbackOnCtxErr = FALSE
 DevReplicaTimeoutShadows = FALSE
 Concurrent = TRUE
 DevCoalesceIgnoresRange = FALSE
INIT TInit
NEXT TNext
POSTCONDITION Reached
CHECK_DEADLOCK FALSE
