CONSTANTS
 Keys = {"k1","k2"}
 ContentLen = 4
 Ranges <- R_big
 MaxOps = 1000000
 DevNoFallback = FALSE
 DevFallbackDropsRange = FALSE
 DevIndexNoFallback = FALSE
 DevWriteToReplica = FALSE
 DevListFromReplica = FALSE
INIT TInit
NEXT TNext
POSTCONDITION Reached
CHECK_DEADLOCK FALSE
