---- MODULE DualS3Props ----
(* C44 stated once, over parameters.  DualS3.tla instantiates it with model state,           *)
(* Obs_DualS3.tla with values observed on the real dualS3Client and its two backends.         *)
EXTENDS Integers, Sequences
CONSTANTS last,  \* the client operation just performed, as seen by its caller:
                 \*   [op, k, rng, ok, bytes, listed, calls, alive]; calls = sequence of backend calls [b, op, k, rng] it made,
                 \*   alive = the caller's context was still alive when the call returned,
                 \*   b = "P" (primary / write bucket) or "R" (read replica)
          want,  \* [ok, bytes, listed]: what the primary backend answers to the same question at that moment
          once   \* [ok, bytes]: the requested slice of the write-once content of the key (reads only)

Reads == {"DownloadSegment", "DownloadIndex"}
Mutating == {"UploadSegment", "UploadIndex", "DeleteSegment", "DeleteIndex", "EnsureBucket"}
PrimaryOnlyOps == Mutating \cup {"ListSegments"}

\* A read returns the primary's bytes whenever the primary can answer (and the caller has not used up its own
\* deadline); whatever it returns is the (write-once) content of that key and range, never other bytes.
C44_ReadMatchesPrimary ==
  last.op \in Reads =>
     /\ (want.ok /\ last.alive) => (last.ok /\ last.bytes = want.bytes)
     /\ last.ok => (once.ok /\ last.bytes = once.bytes)

\* No write, delete, bucket creation or listing is ever sent to the replica, by any client operation.
C44_PrimaryOnly ==
  \A i \in 1..Len(last.calls) : last.calls[i].op \in PrimaryOnlyOps => last.calls[i].b = "P"

\* A write / delete / listing is performed on the primary (once, same key) and the caller gets the primary's answer.
C44_ReachesPrimary ==
  last.op \in PrimaryOnlyOps =>
     /\ \E i \in 1..Len(last.calls) : last.calls[i].b = "P" /\ last.calls[i].op = last.op /\ last.calls[i].k = last.k
     /\ \A i, j \in 1..Len(last.calls) : (last.calls[i].op = last.op /\ last.calls[j].op = last.op) => i = j
     /\ last.ok = want.ok
     /\ last.op = "ListSegments" => last.listed = want.listed
====
