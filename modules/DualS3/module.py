"""DualS3.tla — C44 (cmd/broker/s3_dual.go)."""
import copy, json, os, re
from concurrent.futures import ThreadPoolExecutor
from lib import tlc as T, layers, gorun
from lib.common import Broken, Violation, verdict, save_replay

PROPS = {
    "C44": {
        "text": "DualS3.tla models dualS3Client over a primary and a replica bucket with a per-object replica state (present / absent / failing with a generic error / failing with its own deadline- or cancel-class error / stalled until the context it was handed is done), buckets that honour the context they are handed, a caller deadline on every call, a primary outage flag and all eight client operations with and without byte ranges; TLC checks the C44 clauses on the whole reachable state space (no bound on the number of operations). TLC-generated operation sequences (simulation + counterexamples of eight named wrong designs) are replayed on the real dualS3Client over two call-logging, context-honouring fake buckets inside a testing/synctest bubble (virtual time); TLC validates the recorded traces: the C44 predicates on the observed bytes and backend calls (layer O) and step-by-step conformance with the model (layer C).",
        "note": "Trusted: TLC, the two fake storage.S3Client backends (S3 range semantics as in storage.MemoryS3Client) and their call logs. Assumption: object keys are write-once, so an existing replica copy holds the bytes the primary holds or held; a stale replica copy of an overwritten or deleted key is a property of asynchronous replication and is out of scope. 'What the primary would return' is obtained by asking the primary fake the same question directly.",
        "technique": "TLA+ model (DualS3.tla) + TLC exhaustive check + replay of TLC behaviours into the real dualS3Client + TLC trace validation (observation and conformance layers)",
    }
}
DEVIATIONS = {  # cfg suffix -> invariant TLC must report
    "NoFallback": "C44_ReadMatchesPrimary", "FallbackDropsRange": "C44_ReadMatchesPrimary", "IndexNoFallback": "C44_ReadMatchesPrimary",
    "WriteToReplica": "C44_PrimaryOnly", "ListFromReplica": "C44_PrimaryOnly",
    "NoFallbackOnCtxErr": "C44_ReadMatchesPrimary", "ReplicaTimeoutShadows": "C44_ReadMatchesPrimary",
    "CoalesceIgnoresRange": "C44_ReadMatchesPrimary",
}
CLIENT_OPS = {"UploadSegment", "UploadIndex", "DeleteSegment", "DeleteIndex", "DownloadSegment", "DownloadIndex", "ListSegments", "EnsureBucket"}
HARNESS = {"cmd/broker/zz_verif_dual_test.go": lambda: os.path.join(DIR, "harness", "dual_verif_test.go")}


def harness(ctx, scheds, tag):
    sp = os.path.join(ctx.scratch, "sched-%s.ndjson" % tag)
    tp = os.path.join(ctx.scratch, "trace-%s.ndjson" % tag)
    gorun.write_ndjson(sp, scheds)
    rc, out = gorun.go_test(ctx, ".", "./cmd/broker/", {k: v() for k, v in HARNESS.items()},
                            "^TestVerifDualS3Replay$", env={"VERIF_SCHEDULES": sp, "VERIF_TRACE_OUT": tp})
    if rc != 0 or "replayed %d schedules" % len(scheds) not in out:
        raise Broken("dual-s3 harness failed:\n" + out[-3000:])
    return gorun.read_ndjson(tp)


def split(rows):
    runs, cur = [], None
    for r in rows:
        if r["ev"] == "Reset":
            cur = []
            runs.append(cur)
        cur.append(r)
    return runs


def situation(row):
    """Class of a client operation for coverage counting: (op, primary has it, primary failing, replica state, range class)."""
    st, k = row["st"], row.get("k", "")
    kind = "idx" if row["ev"].endswith("Index") else "seg"
    rng = row.get("rng") or []
    rc = "none" if not rng else ("past" if rng[0] >= 4 else ("clamped" if rng[1] >= 4 else "inside"))
    if not k:
        return (row["ev"], None, st["primFail"], None, rc)
    return (row["ev"], k in st["prim"][kind] if not row["ev"].startswith(("Upload", "Delete")) else None, st["primFail"], st["rep"][kind][k], rc)


def check(ctx, prop):
    quick = ctx.quick()
    d = T.stage(ctx, DIR, "mc")
    mc = T.model_check(ctx, d, "MC_DualS3.tla", "MC_DualS3_%s.cfg" % ctx.tier, coverage=not quick, timeout=1500, workers=8)
    ctx.log("model: %d distinct states, depth %d" % (mc.distinct, mc.depth))
    scheds, labels = [], []
    def dev_run(dev):
        return T.counterexample_hist(ctx, T.stage(ctx, DIR, "dev-" + dev), "MC_DualS3.tla", "Dev_DualS3_%s.cfg" % dev, timeout=300, workers=2)
    with ThreadPoolExecutor(max_workers=3) as ex:
        dev_res = dict(zip(sorted(DEVIATIONS), ex.map(dev_run, sorted(DEVIATIONS))))
    for dev, inv in sorted(DEVIATIONS.items()):
        h, r = dev_res[dev]
        if h is None or inv not in r.violated:
            raise Broken("deviation %s no longer violates %s in the model (vacuous deviation)" % (dev, inv))
        scheds.append({"len": 4, "steps": h}); labels.append("dev:" + dev)
    n = 150 if quick else 1200
    hs, _ = T.simulate_hists(ctx, d, "MC_DualS3.tla", "Sim_DualS3.cfg", num=n, depth=30, seed=ctx.seed)
    for h in hs:
        scheds.append({"len": 4, "steps": h}); labels.append("sim")
    ctx.log("%d schedules (%d deviation counterexamples, %d simulated)" % (len(scheds), len(DEVIATIONS), len(hs)))
    rows = harness(ctx, scheds, "main")
    runs = split(rows)
    if len(runs) != len(scheds):
        raise Broken("harness recorded %d runs for %d schedules" % (len(runs), len(scheds)))
    consumed, viol, _ = layers.observe(ctx, DIR, "Obs_DualS3.tla", "Obs_DualS3.cfg", rows)
    violations, first = [], set()
    for line, inv in sorted(viol):
        ev = rows[line - 1]
        idx = sum(1 for r in rows[:line] if r["ev"] == "Reset") - 1
        sit = situation(ev)
        sig = "%s@%s.rep_%s.%s" % (inv, ev["ev"], sit[3], "range" if ev.get("rng") else "norange")
        if (idx, sig) in first:
            continue
        first.add((idx, sig))
        path = save_replay(prop, "sched-%s.json" % re.sub(r"\W", "_", sig), {"schedule": scheds[idx], "label": labels[idx], "trace": runs[idx], "line": ev})
        violations.append(Violation(prop, sig, "%s false on the real dualS3Client at %s(%s, range %s): got ok=%s bytes=%s calls=%s, primary answers %s [schedule %s, replay %s]" % (
            inv, ev["ev"], ev.get("k"), ev.get("rng"), ev.get("ok"), ev.get("bytes"), [(c["b"], c["op"]) for c in ev.get("calls", [])], ev.get("want"), labels[idx], path), {"schedule": scheds[idx], "event": ev}))
    reached, total, _ = layers.conform(ctx, DIR, "Trace_DualS3.tla", "Trace_DualS3.cfg", rows)
    conf = {"reached": reached, "total": total, "first_rejection": None if reached == total else rows[reached] if reached < len(rows) else None}
    drift = reached != total
    try:
        st = self_test(ctx, runs)
    except Broken as e:
        if not violations:
            raise
        st = {"skipped": "violations reported; self-test not applicable to these traces: %s" % e}
    level = "model_checking"
    if drift and not violations:
        level = "exploration"
        ctx.log("DRIFT: conformance layer rejected a trace although C44 held: " + json.dumps(conf["first_rejection"]))
    ops = [r for r in rows if r["ev"] in CLIENT_OPS]
    sits = {situation(r) for r in ops}
    read_sits = {s for s in sits if s[0].startswith("Download")}
    fallback = sum(1 for r in ops if r["ev"].startswith("Download") and len(r["calls"]) == 2)
    nontrivial = sum(1 for run in runs if any(r["ev"].startswith("Download") and len(r["calls"]) == 2 for r in run))
    cov = {
        "states": mc.distinct, "transitions": mc.generated, "depth": mc.depth, "exhaustive": True,
        "model_config": "MC_DualS3_%s.cfg (whole reachable state space, operation count unbounded)" % ctx.tier,
        "traces_validated_against_impl": len(runs), "trace_events": len(rows), "client_operations": len(ops),
        "evaluations": len(ops), "distinct_nontrivial": nontrivial,
        "rule": "schedules = TLC counterexamples of the named deviations + TLC -simulate behaviours (seeded); evaluations = client operations checked by layer O; a schedule is non-trivial if at least one read fell back from the replica to the primary",
        "distinct_situations": len(sits), "distinct_read_situations": len(read_sits), "reads_with_fallback": fallback,
        "situation_rule": "situation = (operation, primary holds object, primary failing, replica state of object, range class none/inside/clamped/past-end)",
        "deviation_schedules": sorted(DEVIATIONS), "conformance": ("drift" if drift else "accepted"), "conformance_detail": conf,
        "binding_self_test": st,
        "samples": [scheds[0], scheds[min(len(scheds) - 1, len(DEVIATIONS) + 1)], runs[0][:4]],
    }
    if not quick:
        cov["action_coverage"] = {k: v[1] for k, v in mc.action_coverage().items()}
    if not violations and not drift and (fallback == 0 or len(read_sits) < 10):
        raise Broken("vacuous run: %d fallback reads, %d read situations" % (fallback, len(read_sits)))
    return verdict(ctx, violations, level, cov, [
        "segment/index keys are write-once: a replica copy, when present, holds the bytes the primary holds or held for that key (an overwritten or deleted key served stale by an asynchronous replica is not a defect of this client)",
        "the primary's answer ('want') is obtained by putting the same question to the primary fake directly; the fakes implement S3 byte-range semantics as storage.MemoryS3Client does",
        "EnsureBucket is counted as a write (it may create the bucket)",
        "every client call carries a 10 s caller deadline (virtual time); a read that returns after the caller's own context is done (replica stalled for the caller's whole deadline) owes the caller nothing; both fakes fail a call made on a done context with the context error",
        "dualS3Client is stateless on this tree; besides complete (non-overlapping) operations the schedules contain two overlapping reads: a second read starts while the first is parked inside its primary GET (gate in the primary fake, testing/synctest), no write or replica change happens while a read is in flight",
    ])


def self_test(ctx, runs):
    """Corrupt recorded fields: layer O must flag wrong bytes, layer C must reject a changed bucket content."""
    run = next((r for r in runs if any(x["ev"].startswith("Download") and x["ok"] and x["want"]["ok"] for x in r)), None)
    if run is None:
        raise Broken("binding self-test: no successful read in any trace")
    bad = copy.deepcopy(run)
    tgt = [r for r in bad if r["ev"].startswith("Download") and r["ok"] and r["want"]["ok"]][-1]
    tgt["bytes"][0] += 1
    _, viol, _ = layers.observe(ctx, DIR, "Obs_DualS3.tla", "Obs_DualS3.cfg", bad, name="selfO")
    if not any(v[1] == "C44_ReadMatchesPrimary" for v in viol):
        raise Broken("binding self-test: observation layer did not flag corrupted bytes")
    bad = copy.deepcopy(run)
    tgt = bad[-1]
    tgt["st"]["primFail"] = not tgt["st"]["primFail"]
    reached, total, _ = layers.conform(ctx, DIR, "Trace_DualS3.tla", "Trace_DualS3.cfg", bad, name="selfC")
    if reached == total:
        raise Broken("binding self-test: conformance layer accepted a corrupted state field")
    return {"observation_layer_flags_corrupted_field": True, "conformance_layer_rejects_corrupted_state": True}


def replay(ctx, prop, path):
    obj = json.load(open(path))
    sched = obj.get("schedule") or obj.get("detail", {}).get("schedule")
    rows = harness(ctx, [sched], "replay")
    _, viol, _ = layers.observe(ctx, DIR, "Obs_DualS3.tla", "Obs_DualS3.cfg", rows)
    for r in rows:
        print(json.dumps(r, sort_keys=True))
    for line, inv in viol:
        print("VIOLATION property=%s replay=%s" % (prop, path))
        print("  %s false at line %d" % (inv, line))
    return 1 if viol else 0
