---- MODULE Trace_DualS3 ----
(* Conformance layer: every recorded step must be the DualS3.tla action of the same name with   *)
(* the same arguments; the caller-visible result, the sequence of backend calls and the         *)
(* projected contents of both fake buckets must equal the model's post-state.                   *)
EXTENDS DualS3
TraceLog == ndJsonDeserialize("trace.ndjson")
VARIABLE l
tvars == <<vars, l>>
E == TraceLog[l]
Cur(ev) == l <= Len(TraceLog) /\ E.ev = ev /\ l' = l + 1
ToSet(s) == {s[i] : i \in DOMAIN s}
StMatch(st) == /\ primFail' = st.primFail
               /\ \A kd \in Kinds : /\ {k \in Keys : prim'[kd][k]} = ToSet(st.prim[kd])
                                    /\ \A k \in Keys : rep'[kd][k] = st.rep[kd][k]
ResMatch == /\ last'.alive = E.alive /\ last'.ok = E.ok /\ last'.bytes = E.bytes /\ last'.listed = E.listed
            /\ Len(last'.calls) = Len(E.calls)
            /\ \A i \in 1..Len(E.calls) : /\ last'.calls[i].b = E.calls[i].b /\ last'.calls[i].op = E.calls[i].op
                                          /\ last'.calls[i].k = E.calls[i].k /\ last'.calls[i].rng = E.calls[i].rng
TInit == Init /\ l = 1 /\ TLCSet(7, 0)
TReset == /\ Cur("Reset") /\ E.len = ContentLen
          /\ prim' = [kd \in Kinds |-> [k \in Keys |-> FALSE]] /\ primFail' = FALSE
          /\ rep' = [kd \in Kinds |-> [k \in Keys |-> "absent"]]
          /\ written' = [kd \in Kinds |-> [k \in Keys |-> FALSE]]
          /\ rd' = [r \in Readers |-> Idle]
          /\ last' = Res("init", "", <<>>, TRUE, <<>>, <<>>, <<>>) /\ hist' = <<>>
TUpload == \E op \in {"UploadSegment", "UploadIndex"} : Cur(op) /\ Upload(op, E.k) /\ ResMatch /\ StMatch(E.st)
TDelete == \E op \in {"DeleteSegment", "DeleteIndex"} : Cur(op) /\ Delete(op, E.k) /\ ResMatch /\ StMatch(E.st)
TDownload == \E op \in {"DownloadSegment", "DownloadIndex"} : Cur(op) /\ E.mode = "seq" /\ Download(op, E.k, E.rng) /\ ResMatch /\ StMatch(E.st)
\* overlapping reads: a read that completes at once, one that parks (inside its primary GET, or on another reader's
\* coalesced GET), the return of a parked primary GET, the completion of a reader that shared that GET
Same == last'.op = E.ev /\ last'.k = E.k /\ last'.rng = E.rng
TStartDone == \E op \in {"DownloadSegment", "DownloadIndex"} : Cur(op) /\ E.mode = "start" /\ ReadStart(E.r, op, E.k, E.rng) /\ rd' = rd /\ Same /\ ResMatch /\ StMatch(E.st)
TPark == Cur("ReadPark") /\ ReadStart(E.r, E.op, E.k, E.rng) /\ rd'[E.r].st = E.parked /\ StMatch(E.st)
TRet == \E op \in {"DownloadSegment", "DownloadIndex"} : Cur(op) /\ E.mode = "ret" /\ PrimaryGetReturn(E.r) /\ Same /\ ResMatch /\ StMatch(E.st)
TJoin == \E op \in {"DownloadSegment", "DownloadIndex"} : Cur(op) /\ E.mode = "join" /\ JoinFinish(E.r) /\ Same /\ ResMatch /\ StMatch(E.st)
TList == Cur("ListSegments") /\ List /\ ResMatch /\ StMatch(E.st)
TEnsure == Cur("EnsureBucket") /\ Ensure /\ ResMatch /\ StMatch(E.st)
TSetRep == Cur("SetRep") /\ SetRep(E.kind, E.k, E.s) /\ StMatch(E.st)
TSetPrimFail == Cur("SetPrimFail") /\ SetPrimFail(E.on) /\ StMatch(E.st)
Consumed == TLCSet(7, IF TLCGet(7) < l THEN l ELSE TLCGet(7))
TNext == (TReset \/ TUpload \/ TDelete \/ TDownload \/ TStartDone \/ TPark \/ TRet \/ TJoin \/ TList \/ TEnsure \/ TSetRep \/ TSetPrimFail) /\ Consumed
TSpec == TInit /\ [][TNext]_tvars
Reached == PrintT(<<"CONF", ToJson([reached |-> TLCGet(7), total |-> Len(TraceLog)])>>)
====
