package main

// Verification harness (injected with `go test -overlay`; not part of the repository).
// Replays TLC-generated operation sequences on the real dualS3Client over two fake
// storage.S3Client backends that log every call, and records one ndjson line per step.

import (
	"bufio"
	"context"
	"encoding/json"
	"errors"
	"fmt"
	"os"
	"sort"
	"strings"
	"sync"
	"testing"
	"testing/synctest"
	"time"

	"github.com/KafScale/platform/pkg/storage"
)

type vdStep struct {
	A    string  `json:"a"`
	K    string  `json:"k"`
	Rng  []int64 `json:"rng"`
	Kind string  `json:"kind"`
	S    string  `json:"s"`
	On   bool    `json:"on"`
	R    string  `json:"r"`
	Op   string  `json:"op"`
}

type vdSched struct {
	Len   int      `json:"len"`
	Steps []vdStep `json:"steps"`
}

type vdCall struct {
	B   string  `json:"b"`
	Op  string  `json:"op"`
	K   string  `json:"k"`
	Rng []int64 `json:"rng"`
	Rd  string  `json:"rd"` // reader the call belongs to ("" = a complete, non-overlapping operation)
}

// vdReaderKey carries the id of an overlapping reader in the context of its client call.
type vdReaderKey struct{}

func vdReader(ctx context.Context) string {
	r, _ := ctx.Value(vdReaderKey{}).(string)
	return r
}

// vdShared is what the two fakes share: the call log and the parking place of overlapping primary GETs.
type vdShared struct {
	mu      sync.Mutex
	waiters map[string]chan struct{} // reader id -> gate its primary GET is parked on
}

var vdMu = &vdShared{waiters: map[string]chan struct{}{}}

var vdKeyNum = map[string]int{"k1": 1, "k2": 2, "k3": 3}

const vdPrefix = "default/orders/0/"

func vdObjKey(kind, k string) string {
	ext := ".kfs"
	if kind == "idx" {
		ext = ".index"
	}
	return fmt.Sprintf("%ssegment-%020d%s", vdPrefix, vdKeyNum[k], ext)
}

func vdModelKey(key string) string {
	for k := range vdKeyNum {
		if key == vdObjKey("seg", k) || key == vdObjKey("idx", k) {
			return k
		}
	}
	if key == "" || key == vdPrefix {
		return ""
	}
	return "?" + key
}

func vdContent(kind, k string, n int) []byte {
	out := make([]byte, n)
	for i := range out {
		b := vdKeyNum[k]*32 + i + 1
		if kind == "idx" {
			b += 16
		}
		out[i] = byte(b)
	}
	return out
}

// vdBackend is a fake bucket with S3 range semantics (same as storage.MemoryS3Client).  It honours the
// context it is handed (a call on a done context fails with the context error) and has a per-object
// failure mode: "failing" (generic error), "timeout" / "canceled" (the bucket's own deadline- / cancel-class
// error while the caller's context is alive), "stalled" (blocks until the context it was handed is done).
type vdBackend struct {
	name    string
	seg     map[string][]byte
	idx     map[string][]byte
	failAll bool
	mode    map[string]string
	log     *[]vdCall
}

func newVdBackend(name string, log *[]vdCall) *vdBackend {
	return &vdBackend{name: name, seg: map[string][]byte{}, idx: map[string][]byte{}, mode: map[string]string{}, log: log}
}

var errVdDown = errors.New("backend unavailable")

// vdCallerTimeout is the deadline every client call is made with (virtual time under testing/synctest).
const vdCallerTimeout = 10 * time.Second

// gate is what a backend does before looking at its data: context check, outage, per-object failure mode.
func (b *vdBackend) gate(ctx context.Context, key string) error {
	if err := ctx.Err(); err != nil {
		return err
	}
	if b.failAll {
		return errVdDown
	}
	switch b.mode[key] {
	case "failing":
		return errVdDown
	case "timeout":
		return fmt.Errorf("replica read %s: %w", key, context.DeadlineExceeded)
	case "canceled":
		return fmt.Errorf("replica read %s: %w", key, context.Canceled)
	case "stalled":
		<-ctx.Done()
		return ctx.Err()
	}
	return nil
}

func (b *vdBackend) rec(ctx context.Context, op, key string, rng *storage.ByteRange) {
	vdMu.mu.Lock()
	defer vdMu.mu.Unlock()
	c := vdCall{B: b.name, Op: op, K: vdModelKey(key), Rng: []int64{}, Rd: vdReader(ctx)}
	if rng != nil {
		c.Rng = []int64{rng.Start, rng.End}
	}
	*b.log = append(*b.log, c)
}

// park holds the primary GET of an overlapping reader until the harness lets it return.
func (b *vdBackend) park(ctx context.Context) {
	r := vdReader(ctx)
	if b.name != "P" || r == "" {
		return
	}
	ch := make(chan struct{})
	vdMu.mu.Lock()
	vdMu.waiters[r] = ch
	vdMu.mu.Unlock()
	<-ch
}

func (b *vdBackend) down(key string) bool { return b.failAll || b.mode[key] != "" }

func vdSlice(data []byte, rng *storage.ByteRange) ([]byte, error) {
	if rng == nil {
		return append([]byte(nil), data...), nil
	}
	start, end := rng.Start, rng.End
	if start < 0 {
		start = 0
	}
	if end >= int64(len(data)) {
		end = int64(len(data)) - 1
	}
	if start > end || start >= int64(len(data)) {
		return nil, fmt.Errorf("range %d-%d invalid", rng.Start, rng.End)
	}
	return append([]byte(nil), data[start:end+1]...), nil
}

func (b *vdBackend) peekSeg(key string, rng *storage.ByteRange) ([]byte, error) {
	if b.down(key) {
		return nil, errVdDown
	}
	d, ok := b.seg[key]
	if !ok {
		return nil, fmt.Errorf("segment %s not found", key)
	}
	return vdSlice(d, rng)
}

func (b *vdBackend) peekIdx(key string) ([]byte, error) {
	if b.down(key) {
		return nil, errVdDown
	}
	d, ok := b.idx[key]
	if !ok {
		return nil, fmt.Errorf("index %s: %w", key, storage.ErrNotFound)
	}
	return append([]byte(nil), d...), nil
}

func (b *vdBackend) peekList(prefix string) ([]storage.S3Object, error) {
	if b.failAll {
		return nil, errVdDown
	}
	out := []storage.S3Object{}
	for k, d := range b.seg {
		if strings.HasPrefix(k, prefix) {
			out = append(out, storage.S3Object{Key: k, Size: int64(len(d))})
		}
	}
	sort.Slice(out, func(i, j int) bool { return out[i].Key < out[j].Key })
	return out, nil
}

func (b *vdBackend) UploadSegment(ctx context.Context, key string, body []byte) error {
	b.rec(ctx, "UploadSegment", key, nil)
	if err := b.gate(ctx, key); err != nil {
		return err
	}
	b.seg[key] = append([]byte(nil), body...)
	return nil
}

func (b *vdBackend) UploadIndex(ctx context.Context, key string, body []byte) error {
	b.rec(ctx, "UploadIndex", key, nil)
	if err := b.gate(ctx, key); err != nil {
		return err
	}
	b.idx[key] = append([]byte(nil), body...)
	return nil
}

func (b *vdBackend) DeleteSegment(ctx context.Context, key string) error {
	b.rec(ctx, "DeleteSegment", key, nil)
	if err := b.gate(ctx, key); err != nil {
		return err
	}
	delete(b.seg, key)
	return nil
}

func (b *vdBackend) DeleteIndex(ctx context.Context, key string) error {
	b.rec(ctx, "DeleteIndex", key, nil)
	if err := b.gate(ctx, key); err != nil {
		return err
	}
	delete(b.idx, key)
	return nil
}

func (b *vdBackend) DownloadSegment(ctx context.Context, key string, rng *storage.ByteRange) ([]byte, error) {
	b.rec(ctx, "DownloadSegment", key, rng)
	b.park(ctx)
	if err := b.gate(ctx, key); err != nil {
		return nil, err
	}
	return b.peekSeg(key, rng)
}

func (b *vdBackend) DownloadIndex(ctx context.Context, key string) ([]byte, error) {
	b.rec(ctx, "DownloadIndex", key, nil)
	b.park(ctx)
	if err := b.gate(ctx, key); err != nil {
		return nil, err
	}
	return b.peekIdx(key)
}

func (b *vdBackend) ListSegments(ctx context.Context, prefix string) ([]storage.S3Object, error) {
	b.rec(ctx, "ListSegments", prefix, nil)
	if err := ctx.Err(); err != nil {
		return nil, err
	}
	return b.peekList(prefix)
}

func (b *vdBackend) EnsureBucket(ctx context.Context) error {
	b.rec(ctx, "EnsureBucket", "", nil)
	if err := ctx.Err(); err != nil {
		return err
	}
	if b.failAll {
		return errVdDown
	}
	return nil
}

func vdInts(b []byte) []int {
	out := make([]int, len(b))
	for i, x := range b {
		out[i] = int(x)
	}
	return out
}

func vdListed(objs []storage.S3Object) []string {
	out := []string{}
	for _, o := range objs {
		out = append(out, vdModelKey(o.Key))
	}
	sort.Strings(out)
	return out
}

func TestVerifDualS3Replay(t *testing.T) {
	in, outPath := os.Getenv("VERIF_SCHEDULES"), os.Getenv("VERIF_TRACE_OUT")
	if in == "" || outPath == "" {
		t.Skip("no schedules")
	}
	f, err := os.Open(in)
	if err != nil {
		t.Fatal(err)
	}
	defer f.Close()
	out, err := os.Create(outPath)
	if err != nil {
		t.Fatal(err)
	}
	defer out.Close()
	w := bufio.NewWriter(out)
	defer w.Flush()
	emit := func(m map[string]any) {
		b, _ := json.Marshal(m)
		w.Write(b)
		w.WriteByte('\n')
	}
	sc := bufio.NewScanner(f)
	sc.Buffer(make([]byte, 1<<20), 1<<26)
	n := 0
	for sc.Scan() {
		var s vdSched
		if err := json.Unmarshal(sc.Bytes(), &s); err != nil {
			t.Fatal(err)
		}
		idx := n
		synctest.Test(t, func(t *testing.T) { vdRun(t, idx, s, emit) })
		n++
	}
	t.Logf("replayed %d schedules", n)
}

func vdRun(t *testing.T, n int, s vdSched, emit func(map[string]any)) {
	{
		var calls []vdCall
		prim, repl := newVdBackend("P", &calls), newVdBackend("R", &calls)
		client := newDualS3Client(prim, repl) // the real constructor: (write, read)
		project := func() map[string]any {
			ps, pi := []string{}, []string{}
			for k := range prim.seg {
				ps = append(ps, vdModelKey(k))
			}
			for k := range prim.idx {
				pi = append(pi, vdModelKey(k))
			}
			sort.Strings(ps)
			sort.Strings(pi)
			// what the replica bucket really holds / does, read from the fake (not from the harness bookkeeping)
			rs := map[string]map[string]string{"seg": {}, "idx": {}}
			for k := range vdKeyNum {
				for _, kind := range []string{"seg", "idx"} {
					key := vdObjKey(kind, k)
					st := "absent"
					m := repl.seg
					if kind == "idx" {
						m = repl.idx
					}
					if repl.mode[key] != "" {
						st = repl.mode[key]
					} else if _, ok := m[key]; ok {
						st = "present"
					}
					rs[kind][k] = st
				}
			}
			return map[string]any{"prim": map[string]any{"seg": ps, "idx": pi}, "primFail": prim.failAll, "rep": rs}
		}
		emit(map[string]any{"ev": "Reset", "len": s.Len, "sched": n})
		vdMu.mu.Lock()
		vdMu.waiters = map[string]chan struct{}{}
		vdMu.mu.Unlock()
		// ---- overlapping reads: a reader runs its client call in its own goroutine; its primary GET parks in the fake
		type vdPending struct {
			op, k   string
			rng     *storage.ByteRange
			rngArr  []int64
			cancel  context.CancelFunc
			done    bool
			got     []byte
			err     error
			alive   bool
			emitted bool
		}
		pending := map[string]*vdPending{}
		readerCalls := func(r string) []vdCall {
			vdMu.mu.Lock()
			defer vdMu.mu.Unlock()
			out := []vdCall{}
			for _, c := range calls {
				if c.Rd == r {
					out = append(out, c)
				}
			}
			return out
		}
		emitDone := func(r string, mode string) {
			p := pending[r]
			kind := "seg"
			if p.op == "DownloadIndex" {
				kind = "idx"
			}
			key := vdObjKey(kind, p.k)
			var want []byte
			var werr error
			if kind == "seg" {
				want, werr = prim.peekSeg(key, p.rng)
			} else {
				want, werr = prim.peekIdx(key)
			}
			once, oerr := vdSlice(vdContent(kind, p.k, s.Len), p.rng)
			bytesGot := vdInts(p.got)
			if p.err != nil {
				bytesGot = []int{}
			}
			emit(map[string]any{"ev": p.op, "k": p.k, "rng": p.rngArr, "r": r, "mode": mode, "ok": p.err == nil, "bytes": bytesGot, "listed": []string{},
				"want": map[string]any{"ok": werr == nil, "bytes": vdInts(want), "listed": []string{}},
				"once": map[string]any{"ok": oerr == nil, "bytes": vdInts(once)}, "alive": p.alive, "calls": readerCalls(r), "st": project()})
			delete(pending, r)
		}
		finished := func() []string {
			vdMu.mu.Lock()
			defer vdMu.mu.Unlock()
			out := []string{}
			for r, p := range pending {
				if p.done {
					out = append(out, r)
				}
			}
			sort.Strings(out)
			return out
		}
		release := func(r string) {
			vdMu.mu.Lock()
			ch := vdMu.waiters[r]
			delete(vdMu.waiters, r)
			vdMu.mu.Unlock()
			if ch == nil {
				return
			}
			close(ch)
			synctest.Wait()
			fin := finished()
			for _, q := range fin { // the reader whose GET returned first, then readers that shared its result
				if q == r {
					emitDone(q, "ret")
				}
			}
			for _, q := range fin {
				if q != r {
					emitDone(q, "join")
				}
			}
		}
		drain := func() {
			for _, r := range []string{"A", "B"} {
				if _, ok := pending[r]; ok {
					release(r)
				}
			}
			if len(pending) != 0 {
				t.Fatalf("schedule %d: readers still pending after releasing every parked primary GET", n)
			}
		}
		for _, st := range s.Steps {
			switch st.A {
			case "ReadStart":
				if _, busy := pending[st.R]; busy {
					drain() // cannot happen on a tree the model describes; keep going rather than dead-locking the bubble
				}
				p := &vdPending{op: st.Op, k: st.K, rngArr: []int64{}}
				if len(st.Rng) == 2 {
					p.rng = &storage.ByteRange{Start: st.Rng[0], End: st.Rng[1]}
					p.rngArr = st.Rng
				}
				vdMu.mu.Lock() // forget the calls of this reader's previous read
				kept := calls[:0]
				for _, c := range calls {
					if c.Rd != st.R {
						kept = append(kept, c)
					}
				}
				calls = kept
				vdMu.mu.Unlock()
				base, cancel := context.WithTimeout(context.Background(), vdCallerTimeout)
				ctx := context.WithValue(base, vdReaderKey{}, st.R)
				p.cancel = cancel
				pending[st.R] = p
				kind := "seg"
				if st.Op == "DownloadIndex" {
					kind = "idx"
				}
				key := vdObjKey(kind, st.K)
				go func() {
					var got []byte
					var err error
					if kind == "seg" {
						got, err = client.DownloadSegment(ctx, key, p.rng)
					} else {
						got, err = client.DownloadIndex(ctx, key)
					}
					alive := ctx.Err() == nil
					cancel()
					vdMu.mu.Lock()
					p.got, p.err, p.alive, p.done = got, err, alive, true
					vdMu.mu.Unlock()
				}()
				synctest.Wait()
				vdMu.mu.Lock()
				done := p.done
				_, atGate := vdMu.waiters[st.R]
				vdMu.mu.Unlock()
				if done {
					emitDone(st.R, "start")
				} else {
					parked := "flight"
					if atGate {
						parked = "gate"
					}
					emit(map[string]any{"ev": "ReadPark", "r": st.R, "op": st.Op, "k": st.K, "rng": p.rngArr, "parked": parked, "st": project()})
				}
				continue
			case "Return", "JoinFinish":
				// adaptive: on a tree without coalescing the "joined" reader is parked in its own primary GET
				if p, ok := pending[st.R]; ok {
					vdMu.mu.Lock()
					_, atGate := vdMu.waiters[st.R]
					vdMu.mu.Unlock()
					if atGate {
						release(st.R)
					} else {
						// the reader is not parked in a primary GET of its own: it waits for another reader's GET of the same object
						for _, q := range []string{"A", "B"} {
							if lp, ok2 := pending[q]; ok2 && q != st.R && lp.op == p.op && lp.k == p.k {
								release(q)
							}
						}
					}
				}
				continue
			}
			drain()
			calls = calls[:0]
			rngArr := []int64{}
			var rng *storage.ByteRange
			if len(st.Rng) == 2 {
				rng = &storage.ByteRange{Start: st.Rng[0], End: st.Rng[1]}
				rngArr = st.Rng
			}
			line := map[string]any{"ev": st.A, "k": st.K, "rng": rngArr, "r": "", "mode": "seq"}
			// every client call is made with a caller deadline; alive = the caller's context outlived the call
			ctx, cancel := context.WithTimeout(context.Background(), vdCallerTimeout)
			noRes := map[string]any{"ok": false, "bytes": []int{}}
			switch st.A {
			case "SetRep":
				key := vdObjKey(st.Kind, st.K)
				m := repl.seg
				if st.Kind == "idx" {
					m = repl.idx
				}
				switch st.S {
				case "present":
					repl.mode[key] = ""
					m[key] = vdContent(st.Kind, st.K, s.Len)
				case "absent":
					repl.mode[key] = ""
					delete(m, key)
				case "failing", "timeout", "canceled", "stalled":
					repl.mode[key] = st.S
				default:
					t.Fatalf("unknown replica state %q", st.S)
				}
				line["kind"], line["s"] = st.Kind, st.S
			case "SetPrimFail":
				prim.failAll = st.On
				line["on"] = st.On
			case "UploadSegment", "UploadIndex", "DeleteSegment", "DeleteIndex", "EnsureBucket", "ListSegments":
				kind := "seg"
				if strings.HasSuffix(st.A, "Index") {
					kind = "idx"
				}
				key := vdObjKey(kind, st.K)
				var err error
				listed, wantListed := []string{}, []string{}
				switch st.A {
				case "UploadSegment":
					err = client.UploadSegment(ctx, key, vdContent(kind, st.K, s.Len))
				case "UploadIndex":
					err = client.UploadIndex(ctx, key, vdContent(kind, st.K, s.Len))
				case "DeleteSegment":
					err = client.DeleteSegment(ctx, key)
				case "DeleteIndex":
					err = client.DeleteIndex(ctx, key)
				case "EnsureBucket":
					err = client.EnsureBucket(ctx)
				case "ListSegments":
					var objs []storage.S3Object
					objs, err = client.ListSegments(ctx, vdPrefix)
					if err == nil {
						listed = vdListed(objs)
					}
					if w, werr := prim.peekList(vdPrefix); werr == nil {
						wantListed = vdListed(w)
					}
				}
				line["ok"], line["bytes"], line["listed"] = err == nil, []int{}, listed
				line["want"] = map[string]any{"ok": !prim.failAll, "bytes": []int{}, "listed": wantListed}
				line["once"] = noRes
			case "DownloadSegment", "DownloadIndex":
				kind := "seg"
				if st.A == "DownloadIndex" {
					kind = "idx"
				}
				key := vdObjKey(kind, st.K)
				var got, want []byte
				var err, werr error
				if kind == "seg" {
					got, err = client.DownloadSegment(ctx, key, rng)
					want, werr = prim.peekSeg(key, rng) // the same question put to the primary directly (not logged as a call)
				} else {
					got, err = client.DownloadIndex(ctx, key)
					want, werr = prim.peekIdx(key)
				}
				once, oerr := vdSlice(vdContent(kind, st.K, s.Len), rng)
				line["ok"], line["bytes"], line["listed"] = err == nil, vdInts(got), []string{}
				if err != nil {
					line["bytes"] = []int{}
				}
				line["want"] = map[string]any{"ok": werr == nil, "bytes": vdInts(want), "listed": []string{}}
				line["once"] = map[string]any{"ok": oerr == nil, "bytes": vdInts(once)}
			default:
				t.Fatalf("unknown step %q", st.A)
			}
			line["alive"] = ctx.Err() == nil
			cancel()
			line["calls"] = append([]vdCall{}, calls...)
			line["st"] = project()
			emit(line)
		}
		drain()
	}
}
