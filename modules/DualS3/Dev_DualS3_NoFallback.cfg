CONSTANTS
 Keys = {"k1"}
 ContentLen = 4
 Ranges <- R_small
 RepStates = {"present","absent","failing","timeout","canceled","stalled"}
 MaxOps = 1000000
 DevNoFallback = TRUE
 DevFallbackDropsRange = FALSE
 DevIndexNoFallback = FALSE
 DevWriteToReplica = FALSE
 DevListFromReplica = FALSE
 DevNoFallbackOnCtxErr = FALSE
 DevReplicaTimeoutShadows = FALSE
 Concurrent = TRUE
 DevCoalesceIgnoresRange = FALSE
INIT Init
NEXT Next
INVARIANTS C44_ReadMatchesPrimary C44_PrimaryOnly C44_ReachesPrimary
VIEW View
CHECK_DEADLOCK FALSE
