---- MODULE Obs_DualS3 ----
(* Observation layer: no model actions.  Every line recorded for an operation of the real      *)
(* dualS3Client carries what the caller got, the backend calls it made, what the primary       *)
(* answers to the same question and the write-once content slice; the C44 predicates are the   *)
(* DualS3Props definitions instantiated with those observed values.                            *)
EXTENDS Integers, Sequences, FiniteSets, TLC, Json
TraceLog == ndJsonDeserialize("trace.ndjson")
VARIABLES l, viol
ovars == <<l, viol>>
ClientOps == {"UploadSegment", "UploadIndex", "DeleteSegment", "DeleteIndex", "DownloadSegment", "DownloadIndex", "ListSegments", "EnsureBucket"}
P(e) == INSTANCE DualS3Props WITH
      last <- [op |-> e.ev, k |-> e.k, rng |-> e.rng, ok |-> e.ok, bytes |-> e.bytes, listed |-> e.listed, calls |-> e.calls, alive |-> e.alive],
      want <- e.want, once <- e.once
OInit == l = 0 /\ viol = {}
Step ==
  /\ l < Len(TraceLog) /\ l' = l + 1
  /\ LET e == TraceLog[l + 1] IN
     /\ viol' = IF e.ev \notin ClientOps THEN viol ELSE viol \cup
          {<<l + 1, n>> : n \in
             (IF P(e)!C44_ReadMatchesPrimary THEN {} ELSE {"C44_ReadMatchesPrimary"}) \cup
             (IF P(e)!C44_PrimaryOnly THEN {} ELSE {"C44_PrimaryOnly"}) \cup
             (IF P(e)!C44_ReachesPrimary THEN {} ELSE {"C44_ReachesPrimary"})}
     /\ (l' = Len(TraceLog)) => PrintT(<<"OBS", ToJson([consumed |-> l', viol |-> viol'])>>)
OSpec == OInit /\ [][Step]_ovars
====
