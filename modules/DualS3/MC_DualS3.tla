---- MODULE MC_DualS3 ----
EXTENDS DualS3
====
