---- MODULE MC_SqlPrune ----
EXTENDS SqlPrune
====
