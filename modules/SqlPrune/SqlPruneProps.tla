---- MODULE SqlPruneProps ----
(* C36 stated once, over parameters.  SqlPrune.tla instantiates it with the result of its        *)
(* implementation-shaped query function, Obs_SqlPrune.tla with the rows the real server sent.     *)
EXTENDS Integers, Sequences, FiniteSets
CONSTANTS segs,     \* the topic's completed segments in listing order: [p, rows (sequence of <<offset, ts>>, by offset), ...]
          q,        \* the query: [part, omin, omax, tmin, tmax, mode, k]  (-1 = filter absent; k = 0: no explicit limit)
          result,   \* the rows returned, in order: sequence of <<partition, offset, ts>>
          scanned   \* indices (into segs) of the segments whose records were read

Row(s, j) == <<segs[s].p, segs[s].rows[j][1], segs[s].rows[j][2]>>
RECURSIVE SegRows(_, _)
SegRows(s, j) == IF j > Len(segs[s].rows) THEN <<>> ELSE <<Row(s, j)>> \o SegRows(s, j + 1)
RECURSIVE AllFrom(_)
AllFrom(s) == IF s > Len(segs) THEN <<>> ELSE SegRows(s, 1) \o AllFrom(s + 1)
AllRows == AllFrom(1)                      \* every record of every completed segment, by (partition, offset)
Match(r) == /\ (q.part = -1 \/ r[1] = q.part)
            /\ (q.omin = -1 \/ r[2] >= q.omin) /\ (q.omax = -1 \/ r[2] <= q.omax)
            /\ (q.tmin = -1 \/ r[3] >= q.tmin) /\ (q.tmax = -1 \/ r[3] <= q.tmax)
F == SelectSeq(AllRows, Match)             \* the filters applied directly to all records
Rng(s) == {s[i] : i \in DOMAIN s}
MinI(a, b) == IF a < b THEN a ELSE b
Take(s, n) == SubSeq(s, 1, MinI(n, Len(s)))
LastN(s, n) == SubSeq(s, Len(s) - MinI(n, Len(s)) + 1, Len(s))
Before(a, b) == IF q.mode = "desc" THEN a >= b ELSE a <= b
\* ORDER BY _ts [DESC] [LIMIT k]: sorted, a sub-multiset of F of the right size, nothing left out that sorts strictly earlier
\* (rows with equal timestamps may come in any order and any of them may fill the last places)
TopK(f) == LET rs == Rng(result)  fs == Rng(f) IN
        /\ Len(result) = (IF q.k = 0 THEN Len(f) ELSE MinI(q.k, Len(f)))
        /\ rs \subseteq fs /\ Cardinality(rs) = Len(result)
        /\ \A i \in 1..(Len(result) - 1) : Before(result[i][3], result[i + 1][3])
        /\ \A r \in fs \ rs : \A x \in rs : Before(x[3], r[3])
C36_ResultEqualsDirect ==
  LET f == F IN
  CASE q.mode = "plain" -> result = (IF q.k = 0 THEN f ELSE Take(f, q.k))
    [] q.mode = "tail"  -> result = LastN(f, q.k)
    [] OTHER            -> TopK(f)
\* no row that belongs to the answer lives in a segment that was skipped
SegOf(r) == CHOOSE s \in 1..Len(segs) : segs[s].p = r[1] /\ \E j \in 1..Len(segs[s].rows) : segs[s].rows[j][1] = r[2]
C36_NoMatchingRowSkipped ==
  LET f == F
      need == IF q.mode = "plain" THEN Rng(IF q.k = 0 THEN f ELSE Take(f, q.k))
              ELSE IF q.mode = "tail" THEN Rng(LastN(f, q.k))
              ELSE IF q.k = 0 \/ q.k >= Len(f) THEN Rng(f) ELSE {}   \* with ties the top-k set is not unique: judged by TopK
  IN \A r \in need : SegOf(r) \in scanned
====
