---- MODULE Trace_SqlPrune ----
(* Conformance layer: for every logged input the real server's rows must equal the              *)
(* implementation-shaped function of SqlPrune.tla on that input, and the segments it decoded    *)
(* must be exactly the ones the model scans (same pruning decisions, same early exit).          *)
EXTENDS SqlPrune
TraceLog == ndJsonDeserialize("trace.ndjson")
VARIABLE l
tvars == <<vars, l>>
E == TraceLog[l]
SetOf(s) == {s[i] : i \in DOMAIN s}
TInit == Init /\ l = 1 /\ TLCSet(7, 0)
TEval == /\ l <= Len(TraceLog) /\ E.ev = "Eval" /\ l' = l + 1
         /\ segs' = E.segs
         /\ qry' = [part |-> E.q.part, omin |-> E.q.omin, omax |-> E.q.omax, tmin |-> E.q.tmin, tmax |-> E.q.tmax,
                    form |-> E.q.form, mode |-> E.q.mode, k |-> E.q.k]
         /\ phase' = "done"
         /\ Impl'.rows = E.rows /\ Impl'.scanned = SetOf(E.scanned)
Consumed == TLCSet(7, IF TLCGet(7) < l THEN l ELSE TLCGet(7))
TNext == TEval /\ Consumed
TSpec == TInit /\ [][TNext]_tvars
Reached == PrintT(<<"CONF", ToJson([reached |-> TLCGet(7), total |-> Len(TraceLog)])>>)
====
