---- MODULE Trace_SqlPrune ----
(* Conformance layer: for every logged input the real server's rows must equal the              *)
(* implementation-shaped function of SqlPrune.tla on that input, and the segments it decoded    *)
(* must be exactly the ones the model scans (same pruning decisions, same early exit).          *)
(* Two steps per line (load the input into the model's variables, then compare) so that the     *)
(* function is evaluated on unprimed variables (TLC does not cache lazy values under a prime).  *)
EXTENDS SqlPrune
TraceLog == ndJsonDeserialize("trace.ndjson")
VARIABLES l, ld
tvars == <<vars, l, ld>>
SetOf(s) == {s[i] : i \in DOMAIN s}
TInit == Init /\ l = 1 /\ ld = FALSE /\ TLCSet(7, 0)
TLoad == /\ ~ld /\ l <= Len(TraceLog)
         /\ LET e == TraceLog[l] IN
            /\ e.ev = "Eval"
            /\ segs' = e.segs
            /\ qry' = [part |-> e.q.part, omin |-> e.q.omin, omax |-> e.q.omax, tmin |-> e.q.tmin, tmax |-> e.q.tmax,
                       form |-> e.q.form, mode |-> e.q.mode, k |-> e.q.k]
         /\ phase' = "done" /\ ld' = TRUE /\ l' = l
TCheck == /\ ld
          /\ LET e == TraceLog[l]  out == Impl IN out.rows = e.rows /\ out.scanned = SetOf(e.scanned)
          /\ StatsSound   \* the statistics the (real or fake) lister attached bound the segments' content
          /\ ld' = FALSE /\ l' = l + 1 /\ UNCHANGED vars
          /\ TLCSet(7, IF TLCGet(7) < l THEN l ELSE TLCGet(7))
TNext == TLoad \/ TCheck
TSpec == TInit /\ [][TNext]_tvars
Reached == PrintT(<<"CONF", ToJson([reached |-> TLCGet(7), total |-> Len(TraceLog)])>>)
====
