---- MODULE Obs_SqlPrune ----
(* Observation layer: per line the harness logged one input (segments with their records and    *)
(* statistics, query) and what the real server did with it (rows sent, segments decoded).  The   *)
(* predicates are the SqlPruneProps definitions evaluated on these values.                       *)
EXTENDS Integers, Sequences, FiniteSets, TLC, Json
TraceLog == ndJsonDeserialize("trace.ndjson")
Range(s) == {s[i] : i \in DOMAIN s}
VARIABLES l, viol
ovars == <<l, viol>>
P(e) == INSTANCE SqlPruneProps WITH segs <- e.segs, q <- e.q, result <- e.rows, scanned <- Range(e.scanned)
OInit == l = 0 /\ viol = {}
Step ==
  /\ l < Len(TraceLog) /\ l' = l + 1
  /\ LET e == TraceLog[l + 1] IN
     /\ viol' = viol \cup {<<l + 1, n>> : n \in
          (IF P(e)!C36_ResultEqualsDirect THEN {} ELSE {"C36_ResultEqualsDirect"}) \cup
          (IF P(e)!C36_NoMatchingRowSkipped THEN {} ELSE {"C36_NoMatchingRowSkipped"})}
     /\ (l' = Len(TraceLog)) => PrintT(<<"OBS", ToJson([consumed |-> l', viol |-> viol'])>>)
OSpec == OInit /\ [][Step]_ovars
====
