CONSTANTS
 P0Choices = {2,3,5}
 P1Choices = {4}
 TsPatterns = {"inc","mix"}
 StatModes = {"base"}
 TimeChoices = {1,2}
 ModeChoices = {1,4,6}
 DevPruneOnBase = FALSE
 DevTimeMinOnly = FALSE
 DevLimitPerSegment = FALSE
 DevMaxOffsetAcrossPartitions = TRUE
INIT Init
NEXT Next
INVARIANTS C36_ResultEqualsDirect
CHECK_DEADLOCK FALSE
