package discovery

// Verification harness (injected with `go test -overlay`; not part of the repository).
// Runs the REAL s3Lister.ListCompleted (listing, footer check, sort, MaxOffset-from-next-base derivation) over an
// in-memory S3 endpoint (an aws.HTTPClient answering ListObjectsV2 and ranged GetObject) for every layout of the
// input file and writes the segment statistics it produced.

import (
	"bufio"
	"bytes"
	"context"
	"encoding/json"
	"fmt"
	"io"
	"net/http"
	"os"
	"sort"
	"strings"
	"testing"

	"github.com/aws/aws-sdk-go-v2/aws"
	"github.com/aws/aws-sdk-go-v2/service/s3"
)

type dvSeg struct {
	P    int `json:"p"`
	Base int `json:"base"`
	Key  int `json:"key"`
}

type dvLayout struct {
	ID   string  `json:"id"`
	Segs []dvSeg `json:"segs"`
}

// dvS3 is the object store: keys "t/<partition>/segment-<base>.kfs" and ".index"; every .kfs ends with the footer magic.
type dvS3 struct{ keys []string }

func (d *dvS3) Do(r *http.Request) (*http.Response, error) {
	resp := func(code int, ctype string, body []byte) (*http.Response, error) {
		h := http.Header{}
		h.Set("Content-Type", ctype)
		h.Set("Content-Length", fmt.Sprint(len(body)))
		return &http.Response{StatusCode: code, Status: fmt.Sprintf("%d %s", code, http.StatusText(code)), Header: h,
			Body: io.NopCloser(bytes.NewReader(body)), ContentLength: int64(len(body)), Request: r, Proto: "HTTP/1.1", ProtoMajor: 1, ProtoMinor: 1}, nil
	}
	path := strings.TrimPrefix(r.URL.Path, "/bucket")
	if r.URL.Query().Get("list-type") == "2" {
		var sb strings.Builder
		sb.WriteString(`<?xml version="1.0" encoding="UTF-8"?><ListBucketResult xmlns="http://s3.amazonaws.com/doc/2006-03-01/"><Name>bucket</Name><Prefix></Prefix>`)
		sb.WriteString(fmt.Sprintf("<KeyCount>%d</KeyCount><MaxKeys>1000</MaxKeys><IsTruncated>false</IsTruncated>", len(d.keys)))
		for _, k := range d.keys {
			sb.WriteString("<Contents><Key>" + k + "</Key><LastModified>2026-01-01T00:00:00.000Z</LastModified><Size>100</Size><StorageClass>STANDARD</StorageClass></Contents>")
		}
		sb.WriteString("</ListBucketResult>")
		return resp(200, "application/xml", []byte(sb.String()))
	}
	key := strings.TrimPrefix(path, "/")
	for _, k := range d.keys {
		if k == key {
			if strings.HasSuffix(k, ".kfs") {
				return resp(206, "application/octet-stream", []byte(segmentFooterMagic))
			}
			return resp(200, "application/octet-stream", []byte("idx"))
		}
	}
	return resp(404, "application/xml", []byte(`<?xml version="1.0" encoding="UTF-8"?><Error><Code>NoSuchKey</Code><Message>no such key</Message></Error>`))
}

func TestVerifDiscoveryStats(t *testing.T) {
	in, outPath := os.Getenv("VERIF_SCHEDULES"), os.Getenv("VERIF_TRACE_OUT")
	if in == "" || outPath == "" {
		t.Skip("no schedules")
	}
	f, err := os.Open(in)
	if err != nil {
		t.Fatal(err)
	}
	defer f.Close()
	out, err := os.Create(outPath)
	if err != nil {
		t.Fatal(err)
	}
	defer out.Close()
	bw := bufio.NewWriter(out)
	defer bw.Flush()
	sc := bufio.NewScanner(f)
	sc.Buffer(make([]byte, 1<<20), 1<<26)
	n := 0
	for sc.Scan() {
		var lay dvLayout
		if err := json.Unmarshal(sc.Bytes(), &lay); err != nil {
			t.Fatal(err)
		}
		store := &dvS3{}
		keyOf := map[string]int{}
		for _, s := range lay.Segs {
			base := fmt.Sprintf("t/%d/segment-%020d", s.P, s.Base)
			store.keys = append(store.keys, base+".index", base+".kfs")
			keyOf[base+".kfs"] = s.Key
		}
		sort.Strings(store.keys)
		client := s3.New(s3.Options{Region: "us-east-1", HTTPClient: store, Credentials: aws.AnonymousCredentials{},
			BaseEndpoint: aws.String("http://s3.verif.local"), UsePathStyle: true, RetryMaxAttempts: 1})
		lister := &s3Lister{client: client, bucket: "bucket", prefix: ""}
		refs, err := lister.ListCompleted(context.Background())
		if err != nil {
			t.Fatalf("layout %s: %v", lay.ID, err)
		}
		if len(refs) != len(lay.Segs) {
			t.Fatalf("layout %s: listed %d of %d segments", lay.ID, len(refs), len(lay.Segs))
		}
		gi := func(v *int64) int {
			if v == nil {
				return -1
			}
			return int(*v)
		}
		stats := []map[string]any{}
		for _, r := range refs {
			k, ok := keyOf[r.SegmentKey]
			if !ok || r.Topic != "t" {
				t.Fatalf("layout %s: unexpected segment %+v", lay.ID, r)
			}
			stats = append(stats, map[string]any{"key": k, "p": r.Partition, "base": r.BaseOffset, "minO": gi(r.MinOffset), "maxO": gi(r.MaxOffset), "minT": gi(r.MinTimestamp), "maxT": gi(r.MaxTimestamp)})
		}
		b, _ := json.Marshal(map[string]any{"ev": "Stats", "id": lay.ID, "stats": stats})
		bw.Write(b)
		bw.WriteByte('\n')
		n++
	}
	t.Logf("replayed %d schedules", n)
}
