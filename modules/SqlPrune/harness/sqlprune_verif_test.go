package server

// Verification harness (injected with `go test -overlay`; not part of the repository).
// Runs every TLC-enumerated (segment layout, query) pair through the real Server query path
// (handleQuery -> kafsql.Parse -> handleSelect -> filterSegments / segmentMatches* -> decode -> row filters ->
// limit / tail / order) with an in-package fake Lister (segment statistics as given by the model) and a
// fake Decoder (records as given; records which segments were read), and logs the rows the server sent.

import (
	"bufio"
	"bytes"
	"context"
	"encoding/json"
	"fmt"
	"io"
	"log"
	"os"
	"strconv"
	"strings"
	"testing"
	"time"

	"github.com/jackc/pgproto3/v2"

	"github.com/kafscale/platform/addons/processors/sql-processor/internal/config"
	"github.com/kafscale/platform/addons/processors/sql-processor/internal/decoder"
	"github.com/kafscale/platform/addons/processors/sql-processor/internal/discovery"
	kafsql "github.com/kafscale/platform/addons/processors/sql-processor/internal/sql"
)

type spSeg struct {
	P    int     `json:"p"`
	Base int     `json:"base"`
	Key  int     `json:"key"`
	Rows [][]int `json:"rows"` // [offset, abstract ts]
	MinO int     `json:"minO"`
	MaxO int     `json:"maxO"`
	MinT int     `json:"minT"`
	MaxT int     `json:"maxT"`
	Sm   string  `json:"sm"` // statistics mode of the layout (echoed)
}

type spQuery struct {
	Part int    `json:"part"`
	OMin int    `json:"omin"`
	OMax int    `json:"omax"`
	TMin int    `json:"tmin"`
	TMax int    `json:"tmax"`
	Form string `json:"form"` // none | ts (TsMin/TsMax bounds) | last (LAST <duration>)
	Mode string `json:"mode"` // plain | tail | asc | desc
	K    int    `json:"k"`
}

type spInput struct {
	Segs []spSeg `json:"segs"`
	Q    spQuery `json:"q"`
}

const spHour = int64(3600 * 1000)

// abstract time k (1..6) -> milliseconds: k hours after (now - 8h); all records lie between 7h and 2h in the past
func spMs(now0 int64, k int) int64 { return now0 - 8*spHour + int64(k)*spHour }

type spLister struct {
	segs []spSeg
	now0 int64
}

func spPtr(v int64) *int64 { return &v }

func (l *spLister) ListCompleted(ctx context.Context) ([]discovery.SegmentRef, error) {
	out := make([]discovery.SegmentRef, 0, len(l.segs))
	for _, s := range l.segs {
		ref := discovery.SegmentRef{Topic: "t", Partition: int32(s.P), BaseOffset: int64(s.Base),
			SegmentKey: fmt.Sprintf("seg-%d", s.Key), IndexKey: fmt.Sprintf("idx-%d", s.Key), SizeBytes: 10}
		if s.MinO >= 0 {
			ref.MinOffset = spPtr(int64(s.MinO))
		}
		if s.MaxO >= 0 {
			ref.MaxOffset = spPtr(int64(s.MaxO))
		}
		if s.MinT >= 0 {
			ref.MinTimestamp = spPtr(spMs(l.now0, s.MinT))
		}
		if s.MaxT >= 0 {
			ref.MaxTimestamp = spPtr(spMs(l.now0, s.MaxT))
		}
		out = append(out, ref)
	}
	// a topic the query does not name must not contribute rows
	out = append(out, discovery.SegmentRef{Topic: "other", Partition: 0, BaseOffset: 0, SegmentKey: "seg-other", IndexKey: "idx-other"})
	return out, nil
}

type spDecoder struct {
	segs    []spSeg
	now0    int64
	scanned []int // indices (1-based, listing order) of the segments decoded
}

func (d *spDecoder) Decode(ctx context.Context, segmentKey, indexKey string, topic string, partition int32) ([]decoder.Record, error) {
	if segmentKey == "seg-other" {
		return []decoder.Record{{Topic: "other", Partition: 0, Offset: 0, Timestamp: spMs(d.now0, 3)}}, nil
	}
	for i, s := range d.segs {
		if fmt.Sprintf("seg-%d", s.Key) == segmentKey {
			d.scanned = append(d.scanned, i+1)
			out := make([]decoder.Record, 0, len(s.Rows))
			for _, r := range s.Rows {
				out = append(out, decoder.Record{Topic: "t", Partition: int32(s.P), Offset: int64(r[0]), Timestamp: spMs(d.now0, r[1]),
					Key: []byte("k"), Value: []byte(fmt.Sprintf("v%d", r[0]))})
			}
			return out, nil
		}
	}
	return nil, fmt.Errorf("unknown segment %s", segmentKey)
}

func spRender(q spQuery) string {
	sb := strings.Builder{}
	sb.WriteString("select _partition, _offset, _ts from t")
	if q.Mode == "asc" {
		sb.WriteString(" order by _ts") // the parser only accepts ORDER BY before WHERE
	} else if q.Mode == "desc" {
		sb.WriteString(" order by _ts desc")
	}
	conds := []string{}
	if q.Part >= 0 {
		conds = append(conds, fmt.Sprintf("_partition = %d", q.Part))
	}
	if q.OMin >= 0 {
		conds = append(conds, fmt.Sprintf("_offset >= %d", q.OMin))
	}
	if q.OMax >= 0 {
		conds = append(conds, fmt.Sprintf("_offset <= %d", q.OMax))
	}
	if len(conds) > 0 {
		sb.WriteString(" where " + strings.Join(conds, " and "))
	}
	if q.Mode == "tail" {
		sb.WriteString(fmt.Sprintf(" tail %d", q.K))
	} else if q.K > 0 {
		sb.WriteString(fmt.Sprintf(" limit %d", q.K))
	}
	if q.Form == "last" { // window reaching back to half an hour before abstract time tmin
		sb.WriteString(fmt.Sprintf(" last %dm", (8-q.TMin)*60+30))
	}
	return sb.String()
}

func spCheckParsed(q spQuery, p kafsql.Query) error {
	bad := func(f string, a, b any) error { return fmt.Errorf("parser read %s=%v, query means %v", f, a, b) }
	if p.Type != kafsql.QuerySelect || p.Topic != "t" || p.JoinTopic != "" {
		return bad("type/topic", p.Type, "select from t")
	}
	gi := func(v *int64) int {
		if v == nil {
			return -1
		}
		return int(*v)
	}
	pp := -1
	if p.Partition != nil {
		pp = int(*p.Partition)
	}
	if pp != q.Part {
		return bad("partition", pp, q.Part)
	}
	if gi(p.OffsetMin) != q.OMin || gi(p.OffsetMax) != q.OMax {
		return bad("offsets", []int{gi(p.OffsetMin), gi(p.OffsetMax)}, []int{q.OMin, q.OMax})
	}
	if (p.OrderBy == "_ts") != (q.Mode == "asc" || q.Mode == "desc") || p.OrderDesc != (q.Mode == "desc") {
		return bad("order", p.OrderBy, q.Mode)
	}
	wantLimit, wantTail := "", ""
	if q.Mode == "tail" {
		wantTail = strconv.Itoa(q.K)
	} else if q.K > 0 {
		wantLimit = strconv.Itoa(q.K)
	}
	if p.Limit != wantLimit || p.Tail != wantTail {
		return bad("limit/tail", p.Limit+"/"+p.Tail, wantLimit+"/"+wantTail)
	}
	if (p.Last != "") != (q.Form == "last") || p.TsMin != nil || p.TsMax != nil {
		return bad("time", p.Last, q.Form)
	}
	return nil
}

func TestVerifSqlPruneReplay(t *testing.T) {
	in, outPath := os.Getenv("VERIF_SCHEDULES"), os.Getenv("VERIF_TRACE_OUT")
	if in == "" || outPath == "" {
		t.Skip("no schedules")
	}
	f, err := os.Open(in)
	if err != nil {
		t.Fatal(err)
	}
	defer f.Close()
	out, err := os.Create(outPath)
	if err != nil {
		t.Fatal(err)
	}
	defer out.Close()
	bw := bufio.NewWriter(out)
	defer bw.Flush()
	now0 := time.Now().UTC().UnixMilli()
	tsBack := map[string]int{}
	for k := 1; k <= 6; k++ {
		tsBack[formatTimestamp(spMs(now0, k))] = k
	}
	sc := bufio.NewScanner(f)
	sc.Buffer(make([]byte, 1<<20), 1<<26)
	n := 0
	for sc.Scan() {
		var inp spInput
		if err := json.Unmarshal(sc.Bytes(), &inp); err != nil {
			t.Fatal(err)
		}
		if time.Now().UTC().UnixMilli()-now0 > 20*60*1000 {
			t.Fatal("run too long for the LAST windows to stay between two abstract times")
		}
		srv := New(config.Config{Query: config.QueryConfig{DefaultLimit: 1000, MaxUnbounded: 100000}}, log.New(io.Discard, "", 0))
		dec := &spDecoder{segs: inp.Segs, now0: now0}
		srv.lister, srv.listerInit = &spLister{segs: inp.Segs, now0: now0}, true
		srv.decoder, srv.decoderInit = dec, true
		text := spRender(inp.Q)
		parsed, err := kafsql.Parse(text)
		if err != nil {
			t.Fatalf("input %d: %q does not parse: %v", n, text, err)
		}
		if err := spCheckParsed(inp.Q, parsed); err != nil {
			t.Fatalf("input %d: %q: %v", n, text, err)
		}
		var buf bytes.Buffer
		backend := pgproto3.NewBackend(pgproto3.NewChunkReader(strings.NewReader("")), &buf)
		if inp.Q.Form == "ts" { // the grammar has no usable _ts comparison inside WHERE: bound the parsed query directly
			if inp.Q.TMin >= 0 {
				parsed.TsMin = spPtr(spMs(now0, inp.Q.TMin))
			}
			if inp.Q.TMax >= 0 {
				parsed.TsMax = spPtr(spMs(now0, inp.Q.TMax))
			}
			_, err = srv.executeQuery(context.Background(), backend, parsed)
		} else {
			err = srv.handleQuery(context.Background(), backend, text)
		}
		if err != nil {
			t.Fatalf("input %d: %q failed: %v", n, text, err)
		}
		rows := [][]int{}
		fe := pgproto3.NewFrontend(pgproto3.NewChunkReader(&buf), io.Discard)
		complete := false
		for {
			msg, err := fe.Receive()
			if err != nil {
				break
			}
			switch m := msg.(type) {
			case *pgproto3.DataRow:
				if len(m.Values) != 3 {
					t.Fatalf("input %d: row with %d columns", n, len(m.Values))
				}
				p, e1 := strconv.Atoi(string(m.Values[0]))
				o, e2 := strconv.Atoi(string(m.Values[1]))
				k, ok := tsBack[string(m.Values[2])]
				if e1 != nil || e2 != nil {
					t.Fatalf("input %d: unreadable row %q", n, m.Values)
				}
				if !ok {
					k = -1 // a timestamp no record has
				}
				rows = append(rows, []int{p, o, k})
			case *pgproto3.CommandComplete:
				complete = true
			}
		}
		if !complete {
			t.Fatalf("input %d: no CommandComplete", n)
		}
		scanned := dec.scanned
		if scanned == nil {
			scanned = []int{}
		}
		b, _ := json.Marshal(map[string]any{"ev": "Eval", "n": n, "segs": inp.Segs, "q": inp.Q, "rows": rows, "scanned": scanned, "sql": text})
		bw.Write(b)
		bw.WriteByte('\n')
		n++
	}
	t.Logf("replayed %d schedules", n)
}
