CONSTANTS
 P0Choices = {2,3,5}
 P1Choices = {1,3,4}
 TsPatterns = {"inc","mix"}
 StatModes = {"base","tix"}
 TimeChoices = {1,2}
 ModeChoices = {1,2,3}
 DevPruneOnBase = FALSE
 DevTimeMinOnly = FALSE
 DevLimitPerSegment = TRUE
 DevMaxOffsetAcrossPartitions = FALSE
INIT Init
NEXT Next
INVARIANTS C36_ResultEqualsDirect
CHECK_DEADLOCK FALSE
