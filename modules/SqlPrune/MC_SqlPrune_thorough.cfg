CONSTANTS
 P0Choices = {1,2,3,4,5}
 P1Choices = {1,2,3,4}
 TsPatterns = {"inc","dec","mix"}
 StatModes = {"none","base","tix","minonly","maxonly"}
 TimeChoices = {1,2,3,4,5}
 ModeChoices = {1,2,3,4,5,6,7,8,9}
 DevPruneOnBase = FALSE
 DevTimeMinOnly = FALSE
 DevLimitPerSegment = FALSE
 DevMaxOffsetAcrossPartitions = FALSE
INIT Init
NEXT Next
INVARIANTS C36_ResultEqualsDirect C36_NoMatchingRowSkipped StatsSound
CHECK_DEADLOCK FALSE
