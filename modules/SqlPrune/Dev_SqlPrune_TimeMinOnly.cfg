CONSTANTS
 P0Choices = {2,3,5}
 P1Choices = {1,3,4}
 TsPatterns = {"inc","mix"}
 StatModes = {"base","tix"}
 TimeChoices = {1,2,4}
 ModeChoices = {1,4,6}
 DevPruneOnBase = FALSE
 DevTimeMinOnly = TRUE
 DevLimitPerSegment = FALSE
 DevMaxOffsetAcrossPartitions = FALSE
INIT Init
NEXT Next
INVARIANTS C36_ResultEqualsDirect
CHECK_DEADLOCK FALSE
