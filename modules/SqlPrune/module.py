"""SqlPrune.tla — C36 (sql-processor server: single-topic SELECT = direct filtering; segment pruning sound)."""
import copy, json, os, random, re
from lib import tlc as T, layers, gorun
from lib.common import Broken, Violation, verdict, save_replay

PROPS = {
    "C36": {
        "text": "SqlPrune.tla transcribes the single-topic SELECT path of the SQL server (filterSegments with segmentMatchesOffsets / segmentMatchesTimestamps on the listed statistics, scan in listing order, per-record offset/time filters, LIMIT early exit, TAIL, ORDER BY _ts [DESC]) and the way discovery derives statistics (MinOffset = base, MaxOffset = next base - 1, time index min/max). TLC enumerates a bounded domain of segment layouts (1-3 segments per partition, two partitions, gaps, non-monotone timestamps, five statistics-availability modes) x queries (partition, offset range, time range / LAST, limit / tail / ordering) and proves for every pair that the pruned evaluation equals direct filtering of all records and that no answer row lives in a skipped segment. TLC-sampled (seeded) inputs of the same domain plus counterexamples of named wrong pruning rules are run through the REAL server query path (handleQuery / handleSelect with in-package fake lister and decoder); TLC evaluates the property predicate on the rows actually returned (layer O) and compares rows and decoded segments with the model (layer C).",
        "note": "Function-level. Trusted: TLC, the fake Lister/Decoder, the rendering of abstract queries to SQL text (each text is re-parsed with the server's parser and compared with the abstract query), abstract times mapped to wall-clock hours before the test start (LAST windows end half an hour before an abstract instant; the run aborts after 20 min). Explicit _ts bounds are set on the parsed query because the grammar rejects _ts inside WHERE. ORDER BY with equal timestamps is judged up to permutation of ties. Out of scope: joins, aggregates, LIMIT 0 (treated by the server as 'default limit'), the result cache (off), the time index / manifest readers (for layouts in mode 'base' the statistics come from the REAL s3Lister run over an in-memory S3 listing; in the other four modes the model's derivation is used).",
        "technique": "TLA+ model (SqlPrune.tla) + TLC exhaustive check over the bounded input domain + TLC-sampled inputs run through the real query path + TLC evaluation of the property on the real rows (observation layer) and comparison with the model (conformance layer)",
    }
}
DEVIATIONS = {n: "C36_ResultEqualsDirect" for n in ("PruneOnBase", "TimeMinOnly", "LimitPerSegment", "MaxOffsetAcrossPartitions")}
PKG = "addons/processors/sql-processor"


def harness(ctx, inputs, tag):
    sp = os.path.join(ctx.scratch, "sched-%s.ndjson" % tag)
    tp = os.path.join(ctx.scratch, "trace-%s.ndjson" % tag)
    gorun.write_ndjson(sp, [{"segs": s["segs"], "q": s["q"]} for s in inputs])
    rc, out = gorun.go_test(ctx, PKG, "./internal/server/", {PKG + "/internal/server/zz_verif_sqlprune_test.go": os.path.join(DIR, "harness", "sqlprune_verif_test.go")},
                            "^TestVerifSqlPruneReplay$", env={"VERIF_SCHEDULES": sp, "VERIF_TRACE_OUT": tp}, timeout=1500)
    if rc != 0 or "replayed %d schedules" % len(inputs) not in out:
        raise Broken("sqlprune harness failed:\n" + out[-3000:])
    return gorun.read_ndjson(tp)


def real_lister_stats(ctx, inputs):
    """Layouts in statistics mode "base" (= what s3Lister derives without a time index): run the REAL discovery lister over an
    in-memory S3 listing of the same segments and use the statistics IT attached instead of the model's."""
    lays = {}
    for s in inputs:
        if s["segs"] and s["segs"][0].get("sm") == "base":
            lid = json.dumps([[g["p"], g["base"], g["key"]] for g in s["segs"]])
            lays.setdefault(lid, {"id": lid, "segs": [{"p": g["p"], "base": g["base"], "key": g["key"]} for g in s["segs"]]})
    if not lays:
        return 0, 0
    sp = os.path.join(ctx.scratch, "layouts.ndjson")
    tp = os.path.join(ctx.scratch, "stats.ndjson")
    gorun.write_ndjson(sp, list(lays.values()))
    rc, out = gorun.go_test(ctx, PKG, "./internal/discovery/", {PKG + "/internal/discovery/zz_verif_discovery_test.go": os.path.join(DIR, "harness", "discovery_verif_test.go")},
                            "^TestVerifDiscoveryStats$", env={"VERIF_SCHEDULES": sp, "VERIF_TRACE_OUT": tp}, timeout=1500)
    if rc != 0 or "replayed %d schedules" % len(lays) not in out:
        raise Broken("discovery harness failed:\n" + out[-3000:])
    stats = {r["id"]: {g["key"]: g for g in r["stats"]} for r in gorun.read_ndjson(tp)}
    n = 0
    for s in inputs:
        if s["segs"] and s["segs"][0].get("sm") == "base":
            lid = json.dumps([[g["p"], g["base"], g["key"]] for g in s["segs"]])
            for g in s["segs"]:
                st = stats[lid][g["key"]]
                if st["p"] != g["p"] or st["base"] != g["base"]:
                    raise Broken("real lister returned segment %r for %r" % (st, g))
                g["minO"], g["maxO"], g["minT"], g["maxT"] = st["minO"], st["maxO"], st["minT"], st["maxT"]
            n += 1
    return len(lays), n


def qclass(q):
    flt = [n for n, f in (("part", q["part"] >= 0), ("offset", q["omin"] >= 0 or q["omax"] >= 0), ("time" if q["form"] != "last" else "last", q["tmin"] >= 0 or q["tmax"] >= 0)) if f]
    mode = q["mode"] + (":limit" if q["k"] > 0 and q["mode"] != "tail" else "")
    return "%s;filters=%s" % (mode, "+".join(flt) or "none")


def stat_class(segs):
    s = segs[0]
    return "offstats=%s%s;timestats=%s%s" % ("min" if s["minO"] >= 0 else "", "max" if any(x["maxO"] >= 0 for x in segs) else "", "min" if s["minT"] >= 0 else "", "max" if s["maxT"] >= 0 else "")


def check(ctx, prop):
    quick = ctx.quick()
    d = T.stage(ctx, DIR, "mc")
    mc = T.model_check(ctx, d, "MC_SqlPrune.tla", "MC_SqlPrune_%s.cfg" % ctx.tier, coverage=not quick, timeout=2400, workers=8, deadlock_off=True)
    ctx.log("model: %d distinct states (= inputs + layouts), depth %d" % (mc.distinct, mc.depth))
    inputs = []
    for dev, inv in sorted(DEVIATIONS.items()):
        path = os.path.join(d, "ce-Dev_%s.json" % dev)
        r = T.tlc(ctx, d, "MC_SqlPrune.tla", "Dev_SqlPrune_%s.cfg" % dev, dump_trace=path, timeout=600, workers=4, deadlock_off=True)
        if inv not in r.violated or not os.path.exists(path):
            raise Broken("deviation %s no longer violates %s in the model (vacuous deviation)" % (dev, inv))
        st = json.load(open(path))["counterexample"]["state"][-1][1]
        inputs.append({"segs": st["segs"], "q": st["qry"], "label": "dev:" + dev})
    ndev = len(inputs)
    # TLC -simulate evaluates the invariants (and so prints the input) for every successor of every visited state:
    # one simulated behaviour = one seeded-random layout with ALL 1215 queries; a seeded sample of those pairs is replayed
    nlay, nsample = (10, 2500) if quick else (80, 20000)
    r = T.tlc(ctx, d, "MC_SqlPrune.tla", "Sim_SqlPrune.cfg", workers=1, simulate="num=%d" % nlay, depth=3, seed=ctx.seed, deadlock_off=True, timeout=1500)
    if r.violated:
        raise Broken("simulation reported a violation:\n" + r.out[-2000:])
    seen, pool = set(), []
    for h in r.prints.get("SCHED", []):
        k = json.dumps(h, sort_keys=True)
        if k not in seen:
            seen.add(k)
            pool.append({"segs": h["segs"], "q": h["q"], "label": "sim"})
    random.Random(ctx.seed).shuffle(pool)
    inputs += pool[:nsample]
    if len(inputs) < ndev + 100:
        raise Broken("simulation produced only %d inputs" % (len(inputs) - ndev))
    ctx.log("%d inputs (%d deviation counterexamples, %d sampled by TLC)" % (len(inputs), ndev, len(inputs) - ndev))
    nlay_real, n_real = real_lister_stats(ctx, inputs)
    ctx.log("%d inputs carry statistics produced by the real discovery lister (%d distinct listings)" % (n_real, nlay_real))
    if n_real == 0:
        raise Broken("no input went through the real discovery lister")
    rows = harness(ctx, inputs, "main")
    if len(rows) != len(inputs):
        raise Broken("harness recorded %d evaluations for %d inputs" % (len(rows), len(inputs)))
    consumed, viol, _ = layers.observe(ctx, DIR, "Obs_SqlPrune.tla", "Obs_SqlPrune.cfg", rows, timeout=1800)
    ctx.log("layer O: %d lines, %d violating" % (consumed, len(viol)))
    violations, first = [], set()
    for line, inv in sorted(viol):
        ev = rows[line - 1]
        sig = "%s@%s;%s" % (inv, qclass(ev["q"]), stat_class(ev["segs"]))
        if sig in first:
            continue
        first.add(sig)
        path = save_replay(prop, "input-%s.json" % re.sub(r"\W+", "_", sig)[:150], {"input": {"segs": ev["segs"], "q": ev["q"]}, "observed": ev, "label": inputs[line - 1]["label"]})
        violations.append(Violation(prop, sig, "%s false on the real server: %r returned rows %s (segments decoded %s) [input %s, replay %s]" % (inv, ev["sql"], ev["rows"], ev["scanned"], inputs[line - 1]["label"], path), {"input": {"segs": ev["segs"], "q": ev["q"]}, "event": ev}))
    reached, total, _ = layers.conform(ctx, DIR, "Trace_SqlPrune.tla", "Trace_SqlPrune.cfg", rows, timeout=1800)
    conf = {"accepted": len(rows) if reached == total else reached, "rejected": 0 if reached == total else 1,
            "first_rejection": None if reached == total else {"line": {k: v for k, v in rows[reached].items()} if reached < len(rows) else None}}
    st = self_test(ctx, rows)
    level, drift = "model_checking", reached != total
    if drift and not violations:
        level = "exploration"
        ctx.log("DRIFT: conformance layer rejected an evaluation although C36 held: " + json.dumps(conf["first_rejection"]))
    pruned = sum(1 for e in rows if len(e["scanned"]) < sum(1 for s in e["segs"] if e["q"]["part"] in (-1, s["p"])))
    nontrivial = sum(1 for e in rows if e["rows"] and (e["q"]["omin"] >= 0 or e["q"]["omax"] >= 0 or e["q"]["tmin"] >= 0 or e["q"]["tmax"] >= 0))
    cov = {
        "states": mc.distinct, "transitions": mc.generated, "depth": mc.depth, "exhaustive": True, "model_config": "MC_SqlPrune_%s.cfg" % ctx.tier,
        "traces_validated_against_impl": len(rows), "trace_events": len(rows),
        "evaluations": len(rows), "distinct_nontrivial": nontrivial, "evaluations_with_a_segment_skipped": pruned,
        "query_classes": len({qclass(e["q"]) for e in rows}), "inputs_with_statistics_from_real_lister": n_real, "listings_through_real_lister": nlay_real,
        "rule": "inputs = TLC counterexamples of the named wrong pruning rules + a seeded sample of the (layout, query) pairs printed by TLC -simulate (seeded random layouts of the thorough domain of 300 layouts, each with all 1215 queries); non-trivial = has an offset or time filter and returns at least one row; 'segment skipped' = fewer segments decoded than the partition filter alone would leave",
        "deviation_schedules": sorted(DEVIATIONS), "conformance": ("drift" if drift else "accepted"), "conformance_detail": conf,
        "binding_self_test": st, "samples": [{"q": rows[0]["q"], "sql": rows[0]["sql"], "rows": rows[0]["rows"], "scanned": rows[0]["scanned"]}, {"q": rows[ndev]["q"], "sql": rows[ndev]["sql"], "rows": rows[ndev]["rows"], "scanned": rows[ndev]["scanned"], "segs": rows[ndev]["segs"]}],
    }
    if pruned == 0 or nontrivial == 0:
        raise Broken("vacuous run: no evaluation skipped a segment / returned filtered rows")
    if not quick:
        cov["action_coverage"] = {k: v[1] for k, v in mc.action_coverage().items()}
    return verdict(ctx, violations, level, cov, [
        "segment statistics: for layouts in mode base they are produced by the real discovery s3Lister.ListCompleted over an in-memory S3 endpoint (listing + footer check) and handed to the server through a fake Lister; in the other modes they are the ones the model derives; the decoder is a fake",
        "abstract instants 1..6 are mapped to whole hours before the start of the test; LAST windows end between two instants",
        "explicit time bounds are set on the parsed query (the grammar rejects _ts comparisons inside WHERE); all other filters go through the SQL text and the server's parser",
    ])


def self_test(ctx, rows):
    """Layer O must flag a dropped row; layer C must reject a changed set of decoded segments."""
    i = next(i for i, e in enumerate(rows) if e["q"]["mode"] == "plain" and len(e["rows"]) >= 2)
    bad = copy.deepcopy(rows[i])
    bad["rows"] = bad["rows"][1:]
    _, viol, _ = layers.observe(ctx, DIR, "Obs_SqlPrune.tla", "Obs_SqlPrune.cfg", [bad], name="selfO")
    if not any(v[1] == "C36_ResultEqualsDirect" for v in viol):
        raise Broken("binding self-test: observation layer did not flag a dropped row")
    bad = copy.deepcopy(rows[i])
    bad["scanned"] = bad["scanned"][:-1]
    _, viol, _ = layers.observe(ctx, DIR, "Obs_SqlPrune.tla", "Obs_SqlPrune.cfg", [bad], name="selfO2")
    if not any(v[1] == "C36_NoMatchingRowSkipped" for v in viol):
        raise Broken("binding self-test: observation layer did not flag an answer row in an undecoded segment")
    reached, total, _ = layers.conform(ctx, DIR, "Trace_SqlPrune.tla", "Trace_SqlPrune.cfg", [bad], name="selfC")
    if reached == total:
        raise Broken("binding self-test: conformance layer accepted a changed set of decoded segments")
    return {"observation_layer_flags_corrupted_field": True, "observation_layer_flags_skipped_segment": True, "conformance_layer_rejects_corrupted_state": True}


def replay(ctx, prop, path):
    obj = json.load(open(path))
    inp = obj.get("input") or obj.get("detail", {}).get("input")
    rows = harness(ctx, [inp], "replay")
    _, viol, _ = layers.observe(ctx, DIR, "Obs_SqlPrune.tla", "Obs_SqlPrune.cfg", rows)
    for r in rows:
        print(json.dumps({k: r[k] for k in ("sql", "q", "rows", "scanned")}, sort_keys=True))
    for line, inv in viol:
        print("VIOLATION property=%s replay=%s" % (prop, path))
        print("  %s false at line %d" % (inv, line))
    return 1 if viol else 0
