---- MODULE SqlPrune ----
(* addons/processors/sql-processor/internal/server/server.go: handleSelect for a single-topic     *)
(* SELECT: filterSegments (partition, segmentMatchesOffsets, segmentMatchesTimestamps on the       *)
(* listed statistics) -> decode the candidates in listing order -> per record time/offset filter  *)
(* -> LIMIT (early exit) | TAIL n | ORDER BY _ts [DESC] + LIMIT.  Statistics are derived as        *)
(* internal/discovery/discovery.go derives them: MinOffset = base offset, MaxOffset = next        *)
(* completed segment's base - 1 (absent for the last one unless a time index supplies it),        *)
(* Min/MaxTimestamp from the time index.  Function-level model: the actions enumerate the input   *)
(* domain (layout, query); the theorems are invariants over that domain.                          *)
EXTENDS Integers, Sequences, FiniteSets, TLC, Json
CONSTANTS P0Choices, P1Choices, TsPatterns, StatModes,   \* sub-domains of the layout menus
          TimeChoices, ModeChoices,                      \* sub-domains of the query menus
          DevPruneOnBase,     \* deviation: offset pruning treats the segment's base as its LAST offset
          DevTimeMinOnly,     \* deviation: time pruning compares the window with MinTimestamp only
          DevLimitPerSegment, \* deviation: LIMIT counted per segment instead of per query
          DevMaxOffsetAcrossPartitions  \* deviation (lister): a partition's newest segment gets MaxOffset from the NEXT partition's oldest base

Parts == {-1, 0, 1}
OMins == {-1, 1, 3}
OMaxs == {-1, 0, 2}
Seg(b, o) == [base |-> b, offs |-> o]
P0Menu == << <<Seg(0, {0, 1, 2})>>,
             <<Seg(0, {0, 1}), Seg(2, {2, 3})>>,
             <<Seg(0, {0}), Seg(1, {1, 2}), Seg(4, {4})>>,
             <<Seg(1, {1, 2}), Seg(3, {3})>>,
             <<Seg(0, {0, 2}), Seg(4, {5})>> >>
P1Menu == << <<>>, <<Seg(0, {0, 1})>>, <<Seg(0, {0}), Seg(1, {1, 3})>>, <<Seg(2, {2, 3})>> >>
Ts(pat, p, o) == CASE pat = "inc" -> o + 1 [] pat = "dec" -> 6 - o [] OTHER -> ((o * 3 + p) % 5) + 1
TimeMenu == << [tmin |-> -1, tmax |-> -1, form |-> "none"], [tmin |-> 3, tmax |-> -1, form |-> "ts"],
               [tmin |-> -1, tmax |-> 3, form |-> "ts"], [tmin |-> 2, tmax |-> 4, form |-> "ts"],
               [tmin |-> 3, tmax |-> -1, form |-> "last"] >>
ModeMenu == << [mode |-> "plain", k |-> 0], [mode |-> "plain", k |-> 1], [mode |-> "plain", k |-> 2],
               [mode |-> "tail", k |-> 1], [mode |-> "tail", k |-> 2],
               [mode |-> "asc", k |-> 0], [mode |-> "desc", k |-> 0], [mode |-> "asc", k |-> 2], [mode |-> "desc", k |-> 1] >>

MinS(S) == CHOOSE x \in S : \A y \in S : x <= y
MaxS(S) == CHOOSE x \in S : \A y \in S : x >= y
RECURSIVE SortedSeq(_)
SortedSeq(S) == IF S = {} THEN <<>> ELSE <<MinS(S)>> \o SortedSeq(S \ {MinS(S)})
\* one partition's segments with the statistics the lister attaches in mode sm
PartSegs(p, menu, pat, sm) ==
  [i \in 1..Len(menu) |->
     LET s == menu[i]
         tss == {Ts(pat, p, o) : o \in s.offs}
         last == i = Len(menu)
     IN [p |-> p, base |-> s.base, key |-> i + 10 * p, sm |-> sm,
         rows |-> [j \in 1..Cardinality(s.offs) |-> <<SortedSeq(s.offs)[j], Ts(pat, p, SortedSeq(s.offs)[j])>>],
         minO |-> IF sm \in {"base", "tix", "minonly"} THEN s.base ELSE -1,
         maxO |-> IF sm \in {"base", "tix", "maxonly"} /\ ~last THEN menu[i + 1].base - 1
                  ELSE IF sm \in {"tix", "maxonly"} /\ last THEN MaxS(s.offs) ELSE -1,
         minT |-> IF sm \in {"tix", "minonly"} THEN MinS(tss) ELSE -1,
         maxT |-> IF sm \in {"tix", "maxonly"} THEN MaxS(tss) ELSE -1]]
Layout(l) ==
  LET a == PartSegs(0, P0Menu[l.p0], l.pat, l.sm)
      b == PartSegs(1, P1Menu[l.p1], l.pat, l.sm)
      leak == DevMaxOffsetAcrossPartitions /\ l.sm \in {"base", "tix", "maxonly"} /\ Len(b) > 0 /\ b[1].base > 0
      a2 == IF leak THEN [a EXCEPT ![Len(a)].maxO = b[1].base - 1] ELSE a
  IN a2 \o b

VARIABLES phase, segs, qry
vars == <<phase, segs, qry>>
NoQ == [part |-> -1, omin |-> -1, omax |-> -1, tmin |-> -1, tmax |-> -1, form |-> "none", mode |-> "plain", k |-> 0]
Init == phase = "start" /\ segs = <<>> /\ qry = NoQ
Pick == /\ phase = "start" /\ phase' = "layout" /\ UNCHANGED qry
        /\ \E a \in P0Choices, b \in P1Choices, c \in TsPatterns, d \in StatModes : segs' = Layout([p0 |-> a, p1 |-> b, pat |-> c, sm |-> d])
Ask == /\ phase = "layout" /\ phase' = "done" /\ UNCHANGED segs
       /\ \E a \in Parts, b \in OMins, c \in OMaxs, t \in TimeChoices, m \in ModeChoices :
            qry' = [part |-> a, omin |-> b, omax |-> c, tmin |-> TimeMenu[t].tmin, tmax |-> TimeMenu[t].tmax,
                    form |-> TimeMenu[t].form, mode |-> ModeMenu[m].mode, k |-> ModeMenu[m].k]
Next == Pick \/ Ask
Spec == Init /\ [][Next]_vars

------------------------------------------------------------------------------------------------
\* the implementation-shaped function
q == qry
MatchO(s) == IF q.omin = -1 /\ q.omax = -1 THEN TRUE
             ELSE IF s.minO = -1 /\ s.maxO = -1 THEN TRUE
             ELSE IF DevPruneOnBase THEN ~(q.omin # -1 /\ s.minO # -1 /\ s.minO < q.omin) /\ ~(q.omax # -1 /\ s.minO # -1 /\ s.minO > q.omax)
             ELSE ~(q.omin # -1 /\ s.maxO # -1 /\ s.maxO < q.omin) /\ ~(q.omax # -1 /\ s.minO # -1 /\ s.minO > q.omax)
MatchT(s) == IF q.tmin = -1 /\ q.tmax = -1 THEN TRUE
             ELSE IF s.minT = -1 /\ s.maxT = -1 THEN TRUE
             ELSE IF DevTimeMinOnly THEN ~(q.tmin # -1 /\ s.minT # -1 /\ s.minT < q.tmin) /\ ~(q.tmax # -1 /\ s.minT # -1 /\ s.minT > q.tmax)
             ELSE ~(q.tmin # -1 /\ s.maxT # -1 /\ s.maxT < q.tmin) /\ ~(q.tmax # -1 /\ s.minT # -1 /\ s.minT > q.tmax)
IsCand(i) == (q.part = -1 \/ segs[i].p = q.part) /\ MatchO(segs[i]) /\ MatchT(segs[i])
Cands == SelectSeq([i \in 1..Len(segs) |-> i], IsCand)          \* filterSegments
RowOk(r) == /\ (q.tmin = -1 \/ r[3] >= q.tmin) /\ (q.tmax = -1 \/ r[3] <= q.tmax)
            /\ (q.omin = -1 \/ r[2] >= q.omin) /\ (q.omax = -1 \/ r[2] <= q.omax)
RowsOf(i) == SelectSeq([j \in 1..Len(segs[i].rows) |-> <<segs[i].p, segs[i].rows[j][1], segs[i].rows[j][2]>>], RowOk)
Lim == IF q.k = 0 THEN 1000 ELSE q.k
MinI(a, b) == IF a < b THEN a ELSE b
\* plain scan over the candidate list cs with early exit: returns [rows, scanned]
RECURSIVE Scan(_, _, _, _)
Scan(cs, c, acc, seen) ==
  IF c > Len(cs) \/ Len(acc) >= Lim THEN [rows |-> acc, scanned |-> seen]
  ELSE LET r == RowsOf(cs[c])
           take == IF DevLimitPerSegment THEN SubSeq(r, 1, MinI(Lim, Len(r))) ELSE SubSeq(r, 1, MinI(Lim - Len(acc), Len(r)))
       IN Scan(cs, c + 1, acc \o take, seen \cup {cs[c]})
RECURSIVE Gather(_, _)
Gather(cs, c) == IF c > Len(cs) THEN <<>> ELSE RowsOf(cs[c]) \o Gather(cs, c + 1)
\* stable insertion sort by timestamp (sort.Slice on < 12 elements is an insertion sort)
Less(a, b) == IF q.mode = "desc" THEN a[3] > b[3] ELSE a[3] < b[3]
RECURSIVE Ins(_, _)
Ins(s, x) == IF s = <<>> THEN <<x>> ELSE IF Less(x, s[Len(s)]) THEN Ins(SubSeq(s, 1, Len(s) - 1), x) \o <<s[Len(s)]>> ELSE s \o <<x>>
RECURSIVE Sort(_)
Sort(s) == IF s = <<>> THEN <<>> ELSE Ins(Sort(SubSeq(s, 1, Len(s) - 1)), s[Len(s)])
\* [rows, scanned] of the implementation-shaped evaluation
Impl ==
  LET cs == Cands IN
  IF q.mode = "plain" THEN Scan(cs, 1, <<>>, {})
  ELSE IF q.mode = "tail" THEN LET g == Gather(cs, 1) IN [rows |-> SubSeq(g, Len(g) - MinI(q.k, Len(g)) + 1, Len(g)), scanned |-> {cs[c] : c \in 1..Len(cs)}]
  ELSE LET g == Sort(Gather(cs, 1)) IN [rows |-> SubSeq(g, 1, MinI(Lim, Len(g))), scanned |-> {cs[c] : c \in 1..Len(cs)}]
ImplResult == Impl.rows
ImplScanned == Impl.scanned

P(out) == INSTANCE SqlPruneProps WITH segs <- segs, q <- q, result <- out.rows, scanned <- out.scanned
C36_ResultEqualsDirect == phase = "done" => P(Impl)!C36_ResultEqualsDirect
C36_NoMatchingRowSkipped == phase = "done" => P(Impl)!C36_NoMatchingRowSkipped
\* statistics attached by the lister are sound bounds of the segment's content (internal lemma the pruning relies on)
StatsSound == phase # "start" =>
  \A i \in 1..Len(segs) : \A j \in 1..Len(segs[i].rows) :
     LET o == segs[i].rows[j][1]  t == segs[i].rows[j][2] IN
     /\ (segs[i].minO # -1 => segs[i].minO <= o) /\ (segs[i].maxO # -1 => o <= segs[i].maxO)
     /\ (segs[i].minT # -1 => segs[i].minT <= t) /\ (segs[i].maxT # -1 => t <= segs[i].maxT)
Sched == [segs |-> segs, q |-> q]
EmitSched == phase = "done" => PrintT(<<"SCHED", ToJson(Sched)>>)
====
