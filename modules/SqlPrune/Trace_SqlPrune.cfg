CONSTANTS
 P0Choices = {1}
 P1Choices = {1}
 TsPatterns = {"inc"}
 StatModes = {"none"}
 TimeChoices = {1}
 ModeChoices = {1}
 DevPruneOnBase = FALSE
 DevTimeMinOnly = FALSE
 DevLimitPerSegment = FALSE
 DevMaxOffsetAcrossPartitions = FALSE
INIT TInit
NEXT TNext
POSTCONDITION Reached
CHECK_DEADLOCK FALSE
