CONSTANTS
 P0Choices = {2,3,5}
 P1Choices = {1,3,4}
 TsPatterns = {"inc","mix"}
 StatModes = {"none","tix","minonly"}
 TimeChoices = {1,2,4,5}
 ModeChoices = {1,3,4,7,9}
 DevPruneOnBase = FALSE
 DevTimeMinOnly = FALSE
 DevLimitPerSegment = FALSE
 DevMaxOffsetAcrossPartitions = FALSE
INIT Init
NEXT Next
INVARIANTS C36_ResultEqualsDirect C36_NoMatchingRowSkipped StatsSound
CHECK_DEADLOCK FALSE
