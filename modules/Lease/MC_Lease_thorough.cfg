CONSTANTS
 Brokers = {"b1","b2","b3"}
 Res = {"r1"}
 Routers = {}
 Vals = {}
 MaxLeases = 3
 MaxAcq = 4
 MaxExpire = 1
 MaxRelease = 1
 MaxRelAll = 1
 MaxCrash = 1
 MaxBlip = 0
 MaxAdmin = 0
 MaxClose = 0
 MaxInval = 0
 MaxCompact = 0
 MaxBatch = 1
 FixRelease = TRUE
 DevReleaseRace = FALSE
 DevPutIfOwnerOther = FALSE
 DevReacqBlind = FALSE
 DevDropSameRev = FALSE
 DevNoReload = FALSE
 DevLoadMerge = FALSE
 DevPutsFirst = FALSE
 FixRev = TRUE
 KeepHist = TRUE
INIT Init
NEXT Next
INVARIANTS C18_AtMostOneLive C18_ReleaseSafe LiveOwnsKey OwnedHasSession KeyLeaseAlive
VIEW View
CHECK_DEADLOCK FALSE
