---- MODULE Trace_Lease ----
(* Conformance layer: every recorded step of the real LeaseManagers / routers must be a step of Lease.tla   *)
(* (same action, same arguments) and the logged projection of the real state must equal the model's          *)
(* post-state.  After an `Abort` line (a schedule step that could not be imposed on the real code) the rest   *)
(* of that schedule is skipped: it is still evaluated by the observation layer.                               *)
EXTENDS Lease
TraceLog == ndJsonDeserialize("trace.ndjson")
VARIABLES l, skipping
tvars == <<vars, l, skipping>>
E == TraceLog[l]
Range(s) == {s[i] : i \in DOMAIN s}
Cur(ev) == l <= Len(TraceLog) /\ ~skipping /\ E.ev = ev /\ l' = l + 1 /\ UNCHANGED skipping
Q == CHOOSE q \in Routers : TRUE

LSt(st) == /\ \A b \in Brokers : owned'[b] = Range(st.owned[b]) /\ sess'[b] = st.sess[b] /\ closed'[b] = st.closed[b]
           /\ alive' = Range(st.alive)
           /\ \A r \in Res : key'[r].owner = st.key[r].owner /\ key'[r].lease = st.key[r].lease
RSt(st) == /\ \A k \in Res : table'[Q][k] = st.table[k] /\ key'[k].owner = st.owners[k]
           /\ st.table["_extra"] = ""
           /\ rev' = st.rev
           /\ rst'[Q] = st.state
           /\ inval'[Q] = Range(st.skip)
           /\ st.pending = (IF rst'[Q] = "watching" THEN rev' - from'[Q] + 1 ELSE 0)
           /\ st.compacted = compacted'

TInit == Init /\ l = 1 /\ skipping = FALSE /\ TLCSet(7, 0)
TReset == /\ l <= Len(TraceLog) /\ E.ev = "Reset" /\ l' = l + 1 /\ skipping' = FALSE
          /\ key' = [r \in Res |-> Absent] /\ alive' = {} /\ nextL' = 1
          /\ sess' = [b \in Brokers |-> 0] /\ sdone' = {} /\ mon' = [b \in Brokers |-> {}]
          /\ owned' = [b \in Brokers |-> {}] /\ closed' = [b \in Brokers |-> FALSE]
          /\ apc' = [b \in Brokers |-> [r \in Res |-> "idle"]] /\ asess' = [b \in Brokers |-> [r \in Res |-> 0]]
          /\ ares' = [b \in Brokers |-> [r \in Res |-> "none"]]
          /\ rpc' = [b \in Brokers |-> [r \in Res |-> "idle"]] /\ rsess' = [b \in Brokers |-> [r \in Res |-> 0]]
          /\ rdel' = NoDel /\ cnt' = Cnt0 /\ rev' = 0 /\ elog' = <<>>
          /\ rst' = [q \in Routers |-> "init"] /\ table' = [q \in Routers |-> [r \in Res |-> ""]]
          /\ revL' = [q \in Routers |-> 0] /\ from' = [q \in Routers |-> 0] /\ inval' = [q \in Routers |-> {}] /\ compacted' = 0
          /\ hist' = <<>>
TAbort == /\ l <= Len(TraceLog) /\ ~skipping /\ E.ev = "Abort" /\ l' = l + 1 /\ skipping' = TRUE /\ UNCHANGED vars
TNote == Cur("Note") /\ UNCHANGED vars
TSkip == /\ l <= Len(TraceLog) /\ skipping /\ E.ev # "Reset" /\ l' = l + 1 /\ UNCHANGED <<vars, skipping>>

TAcqSession == Cur("AcqSession") /\ AcqSession(E.b, E.r) /\ E.res = "parked" /\ LSt(E.st)
TAcqTxn == Cur("AcqTxn") /\ AcqTxn(E.b, E.r) /\ E.res = "parked" /\ LSt(E.st)
TAcqReacq == Cur("AcqReacq") /\ AcqReacq(E.b, E.r) /\ E.res = "parked" /\ LSt(E.st)
TAcqCommit == Cur("AcqCommit") /\ AcqCommit(E.b, E.r) /\ LSt(E.st)
              /\ E.res = (IF sess[E.b] = asess[E.b][E.r] THEN "ok" ELSE "error")
TAcqFail == Cur("AcqFail") /\ AcqFail(E.b, E.r) /\ LSt(E.st)
            /\ E.res = (IF ares[E.b][E.r] = "other" THEN "notowner" ELSE "error")
TRelLocal == Cur("RelLocal") /\ RelLocal(E.b, E.r) /\ E.res = "parked" /\ LSt(E.st)
TRelDelete == Cur("RelDelete") /\ RelDelete(E.b, E.r) /\ LSt(E.st)
TServerExpire == Cur("ServerExpire") /\ ServerExpire(E.l) /\ LSt(E.st)
TSessDone == Cur("SessDone") /\ SessDone(E.b) /\ sess[E.b] = E.l /\ LSt(E.st)
TMonitor == Cur("Monitor") /\ Monitor(E.b, E.l) /\ LSt(E.st)
TReleaseAll == Cur("ReleaseAll") /\ ReleaseAll(E.b) /\ LSt(E.st)
TCrash == Cur("Crash") /\ Crash(E.b) /\ LSt(E.st)

TAdminPut == Cur("AdminPut") /\ AdminPut(E.k, E.v) /\ RSt(E.st)
TAdminDel == Cur("AdminDel") /\ AdminDel(E.k) /\ RSt(E.st)
TAdminDelAll == Cur("AdminDelAll") /\ AdminDelAll /\ RSt(E.st)
TCompact == Cur("Compact") /\ Compact /\ RSt(E.st)
TLoad == Cur("Load") /\ Load(Q) /\ RSt(E.st)
TWatchStart == Cur("WatchStart") /\ WatchStart(Q) /\ E.failed = (rst'[Q] = "closed") /\ (~E.failed => from'[Q] = E.from) /\ RSt(E.st)
TDeliver == Cur("Deliver") /\ Deliver(Q, E.n) /\ E.evrev = from[Q] + E.n - 1 /\ RSt(E.st)
TWatchClose == Cur("WatchClose") /\ WatchClose(Q) /\ RSt(E.st)
TInvalidate == Cur("Invalidate") /\ Invalidate(Q, E.k) /\ RSt(E.st)

Consumed == TLCSet(7, IF TLCGet(7) < l THEN l ELSE TLCGet(7))   \* high-water mark of consumed lines
TNext == (\/ TReset \/ TAbort \/ TSkip \/ TNote
          \/ TAcqSession \/ TAcqTxn \/ TAcqReacq \/ TAcqCommit \/ TAcqFail \/ TRelLocal \/ TRelDelete
          \/ TServerExpire \/ TSessDone \/ TMonitor \/ TReleaseAll \/ TCrash
          \/ TAdminPut \/ TAdminDel \/ TAdminDelAll \/ TCompact \/ TLoad \/ TWatchStart \/ TDeliver \/ TWatchClose \/ TInvalidate) /\ Consumed
TSpec == TInit /\ [][TNext]_tvars
Reached == PrintT(<<"CONF", ToJson([reached |-> TLCGet(7), total |-> Len(TraceLog)])>>)
====
