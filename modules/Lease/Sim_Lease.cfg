CONSTANTS
 Brokers = {"b1","b2","b3"}
 Res = {"r1","r2"}
 Routers = {}
 Vals = {}
 MaxLeases = 6
 MaxAcq = 9
 MaxExpire = 3
 MaxRelease = 3
 MaxRelAll = 1
 MaxCrash = 1
 MaxBlip = 1
 MaxAdmin = 0
 MaxClose = 0
 MaxInval = 0
 MaxCompact = 0
 MaxBatch = 1
 FixRelease = TRUE
 DevReleaseRace = FALSE
 DevPutIfOwnerOther = FALSE
 DevReacqBlind = FALSE
 DevDropSameRev = FALSE
 DevNoReload = FALSE
 DevLoadMerge = FALSE
 DevPutsFirst = FALSE
 FixRev = TRUE
 KeepHist = TRUE
INIT Init
NEXT Next
INVARIANTS EmitSched C18_AtMostOneLive C18_ReleaseSafe LiveOwnsKey
CHECK_DEADLOCK FALSE
