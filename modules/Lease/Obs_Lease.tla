---- MODULE Obs_Lease ----
(* Observation layer: no model actions.  Every line recorded from the real LeaseManagers / routers carries    *)
(* the projected real state; the C18 / C20 predicates are the LeaseProps definitions instantiated with those  *)
(* observed values.  Violations are accumulated and printed once.                                             *)
EXTENDS Integers, Sequences, FiniteSets, TLC, Json
TraceLog == ndJsonDeserialize("trace.ndjson")
VARIABLES l, viol
ovars == <<l, viol>>
Range(s) == {s[i] : i \in DOMAIN s}
NoDel == [b |-> "", owner |-> ""]
HasSt(e) == "st" \in DOMAIN e
IsLease(e) == HasSt(e) /\ "owned" \in DOMAIN e.st
IsRouter(e) == HasSt(e) /\ "table" \in DOMAIN e.st
\* live owner: the resource is in the manager's m.owned AND the lease of its m.session is still held by etcd (admin client's lease list)
LiveOf(st) == UNION {{<<b, r>> : r \in Range(st.owned[b])} :
                     b \in {x \in DOMAIN st.owned : st.sess[x] # 0 /\ st.sess[x] \in Range(st.alive)}}
\* the etcd part of a Release ran alone (everything else parked): the key instance read before it is gone afterwards
RdelOf(e) == IF e.ev = "RelDelete" /\ e.kb.owner # "" /\ e.ka.mod # e.kb.mod
             THEN [b |-> e.b, owner |-> e.kb.owner] ELSE NoDel
P(e) == INSTANCE LeaseProps WITH
          live <- IF IsLease(e) THEN LiveOf(e.st) ELSE {},
          rdel <- IF IsLease(e) THEN RdelOf(e) ELSE NoDel,
          quiescent <- IF IsRouter(e) THEN e.st.watching /\ e.st.pending = 0 ELSE FALSE,
          table <- IF IsRouter(e) THEN e.st.table ELSE <<>>,
          owners <- IF IsRouter(e) THEN e.st.owners ELSE <<>>,
          skip <- IF IsRouter(e) THEN Range(e.st.skip) ELSE {}
OInit == l = 0 /\ viol = {}
Step ==
  /\ l < Len(TraceLog) /\ l' = l + 1
  /\ LET e == TraceLog[l + 1] IN
     /\ viol' = IF ~HasSt(e) THEN viol ELSE viol \cup
          {<<l + 1, n>> : n \in
             (IF P(e)!C18_AtMostOneLive THEN {} ELSE {"C18_AtMostOneLive"}) \cup
             (IF P(e)!C18_ReleaseSafe THEN {} ELSE {"C18_ReleaseSafe"}) \cup
             (IF P(e)!C20_Converged THEN {} ELSE {"C20_Converged"})}
     /\ (l' = Len(TraceLog)) => PrintT(<<"OBS", ToJson([consumed |-> l', viol |-> viol'])>>)
OSpec == OInit /\ [][Step]_ovars
====
