---- MODULE LeaseProps ----
(* C18 and C20 stated once, over parameters.  Lease.tla instantiates them with model state,      *)
(* Obs_Lease.tla with values observed on the real LeaseManagers / routers over embedded etcd.    *)
EXTENDS Integers, FiniteSets
CONSTANTS live,       \* set of <<broker, resource>>: the resource is in the broker's local ownership set AND the
                      \* etcd lease of that broker's current session is still alive ("live owner", DESIGN §4 C18)
          rdel,       \* [b, owner]: the step just taken was the etcd part of a Release by broker b and it removed a
                      \* lease key whose value was `owner`; owner = "" when the step removed nothing
          quiescent,  \* the router has an established watch and no change of the prefix is undelivered
          table,      \* function lease key -> owner answered by the router ("" = none)
          owners,     \* function lease key -> owner recorded in etcd ("" = none)
          skip        \* keys explicitly Invalidate()d on the router since the last change it saw for them

C18_AtMostOneLive == \A p \in live, q \in live : p[2] = q[2] => p[1] = q[1]
C18_ReleaseSafe == rdel.owner # "" => rdel.owner = rdel.b
C20_Converged == quiescent => \A k \in (DOMAIN owners) \ skip : table[k] = owners[k]
====
