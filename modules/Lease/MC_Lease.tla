---- MODULE MC_Lease ----
EXTENDS Lease
\* state constraint for Dev_Lease_RevReconnect.cfg: no lease change before the router's first watch is up, so the
\* shortest counterexample of FixRev = FALSE has to go through a closed stream and the reload that follows it
NoEarlyChange == (\E q \in Routers : rst[q] \in {"init", "loaded"} /\ cnt.close = 0) => cnt.admin = 0
\* coverage witness (Cover_Lease_Reacq.cfg): its "counterexample" is a behaviour of the repaired design in which a
\* restarted broker takes its own key over through the reacquire branch
NoReacqCommit == \A b \in Brokers, r \in Res : ~(apc[b][r] = "rpost" /\ ares[b][r] = "ok" /\ cnt.crash > 0)
====
