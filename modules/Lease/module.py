"""Lease.tla — C18 (LeaseManager: at most one live owner, safe release) and C20 (router convergence)."""
import copy, json, os, re
from lib import tlc as T, layers, gorun
from lib.common import Broken, Violation, verdict, save_replay

TECH = "TLA+ model (Lease.tla) + TLC exhaustive check + replay of TLC behaviours into the real code over embedded etcd through scheduler gates + TLC trace validation (observation and conformance layers)"
PROPS = {
    "C18": {
        "text": "Lease.tla models etcd lease keys and the per-broker LeaseManager at etcd-operation granularity (acquire = session / create-if-absent txn / reacquire txn / local commit; release = local removal then guarded delete; server-side expiry, client-side notice, ReleaseAll, crash+restart). TLC checks exhaustively that at most one broker is a live owner (owns locally AND its session's lease is alive) and that the etcd part of a Release only ever removes the releasing broker's own key. TLC-generated schedules (simulation + counterexamples of the named wrong designs: unconditional release, unserialised release, unguarded acquire) are imposed on real PartitionLeaseManager/GroupLeaseManager instances over embedded etcd through build-tag gates; the recorded traces are validated by TLC: the C18 predicates on observed values (layer O) and step-by-step conformance (layer C).",
        "note": "Trusted: TLC, embedded etcd, the in-package projection of m.owned/m.session under m.mu, the admin client's lease list (Leases()) as the lease-liveness oracle, a wrapped clientv3.Lease whose keepalive channel is closed by the schedule (SessDone) as the stand-in for the keepalive loop noticing a lost lease. 'Live owner' is read as in DESIGN §4 C18 (a broker that has not yet noticed its expired session is not a live owner). getOrCreateSession is modelled as one atomic step (see NOTES.md). Needs repo_patches/hook-metadata-gates.patch; the pinned tree violates C18 (repaired by fix-C18-release-guarded-delete.patch).",
        "technique": TECH,
    },
    "C20": {
        "text": "The router part of Lease.tla models etcd revisions and the event log, and PartitionRouter/GroupRouter as loadAll(revL) / Watch(fromRev) / per-revision delivery / closed stream + reload / Invalidate. TLC checks exhaustively `quiescent => table = owners` and, in a separate fair config, `<>[] table = owners`. TLC-generated schedules (simulation + counterexamples of the watch-from-now design, initial and reconnect) are imposed on the real routers over embedded etcd (gate between loadAll and Watch; lease keys written by an admin client; a wrapped clientv3.Watcher hands the real watch responses to the router one revision at a time and closes the channel on demand); at every quiescent point TLC compares LookupOwner/AllRoutes of the real router with a fresh Get of the prefix (layer O) and validates every step against the model (layer C).",
        "note": "Trusted: TLC, embedded etcd, the Watcher wrapper (real watch, responses split per revision, channel close = what clientv3 does after compaction/cancel), the harness's count of undelivered changes (from the revisions returned to the admin client). Keys explicitly Invalidate()d and not changed since are exempt (the statement quantifies over lease changes and stream interruptions only). Needs repo_patches/hook-metadata-gates.patch; the pinned tree violates C20 (repaired by fix-C20-watch-from-load-revision.patch).",
        "technique": TECH,
    },
}
PKG = "./pkg/metadata/"
OVERLAY = {"pkg/metadata/zz_verif_lease_test.go": "lease_verif_test.go", "pkg/metadata/zz_verif_router_test.go": "router_verif_test.go"}

# deviation cfg suffix -> (invariant TLC must report, must the schedule be imposable on any tree?)
DEV18 = {"Release": ("C18_AtMostOneLive", False), "ReleaseSafe": ("C18_ReleaseSafe", True),
         "ReleaseRace": ("C18_AtMostOneLive", False), "PutIfOwnerOther": ("C18_AtMostOneLive", True),
         "ReacqBlind": ("C18_AtMostOneLive", True)}
# Release / ReleaseRace interleave a Release with the same broker's acquire: the repaired tree serialises the two, so the
# acquire step blocks ("not replayed", still observed).  ReleaseSafe and PutIfOwnerOther contain no such step.
DEV20 = {"Rev": "C20_Converged", "RevReconnect": "C20_Converged", "DropSameRev": "C20_Converged", "NoReload": "C20_Converged",
         "LoadMerge": "C20_Converged", "PutsFirst": "C20_Converged"}
GATES18 = ["lease.afterSession", "lease.afterTxn", "lease.afterReacquire", "lease.release", "lease.monitor"]
GATES20 = ["router.beforeWatch"]


def trace_cfg(router):
    return open(os.path.join(DIR, "Trace_Lease_router.cfg" if router else "Trace_Lease.cfg")).read()


def harness(ctx, scheds, test, tag):
    sp = os.path.join(ctx.scratch, "sched-%s.ndjson" % tag)
    tp = os.path.join(ctx.scratch, "trace-%s.ndjson" % tag)
    gorun.write_ndjson(sp, scheds)
    ov = {k: os.path.join(DIR, "harness", v) for k, v in OVERLAY.items()}
    rc, out = gorun.go_test(ctx, ".", PKG, ov, "^%s$" % test, env={"VERIF_SCHEDULES": sp, "VERIF_TRACE_OUT": tp}, timeout=2400)
    if rc != 0 or "replayed %d schedules" % len(scheds) not in out:
        raise Broken("lease harness %s failed (are the verif hooks applied?):\n%s" % (test, out[-3000:]))
    m = re.search(r"gate hits (\{.*\})", out)
    hits = json.loads(m.group(1)) if m else {}
    m = re.search(r"not replayed (\d+)", out)
    return gorun.read_ndjson(tp), hits, int(m.group(1)) if m else 0


def split(rows):
    runs, cur = [], None
    for r in rows:
        if r["ev"] == "Reset":
            cur = []
            runs.append(cur)
        cur.append(r)
    return runs


def maximal(hs, cap):
    """simulate_hists keeps some proper prefixes (TLC prints a state's history more than once): keep maximal behaviours only."""
    keys = [tuple(json.dumps(x, sort_keys=True) for x in h) for h in hs]
    pref = set()
    for k in keys:
        for n in range(len(k)):
            pref.add(k[:n])
    out, seen = [], set()
    for h, k in zip(hs, keys):
        if k in pref or k in seen or not h:
            continue
        seen.add(k)
        out.append(h)
    return out[:cap]


def kinds(i):
    return "partition" if i % 2 == 0 else "group"


def nontrivial18(steps):
    per = {}
    for s in steps:
        if s["a"] == "AcqTxn":
            per.setdefault(s["r"], set()).add(s["b"])
    return any(len(v) >= 2 for v in per.values()) and any(s["a"] in ("ServerExpire", "RelLocal", "Crash", "ReleaseAll") for s in steps)


def nontrivial20(steps):
    # a change between a Load and the following WatchStart, or a closed stream
    gap, loaded = False, False
    for s in steps:
        if s["a"] == "Load":
            loaded = True
        elif s["a"] == "WatchStart":
            loaded = False
        elif s["a"] in ("AdminPut", "AdminDel") and loaded:
            gap = True
    return gap or any(s["a"] == "WatchClose" for s in steps)


def check(ctx, prop):
    return check18(ctx, prop) if prop == "C18" else check20(ctx, prop)


def common_tail(ctx, prop, scheds, labels, rows, runs, router, must_force, mcs, st, extra_cov, assumptions, nontrivial, rule, notrep):
    consumed, viol, _ = layers.observe(ctx, DIR, "Obs_Lease.tla", "Obs_Lease.cfg", rows)
    mine = "C18_" if prop == "C18" else "C20_"
    violations, first = [], set()
    for line, inv in sorted(viol):
        if not inv.startswith(mine):
            continue
        ev = rows[line - 1]
        idx = sum(1 for r in rows[:line] if r["ev"] == "Reset") - 1
        if (idx, inv) in first:
            continue
        first.add((idx, inv))
        sig = "%s@%s" % (inv, ev["ev"])
        path = save_replay(prop, "sched-%s.json" % re.sub(r"\W", "_", sig), {"schedule": scheds[idx], "label": labels[idx], "trace": runs[idx], "line": ev})
        violations.append(Violation(prop, sig, "%s false on the real %s after %s [schedule %s (%s), replay %s]" % (
            inv, "router" if router else "lease managers", ev["ev"], labels[idx], scheds[idx]["kind"], path), {"schedule": scheds[idx], "event": ev}))
    aborted = [i for i, run in enumerate(runs) if any(r["ev"] == "Abort" for r in run)]
    for i in aborted:
        if labels[i] in must_force and not violations:  # a violation observed on the real code is a verdict regardless of steering
            why = [r for r in runs[i] if r["ev"] == "Abort"][0]
            raise Broken("deviation schedule %s could not be imposed on the real code: %s" % (labels[i], json.dumps(why)))
    if len(aborted) != notrep:
        raise Broken("harness reports %d schedules not replayed, trace has %d" % (notrep, len(aborted)))
    reached, total, _ = layers.conform(ctx, DIR, "Trace_Lease.tla", "Trace_Lease.cfg", rows, cfg_text=trace_cfg(router))
    conf = {"accepted": len(runs), "rejected": 0, "first_rejection": None}
    drift = reached != total
    if drift:
        idx = sum(1 for r in rows[:reached + 1] if r["ev"] == "Reset") - 1
        conf = {"accepted": max(idx, 0), "rejected": 1, "first_rejection": {"schedule": labels[idx] if idx >= 0 else None, "line": rows[reached] if reached < len(rows) else None}}
    level = "model_checking"
    if drift and not violations:
        level = "exploration"
        ctx.log("DRIFT: conformance layer rejected a trace although %s held: %s" % (prop, json.dumps(conf["first_rejection"])[:1500]))
    mc = mcs[0]
    cov = {
        "states": sum(m.distinct for m in mcs), "transitions": sum(m.generated for m in mcs), "depth": max(m.depth for m in mcs), "exhaustive": True,
        "traces_validated_against_impl": len(runs), "trace_events": len(rows),
        "evaluations": len(scheds), "distinct_nontrivial": nontrivial, "rule": rule,
        "not_replayed": len(aborted), "not_replayed_labels": sorted({labels[i] for i in aborted}),
        "conformance": ("drift" if drift else "accepted"), "conformance_detail": conf,
        "binding_self_test": st,
        "samples": [scheds[0], scheds[-1], runs[0][:5]],
    }
    cov.update(extra_cov)
    return verdict(ctx, violations, level, cov, assumptions)


def dev_schedules(ctx, d, devs):
    """TLC counterexample of every named deviation (one TLC worker each: deterministic counterexample; the runs are independent,
    so they are started side by side)."""
    from concurrent.futures import ThreadPoolExecutor

    def one(item):
        dev, inv = item
        h, r = T.counterexample_hist(ctx, d, "MC_Lease.tla", "Dev_Lease_%s.cfg" % dev, timeout=900, workers=1)
        if h is None or inv not in r.violated:
            raise Broken("deviation %s no longer violates %s in the model (vacuous deviation)" % (dev, inv))
        return dev, h

    with ThreadPoolExecutor(max_workers=4) as ex:
        return list(ex.map(one, sorted(devs.items())))


def check_gates(hits, need):
    missing = [g for g in need if hits.get(g, 0) == 0]
    if missing:
        raise Broken("hook presence: gates never reached: %s (hits %s)" % (missing, hits))


def action_cov(mcs):
    """states generated per action, from TLC's -coverage output (it is printed periodically: keep the last = largest report)."""
    cov = {}
    for m in mcs:
        one = {}
        for x in re.finditer(r"^<(\w+) line \d+, col \d+ to line \d+, col \d+ of module \w+>: (\d+):(\d+)", m.out, re.M):
            one[x.group(1)] = max(one.get(x.group(1), 0), int(x.group(3)))
        for k, v in one.items():
            cov[k] = cov.get(k, 0) + v
    return cov


# ------------------------------------------------------------------------------------------------ C18
LEASE_ACTIONS = ["AcqSession", "AcqTxn", "AcqReacq", "AcqCommit", "AcqFail", "RelLocal", "RelDelete", "ServerExpire", "SessDone", "Monitor", "ReleaseAll", "Crash"]


def check18(ctx, prop):
    quick = ctx.quick()
    d = T.stage(ctx, DIR, "mc")
    cfgs = ["MC_Lease_quick.cfg"] if quick else ["MC_Lease_thorough.cfg", "MC_Lease_thorough2.cfg"]
    mcs = []
    for c in cfgs:
        m = T.model_check(ctx, d, "MC_Lease.tla", c, coverage=not quick, timeout=2400, workers=8)
        ctx.log("model %s: %d distinct states, depth %d" % (c, m.distinct, m.depth))
        mcs.append(m)
    scheds, labels = [], []
    for dev, h in dev_schedules(ctx, d, {k: v[0] for k, v in DEV18.items()}):
        for kind in ("partition", "group"):
            scheds.append({"kind": kind, "label": "dev:" + dev, "steps": h}); labels.append("dev:" + dev)
    h, r = T.counterexample_hist(ctx, d, "MC_Lease.tla", "Cover_Lease_Reacq.cfg", timeout=600, workers=1)
    if h is None:
        raise Broken("coverage witness Cover_Lease_Reacq.cfg produced no behaviour")
    for kind in ("partition", "group"):
        scheds.append({"kind": kind, "label": "cover:Reacq", "steps": h + [{"a": "AcqCommit", "b": h[-1]["b"], "r": h[-1]["r"]}]}); labels.append("cover:Reacq")
    hs, _ = T.simulate_hists(ctx, d, "MC_Lease.tla", "Sim_Lease.cfg", num=(110 if quick else 900), depth=(32 if quick else 40), seed=ctx.seed)
    hs = maximal(hs, 100 if quick else 800)
    for i, h in enumerate(hs):
        scheds.append({"kind": kinds(i), "label": "sim", "steps": h}); labels.append("sim")
    ctx.log("%d schedules (%d deviation counterexamples x2 kinds, %d simulated)" % (len(scheds), len(DEV18), len(hs)))
    rows, hits, notrep = harness(ctx, scheds, "TestVerifLeaseReplay", "lease")
    check_gates(hits, GATES18)
    runs = split(rows)
    if len(runs) != len(scheds):
        raise Broken("harness recorded %d runs for %d schedules" % (len(runs), len(scheds)))
    seen = {r["ev"] for r in rows}
    missing = [a for a in LEASE_ACTIONS if a not in seen]
    if missing:
        raise Broken("vacuous run: actions never observed on the real code: %s" % missing)
    st = self_test18(ctx, runs)
    extra = {"model_config": cfgs, "deviation_schedules": sorted(DEV18), "gate_hits": hits, "observed_actions": {a: sum(1 for r in rows if r["ev"] == a) for a in LEASE_ACTIONS}}
    if not quick:
        extra["action_coverage"] = action_cov(mcs)
        dead = [a for a in LEASE_ACTIONS if extra["action_coverage"].get(a, 0) == 0]
        if dead:
            raise Broken("vacuous model: actions never taken: %s" % dead)
    must = {"dev:" + k for k, v in DEV18.items() if v[1]} | {"cover:Reacq"}
    return common_tail(ctx, prop, scheds, labels, rows, runs, False, must, mcs, st, extra, [
        "a broker is a live owner of r iff r is in its m.owned and the etcd lease of its current m.session is alive (it is in the admin client's Leases() list); a broker that has not yet noticed its expired session is not a live owner (DESIGN §4 C18)",
        "steps run one at a time: every other goroutine of the managers is parked at a verifGate or idle, so reading the key before and after the etcd part of Release attributes a removal to that Release",
        "the managers' etcd clients carry a wrapped clientv3.Lease: Grant and Revoke are real, no keepalives are sent (TTL 600 s, only the admin client's Revoke expires a lease), and the keepalive channel of a session is closed by the SessDone step (what the lessor does when it finds the lease gone) or when the session is orphaned or closed",
        "crash = closing the manager's etcd client (no revoke) and discarding the manager; restart = a new manager with the same broker id",
        "getOrCreateSession is one atomic model step (no gate inside it)",
    ], sum(1 for s in scheds if nontrivial18(s["steps"])),
        "schedules = TLC counterexamples of the named deviations (each on a partition and a group lease manager) + TLC -simulate behaviours (seeded), alternating partition/group; non-trivial = two brokers reach the acquire txn for the same resource and the schedule has an expiry, release, ReleaseAll or crash", notrep)


def self_test18(ctx, runs):
    run = next((r for r in runs if not any(x["ev"] == "Abort" for x in r) and any(x["ev"] == "AcqCommit" and x.get("res") == "ok" for x in r)), None)
    if run is None:
        raise Broken("binding self-test: no schedule with a committed acquire")
    bad = copy.deepcopy(run)
    tgt = [r for r in bad if r["ev"] == "AcqCommit" and r.get("res") == "ok"][-1]
    other = [b for b in tgt["st"]["owned"] if b != tgt["b"]][0]
    tgt["st"]["owned"][other] = sorted(set(tgt["st"]["owned"][other]) | {tgt["r"]})
    tgt["st"]["sess"][other] = tgt["st"]["sess"][tgt["b"]]
    _, viol, _ = layers.observe(ctx, DIR, "Obs_Lease.tla", "Obs_Lease.cfg", bad, name="selfO")
    if not any(v[1] == "C18_AtMostOneLive" for v in viol):
        raise Broken("binding self-test: observation layer did not flag a second live owner")
    bad = copy.deepcopy(run)
    tgt = [r for r in bad if r["ev"] == "AcqCommit" and r.get("res") == "ok"][-1]
    tgt["st"]["owned"][tgt["b"]] = []
    reached, total, _ = layers.conform(ctx, DIR, "Trace_Lease.tla", "Trace_Lease.cfg", bad, name="selfC", cfg_text=trace_cfg(False))
    if reached == total:
        raise Broken("binding self-test: conformance layer accepted a corrupted 'owned' field")
    return {"observation_layer_flags_corrupted_field": True, "conformance_layer_rejects_corrupted_state": True}


# ------------------------------------------------------------------------------------------------ C20
ROUTER_ACTIONS = ["AdminPut", "AdminDel", "AdminDelAll", "Compact", "Load", "WatchStart", "Deliver", "Invalidate"]


def check20(ctx, prop):
    quick = ctx.quick()
    d = T.stage(ctx, DIR, "mc")
    mcs = []
    c = "MC_Lease_router_%s.cfg" % ctx.tier
    m = T.model_check(ctx, d, "MC_Lease.tla", c, coverage=not quick, timeout=1500, workers=8)
    ctx.log("model %s: %d distinct states, depth %d" % (c, m.distinct, m.depth))
    mcs.append(m)
    live = T.model_check(ctx, d, "MC_Lease.tla", "MC_Lease_live.cfg", timeout=1500, workers=4)
    ctx.log("liveness (<>[] table = owners under weak fairness of Load/WatchStart/Deliver): %d distinct states, ok" % live.distinct)
    dl = T.tlc(ctx, d, "MC_Lease.tla", "Dev_Lease_RevLive.cfg", timeout=600, workers=4)
    if "TEMPORAL" not in dl.violated and "C20_EventuallyConverged" not in dl.violated:
        raise Broken("liveness deviation (watch from 'now') no longer violates C20_EventuallyConverged (vacuous)")
    scheds, labels = [], []
    for dev, h in dev_schedules(ctx, d, DEV20):
        for kind in ("partition", "group"):
            scheds.append({"kind": kind, "label": "dev:" + dev, "steps": h}); labels.append("dev:" + dev)
    hs, _ = T.simulate_hists(ctx, d, "MC_Lease.tla", "Sim_Lease_router.cfg", num=(100 if quick else 800), depth=(16 if quick else 20), seed=ctx.seed)
    hc, _ = T.simulate_hists(ctx, d, "MC_Lease.tla", "Sim_Lease_routerClose.cfg", num=(30 if quick else 300), depth=18, seed=ctx.seed + 7)
    hs = maximal(hs, 90 if quick else 700)
    hc = [h for h in maximal(hc, 10 ** 6) if any(s["a"] == "WatchClose" for s in h)][: (6 if quick else 60)]
    for i, h in enumerate(hs):
        scheds.append({"kind": kinds(i), "label": "sim", "steps": h}); labels.append("sim")
    for i, h in enumerate(hc):
        scheds.append({"kind": kinds(i), "label": "sim-close", "steps": h}); labels.append("sim-close")
    ctx.log("%d schedules (%d deviation counterexamples x2 kinds, %d simulated, %d simulated with a closed stream)" % (len(scheds), len(DEV20), len(hs), len(hc)))
    rows, hits, notrep = harness(ctx, scheds, "TestVerifRouterReplay", "router")
    check_gates(hits, GATES20)
    runs = split(rows)
    if len(runs) != len(scheds):
        raise Broken("harness recorded %d runs for %d schedules" % (len(runs), len(scheds)))
    seen = {r["ev"] for r in rows}
    missing = [a for a in ROUTER_ACTIONS + ["WatchClose"] if a not in seen]
    if missing:
        raise Broken("vacuous run: actions never observed on the real code: %s" % missing)
    quiescent = sum(1 for r in rows if "st" in r and r["st"]["watching"] and r["st"]["pending"] == 0)
    if quiescent < len(runs):
        raise Broken("vacuous run: only %d quiescent observations for %d schedules" % (quiescent, len(runs)))
    st = self_test20(ctx, runs)
    extra = {"model_config": [c, "MC_Lease_live.cfg"], "liveness": {"config": "MC_Lease_live.cfg", "states": live.distinct, "property": "C20_EventuallyConverged", "holds": True, "deviation_violates": True},
             "deviation_schedules": sorted(DEV20), "gate_hits": hits, "quiescent_observations": quiescent,
             "observed_actions": {a: sum(1 for r in rows if r["ev"] == a) for a in ROUTER_ACTIONS + ["WatchClose"]}}
    if not quick:
        extra["action_coverage"] = action_cov(mcs)
        dead = [a for a in ROUTER_ACTIONS + ["WatchClose"] if extra["action_coverage"].get(a, 0) == 0]
        if dead:
            raise Broken("vacuous model: actions never taken: %s" % dead)
    return common_tail(ctx, prop, scheds, labels, rows, runs, True, {"dev:" + k for k in DEV20}, mcs, st, extra, [
        "quiescent = the router's watch is established and every change of the prefix with revision >= the watch's start revision has been handed to the router (counted from the revisions etcd returned to the admin client)",
        "the router's table is read through LookupOwner for the schedule's keys and AllRoutes for anything else; etcd's owners through a fresh Get of the prefix by the admin client",
        "watch responses come from the real etcd watch; the wrapper only splits them per revision, forwards them when the schedule says so and closes the channel for WatchClose (what clientv3 does after compaction or a cancelled stream)",
        "keys dropped with Invalidate() and not changed since are exempt from the comparison",
        "each schedule is driven to quiescence by appending the router's own pending steps (Load, WatchStart, Deliver)",
    ], sum(1 for s in scheds if nontrivial20(s["steps"])),
        "schedules = TLC counterexamples of the watch-from-now deviation (initial and reconnect; each on PartitionRouter and GroupRouter) + TLC -simulate behaviours (seeded), alternating router kinds; non-trivial = a lease change lands between a Load and the following WatchStart, or the stream is closed", notrep)


def self_test20(ctx, runs):
    run = next((r for r in runs if not any(x["ev"] == "Abort" for x in r)), None)
    bad = copy.deepcopy(run)
    tgt = [r for r in bad if "st" in r and r["st"]["watching"] and r["st"]["pending"] == 0][-1]
    tgt["st"]["table"]["r1"] = "nobody"
    if "r1" in tgt["st"]["skip"]:
        tgt["st"]["skip"].remove("r1")
    _, viol, _ = layers.observe(ctx, DIR, "Obs_Lease.tla", "Obs_Lease.cfg", bad, name="selfO")
    if not any(v[1] == "C20_Converged" for v in viol):
        raise Broken("binding self-test: observation layer did not flag a corrupted routing table")
    reached, total, _ = layers.conform(ctx, DIR, "Trace_Lease.tla", "Trace_Lease.cfg", bad, name="selfC", cfg_text=trace_cfg(True))
    if reached == total:
        raise Broken("binding self-test: conformance layer accepted a corrupted routing table")
    return {"observation_layer_flags_corrupted_field": True, "conformance_layer_rejects_corrupted_state": True}


def replay(ctx, prop, path):
    obj = json.load(open(path))
    sched = obj.get("schedule") or obj.get("detail", {}).get("schedule")
    test = "TestVerifLeaseReplay" if prop == "C18" else "TestVerifRouterReplay"
    rows, _, _ = harness(ctx, [sched], test, "replay")
    _, viol, _ = layers.observe(ctx, DIR, "Obs_Lease.tla", "Obs_Lease.cfg", rows)
    for r in rows:
        print(json.dumps(r, sort_keys=True))
    mine = [(l, i) for l, i in viol if i.startswith(prop)]
    for line, inv in mine:
        print("VIOLATION property=%s replay=%s" % (prop, path))
        print("  %s false at line %d" % (inv, line))
    return 1 if mine else 0
