//go:build verif

package metadata

// Verification harness for the proxy routers (C20).  Replays TLC-generated schedules of the router part
// of Lease.tla on a real PartitionRouter / GroupRouter over embedded etcd.  Lease keys are written and
// deleted by an admin client.  The router's etcd client carries a wrapped clientv3.Watcher: the real watch
// goes to etcd unchanged (the wrapper only adds WithCreatedNotify to learn the revision the server started
// the watch at), but its responses are handed to the router one revision at a time under the control of
// the schedule (Deliver), and the channel given to the router can be closed by the schedule (WatchClose =
// what the client does after a compaction / cancelled stream).  The gate router.beforeWatch separates
// loadAll from client.Watch.

import (
	"context"
	"encoding/json"
	"fmt"
	"io"
	"log/slog"
	"sort"
	"sync"
	"sync/atomic"
	"testing"
	"time"

	"github.com/KafScale/platform/internal/testutil"
	clientv3 "go.etcd.io/etcd/client/v3"
)

type vrStream struct {
	mu      sync.Mutex
	queue   []clientv3.WatchResponse // one per revision, not yet handed to the router
	out     chan clientv3.WatchResponse
	cancel  context.CancelFunc
	from    int64
	reqRev  int64
	once    sync.Once
	arrived chan struct{}
	errs    chan clientv3.WatchResponse // error responses of the real watch (ErrCompacted ...)
	recv    atomic.Int64                // revisions received from etcd so far
	dead    bool
}

func (s *vrStream) closeOut() {
	s.once.Do(func() {
		s.cancel()
		close(s.out)
	})
}

type vrWatcher struct {
	clientv3.Watcher
	established chan *vrStream
}

func (w *vrWatcher) Watch(ctx context.Context, key string, opts ...clientv3.OpOption) clientv3.WatchChan {
	op := clientv3.OpGet(key, opts...)
	inner, cancel := context.WithCancel(ctx)
	all := append(append([]clientv3.OpOption{}, opts...), clientv3.WithCreatedNotify())
	realCh := w.Watcher.Watch(inner, key, all...)
	s := &vrStream{out: make(chan clientv3.WatchResponse), cancel: cancel, reqRev: op.Rev(), arrived: make(chan struct{}, 4096),
		errs: make(chan clientv3.WatchResponse, 16)}
	first, ok := <-realCh
	if !ok {
		s.dead = true
		s.closeOut()
		w.established <- s
		return s.out
	}
	if s.reqRev > 0 {
		s.from = s.reqRev
	} else {
		s.from = first.Header.Revision + 1
	}
	if first.Err() != nil { // refused right away (start revision compacted): the schedule hands it to the router
		s.errs <- first
	}
	go func() {
		for resp := range realCh {
			if resp.Err() != nil {
				s.errs <- resp
				continue
			}
			if len(resp.Events) == 0 {
				continue
			}
			// split into one response per revision
			var cur []*clientv3.Event
			flush := func() {
				if len(cur) > 0 {
					r := resp
					r.Events = cur
					s.mu.Lock()
					s.queue = append(s.queue, r)
					s.mu.Unlock()
					s.recv.Add(1)
					s.arrived <- struct{}{}
					cur = nil
				}
			}
			for _, ev := range resp.Events {
				if len(cur) > 0 && cur[0].Kv.ModRevision != ev.Kv.ModRevision {
					flush()
				}
				cur = append(cur, ev)
			}
			flush()
		}
	}()
	w.established <- s
	return s.out
}

// vrKV holds the router's prefix read (loadAll) until the schedule's Load step, so that the order of a reload and the
// admin client's changes never depends on the router's one-second sleep.
type vrKV struct {
	clientv3.KV
	arrive  chan struct{}
	release chan struct{}
	off     chan struct{} // closed at the end of the schedule: reads pass
}

func (k *vrKV) Get(ctx context.Context, key string, opts ...clientv3.OpOption) (*clientv3.GetResponse, error) {
	select {
	case <-k.off:
	default:
		k.arrive <- struct{}{}
		select {
		case <-k.release:
		case <-k.off:
		}
	}
	return k.KV.Get(ctx, key, opts...)
}

type vrRun struct {
	t        *testing.T
	admin    *clientv3.Client
	cli      *clientv3.Client
	w        *vrWatcher
	kv       *vrKV
	kind     string
	pr       *PartitionRouter
	gr       *GroupRouter
	stream   *vrStream
	state    string // init | loaded | watching | closed
	base     int64
	changes  []int64 // revisions of the changes made to the prefix in this schedule
	last     int64   // highest revision handed to the router on the current stream
	skip     map[string]bool
	arrive   chan string
	release  chan struct{}
	emit     func(map[string]any)
	keys     []string
	aborted  bool
	freeRun  bool  // after an Abort the router is still driven to quiescence by its own steps
	compact  int64 // revision of the last compaction (absolute), 0 = none
	stopping bool
	mu       sync.Mutex
}

const vrLong = 60 * time.Second

func (r *vrRun) etcdKey(k string) string {
	n := map[string]int{"r1": 0, "r2": 1, "r3": 2}[k]
	if r.kind == "group" {
		return fmt.Sprintf("%s/grp-%s", groupLeasePrefix, k)
	}
	return partitionLeaseKey("orders", int32(n))
}

func (r *vrRun) lookup(k string) string {
	n := map[string]int{"r1": 0, "r2": 1, "r3": 2}[k]
	if r.kind == "group" {
		return r.gr.LookupOwner("grp-" + k)
	}
	return r.pr.LookupOwner("orders", int32(n))
}

func (r *vrRun) prefix() string {
	if r.kind == "group" {
		return groupLeasePrefix + "/"
	}
	return partitionLeasePrefix + "/"
}

func (r *vrRun) pending() int {
	if r.state != "watching" || r.stream == nil {
		return 0
	}
	n := 0
	for _, c := range r.changes {
		if c >= r.stream.from && c > r.last {
			n++
		}
	}
	return n
}

func (r *vrRun) st() map[string]any {
	ctx, cancel := context.WithTimeout(context.Background(), 20*time.Second)
	defer cancel()
	resp, err := r.admin.Get(ctx, r.prefix(), clientv3.WithPrefix())
	if err != nil {
		r.t.Fatalf("admin get: %v", err)
	}
	owners, table := map[string]any{}, map[string]any{}
	inEtcd := map[string]string{}
	for _, kv := range resp.Kvs {
		inEtcd[string(kv.Key)] = string(kv.Value)
	}
	known := 0
	for _, k := range r.keys {
		owners[k] = inEtcd[r.etcdKey(k)]
		if r.state == "init" {
			table[k] = ""
			continue
		}
		table[k] = r.lookup(k)
		if table[k] != "" {
			known++
		}
	}
	total := 0
	if r.state != "init" {
		if r.kind == "group" {
			total = len(r.gr.AllRoutes())
		} else {
			total = len(r.pr.AllRoutes())
		}
	}
	// routes for keys outside the schedule's key set would be junk: surface them as a pseudo key
	owners["_extra"], table["_extra"] = "", ""
	if total != known {
		table["_extra"] = fmt.Sprintf("%d unexpected routes", total-known)
	}
	skip := []string{}
	for k := range r.skip {
		skip = append(skip, k)
	}
	sort.Strings(skip)
	compacted := int64(0)
	if r.compact > 0 {
		compacted = r.compact - r.base
	}
	return map[string]any{"rev": resp.Header.Revision - r.base, "state": r.state, "watching": r.state == "watching",
		"pending": r.pending(), "table": table, "owners": owners, "skip": skip, "compacted": compacted}
}

func (r *vrRun) gate(point, id string) {
	r.mu.Lock()
	stopping := r.stopping
	r.mu.Unlock()
	if stopping || id != r.kind {
		return
	}
	r.arrive <- point
	<-r.release
}

func (r *vrRun) waitArrive() bool {
	select {
	case <-r.arrive:
		return true
	case <-time.After(vrLong):
		return false
	}
}

// a step of the router itself that does not apply in the state the real router is in (schedules derived from a wrong
// design diverge from the real code at some point): skipped, noted, the schedule goes on with its remaining inputs
func (r *vrRun) note(i int, st vlStep, why string) {
	r.emit(map[string]any{"ev": "Note", "step": i, "a": st.A, "why": why})
}

func (r *vrRun) abort(i int, st vlStep, why string) {
	r.aborted = true
	r.emit(map[string]any{"ev": "Abort", "step": i, "a": st.A, "why": why})
}

func (r *vrRun) step(i int, st vlStep) {
	line := map[string]any{"ev": st.A, "step": i}
	switch st.A {
	case "AdminPut", "AdminDel":
		ctx, cancel := context.WithTimeout(context.Background(), 20*time.Second)
		defer cancel()
		line["k"] = st.K
		if st.A == "AdminPut" {
			line["v"] = st.V
			resp, err := r.admin.Put(ctx, r.etcdKey(st.K), st.V)
			if err != nil {
				r.t.Fatalf("admin put: %v", err)
			}
			r.changes = append(r.changes, resp.Header.Revision)
		} else {
			resp, err := r.admin.Delete(ctx, r.etcdKey(st.K))
			if err != nil {
				r.t.Fatalf("admin delete: %v", err)
			}
			if resp.Deleted > 0 {
				r.changes = append(r.changes, resp.Header.Revision)
			}
		}
	case "AdminDelAll": // one transaction = one revision with one delete event per present key
		ctx, cancel := context.WithTimeout(context.Background(), 20*time.Second)
		defer cancel()
		var ops []clientv3.Op
		for _, k := range r.keys {
			ops = append(ops, clientv3.OpDelete(r.etcdKey(k)))
		}
		resp, err := r.admin.Txn(ctx).Then(ops...).Commit()
		if err != nil {
			r.t.Fatalf("admin txn: %v", err)
		}
		n := int64(0)
		for _, rp := range resp.Responses {
			n += rp.GetResponseDeleteRange().Deleted
		}
		if n > 0 {
			r.changes = append(r.changes, resp.Header.Revision)
		}
		line["deleted"] = n
	case "Compact":
		// the real watch must have caught up first: etcd cancels a watcher that is still behind the compaction revision,
		// and how fast it catches up is a matter of real time
		if r.state == "watching" {
			want := int64(0)
			for _, c := range r.changes {
				if c >= r.stream.from {
					want++
				}
			}
			deadline := time.Now().Add(vrLong)
			for r.stream.recv.Load() < want {
				if time.Now().After(deadline) {
					r.t.Fatalf("step %d %v: the watch did not catch up before the compaction", i, st)
				}
				time.Sleep(200 * time.Microsecond)
			}
		}
		ctx, cancel := context.WithTimeout(context.Background(), 20*time.Second)
		defer cancel()
		cur, err := r.admin.Get(ctx, r.prefix(), clientv3.WithPrefix(), clientv3.WithCountOnly())
		if err != nil {
			r.t.Fatalf("admin get: %v", err)
		}
		if _, err := r.admin.Compact(ctx, cur.Header.Revision, clientv3.WithCompactPhysical()); err != nil {
			r.t.Fatalf("admin compact: %v", err)
		}
		r.compact = cur.Header.Revision
	case "Load":
		line["q"] = st.Q
		built := make(chan error, 1)
		switch r.state {
		case "init":
			go func() { // the constructor runs loadAll synchronously; its read waits for this step
				var err error
				lg := slog.New(slog.NewTextHandler(io.Discard, nil))
				if r.kind == "group" {
					r.gr, err = NewGroupRouter(context.Background(), r.cli, lg)
				} else {
					r.pr, err = NewPartitionRouter(context.Background(), r.cli, lg)
				}
				built <- err
			}()
		case "closed": // the router sleeps one second and then asks for the prefix by itself
			built <- nil
		default:
			r.note(i, st, "router is "+r.state)
			return
		}
		select {
		case <-r.kv.arrive:
		case <-r.arrive:
			// the router is back at the gate before Watch without having re-read the prefix: this step cannot be imposed.
			// Not replayed; the router is still driven to quiescence and observed there.
			r.state = "loaded"
			r.freeRun = true
			r.abort(i, st, "router returned to router.beforeWatch without re-reading the prefix")
			return
		case <-time.After(vrLong):
			r.t.Fatalf("step %d %v: router did not start loadAll", i, st)
		}
		r.kv.release <- struct{}{}
		if !r.waitArrive() {
			r.t.Fatalf("step %d %v: router did not reach router.beforeWatch", i, st)
		}
		select {
		case err := <-built:
			if err != nil {
				r.t.Fatalf("new router: %v", err)
			}
		case <-time.After(vrLong):
			r.t.Fatalf("step %d %v: router constructor did not return", i, st)
		}
		r.state, r.skip = "loaded", map[string]bool{}
	case "WatchStart":
		line["q"] = st.Q
		if r.state != "loaded" {
			r.note(i, st, "router is "+r.state)
			return
		}
		r.release <- struct{}{}
		select {
		case s := <-r.w.established:
			if s.dead {
				r.t.Fatalf("step %d %v: watch could not be established", i, st)
			}
			r.stream, r.last = s, s.from-1
		case <-time.After(vrLong):
			r.t.Fatalf("step %d %v: router did not call Watch", i, st)
		}
		line["from"] = r.stream.from - r.base
		line["failed"] = false
		if r.compact > 0 && r.stream.from < r.compact {
			// etcd refuses a start revision below its compaction revision: one error response, then the channel is closed
			line["failed"] = true
			select {
			case e := <-r.stream.errs:
				select {
				case r.stream.out <- e:
				case <-time.After(vrLong):
					r.t.Fatalf("step %d %v: router does not read its watch channel", i, st)
				}
			case <-time.After(vrLong):
				r.t.Fatalf("step %d %v: etcd did not refuse a watch below the compaction revision", i, st)
			}
			r.stream.closeOut()
			r.state = "closed"
			break
		}
		r.state = "watching"
		line["reqrev"] = int64(0) // revision asked for with WithRev, relative to the schedule's base (0 = none: "now")
		if r.stream.reqRev > 0 {
			line["reqrev"] = r.stream.reqRev - r.base
		}
	case "Deliver":
		line["q"] = st.Q
		if r.state != "watching" || r.pending() == 0 {
			r.note(i, st, "nothing to deliver")
			return
		}
		// one WatchResponse carrying the events of n consecutive revisions, in order (what a watcher that is catching up gets)
		n := st.N
		if n < 1 {
			n = 1
		}
		if n > r.pending() {
			n = r.pending()
		}
		var resp clientv3.WatchResponse
		for j := 0; j < n; j++ {
			select {
			case <-r.stream.arrived:
			case <-time.After(vrLong):
				r.t.Fatalf("step %d %v: etcd did not send the pending event", i, st)
			}
			r.stream.mu.Lock()
			one := r.stream.queue[0]
			r.stream.queue = r.stream.queue[1:]
			r.stream.mu.Unlock()
			if j == 0 {
				resp = one
				resp.Events = append([]*clientv3.Event{}, one.Events...)
			} else {
				resp.Header = one.Header
				resp.Events = append(resp.Events, one.Events...)
			}
		}
		line["n"] = n
		// hand it over; the empty response after it is received only when the first one has been applied
		for _, x := range []clientv3.WatchResponse{resp, {}} {
			select {
			case r.stream.out <- x:
			case <-time.After(vrLong):
				r.t.Fatalf("step %d %v: router does not read its watch channel", i, st)
			}
		}
		r.last = resp.Events[len(resp.Events)-1].Kv.ModRevision
		line["evrev"] = r.last - r.base
		for _, ev := range resp.Events {
			for _, k := range r.keys {
				if r.etcdKey(k) == string(ev.Kv.Key) {
					delete(r.skip, k)
				}
			}
		}
	case "WatchClose":
		line["q"] = st.Q
		if r.state != "watching" {
			r.note(i, st, "router is "+r.state)
			return
		}
		r.stream.closeOut()
		r.state = "closed"
	case "Invalidate":
		line["q"], line["k"] = st.Q, st.K
		if r.state == "init" {
			r.note(i, st, "no router yet")
			return
		}
		n := map[string]int{"r1": 0, "r2": 1, "r3": 2}[st.K]
		if r.kind == "group" {
			r.gr.Invalidate("grp-" + st.K)
		} else {
			r.pr.Invalidate("orders", int32(n))
		}
		r.skip[st.K] = true
	default:
		r.t.Fatalf("unknown step %v", st)
	}
	line["st"] = r.st()
	r.emit(line)
}

func (r *vrRun) stop() {
	r.mu.Lock()
	r.stopping = true
	r.mu.Unlock()
	close(r.kv.off)
	if r.pr != nil {
		r.pr.Stop()
	}
	if r.gr != nil {
		r.gr.Stop()
	}
	if r.state == "loaded" {
		r.release <- struct{}{}
		select {
		case s := <-r.w.established:
			s.closeOut()
		case <-time.After(vrLong):
			r.t.Fatalf("router did not leave its gate at the end of the schedule")
		}
	}
	if r.stream != nil {
		r.stream.closeOut()
	}
	_ = r.cli.Close()
}

func TestVerifRouterReplay(t *testing.T) {
	sc, emit, closeIO := vlOpenIO(t)
	defer closeIO()
	endpoints := testutil.StartEmbeddedEtcd(t)
	admin, err := clientv3.New(clientv3.Config{Endpoints: endpoints, DialTimeout: 10 * time.Second})
	if err != nil {
		t.Fatal(err)
	}
	defer admin.Close()
	VerifGate = vlG.gate
	defer func() { VerifGate = nil; vrGate = nil }()
	n, aborted := 0, 0
	for sc.Scan() {
		var s vlSched
		if err := json.Unmarshal(sc.Bytes(), &s); err != nil {
			t.Fatal(err)
		}
		cli, err := clientv3.New(clientv3.Config{Endpoints: endpoints, DialTimeout: 10 * time.Second})
		if err != nil {
			t.Fatal(err)
		}
		w := &vrWatcher{Watcher: cli.Watcher, established: make(chan *vrStream, 4)}
		cli.Watcher = w
		kv := &vrKV{KV: cli.KV, arrive: make(chan struct{}, 4), release: make(chan struct{}), off: make(chan struct{})}
		cli.KV = kv
		r := &vrRun{t: t, admin: admin, cli: cli, w: w, kv: kv, kind: s.Kind, state: "init", skip: map[string]bool{},
			arrive: make(chan string, 4), release: make(chan struct{}), emit: emit, keys: []string{"r1", "r2"}}
		ctx, cancel := context.WithTimeout(context.Background(), 20*time.Second)
		dresp, err := admin.Delete(ctx, r.prefix(), clientv3.WithPrefix())
		cancel()
		if err != nil {
			t.Fatal(err)
		}
		r.base = dresp.Header.Revision
		vlG.mu.Lock()
		vrGate = r.gate
		vlG.mu.Unlock()
		emit(map[string]any{"ev": "Reset", "sched": n, "kind": s.Kind, "label": s.Label})
		i := 0
		for _, st := range s.Steps {
			r.step(i, st)
			i++
			if r.aborted {
				break
			}
		}
		// run the router's own steps to quiescence so that every schedule ends in a state the property speaks about
		for guard := 0; (!r.aborted || r.freeRun) && guard < 64; guard++ {
			var st vlStep
			switch {
			case r.state == "init" || r.state == "closed":
				st = vlStep{A: "Load", Q: "q"}
			case r.state == "loaded":
				st = vlStep{A: "WatchStart", Q: "q"}
			case r.pending() > 0:
				st = vlStep{A: "Deliver", Q: "q"}
			}
			if st.A == "" {
				break
			}
			r.step(i, st)
			i++
		}
		r.stop()
		if r.aborted {
			aborted++
		}
		n++
	}
	vlG.mu.Lock()
	hits, _ := json.Marshal(vlG.hits)
	vlG.mu.Unlock()
	t.Logf("gate hits %s", hits)
	t.Logf("not replayed %d", aborted)
	t.Logf("replayed %d schedules", n)
}
