//go:build verif

package metadata

// Verification harness (injected with `go test -overlay`; not part of the repository).
// Replays TLC-generated schedules of Lease.tla on real PartitionLeaseManager / GroupLeaseManager
// instances over one embedded etcd.  Steps of a schedule are executed one at a time; goroutines of
// the managers are parked at the verifGate points and released by the schedule.  After every step
// the lock-protected state of every manager (m.owned, m.session under m.mu), the lease keys and
// the liveness of every lease (admin client) are projected into one ndjson line.

import (
	"bufio"
	"context"
	"encoding/json"
	"errors"
	"fmt"
	"os"
	"sort"
	"strings"
	"sync"
	"testing"
	"time"

	"github.com/KafScale/platform/internal/testutil"
	clientv3 "go.etcd.io/etcd/client/v3"
	"go.etcd.io/etcd/client/v3/concurrency"
)

type vlStep struct {
	A string `json:"a"`
	B string `json:"b,omitempty"`
	R string `json:"r,omitempty"`
	L int    `json:"l,omitempty"`
	Q string `json:"q,omitempty"`
	K string `json:"k,omitempty"`
	V string `json:"v,omitempty"`
	N int    `json:"n,omitempty"`
}

type vlSched struct {
	Kind  string   `json:"kind"` // "partition" | "group"
	Label string   `json:"label"`
	Steps []vlStep `json:"steps"`
}

type vlEvent struct {
	kind  string // "arrive" | "done"
	point string
	id    string
	err   error
}

// ---- gate controller -------------------------------------------------------------------------

type vlGates struct {
	mu      sync.Mutex
	parked  map[string]chan struct{} // point#id -> release channel
	passAll bool
	known   map[string]bool // monitor ids (broker|leasehex) of the running schedule
	events  chan vlEvent
	hits    map[string]int
}

var vlG = &vlGates{parked: map[string]chan struct{}{}, known: map[string]bool{}, events: make(chan vlEvent, 1024), hits: map[string]int{}}

func (g *vlGates) gate(point, id string) {
	g.mu.Lock()
	g.hits[point]++
	if strings.HasPrefix(point, "router.") {
		f := vrGate
		g.mu.Unlock()
		if f != nil {
			f(point, id)
		}
		return
	}
	if g.passAll || (point == "lease.monitor" && !g.known[id]) {
		g.mu.Unlock()
		return
	}
	ch := make(chan struct{})
	g.parked[point+"#"+id] = ch
	g.mu.Unlock()
	g.events <- vlEvent{kind: "arrive", point: point, id: id}
	<-ch
}

func (g *vlGates) isParked(point, id string) bool {
	g.mu.Lock()
	defer g.mu.Unlock()
	_, ok := g.parked[point+"#"+id]
	return ok
}

func (g *vlGates) release(point, id string) bool {
	g.mu.Lock()
	ch, ok := g.parked[point+"#"+id]
	if ok {
		delete(g.parked, point+"#"+id)
	}
	g.mu.Unlock()
	if ok {
		close(ch)
	}
	return ok
}

func (g *vlGates) releaseAll(pass bool) {
	g.mu.Lock()
	g.passAll = pass
	for k, ch := range g.parked {
		close(ch)
		delete(g.parked, k)
	}
	g.mu.Unlock()
}

// vrGate is set by the router harness while it runs (router gates have their own scheduler).
var vrGate func(point, id string)

// ---- keepalive under schedule control -----------------------------------------------------------
// The etcd client's lessor sends its first keepalive up to 500 ms after KeepAlive() and then every TTL/3; a
// revoked lease is noticed at whatever real time the next keepalive happens to go out.  To keep replays free
// of wall-clock races the managers' clients carry a wrapped clientv3.Lease: Grant / Revoke / everything else
// go to etcd unchanged, KeepAlive returns a channel that is closed (a) when the session's context ends
// (Session.Orphan / Close, as the real lessor does) or (b) by the schedule's SessDone step = "the keepalive
// loop found the lease gone".  No keepalives are sent; leases have a TTL of 600 s.
type vlLease struct {
	clientv3.Lease
	mu    sync.Mutex
	chans map[clientv3.LeaseID]chan *clientv3.LeaseKeepAliveResponse
}

func (w *vlLease) KeepAlive(ctx context.Context, id clientv3.LeaseID) (<-chan *clientv3.LeaseKeepAliveResponse, error) {
	ch := make(chan *clientv3.LeaseKeepAliveResponse)
	w.mu.Lock()
	w.chans[id] = ch
	w.mu.Unlock()
	go func() {
		<-ctx.Done()
		w.closeKA(id)
	}()
	return ch, nil
}

func (w *vlLease) closeKA(id clientv3.LeaseID) {
	w.mu.Lock()
	if ch, ok := w.chans[id]; ok {
		close(ch)
		delete(w.chans, id)
	}
	w.mu.Unlock()
}

func (w *vlLease) closeAll() {
	w.mu.Lock()
	for id, ch := range w.chans {
		close(ch)
		delete(w.chans, id)
	}
	w.mu.Unlock()
}

// ---- one schedule ----------------------------------------------------------------------------

type vlBroker struct {
	id     string
	client *clientv3.Client
	lm     *LeaseManager
	pm     *PartitionLeaseManager
	gm     *GroupLeaseManager
	ops    map[string]chan error // "acq|r" / "rel|r" -> completion
	dead   bool
	lease  *vlLease
}

type vlRun struct {
	t         *testing.T
	endpoints []string
	admin     *clientv3.Client
	kind      string
	tag       string // unique per schedule: keeps keys of different schedules apart
	brokers   map[string]*vlBroker
	bnames    []string
	rnames    []string
	leases    []clientv3.LeaseID // model lease id = index+1
	pending   []vlEvent
	emit      func(map[string]any)
	aborted   bool
	allOps    []vlOp
}

type vlOp struct {
	b   *vlBroker
	fin chan struct{}
}

const (
	vlLong  = 60 * time.Second
	vlShort = 3 * time.Second
)

func (r *vlRun) resID(res string) string { // resource id as used by the LeaseManager
	if r.kind == "group" {
		return r.tag + res
	}
	return r.tag + res + "/0"
}

func (r *vlRun) etcdKey(res string) string {
	if r.kind == "group" {
		return groupLeasePrefix + "/" + r.tag + res
	}
	return partitionLeaseKey(r.tag+res, 0)
}

func (r *vlRun) newBroker(id string) *vlBroker {
	cli, err := clientv3.New(clientv3.Config{Endpoints: r.endpoints, DialTimeout: 10 * time.Second})
	if err != nil {
		r.t.Fatalf("etcd client: %v", err)
	}
	b := &vlBroker{id: id, client: cli, ops: map[string]chan error{}}
	b.lease = &vlLease{Lease: cli.Lease, chans: map[clientv3.LeaseID]chan *clientv3.LeaseKeepAliveResponse{}}
	cli.Lease = b.lease
	if r.kind == "group" {
		b.gm = NewGroupLeaseManager(cli, GroupLeaseConfig{BrokerID: id, LeaseTTLSeconds: 600})
		b.lm = b.gm.lm
	} else {
		b.pm = NewPartitionLeaseManager(cli, PartitionLeaseConfig{BrokerID: id, LeaseTTLSeconds: 600})
		b.lm = b.pm.lm
	}
	return b
}

func (r *vlRun) acquire(b *vlBroker, res string) error {
	if r.kind == "group" {
		return b.gm.Acquire(context.Background(), r.tag+res)
	}
	return b.pm.Acquire(context.Background(), r.tag+res, 0)
}

func (r *vlRun) releaseRes(b *vlBroker, res string) {
	if r.kind == "group" {
		b.gm.Release(r.tag + res)
	} else {
		b.pm.Release(r.tag+res, 0)
	}
}

func (r *vlRun) modelLease(id clientv3.LeaseID) int {
	if id == 0 {
		return 0
	}
	for i, l := range r.leases {
		if l == id {
			return i + 1
		}
	}
	return -1
}

func vlMonID(b string, l clientv3.LeaseID) string { return fmt.Sprintf("%s|%x", b, int64(l)) }

// wait for one event satisfying want; other events are kept for later steps.
func (r *vlRun) wait(timeout time.Duration, want func(vlEvent) bool) (vlEvent, bool) {
	for i, e := range r.pending {
		if want(e) {
			r.pending = append(r.pending[:i], r.pending[i+1:]...)
			return e, true
		}
	}
	deadline := time.After(timeout)
	for {
		select {
		case e := <-vlG.events:
			if want(e) {
				return e, true
			}
			r.pending = append(r.pending, e)
		case <-deadline:
			return vlEvent{}, false
		}
	}
}

func (r *vlRun) sessionOf(b *vlBroker) *concurrency.Session {
	b.lm.mu.RLock()
	defer b.lm.mu.RUnlock()
	return b.lm.session
}

func (r *vlRun) noteSession(b *vlBroker) {
	if s := r.sessionOf(b); s != nil && r.modelLease(s.Lease()) < 0 {
		r.leases = append(r.leases, s.Lease())
		vlG.mu.Lock()
		vlG.known[vlMonID(b.id, s.Lease())] = true
		vlG.mu.Unlock()
	}
}

func (r *vlRun) getKey(res string) map[string]any {
	ctx, cancel := context.WithTimeout(context.Background(), 20*time.Second)
	defer cancel()
	resp, err := r.admin.Get(ctx, r.etcdKey(res))
	if err != nil {
		r.t.Fatalf("admin get: %v", err)
	}
	if len(resp.Kvs) == 0 {
		return map[string]any{"owner": "", "lease": 0, "mod": 0}
	}
	kv := resp.Kvs[0]
	return map[string]any{"owner": string(kv.Value), "lease": r.modelLease(clientv3.LeaseID(kv.Lease)), "mod": kv.ModRevision}
}

// projection of the real state into the model's vocabulary
func (r *vlRun) state() map[string]any {
	owned, sess, closed := map[string]any{}, map[string]any{}, map[string]any{}
	for _, bn := range r.bnames {
		b := r.brokers[bn]
		b.lm.mu.RLock()
		rs := []string{}
		for _, rn := range r.rnames {
			if _, ok := b.lm.owned[r.resID(rn)]; ok {
				rs = append(rs, rn)
			}
		}
		extra := len(b.lm.owned) - len(rs)
		s := 0
		if b.lm.session != nil {
			s = r.modelLease(b.lm.session.Lease())
		}
		b.lm.mu.RUnlock()
		if extra != 0 {
			rs = append(rs, "?")
		}
		sort.Strings(rs)
		owned[bn], sess[bn], closed[bn] = rs, s, b.lm.closed.Load()
	}
	alive := []int{}
	ctx, cancel := context.WithTimeout(context.Background(), 20*time.Second)
	lresp, err := r.admin.Leases(ctx) // the leases etcd currently holds (expired / revoked ones are gone)
	cancel()
	if err != nil {
		r.t.Fatalf("admin leases: %v", err)
	}
	for _, ls := range lresp.Leases {
		if m := r.modelLease(ls.ID); m > 0 {
			alive = append(alive, m)
		}
	}
	sort.Ints(alive)
	key := map[string]any{}
	for _, rn := range r.rnames {
		k := r.getKey(rn)
		delete(k, "mod")
		key[rn] = k
	}
	return map[string]any{"owned": owned, "sess": sess, "closed": closed, "alive": alive, "key": key}
}

func vlErrClass(err error) string {
	switch {
	case err == nil:
		return "ok"
	case errors.Is(err, ErrNotOwner):
		return "notowner"
	case errors.Is(err, ErrShuttingDown):
		return "shutdown"
	default:
		return "error"
	}
}

func (r *vlRun) abort(i int, st vlStep, why string) {
	r.aborted = true
	r.emit(map[string]any{"ev": "Abort", "step": i, "a": st.A, "why": why})
}

// opposite-kind call of the same broker in flight (the repaired tree serialises Release with acquires)
func (r *vlRun) inflight(b *vlBroker, prefix string) bool {
	for k := range b.ops {
		if strings.HasPrefix(k, prefix) {
			return true
		}
	}
	return false
}

func (r *vlRun) startOp(b *vlBroker, name, id string, f func() error) {
	ch := make(chan error, 1)
	b.ops[name] = ch
	fin := make(chan struct{})
	r.allOps = append(r.allOps, vlOp{b, fin})
	bid := b.id
	go func() {
		err := f()
		ch <- err
		vlG.events <- vlEvent{kind: "done", point: name, id: bid + "|" + id, err: err}
		close(fin)
	}()
}

// acquire goroutine of (b, res): released from its current gate, runs to the next gate or to completion
func (r *vlRun) advanceAcq(b *vlBroker, res string, i int, st vlStep, from []string, to string) (string, bool) {
	id := b.id + "|" + r.resID(res)
	released := false
	for _, p := range from {
		if vlG.release(p, id) {
			released = true
			break
		}
	}
	if !released {
		r.abort(i, st, "acquire of "+id+" is not parked at "+strings.Join(from, "/"))
		return "", false
	}
	e, ok := r.wait(vlLong, func(e vlEvent) bool {
		return e.id == id && (e.kind == "done" && e.point == "acq|"+res || e.kind == "arrive" && e.point == to)
	})
	if !ok {
		r.t.Fatalf("step %d %v: acquire goroutine neither finished nor reached %s", i, st, to)
	}
	if e.kind == "done" {
		delete(b.ops, "acq|"+res)
		return vlErrClass(e.err), true
	}
	return "parked", true
}

func (r *vlRun) step(i int, st vlStep) {
	b := r.brokers[st.B]
	line := map[string]any{"ev": st.A, "step": i}
	if st.B != "" {
		line["b"] = st.B
	}
	if st.R != "" {
		line["r"] = st.R
	}
	switch st.A {
	case "AcqSession":
		if _, busy := b.ops["acq|"+st.R]; busy {
			r.abort(i, st, "acquire already in flight")
			return
		}
		id := b.id + "|" + r.resID(st.R)
		res := st.R
		r.startOp(b, "acq|"+res, r.resID(res), func() error { return r.acquire(b, res) })
		to := vlLong
		if r.inflight(b, "rel|") {
			to = vlShort
		}
		e, ok := r.wait(to, func(e vlEvent) bool {
			return e.id == id && (e.kind == "done" && e.point == "acq|"+res || e.kind == "arrive" && e.point == "lease.afterSession")
		})
		if !ok {
			if to == vlShort {
				r.abort(i, st, "blocked: acquire waits for a running Release of the same broker")
				return
			}
			r.t.Fatalf("step %d %v: no arrival at lease.afterSession", i, st)
		}
		r.noteSession(b)
		if e.kind == "done" {
			delete(b.ops, "acq|"+res)
			line["res"] = vlErrClass(e.err)
		} else {
			line["res"] = "parked"
		}
	case "AcqTxn":
		res, ok := r.advanceAcq(b, st.R, i, st, []string{"lease.afterSession"}, "lease.afterTxn")
		if !ok {
			return
		}
		line["res"] = res
	case "AcqReacq", "AcqCommit", "AcqFail":
		// one input: "let the acquire goroutine of (b, r) run on from the gate behind its txn".  What the code then does
		// (commit, give up, or go into reacquire) is the code's decision; the line is named after what was observed.
		res, ok := r.advanceAcq(b, st.R, i, st, []string{"lease.afterTxn", "lease.afterReacquire"}, "lease.afterReacquire")
		if !ok {
			return
		}
		line["res"] = res
		switch res {
		case "parked":
			line["ev"] = "AcqReacq"
		case "ok":
			line["ev"] = "AcqCommit"
		case "notowner":
			line["ev"] = "AcqFail"
		default: // an error: either the txn failed (AcqFail) or the session changed before the commit (AcqCommit)
			if st.A == "AcqReacq" {
				line["ev"] = "AcqFail"
			}
		}
		line["want"] = st.A
	case "RelLocal":
		if _, busy := b.ops["rel|"+st.R]; busy {
			r.abort(i, st, "release already in flight")
			return
		}
		id := b.id + "|" + r.resID(st.R)
		res := st.R
		r.startOp(b, "rel|"+res, r.resID(res), func() error { r.releaseRes(b, res); return nil })
		to := vlLong
		if r.inflight(b, "acq|") {
			to = vlShort
		}
		e, ok := r.wait(to, func(e vlEvent) bool {
			return e.id == id && (e.kind == "done" && e.point == "rel|"+res || e.kind == "arrive" && e.point == "lease.release")
		})
		if !ok {
			if to == vlShort {
				r.abort(i, st, "blocked: release waits for an in-flight acquire of the same broker")
				return
			}
			r.t.Fatalf("step %d %v: no arrival at lease.release", i, st)
		}
		if e.kind == "done" {
			delete(b.ops, "rel|"+res)
			line["res"] = "noop"
		} else {
			line["res"] = "parked"
		}
	case "RelDelete":
		id := b.id + "|" + r.resID(st.R)
		line["kb"] = r.getKey(st.R)
		if !vlG.release("lease.release", id) {
			r.abort(i, st, "release of "+id+" is not parked at lease.release")
			return
		}
		res := st.R
		if _, ok := r.wait(vlLong, func(e vlEvent) bool { return e.id == id && e.kind == "done" && e.point == "rel|"+res }); !ok {
			r.t.Fatalf("step %d %v: Release did not return", i, st)
		}
		delete(b.ops, "rel|"+res)
		line["ka"] = r.getKey(st.R)
	case "ServerExpire":
		line["l"] = st.L
		if st.L < 1 || st.L > len(r.leases) {
			r.abort(i, st, "lease was never created by the real code")
			return
		}
		ctx, cancel := context.WithTimeout(context.Background(), 20*time.Second)
		_, err := r.admin.Revoke(ctx, r.leases[st.L-1])
		cancel()
		if err != nil {
			r.abort(i, st, "revoke: "+err.Error())
			return
		}
	case "SessDone":
		// the keepalive loop ends: the lessor closes the session's keepalive channel, which is what a lost lease does to it
		s := r.sessionOf(b)
		if s == nil {
			r.abort(i, st, "manager has no session")
			return
		}
		line["l"] = r.modelLease(s.Lease())
		b.lease.closeKA(s.Lease())
		mid := vlMonID(b.id, s.Lease())
		if _, ok := r.wait(vlLong, func(e vlEvent) bool { return e.kind == "arrive" && e.point == "lease.monitor" && e.id == mid }); !ok {
			r.t.Fatalf("step %d %v: monitorSession did not reach its gate", i, st)
		}
	case "Monitor":
		line["l"] = st.L
		if st.L < 1 || st.L > len(r.leases) {
			r.abort(i, st, "lease was never created by the real code")
			return
		}
		lid := r.leases[st.L-1]
		s := r.sessionOf(b)
		if !vlG.release("lease.monitor", vlMonID(b.id, lid)) {
			r.abort(i, st, "monitor is not parked")
			return
		}
		if s != nil && s.Lease() == lid { // it will clear: wait until it did (nothing else runs meanwhile)
			deadline := time.Now().Add(vlLong)
			for r.sessionOf(b) == s {
				if time.Now().After(deadline) {
					r.t.Fatalf("step %d %v: monitorSession did not clear the session", i, st)
				}
				time.Sleep(200 * time.Microsecond)
			}
		}
	case "ReleaseAll":
		s := r.sessionOf(b)
		if r.kind == "group" {
			b.gm.ReleaseAll()
		} else {
			b.pm.ReleaseAll()
		}
		if s != nil {
			mid := vlMonID(b.id, s.Lease())
			if !vlG.isParked("lease.monitor", mid) {
				if _, ok := r.wait(vlLong, func(e vlEvent) bool { return e.kind == "arrive" && e.point == "lease.monitor" && e.id == mid }); !ok {
					r.t.Fatalf("step %d %v: monitorSession did not reach its gate after ReleaseAll", i, st)
				}
			}
		}
	case "Crash":
		r.crash(b)
		r.brokers[st.B] = r.newBroker(st.B)
	default:
		r.t.Fatalf("unknown step %v", st)
	}
	if r.aborted {
		return
	}
	line["st"] = r.state()
	r.emit(line)
}

// the process dies: its etcd client is closed (no further etcd effect is possible) and its goroutines never run
// again: whatever is parked at a gate stays parked for good (leaked on purpose), nothing is revoked.
func (r *vlRun) crash(b *vlBroker) {
	s := r.sessionOf(b)
	if s != nil && vlG.isParked("lease.monitor", vlMonID(b.id, s.Lease())) {
		s = nil // its monitorSession already sits at the gate and stays there
	}
	vlG.mu.Lock()
	for k := range vlG.parked {
		if strings.Contains(k, "#"+b.id+"|") {
			delete(vlG.parked, k) // not released
		}
	}
	for k := range vlG.known {
		if strings.HasPrefix(k, b.id+"|") {
			delete(vlG.known, k) // a monitor of the dead incarnation that wakes up later passes straight through
		}
	}
	vlG.mu.Unlock()
	_ = b.client.Close()
	b.lease.closeAll()
	b.dead = true
	b.ops = map[string]chan error{}
	if s != nil { // the keepalive loop dies with the client; let the dead manager's monitorSession finish
		deadline := time.Now().Add(vlLong)
		for r.sessionOf(b) == s {
			if time.Now().After(deadline) {
				r.t.Fatalf("crash: monitorSession of %s did not finish", b.id)
			}
			time.Sleep(200 * time.Microsecond)
		}
	}
	keep := r.pending[:0]
	for _, e := range r.pending {
		if !strings.HasPrefix(e.id, b.id+"|") {
			keep = append(keep, e)
		}
	}
	r.pending = keep
}

func (r *vlRun) finish() {
	// let everything run to completion, record the final state, then clean up
	vlG.releaseAll(true)
	for _, op := range r.allOps {
		if op.b.dead {
			continue
		}
		select {
		case <-op.fin:
		case <-time.After(vlLong):
			r.t.Fatalf("an Acquire/Release call did not return at the end of the schedule")
		}
	}
	if r.aborted {
		r.emit(map[string]any{"ev": "Final", "st": r.state()})
	}
	for _, b := range r.brokers {
		_ = b.client.Close()
		b.lease.closeAll()
	}
	for _, l := range r.leases {
		ctx, cancel := context.WithTimeout(context.Background(), 20*time.Second)
		_, _ = r.admin.Revoke(ctx, l)
		cancel()
	}
	for {
		select {
		case <-vlG.events:
			continue
		default:
		}
		break
	}
	vlG.mu.Lock()
	vlG.known = map[string]bool{}
	vlG.mu.Unlock()
}

func vlOpenIO(t *testing.T) (*bufio.Scanner, func(map[string]any), func()) {
	in, outPath := os.Getenv("VERIF_SCHEDULES"), os.Getenv("VERIF_TRACE_OUT")
	if in == "" || outPath == "" {
		t.Skip("no schedules")
	}
	f, err := os.Open(in)
	if err != nil {
		t.Fatal(err)
	}
	out, err := os.Create(outPath)
	if err != nil {
		t.Fatal(err)
	}
	w := bufio.NewWriter(out)
	emit := func(m map[string]any) {
		b, err := json.Marshal(m)
		if err != nil {
			t.Fatal(err)
		}
		w.Write(b)
		w.WriteByte('\n')
	}
	sc := bufio.NewScanner(f)
	sc.Buffer(make([]byte, 1<<20), 1<<26)
	return sc, emit, func() { w.Flush(); out.Close(); f.Close() }
}

func TestVerifLeaseReplay(t *testing.T) {
	sc, emit, closeIO := vlOpenIO(t)
	defer closeIO()
	endpoints := testutil.StartEmbeddedEtcd(t)
	admin, err := clientv3.New(clientv3.Config{Endpoints: endpoints, DialTimeout: 10 * time.Second})
	if err != nil {
		t.Fatal(err)
	}
	defer admin.Close()
	VerifGate = vlG.gate
	defer func() { VerifGate = nil }()
	n, aborted := 0, 0
	for sc.Scan() {
		var s vlSched
		if err := json.Unmarshal(sc.Bytes(), &s); err != nil {
			t.Fatal(err)
		}
		vlG.releaseAll(false)
		r := &vlRun{t: t, endpoints: endpoints, admin: admin, kind: s.Kind, tag: fmt.Sprintf("s%d", n), brokers: map[string]*vlBroker{}, emit: emit}
		seenB, seenR := map[string]bool{"b1": true, "b2": true, "b3": true}, map[string]bool{"r1": true, "r2": true}
		for _, st := range s.Steps {
			if st.B != "" {
				seenB[st.B] = true
			}
			if st.R != "" {
				seenR[st.R] = true
			}
		}
		for b := range seenB {
			r.bnames = append(r.bnames, b)
			r.brokers[b] = r.newBroker(b)
		}
		for rn := range seenR {
			r.rnames = append(r.rnames, rn)
		}
		sort.Strings(r.bnames)
		sort.Strings(r.rnames)
		emit(map[string]any{"ev": "Reset", "sched": n, "kind": s.Kind, "label": s.Label})
		for i, st := range s.Steps {
			r.step(i, st)
			if r.aborted {
				break
			}
		}
		r.finish()
		if r.aborted {
			aborted++
		}
		n++
	}
	vlG.mu.Lock()
	hits, _ := json.Marshal(vlG.hits)
	vlG.mu.Unlock()
	t.Logf("gate hits %s", hits)
	t.Logf("not replayed %d", aborted)
	t.Logf("replayed %d schedules", n)
}
