CONSTANTS
 Brokers = {}
 Res = {"r1","r2"}
 Routers = {"q"}
 Vals = {"b1","b2"}
 MaxLeases = 0
 MaxAcq = 0
 MaxExpire = 0
 MaxRelease = 0
 MaxRelAll = 0
 MaxCrash = 0
 MaxBlip = 0
 MaxAdmin = 1000000
 MaxClose = 1000
 MaxInval = 1000
 MaxCompact = 1000
 MaxBatch = 1000
 FixRelease = TRUE
 DevReleaseRace = FALSE
 DevPutIfOwnerOther = FALSE
 DevReacqBlind = FALSE
 DevDropSameRev = FALSE
 DevNoReload = FALSE
 DevLoadMerge = FALSE
 DevPutsFirst = FALSE
 FixRev = TRUE
 KeepHist = TRUE
INIT TInit
NEXT TNext
POSTCONDITION Reached
CHECK_DEADLOCK FALSE
