CONSTANTS
 Brokers = {}
 Res = {"r1","r2"}
 Routers = {"q"}
 Vals = {"b1","b2"}
 MaxLeases = 0
 MaxAcq = 0
 MaxExpire = 0
 MaxRelease = 0
 MaxRelAll = 0
 MaxCrash = 0
 MaxBlip = 0
 MaxAdmin = 2
 MaxClose = 0
 MaxInval = 0
 MaxCompact = 0
 MaxBatch = 1
 FixRelease = TRUE
 DevReleaseRace = FALSE
 DevPutIfOwnerOther = FALSE
 DevReacqBlind = FALSE
 DevDropSameRev = FALSE
 DevNoReload = FALSE
 DevLoadMerge = FALSE
 DevPutsFirst = FALSE
 FixRev = FALSE
 KeepHist = FALSE
SPECIFICATION FairSpec
PROPERTIES C20_EventuallyConverged
CHECK_DEADLOCK FALSE
