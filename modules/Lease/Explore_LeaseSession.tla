---- MODULE Explore_LeaseSession ----
(* Exploration only (not part of the registered checks): getOrCreateSession at its real granularity.           *)
(* Lease.tla takes getOrCreateSession as one atomic step (there is no gate inside it).  The code has two        *)
(* critical sections with concurrency.NewSession (an etcd LeaseGrant) between them:                             *)
(*   A: if m.session is usable return it; if it is Done: m.session = nil, m.owned = {}                          *)
(*   B: (after NewSession) if closed: give up; if m.session is usable: use it, drop the new one;                *)
(*      otherwise m.session = new          <- an already-Done m.session is replaced WITHOUT clearing m.owned    *)
EXTENDS Lease
AcqSessA(b, r) ==
  /\ apc[b][r] = "idle" /\ r \notin owned[b] /\ ~closed[b] /\ cnt.acq < MaxAcq
  /\ Serial => \A r2 \in Res : rpc[b][r2] = "idle"
  /\ IF Usable(b)
     THEN /\ asess' = [asess EXCEPT ![b][r] = sess[b]] /\ apc' = [apc EXCEPT ![b][r] = "txn"] /\ UNCHANGED <<sess, owned>>
     ELSE /\ apc' = [apc EXCEPT ![b][r] = "grant"] /\ UNCHANGED asess
          /\ IF sess[b] # 0 THEN sess' = [sess EXCEPT ![b] = 0] /\ owned' = [owned EXCEPT ![b] = {}] ELSE UNCHANGED <<sess, owned>>
  /\ Count("acq") /\ Log([a |-> "AcqSessA", b |-> b, r |-> r])
  /\ rdel' = NoDel /\ NoEtcd /\ UNCHANGED <<alive, nextL, sdone, mon, closed, ares, rpc, rsess, rvars>>
AcqSessB(b, r) ==
  /\ apc[b][r] = "grant" /\ nextL <= MaxLeases
  /\ nextL' = nextL + 1
  /\ IF closed[b]
     THEN /\ apc' = [apc EXCEPT ![b][r] = "idle"] /\ UNCHANGED <<alive, sess, asess>>
     ELSE IF Usable(b)
          THEN /\ asess' = [asess EXCEPT ![b][r] = sess[b]] /\ apc' = [apc EXCEPT ![b][r] = "txn"] /\ UNCHANGED <<alive, sess>>
          ELSE /\ alive' = alive \cup {nextL} /\ sess' = [sess EXCEPT ![b] = nextL]      \* m.owned is not touched here
               /\ asess' = [asess EXCEPT ![b][r] = nextL] /\ apc' = [apc EXCEPT ![b][r] = "txn"]
  /\ Log([a |-> "AcqSessB", b |-> b, r |-> r])
  /\ rdel' = NoDel /\ NoEtcd /\ UNCHANGED <<sdone, mon, owned, closed, ares, rpc, rsess, cnt, rvars>>
FineNext == \/ Next /\ hist'[Len(hist')].a # "AcqSession"
            \/ \E b \in Brokers, r \in Res : AcqSessA(b, r) \/ AcqSessB(b, r)
====
