---- MODULE Lease ----
(* etcd lease keys, the per-broker LeaseManager (pkg/metadata/lease_manager.go, used through         *)
(* partition_lease.go / group_lease.go) and the proxy routers (partition_router.go, group_router.go). *)
(*                                                                                                    *)
(* Granularity = one action per etcd operation / critical section, cut exactly at the scheduler gates *)
(* of repo_patches/hook-metadata-gates.patch:                                                         *)
(*   Acquire:  AcqSession --gate lease.afterSession--> AcqTxn --gate lease.afterTxn-->                *)
(*             AcqCommit | AcqFail | AcqReacq --gate lease.afterReacquire--> AcqCommit | AcqFail      *)
(*   Release:  RelLocal --gate lease.release--> RelDelete                                             *)
(*   session:  ServerExpire (etcd revokes/expires the lease, deletes attached keys), SessDone (the    *)
(*             client's keepalive loop closes session.Done()), --gate lease.monitor--> Monitor        *)
(*   router:   Load --gate router.beforeWatch--> WatchStart, Deliver, WatchClose, Invalidate          *)
(* Lease ids are 1..MaxLeases in creation order; 0 = no session / no lease; owner "" = key absent.    *)
EXTENDS Integers, Sequences, FiniteSets, TLC, Json
CONSTANTS Brokers, Res, Routers, Vals,
          MaxLeases, MaxAcq, MaxExpire, MaxRelease, MaxRelAll, MaxCrash, MaxBlip,   \* bounds, lease part
          MaxAdmin, MaxClose, MaxInval, MaxCompact, MaxBatch,                                 \* bounds, router part
          FixRelease,          \* TRUE: Release deletes with a txn guarded by value = self AND lease = the session captured at
                               \*       release start, and is serialised with this broker's acquires (repaired tree);
                               \* FALSE: unconditional, unserialised delete (pinned tree)
          DevReleaseRace,      \* deviation: guarded delete but no serialisation with the broker's own acquire
          DevPutIfOwnerOther,  \* deviation: the acquire txn lost its create-if-absent guard (overwrites a foreign key)
          DevReacqBlind,       \* deviation: reacquire() is a plain Put instead of a txn guarded by Value(key) = self
          DevDropSameRev,      \* deviation: the router applies only one of the events that share a revision
          DevLoadMerge,        \* deviation: loadAll writes the keys it read into the existing table instead of replacing the table
          DevPutsFirst,        \* deviation: inside one watch response all puts are applied before all deletes (event order lost)
          DevNoReload,         \* deviation: after a closed stream the router resumes its watch without re-reading the prefix
                               \*            (and fast-forwards to the compaction revision when etcd refuses the start revision)
          FixRev,              \* TRUE: watch starts at loadRevision+1 (repaired tree); FALSE: watch starts "now" (pinned tree)
          KeepHist             \* FALSE only in the liveness configs (no VIEW there, so the history must not grow)
VARIABLES key, alive, nextL, sess, sdone, mon, owned, closed, apc, asess, ares, rpc, rsess, rdel, cnt,
          rev, elog, rst, table, revL, from, inval, compacted, hist
lrest == <<alive, nextL, sess, sdone, mon, owned, closed, apc, asess, ares, rpc, rsess>>
lvars == <<key, lrest>>
rvars == <<rst, table, revL, from, inval, compacted>>
vars == <<lvars, rdel, cnt, rev, elog, rvars, hist>>

Absent == [owner |-> "", lease |-> 0]
NoDel == [b |-> "", owner |-> ""]
Cnt0 == [acq |-> 0, exp |-> 0, rel |-> 0, relall |-> 0, crash |-> 0, blip |-> 0, admin |-> 0, close |-> 0, inval |-> 0, compact |-> 0]

Init == /\ key = [r \in Res |-> Absent] /\ alive = {} /\ nextL = 1
        /\ sess = [b \in Brokers |-> 0] /\ sdone = {} /\ mon = [b \in Brokers |-> {}]
        /\ owned = [b \in Brokers |-> {}] /\ closed = [b \in Brokers |-> FALSE]
        /\ apc = [b \in Brokers |-> [r \in Res |-> "idle"]] /\ asess = [b \in Brokers |-> [r \in Res |-> 0]]
        /\ ares = [b \in Brokers |-> [r \in Res |-> "none"]]
        /\ rpc = [b \in Brokers |-> [r \in Res |-> "idle"]] /\ rsess = [b \in Brokers |-> [r \in Res |-> 0]]
        /\ rdel = NoDel /\ cnt = Cnt0
        /\ rev = 0 /\ elog = <<>>
        /\ rst = [q \in Routers |-> "init"] /\ table = [q \in Routers |-> [r \in Res |-> ""]]
        /\ revL = [q \in Routers |-> 0] /\ from = [q \in Routers |-> 0] /\ inval = [q \in Routers |-> {}] /\ compacted = 0
        /\ hist = <<>>

Log(e) == hist' = IF KeepHist THEN Append(hist, e) ELSE hist
Count(f) == cnt' = [cnt EXCEPT ![f] = @ + 1]

\* One etcd write transaction: new key map nk, keys touched.  Each write transaction that touches the prefix is one
\* revision carrying one event per touched key (a lease revoke deletes all attached keys in one revision).  The
\* revision counter and event log exist only when a router is modelled.
EtcdWrite(nk, touched) ==
  /\ key' = nk
  /\ IF Routers = {} \/ touched = {} THEN UNCHANGED <<rev, elog>>
     ELSE /\ rev' = rev + 1
          /\ elog' = Append(elog, {[k |-> r, v |-> nk[r].owner] : r \in touched})
NoEtcd == UNCHANGED <<key, rev, elog>>

Serial == FixRelease /\ ~DevReleaseRace
Usable(b) == sess[b] # 0 /\ sess[b] \notin sdone     \* m.session != nil and its Done channel not closed

(* ---------------------------------------------------------------- LeaseManager.Acquire ------------------------ *)
\* Acquire fast path (not owned), doAcquire re-check, getOrCreateSession.  r \notin owned[b] stays true until this
\* acquire commits (singleflight: one doAcquire per (broker, resource)), so reading it here is exact.
AcqSession(b, r) ==
  /\ apc[b][r] = "idle" /\ r \notin owned[b] /\ ~closed[b] /\ cnt.acq < MaxAcq
  /\ Serial => \A r2 \in Res : rpc[b][r2] = "idle"            \* releaseMu.RLock() waits for a running Release
  /\ IF Usable(b)
     THEN /\ asess' = [asess EXCEPT ![b][r] = sess[b]] /\ UNCHANGED <<alive, nextL, sess, owned>>
     ELSE /\ nextL <= MaxLeases
          /\ alive' = alive \cup {nextL} /\ nextL' = nextL + 1
          /\ sess' = [sess EXCEPT ![b] = nextL]
          /\ owned' = IF sess[b] # 0 THEN [owned EXCEPT ![b] = {}] ELSE owned   \* dead session noticed here: bulk clear
          /\ asess' = [asess EXCEPT ![b][r] = nextL]
  /\ apc' = [apc EXCEPT ![b][r] = "txn"]
  /\ Count("acq") /\ Log([a |-> "AcqSession", b |-> b, r |-> r])
  /\ rdel' = NoDel /\ NoEtcd /\ UNCHANGED <<sdone, mon, closed, ares, rpc, rsess, rvars>>

\* Txn: If(CreateRevision(key) = 0) Then(Put(key, self, WithLease(session))) Else(Get(key)).
\* A put with a lease that no longer exists fails the whole txn ("requested lease not found").
AcqTxn(b, r) ==
  /\ apc[b][r] = "txn"
  /\ LET l == asess[b][r]
         put == [key EXCEPT ![r] = [owner |-> b, lease |-> l]]
     IN IF key[r] = Absent \/ (DevPutIfOwnerOther /\ key[r].owner # b)
        THEN IF l \in alive THEN /\ EtcdWrite(put, {r}) /\ ares' = [ares EXCEPT ![b][r] = "ok"]
                            ELSE /\ NoEtcd /\ ares' = [ares EXCEPT ![b][r] = "err"]
        ELSE /\ NoEtcd /\ ares' = [ares EXCEPT ![b][r] = IF key[r].owner = b THEN "self" ELSE "other"]
  /\ apc' = [apc EXCEPT ![b][r] = "post"]
  /\ Log([a |-> "AcqTxn", b |-> b, r |-> r])
  /\ rdel' = NoDel /\ UNCHANGED <<alive, nextL, sess, sdone, mon, owned, closed, asess, rpc, rsess, cnt, rvars>>

\* reacquire(): If(Value(key) = self) Then(Put(key, self, WithLease(session)))  (a Value compare on a missing key fails)
AcqReacq(b, r) ==
  /\ apc[b][r] = "post" /\ ares[b][r] = "self"
  /\ LET l == asess[b][r] IN
     IF key[r].owner = b \/ DevReacqBlind
     THEN IF l \in alive THEN /\ EtcdWrite([key EXCEPT ![r] = [owner |-> b, lease |-> l]], {r}) /\ ares' = [ares EXCEPT ![b][r] = "ok"]
                         ELSE /\ NoEtcd /\ ares' = [ares EXCEPT ![b][r] = "err"]
     ELSE /\ NoEtcd /\ ares' = [ares EXCEPT ![b][r] = "other"]
  /\ apc' = [apc EXCEPT ![b][r] = "rpost"]
  /\ Log([a |-> "AcqReacq", b |-> b, r |-> r])
  /\ rdel' = NoDel /\ UNCHANGED <<alive, nextL, sess, sdone, mon, owned, closed, asess, rpc, rsess, cnt, rvars>>

\* m.mu.Lock(); if m.session != session { error }; m.owned[r] = {}
AcqCommit(b, r) ==
  /\ apc[b][r] \in {"post", "rpost"} /\ ares[b][r] = "ok"
  /\ owned' = IF sess[b] = asess[b][r] THEN [owned EXCEPT ![b] = @ \cup {r}] ELSE owned
  /\ apc' = [apc EXCEPT ![b][r] = "idle"] /\ ares' = [ares EXCEPT ![b][r] = "none"] /\ asess' = [asess EXCEPT ![b][r] = 0]
  /\ Log([a |-> "AcqCommit", b |-> b, r |-> r])
  /\ rdel' = NoDel /\ NoEtcd /\ UNCHANGED <<alive, nextL, sess, sdone, mon, closed, rpc, rsess, cnt, rvars>>

\* ErrNotOwner / txn error: return without touching local state
AcqFail(b, r) ==
  /\ apc[b][r] \in {"post", "rpost"} /\ ares[b][r] \in {"other", "err"}
  /\ apc' = [apc EXCEPT ![b][r] = "idle"] /\ ares' = [ares EXCEPT ![b][r] = "none"] /\ asess' = [asess EXCEPT ![b][r] = 0]
  /\ Log([a |-> "AcqFail", b |-> b, r |-> r])
  /\ rdel' = NoDel /\ NoEtcd /\ UNCHANGED <<alive, nextL, sess, sdone, mon, owned, closed, rpc, rsess, cnt, rvars>>

(* ---------------------------------------------------------------- LeaseManager.Release ------------------------ *)
\* under m.mu: delete(m.owned, r) (repaired tree: also capture the current session's lease id)
RelLocal(b, r) ==
  /\ rpc[b][r] = "idle" /\ r \in owned[b] /\ cnt.rel < MaxRelease
  /\ Serial => \A r2 \in Res : apc[b][r2] = "idle" /\ rpc[b][r2] = "idle"   \* releaseMu.Lock() waits for in-flight acquires
  /\ owned' = [owned EXCEPT ![b] = @ \ {r}]
  /\ rsess' = [rsess EXCEPT ![b][r] = sess[b]]
  /\ rpc' = [rpc EXCEPT ![b][r] = "local"]
  /\ Count("rel") /\ Log([a |-> "RelLocal", b |-> b, r |-> r])
  /\ rdel' = NoDel /\ NoEtcd /\ UNCHANGED <<alive, nextL, sess, sdone, mon, closed, apc, asess, ares, rvars>>

\* the etcd part: unconditional Delete (pinned) / Txn If(Value = self, LeaseValue = captured) Then(Delete) (repaired)
RelDelete(b, r) ==
  /\ rpc[b][r] = "local"
  /\ LET doit == key[r] # Absent /\ (FixRelease => (key[r].owner = b /\ key[r].lease = rsess[b][r]))
     IN IF doit THEN /\ EtcdWrite([key EXCEPT ![r] = Absent], {r}) /\ rdel' = [b |-> b, owner |-> key[r].owner]
                ELSE /\ NoEtcd /\ rdel' = NoDel
  /\ rpc' = [rpc EXCEPT ![b][r] = "idle"] /\ rsess' = [rsess EXCEPT ![b][r] = 0]
  /\ Log([a |-> "RelDelete", b |-> b, r |-> r])
  /\ UNCHANGED <<alive, nextL, sess, sdone, mon, owned, closed, apc, asess, ares, cnt, rvars>>

(* ---------------------------------------------------------------- sessions ------------------------------------ *)
\* etcd expires / an admin revokes lease l: all attached keys are deleted in one revision
ServerExpire(l) ==
  /\ l \in alive /\ cnt.exp < MaxExpire
  /\ alive' = alive \ {l}
  /\ LET gone == {r \in Res : key[r].lease = l} IN
     EtcdWrite([r \in Res |-> IF r \in gone THEN Absent ELSE key[r]], gone)
  /\ Count("exp") /\ Log([a |-> "ServerExpire", l |-> l])
  /\ rdel' = NoDel /\ UNCHANGED <<nextL, sess, sdone, mon, owned, closed, apc, asess, ares, rpc, rsess, rvars>>

\* the keepalive loop of b's session ends (lease gone; or, bounded by MaxBlip, a keepalive failure while the lease
\* is still alive in etcd): session.Done() is closed and monitorSession wakes up at its gate
SessDone(b) ==
  /\ sess[b] # 0 /\ sess[b] \notin sdone
  /\ sess[b] \notin alive \/ cnt.blip < MaxBlip
  /\ sdone' = sdone \cup {sess[b]} /\ mon' = [mon EXCEPT ![b] = @ \cup {sess[b]}]
  /\ cnt' = IF sess[b] \in alive THEN [cnt EXCEPT !.blip = @ + 1] ELSE cnt
  /\ Log([a |-> "SessDone", b |-> b, l |-> sess[b]])
  /\ rdel' = NoDel /\ NoEtcd /\ UNCHANGED <<alive, nextL, sess, owned, closed, apc, asess, ares, rpc, rsess, rvars>>

\* monitorSession body: if m.session == session { m.session = nil; m.owned = {} }
Monitor(b, l) ==
  /\ l \in mon[b]
  /\ mon' = [mon EXCEPT ![b] = @ \ {l}]
  /\ IF sess[b] = l THEN /\ sess' = [sess EXCEPT ![b] = 0] /\ owned' = [owned EXCEPT ![b] = {}]
                    ELSE UNCHANGED <<sess, owned>>
  /\ Log([a |-> "Monitor", b |-> b, l |-> l])
  /\ rdel' = NoDel /\ NoEtcd /\ UNCHANGED <<alive, nextL, sdone, closed, apc, asess, ares, rpc, rsess, cnt, rvars>>

\* ReleaseAll: closed; clear owned and session under m.mu; session.Close() = stop keepalive + Revoke.
\* (atomic here: between the local clear and the revoke the broker owns nothing and its keys still block others)
ReleaseAll(b) ==
  /\ ~closed[b] /\ cnt.relall < MaxRelAll
  /\ closed' = [closed EXCEPT ![b] = TRUE]
  /\ owned' = [owned EXCEPT ![b] = {}] /\ sess' = [sess EXCEPT ![b] = 0]
  /\ LET l == sess[b]
         gone == IF l # 0 /\ l \in alive THEN {r \in Res : key[r].lease = l} ELSE {}
     IN /\ sdone' = IF l # 0 THEN sdone \cup {l} ELSE sdone
        /\ mon' = IF l # 0 THEN [mon EXCEPT ![b] = @ \cup {l}] ELSE mon
        /\ alive' = alive \ {l}
        /\ EtcdWrite([r \in Res |-> IF r \in gone THEN Absent ELSE key[r]], gone)
  /\ Count("relall") /\ Log([a |-> "ReleaseAll", b |-> b])
  /\ rdel' = NoDel /\ UNCHANGED <<nextL, apc, asess, ares, rpc, rsess, rvars>>

\* the broker process dies (in-flight calls die with it, nothing is revoked) and a fresh LeaseManager with the same
\* broker id starts.  After ReleaseAll this is the ordinary restart.
Crash(b) ==
  /\ cnt.crash < MaxCrash
  /\ sess' = [sess EXCEPT ![b] = 0] /\ owned' = [owned EXCEPT ![b] = {}] /\ closed' = [closed EXCEPT ![b] = FALSE]
  /\ mon' = [mon EXCEPT ![b] = {}]
  /\ apc' = [apc EXCEPT ![b] = [r \in Res |-> "idle"]] /\ asess' = [asess EXCEPT ![b] = [r \in Res |-> 0]]
  /\ ares' = [ares EXCEPT ![b] = [r \in Res |-> "none"]]
  /\ rpc' = [rpc EXCEPT ![b] = [r \in Res |-> "idle"]] /\ rsess' = [rsess EXCEPT ![b] = [r \in Res |-> 0]]
  /\ Count("crash") /\ Log([a |-> "Crash", b |-> b])
  /\ rdel' = NoDel /\ NoEtcd /\ UNCHANGED <<alive, nextL, sdone, rvars>>

(* ---------------------------------------------------------------- admin client + routers ---------------------- *)
AdminPut(k, v) ==
  /\ cnt.admin < MaxAdmin
  /\ EtcdWrite([key EXCEPT ![k] = [owner |-> v, lease |-> 0]], {k})
  /\ Count("admin") /\ Log([a |-> "AdminPut", k |-> k, v |-> v])
  /\ rdel' = NoDel /\ UNCHANGED <<lrest, rvars>>
AdminDel(k) ==
  /\ cnt.admin < MaxAdmin /\ key[k] # Absent
  /\ EtcdWrite([key EXCEPT ![k] = Absent], {k})
  /\ Count("admin") /\ Log([a |-> "AdminDel", k |-> k])
  /\ rdel' = NoDel /\ UNCHANGED <<lrest, rvars>>

\* one transaction deleting every present lease key: ONE revision carrying several events (what a lease revoke / ReleaseAll of
\* a broker that holds several leases does)
AdminDelAll ==
  /\ cnt.admin < MaxAdmin /\ Cardinality({k \in Res : key[k] # Absent}) >= 2
  /\ EtcdWrite([k \in Res |-> Absent], {k \in Res : key[k] # Absent})
  /\ Count("admin") /\ Log([a |-> "AdminDelAll"])
  /\ rdel' = NoDel /\ UNCHANGED <<lrest, rvars>>
\* etcd compacts its history at the current revision: a watch may no longer start below it
Compact ==
  /\ Routers # {} /\ cnt.compact < MaxCompact /\ compacted < rev
  /\ compacted' = rev
  /\ Count("compact") /\ Log([a |-> "Compact"])
  /\ rdel' = NoDel /\ NoEtcd /\ UNCHANGED <<lvars, rst, table, revL, from, inval>>

Owners == [r \in Res |-> key[r].owner]
\* loadAll: Get(prefix) at the current revision replaces the table (router construction, or after a closed stream).
\* revL is the router's `rev` variable: the revision its table is known to reflect.
Load(q) ==
  /\ rst[q] \in {"init", "closed"}
  /\ IF DevNoReload /\ rst[q] = "closed"
     THEN UNCHANGED <<table, revL, inval>>
     ELSE /\ table' = [table EXCEPT ![q] = IF DevLoadMerge THEN [r \in Res |-> IF Owners[r] # "" THEN Owners[r] ELSE @[r]] ELSE Owners]
          /\ revL' = [revL EXCEPT ![q] = rev] /\ inval' = [inval EXCEPT ![q] = {}]
  /\ rst' = [rst EXCEPT ![q] = "loaded"]
  /\ Log([a |-> "Load", q |-> q])
  /\ rdel' = NoDel /\ NoEtcd /\ UNCHANGED <<lvars, cnt, from, compacted>>
\* client.Watch(prefix [, WithRev(rev+1)]).  A start revision below the compaction revision is refused: the client delivers
\* one response carrying ErrCompacted and closes the channel.
WatchStart(q) ==
  /\ rst[q] = "loaded"
  /\ LET start == IF FixRev THEN revL[q] + 1 ELSE rev + 1 IN
     IF start < compacted
     THEN /\ rst' = [rst EXCEPT ![q] = "closed"] /\ UNCHANGED from
          /\ revL' = IF DevNoReload THEN [revL EXCEPT ![q] = compacted - 1] ELSE revL
     ELSE /\ rst' = [rst EXCEPT ![q] = "watching"] /\ from' = [from EXCEPT ![q] = start] /\ UNCHANGED revL
  /\ Log([a |-> "WatchStart", q |-> q])
  /\ rdel' = NoDel /\ NoEtcd /\ UNCHANGED <<lvars, cnt, table, inval, compacted>>
\* one watch response carrying the events of n consecutive revisions (a synced watcher gets one revision per response; a
\* watcher that is catching up gets several), applied in order under r.mu; the router's rev follows
Deliver(q, n) ==
  /\ rst[q] = "watching" /\ from[q] + n - 1 <= rev
  /\ LET revs == from[q]..(from[q] + n - 1)
         Evs(i) == IF DevDropSameRev THEN {CHOOSE e \in elog[i] : TRUE} ELSE elog[i]
         Touches(i, k) == \E e \in Evs(i) : e.k = k
         touched == {k \in Res : \E i \in revs : Touches(i, k)}
         LastRev(k) == CHOOSE i \in revs : Touches(i, k) /\ \A j \in revs : Touches(j, k) => j <= i
         LastVal(k) == (CHOOSE e \in Evs(LastRev(k)) : e.k = k).v
         PutRevs(k) == {i \in revs : \E e \in Evs(i) : e.k = k /\ e.v # ""}
         Deleted(k) == \E i \in revs : \E e \in Evs(i) : e.k = k /\ e.v = ""
         New(k) == IF DevPutsFirst THEN (IF Deleted(k) THEN "" ELSE LastVal(k)) ELSE LastVal(k)
     IN /\ table' = [table EXCEPT ![q] = [r \in Res |-> IF r \in touched THEN New(r) ELSE @[r]]]
        /\ inval' = [inval EXCEPT ![q] = @ \ touched]
  /\ revL' = [revL EXCEPT ![q] = from[q] + n - 1]
  /\ from' = [from EXCEPT ![q] = @ + n]
  /\ Log([a |-> "Deliver", q |-> q, n |-> n])
  /\ rdel' = NoDel /\ NoEtcd /\ UNCHANGED <<lvars, cnt, rst, compacted>>
\* the watch channel is closed (cancelled stream); the router will sleep and reload
WatchClose(q) ==
  /\ rst[q] = "watching" /\ cnt.close < MaxClose
  /\ rst' = [rst EXCEPT ![q] = "closed"]
  /\ Count("close") /\ Log([a |-> "WatchClose", q |-> q])
  /\ rdel' = NoDel /\ NoEtcd /\ UNCHANGED <<lvars, table, revL, from, inval, compacted>>
\* Invalidate(key): the proxy drops a route it found stale
Invalidate(q, k) ==
  /\ rst[q] # "init" /\ cnt.inval < MaxInval
  /\ table' = [table EXCEPT ![q][k] = ""] /\ inval' = [inval EXCEPT ![q] = @ \cup {k}]
  /\ Count("inval") /\ Log([a |-> "Invalidate", q |-> q, k |-> k])
  /\ rdel' = NoDel /\ NoEtcd /\ UNCHANGED <<lvars, rst, revL, from, compacted>>

LeaseNext == \/ \E b \in Brokers, r \in Res : AcqSession(b, r) \/ AcqTxn(b, r) \/ AcqReacq(b, r) \/ AcqCommit(b, r) \/ AcqFail(b, r)
                                              \/ RelLocal(b, r) \/ RelDelete(b, r)
             \/ \E l \in 1..MaxLeases : ServerExpire(l)
             \/ \E b \in Brokers : SessDone(b) \/ ReleaseAll(b) \/ Crash(b) \/ \E l \in 1..MaxLeases : Monitor(b, l)
RouterNext == \/ \E k \in Res : AdminDel(k) \/ \E v \in Vals : AdminPut(k, v)
              \/ AdminDelAll \/ Compact
              \/ \E q \in Routers : Load(q) \/ WatchStart(q) \/ (\E n \in 1..MaxBatch : Deliver(q, n)) \/ WatchClose(q) \/ \E k \in Res : Invalidate(q, k)
Next == LeaseNext \/ RouterNext
Spec == Init /\ [][Next]_vars
\* liveness formulation of C20: the router's own steps are weakly fair; changes, closes and invalidations are bounded
FairSpec == Spec /\ \A q \in Routers : WF_vars(Load(q)) /\ WF_vars(WatchStart(q)) /\ WF_vars(Deliver(q, 1))

(* ---------------------------------------------------------------- properties ---------------------------------- *)
Live(b, r) == r \in owned[b] /\ sess[b] # 0 /\ sess[b] \in alive
LiveSet == {p \in Brokers \X Res : Live(p[1], p[2])}
Quiescent(q) == rst[q] = "watching" /\ from[q] > rev
P(q) == INSTANCE LeaseProps WITH live <- LiveSet, rdel <- rdel, quiescent <- Quiescent(q),
                                 table <- table[q], owners <- Owners, skip <- inval[q]
P0 == INSTANCE LeaseProps WITH live <- LiveSet, rdel <- rdel, quiescent <- FALSE, table <- Owners, owners <- Owners, skip <- {}
C18_AtMostOneLive == P0!C18_AtMostOneLive
C18_ReleaseSafe == P0!C18_ReleaseSafe
C20_Converged == \A q \in Routers : P(q)!C20_Converged
C20_EventuallyConverged == \A q \in Routers : <>[](\A k \in Res \ inval[q] : table[q][k] = key[k].owner)
\* internal facts (conformance level, not part of the properties)
LiveOwnsKey == \A b \in Brokers, r \in Res : Live(b, r) => key[r] = [owner |-> b, lease |-> sess[b]]
OwnedHasSession == \A b \in Brokers : owned[b] # {} => sess[b] # 0
KeyLeaseAlive == \A r \in Res : key[r].lease # 0 => key[r].lease \in alive

View == <<lvars, rdel, cnt, rev, elog, rvars>>
EmitSched == PrintT(<<"SCHED", ToJson(hist)>>)
====
