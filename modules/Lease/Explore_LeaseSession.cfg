CONSTANTS
 Brokers = {"b1","b2"}
 Res = {"r1","r2"}
 Routers = {}
 Vals = {}
 MaxLeases = 3
 MaxAcq = 3
 MaxExpire = 1
 MaxRelease = 0
 MaxRelAll = 0
 MaxCrash = 0
 MaxBlip = 0
 MaxAdmin = 0
 MaxClose = 0
 MaxInval = 0
 MaxCompact = 0
 MaxBatch = 1
 FixRelease = TRUE
 DevReleaseRace = FALSE
 DevPutIfOwnerOther = FALSE
 DevReacqBlind = FALSE
 DevDropSameRev = FALSE
 DevNoReload = FALSE
 DevLoadMerge = FALSE
 DevPutsFirst = FALSE
 FixRev = TRUE
 KeepHist = TRUE
INIT Init
NEXT FineNext
INVARIANTS C18_AtMostOneLive
VIEW View
CHECK_DEADLOCK FALSE
