CONSTANTS
 Brokers = {"b1","b2","b3"}
 Res = {"r1","r2"}
 Routers = {}
 Vals = {}
 MaxLeases = 1000
 MaxAcq = 1000000
 MaxExpire = 1000
 MaxRelease = 1000000
 MaxRelAll = 1000
 MaxCrash = 1000
 MaxBlip = 1000
 MaxAdmin = 0
 MaxClose = 0
 MaxInval = 0
 MaxCompact = 0
 MaxBatch = 1
 FixRelease = TRUE
 DevReleaseRace = FALSE
 DevPutIfOwnerOther = FALSE
 DevReacqBlind = FALSE
 DevDropSameRev = FALSE
 DevNoReload = FALSE
 DevLoadMerge = FALSE
 DevPutsFirst = FALSE
 FixRev = TRUE
 KeepHist = TRUE
INIT TInit
NEXT TNext
POSTCONDITION Reached
CHECK_DEADLOCK FALSE
