CONSTANTS
 Brokers = {}
 Res = {"r1","r2"}
 Routers = {"q"}
 Vals = {"b1","b2"}
 MaxLeases = 0
 MaxAcq = 0
 MaxExpire = 0
 MaxRelease = 0
 MaxRelAll = 0
 MaxCrash = 0
 MaxBlip = 0
 MaxAdmin = 3
 MaxClose = 1
 MaxInval = 0
 MaxCompact = 0
 MaxBatch = 1
 FixRelease = TRUE
 DevReleaseRace = FALSE
 DevPutIfOwnerOther = FALSE
 DevReacqBlind = FALSE
 DevDropSameRev = FALSE
 DevNoReload = FALSE
 DevLoadMerge = TRUE
 DevPutsFirst = FALSE
 FixRev = TRUE
 KeepHist = TRUE
INIT Init
NEXT Next
INVARIANTS C20_Converged
VIEW View
CHECK_DEADLOCK FALSE
