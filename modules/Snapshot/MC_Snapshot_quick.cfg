CONSTANTS
 Brokers = {"b1","b2"}
 Topics = {"t1","t2"}
 MaxParts = 2
 MaxOps = 4
 FixCas = TRUE
 DevRefreshOverwritesPending = FALSE
 DevOperatorShrinks = FALSE
INIT Init
NEXT Next
INVARIANTS C21_EtcdKeeps C21_BrokersKeep Converged TypeOK
VIEW View
CHECK_DEADLOCK FALSE
