---- MODULE Obs_Snapshot ----
(* Observation layer: no model actions.  State is accumulated from the lines recorded on real      *)
(* EtcdStores / the real operator publish over embedded etcd:                                       *)
(*   must     from the acknowledgements the callers really received (CreateTopic / CreatePartitions *)
(*            returned nil: lower bound raised; DeleteTopic returned nil: promise ended)            *)
(*   etcdSnap, locals, quiescent   from the state projected on the line (snapshot key read by an    *)
(*            admin client, Metadata() of every store; quiescent on the harness's Observe lines,    *)
(*            written after every parked operation finished and every watch event was consumed).    *)
(* The C21 predicates are the SnapshotProps definitions.  `culprit` is a diagnostic only (it names  *)
(* the first write after which the key no longer honoured the promises; it labels a violation, it   *)
(* never creates one).                                                                              *)
EXTENDS Integers, Sequences, FiniteSets, TLC, Json
TraceLog == ndJsonDeserialize("trace.ndjson")
Range(s) == {s[i] : i \in DOMAIN s}
Max(a, b) == IF a >= b THEN a ELSE b
VARIABLES l, topics, brokers, must, culprit, viol
ovars == <<l, topics, brokers, must, culprit, viol>>
P(e, ts, bs, m) == INSTANCE SnapshotProps WITH Topics <- ts, Brokers <- bs, must <- m,
      etcdSnap <- e.st.etcd, locals <- e.st.loc, quiescent <- (e.ev = "Observe")
OInit == l = 0 /\ topics = {} /\ brokers = {} /\ must = <<>> /\ culprit = "none" /\ viol = {}
Acked(e) == e.ok /\ ~e.parked
MustAfter(e) ==
  IF e.ev = "Reset" THEN [t \in Range(e.topics) |-> 0]
  ELSE IF e.ev = "CT" /\ Acked(e) THEN [must EXCEPT ![e.t] = Max(@, e.n)]
  ELSE IF e.ev = "CPPersist" /\ Acked(e) THEN [must EXCEPT ![e.t] = Max(@, e.n)]
  ELSE IF e.ev = "DT" /\ Acked(e) THEN [must EXCEPT ![e.t] = 0]
  ELSE must
KeyHonours(e, ts, m) == \A t \in ts : m[t] > 0 => e.st.etcd[t] >= m[t]
Class(e) ==
  IF e.ev = "CPPersist" /\ Acked(e) /\ e.st.etcd[e.t] < e.n THEN "create_partitions.acked_growth_not_persisted"
  ELSE IF e.ev = "CT" THEN "lost_update.create_topic"
  ELSE IF e.ev = "DT" THEN "lost_update.delete_topic"
  ELSE IF e.ev = "CPPersist" THEN "lost_update.create_partitions"
  ELSE IF e.ev = "OpCas" THEN "operator_publish.shrinks_partitions"
  ELSE "other"
Step ==
  /\ l < Len(TraceLog) /\ l' = l + 1
  /\ LET e == TraceLog[l + 1] IN
     /\ topics' = IF e.ev = "Reset" THEN Range(e.topics) ELSE topics
     /\ brokers' = IF e.ev = "Reset" THEN Range(e.brokers) ELSE brokers
     /\ must' = MustAfter(e)
     /\ culprit' = IF e.ev = "Reset" \/ KeyHonours(e, topics', must') THEN "none"
                   ELSE IF culprit = "none" THEN Class(e) ELSE culprit
     /\ viol' = viol \cup
          {<<l + 1, n, culprit'>> : n \in
             (IF P(e, topics', brokers', must')!C21_EtcdKeeps THEN {} ELSE {"C21_EtcdKeeps"}) \cup
             (IF P(e, topics', brokers', must')!C21_BrokersKeep THEN {} ELSE {"C21_BrokersKeep"})}
     /\ (l' = Len(TraceLog)) => PrintT(<<"OBS", ToJson([consumed |-> l', viol |-> viol'])>>)
OSpec == OInit /\ [][Step]_ovars
====
