---- MODULE Snapshot ----
(* pkg/metadata/etcd_store.go + pkg/operator/snapshot.go: the cluster-metadata snapshot key.        *)
(*                                                                                                  *)
(*  etcd        one key /kafscale/metadata/snapshot holding the WHOLE topic table, with its          *)
(*              mod-revision `rev`; every modification is delivered as one watch event to every      *)
(*              EtcdStore (pending[b] counts the undelivered ones).                                  *)
(*  EtcdStore b local copy local[b] (InMemoryStore), persistMu (held by CreateTopic / DeleteTopic /  *)
(*              refreshSnapshot for their whole body; by CreatePartitions only in the repaired       *)
(*              design), watchSnapshot = one refreshSnapshot per event, each reading the CURRENT key.*)
(*  operator    PublishMetadataSnapshot: Get, mergeSnapshots(next, existing), Txn(If ModRevision     *)
(*              unchanged) with up to 5 attempts; `next` carries the previous merge into the retry.  *)
(*                                                                                                  *)
(* A snapshot is a function topic -> partition count (0 = topic absent).                            *)
(* Steps are exactly the points where the real code can be interleaved by the harness:              *)
(*   CT, DT          whole body under persistMu (one step)                                          *)
(*   CPMutate        CreatePartitions up to the gate before persistSnapshot (checks + local mutation)*)
(*   CPPersist       persistSnapshot (+ acknowledgement); with FixCas a conflict re-reads, re-applies*)
(*                   and parks at the gate again                                                    *)
(*   Refresh         one watch-triggered refreshSnapshot                                            *)
(*   CrdApply        a KafscaleTopic resource is created / changed (input of the operator)          *)
(*   OpStart         PublishMetadataSnapshot up to the gate before the Txn (Get + merge)            *)
(*   OpCas           the Txn; on conflict the next attempt's Get + merge, parked at the gate again  *)
EXTENDS Integers, Sequences, FiniteSets, TLC, Json
CONSTANTS Brokers, Topics, MaxParts, MaxOps,
          FixCas,                       \* TRUE (repaired): broker writes re-read the key, re-apply the change and
                                        \*   write with a compare on the mod-revision; FALSE (pinned): plain Put of the local copy
          DevRefreshOverwritesPending,  \* TRUE (pinned): CreatePartitions does not hold persistMu between its local
                                        \*   mutation and persistSnapshot, so a watch refresh can replace the mutated copy
          DevOperatorShrinks            \* TRUE (pinned): mergeSnapshots takes the resource's partition count even when
                                        \*   the existing snapshot has more partitions
VARIABLES etcd,     \* [snap, rev]
          local,    \* broker -> snapshot
          base,     \* broker -> revision its local copy was last loaded from / written as (FixCas only, else 0)
          pending,  \* broker -> undelivered watch events
          cp,       \* broker -> in-flight CreatePartitions parked before persistSnapshot: [on, t, n]
          crd,      \* topic -> partitions declared by a KafscaleTopic resource (0 = none)
          op,       \* operator publish in flight: [st, next, base, att]
          must,     \* topic -> acknowledged lower bound (0 = none / explicitly deleted)
          last,     \* outcome of the last step (for conformance)
          nops,     \* number of operations started (CT, DT, CPMutate, CrdApply, OpStart); completions and refreshes are
                    \*   not counted: they are bounded by the operations that cause them
          hist
vars == <<etcd, local, base, pending, cp, crd, op, must, last, nops, hist>>

Snap0 == [t \in Topics |-> 0]
NoCp == [on |-> FALSE, t |-> "", n |-> 0]
OpIdle == [st |-> "idle", next |-> Snap0, base |-> 0, att |-> 0]
Max(a, b) == IF a >= b THEN a ELSE b

Init == /\ etcd = [snap |-> Snap0, rev |-> 1]       \* the key exists (initial snapshot with brokers, no topics)
        /\ local = [b \in Brokers |-> Snap0]
        /\ base = [b \in Brokers |-> IF FixCas THEN 1 ELSE 0]
        /\ pending = [b \in Brokers |-> 0]
        /\ cp = [b \in Brokers |-> NoCp]
        /\ crd = Snap0 /\ op = OpIdle /\ must = Snap0
        /\ last = [ok |-> TRUE, parked |-> FALSE] /\ nops = 0 /\ hist = <<>>

Budget == nops < MaxOps /\ nops' = nops + 1
Free == UNCHANGED nops
\* a modification of the key: new value, next revision, one event for everybody
Put(s) == /\ etcd' = [snap |-> s, rev |-> etcd.rev + 1]
          /\ pending' = [b \in Brokers |-> pending[b] + 1]
Sync(b, r) == base' = IF FixCas THEN [base EXCEPT ![b] = r] ELSE base
\* what the operation sees as "the local copy" when it starts: the repaired design re-reads the key first
Seen(b) == IF FixCas THEN etcd.snap ELSE local[b]

(* ---- CreateTopic(b, t, n): persistMu; metadata.CreateTopic; persistSnapshotLocked ---- *)
CT(b, t, n) ==
  /\ Budget /\ ~cp[b].on
  /\ LET s == Seen(b) IN
     IF s[t] # 0
     THEN /\ local' = [local EXCEPT ![b] = s] /\ Sync(b, etcd.rev)           \* ErrTopicExists
          /\ last' = [ok |-> FALSE, parked |-> FALSE] /\ UNCHANGED <<etcd, pending, must>>
     ELSE LET s1 == [s EXCEPT ![t] = n] IN
          /\ local' = [local EXCEPT ![b] = s1] /\ Put(s1) /\ Sync(b, etcd.rev + 1)
          /\ must' = [must EXCEPT ![t] = Max(@, n)]
          /\ last' = [ok |-> TRUE, parked |-> FALSE]
  /\ hist' = Append(hist, [a |-> "CT", b |-> b, t |-> t, n |-> n])
  /\ UNCHANGED <<cp, crd, op>>

(* ---- DeleteTopic(b, t): persistMu; metadata.DeleteTopic; persistSnapshotLocked ---- *)
DT(b, t) ==
  /\ Budget /\ ~cp[b].on
  /\ LET s == Seen(b) IN
     IF s[t] = 0
     THEN /\ local' = [local EXCEPT ![b] = s] /\ Sync(b, etcd.rev)           \* ErrUnknownTopic
          /\ last' = [ok |-> FALSE, parked |-> FALSE] /\ UNCHANGED <<etcd, pending, must>>
     ELSE LET s1 == [s EXCEPT ![t] = 0] IN
          /\ local' = [local EXCEPT ![b] = s1] /\ Put(s1) /\ Sync(b, etcd.rev + 1)
          /\ must' = [must EXCEPT ![t] = 0]                                   \* explicit deletion ends the promise
          /\ last' = [ok |-> TRUE, parked |-> FALSE]
  /\ hist' = Append(hist, [a |-> "DT", b |-> b, t |-> t])
  /\ UNCHANGED <<cp, crd, op>>

(* ---- CreatePartitions(b, t, n), first half: checks + local mutation, parked before persistSnapshot ---- *)
CPMutate(b, t, n) ==
  /\ Budget /\ ~cp[b].on
  /\ LET s == Seen(b) IN
     IF s[t] = 0 \/ n <= s[t]
     THEN /\ local' = [local EXCEPT ![b] = s] /\ Sync(b, etcd.rev)           \* ErrUnknownTopic / ErrInvalidTopic
          /\ last' = [ok |-> FALSE, parked |-> FALSE] /\ UNCHANGED cp
     ELSE /\ local' = [local EXCEPT ![b] = [s EXCEPT ![t] = n]] /\ Sync(b, etcd.rev)
          /\ cp' = [cp EXCEPT ![b] = [on |-> TRUE, t |-> t, n |-> n]]
          /\ last' = [ok |-> TRUE, parked |-> TRUE]
  /\ hist' = Append(hist, [a |-> "CPMutate", b |-> b, t |-> t, n |-> n])
  /\ UNCHANGED <<etcd, pending, crd, op, must>>

(* ---- second half: persistSnapshot and the acknowledgement ---- *)
CPPersist(b) ==
  /\ Free /\ cp[b].on
  /\ LET t == cp[b].t  n == cp[b].n IN
     IF FixCas /\ base[b] # etcd.rev
     THEN \* compare failed: reload, re-apply; park again or give up with the operation's own error
          LET s == etcd.snap IN
          IF s[t] = 0 \/ n <= s[t]
          THEN /\ local' = [local EXCEPT ![b] = s] /\ Sync(b, etcd.rev) /\ cp' = [cp EXCEPT ![b] = NoCp]
               /\ last' = [ok |-> FALSE, parked |-> FALSE] /\ UNCHANGED <<etcd, pending, must>>
          ELSE /\ local' = [local EXCEPT ![b] = [s EXCEPT ![t] = n]] /\ Sync(b, etcd.rev) /\ UNCHANGED cp
               /\ last' = [ok |-> TRUE, parked |-> TRUE] /\ UNCHANGED <<etcd, pending, must>>
     ELSE \* the whole local copy is written -- whatever it holds by now -- and the call returns nil
          /\ Put(local[b]) /\ Sync(b, etcd.rev + 1) /\ cp' = [cp EXCEPT ![b] = NoCp]
          /\ must' = [must EXCEPT ![t] = Max(@, n)]
          /\ last' = [ok |-> TRUE, parked |-> FALSE] /\ UNCHANGED local
  /\ hist' = Append(hist, [a |-> "CPPersist", b |-> b])
  /\ UNCHANGED <<crd, op>>

(* ---- one watch event consumed: refreshSnapshot (persistMu; Get; metadata.Update) ---- *)
Refresh(b) ==
  /\ Free /\ pending[b] > 0
  /\ (cp[b].on => DevRefreshOverwritesPending)       \* repaired: CreatePartitions holds persistMu while parked
  /\ local' = [local EXCEPT ![b] = etcd.snap] /\ Sync(b, etcd.rev)
  /\ pending' = [pending EXCEPT ![b] = @ - 1]
  /\ last' = [ok |-> TRUE, parked |-> FALSE]
  /\ hist' = Append(hist, [a |-> "Refresh", b |-> b])
  /\ UNCHANGED <<etcd, cp, crd, op, must>>

(* ---- operator ---- *)
CrdApply(t, n) ==
  /\ Budget /\ crd[t] # n
  /\ crd' = [crd EXCEPT ![t] = n]
  /\ last' = [ok |-> TRUE, parked |-> FALSE]
  /\ hist' = Append(hist, [a |-> "CrdApply", t |-> t, n |-> n])
  /\ UNCHANGED <<etcd, local, base, pending, cp, op, must>>

\* mergeSnapshots(next, existing): resource topics win, topics only in the existing snapshot are kept
Merge(next, ex) == [t \in Topics |->
   IF next[t] # 0 THEN (IF DevOperatorShrinks THEN next[t] ELSE Max(next[t], ex[t])) ELSE ex[t]]

OpStart ==
  /\ Budget /\ op.st = "idle"
  /\ op' = [st |-> "gate", next |-> Merge(crd, etcd.snap), base |-> etcd.rev, att |-> 1]
  /\ last' = [ok |-> TRUE, parked |-> TRUE]
  /\ hist' = Append(hist, [a |-> "OpStart"])
  /\ UNCHANGED <<etcd, local, base, pending, cp, crd, must>>

OpCas ==
  /\ Free /\ op.st = "gate"
  /\ IF op.base = etcd.rev
     THEN /\ Put(op.next) /\ op' = OpIdle /\ last' = [ok |-> TRUE, parked |-> FALSE]
     ELSE /\ UNCHANGED <<etcd, pending>>
          /\ IF op.att >= 5
             THEN op' = OpIdle /\ last' = [ok |-> FALSE, parked |-> FALSE]
             ELSE /\ op' = [st |-> "gate", next |-> Merge(op.next, etcd.snap), base |-> etcd.rev, att |-> op.att + 1]
                  /\ last' = [ok |-> TRUE, parked |-> TRUE]
  /\ hist' = Append(hist, [a |-> "OpCas"])
  /\ UNCHANGED <<local, base, cp, crd, must>>

Next == \/ \E b \in Brokers : \/ CPPersist(b) \/ Refresh(b)
                              \/ \E t \in Topics : \/ DT(b, t)
                                                   \/ \E n \in 1..MaxParts : CT(b, t, n) \/ CPMutate(b, t, n)
        \/ \E t \in Topics : \E n \in 1..MaxParts : CrdApply(t, n)
        \/ OpStart \/ OpCas
Spec == Init /\ [][Next]_vars

Quiescent == /\ \A b \in Brokers : pending[b] = 0 /\ ~cp[b].on
             /\ op.st = "idle"
P == INSTANCE SnapshotProps WITH Topics <- Topics, Brokers <- Brokers, must <- must,
                                 etcdSnap <- etcd.snap, locals <- local, quiescent <- Quiescent
C21_EtcdKeeps == P!C21_EtcdKeeps
C21_BrokersKeep == P!C21_BrokersKeep
\* internal (conformance-level) facts, not part of the property
Converged == Quiescent => \A b \in Brokers : local[b] = etcd.snap
TypeOK == /\ etcd.snap \in [Topics -> 0..MaxParts] /\ \A b \in Brokers : local[b] \in [Topics -> 0..MaxParts]

View == <<etcd, local, base, pending, cp, crd, op, must, nops>>
EmitSched == PrintT(<<"SCHED", ToJson(hist)>>)
====
