---- MODULE Trace_Snapshot ----
(* Conformance layer: every recorded step of the real stores / operator must be a step of          *)
(* Snapshot.tla (same action, same arguments, same outcome: returned-ok / parked-at-gate) and the  *)
(* logged projection (snapshot key, its modification count, every store's Metadata()) must equal   *)
(* the model's post-state.  A `Skip` line (the harness could not perform a scheduled step because  *)
(* the code was not where the model said) has no matching action and is therefore a rejection.     *)
EXTENDS Snapshot
TraceLog == ndJsonDeserialize("trace.ndjson")
VARIABLE l
tvars == <<vars, l>>
E == TraceLog[l]
Cur(ev) == l <= Len(TraceLog) /\ E.ev = ev /\ l' = l + 1
StMatch(st) == /\ etcd'.rev = st.rev
               /\ \A t \in Topics : etcd'.snap[t] = st.etcd[t]
               /\ \A b \in Brokers : \A t \in Topics : local'[b][t] = st.loc[b][t]
Out == last'.ok = E.ok /\ last'.parked = E.parked
TInit == Init /\ l = 1 /\ TLCSet(7, 0)
TReset == /\ Cur("Reset")
          /\ etcd' = [snap |-> Snap0, rev |-> 1] /\ local' = [b \in Brokers |-> Snap0]
          /\ base' = [b \in Brokers |-> IF FixCas THEN 1 ELSE 0] /\ pending' = [b \in Brokers |-> 0]
          /\ cp' = [b \in Brokers |-> NoCp] /\ crd' = Snap0 /\ op' = OpIdle /\ must' = Snap0
          /\ last' = [ok |-> TRUE, parked |-> FALSE] /\ nops' = 0 /\ hist' = <<>>
          /\ StMatch(E.st)
TCT == Cur("CT") /\ CT(E.b, E.t, E.n) /\ Out /\ StMatch(E.st)
TDT == Cur("DT") /\ DT(E.b, E.t) /\ Out /\ StMatch(E.st)
TCPMutate == Cur("CPMutate") /\ CPMutate(E.b, E.t, E.n) /\ Out /\ StMatch(E.st)
TCPPersist == Cur("CPPersist") /\ cp[E.b].t = E.t /\ cp[E.b].n = E.n /\ CPPersist(E.b) /\ Out /\ StMatch(E.st)
TRefresh == Cur("Refresh") /\ Refresh(E.b) /\ StMatch(E.st)
\* the refresh was released but waits for persistMu, which the parked CreatePartitions holds (repaired design only)
TRefreshBlocked == Cur("RefreshBlocked") /\ pending[E.b] > 0 /\ cp[E.b].on /\ ~DevRefreshOverwritesPending /\ UNCHANGED vars
TCrdApply == Cur("CrdApply") /\ CrdApply(E.t, E.n) /\ StMatch(E.st)
TOpStart == Cur("OpStart") /\ OpStart /\ Out /\ StMatch(E.st)
TOpCas == Cur("OpCas") /\ OpCas /\ Out /\ StMatch(E.st)
TObserve == Cur("Observe") /\ Quiescent /\ UNCHANGED vars /\ StMatch(E.st)
Consumed == TLCSet(7, IF TLCGet(7) < l THEN l ELSE TLCGet(7))   \* high-water mark of consumed lines
TNext == (TReset \/ TCT \/ TDT \/ TCPMutate \/ TCPPersist \/ TRefresh \/ TRefreshBlocked \/ TCrdApply \/ TOpStart \/ TOpCas \/ TObserve) /\ Consumed
TSpec == TInit /\ [][TNext]_tvars
Reached == PrintT(<<"CONF", ToJson([reached |-> TLCGet(7), total |-> Len(TraceLog)])>>)
====
