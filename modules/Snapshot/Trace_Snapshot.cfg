CONSTANTS
 Brokers = {"b1","b2","b3"}
 Topics = {"t1","t2"}
 MaxParts = 3
 MaxOps = 1000000
 FixCas = TRUE
 DevRefreshOverwritesPending = FALSE
 DevOperatorShrinks = FALSE
INIT TInit
NEXT TNext
POSTCONDITION Reached
CHECK_DEADLOCK FALSE
