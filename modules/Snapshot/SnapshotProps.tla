---- MODULE SnapshotProps ----
(* C21 stated once, over parameters.  Snapshot.tla instantiates it with model state,            *)
(* Obs_Snapshot.tla with values observed on real EtcdStores / the real etcd key.                *)
EXTENDS Integers
CONSTANTS Topics,     \* topic universe
          Brokers,    \* broker (EtcdStore) names
          must,       \* topic -> smallest partition count the acknowledgements promise (0 = no promise:
                      \*          never acknowledged, or explicitly deleted since)
          etcdSnap,   \* topic -> partition count in the etcd snapshot key (0 = absent)
          locals,     \* broker -> (topic -> partition count answered by that broker's Metadata())
          quiescent   \* TRUE iff no operation is in flight and every watch event has been consumed

\* An acknowledged creation / growth is present, un-shrunk, in the shared snapshot ...
C21_EtcdKeeps == quiescent => \A t \in Topics : must[t] > 0 => etcdSnap[t] >= must[t]
\* ... and in what every broker answers once its refresh queue is empty.
C21_BrokersKeep == quiescent => \A b \in Brokers : \A t \in Topics : must[t] > 0 => locals[b][t] >= must[t]
====
