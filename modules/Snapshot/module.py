"""Snapshot.tla — C21 (pkg/metadata/etcd_store.go, pkg/operator/snapshot.go)."""
import copy, json, os, re
from lib import tlc as T, layers, gorun
from lib.common import Broken, Violation, verdict, save_replay

PROPS = {
    "C21": {
        "text": "Snapshot.tla models the metadata snapshot key in etcd (whole topic table + mod-revision, one watch event per modification), N EtcdStores (local copy, persistMu, watch-triggered refreshSnapshot, CreateTopic / CreatePartitions in two steps / DeleteTopic) and the operator publish (Get, mergeSnapshots, compare-and-swap with retry). TLC checks exhaustively for 2 brokers x 2 topics that an acknowledged creation or growth is present and un-shrunk in the key and in every broker's Metadata() at quiescence, under every interleaving; TLC-generated schedules (simulation + counterexamples of the named wrong designs: plain whole-snapshot Put, refresh between local mutation and persist, merge preferring the resource's partition count, merge carried into the operator's retry) are replayed on real EtcdStores and the real PublishMetadataSnapshot over embedded etcd through scheduler gates, and the recorded traces are validated by TLC: the C21 predicates on observed values (layer O) and step-by-step conformance with the model (layer C).",
        "note": "Trusted: TLC, embedded etcd as a faithful etcd, the projection (topic -> number of partitions) of the snapshot key read by an admin client and of Metadata() of every store. Interleavings are imposed at the gates only (top of refreshSnapshot, CreatePartitions before persist, operator before its Txn); CreateTopic/DeleteTopic run under persistMu and are single steps; one admin operation per broker at a time. Quiescence is established by counting: every modification of the key is one watch event per store, the harness drains exactly that many refreshes. Etcd failures and watch-stream interruptions are out of scope.",
        "technique": "TLA+ model (Snapshot.tla) + TLC exhaustive check + gate-scheduled replay of TLC behaviours on real EtcdStores / operator publish over embedded etcd + TLC trace validation (observation and conformance layers)",
    }
}
# cfg suffix -> (invariant TLC must report, brokers, topics of that config)
DEVIATIONS = {
    "NoCas": ("C21_EtcdKeeps", ["b1", "b2"], ["t1", "t2"]),
    "RefreshOverwritesPending": ("C21_EtcdKeeps", ["b1"], ["t1"]),
    "OperatorShrinks": ("C21_EtcdKeeps", ["b1"], ["t1"]),
    "OperatorRetryShrinks": ("C21_EtcdKeeps", ["b1"], ["t1"]),
}
SIM_BROKERS, SIM_TOPICS = ["b1", "b2", "b3"], ["t1", "t2"]
GATES = ["snapshot.refresh", "snapshot.refresh.done", "snapshot.createPartitions.beforePersist", "operator.publish.beforeTxn"]
TRACE_CFG = """CONSTANTS
 Brokers = {%s}
 Topics = {%s}
 MaxParts = 3
 MaxOps = 1000000
 FixCas = TRUE
 DevRefreshOverwritesPending = FALSE
 DevOperatorShrinks = FALSE
INIT TInit
NEXT TNext
POSTCONDITION Reached
CHECK_DEADLOCK FALSE
"""
ASSUMPTIONS = [
    "interleavings are imposed only at the repository's verif gates (top of refreshSnapshot, CreatePartitions before persistSnapshot, PublishMetadataSnapshot before its Txn); code between two gates runs as one step",
    "one admin operation per broker at a time; the operator runs one publish at a time",
    "every modification of the snapshot key produces exactly one watch response per established watcher (etcd delivers one response per revision to a synced watcher); quiescence = as many refreshes completed as modifications made",
    "the harness projects ClusterMetadata to topic -> len(Partitions) (topics with an error code count as absent)",
    "etcd errors, lease/network failures and watch reconnects are not injected",
]


def setq(xs):
    return ",".join('"%s"' % x for x in xs)


def harness(ctx, scheds, tag, timeout=2400):
    sp = os.path.join(ctx.scratch, "sched-%s.ndjson" % tag)
    tp = os.path.join(ctx.scratch, "trace-%s.ndjson" % tag)
    gorun.write_ndjson(sp, scheds)
    rc, out = gorun.go_test(ctx, ".", "./pkg/operator/", {"pkg/operator/zz_verif_snapshot_test.go": os.path.join(DIR, "harness", "snapshot_verif_test.go")},
                            "^TestVerifSnapshotReplay$", env={"VERIF_SCHEDULES": sp, "VERIF_TRACE_OUT": tp}, timeout=timeout)
    if rc != 0 or "replayed %d schedules" % len(scheds) not in out:
        if "undefined: metadata.VerifGate" in out or "undefined: VerifGate" in out:
            raise Broken("the repository lacks the verif gates this check needs (apply modules/Snapshot/repo_patches/hook-*.patch):\n" + out[-1500:])
        raise Broken("snapshot harness failed (not replayed):\n" + out[-3000:])
    rows = gorun.read_ndjson(tp)
    if not rows or rows[-1].get("ev") != "Summary":
        raise Broken("snapshot harness wrote no summary line")
    return rows[:-1], rows[-1]


def split(rows):
    runs, cur = [], None
    for r in rows:
        if r["ev"] == "Reset":
            cur = []
            runs.append(cur)
        cur.append(r)
    return runs


def obs(ctx, rows, name="obs"):
    """Layer O; returns [(line, invariant, culprit)]."""
    _, _, r = layers.observe(ctx, DIR, "Obs_Snapshot.tla", "Obs_Snapshot.cfg", rows, name=name)
    return [(v[0], v[1], v[2]) for v in r.prints["OBS"][-1]["viol"]]


def conform_groups(ctx, scheds, runs, name):
    conf = {"accepted": 0, "rejected": 0, "first_rejection": None}
    groups = {}
    for i, s in enumerate(scheds):
        groups.setdefault((tuple(s["brokers"]), tuple(s["topics"])), []).append(i)
    for gi, ((bs, ts), idxs) in enumerate(sorted(groups.items())):
        sub = [r for i in idxs for r in runs[i]]
        reached, total, _ = layers.conform(ctx, DIR, "Trace_Snapshot.tla", "Trace_Snapshot.cfg", sub, name="%s%d" % (name, gi), cfg_text=TRACE_CFG % (setq(bs), setq(ts)))
        if reached == total:
            conf["accepted"] += len(idxs)
        else:
            conf["rejected"] += 1
            conf["first_rejection"] = conf["first_rejection"] or {"brokers": list(bs), "topics": list(ts), "line_no": reached, "line": sub[reached] if reached < len(sub) else None, "previous": sub[reached - 1] if 0 < reached <= len(sub) else None}
    return conf


def generate(ctx, d, quick):
    scheds, labels = [], []
    for dev, (inv, bs, ts) in sorted(DEVIATIONS.items()):
        # workers=1: breadth-first with one worker returns the same (shortest) counterexample on every run
        h, r = T.counterexample_hist(ctx, d, "MC_Snapshot.tla", "Dev_Snapshot_%s.cfg" % dev, timeout=600, workers=1)
        if h is None or inv not in r.violated:
            raise Broken("deviation %s does not violate %s in the model (vacuous deviation, or TLC failed):\n%s" % (dev, inv, r.out[-1500:]))
        scheds.append({"brokers": bs, "topics": ts, "steps": h}); labels.append("dev:" + dev)
    n = 100 if quick else 600
    hs, _ = T.simulate_hists(ctx, d, "MC_Snapshot.tla", "Sim_Snapshot.cfg", num=n, depth=40, seed=ctx.seed, timeout=900)
    for h in hs:
        if h:
            scheds.append({"brokers": SIM_BROKERS, "topics": SIM_TOPICS, "steps": h}); labels.append("sim")
    return scheds, labels


def check(ctx, prop):
    quick = ctx.quick()
    d = T.stage(ctx, DIR, "mc")
    mc = T.model_check(ctx, d, "MC_Snapshot.tla", "MC_Snapshot_%s.cfg" % ctx.tier, coverage=not quick, timeout=3000)
    ctx.log("model: %d distinct states, depth %d" % (mc.distinct, mc.depth))
    mc3 = None
    if not quick:  # second exhaustive configuration: three brokers
        mc3 = T.model_check(ctx, d, "MC_Snapshot.tla", "MC_Snapshot_thorough3.cfg", timeout=3000)
        ctx.log("model (3 brokers): %d distinct states, depth %d" % (mc3.distinct, mc3.depth))
    scheds, labels = generate(ctx, d, quick)
    ctx.log("%d schedules (%d deviation counterexamples, %d simulated)" % (len(scheds), len(DEVIATIONS), len(scheds) - len(DEVIATIONS)))
    rows, summary = harness(ctx, scheds, "main")
    ctx.log("replayed %d schedules, %d trace lines" % (len(scheds), len(rows)))
    runs = split(rows)
    if len(runs) != len(scheds):
        raise Broken("harness recorded %d runs for %d schedules" % (len(runs), len(scheds)))
    # hook presence: every gate the schedules rely on was really hit
    missing = [g for g in GATES if not summary.get("hits", {}).get(g)]
    if missing:
        raise Broken("verif gates never reached: %s (hook patch missing or misplaced)" % missing)
    # A schedule step the code no longer takes is not an infrastructure failure: "Skip" lines (step not applicable
    # to what the code really has in flight) keep the schedule going, "Abandoned" ends that one schedule without an
    # Observe line (nothing is evaluated on it).  Both are counted as not replayed; only a driver that cannot bring
    # most schedules to quiescence is dead.
    abandoned = [i for i, run in enumerate(runs) if run[-1]["ev"] != "Observe"]
    skipped = sum(1 for r in rows if r["ev"] == "Skip")
    if abandoned:
        ctx.log("%d of %d schedules not replayed to quiescence (first: %s)" % (len(abandoned), len(runs), runs[abandoned[0]][-1].get("err")))
    if len(abandoned) > max(3, len(runs) // 4):
        raise Broken("dead driver: %d of %d schedules could not be brought to quiescence (first: %s)" % (len(abandoned), len(runs), runs[abandoned[0]][-1].get("err")))
    acks = sum(1 for r in rows if r["ev"] in ("CT", "CPPersist") and r["ok"] and not r["parked"])
    if acks == 0:
        raise Broken("vacuous run: no creation or growth was acknowledged")
    viol = obs(ctx, rows)
    violations, first = [], set()
    for line, inv, culprit in sorted(viol):
        ev = rows[line - 1]
        idx = sum(1 for r in rows[:line] if r["ev"] == "Reset") - 1
        if (idx, inv) in first:
            continue
        first.add((idx, inv))
        why = culprit if culprit != "none" else "stale_broker_copy"
        sig = "%s@%s" % (inv, why)
        path = save_replay(prop, "sched-%s.json" % re.sub(r"\W", "_", sig), {"schedule": scheds[idx], "label": labels[idx], "trace": runs[idx], "line": ev})
        violations.append(Violation(prop, sig, "%s false at quiescence on the real stores: acknowledged creation/growth missing or shrunk (first write that broke the promise: %s) [schedule %s, replay %s]" % (inv, why, labels[idx], path), {"schedule": scheds[idx], "observed": ev["st"], "trace": runs[idx]}))
    conf = conform_groups(ctx, scheds, runs, "conf")
    st = self_test(ctx, scheds, runs)
    level = "model_checking"
    drift = conf["rejected"] > 0
    if drift and not violations:
        level = "exploration"
        ctx.log("DRIFT: conformance layer rejected a trace although C21 held: " + json.dumps(conf["first_rejection"])[:1500])

    def nontrivial(run):
        writers = set()
        prev = run[0]["st"]["rev"]
        for r in run[1:]:
            if r["st"]["rev"] != prev:
                writers.add(r.get("b", "operator"))
                prev = r["st"]["rev"]
        acked = any(r["ev"] in ("CT", "CPPersist") and r["ok"] and not r["parked"] for r in run)
        stale = any(r["ev"] in ("CT", "DT", "CPMutate", "CPPersist", "OpCas") and any(r2["ev"] == "Refresh" for r2 in run[i + 1:]) for i, r in enumerate(run))
        return len(writers) >= 2 and acked and stale
    cov = {
        "states": mc.distinct, "transitions": mc.generated, "depth": mc.depth, "exhaustive": True,
        "model_config": "MC_Snapshot_%s.cfg" % ctx.tier,
        "second_model": ({"config": "MC_Snapshot_thorough3.cfg", "states": mc3.distinct, "transitions": mc3.generated, "depth": mc3.depth} if mc3 else None),
        "traces_validated_against_impl": len(runs), "trace_events": len(rows),
        "evaluations": len(scheds), "distinct_nontrivial": sum(1 for run in runs if nontrivial(run)),
        "rule": "schedules = TLC counterexamples of the named deviations + TLC -simulate behaviours (seeded), each completed to quiescence by the harness; non-trivial = the key was modified by >=2 different writers (brokers / operator), >=1 creation or growth was acknowledged, and a write was followed by a later watch refresh (counted on the recorded traces)",
        "acknowledged_operations": acks, "gate_hits": summary.get("hits"),
        "schedules_not_replayed_to_quiescence": len(abandoned), "scheduled_steps_skipped": skipped,
        "deviation_schedules": sorted(DEVIATIONS), "conformance": ("drift" if drift else "accepted"), "conformance_detail": conf,
        "binding_self_test": st,
        "samples": [scheds[0], scheds[min(len(scheds) - 1, len(DEVIATIONS) + 1)], runs[0][:5]],
    }
    if not quick:
        ac = {k: v[1] for k, v in mc.action_coverage().items()}
        cov["action_coverage"] = ac
        dead = [a for a in ("CT", "DT", "CPMutate", "CPPersist", "Refresh", "CrdApply", "OpStart", "OpCas") if a in ac and ac[a] == 0]
        if dead:
            raise Broken("vacuous model: actions never taken: %s" % dead)
    return verdict(ctx, violations, level, cov, ASSUMPTIONS)


def self_test(ctx, scheds, runs):
    """Corrupt recorded fields: layer O must flag a vanished acknowledged topic, layer C must reject a wrong revision."""
    pick = None
    for i, run in enumerate(runs):
        if run[-1]["ev"] != "Observe" or any(r["ev"] == "Skip" for r in run):
            continue
        acked = [r for r in run if r["ev"] == "CT" and r["ok"] and not any(x["ev"] == "DT" and x.get("t") == r["t"] for x in run)]
        if acked:
            pick = (i, acked[0]["t"])
            break
    if pick is None:
        raise Broken("binding self-test: no run with an acknowledged, never deleted topic")
    i, t = pick
    bad = copy.deepcopy(runs[i])
    bad[-1]["st"]["etcd"][t] = 0
    if not any(v[1] == "C21_EtcdKeeps" for v in obs(ctx, bad, name="selfO")):
        raise Broken("binding self-test: observation layer did not flag a vanished acknowledged topic")
    bad = copy.deepcopy(runs[i])
    b0 = sorted(bad[-1]["st"]["loc"])[0]
    bad[-1]["st"]["loc"][b0][t] = 0
    if not any(v[1] == "C21_BrokersKeep" for v in obs(ctx, bad, name="selfO2")):
        raise Broken("binding self-test: observation layer did not flag a broker that lost an acknowledged topic")
    bad = copy.deepcopy(runs[i])
    tgt = [r for r in bad if r["ev"] not in ("Reset", "Observe")][-1]
    tgt["st"]["rev"] += 1
    s = scheds[i]
    reached, total, _ = layers.conform(ctx, DIR, "Trace_Snapshot.tla", "Trace_Snapshot.cfg", bad, name="selfC", cfg_text=TRACE_CFG % (setq(s["brokers"]), setq(s["topics"])))
    if reached == total:
        raise Broken("binding self-test: conformance layer accepted a corrupted revision")
    return {"observation_layer_flags_corrupted_field": True, "conformance_layer_rejects_corrupted_state": True}


def replay(ctx, prop, path):
    obj = json.load(open(path))
    sched = obj.get("schedule") or obj.get("detail", {}).get("schedule")
    rows, _ = harness(ctx, [sched], "replay", timeout=600)
    viol = obs(ctx, rows)
    for r in rows:
        print(json.dumps(r, sort_keys=True))
    for line, inv, culprit in viol:
        print("VIOLATION property=%s replay=%s" % (prop, path))
        print("  %s false at line %d (first write that broke the promise: %s)" % (inv, line, culprit))
    return 1 if viol else 0
