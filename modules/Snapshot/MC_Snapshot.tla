---- MODULE MC_Snapshot ----
EXTENDS Snapshot
\* state constraint of Dev_Snapshot_OperatorRetryShrinks.cfg: no topic resources at all, so the only way the
\* operator can shrink a topic is the merged snapshot it carries from a conflicting attempt into the retry
CrdEmpty == crd = Snap0
====
