CONSTANTS
 Brokers = {"b1","b2","b3"}
 Topics = {"t1","t2"}
 MaxParts = 3
 MaxOps = 9
 FixCas = TRUE
 DevRefreshOverwritesPending = FALSE
 DevOperatorShrinks = FALSE
INIT Init
NEXT Next
INVARIANTS EmitSched C21_EtcdKeeps C21_BrokersKeep Converged

CHECK_DEADLOCK FALSE
