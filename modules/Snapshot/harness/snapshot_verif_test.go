package operator

// Verification harness for Snapshot.tla / C21 (injected with `go test -tags verif -overlay`; not part of
// the repository).  It lives in package operator because it drives BOTH sides of the snapshot key:
// real metadata.EtcdStore instances (one per model broker) and the real operator publish path
// (BuildClusterMetadata + PublishMetadataSnapshot), all on one embedded etcd.
//
// Scheduling: the repository's verif gates (metadata.VerifGate / operator VerifGate) park the calling
// goroutine and acknowledge the arrival on a channel; the scheduler (this test's goroutine) executes one
// schedule step at a time and waits for the arrival / completion it expects with a real-time timeout.
// A timeout is "not replayed" (test failure => exit 2), never a verdict.
//
// Every step is logged with what really happened (ok / parked / error) and the projected state:
// the snapshot key as read by an admin client, its modification count, and Metadata() of every store.

import (
	"bufio"
	"context"
	"encoding/json"
	"fmt"
	"os"
	"sort"
	"sync"
	"sync/atomic"
	"testing"
	"time"

	clientv3 "go.etcd.io/etcd/client/v3"
	metav1 "k8s.io/apimachinery/pkg/apis/meta/v1"

	kafscalev1alpha1 "github.com/KafScale/platform/api/v1alpha1"
	"github.com/KafScale/platform/internal/testutil"
	"github.com/KafScale/platform/pkg/metadata"
	"github.com/KafScale/platform/pkg/protocol"
)

const (
	vsGateRefresh     = "snapshot.refresh"
	vsGateRefreshDone = "snapshot.refresh.done"
	vsGateCP          = "snapshot.createPartitions.beforePersist"
	vsGateOp          = "operator.publish.beforeTxn"
	vsSnapshotKey     = "/kafscale/metadata/snapshot"
	vsLong            = 20 * time.Second
	vsBlocked         = 400 * time.Millisecond
)

type vsStep struct {
	A string `json:"a"`
	B string `json:"b"`
	T string `json:"t"`
	N int    `json:"n"`
}

type vsSched struct {
	Brokers []string `json:"brokers"`
	Topics  []string `json:"topics"`
	Steps   []vsStep `json:"steps"`
}

type vsArrival struct {
	point string
	name  string
	rel   chan struct{}
	err   error
}

// one harness instance per schedule; gates of stores that belong to an older instance pass through
type vsH struct {
	t         *testing.T
	arrivals  chan vsArrival
	closed    chan struct{}
	reg       sync.Map // fmt.Sprintf("%p", store) -> broker name
	opArmed   atomic.Bool
	sched     vsSched
	stores    map[string]*metadata.EtcdStore
	parked    map[string][]vsArrival // point|name -> parked goroutines
	refDone   map[string]int
	opDone    map[string][]error // name -> completed operations not yet consumed ("op" = operator)
	blocked   map[string]int     // refreshes released but waiting for persistMu
	blockedAt map[string]int     // refDone when the first of them was released
	ver0      int64
	crd       map[string]int
	cpArgs    map[string]vsStep // broker -> arguments of its in-flight CreatePartitions
	admin     *clientv3.Client
	endpoints []string
	emit      func(map[string]any)
}

var (
	vsCur  atomic.Pointer[vsH]
	vsHits sync.Map // gate point -> *int64
)

func vsHit(point string) {
	v, _ := vsHits.LoadOrStore(point, new(int64))
	atomic.AddInt64(v.(*int64), 1)
}

func vsGate(point, id string) {
	h := vsCur.Load()
	if h == nil {
		return
	}
	name := "op"
	if point == vsGateOp {
		if !h.opArmed.Load() {
			return
		}
	} else {
		v, ok := h.reg.Load(id)
		if !ok {
			return
		}
		name = v.(string)
	}
	vsHit(point)
	if point == vsGateRefreshDone {
		h.arrivals <- vsArrival{point: point, name: name}
		return
	}
	rel := make(chan struct{})
	h.arrivals <- vsArrival{point: point, name: name, rel: rel}
	select {
	case <-rel:
	case <-h.closed:
	}
}

func (h *vsH) absorb(a vsArrival) {
	switch a.point {
	case vsGateRefreshDone:
		h.refDone[a.name]++
	case "done":
		h.opDone[a.name] = append(h.opDone[a.name], a.err)
	default:
		k := a.point + "|" + a.name
		h.parked[k] = append(h.parked[k], a)
	}
}

// pump consumes gate arrivals / completions until pred holds or the timeout expires.
func (h *vsH) pump(d time.Duration, pred func() bool) bool {
	timer := time.NewTimer(d)
	defer timer.Stop()
	for {
		if pred() {
			return true
		}
		select {
		case a := <-h.arrivals:
			h.absorb(a)
		case <-timer.C:
			return pred()
		}
	}
}

func (h *vsH) isParked(point, name string) bool { return len(h.parked[point+"|"+name]) > 0 }

func (h *vsH) release(point, name string) {
	k := point + "|" + name
	a := h.parked[k][0]
	h.parked[k] = h.parked[k][1:]
	close(a.rel)
}

func (h *vsH) takeDone(name string) (error, bool) {
	q := h.opDone[name]
	if len(q) == 0 {
		return nil, false
	}
	h.opDone[name] = q[1:]
	return q[0], true
}

func vsProject(m *metadata.ClusterMetadata, topics []string) map[string]int {
	out := map[string]int{}
	for _, t := range topics {
		out[t] = 0
	}
	if m == nil {
		return out
	}
	for _, tp := range m.Topics {
		if tp.Topic == nil || tp.ErrorCode != 0 {
			continue
		}
		if _, ok := out[*tp.Topic]; ok {
			out[*tp.Topic] = len(tp.Partitions)
		}
	}
	return out
}

func (h *vsH) readKey() (map[string]int, int64) {
	ctx, cancel := context.WithTimeout(context.Background(), 5*time.Second)
	defer cancel()
	resp, err := h.admin.Get(ctx, vsSnapshotKey)
	if err != nil {
		h.t.Fatalf("not replayed: admin get: %v", err)
	}
	if len(resp.Kvs) == 0 {
		return vsProject(nil, h.sched.Topics), 0
	}
	var m metadata.ClusterMetadata
	if err := json.Unmarshal(resp.Kvs[0].Value, &m); err != nil {
		h.t.Fatalf("not replayed: snapshot key does not decode: %v", err)
	}
	return vsProject(&m, h.sched.Topics), resp.Kvs[0].Version
}

func (h *vsH) state() map[string]any {
	snap, ver := h.readKey()
	loc := map[string]any{}
	for _, b := range h.sched.Brokers {
		m, err := h.stores[b].Metadata(context.Background(), nil)
		if err != nil {
			h.t.Fatalf("not replayed: Metadata(%s): %v", b, err)
		}
		loc[b] = vsProject(m, h.sched.Topics)
	}
	return map[string]any{"etcd": snap, "rev": ver - h.ver0 + 1, "loc": loc}
}

// pend = watch events the model counts as undelivered for b: modifications of the key since the
// schedule started minus refreshes b completed since then.
func (h *vsH) pend(b string) int {
	_, ver := h.readKey()
	return int(ver-h.ver0) - h.refDone[b] - h.blocked[b]
}

func (h *vsH) line(ev string, st vsStep, ok, parked bool, err error) {
	m := map[string]any{"ev": ev, "ok": ok, "parked": parked, "err": "", "st": h.state()}
	if err != nil {
		m["err"] = err.Error()
	}
	if st.B != "" {
		m["b"] = st.B
	}
	if st.T != "" {
		m["t"] = st.T
	}
	if st.N != 0 {
		m["n"] = st.N
	}
	h.emit(m)
}

// dead driver (etcd gone, store cannot be built): the whole run is void
func (h *vsH) fatal(format string, a ...any) {
	h.t.Fatalf("not replayed: "+format, a...)
}

// vsAbandon ends the current schedule only: an expected arrival / completion did not come within the
// real-time timeout, i.e. the code no longer takes the step the schedule wanted. The schedule is
// recorded as "not replayed" (line Abandoned, no Observe line, so nothing is evaluated on it).
type vsAbandon struct{ why string }

func (h *vsH) abandon(format string, a ...any) {
	panic(vsAbandon{why: fmt.Sprintf(format, a...)})
}

// skip records a scheduled step the code is not in a position to take (the model and the code disagree
// about what is in flight). Deterministic, no waiting; the schedule goes on and is still observed.
func (h *vsH) skip(st vsStep, why string) bool {
	h.line("Skip", st, false, false, fmt.Errorf("%s", why))
	return false
}

// runOp starts a broker operation in its own goroutine; its completion comes back through arrivals.
func (h *vsH) runOp(name string, f func() error) {
	go func() {
		err := f()
		h.arrivals <- vsArrival{point: "done", name: name, err: err}
	}()
}

func (h *vsH) hasDone(name string) bool { return len(h.opDone[name]) > 0 }

func (h *vsH) step(st vsStep) bool {
	ctx := context.Background()
	switch st.A {
	case "CT", "DT":
		if h.isParked(vsGateCP, st.B) {
			return h.skip(st, "a CreatePartitions of "+st.B+" is still parked (one operation per broker)")
		}
		s := h.stores[st.B]
		if st.A == "CT" {
			h.runOp(st.B, func() error {
				_, err := s.CreateTopic(ctx, metadata.TopicSpec{Name: st.T, NumPartitions: int32(st.N), ReplicationFactor: 1})
				return err
			})
		} else {
			h.runOp(st.B, func() error { return s.DeleteTopic(ctx, st.T) })
		}
		if !h.pump(vsLong, func() bool { return h.hasDone(st.B) }) {
			h.abandon("%s(%s,%s) did not return", st.A, st.B, st.T)
		}
		err, _ := h.takeDone(st.B)
		h.line(st.A, st, err == nil, false, err)
	case "CPMutate":
		if h.isParked(vsGateCP, st.B) {
			return h.skip(st, "a CreatePartitions of "+st.B+" is still parked (one operation per broker)")
		}
		s := h.stores[st.B]
		h.runOp(st.B, func() error { return s.CreatePartitions(ctx, st.T, int32(st.N)) })
		if !h.pump(vsLong, func() bool { return h.hasDone(st.B) || h.isParked(vsGateCP, st.B) }) {
			h.abandon("CreatePartitions(%s,%s,%d) neither returned nor reached its gate", st.B, st.T, st.N)
		}
		if err, done := h.takeDone(st.B); done {
			h.line("CPMutate", st, err == nil, false, err)
		} else {
			h.cpArgs[st.B] = st
			h.line("CPMutate", st, true, true, nil)
		}
	case "CPPersist":
		if !h.isParked(vsGateCP, st.B) {
			return h.skip(st, "no CreatePartitions parked on "+st.B)
		}
		st.T, st.N = h.cpArgs[st.B].T, h.cpArgs[st.B].N // log which growth this persist belongs to
		h.release(vsGateCP, st.B)
		if !h.pump(vsLong, func() bool { return h.hasDone(st.B) || h.isParked(vsGateCP, st.B) }) {
			h.abandon("CreatePartitions on %s neither returned nor parked again", st.B)
		}
		if err, done := h.takeDone(st.B); done {
			// a refresh that was waiting for persistMu runs now: let it finish so the log order is deterministic
			nb := h.blocked[st.B]
			if nb > 0 {
				want := h.blockedAt[st.B] + nb
				if !h.pump(vsLong, func() bool { return h.refDone[st.B] >= want }) {
					h.abandon("blocked refresh of %s did not finish", st.B)
				}
				h.blocked[st.B] = 0
				h.refDone[st.B] -= nb // counted below, one logged Refresh each
			}
			h.line("CPPersist", st, err == nil, false, err)
			for i := 0; i < nb; i++ {
				h.refDone[st.B]++
				h.line("Refresh", vsStep{A: "Refresh", B: st.B}, true, false, nil)
			}
		} else {
			h.line("CPPersist", st, true, true, nil)
		}
	case "Refresh":
		if h.pend(st.B) <= 0 {
			return h.skip(st, "no undelivered watch event for "+st.B)
		}
		if h.blocked[st.B] > 0 {
			return h.skip(st, "the watch goroutine of "+st.B+" is waiting for persistMu")
		}
		if !h.pump(vsLong, func() bool { return h.isParked(vsGateRefresh, st.B) }) {
			h.abandon("watch event for %s never reached refreshSnapshot", st.B)
		}
		before := h.refDone[st.B]
		h.release(vsGateRefresh, st.B)
		wait := vsLong
		if h.isParked(vsGateCP, st.B) {
			wait = vsBlocked // the repaired CreatePartitions holds persistMu while parked
		}
		if h.pump(wait, func() bool { return h.refDone[st.B] > before }) {
			h.line("Refresh", st, true, false, nil)
		} else if h.isParked(vsGateCP, st.B) {
			if h.blocked[st.B] == 0 {
				h.blockedAt[st.B] = before
			}
			h.blocked[st.B]++
			h.line("RefreshBlocked", st, true, true, nil)
		} else {
			h.abandon("refreshSnapshot of %s did not finish", st.B)
		}
	case "CrdApply":
		h.crd[st.T] = st.N
		h.line("CrdApply", st, true, false, nil)
	case "OpStart":
		if h.opArmed.Load() {
			return h.skip(st, "operator publish already in flight")
		}
		replicas := int32(1)
		cluster := &kafscalev1alpha1.KafscaleCluster{ObjectMeta: metav1.ObjectMeta{Name: "verif", Namespace: "default"}}
		cluster.Spec.Brokers.Replicas = &replicas
		var names []string
		for t, n := range h.crd {
			if n > 0 {
				names = append(names, t)
			}
		}
		sort.Strings(names)
		var topics []kafscalev1alpha1.KafscaleTopic
		for _, t := range names {
			kt := kafscalev1alpha1.KafscaleTopic{ObjectMeta: metav1.ObjectMeta{Name: t, Namespace: "default"}}
			kt.Spec.ClusterRef = "verif"
			kt.Spec.Partitions = int32(h.crd[t])
			topics = append(topics, kt)
		}
		meta := BuildClusterMetadata(cluster, topics)
		h.opArmed.Store(true)
		eps := h.endpoints
		h.runOp("op", func() error { return PublishMetadataSnapshot(ctx, eps, meta) })
		if !h.pump(vsLong, func() bool { return h.hasDone("op") || h.isParked(vsGateOp, "op") }) {
			h.abandon("PublishMetadataSnapshot neither returned nor reached its gate")
		}
		if err, done := h.takeDone("op"); done {
			h.opArmed.Store(false)
			h.line("OpStart", st, err == nil, false, err)
		} else {
			h.line("OpStart", st, true, true, nil)
		}
	case "OpCas":
		if !h.isParked(vsGateOp, "op") {
			return h.skip(st, "no operator publish parked")
		}
		h.release(vsGateOp, "op")
		if !h.pump(vsLong, func() bool { return h.hasDone("op") || h.isParked(vsGateOp, "op") }) {
			h.abandon("PublishMetadataSnapshot neither returned nor parked again")
		}
		if err, done := h.takeDone("op"); done {
			h.opArmed.Store(false)
			h.line("OpCas", st, err == nil, false, err)
		} else {
			h.line("OpCas", st, true, true, nil)
		}
	default:
		h.fatal("unknown step %q", st.A)
	}
	return true
}

// drain completes what the schedule left in flight, in a fixed order, until nothing is pending.
func (h *vsH) drain() {
	for round := 0; round < 200; round++ {
		progressed := false
		for _, b := range h.sched.Brokers {
			for h.isParked(vsGateCP, b) {
				if !h.step(vsStep{A: "CPPersist", B: b}) {
					break
				}
				progressed = true
			}
		}
		for h.isParked(vsGateOp, "op") {
			if !h.step(vsStep{A: "OpCas"}) {
				break
			}
			progressed = true
		}
		for _, b := range h.sched.Brokers {
			for h.pend(b) > 0 {
				if !h.step(vsStep{A: "Refresh", B: b}) {
					break
				}
				progressed = true
			}
		}
		if !progressed {
			for _, b := range h.sched.Brokers {
				if h.pend(b) > 0 || h.blocked[b] > 0 || h.isParked(vsGateCP, b) {
					h.abandon("quiescence not reached: %s still has work that cannot be completed", b)
				}
			}
			if h.opArmed.Load() {
				h.abandon("quiescence not reached: operator publish still in flight")
			}
			return
		}
	}
	h.abandon("drain did not terminate")
}

func (h *vsH) shutdown() {
	close(h.closed)
	h.reg.Range(func(k, _ any) bool { h.reg.Delete(k); return true })
	h.opArmed.Store(false)
	for _, s := range h.stores {
		_ = s.Close()
	}
}

func vsInitialMeta() metadata.ClusterMetadata {
	return metadata.ClusterMetadata{Brokers: []protocol.MetadataBroker{{NodeID: 0, Host: "verif-broker-0", Port: 9092}}}
}

func vsStart(t *testing.T, endpoints []string, admin *clientv3.Client, sc vsSched, emit func(map[string]any)) *vsH {
	h := &vsH{t: t, arrivals: make(chan vsArrival, 4096), closed: make(chan struct{}), sched: sc,
		stores: map[string]*metadata.EtcdStore{}, parked: map[string][]vsArrival{}, refDone: map[string]int{},
		opDone: map[string][]error{}, blocked: map[string]int{}, blockedAt: map[string]int{}, crd: map[string]int{}, cpArgs: map[string]vsStep{}, admin: admin, endpoints: endpoints, emit: emit}
	ctx, cancel := context.WithTimeout(context.Background(), 10*time.Second)
	defer cancel()
	if _, err := admin.Delete(ctx, "/kafscale/", clientv3.WithPrefix()); err != nil {
		h.fatal("admin delete: %v", err)
	}
	vsCur.Store(h)
	for _, b := range sc.Brokers {
		s, err := metadata.NewEtcdStore(ctx, vsInitialMeta(), metadata.EtcdStoreConfig{Endpoints: endpoints})
		if err != nil {
			h.fatal("NewEtcdStore: %v", err)
		}
		h.stores[b] = s
		h.reg.Store(fmt.Sprintf("%p", s), b)
	}
	// Establish the watches: write the initial snapshot until every store has reacted at least once
	// (the watch is created asynchronously by NewEtcdStore; an event written before that is not delivered).
	payload, _ := json.Marshal(vsInitialMeta())
	seen := map[string]bool{}
	for round := 0; len(seen) < len(sc.Brokers); round++ {
		if round > 100 {
			h.fatal("watches not established")
		}
		if _, err := admin.Put(ctx, vsSnapshotKey, string(payload)); err != nil {
			h.fatal("admin put: %v", err)
		}
		h.pump(300*time.Millisecond, func() bool {
			for _, b := range sc.Brokers {
				if !seen[b] && !h.isParked(vsGateRefresh, b) {
					return false
				}
			}
			return true
		})
		for _, b := range sc.Brokers {
			for h.isParked(vsGateRefresh, b) {
				before := h.refDone[b]
				h.release(vsGateRefresh, b)
				if !h.pump(vsLong, func() bool { return h.refDone[b] > before }) {
					h.fatal("initial refresh of %s did not finish", b)
				}
				seen[b] = true
			}
		}
	}
	_, ver := h.readKey()
	h.ver0 = ver
	for _, b := range sc.Brokers {
		h.refDone[b] = 0
	}
	return h
}

func TestVerifSnapshotReplay(t *testing.T) {
	in, outPath := os.Getenv("VERIF_SCHEDULES"), os.Getenv("VERIF_TRACE_OUT")
	if in == "" || outPath == "" {
		t.Skip("no schedules")
	}
	t.Setenv(operatorEtcdSilenceLogsEnv, "true")
	f, err := os.Open(in)
	if err != nil {
		t.Fatal(err)
	}
	defer f.Close()
	out, err := os.Create(outPath)
	if err != nil {
		t.Fatal(err)
	}
	defer out.Close()
	w := bufio.NewWriter(out)
	defer w.Flush()
	emit := func(m map[string]any) {
		b, _ := json.Marshal(m)
		w.Write(b)
		w.WriteByte('\n')
	}
	endpoints := testutil.StartEmbeddedEtcd(t)
	admin, err := clientv3.New(clientv3.Config{Endpoints: endpoints, DialTimeout: 5 * time.Second})
	if err != nil {
		t.Fatal(err)
	}
	defer admin.Close()
	metadata.VerifGate = vsGate
	VerifGate = vsGate
	defer func() { vsCur.Store(nil) }()

	sc := bufio.NewScanner(f)
	sc.Buffer(make([]byte, 1<<20), 1<<26)
	n, abandoned := 0, 0
	for sc.Scan() {
		var s vsSched
		if err := json.Unmarshal(sc.Bytes(), &s); err != nil {
			t.Fatal(err)
		}
		sort.Strings(s.Brokers)
		sort.Strings(s.Topics)
		h := vsStart(t, endpoints, admin, s, emit)
		emit(map[string]any{"ev": "Reset", "sched": n, "brokers": s.Brokers, "topics": s.Topics, "st": h.state()})
		func() {
			defer func() {
				if r := recover(); r != nil {
					ab, ok := r.(vsAbandon)
					if !ok {
						panic(r)
					}
					abandoned++
					h.line("Abandoned", vsStep{}, false, false, fmt.Errorf("%s", ab.why))
				}
			}()
			for _, st := range s.Steps {
				h.step(st)
			}
			h.drain()
			// quiescent: nothing parked, no undelivered event; observe what every party answers now
			h.line("Observe", vsStep{}, true, false, nil)
		}()
		h.shutdown()
		n++
	}
	hits := map[string]int64{}
	vsHits.Range(func(k, v any) bool { hits[k.(string)] = atomic.LoadInt64(v.(*int64)); return true })
	emit(map[string]any{"ev": "Summary", "hits": hits, "schedules": n, "abandoned": abandoned})
	t.Logf("replayed %d schedules", n)
}
