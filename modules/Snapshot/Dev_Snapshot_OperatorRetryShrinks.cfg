CONSTANTS
 Brokers = {"b1"}
 Topics = {"t1"}
 MaxParts = 2
 MaxOps = 3
 FixCas = TRUE
 DevRefreshOverwritesPending = FALSE
 DevOperatorShrinks = TRUE
INIT Init
NEXT Next
INVARIANTS C21_EtcdKeeps C21_BrokersKeep
CONSTRAINT CrdEmpty
VIEW View
CHECK_DEADLOCK FALSE
