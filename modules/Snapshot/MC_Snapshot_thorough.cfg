CONSTANTS
 Brokers = {"b1","b2"}
 Topics = {"t1","t2"}
 MaxParts = 3
 MaxOps = 5
 FixCas = TRUE
 DevRefreshOverwritesPending = FALSE
 DevOperatorShrinks = FALSE
INIT Init
NEXT Next
INVARIANTS C21_EtcdKeeps C21_BrokersKeep Converged TypeOK
VIEW View
CHECK_DEADLOCK FALSE
