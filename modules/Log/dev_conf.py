"""Development aid: simulate a few schedules, run the harness, run layers O and C, print where C stops."""
import sys, os, json
sys.path.insert(0, "/verif")
from lib import common, tlc as T, layers, gorun
import importlib.util
spec = importlib.util.spec_from_file_location("m", "/verif/modules/Log/module.py"); m = importlib.util.module_from_spec(spec); spec.loader.exec_module(m); m.DIR = "/verif/modules/Log"
ctx = common.Ctx("C99", "quick", int(sys.argv[1]) if len(sys.argv) > 1 else 1)
os.environ["VERIF_KEEP"] = "1"
d = T.stage(ctx, m.DIR, "mc")
scheds = []
for cfg, (inline, interval) in sorted(m.SIMS.items()):
    hs, _ = T.simulate_hists(ctx, d, "MC_Log.tla", cfg, num=8, depth=45, seed=ctx.seed, timeout=600)
    for j, h in enumerate(hs):
        scheds.append({"inline": inline, "interval": interval, "cache": j % 2 == 0, "sync": cfg not in m.ASYNC_SIMS, "cancel": j % 3 == 2, "mbs": m.MBS, "steps": h})
print(len(scheds), "schedules")
rows, hits = m.harness(ctx, scheds, "dev")
print(len(rows), "rows", hits)
_, viol, _ = layers.observe(ctx, m.DIR, "Obs_Log.tla", "Obs_Log.cfg", rows)
print("viol", viol[:10])
print(m.conformance(ctx, scheds, m.split(rows)))
print(ctx.scratch)
