---- MODULE MC_Trace_Log ----
EXTENDS Trace_Log
ShAll == {[n |-> 1, kind |-> "ok"], [n |-> 2, kind |-> "ok"], [n |-> 1, kind |-> "neglod"], [n |-> 1, kind |-> "concat"],
          [n |-> 2, kind |-> "neglod"], [n |-> 2, kind |-> "concat"], [n |-> 1, kind |-> "maxlod"], [n |-> 2, kind |-> "maxlod"]}
====
