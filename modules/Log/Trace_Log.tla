---- MODULE Trace_Log ----
(* Conformance layer: every line recorded on the real broker must be a step of Log.tla (same    *)
(* action, same arguments) whose post-state equals the logged projection of the lock-protected  *)
(* state; every read of the grid must return what ReadSpec computes on the model state.         *)
(* Unlogged steps (a publish skipped by the monotone guard; the rejected-append composite) are  *)
(* composed in explicitly.                                                                      *)
EXTENDS Log
TraceLog == ndJsonDeserialize("trace.ndjson")
VARIABLE l
tvars == <<vars, l>>
E == TraceLog[l]
Range(s) == {s[i] : i \in DOMAIN s}
Cur(ev) == l <= Len(TraceLog) /\ E.ev = ev /\ l' = l + 1
Bases(s) == [i \in 1..Len(s) |-> s[i].base]
StMatch(st) == /\ mem'.next = st.next /\ Bases(mem'.buf) = st.buf /\ mem'.flushing = st.flushing /\ Bases(mem'.fb) = st.fb
               /\ [i \in 1..Len(mem'.segs) |-> <<mem'.segs[i].base, mem'.segs[i].last>>] = st.segs
TInit == Init /\ l = 1 /\ TLCSet(7, 0)
TReset == /\ Cur("Reset") /\ E.inline = InlineAt /\ E.interval = Interval /\ E.sync = SyncFlush
          /\ mem' = EmptyMem /\ up' = TRUE /\ rfail' = FALSE /\ restarted' = FALSE /\ s3seg' = {} /\ s3idx' = {} /\ storeNext' = 0
          /\ pc' = [p \in Producers |-> "idle"] /\ stage' = [p \in Producers |-> "flush"]
          /\ req' = [p \in Producers |-> NoReq] /\ art' = [p \in Producers |-> NoArt]
          /\ segUp' = [p \in Producers |-> "none"] /\ idxUp' = [p \in Producers |-> "none"]
          /\ pubVal' = [p \in Producers |-> -1] /\ sent' = [p \in Producers |-> 0]
          /\ faults' = 0 /\ crashes' = 0 /\ acked' = {} /\ hwReg' = FALSE /\ nextReg' = FALSE /\ hwMax' = 0 /\ lost' = {} /\ hist' = <<>>
TAppend == /\ Cur("Append") /\ Append_(E.p, [n |-> E.n, kind |-> E.kind])
           /\ req'[E.p].base = E.a /\ req'[E.p].id[2] = E.k
           /\ (pc'[E.p] = "upload") = (E.b = 1) /\ StMatch(E.st)
TFlushWait == Cur("FlushWait") /\ FlushEnter(E.p) /\ pc'[E.p] = "wait" /\ StMatch(E.st)
TFlushPrepare == /\ Cur("FlushPrepare") /\ (FlushEnter(E.p) \/ FlushWake(E.p))
                 /\ pc'[E.p] = (IF E.a = 1 THEN "pubread" ELSE "upload") /\ StMatch(E.st)
TPutSeg == Cur("PutSegment") /\ UpSeg(E.p, E.ok) /\ art[E.p].base = E.base /\ (E.ok => art[E.p].last = E.last)
TPutIdx == Cur("PutIndex") /\ UpIdx(E.p, E.ok) /\ art[E.p].base = E.base
TSkip == \/ Cur("SkipSegment") /\ UpSkip(E.p) /\ segUp'[E.p] = "skip"
         \/ Cur("SkipIndex") /\ UpSkip(E.p) /\ idxUp'[E.p] = "skip"
TFail == Cur("FlushFail") /\ UpDone(E.p) /\ pc'[E.p] = "err" /\ StMatch(E.st)
TCommit == Cur("FlushCommit") /\ UpDone(E.p) /\ pc'[E.p] = "publish" /\ pubVal'[E.p] = E.b /\ StMatch(E.st)
TPubRead == /\ Cur("PubRead") /\ PubRead(E.p) /\ StMatch(E.st)
            /\ IF E.a >= 0 THEN pubVal'[E.p] = E.a /\ pc'[E.p] = "publish" ELSE pc'[E.p] = "ackready"
TPublish == Cur("UpdateOffsets") /\ E.p # "" /\ Publish(E.p) /\ pubVal[E.p] = E.last /\ storeNext = E.prev /\ storeNext' = E.new
\* the monotone guard skipped the store update: no line is logged for it
SilentPublish(p) == /\ l <= Len(TraceLog) /\ E.ev # "UpdateOffsets" /\ UNCHANGED l
                    /\ pc[p] = "publish" /\ pubVal[p] + 1 <= storeNext /\ Publish(p) /\ storeNext' = storeNext
TAck == Cur("Ack") /\ Ack(E.p) /\ req[E.p].base = E.base /\ req[E.p].cnt = E.cnt /\ req[E.p].id[2] = E.k
TErr == Cur("Err") /\ pc[E.p] = "err" /\ Err(E.p)
\* a malformed batch is refused before AppendBatch: no Append line, only the error reply
TRejected == /\ Cur("Err") /\ pc[E.p] = "idle" /\ up /\ FixValidate /\ E.kind \in {"neglod", "concat"} /\ sent[E.p] + 1 = E.k
             /\ sent' = [sent EXCEPT ![E.p] = @ + 1]
             /\ UNCHANGED <<mem, up, rfail, restarted, s3seg, s3idx, storeNext, pc, stage, req, art, segUp, idxUp, pubVal, faults, crashes, acked, hwReg, nextReg, hwMax, lost, hist>>
TCrash == Cur("Crash") /\ Crash
TLoseIdx == Cur("LoseIdx") /\ LoseIdx(E.base)
\* getPartitionLog's own lines (RestoreFromS3's hook, the store sync) precede the Restart line
TRestoreLines == /\ (Cur("Restore") \/ (Cur("UpdateOffsets") /\ E.p = "")) /\ ~up /\ UNCHANGED vars
TRestart == /\ Cur("Restart") /\ Restart /\ up' = E.ok
            /\ (E.ok => (mem'.next = E.next /\ StMatch(E.st)))
TGrid == /\ Cur("Grid") /\ up /\ UNCHANGED vars
         /\ E.hw = FetchHW /\ E.lo = storeNext /\ E.next = mem.next
         /\ \A i \in DOMAIN E.reads :
              LET r == E.reads[i]  m == ReadSpec(r.o, r.mb) IN
                /\ m.kind = r.kind
                /\ (r.kind = "ok" => (r.aligned /\ r.intact /\ m.first = r.first /\ m.starts = Range(r.starts) /\ m.len = r.len))
Consumed == TLCSet(7, IF TLCGet(7) < l THEN l ELSE TLCGet(7))
TNext == \/ (TReset \/ TAppend \/ TFlushWait \/ TFlushPrepare \/ TPutSeg \/ TPutIdx \/ TSkip \/ TFail \/ TCommit \/ TPubRead \/ TPublish
             \/ TAck \/ TErr \/ TRejected \/ TCrash \/ TLoseIdx \/ TRestoreLines \/ TRestart \/ TGrid) /\ Consumed
         \/ \E p \in Producers : SilentPublish(p)
TSpec == TInit /\ [][TNext]_tvars
Reached == PrintT(<<"CONF", ToJson([reached |-> TLCGet(7), total |-> Len(TraceLog)])>>)
====
