---- MODULE LogProps ----
(* C01..C06 stated once over parameters.  Log.tla instantiates them with model state,          *)
(* Obs_Log.tla with values observed on the real broker (fake bucket, metadata store, replies). *)
EXTENDS Integers, Sequences, FiniteSets
CONSTANTS acked,      \* set of acknowledged batches [id, base, cnt] (produce reply had error code 0)
          s3seg,      \* set of segment objects in the bucket: [base, last, batches : Seq([id, base, cnt])]
          s3idx,      \* set of base offsets that have an index object
          storeNext,  \* partition end offset in the metadata store (high watermark)
          hwRegressed,   \* TRUE once a store update lowered storeNext
          nextRegressed, \* TRUE once the log's next offset decreased while the broker was up
          rfail,      \* TRUE iff opening the partition after a restart failed
          idxLost,    \* TRUE iff the harness/model deleted an index object (an injected loss, not an interrupted upload)
          up,         \* broker holds an open log for the partition
          memNext,    \* next offset the open log will assign
          hwMax,      \* highest end offset ever published (shown to consumers)
          restarted,  \* TRUE once the partition was reopened after a crash
          ref,        \* set of batches [base, cnt] the partition log currently consists of
          reads       \* set of read observations [o, mb, hw, kind, first, starts, aligned, intact]

Last(b) == b.base + b.cnt - 1
Indexed == {o \in s3seg : o.base \in s3idx}
InS3(b) == \E o \in Indexed : \E j \in 1..Len(o.batches) : o.batches[j].id = b.id /\ o.batches[j].base = b.base
Stored(x) == \E o \in Indexed : \E j \in 1..Len(o.batches) : o.batches[j].base <= x /\ x <= Last(o.batches[j])
S3Last == IF Indexed = {} THEN -1 ELSE CHOOSE m \in {o.last : o \in Indexed} : \A o \in Indexed : o.last <= m

C01_AckedDurable == \A b \in acked : InS3(b)

C02_Unique == \A a, b \in acked : a.id # b.id => (Last(a) < b.base \/ Last(b) < a.base)
\* the log's next offset never moves backwards, and the records of every stored segment carry strictly increasing offsets in
\* append order (a payload of several concatenated batches must not leave a later batch with the client's own base offset)
StoredInOrder == \A o \in Indexed : \A j \in 1..(Len(o.batches) - 1) : Last(o.batches[j]) < o.batches[j + 1].base
C02_Monotone == ~nextRegressed /\ StoredInOrder
\* no hole between two acknowledged batches: a hole would start right after the end of a stored batch (or of a itself), so only
\* those offsets need to be looked at (a batch may claim a million offsets)
StoredEnds == UNION {{Last(o.batches[j]) + 1 : j \in 1..Len(o.batches)} : o \in Indexed}
C02_NoGap == \A a, b \in acked : Last(a) < b.base =>
                \A e \in StoredEnds \cup {Last(a) + 1} : (Last(a) < e /\ e < b.base) => Stored(e)
C02_BaseIsStored == \A b \in acked : \A o \in Indexed : \A j \in 1..Len(o.batches) : o.batches[j].id = b.id => o.batches[j].base = b.base

C05_Monotone == ~hwRegressed
C05_NotAhead == storeNext <= S3Last + 1

C06_NoHide == rfail => idxLost   \* leftovers of interrupted uploads never make the partition unopenable
C06_NoReuse == up => (memNext >= hwMax /\ \A b \in acked : Last(b) < memNext)

\* reads
Holding(o) == {b \in ref : b.base <= o /\ o <= Last(b)}
After(o) == {b \in ref : b.base > o}
TargetBase(o) == IF Holding(o) # {} THEN (CHOOSE b \in Holding(o) : TRUE).base
                 ELSE IF After(o) # {} THEN CHOOSE m \in {b.base : b \in After(o)} : \A b \in After(o) : m <= b.base
                 ELSE -1
RunOK(r) == r.kind # "ok" \/ (r.aligned /\ r.intact /\ TargetBase(r.o) # -1 /\ r.first <= TargetBase(r.o))
C03_FetchExact == \A r \in reads : RunOK(r)
C04_Progress == \A r \in reads : (r.o < r.hw /\ r.mb > 0) => (r.kind = "ok" /\ TargetBase(r.o) \in r.starts)
C06_Readable == restarted => \A r \in reads : \A b \in acked : (r.o = b.base /\ r.mb > 0) => (r.kind = "ok" /\ b.base \in r.starts)
====
