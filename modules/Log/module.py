"""Log.tla — C01..C06 (pkg/storage/log.go, cmd/broker produce/restart path)."""
import copy, json, os, re
from concurrent.futures import ThreadPoolExecutor
from lib import tlc as T, layers, gorun
from lib.common import Broken, Violation, verdict, save_replay

_TXT = ("Log.tla models one partition on one broker at the granularity of the code's critical sections and S3/store operations "
        "(AppendBatch, Flush wait/prepare, the two concurrent uploads, commit / failure reset, empty-flush publish, store update, reply, "
        "crash, restart = getPartitionLog+RestoreFromS3, and PartitionLog.Read transcribed as ReadSpec). TLC checks %s exhaustively for small "
        "constants (2-3 producers, <=2 S3 faults, <=1 crash). TLC-generated behaviours (counterexamples of 13 named wrong designs + seeded "
        "simulations) are replayed on the real handler/PartitionLog under testing/synctest with blocking hooks as scheduler gates, and the recorded "
        "traces are validated by TLC: the property predicates (LogProps.tla) on observed bucket/store/reply/read values (layer O) and "
        "step-by-step conformance with the model (layer C).")
_NOTE = ("Trusted: TLC, testing/synctest as scheduler barrier, the fake bucket and store wrapper (record puts under their own lock), the harness "
         "projection of segment bytes and read results to batch ids (byte comparison with the reference log). Bounded: exhaustive only for the stated "
         "constants; one partition; the S3 client is the in-harness fake (range reads and cache paths of PartitionLog.Read are both exercised).")
PROPS = {
    "C01": {"text": _TXT % "C01_AckedDurable", "note": _NOTE},
    "C02": {"text": _TXT % "C02_Unique, C02_Monotone, C02_NoGap, C02_BaseIsStored (well-formed and malformed batch headers)", "note": _NOTE},
    "C03": {"text": _TXT % "C03_FetchExact over the whole (offset, maxBytes) grid in every reachable state", "note": _NOTE},
    "C04": {"text": _TXT % "C04_Progress over the whole (offset < high watermark, maxBytes > 0) grid in every reachable state", "note": _NOTE},
    "C05": {"text": _TXT % "C05_Monotone and C05_NotAhead", "note": _NOTE},
    "C06": {"text": _TXT % "C06_NoHide, C06_NoReuse, C06_Readable with Crash enabled in every state", "note": _NOTE},
}
for _p in PROPS.values():
    _p["technique"] = "TLA+ model (Log.tla) + TLC exhaustive check + gate-scheduled replay of TLC behaviours into the real broker + TLC trace validation (observation and conformance layers)"
HOOK_EVENTS = ["Append", "FlushWait", "FlushPrepare", "PubRead", "FlushFail", "FlushCommit", "Restore"]
GATES = ["append", "flush", "upseg", "upidx", "updone", "pubread", "publish"]
MBS = [0, 9, 80, 200]
QUICK_MC = {"C01": ["MC_Log_quick.cfg", "MC_Log_inline_quick.cfg"], "C02": ["MC_Log_quick.cfg", "MC_Log_shapes_quick.cfg", "MC_Log_maxlod_quick.cfg"],
            "C03": ["MC_Log_read_quick.cfg", "MC_Log_crashread_quick.cfg", "MC_Log_async_quick.cfg"], "C04": ["MC_Log_read_quick.cfg", "MC_Log_crashread_quick.cfg", "MC_Log_idxloss_quick.cfg"],
            "C05": ["MC_Log_quick.cfg", "MC_Log_inline_quick.cfg"], "C06": ["MC_Log_quick.cfg", "MC_Log_crashread_quick.cfg", "MC_Log_idxloss_quick.cfg"]}
ALL_QUICK = ["MC_Log_maxlod_quick.cfg", "MC_Log_async_quick.cfg", "MC_Log_quick.cfg", "MC_Log_inline_quick.cfg", "MC_Log_read_quick.cfg", "MC_Log_crashread_quick.cfg", "MC_Log_shapes_quick.cfg", "MC_Log_idxloss_quick.cfg"]
THOROUGH_MC = {
    "C01": QUICK_MC["C01"] + ["MC_Log_thorough.cfg", "MC_Log_3p_thorough.cfg", "MC_Log_k3_thorough.cfg"],
    "C02": QUICK_MC["C02"] + ["MC_Log_thorough.cfg", "MC_Log_k3_thorough.cfg"],
    "C03": QUICK_MC["C03"] + ["MC_Log_idxloss_quick.cfg", "MC_Log_read_thorough.cfg", "MC_Log_readfault_thorough.cfg"],
    "C04": QUICK_MC["C04"] + ["MC_Log_async_quick.cfg", "MC_Log_read_thorough.cfg", "MC_Log_readfault_thorough.cfg"],
    "C05": QUICK_MC["C05"] + ["MC_Log_thorough.cfg", "MC_Log_k3_thorough.cfg"],
    "C06": QUICK_MC["C06"] + ["MC_Log_thorough.cfg", "MC_Log_3p_thorough.cfg", "MC_Log_readfault_thorough.cfg"],
}
SIMS = {"Sim_Log_a.cfg": (0, 1), "Sim_Log_b.cfg": (2, 2), "Sim_Log_c.cfg": (3, 3), "Sim_Log_d.cfg": (0, 2), "Sim_Log_e.cfg": (0, 3), "Sim_Log_f.cfg": (2, 2), "Sim_Log_g.cfg": (0, 2)}  # g: lastOffsetDelta = 2^31-1
ASYNC_SIMS = {"Sim_Log_f.cfg"}  # flush-on-ack off  # d: 8 producers, many batches per segment
DEV_PARAMS = {"NoRange": (0, 2), "TolerateLostIdx": (0, 2), "ReadFloorSegment": (0, 2)}


def harness(ctx, scheds, tag):
    sp = os.path.join(ctx.scratch, "sched-%s.ndjson" % tag)
    tp = os.path.join(ctx.scratch, "trace-%s.ndjson" % tag)
    gorun.write_ndjson(sp, scheds)
    rc, out = gorun.go_test(ctx, ".", "./cmd/broker/", {"cmd/broker/zz_verif_log_test.go": os.path.join(DIR, "harness", "log_verif_test.go")},
                            "^TestVerifLogReplay$", env={"VERIF_SCHEDULES": sp, "VERIF_TRACE_OUT": tp}, timeout=600)
    if rc != 0 or "replayed %d schedules" % len(scheds) not in out:
        raise Broken("log harness failed:\n" + out[-4000:])
    m = re.search(r"gate hits (\{.*\})", out)
    hits = json.loads(m.group(1)) if m else {}
    return gorun.read_ndjson(tp), hits


def split(rows):
    runs = []
    for r in rows:
        if r["ev"] == "Reset":
            runs.append([])
        runs[-1].append(r)
    return runs


def gen_schedules(ctx, d):
    devs = json.load(open(os.path.join(DIR, "deviations.json")))
    scheds, labels = [], []

    def one(name):
        h, r = T.counterexample_hist(ctx, d, "MC_Log.tla", "Dev_Log_%s.cfg" % name, workers=4, timeout=600)
        return name, h, r
    with ThreadPoolExecutor(max_workers=4) as ex:
        res = list(ex.map(one, sorted(devs)))
    for name, h, r in res:
        if h is None or devs[name] not in r.violated:
            raise Broken("deviation %s no longer violates %s in the model (vacuous deviation)" % (name, devs[name]))
        inline, interval = DEV_PARAMS.get(name, (0, 1))
        for cache in (True, False):
            scheds.append({"inline": inline, "interval": interval, "cache": cache, "sync": True, "cancel": False, "mbs": MBS, "steps": h})
            labels.append("dev:" + name)
        if any(x["a"] in ("UpSeg", "UpIdx") and not x.get("ok", True) for x in h):
            # the same counterexample with the failures delivered as a cancellation of the producer's request context
            scheds.append({"inline": inline, "interval": interval, "cache": True, "sync": True, "cancel": True, "mbs": MBS, "steps": h})
            labels.append("dev:" + name + "+cancel")
    nsim = 40 if ctx.quick() else 250
    for i, (cfg, (inline, interval)) in enumerate(sorted(SIMS.items())):
        hs, _ = T.simulate_hists(ctx, d, "MC_Log.tla", cfg, num=nsim, depth=45, seed=ctx.seed * 7 + i, timeout=900)
        for j, h in enumerate(hs):
            scheds.append({"inline": inline, "interval": interval, "cache": (j % 2 == 0), "sync": cfg not in ASYNC_SIMS, "cancel": (j % 3 == 2), "mbs": MBS, "steps": h})
            labels.append("sim:" + cfg[8])
    return scheds, labels, sorted(devs)


FIX_INDEX_SEARCH = "TRUE"
TRACE_CFG = """CONSTANTS
 Producers = {"p1","p2","p3","p4","p5","p6","p7","p8"}
 K = 1000
 Shapes <- ShAll
 MaxFaults = 1000
 MaxCrashes = 1000
 MaxIdxLoss = 1000
 SyncFlush = %s
 InlineAt = %d
 Interval = %d
 MBs = {0}
 FixRestore = TRUE
 FixPublish = TRUE
 FixMonotone = TRUE
 FixReadOrder = TRUE
 FixRange = TRUE
 FixIndexSearch = %s
 FixValidate = TRUE
 DevNoWait = FALSE
 DevCommitBeforeIndex = FALSE
 DevRestoreKeepsOffset = FALSE
 DevOrphanNotSkipped = FALSE
 DevOrphanAlwaysSkipped = FALSE
 DevNoFlushOnAck = FALSE
 DevTolerateLostIdx = FALSE
 DevRestoreCountsOrphan = FALSE
 DevReadFloorSegment = FALSE
INIT TInit
NEXT TNext
POSTCONDITION Reached
CHECK_DEADLOCK FALSE
"""


def conformance(ctx, scheds, runs):
    """Layer C, one TLC start per (InlineAt, Interval) group."""
    conf = {"accepted": 0, "rejected_groups": 0, "first_rejection": None, "lines": 0}
    key = lambda s: (s["inline"], s["interval"], bool(s.get("sync", True)))
    groups = sorted({key(s) for s in scheds})
    for (inl, itv, sync) in groups:
        sub = [r for i, run in enumerate(runs) if key(scheds[i]) == (inl, itv, sync) for r in run]
        reached, total, res = layers.conform(ctx, DIR, "MC_Trace_Log.tla", "Trace_Log.cfg", sub, name="conf-%d-%d-%d" % (inl, itv, sync),
                                             cfg_text=TRACE_CFG % ("TRUE" if sync else "FALSE", inl, itv, FIX_INDEX_SEARCH), timeout=1800)
        conf["lines"] += total
        if reached == total:
            conf["accepted"] += sum(1 for s in scheds if key(s) == (inl, itv, sync))
        else:
            conf["rejected_groups"] += 1
            if conf["first_rejection"] is None:
                nxt = sub[reached] if reached < len(sub) else None
                conf["first_rejection"] = {"group": [inl, itv, sync], "consumed": reached, "of": total,
                                           "next_line": {k: v for k, v in (nxt or {}).items() if k != "reads"}}
                start = max(j for j in range(min(reached, len(sub) - 1) + 1) if sub[j]["ev"] == "Reset")
                save_replay(ctx.prop, "drift-trace.json", {"rejected_line": nxt, "trace_so_far": sub[start:reached + 1]})
    return conf


def nontrivial(s):
    acts = [x["a"] for x in s["steps"]]
    faults = sum(1 for x in s["steps"] if x["a"] in ("UpSeg", "UpIdx") and not x.get("ok", True))
    prods = {x["p"] for x in s["steps"] if x["a"] == "Append"}
    return len(prods) >= 2 and (faults > 0 or "Crash" in acts or acts.count("FlushEnter") >= 2)


def pipeline(ctx, prop):
    d = T.stage(ctx, DIR, "mc")
    mcs = {}
    cfgs = QUICK_MC[prop] if ctx.quick() else THOROUGH_MC[prop]
    if os.environ.get("VERIF_SKIP_MC"):  # development aid only: evidence then lacks states and the run is not a check
        cfgs = []

    def mc(cfg):
        return cfg, T.model_check(ctx, d, "MC_Log.tla", cfg, workers=6, timeout=3000, coverage=False)
    with ThreadPoolExecutor(max_workers=3) as ex:
        for cfg, r in ex.map(mc, cfgs):
            mcs[cfg] = r
            ctx.log("model %s: %d distinct states, %d transitions, depth %d" % (cfg, r.distinct, r.generated, r.depth))
    scheds, labels, devnames = gen_schedules(ctx, d)
    ctx.log("%d schedules (%d from deviation counterexamples)" % (len(scheds), sum(1 for l in labels if l.startswith("dev:"))))
    rows, hits = harness(ctx, scheds, "main")
    runs = split(rows)
    if len(runs) != len(scheds):
        raise Broken("harness recorded %d runs for %d schedules" % (len(runs), len(scheds)))
    seen = {r["ev"] for r in rows}
    missing = [e for e in HOOK_EVENTS if e not in seen] + ["gate:" + g for g in GATES if not hits.get(g)]
    if missing:
        raise Broken("hook presence check failed, never hit: %s (hook patch missing or mis-applied?)" % missing)
    _, viol, _ = layers.observe(ctx, DIR, "Obs_Log.tla", "Obs_Log.cfg", rows, timeout=1800)
    found, first = [], set()
    starts = [i for i, r in enumerate(rows) if r["ev"] == "Reset"]
    import bisect
    for line, inv in sorted(viol):
        idx = bisect.bisect_right(starts, line - 1) - 1
        if (idx, inv) in first:
            continue
        first.add((idx, inv))
        ev = rows[line - 1]
        found.append({"inv": inv, "ev": ev["ev"], "sched": idx, "label": labels[idx], "line": ev})
    return {"mcs": mcs, "scheds": scheds, "labels": labels, "rows": rows, "runs": runs, "found": found, "devnames": devnames, "hits": hits}


def check(ctx, prop):
    res = pipeline(ctx, prop)
    scheds, labels, runs, rows = res["scheds"], res["labels"], res["runs"], res["rows"]
    violations = []
    for f in res["found"]:
        if not f["inv"].startswith(prop + "_"):
            continue
        sig = "%s@%s" % (f["inv"], f["ev"])
        i = f["sched"]
        path = save_replay(prop, "sched-%s.json" % re.sub(r"\W", "_", sig), {"schedule": scheds[i], "label": labels[i], "trace": runs[i], "line": f["line"]})
        violations.append(Violation(prop, sig, "%s false on the real broker at a %s step [schedule %s; schedule+trace in %s]" % (f["inv"], f["ev"], labels[i], path),
                                    {"schedule": scheds[i], "label": labels[i]}))
    others = sorted({f["inv"] for f in res["found"] if not f["inv"].startswith(prop + "_")})
    if others:
        ctx.log("note: predicates of other properties were false in this run (reported by their own checks): %s" % others)
    st = self_test(ctx, runs)
    conf = conformance(ctx, scheds, runs)
    drift = conf["rejected_groups"] > 0
    level = "model_checking"
    if drift:
        ctx.log("DRIFT: conformance layer stopped at " + json.dumps(conf["first_rejection"])[:600])
        if not violations:
            level = "exploration"  # the exhaustive model result no longer transfers to this code
    mcs = res["mcs"]
    cov = {
        "states": sum(r.distinct for r in mcs.values()), "transitions": sum(r.generated for r in mcs.values()),
        "model_configs": {c: {"distinct": r.distinct, "generated": r.generated, "depth": r.depth} for c, r in mcs.items()},
        "exhaustive": True,
        "traces_validated_against_impl": len(runs), "trace_events": len(rows),
        "evaluations": len(scheds), "distinct_nontrivial": len({json.dumps(s["steps"], sort_keys=True) for s in scheds if nontrivial(s)}),
        "rule": "schedules = TLC counterexamples of the named deviations (each with cache on/off) + seeded TLC -simulate behaviours of 3 larger configs; non-trivial = >=2 producers and (an injected S3 fault, a crash, or >=2 overlapping flush calls); distinct by step sequence",
        "deviation_schedules": res["devnames"], "gate_hits": res["hits"],
        "read_grid": {"maxBytes": MBS, "reads": sum(len(r.get("reads", [])) for r in rows if r["ev"] == "Grid")},
        "binding_self_test": st, "conformance": ("drift" if drift else "accepted"), "conformance_detail": conf,
        "samples": [scheds[0]["steps"], scheds[-1]["steps"][:25], [{k: v for k, v in r.items() if k != "reads"} for r in runs[0][:6]]],
    }
    return verdict(ctx, violations, level, cov,
                   ["one partition; S3 and the metadata store are in-process fakes that record every put under their own lock",
                    "replay is steering: the recorded order (sequence numbers taken under the locks) is what is validated, not the intended order",
                    "<=1 crash per schedule in exhaustive configs (<=2 in simulation)"])


def self_test(ctx, runs):
    """Corrupt recorded fields; layer O must notice."""
    run = next((r for r in runs if any(x["ev"] == "Ack" for x in r) and any(x["ev"] == "PutSegment" and x.get("ok") for x in r)), None)
    if run is None:
        raise Broken("binding self-test: no run with an acknowledged produce")
    bad = copy.deepcopy(run)
    for x in bad:
        if x["ev"] == "PutSegment" and x.get("ok"):
            x["ok"] = False  # pretend the bucket never stored the segment
    _, viol, _ = layers.observe(ctx, DIR, "Obs_Log.tla", "Obs_Log.cfg", bad, name="selfO1")
    if not any(v[1] == "C01_AckedDurable" for v in viol):
        raise Broken("binding self-test: observation layer did not flag an acknowledged batch missing from the bucket")
    bad = copy.deepcopy(run)
    tgt = [x for x in bad if x["ev"] == "UpdateOffsets"]
    if tgt:
        tgt[-1]["new"] = tgt[-1]["prev"] - 1
        _, viol, _ = layers.observe(ctx, DIR, "Obs_Log.tla", "Obs_Log.cfg", bad, name="selfO2")
        if not any(v[1] == "C05_Monotone" for v in viol):
            raise Broken("binding self-test: observation layer did not flag a lowered watermark")
    bad = copy.deepcopy(run)
    tgt2 = [x for x in bad if x["ev"] == "FlushCommit"]
    confrej = False
    if tgt2:
        tgt2[-1]["st"]["next"] += 1
        c = conformance(ctx, [{"inline": bad[0]["inline"], "interval": bad[0]["interval"], "sync": bad[0].get("sync", True)}], [bad])
        confrej = c["rejected_groups"] == 1
        if not confrej:
            raise Broken("binding self-test: conformance layer accepted a corrupted nextOffset in a FlushCommit line")
    return {"observation_layer_flags_missing_segment": True, "observation_layer_flags_lowered_watermark": bool(tgt),
            "conformance_layer_rejects_corrupted_state": confrej}


def replay(ctx, prop, path):
    obj = json.load(open(path))
    sched = obj.get("schedule") or obj.get("detail", {}).get("schedule")
    rows, _ = harness(ctx, [sched], "replay")
    _, viol, _ = layers.observe(ctx, DIR, "Obs_Log.tla", "Obs_Log.cfg", rows)
    for r in rows:
        print(json.dumps({k: v for k, v in r.items() if k != "reads"}, sort_keys=True))
    mine = [(l, i) for l, i in viol if i.startswith(prop + "_")]
    for line, inv in mine[:5]:
        print("VIOLATION property=%s replay=%s" % (prop, path))
        print("  %s false at line %d" % (inv, line))
    return 1 if mine else 0
