---- MODULE Obs_Log ----
(* Observation layer for Log.tla: the state is accumulated ONLY from lines recorded on the real *)
(* broker (fake bucket puts, metadata-store updates, produce replies, hook projections, read     *)
(* grids); the C01..C06 predicates are the LogProps definitions instantiated with those values.  *)
EXTENDS Integers, Sequences, FiniteSets, TLC, Json
TraceLog == ndJsonDeserialize("trace.ndjson")
VARIABLES l, acked, s3seg, s3idx, storeNext, hwReg, nextReg, rfail, up, restarted, memNext, hwMax, lost, sync, viol
ovars == <<l, acked, s3seg, s3idx, storeNext, hwReg, nextReg, rfail, up, restarted, memNext, hwMax, lost, sync, viol>>
Range(s) == {s[i] : i \in DOMAIN s}
S3Put(s, o) == {x \in s : x.base # o.base} \cup {o}
LogEvs == {"Append", "FlushWait", "FlushPrepare", "PubRead", "FlushFail", "FlushCommit", "Restore"}
\* direct PartitionLog.Read results and the consumer's Fetch results (a Fetch that returns nothing at or above its own
\* high watermark is "empty", which the read predicates treat like out-of-range)
ReadsOf(e) == IF e.ev = "Grid"
              THEN {[o |-> r.o, mb |-> r.mb, hw |-> r.hw, kind |-> r.kind, first |-> r.first, starts |-> Range(r.starts),
                     aligned |-> r.aligned, intact |-> r.intact] : r \in Range(e.reads) \cup Range(e.fetches)}
              ELSE {}
MaxShown(e) == IF e.ev = "Grid" /\ e.fetches # <<>>
               THEN LET H == {f.hw : f \in Range(e.fetches)} IN CHOOSE m \in H : \A x \in H : x <= m
               ELSE -1
RefOf(e) == IF e.ev = "Grid" THEN {[base |-> x[1], cnt |-> x[2]] : x \in Range(e.ref)} ELSE {}
P(a, sg, si, sn, hr, nr, rf, il, u, rs, mn, hm, rf2, rd) == INSTANCE LogProps WITH
    acked <- a, s3seg <- sg, s3idx <- si, storeNext <- sn, hwRegressed <- hr, nextRegressed <- nr, rfail <- rf, idxLost <- il, up <- u, restarted <- rs,
    memNext <- mn, hwMax <- hm, ref <- rf2, reads <- rd
Names == {"C01_AckedDurable", "C02_Unique", "C02_Monotone", "C02_NoGap", "C02_BaseIsStored", "C03_FetchExact", "C04_Progress",
          "C05_Monotone", "C05_NotAhead", "C06_NoHide", "C06_NoReuse", "C06_Readable"}
Bad(a, sg, si, sn, hr, nr, rf, il, u, rs, mn, hm, rf2, rd) == {n \in Names :
    \/ n = "C01_AckedDurable" /\ ~P(a, sg, si, sn, hr, nr, rf, il, u, rs, mn, hm, rf2, rd)!C01_AckedDurable
    \/ n = "C02_Unique" /\ ~P(a, sg, si, sn, hr, nr, rf, il, u, rs, mn, hm, rf2, rd)!C02_Unique
    \/ n = "C02_Monotone" /\ ~P(a, sg, si, sn, hr, nr, rf, il, u, rs, mn, hm, rf2, rd)!C02_Monotone
    \/ n = "C02_NoGap" /\ ~P(a, sg, si, sn, hr, nr, rf, il, u, rs, mn, hm, rf2, rd)!C02_NoGap
    \/ n = "C02_BaseIsStored" /\ ~P(a, sg, si, sn, hr, nr, rf, il, u, rs, mn, hm, rf2, rd)!C02_BaseIsStored
    \/ n = "C03_FetchExact" /\ ~P(a, sg, si, sn, hr, nr, rf, il, u, rs, mn, hm, rf2, rd)!C03_FetchExact
    \/ n = "C04_Progress" /\ ~P(a, sg, si, sn, hr, nr, rf, il, u, rs, mn, hm, rf2, rd)!C04_Progress
    \/ n = "C05_Monotone" /\ ~P(a, sg, si, sn, hr, nr, rf, il, u, rs, mn, hm, rf2, rd)!C05_Monotone
    \/ n = "C05_NotAhead" /\ ~P(a, sg, si, sn, hr, nr, rf, il, u, rs, mn, hm, rf2, rd)!C05_NotAhead
    \/ n = "C06_NoHide" /\ ~P(a, sg, si, sn, hr, nr, rf, il, u, rs, mn, hm, rf2, rd)!C06_NoHide
    \/ n = "C06_NoReuse" /\ ~P(a, sg, si, sn, hr, nr, rf, il, u, rs, mn, hm, rf2, rd)!C06_NoReuse
    \/ n = "C06_Readable" /\ ~P(a, sg, si, sn, hr, nr, rf, il, u, rs, mn, hm, rf2, rd)!C06_Readable}
\* with flush-on-ack off an acknowledged record may be lost in a crash by design: durability clauses are not claimed
AsyncNames == {"C02_Unique", "C02_Monotone", "C02_BaseIsStored", "C03_FetchExact", "C04_Progress", "C05_Monotone", "C05_NotAhead"}
OInit == /\ l = 0 /\ acked = {} /\ s3seg = {} /\ s3idx = {} /\ storeNext = 0 /\ hwReg = FALSE /\ nextReg = FALSE
         /\ rfail = FALSE /\ up = TRUE /\ restarted = FALSE /\ memNext = 0 /\ hwMax = 0 /\ lost = {} /\ sync = TRUE /\ viol = {}
Step ==
  /\ l < Len(TraceLog) /\ l' = l + 1
  /\ LET e == TraceLog[l + 1]
         reset == e.ev = "Reset"
         islog == e.ev \in LogEvs
     IN /\ acked' = IF reset THEN {} ELSE IF e.ev = "Ack" THEN acked \cup {[id |-> <<e.p, e.k>>, base |-> e.base, cnt |-> e.cnt]} ELSE acked
        /\ s3seg' = IF reset THEN {} ELSE IF e.ev = "PutSegment" /\ e.ok
                      THEN S3Put(s3seg, [base |-> e.base, last |-> e.last, batches |-> [j \in DOMAIN e.batches |-> [id |-> e.batches[j].id, base |-> e.batches[j].base, cnt |-> e.batches[j].cnt]]])
                      ELSE s3seg
        /\ s3idx' = IF reset THEN {} ELSE IF e.ev = "PutIndex" /\ e.ok THEN s3idx \cup {e.base} ELSE IF e.ev = "LoseIdx" THEN s3idx \ {e.base} ELSE s3idx
        /\ sync' = IF reset THEN e.sync ELSE sync
        /\ lost' = IF reset THEN {} ELSE IF e.ev = "LoseIdx" THEN lost \cup {e.base} ELSE lost
        \* the published end offset is observed at every store update and, at every grid, as the "latest" ListOffsets answer
        /\ storeNext' = IF reset THEN 0 ELSE IF e.ev = "UpdateOffsets" THEN e.new ELSE IF e.ev = "Grid" /\ e.lo >= 0 THEN e.lo ELSE storeNext
        /\ hwReg' = IF reset THEN FALSE ELSE IF e.ev = "UpdateOffsets" THEN (hwReg \/ e.new < e.prev)
                     ELSE IF e.ev = "Grid" /\ e.lo >= 0 THEN (hwReg \/ e.lo < storeNext) ELSE hwReg
        /\ hwMax' = IF reset THEN 0 ELSE IF e.ev = "UpdateOffsets" /\ e.new > hwMax THEN e.new
                     ELSE IF MaxShown(e) > hwMax THEN MaxShown(e) ELSE hwMax   \* a high watermark reported to a consumer counts as shown
        /\ up' = IF reset THEN TRUE ELSE IF e.ev = "Crash" THEN FALSE ELSE IF e.ev = "Restart" THEN e.ok ELSE up
        /\ restarted' = IF reset THEN FALSE ELSE IF e.ev = "Restart" THEN TRUE ELSE restarted
        /\ rfail' = IF reset THEN FALSE ELSE IF e.ev = "Restart" THEN ~e.ok ELSE rfail
        /\ memNext' = IF reset THEN 0 ELSE IF islog THEN e.st.next ELSE IF e.ev = "Restart" /\ e.ok THEN e.next ELSE memNext
        /\ nextReg' = IF reset THEN FALSE ELSE IF islog /\ up THEN (nextReg \/ e.st.next < memNext) ELSE nextReg
        /\ viol' = IF reset THEN viol
                   ELSE viol \cup {<<l + 1, n>> : n \in (IF sync' THEN Names ELSE AsyncNames) \cap Bad(acked', s3seg', s3idx' \cup lost', storeNext', hwReg', nextReg', rfail', lost' # {}, up', restarted', memNext', hwMax', RefOf(e), ReadsOf(e))}
  /\ (l' = Len(TraceLog)) => PrintT(<<"OBS", ToJson([consumed |-> l', viol |-> viol'])>>)
OSpec == OInit /\ [][Step]_ovars
====
