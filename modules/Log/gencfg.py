#!/usr/bin/env python3
"""Generates the TLC configs of the Log module (kept in the repo; rerun after changing bounds)."""
import sys
CORE = "C01_AckedDurable C02_Unique C02_Monotone C02_NoGap C02_BaseIsStored C05_Monotone C05_NotAhead C06_NoHide C06_NoReuse"
READ = "C03_FetchExact C04_Progress C06_Readable"
DEFAULT = dict(FixRestore='TRUE', FixPublish='TRUE', FixMonotone='TRUE', FixReadOrder='TRUE', FixRange='TRUE', FixIndexSearch='TRUE', FixValidate='TRUE',
               DevNoWait='FALSE', DevCommitBeforeIndex='FALSE', DevRestoreKeepsOffset='FALSE', DevOrphanNotSkipped='FALSE',
               DevOrphanAlwaysSkipped='FALSE', DevNoFlushOnAck='FALSE', DevTolerateLostIdx='FALSE', DevRestoreCountsOrphan='FALSE', DevReadFloorSegment='FALSE')

def gen(f, P='{"p1","p2"}', K=2, sh='ShOk1', faults=2, crashes=1, idxloss=0, sync='TRUE', inline=0, interval=1, mbs='{80}', invs=CORE, view=True, **over):
    c = dict(DEFAULT); c.update(over)
    s = "CONSTANTS\n Producers = %s\n K = %s\n Shapes <- %s\n MaxFaults = %s\n MaxCrashes = %s\n MaxIdxLoss = %s\n SyncFlush = %s\n InlineAt = %s\n Interval = %s\n MBs = %s\n" % (P, K, sh, faults, crashes, idxloss, sync, inline, interval, mbs)
    for k, v in c.items():
        s += " %s = %s\n" % (k, v)
    s += "INIT Init\nNEXT Next\n" + ("VIEW View\n" if view else "") + "CHECK_DEADLOCK FALSE\nINVARIANTS %s\n" % invs
    open(f, 'w').write(s)

# exhaustive, repaired design
gen('MC_Log_quick.cfg')                                                     # 2x2, <=2 faults, <=1 crash
gen('MC_Log_inline_quick.cfg', faults=1, crashes=1, inline=2)               # threshold-triggered flush inside AppendBatch
gen('MC_Log_read_quick.cfg', K=1, P='{"p1","p2","p3"}', sh='ShOk12', faults=0, crashes=0, interval=2, mbs='{0,9,80,200}', invs=CORE + " " + READ)
gen('MC_Log_crashread_quick.cfg', K=1, P='{"p1","p2","p3"}', sh='ShOk1', faults=1, crashes=1, interval=2, mbs='{80}', invs=CORE + " " + READ)
gen('MC_Log_shapes_quick.cfg', sh='ShAll', faults=0, crashes=1)
gen('MC_Log_thorough.cfg', sh='ShOk12')
gen('MC_Log_3p_thorough.cfg', P='{"p1","p2","p3"}', K=1, faults=2, crashes=1)
gen('MC_Log_k3_thorough.cfg', K=3, faults=1, crashes=1)
gen('MC_Log_readfault_thorough.cfg', sh='ShOk12', faults=1, crashes=1, interval=2, mbs='{0,9,80,200}', invs=CORE + " " + READ)
gen('MC_Log_read_thorough.cfg', sh='ShOk12', faults=0, crashes=0, interval=2, mbs='{0,9,80,200}', invs=CORE + " " + READ)
# named deviations: each must make TLC report the stated invariant
DEV = {
    'NoRestore': (dict(FixRestore='FALSE'), 'C01_AckedDurable', {}),
    'NoRestoreHide': (dict(FixRestore='FALSE'), 'C06_NoHide', {}),
    'NoRestoreGap': (dict(FixRestore='FALSE'), 'C02_NoGap', {}),
    'NoPublish': (dict(FixPublish='FALSE'), 'C05_NotAhead', dict(faults=0, crashes=0)),
    'NoMonotone': (dict(FixMonotone='FALSE'), 'C05_Monotone', dict(faults=0, crashes=0)),
    'NoReadOrder': (dict(FixReadOrder='FALSE'), 'C03_FetchExact', dict(faults=0, crashes=0, mbs='{80}')),
    'NoRange': (dict(FixRange='FALSE'), 'C04_Progress', dict(faults=0, crashes=0, interval=2, sh='ShOk12', mbs='{9,80}')),
    'NoIndexSearch': (dict(FixIndexSearch='FALSE'), 'C04_Progress', dict(P='{"p1","p2","p3","p4","p5"}', K=1, sh='ShOk2', faults=0, crashes=0, interval=1, mbs='{9}')),
    'TolerateLostIdx': (dict(DevTolerateLostIdx='TRUE'), 'C04_Progress', dict(P='{"p1","p2","p3"}', K=1, sh='ShOk1', faults=0, crashes=1, idxloss=1, interval=2, mbs='{9}')),
    'ReadFloorSegment': (dict(DevReadFloorSegment='TRUE'), 'C04_Progress', dict(P='{"p1","p2","p3"}', K=1, sh='ShOk1', faults=0, crashes=1, idxloss=1, interval=2, mbs='{9}')),
    'RestoreCountsOrphan': (dict(DevRestoreCountsOrphan='TRUE'), 'C05_NotAhead', dict(faults=0, crashes=1)),
    'RestoreCountsOrphanGap': (dict(DevRestoreCountsOrphan='TRUE'), 'C02_NoGap', dict(faults=0, crashes=1)),
    'RestoreCountsOrphanHide': (dict(DevRestoreCountsOrphan='TRUE'), 'C06_NoHide', dict(faults=0, crashes=2)),
    'NoValidateConcat': (dict(FixValidate='FALSE'), 'C02_Monotone', dict(faults=0, crashes=0, sh='ShConcat')),
    'NoValidateNeg': (dict(FixValidate='FALSE'), 'C02_Monotone', dict(faults=0, crashes=0, sh='ShAll')),
    'NoValidateDup': (dict(FixValidate='FALSE'), 'C02_Unique', dict(faults=0, crashes=0, sh='ShAll')),
    'NoWait': (dict(DevNoWait='TRUE'), 'C01_AckedDurable', {}),
    'RestoreKeepsOffset': (dict(DevRestoreKeepsOffset='TRUE'), 'C06_NoReuse', {}),
    'OrphanNotSkipped': (dict(DevOrphanNotSkipped='TRUE'), 'C06_NoHide', {}),
    'NoFlushOnAck': (dict(DevNoFlushOnAck='TRUE'), 'C01_AckedDurable', dict(faults=0, crashes=0)),
}
for name, (over, inv, kw) in DEV.items():
    gen('Dev_Log_%s.cfg' % name, invs=inv, **kw, **over)
# simulation (larger constants; EmitSched prints the history at every visited state)
gen('Sim_Log_a.cfg', P='{"p1","p2","p3"}', K=3, sh='ShAll', faults=3, crashes=1, inline=0, interval=1, invs="EmitSched " + CORE, view=False)
gen('Sim_Log_b.cfg', P='{"p1","p2","p3"}', K=3, sh='ShOk12', faults=2, crashes=1, inline=2, interval=2, invs="EmitSched " + CORE, view=False)
gen('Sim_Log_c.cfg', P='{"p1","p2"}', K=4, sh='ShOk12', faults=2, crashes=1, inline=3, interval=3, invs="EmitSched " + CORE, view=False)
gen('MC_Log_idxloss_quick.cfg', K=1, P='{"p1","p2","p3"}', sh='ShOk1', faults=0, crashes=1, idxloss=1, interval=2, mbs='{9}', invs=CORE + " " + READ)
gen('Sim_Log_e.cfg', P='{"p1","p2","p3","p4"}', K=2, sh='ShOk12', faults=1, crashes=1, idxloss=1, inline=0, interval=3, invs="EmitSched " + CORE, view=False)
ASYNC = "C02_Unique C02_Monotone C02_BaseIsStored C05_Monotone C05_NotAhead"
gen('MC_Log_async_quick.cfg', K=1, P='{"p1","p2","p3"}', sh='ShOk12', faults=1, crashes=0, sync='FALSE', inline=2, interval=2, mbs='{0,9,80,200}', invs=ASYNC + " C03_FetchExact C04_Progress")
gen('Sim_Log_f.cfg', P='{"p1","p2","p3"}', K=3, sh='ShOk12', faults=1, crashes=0, sync='FALSE', inline=2, interval=2, invs="EmitSched " + ASYNC, view=False)
gen('Sim_Log_g.cfg', P='{"p1","p2","p3"}', K=2, sh='ShMax', faults=1, crashes=1, inline=0, interval=2, invs="EmitSched " + CORE, view=False)
gen('MC_Log_maxlod_quick.cfg', P='{"p1","p2","p3"}', K=1, sh='ShMax', faults=0, crashes=1, interval=1, mbs='{80}', invs=CORE)
gen('Sim_Log_d.cfg', P='{"p1","p2","p3","p4","p5","p6","p7","p8"}', K=1, sh='ShOk12', faults=0, crashes=0, inline=0, interval=2, invs="EmitSched " + CORE, view=False)
import json
json.dump({k: v[1] for k, v in DEV.items()}, open('deviations.json', 'w'), indent=1)
