CONSTANTS
 Producers = {"p1","p2","p3","p4"}
 K = 2
 Shapes <- ShOk12
 MaxFaults = 1
 MaxCrashes = 1
 MaxIdxLoss = 1
 SyncFlush = TRUE
 InlineAt = 0
 Interval = 3
 MBs = {80}
 FixRestore = TRUE
 FixPublish = TRUE
 FixMonotone = TRUE
 FixReadOrder = TRUE
 FixRange = TRUE
 FixIndexSearch = TRUE
 FixValidate = TRUE
 DevNoWait = FALSE
 DevCommitBeforeIndex = FALSE
 DevRestoreKeepsOffset = FALSE
 DevOrphanNotSkipped = FALSE
 DevOrphanAlwaysSkipped = FALSE
 DevNoFlushOnAck = FALSE
 DevTolerateLostIdx = FALSE
 DevRestoreCountsOrphan = FALSE
 DevReadFloorSegment = FALSE
INIT Init
NEXT Next
CHECK_DEADLOCK FALSE
INVARIANTS EmitSched C01_AckedDurable C02_Unique C02_Monotone C02_NoGap C02_BaseIsStored C05_Monotone C05_NotAhead C06_NoHide C06_NoReuse
