CONSTANTS
 Producers = {"p1","p2","p3","p4","p5"}
 K = 1
 Shapes <- ShOk2
 MaxFaults = 0
 MaxCrashes = 0
 MaxIdxLoss = 0
 SyncFlush = TRUE
 InlineAt = 0
 Interval = 1
 MBs = {9}
 FixRestore = TRUE
 FixPublish = TRUE
 FixMonotone = TRUE
 FixReadOrder = TRUE
 FixRange = TRUE
 FixIndexSearch = FALSE
 FixValidate = TRUE
 DevNoWait = FALSE
 DevCommitBeforeIndex = FALSE
 DevRestoreKeepsOffset = FALSE
 DevOrphanNotSkipped = FALSE
 DevOrphanAlwaysSkipped = FALSE
 DevNoFlushOnAck = FALSE
 DevTolerateLostIdx = FALSE
 DevRestoreCountsOrphan = FALSE
 DevReadFloorSegment = FALSE
INIT Init
NEXT Next
VIEW View
CHECK_DEADLOCK FALSE
INVARIANTS C04_Progress
