CONSTANTS
 Producers = {"p1","p2"}
 K = 2
 Shapes <- ShOk12
 MaxFaults = 1
 MaxCrashes = 1
 MaxIdxLoss = 0
 SyncFlush = TRUE
 InlineAt = 0
 Interval = 2
 MBs = {0,9,80,200}
 FixRestore = TRUE
 FixPublish = TRUE
 FixMonotone = TRUE
 FixReadOrder = TRUE
 FixRange = TRUE
 FixIndexSearch = TRUE
 FixValidate = TRUE
 DevNoWait = FALSE
 DevCommitBeforeIndex = FALSE
 DevRestoreKeepsOffset = FALSE
 DevOrphanNotSkipped = FALSE
 DevOrphanAlwaysSkipped = FALSE
 DevNoFlushOnAck = FALSE
 DevTolerateLostIdx = FALSE
 DevRestoreCountsOrphan = FALSE
 DevReadFloorSegment = FALSE
INIT Init
NEXT Next
VIEW View
CHECK_DEADLOCK FALSE
INVARIANTS C01_AckedDurable C02_Unique C02_Monotone C02_NoGap C02_BaseIsStored C05_Monotone C05_NotAhead C06_NoHide C06_NoReuse C03_FetchExact C04_Progress C06_Readable
