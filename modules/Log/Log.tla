---- MODULE Log ----
(* One partition on one broker: pkg/storage/log.go (PartitionLog), the bucket, the metadata    *)
(* store's next_offset, and the produce path of cmd/broker (handleProduce: AppendBatch, then    *)
(* Flush when flush-on-ack, then the reply).  One action per critical section / S3 operation.   *)
(* Fix* constants: TRUE = the repaired tree (what the registered checks verify), FALSE = the    *)
(* pinned design, kept as a named deviation whose counterexample is a regression schedule.      *)
EXTENDS Integers, Sequences, FiniteSets, TLC, Json
CONSTANTS Producers, K, Shapes, MaxFaults, MaxCrashes, MaxIdxLoss, InlineAt, Interval, MBs,
          SyncFlush,     \* TRUE: flush-on-ack (the default, KAFSCALE_PRODUCE_SYNC_FLUSH); FALSE: the reply does not wait for a flush and
                         \* consumers see the in-memory tail (BufferedHighWatermark) — only C02 (assignment), C03, C04, C05 are claimed there
          FixRestore,    \* failed upload puts the drained batches back at the head of the buffer
          FixPublish,    \* empty flush publishes the last *durable* offset, not nextOffset-1
          FixMonotone,   \* store update is skipped when it would lower the watermark (serialised)
          FixReadOrder,  \* Read consults the flush window (older) before the live buffer
          FixRange,      \* when the index entry is below the offset, the range extends to the end of that index block
          FixIndexSearch,\* findIndexEntry returns the last entry at or below the offset (FALSE: the pinned binary search, which falls through to entries[0])
          FixValidate,   \* malformed headers (negative last-offset-delta, trailing batches) are rejected
          DevNoWait,             \* Flush does not wait for the in-flight flush
          DevCommitBeforeIndex,  \* segment registered in memory before the index upload finished
          DevRestoreKeepsOffset, \* restart does not advance nextOffset past S3
          DevOrphanNotSkipped,   \* restart fails on any segment without index
          DevOrphanAlwaysSkipped,\* restart silently skips any segment without index
          DevNoFlushOnAck,       \* reply success without Flush
          DevTolerateLostIdx,    \* restart keeps a committed segment whose index object is gone, without index entries
          DevReadFloorSegment,   \* Read picks the last segment starting at or below the offset (binary search) and checks the upper bound only for the last one
          DevRestoreCountsOrphan \* restart takes the log end from the last listed segment object, even one skipped as an orphan
VARIABLES mem, up, rfail, restarted, s3seg, s3idx, storeNext, pc, stage, req, art, segUp, idxUp, pubVal, sent,
          faults, crashes, acked, hwReg, nextReg, hwMax, lost, hist
vars == <<mem, up, rfail, restarted, s3seg, s3idx, storeNext, pc, stage, req, art, segUp, idxUp, pubVal, sent,
          faults, crashes, acked, hwReg, nextReg, hwMax, lost, hist>>

Hd == 32                      \* segment header bytes
Ft == 16                      \* footer
Sz(n) == 61 + 9 * n           \* bytes of a well-formed batch with n records (harness uses the same layout)
EmptyMem == [next |-> 0, buf |-> <<>>, flushing |-> FALSE, fb |-> <<>>, segs |-> <<>>]
NoArt == [base |-> -1, last |-> -1, batches |-> <<>>]
\* cnt = the span of offsets the batch claims (lastOffsetDelta + 1 for an accepted batch); msgs = its record count
NoReq == [id |-> <<"none", 0>>, base |-> -1, cnt |-> 0, msgs |-> 0, lod |-> 0, sz |-> 0, kind |-> "ok"]
BigLod == 1048575   \* stands for lastOffsetDelta = 2^31-1 (TLC integers are 32-bit: the harness folds offsets x >= 2^31 to (x mod 2^31) + (x div 2^31) * 2^20)
LastOf(b) == b.base + b.lod
Log(e) == hist' = Append(hist, e)

Init == /\ mem = EmptyMem /\ up = TRUE /\ rfail = FALSE /\ restarted = FALSE
        /\ s3seg = {} /\ s3idx = {} /\ storeNext = 0
        /\ pc = [p \in Producers |-> "idle"] /\ stage = [p \in Producers |-> "flush"]
        /\ req = [p \in Producers |-> NoReq] /\ art = [p \in Producers |-> NoArt]
        /\ segUp = [p \in Producers |-> "none"] /\ idxUp = [p \in Producers |-> "none"]
        /\ pubVal = [p \in Producers |-> -1] /\ sent = [p \in Producers |-> 0]
        /\ faults = 0 /\ crashes = 0 /\ acked = {} /\ hwReg = FALSE /\ nextReg = FALSE /\ hwMax = 0 /\ lost = {} /\ hist = <<>>

S3Put(s, o) == {x \in s : x.base # o.base} \cup {o}
MkArt(bs) == [base |-> bs[1].base, last |-> LastOf(bs[Len(bs)]), batches |-> bs]
DurableLast == IF mem.segs = <<>> THEN -1 ELSE mem.segs[Len(mem.segs)].last

\* ---------------------------------------------------------------- produce path
\* AppendBatch's locked section (+ the inline, threshold-triggered prepareFlush)
Append_(p, sh) ==
  /\ up /\ pc[p] = "idle" /\ sent[p] < K
  /\ sent' = [sent EXCEPT ![p] = @ + 1]
  /\ Log([a |-> "Append", p |-> p, n |-> sh.n, kind |-> sh.kind])
  /\ IF sh.kind \in {"neglod", "concat"} /\ FixValidate
     THEN \* rejected before the log is touched
          /\ pc' = [pc EXCEPT ![p] = "err"] /\ req' = [req EXCEPT ![p] = NoReq]
          /\ UNCHANGED <<mem, art, segUp, idxUp, stage, nextReg, lost>>
     ELSE LET lod == IF sh.kind = "neglod" THEN -2 ELSE IF sh.kind = "maxlod" THEN BigLod ELSE sh.n - 1
              b == [id |-> <<p, sent[p] + 1>>, base |-> mem.next, cnt |-> IF sh.kind = "maxlod" THEN BigLod + 1 ELSE sh.n, msgs |-> sh.n, lod |-> lod,
                    sz |-> Sz(sh.n), kind |-> sh.kind]
              \* an accepted payload of two concatenated batches: only the first header is patched with the assigned base offset,
              \* the second batch is stored behind it exactly as the client sent it (base offset 0)
              trail == [id |-> <<p, sent[p] + 101>>, base |-> 0, cnt |-> sh.n, msgs |-> sh.n, lod |-> sh.n - 1, sz |-> Sz(sh.n), kind |-> "trail"]
              nx == mem.next + lod + 1
              buf1 == IF sh.kind = "concat" THEN mem.buf \o <<b, trail>> ELSE Append(mem.buf, b)
              inline == InlineAt > 0 /\ Len(buf1) >= InlineAt /\ ~mem.flushing
          IN /\ req' = [req EXCEPT ![p] = b]
             /\ nextReg' = (nextReg \/ nx < mem.next)
             /\ IF inline
                THEN /\ mem' = [mem EXCEPT !.next = nx, !.buf = <<>>, !.flushing = TRUE, !.fb = buf1]
                     /\ art' = [art EXCEPT ![p] = MkArt(buf1)]
                     /\ segUp' = [segUp EXCEPT ![p] = "pending"] /\ idxUp' = [idxUp EXCEPT ![p] = "pending"]
                     /\ stage' = [stage EXCEPT ![p] = "inline"]
                     /\ pc' = [pc EXCEPT ![p] = "upload"]
                ELSE /\ mem' = [mem EXCEPT !.next = nx, !.buf = buf1]
                     /\ pc' = [pc EXCEPT ![p] = IF DevNoFlushOnAck \/ ~SyncFlush THEN "ackready" ELSE "appended"]
                     /\ stage' = [stage EXCEPT ![p] = "flush"]
                     /\ UNCHANGED <<art, segUp, idxUp>>
  /\ UNCHANGED <<up, rfail, restarted, s3seg, s3idx, storeNext, pubVal, faults, crashes, acked, hwReg, hwMax, lost>>

\* prepareFlush under l.mu (called from Flush after the wait loop)
Prepare(p) ==
  IF mem.buf = <<>> \/ mem.flushing
  THEN /\ pc' = [pc EXCEPT ![p] = "pubread"] /\ UNCHANGED <<mem, art, segUp, idxUp, stage>>
  ELSE /\ art' = [art EXCEPT ![p] = MkArt(mem.buf)]
       /\ mem' = [mem EXCEPT !.buf = <<>>, !.flushing = TRUE, !.fb = mem.buf]
       /\ segUp' = [segUp EXCEPT ![p] = "pending"] /\ idxUp' = [idxUp EXCEPT ![p] = "pending"]
       /\ stage' = [stage EXCEPT ![p] = "flush"]
       /\ pc' = [pc EXCEPT ![p] = "upload"]
Rest == <<up, rfail, restarted, s3seg, s3idx, storeNext, req, pubVal, sent, faults, crashes, acked, hwReg, nextReg, hwMax, lost>>
FlushEnter(p) ==
  /\ up /\ pc[p] = "appended"
  /\ Log([a |-> "FlushEnter", p |-> p])
  /\ IF mem.flushing /\ ~DevNoWait
     THEN pc' = [pc EXCEPT ![p] = "wait"] /\ UNCHANGED <<mem, art, segUp, idxUp, stage>>
     ELSE Prepare(p)
  /\ UNCHANGED Rest
FlushWake(p) ==
  /\ up /\ pc[p] = "wait" /\ ~mem.flushing
  /\ Log([a |-> "FlushWake", p |-> p])
  /\ Prepare(p)
  /\ UNCHANGED Rest
\* the two uploads of uploadFlush run concurrently (errgroup)
UpSeg(p, ok) ==
  /\ up /\ pc[p] = "upload" /\ segUp[p] = "pending"
  /\ Log([a |-> "UpSeg", p |-> p, ok |-> ok])
  /\ IF ok THEN /\ s3seg' = S3Put(s3seg, art[p]) /\ segUp' = [segUp EXCEPT ![p] = "ok"] /\ UNCHANGED faults
     ELSE /\ faults < MaxFaults /\ faults' = faults + 1 /\ segUp' = [segUp EXCEPT ![p] = "fail"] /\ UNCHANGED s3seg
  /\ IF DevCommitBeforeIndex /\ ok
     THEN mem' = [mem EXCEPT !.segs = Append(@, [base |-> art[p].base, last |-> art[p].last, nb |-> Len(art[p].batches)])]
     ELSE UNCHANGED mem
  /\ UNCHANGED <<up, rfail, restarted, s3idx, storeNext, pc, stage, req, art, idxUp, pubVal, sent, crashes, acked, hwReg, nextReg, hwMax, lost>>
UpIdx(p, ok) ==
  /\ up /\ pc[p] = "upload" /\ idxUp[p] = "pending"
  /\ Log([a |-> "UpIdx", p |-> p, ok |-> ok])
  /\ IF ok THEN /\ s3idx' = {x \in s3idx : x.base # art[p].base} \cup {[base |-> art[p].base, nb |-> Len(art[p].batches)]} /\ idxUp' = [idxUp EXCEPT ![p] = "ok"] /\ UNCHANGED faults
     ELSE /\ faults < MaxFaults /\ faults' = faults + 1 /\ idxUp' = [idxUp EXCEPT ![p] = "fail"] /\ UNCHANGED s3idx
  /\ UNCHANGED <<mem, up, rfail, restarted, s3seg, storeNext, pc, stage, req, art, segUp, pubVal, sent, crashes, acked, hwReg, nextReg, hwMax, lost>>
\* errgroup cancelled the context after the sibling failed: the pending upload may be abandoned
UpSkip(p) ==
  /\ up /\ pc[p] = "upload"
  /\ \/ segUp[p] = "pending" /\ idxUp[p] = "fail" /\ segUp' = [segUp EXCEPT ![p] = "skip"] /\ UNCHANGED idxUp
        /\ Log([a |-> "UpSkip", p |-> p, which |-> "seg"])
     \/ idxUp[p] = "pending" /\ segUp[p] = "fail" /\ idxUp' = [idxUp EXCEPT ![p] = "skip"] /\ UNCHANGED segUp
        /\ Log([a |-> "UpSkip", p |-> p, which |-> "idx"])
  /\ UNCHANGED <<mem, up, rfail, restarted, s3seg, s3idx, storeNext, pc, stage, req, art, pubVal, sent, faults, crashes, acked, hwReg, nextReg, hwMax, lost>>
\* uploadFlush's second critical section: commit, or the failure reset
UpDone(p) ==
  /\ up /\ pc[p] = "upload" /\ segUp[p] # "pending" /\ idxUp[p] # "pending"
  /\ Log([a |-> "UpDone", p |-> p])
  /\ IF segUp[p] = "ok" /\ idxUp[p] = "ok"
     THEN /\ mem' = [mem EXCEPT !.segs = IF DevCommitBeforeIndex THEN @ ELSE Append(@, [base |-> art[p].base, last |-> art[p].last, nb |-> Len(art[p].batches)]),
                                !.flushing = FALSE, !.fb = <<>>]
          /\ pubVal' = [pubVal EXCEPT ![p] = art[p].last]
          /\ pc' = [pc EXCEPT ![p] = "publish"]
     ELSE /\ mem' = [mem EXCEPT !.flushing = FALSE, !.fb = <<>>, !.buf = IF FixRestore THEN mem.fb \o @ ELSE @]
          /\ pc' = [pc EXCEPT ![p] = "err"] /\ UNCHANGED pubVal
  /\ UNCHANGED <<up, rfail, restarted, s3seg, s3idx, storeNext, stage, req, art, segUp, idxUp, sent, faults, crashes, acked, hwReg, nextReg, hwMax, lost>>
\* Flush's empty branch: a third critical section reading the offset to publish
PubRead(p) ==
  /\ up /\ pc[p] = "pubread"
  /\ Log([a |-> "PubRead", p |-> p])
  /\ LET cur == IF FixPublish THEN DurableLast ELSE mem.next - 1 IN
       IF cur >= 0 THEN pubVal' = [pubVal EXCEPT ![p] = cur] /\ pc' = [pc EXCEPT ![p] = "publish"]
       ELSE pc' = [pc EXCEPT ![p] = "ackready"] /\ UNCHANGED pubVal
  /\ UNCHANGED <<mem, up, rfail, restarted, s3seg, s3idx, storeNext, stage, req, art, segUp, idxUp, sent, faults, crashes, acked, hwReg, nextReg, hwMax, lost>>
\* onFlush -> store.UpdateOffsets, outside l.mu
Publish(p) ==
  /\ up /\ pc[p] = "publish"
  /\ Log([a |-> "Publish", p |-> p])
  /\ LET nv == IF FixMonotone /\ pubVal[p] + 1 < storeNext THEN storeNext ELSE pubVal[p] + 1 IN
       /\ storeNext' = nv /\ hwReg' = (hwReg \/ nv < storeNext) /\ hwMax' = IF nv > hwMax THEN nv ELSE hwMax
  /\ pc' = [pc EXCEPT ![p] = IF stage[p] = "inline" THEN (IF DevNoFlushOnAck \/ ~SyncFlush THEN "ackready" ELSE "appended") ELSE "ackready"]
  /\ stage' = [stage EXCEPT ![p] = "flush"]
  /\ UNCHANGED <<mem, up, rfail, restarted, s3seg, s3idx, req, art, segUp, idxUp, pubVal, sent, faults, crashes, acked, nextReg, lost>>
Ack(p) ==
  /\ up /\ pc[p] = "ackready"
  /\ Log([a |-> "Ack", p |-> p])
  /\ acked' = acked \cup {[id |-> req[p].id, base |-> req[p].base, cnt |-> req[p].cnt]}
  /\ pc' = [pc EXCEPT ![p] = "idle"]
  /\ UNCHANGED <<mem, up, rfail, restarted, s3seg, s3idx, storeNext, stage, req, art, segUp, idxUp, pubVal, sent, faults, crashes, hwReg, nextReg, hwMax, lost>>
Err(p) ==
  /\ up /\ pc[p] = "err" /\ pc' = [pc EXCEPT ![p] = "idle"]
  /\ Log([a |-> "Err", p |-> p])
  /\ UNCHANGED <<mem, up, rfail, restarted, s3seg, s3idx, storeNext, stage, req, art, segUp, idxUp, pubVal, sent, faults, crashes, acked, hwReg, nextReg, hwMax, lost>>

\* ---------------------------------------------------------------- crash / restart
Crash ==
  /\ up /\ crashes < MaxCrashes /\ crashes' = crashes + 1
  /\ Log([a |-> "Crash"])
  /\ up' = FALSE /\ mem' = EmptyMem
  /\ pc' = [p \in Producers |-> "idle"] /\ stage' = [p \in Producers |-> "flush"]
  /\ art' = [p \in Producers |-> NoArt] /\ segUp' = [p \in Producers |-> "none"] /\ idxUp' = [p \in Producers |-> "none"]
  /\ pubVal' = [p \in Producers |-> -1] /\ req' = [p \in Producers |-> NoReq]
  /\ UNCHANGED <<rfail, restarted, s3seg, s3idx, storeNext, sent, faults, acked, hwReg, nextReg, hwMax, lost>>
\* getPartitionLog: NextOffset from the store, NewPartitionLog, RestoreFromS3, sync store from S3
RECURSIVE SortObjs(_)
SortObjs(S) == IF S = {} THEN <<>> ELSE LET m == CHOOSE x \in S : \A y \in S : x.base <= y.base IN <<m>> \o SortObjs(S \ {m})
Restart ==
  /\ ~up /\ ~rfail
  /\ Log([a |-> "Restart"])
  /\ LET start == storeNext
         objs == SortObjs(s3seg)
         IdxBases == {x.base : x \in s3idx}
         NbOf(b) == (CHOOSE x \in s3idx : x.base = b).nb
         noIdx(o) == o.base \notin IdxBases
         bad == IF DevOrphanAlwaysSkipped \/ DevTolerateLostIdx THEN FALSE
                ELSE \E i \in 1..Len(objs) : noIdx(objs[i]) /\ (DevOrphanNotSkipped \/ objs[i].base < start)
         good == SelectSeq(objs, LAMBDA o : ~noIdx(o) \/ (DevTolerateLostIdx /\ o.base < start))
         last == IF good = <<>> THEN -1 ELSE IF DevRestoreCountsOrphan THEN objs[Len(objs)].last ELSE good[Len(good)].last
         nx == IF last >= start /\ ~DevRestoreKeepsOffset THEN last + 1 ELSE start
     IN /\ rfail' = bad
        /\ up' = ~bad
        /\ mem' = IF bad THEN EmptyMem
                  ELSE [EmptyMem EXCEPT !.next = nx, !.segs = [i \in 1..Len(good) |-> [base |-> good[i].base, last |-> good[i].last, nb |-> IF good[i].base \in IdxBases THEN NbOf(good[i].base) ELSE 0]]]
        /\ LET nv == IF ~bad /\ last >= start THEN last + 1 ELSE storeNext IN
             /\ storeNext' = nv /\ hwMax' = IF nv > hwMax THEN nv ELSE hwMax
  /\ restarted' = TRUE
  /\ UNCHANGED <<s3seg, s3idx, pc, stage, req, art, segUp, idxUp, pubVal, sent, faults, crashes, acked, hwReg, nextReg, lost>>

\* fault injection beyond failed uploads: the .index object of a segment disappears from the bucket while the broker is down
LoseIdx(b) ==
  /\ ~up /\ ~rfail /\ Cardinality(lost) < MaxIdxLoss /\ b \in {x.base : x \in s3idx}
  /\ Log([a |-> "LoseIdx", base |-> b])
  /\ s3idx' = {x \in s3idx : x.base # b} /\ lost' = lost \cup {b}
  /\ UNCHANGED <<mem, up, rfail, restarted, s3seg, storeNext, pc, stage, req, art, segUp, idxUp, pubVal, sent, faults, crashes, acked, hwReg, nextReg, hwMax>>
Next == \/ \E p \in Producers : \/ \E sh \in Shapes : Append_(p, sh)
                                \/ FlushEnter(p) \/ FlushWake(p)
                                \/ UpSeg(p, TRUE) \/ UpSeg(p, FALSE) \/ UpIdx(p, TRUE) \/ UpIdx(p, FALSE)
                                \/ UpSkip(p) \/ UpDone(p) \/ PubRead(p) \/ Publish(p) \/ Ack(p) \/ Err(p)
        \/ Crash \/ Restart \/ \E b \in {x.base : x \in s3idx} : LoseIdx(b)
Spec == Init /\ [][Next]_vars

\* ---------------------------------------------------------------- Read (PartitionLog.Read, transcribed)
RECURSIVE SumSz(_, _)
SumSz(bs, n) == IF n = 0 THEN 0 ELSE bs[n].sz + SumSz(bs, n - 1)
Pos(bs, i) == Hd + SumSz(bs, i - 1)          \* byte position of batch i (i = Len+1: end of body)
RECURSIVE IdxFrom(_, _, _, _)
\* IndexBuilder.MaybeAdd: first batch always, then whenever >= Interval messages since the last entry
IdxFrom(bs, i, since, acc) ==
  IF i > Len(bs) THEN acc
  ELSE LET add == acc = {} \/ since >= Interval IN
       IdxFrom(bs, i + 1, (IF add THEN 0 ELSE since) + bs[i].msgs, IF add THEN acc \cup {i} ELSE acc)
IdxSet(bs) == IdxFrom(bs, 1, 0, {})
MinOf(S) == CHOOSE m \in S : \A x \in S : m <= x
MaxOf(S) == CHOOSE m \in S : \A x \in S : m >= x
\* findIndexEntry as written in the pinned tree (0-based lo/hi/mid kept; es is 1-based): the loop narrows hi and then tests
\* `mid+1 <= hi` against the narrowed bound, so it can run off the end and return entries[0] although a later entry is <= offset
RECURSIVE BSearch(_, _, _, _)
BSearch(es, off, lo, hi) ==
  IF lo > hi THEN 1
  ELSE LET mid == (lo + hi) \div 2 IN
       IF es[mid + 1] = off THEN mid + 1
       ELSE IF es[mid + 1] < off
            THEN IF mid + 1 <= hi /\ es[mid + 2] > off THEN mid + 1 ELSE BSearch(es, off, mid + 1, hi)
            ELSE BSearch(es, off, lo, mid - 1)
RECURSIVE SortedSeq(_)
SortedSeq(S) == IF S = {} THEN <<>> ELSE <<MinOf(S)>> \o SortedSeq(S \ {MinOf(S)})
EntryPick(bs, I, off) ==
  IF FixIndexSearch
  THEN LET le == {i \in I : bs[i].base <= off} IN IF le = {} THEN MinOf(I) ELSE MaxOf(le)
  ELSE LET is == SortedSeq(I)
           es == [k \in 1..Len(is) |-> bs[is[k]].base]
           n == Len(es)
       IN IF off <= es[1] THEN is[1] ELSE IF off >= es[n] THEN is[n] ELSE is[BSearch(es, off, 0, n - 1)]
\* positions of all batches (and of the end of the body) computed once per segment
RECURSIVE PosSeqFrom(_, _, _)
PosSeqFrom(bs, i, at) == IF i > Len(bs) THEN <<at>> ELSE <<at>> \o PosSeqFrom(bs, i + 1, at + bs[i].sz)
PosSeq(bs) == PosSeqFrom(bs, 1, Hd)
SegRange(bs, nb, off, mb) ==
  IF nb = 0   \* no index entries: sliceFullSegmentData returns the body from its start, capped at mb, whatever the offset
  THEN LET lim == PosSeq(bs)[Len(bs) + 1]
           e == IF mb > 0 /\ Hd + mb - 1 < lim - 1 THEN Hd + mb - 1 ELSE lim - 1
       IN [first |-> 1, start |-> Hd, end |-> e, covered |-> {j \in 1..Len(bs) : PosSeq(bs)[j] <= e}]
  ELSE
  LET I == IdxSet(SubSeq(bs, 1, IF nb < Len(bs) THEN nb ELSE Len(bs)))   \* the index object may cover only a prefix (retried flush + crash)
      ps == PosSeq(bs)
      i == EntryPick(bs, I, off)
      start == ps[i]
      lim == ps[Len(bs) + 1]
      e1 == IF mb > 0 /\ start + mb - 1 < lim - 1 THEN start + mb - 1 ELSE lim - 1
      gt == {j \in I : j > i}
      minEnd == IF gt = {} THEN lim - 1 ELSE ps[MinOf(gt)] - 1
      e2 == IF FixRange /\ mb > 0 /\ off > bs[i].base /\ e1 < minEnd THEN minEnd ELSE e1
  IN [first |-> i, start |-> start, end |-> e2, covered |-> {j \in 1..Len(bs) : ps[j] >= start /\ ps[j] <= e2}]
RECURSIVE FromB(_, _, _, _, _)
\* recordsFromBatches: batches reaching the offset; first in full, then while they fit under mb
FromB(bs, i, o, mb, acc) ==
  IF i > Len(bs) THEN acc
  ELSE IF LastOf(bs[i]) < o THEN FromB(bs, i + 1, o, mb, acc)
  ELSE IF acc # <<>> /\ (mb <= 0 \/ SumSz(acc, Len(acc)) + bs[i].sz > mb) THEN acc
  ELSE FromB(bs, i + 1, o, mb, Append(acc, bs[i]))
S3Obj(base) == CHOOSE o \in s3seg : o.base = base
ReadSpec(o, mb) ==
  LET cand == {i \in 1..Len(mem.segs) : mem.segs[i].last >= o}
      le == {i \in 1..Len(mem.segs) : mem.segs[i].base <= o}
      pick == IF DevReadFloorSegment /\ le # {} THEN MaxOf(le) ELSE MinOf(cand) IN
  IF cand # {}
  THEN LET s == mem.segs[pick]
           off == IF o >= s.base THEN o ELSE s.base
       IN IF ~\E x \in s3seg : x.base = s.base THEN [kind |-> "err"]
          ELSE LET bs == S3Obj(s.base).batches
                   r == SegRange(bs, s.nb, off, mb)
               IN [kind |-> "ok", src |-> "seg", first |-> bs[r.first].base,
                   starts |-> {bs[j].base : j \in r.covered},
                   len |-> r.end - r.start + 1]
  ELSE LET a == IF FixReadOrder THEN mem.fb ELSE mem.buf
           b == IF FixReadOrder THEN mem.buf ELSE mem.fb
           r1 == FromB(a, 1, o, mb, <<>>)
           r == IF r1 # <<>> THEN r1 ELSE FromB(b, 1, o, mb, <<>>)
       IN IF r = <<>> THEN [kind |-> "oor"]
          ELSE [kind |-> "ok", src |-> "mem", first |-> r[1].base, starts |-> {r[j].base : j \in 1..Len(r)},
                len |-> SumSz(r, Len(r))]

\* ---------------------------------------------------------------- properties (LogProps instantiated with model state)
SegBatches == UNION {{[base |-> o.batches[j].base, cnt |-> o.batches[j].cnt] : j \in 1..Len(o.batches)} :
                     o \in {x \in s3seg : \E i \in 1..Len(mem.segs) : mem.segs[i].base = x.base}}
MemBatches(s) == {[base |-> s[j].base, cnt |-> s[j].cnt] : j \in 1..Len(s)}
Ref == SegBatches \cup MemBatches(mem.fb) \cup MemBatches(mem.buf)
\* the high watermark a consumer is shown: the store's next offset, raised to the in-memory tail when flush-on-ack is off
FetchHW == IF SyncFlush \/ storeNext >= mem.next THEN storeNext ELSE mem.next
ReadRec(o, mb) == LET r == ReadSpec(o, mb) IN
   [o |-> o, mb |-> mb, hw |-> FetchHW, kind |-> r.kind,
    first |-> IF r.kind = "ok" THEN r.first ELSE -1, starts |-> IF r.kind = "ok" THEN r.starts ELSE {},
    aligned |-> TRUE, intact |-> TRUE]
Reads == IF up THEN {ReadRec(o, mb) : o \in 0..(mem.next - 1), mb \in MBs} ELSE {}
Proj(o) == [base |-> o.base, last |-> o.last, batches |-> [j \in 1..Len(o.batches) |-> [id |-> o.batches[j].id, base |-> o.batches[j].base, cnt |-> o.batches[j].cnt]]]
P == INSTANCE LogProps WITH acked <- acked, s3seg <- {Proj(o) : o \in s3seg}, s3idx <- {x.base : x \in s3idx} \cup lost, storeNext <- storeNext,
       hwRegressed <- hwReg, nextRegressed <- nextReg, rfail <- rfail, idxLost <- lost # {}, up <- up, memNext <- mem.next, hwMax <- hwMax, restarted <- restarted,
       ref <- Ref, reads <- Reads
C01_AckedDurable == P!C01_AckedDurable
C02_Unique == P!C02_Unique
C02_Monotone == P!C02_Monotone
C02_NoGap == P!C02_NoGap
C02_BaseIsStored == P!C02_BaseIsStored
C03_FetchExact == P!C03_FetchExact
C04_Progress == P!C04_Progress
C05_Monotone == P!C05_Monotone
C05_NotAhead == P!C05_NotAhead
C06_NoHide == P!C06_NoHide
C06_NoReuse == P!C06_NoReuse
C06_Readable == P!C06_Readable

View == <<mem, up, rfail, restarted, s3seg, s3idx, storeNext, pc, stage, req, art, segUp, idxUp, pubVal, sent, faults, crashes, acked, hwReg, nextReg, hwMax, lost>>
EmitSched == PrintT(<<"SCHED", ToJson(hist)>>)
====
