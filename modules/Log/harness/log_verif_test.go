package main

// Verification harness for Log.tla (C01..C06), injected into cmd/broker with `go test -overlay`.
// It replays TLC-generated schedules on the real handler/PartitionLog inside a testing/synctest
// bubble: every model action that is a critical section or an S3/store operation is a gate; the
// scheduler releases one gate per schedule step and uses synctest.Wait() as the quiescence barrier.
// One ndjson line is recorded per linearization point (hooks under l.mu, fake bucket, store wrapper,
// produce replies), plus a grid of reads after every step.

import (
	"bufio"
	"context"
	"encoding/binary"
	"encoding/json"
	"errors"
	"fmt"
	"log/slog"
	"math"
	"os"
	"runtime"
	"sort"
	"strings"
	"sync"
	"testing"
	"testing/synctest"

	"github.com/KafScale/platform/pkg/broker"
	"github.com/KafScale/platform/pkg/cache"
	"github.com/KafScale/platform/pkg/metadata"
	"github.com/KafScale/platform/pkg/protocol"
	"github.com/KafScale/platform/pkg/storage"
	"github.com/twmb/franz-go/pkg/kmsg"
)

type lgStep struct {
	A     string `json:"a"`
	P     string `json:"p"`
	N     int    `json:"n"`
	Kind  string `json:"kind"`
	Ok    bool   `json:"ok"`
	Which string `json:"which"`
	Base  int64  `json:"base"`
}

type lgSched struct {
	Inline   int      `json:"inline"`
	Interval int      `json:"interval"`
	Cache    bool     `json:"cache"`
	Sync     *bool    `json:"sync"` // flush-on-ack (default true)
	Cancel   bool     `json:"cancel"` // injected upload failures are cancellations of the producer's own request context
	MBs      []int    `json:"mbs"`
	Steps    []lgStep `json:"steps"`
}

type lgActor struct {
	p   string
	inc int
}
type lgActorKey struct{}

const lgTopic = "vt"

// Decoy data: another partition of the same topic and another topic share the bucket, the segment cache and the
// metadata store with the partition under test and hold different bytes at the same offsets; none of it may ever
// show up in a read of the partition under test.
const lgDecoyTopic = "vt2"
const lgDecoy = "decoy"

type lgRun struct {
	mu      sync.Mutex
	seq     int64
	lines   []map[string]any
	amu     sync.Mutex
	arrived map[string]chan string
	inc     int // current broker incarnation; bumped by Crash
	hit     map[string]int
	busy    map[string]int // producer -> requests in flight (current incarnation)
}

func (r *lgRun) emit(m map[string]any) {
	r.mu.Lock()
	r.seq++
	m["seq"] = r.seq
	r.lines = append(r.lines, m)
	r.mu.Unlock()
}

func lgWho(ctx context.Context) (lgActor, bool) {
	a, ok := ctx.Value(lgActorKey{}).(lgActor)
	return a, ok
}

func (r *lgRun) live(ctx context.Context) (string, bool) {
	a, ok := lgWho(ctx)
	if !ok {
		return "", false
	}
	r.amu.Lock()
	cur := r.inc
	r.amu.Unlock()
	return a.p, a.inc == cur
}

// gate parks the calling goroutine until the scheduler releases key.
func (r *lgRun) gate(key string) string {
	ch := make(chan string)
	r.amu.Lock()
	if _, dup := r.arrived[key]; dup {
		r.amu.Unlock()
		panic("verif harness: two goroutines parked at gate " + key)
	}
	r.arrived[key] = ch
	r.hit[key[strings.Index(key, ":")+1:]]++
	r.amu.Unlock()
	return <-ch
}

func (r *lgRun) release(key, outcome string) bool {
	synctest.Wait()
	r.amu.Lock()
	ch, ok := r.arrived[key]
	if ok {
		delete(r.arrived, key)
	}
	r.amu.Unlock()
	if !ok {
		return false
	}
	ch <- outcome
	synctest.Wait()
	return true
}

func (r *lgRun) parked() []string {
	synctest.Wait()
	r.amu.Lock()
	defer r.amu.Unlock()
	keys := make([]string, 0, len(r.arrived))
	for k := range r.arrived {
		keys = append(keys, k)
	}
	sort.Strings(keys)
	return keys
}

// ---- fake bucket ---------------------------------------------------------------------------

type lgS3 struct {
	mu  sync.Mutex
	seg map[string][]byte
	idx map[string][]byte
	r   *lgRun
}

func lgParseSeg(body []byte) (int64, int64, []map[string]any) {
	base := int64(binary.BigEndian.Uint64(body[8:16]))
	last := int64(binary.BigEndian.Uint64(body[len(body)-12 : len(body)-4]))
	bs := []map[string]any{}
	pos := 32
	end := len(body) - 16
	for pos+61 <= end {
		b := body[pos:]
		cnt := int(int32(binary.BigEndian.Uint32(b[57:61])))
		sz := 61 + 9*cnt
		if cnt <= 0 || pos+sz > end {
			break
		}
		span := int64(int32(binary.BigEndian.Uint32(b[23:27]))) + 1 // offsets the batch claims (lastOffsetDelta + 1)
		if span < 1 {
			span = int64(cnt)
		}
		bs = append(bs, map[string]any{"id": []any{fmt.Sprintf("p%d", b[61]), int(b[62])}, "base": int64(binary.BigEndian.Uint64(b[0:8])), "cnt": span})
		pos += sz
	}
	return base, last, bs
}

func lgBaseOfKey(key string) int64 {
	name := key[strings.LastIndex(key, "segment-")+8:]
	name = name[:strings.Index(name, ".")]
	var base int64
	fmt.Sscanf(name, "%d", &base)
	return base
}

func (s *lgS3) put(ctx context.Context, kind, key string, body []byte) error {
	p, live := s.r.live(ctx)
	if !live {
		return errors.New("broker incarnation is gone")
	}
	if p == lgDecoy {
		s.mu.Lock()
		if kind == "seg" {
			s.seg[key] = append([]byte(nil), body...)
		} else {
			s.idx[key] = append([]byte(nil), body...)
		}
		s.mu.Unlock()
		return nil
	}
	out := s.r.gate(p + ":up" + kind)
	if _, still := s.r.live(ctx); !still {
		return errors.New("broker incarnation is gone")
	}
	ev := map[string]any{"src": "s3", "p": p, "base": lgBaseOfKey(key)}
	switch out {
	case "ok":
		s.mu.Lock()
		if kind == "seg" {
			s.seg[key] = append([]byte(nil), body...)
			_, last, bs := lgParseSeg(body)
			ev["ev"], ev["ok"], ev["last"], ev["batches"] = "PutSegment", true, last, bs
		} else {
			s.idx[key] = append([]byte(nil), body...)
			ev["ev"], ev["ok"] = "PutIndex", true
		}
		s.r.emit(ev)
		s.mu.Unlock()
		return nil
	case "skip":
		ev["ev"] = map[string]string{"seg": "SkipSegment", "idx": "SkipIndex"}[kind]
		s.r.emit(ev)
		return context.Canceled
	case "ctxerr": // the caller's context was cancelled while the upload was in flight: nothing is stored
		ev["ev"], ev["ok"] = map[string]string{"seg": "PutSegment", "idx": "PutIndex"}[kind], false
		s.r.emit(ev)
		if err := ctx.Err(); err != nil {
			return err
		}
		return context.Canceled
	default:
		ev["ev"], ev["ok"] = map[string]string{"seg": "PutSegment", "idx": "PutIndex"}[kind], false
		s.r.emit(ev)
		return errors.New("injected upload failure")
	}
}

func (s *lgS3) UploadSegment(ctx context.Context, key string, body []byte) error {
	return s.put(ctx, "seg", key, body)
}
func (s *lgS3) UploadIndex(ctx context.Context, key string, body []byte) error {
	return s.put(ctx, "idx", key, body)
}
func (s *lgS3) DeleteSegment(ctx context.Context, key string) error {
	s.mu.Lock()
	delete(s.seg, key)
	s.mu.Unlock()
	return nil
}
func (s *lgS3) DeleteIndex(ctx context.Context, key string) error {
	s.mu.Lock()
	delete(s.idx, key)
	s.mu.Unlock()
	return nil
}
func (s *lgS3) DownloadSegment(ctx context.Context, key string, rng *storage.ByteRange) ([]byte, error) {
	s.mu.Lock()
	defer s.mu.Unlock()
	data, ok := s.seg[key]
	if !ok {
		return nil, fmt.Errorf("segment %s: %w", key, storage.ErrNotFound)
	}
	if rng == nil {
		return append([]byte(nil), data...), nil
	}
	start, end := rng.Start, rng.End
	if start < 0 {
		start = 0
	}
	if end >= int64(len(data)) {
		end = int64(len(data)) - 1
	}
	if start > end {
		return nil, fmt.Errorf("segment %s range %d-%d invalid", key, rng.Start, rng.End)
	}
	return append([]byte(nil), data[start:end+1]...), nil
}
func (s *lgS3) DownloadIndex(ctx context.Context, key string) ([]byte, error) {
	s.mu.Lock()
	defer s.mu.Unlock()
	if data, ok := s.idx[key]; ok {
		return append([]byte(nil), data...), nil
	}
	return nil, fmt.Errorf("index %s: %w", key, storage.ErrNotFound)
}
func (s *lgS3) ListSegments(ctx context.Context, prefix string) ([]storage.S3Object, error) {
	s.mu.Lock()
	defer s.mu.Unlock()
	out := []storage.S3Object{}
	for k, v := range s.seg {
		if strings.HasPrefix(k, prefix) {
			out = append(out, storage.S3Object{Key: k, Size: int64(len(v))})
		}
	}
	return out, nil
}
func (s *lgS3) EnsureBucket(ctx context.Context) error { return nil }

// ---- metadata store wrapper ------------------------------------------------------------------

type lgStore struct {
	metadata.Store
	mu       sync.Mutex
	r        *lgRun
	imu      sync.Mutex
	inflight map[int64]int
}

func (s *lgStore) UpdateOffsets(ctx context.Context, topic string, partition int32, lastOffset int64) error {
	p, live := s.r.live(ctx)
	if _, known := lgWho(ctx); known && !live {
		return errors.New("broker incarnation is gone")
	}
	if topic != lgTopic || partition != 0 {
		return s.Store.UpdateOffsets(ctx, topic, partition, lastOffset)
	}
	// Adversarial store latency: when two updates overlap in time (possible only if the caller does not
	// serialise them), the older one is delivered last.
	s.imu.Lock()
	s.inflight[lastOffset]++
	s.imu.Unlock()
	for i := 0; i < 2000; i++ {
		s.imu.Lock()
		newer := false
		for v, n := range s.inflight {
			if n > 0 && v > lastOffset {
				newer = true
			}
		}
		s.imu.Unlock()
		if !newer {
			if i > 20 {
				break
			}
		}
		runtime.Gosched()
	}
	defer func() {
		s.imu.Lock()
		s.inflight[lastOffset]--
		s.imu.Unlock()
	}()
	s.mu.Lock()
	defer s.mu.Unlock()
	prev, _ := s.Store.NextOffset(ctx, topic, partition)
	err := s.Store.UpdateOffsets(ctx, topic, partition, lastOffset)
	cur, _ := s.Store.NextOffset(ctx, topic, partition)
	s.r.emit(map[string]any{"src": "store", "ev": "UpdateOffsets", "p": p, "last": lastOffset, "prev": prev, "new": cur})
	return err
}

// ---- a logger that is a scheduling point --------------------------------------------------------
// Every log call yields the processor a number of times, so that a window that contains a log call
// (e.g. between releasing a lock and the next step) is wide enough for woken goroutines to run in it.
type lgYieldHandler struct{}

func (lgYieldHandler) Enabled(context.Context, slog.Level) bool { return true }
func (lgYieldHandler) Handle(context.Context, slog.Record) error {
	for i := 0; i < 200; i++ {
		runtime.Gosched()
	}
	return nil
}
func (h lgYieldHandler) WithAttrs([]slog.Attr) slog.Handler { return h }
func (h lgYieldHandler) WithGroup(string) slog.Handler      { return h }

// ---- batches ---------------------------------------------------------------------------------

func lgOne(pidx, k, n int, lod int32) []byte {
	b := make([]byte, 61+9*n)
	binary.BigEndian.PutUint32(b[8:12], uint32(len(b)-12))
	binary.BigEndian.PutUint32(b[23:27], uint32(lod))
	binary.BigEndian.PutUint32(b[57:61], uint32(n))
	b[61] = byte(pidx)
	b[62] = byte(k)
	for i := 63; i < len(b); i++ {
		b[i] = byte(pidx*37 + k*11 + i)
	}
	return b
}

// lgSpan is the number of offsets a stored batch claims: lastOffsetDelta + 1 (its record count when the delta is malformed).
func lgSpan(b []byte) int64 {
	span := int64(int32(binary.BigEndian.Uint32(b[23:27]))) + 1
	if span < 1 {
		span = int64(int32(binary.BigEndian.Uint32(b[57:61])))
	}
	return span
}

func lgBatch(pidx, k, n int, kind string) []byte {
	switch kind {
	case "neglod":
		return lgOne(pidx, k, n, -2)
	case "maxlod":
		return lgOne(pidx, k, n, math.MaxInt32)
	case "concat":
		return append(lgOne(pidx, k, n, int32(n-1)), lgOne(pidx, k+100, n, int32(n-1))...)
	default:
		return lgOne(pidx, k, n, int32(n-1))
	}
}

// ---- one schedule ----------------------------------------------------------------------------

func lgMeta() metadata.ClusterMetadata {
	cid := "c"
	return metadata.ClusterMetadata{ClusterID: &cid, Brokers: []protocol.MetadataBroker{{NodeID: 1, Host: "localhost", Port: 19092}},
		Topics: []protocol.MetadataTopic{
			{Topic: kmsg.StringPtr(lgTopic), Partitions: []protocol.MetadataPartition{{Partition: 0, Leader: 1, Replicas: []int32{1}, ISR: []int32{1}}, {Partition: 1, Leader: 1, Replicas: []int32{1}, ISR: []int32{1}}}},
			{Topic: kmsg.StringPtr(lgDecoyTopic), Partitions: []protocol.MetadataPartition{{Partition: 0, Leader: 1, Replicas: []int32{1}, ISR: []int32{1}}}},
		}}
}

func lgRunSchedule(t *testing.T, sc lgSched) (lines []map[string]any, hits map[string]int) {
	r := &lgRun{arrived: map[string]chan string{}, hit: map[string]int{}, busy: map[string]int{}}
	synctest.Test(t, func(t *testing.T) {
		s3 := &lgS3{seg: map[string][]byte{}, idx: map[string][]byte{}, r: r}
		store := &lgStore{Store: metadata.NewInMemoryStore(lgMeta()), r: r, inflight: map[int64]int{}}
		storage.SetVerifHooks(&storage.VerifHooks{
			Trace: func(ctx context.Context, ev string, l *storage.PartitionLog, a, b int64) {
				p, live := r.live(ctx)
				if _, known := lgWho(ctx); known && !live {
					return
				}
				st := l.VerifState()
				if st.Topic != lgTopic || st.Partition != 0 {
					return
				}
				r.emit(map[string]any{"src": "log", "ev": ev, "p": p, "a": a, "b": b, "st": st})
			},
			Gate: func(ctx context.Context, point string, l *storage.PartitionLog) {
				if p, live := r.live(ctx); live && p != lgDecoy {
					r.gate(p + ":" + point)
				}
			},
		})
		defer storage.SetVerifHooks(nil)
		mk := func() *handler {
			h := newHandler(store, s3, protocol.MetadataBroker{NodeID: 1, Host: "localhost", Port: 19092}, slog.New(lgYieldHandler{}))
			h.logConfig.Logger = slog.New(lgYieldHandler{})
			h.logConfig.Buffer = storage.WriteBufferConfig{MaxBytes: 1 << 30, MaxBatches: sc.Inline}
			h.logConfig.Segment = storage.SegmentWriterConfig{IndexIntervalMessages: int32(sc.Interval)}
			h.logConfig.CacheEnabled = sc.Cache
			h.logConfig.ReadAheadSegments = 0
			if sc.Cache {
				h.logConfig.ReadAheadSegments = 2 // read-ahead prefetch goroutines fill the cache behind reads and commits
			}
			h.cache = cache.NewSegmentCache(1 << 20)
			h.flushOnAck = sc.Sync == nil || *sc.Sync
			h.autoCreateTopics = false
			// the S3 health gate is C25's subject: keep the monitor from ever leaving "healthy" here
			h.s3Health = broker.NewS3HealthMonitor(broker.S3HealthConfig{ErrorWarn: 2, ErrorCrit: 3, LatencyWarn: 1 << 60, LatencyCrit: 1 << 61})
			return h
		}
		h := mk()
		up := true
		decoyK := 0
		mirrored := 0 // number of trace lines already scanned for commits to mirror
		// decoyMirror writes one batch of cnt records to every decoy partition, so that the decoy partitions hold
		// segments with the SAME base offsets as the partition under test (different bytes), written later.
		decoyMirror := func(cnt int) {
			r.amu.Lock()
			inc := r.inc
			r.amu.Unlock()
			ctx := context.WithValue(context.Background(), lgActorKey{}, lgActor{p: lgDecoy, inc: inc})
			for _, tp := range []struct {
				topic string
				part  int32
			}{{lgTopic, 1}, {lgDecoyTopic, 0}} {
				decoyK++
				req := kmsg.NewPtrProduceRequest()
				req.Acks, req.TimeoutMillis, req.Version = -1, 1000, 9
				rt := kmsg.NewProduceRequestTopic()
				rt.Topic = tp.topic
				rp := kmsg.NewProduceRequestTopicPartition()
				rp.Partition, rp.Records = tp.part, lgBatch(9, decoyK%200, cnt, "ok")
				rt.Partitions = append(rt.Partitions, rp)
				req.Topics = append(req.Topics, rt)
				cid := lgDecoy
				if out, err := h.handleProduce(ctx, &protocol.RequestHeader{APIKey: 0, APIVersion: 9, CorrelationID: 7, ClientID: &cid}, req); err != nil || out == nil {
					t.Fatalf("verif harness: decoy produce failed: %v", err)
				}
			}
		}
		// mirror every segment the partition under test committed since the last call
		decoy := func() {
			r.mu.Lock()
			var todo []int
			for ; mirrored < len(r.lines); mirrored++ {
				m := r.lines[mirrored]
				if m["ev"] == "FlushCommit" {
					todo = append(todo, int(m["b"].(int64)-m["a"].(int64))+1)
				}
			}
			r.mu.Unlock()
			if !up {
				return
			}
			for _, cnt := range todo {
				if cnt >= 1 && cnt < 100 {
					decoyMirror(cnt)
				}
			}
		}
		sent := map[string]int{}
		cancels := map[string]context.CancelFunc{}
		ref := map[int64][]byte{} // base offset -> bytes of the batch currently at that offset
		var refMu sync.Mutex
		var wg sync.WaitGroup
		readerCtx := context.Background()

		project := func(res []byte) map[string]any {
			out := map[string]any{"kind": "ok", "len": len(res), "aligned": true, "intact": true, "first": int64(-1), "starts": []int64{}}
			if len(res) < 8 {
				out["aligned"] = false
				return out
			}
			refMu.Lock()
			defer refMu.Unlock()
			base := int64(binary.BigEndian.Uint64(res[0:8]))
			starts := []int64{}
			pos := 0
			for pos < len(res) {
				b, ok := ref[base]
				if !ok {
					if pos == 0 {
						out["aligned"] = false
					} else {
						out["intact"] = false
					}
					break
				}
				n := len(b)
				if pos+n > len(res) {
					n = len(res) - pos
				}
				if string(res[pos:pos+n]) != string(b[:n]) {
					if pos == 0 {
						out["aligned"] = false
					} else {
						out["intact"] = false
					}
					break
				}
				if pos == 0 {
					out["first"] = base
				}
				starts = append(starts, base)
				pos += len(b)
				base += lgSpan(b)
			}
			out["starts"] = starts
			return out
		}

		grid := func() {
			if !up {
				return
			}
			h.logMu.RLock()
			plog := h.logs[lgTopic][0]
			h.logMu.RUnlock()
			if plog == nil {
				return
			}
			st := plog.VerifStateLocked()
			hw, _ := store.Store.NextOffset(readerCtx, lgTopic, 0)
			storeHW := hw
			if !h.flushOnAck && st.Next > hw {
				hw = st.Next // flush-on-ack off: the fetch path raises the watermark to the in-memory tail
			}
			_ = storeHW
			refl := [][]int64{}
			refMu.Lock()
			addRange := func(lo, hi int64) {
				for b, bytes := range ref {
					if b >= lo && b <= hi {
						refl = append(refl, []int64{b, lgSpan(bytes)})
					}
				}
			}
			for _, s := range st.Segs {
				addRange(s[0], s[1])
			}
			for _, b := range st.FB {
				addRange(b, b)
			}
			for _, b := range st.Buf {
				addRange(b, b)
			}
			refMu.Unlock()
			sort.Slice(refl, func(i, j int) bool { return refl[i][0] < refl[j][0] })
			reads := []map[string]any{}
			// offsets to read: every offset that holds a record, plus the last offset each batch claims
			var offs []int64
			seenOff := map[int64]bool{}
			refMu.Lock()
			for _, rb := range refl {
				recs := int64(int32(binary.BigEndian.Uint32(ref[rb[0]][57:61])))
				for d := int64(0); d < recs; d++ {
					if !seenOff[rb[0]+d] {
						seenOff[rb[0]+d] = true
						offs = append(offs, rb[0]+d)
					}
				}
				if last := rb[0] + rb[1] - 1; !seenOff[last] {
					seenOff[last] = true
					offs = append(offs, last)
				}
			}
			refMu.Unlock()
			// ... plus the first and the last offset of every hole of the log (below the first batch, between two batches):
			// a fetch there must be answered from the next batch that exists
			holeEnd := int64(0)
			for _, rb := range refl {
				if rb[0] > holeEnd {
					for _, h := range []int64{holeEnd, rb[0] - 1} {
						if !seenOff[h] {
							seenOff[h] = true
							offs = append(offs, h)
						}
					}
				}
				if e := rb[0] + rb[1]; e > holeEnd {
					holeEnd = e
				}
			}
			sort.Slice(offs, func(i, j int) bool { return offs[i] < offs[j] })
			for _, o := range offs {
				for _, mb := range sc.MBs {
					res, err := func() (res []byte, err error) {
						defer func() {
							if rec := recover(); rec != nil {
								res, err = nil, fmt.Errorf("panic in PartitionLog.Read: %v", rec)
							}
						}()
						return plog.Read(readerCtx, o, int32(mb))
					}()
					var m map[string]any
					switch {
					case errors.Is(err, storage.ErrOffsetOutOfRange):
						m = map[string]any{"kind": "oor", "len": 0, "aligned": true, "intact": true, "first": int64(-1), "starts": []int64{}}
					case err != nil:
						m = map[string]any{"kind": "err", "len": 0, "aligned": true, "intact": true, "first": int64(-1), "starts": []int64{}}
					default:
						m = project(res)
					}
					m["o"], m["mb"], m["hw"] = o, mb, hw
					reads = append(reads, m)
				}
			}
			// the consumer's view: real Fetch requests through the handler (bounded by the high watermark it reports)
			fetches := []map[string]any{}
			for _, o := range append(append([]int64{}, offs...), st.Next) {
				req := kmsg.NewPtrFetchRequest()
				req.Version, req.ReplicaID, req.MaxWaitMillis, req.MinBytes, req.MaxBytes = 11, -1, 0, 0, 1<<20
				ft := kmsg.NewFetchRequestTopic()
				ft.Topic = lgTopic
				fp := kmsg.NewFetchRequestTopicPartition()
				fp.Partition, fp.FetchOffset, fp.PartitionMaxBytes = 0, o, 200
				ft.Partitions = append(ft.Partitions, fp)
				req.Topics = append(req.Topics, ft)
				cid := "reader"
				out, err := func() (out []byte, err error) {
					defer func() {
						if rec := recover(); rec != nil {
							out, err = nil, fmt.Errorf("panic in handleFetch: %v", rec)
						}
					}()
					return h.handleFetch(readerCtx, &protocol.RequestHeader{APIKey: 1, APIVersion: 11, CorrelationID: 1, ClientID: &cid}, req)
				}()
				if err != nil || out == nil {
					fetches = append(fetches, map[string]any{"o": o, "code": -100, "hw": int64(-1), "kind": "err", "len": 0, "aligned": true, "intact": true, "first": int64(-1), "starts": []int64{}, "mb": 200})
					continue
				}
				resp := kmsg.NewPtrFetchResponse()
				resp.SetVersion(11)
				body, ok := protocol.SkipResponseHeader(resp.Key(), 11, out)
				if !ok || resp.ReadFrom(body) != nil || len(resp.Topics) != 1 || len(resp.Topics[0].Partitions) != 1 {
					fetches = append(fetches, map[string]any{"o": o, "code": -101, "hw": int64(-1), "kind": "err", "len": 0, "aligned": true, "intact": true, "first": int64(-1), "starts": []int64{}, "mb": 200})
					continue
				}
				pr := resp.Topics[0].Partitions[0]
				var m map[string]any
				if pr.ErrorCode != 0 || len(pr.RecordBatches) == 0 {
					kind := "empty"
					if pr.ErrorCode != 0 {
						kind = "oor"
					}
					m = map[string]any{"kind": kind, "len": 0, "aligned": true, "intact": true, "first": int64(-1), "starts": []int64{}}
				} else {
					m = project(pr.RecordBatches)
				}
				m["o"], m["mb"], m["code"], m["hw"] = o, 200, int(pr.ErrorCode), pr.HighWatermark
				fetches = append(fetches, m)
			}
			// the "latest" answer of ListOffsets is the published end offset as clients see it
			lo := int64(-1)
			{
				req := kmsg.NewPtrListOffsetsRequest()
				req.Version, req.ReplicaID = 4, -1
				lt := kmsg.NewListOffsetsRequestTopic()
				lt.Topic = lgTopic
				lp := kmsg.NewListOffsetsRequestTopicPartition()
				lp.Partition, lp.Timestamp, lp.CurrentLeaderEpoch = 0, -1, -1
				lt.Partitions = append(lt.Partitions, lp)
				req.Topics = append(req.Topics, lt)
				cid := "reader"
				if out, err := h.handleListOffsets(readerCtx, &protocol.RequestHeader{APIKey: 2, APIVersion: 4, CorrelationID: 2, ClientID: &cid}, req); err == nil && out != nil {
					resp := kmsg.NewPtrListOffsetsResponse()
					resp.SetVersion(4)
					if body, ok := protocol.SkipResponseHeader(resp.Key(), 4, out); ok && resp.ReadFrom(body) == nil && len(resp.Topics) == 1 && len(resp.Topics[0].Partitions) == 1 && resp.Topics[0].Partitions[0].ErrorCode == 0 {
						lo = resp.Topics[0].Partitions[0].Offset
					}
				}
			}
			r.emit(map[string]any{"src": "reader", "ev": "Grid", "hw": hw, "lo": lo, "next": st.Next, "ref": refl, "reads": reads, "fetches": fetches, "st": st})
		}

		produce := func(p string, n int, kind string) {
			sent[p]++
			k := sent[p]
			pidx := int(p[1] - '0')
			body := lgBatch(pidx, k, n, kind)
			r.amu.Lock()
			inc := r.inc
			r.amu.Unlock()
			hh := h
			wg.Add(1)
			r.amu.Lock()
			r.busy[p]++
			r.amu.Unlock()
			go func() {
				defer wg.Done()
				defer func() {
					r.amu.Lock()
					if inc == r.inc {
						r.busy[p]--
					}
					r.amu.Unlock()
				}()
				cctx, cancel := context.WithCancel(context.Background())
				defer cancel()
				r.amu.Lock()
				cancels[p] = cancel
				r.amu.Unlock()
				ctx := context.WithValue(cctx, lgActorKey{}, lgActor{p: p, inc: inc})
				req := kmsg.NewPtrProduceRequest()
				req.Acks, req.TimeoutMillis = -1, 1000
				rt := kmsg.NewProduceRequestTopic()
				rt.Topic = lgTopic
				rp := kmsg.NewProduceRequestTopicPartition()
				rp.Partition, rp.Records = 0, body
				rt.Partitions = append(rt.Partitions, rp)
				req.Topics = append(req.Topics, rt)
				req.Version = 9
				cid := p
				hdr := &protocol.RequestHeader{APIKey: 0, APIVersion: 9, CorrelationID: int32(k), ClientID: &cid}
				out, err := hh.handleProduce(ctx, hdr, req)
				if _, live := r.live(ctx); !live {
					return
				}
				if err != nil || out == nil {
					r.emit(map[string]any{"src": "client", "ev": "Err", "p": p, "k": k, "code": -1, "n": n, "kind": kind})
					return
				}
				resp := kmsg.NewPtrProduceResponse()
				resp.SetVersion(9)
				body, ok := protocol.SkipResponseHeader(resp.Key(), 9, out)
				if !ok {
					r.emit(map[string]any{"src": "client", "ev": "Err", "p": p, "k": k, "code": -3, "n": n, "kind": kind})
					return
				}
				if e := resp.ReadFrom(body); e != nil {
					r.emit(map[string]any{"src": "client", "ev": "Err", "p": p, "k": k, "code": -2, "n": n, "kind": kind})
					return
				}
				pr := resp.Topics[0].Partitions[0]
				if pr.ErrorCode != 0 {
					r.emit(map[string]any{"src": "client", "ev": "Err", "p": p, "k": k, "code": int(pr.ErrorCode), "n": n, "kind": kind})
					return
				}
				span := int64(n)
				if kind == "maxlod" {
					span = int64(math.MaxInt32) + 1
				}
				r.emit(map[string]any{"src": "client", "ev": "Ack", "p": p, "k": k, "base": pr.BaseOffset, "cnt": span, "kind": kind})
			}()
		}

		// remember what each appended batch looks like once its base offset is known (Append trace line)
		recordRef := func() {
			r.mu.Lock()
			defer r.mu.Unlock()
			refMu.Lock()
			defer refMu.Unlock()
			for _, m := range r.lines {
				if m["ev"] == "Append" && m["reffed"] == nil {
					m["reffed"] = true
					p := m["p"].(string)
					k, n, kind := m["k"].(int), m["n"].(int), m["kind"].(string)
					b := lgBatch(int(p[1]-'0'), k, n, kind)
					base := m["a"].(int64)
					binary.BigEndian.PutUint64(b[0:8], uint64(base))
					if kind == "concat" {
						half := len(b) / 2
						ref[base] = b[:half]
					} else {
						ref[base] = b
					}
				}
			}
		}
		pendingShape := map[string][3]any{}
		// failOutcome: a plain S3 error, or (per schedule) the producer's request context is cancelled first
		// (only when that producer's upload really is parked at the gate: under steering divergence the key may
		// belong to nobody, and cancelling a request that merely waits for another flush is a step the model lacks)
		failOutcome := func(p, key string) string {
			if !sc.Cancel {
				return "fail"
			}
			synctest.Wait()
			r.amu.Lock()
			c := cancels[p]
			_, parked := r.arrived[key]
			r.amu.Unlock()
			if !parked || c == nil {
				return "fail"
			}
			c()
			return "ctxerr"
		}

		// The model starts a producer's next request only after the previous one returned. When steering
		// diverged and the real request is still parked, run it to completion first (uploads succeed).
		finish := func(p string) {
			for i := 0; i < 200; i++ {
				synctest.Wait()
				r.amu.Lock()
				n := r.busy[p]
				r.amu.Unlock()
				if n == 0 {
					return
				}
				keys := r.parked()
				if len(keys) == 0 {
					t.Fatalf("verif harness: request of %s in flight but nothing is parked at a gate", p)
				}
				mine := false
				for _, k := range keys {
					if strings.HasPrefix(k, p+":") {
						mine = true
						out := "go"
						if strings.HasSuffix(k, ":upseg") || strings.HasSuffix(k, ":upidx") {
							out = "ok"
						}
						r.release(k, out)
					}
				}
				if !mine { // p waits for another producer's flush: let that one advance
					for _, k := range keys {
						out := "go"
						if strings.HasSuffix(k, ":upseg") || strings.HasSuffix(k, ":upidx") {
							out = "ok"
						}
						r.release(k, out)
					}
				}
			}
			t.Fatalf("verif harness: could not finish the in-flight request of %s", p)
		}
		skipPublish := map[int]bool{}
		upFailed := map[string]bool{}
		for si, st := range sc.Steps {
			if skipPublish[si] {
				continue
			}
			switch st.A {
			case "Append":
				finish(st.P)
				upFailed[st.P] = false
				pendingShape[st.P] = [3]any{sent[st.P] + 1, st.N, st.Kind}
				produce(st.P, st.N, st.Kind)
				r.release(st.P+":append", "go")
			case "FlushEnter":
				r.release(st.P+":flush", "go")
			case "FlushWake":
				// no gate: a Flush waiter re-acquires l.mu inside Cond.Wait as soon as the flusher broadcasts
			case "UpSeg":
				if st.Ok {
					r.release(st.P+":upseg", "ok")
				} else if r.release(st.P+":upseg", failOutcome(st.P, st.P+":upseg")) {
					upFailed[st.P] = true
				}
			case "UpIdx":
				if st.Ok {
					r.release(st.P+":upidx", "ok")
				} else if r.release(st.P+":upidx", failOutcome(st.P, st.P+":upidx")) {
					upFailed[st.P] = true
				}
			case "UpSkip":
				// a sibling upload is only ever cancelled after the other one really failed; under steering divergence
				// (the failure step found nobody parked) the upload simply succeeds
				if upFailed[st.P] {
					r.release(st.P+":up"+st.Which, "skip")
				} else {
					r.release(st.P+":up"+st.Which, "ok")
				}
			case "UpDone":
				r.release(st.P+":updone", "go")
			case "PubRead":
				r.release(st.P+":pubread", "go")
			case "Publish":
				// Two producers whose store updates are both due: let them race (the callbacks run outside the
				// log's lock, so nothing in the model orders them); the recorded order is what is validated.
				if si+1 < len(sc.Steps) && sc.Steps[si+1].A == "Publish" && sc.Steps[si+1].P != st.P {
					q := sc.Steps[si+1].P
					synctest.Wait()
					r.amu.Lock()
					c1, ok1 := r.arrived[st.P+":publish"]
					c2, ok2 := r.arrived[q+":publish"]
					if ok1 && ok2 {
						delete(r.arrived, st.P+":publish")
						delete(r.arrived, q+":publish")
					}
					r.amu.Unlock()
					if ok1 && ok2 {
						skipPublish[si+1] = true
						c1 <- "go"
						c2 <- "go"
						synctest.Wait()
						break
					}
				}
				r.release(st.P+":publish", "go")
			case "Ack", "Err":
				// the reply is recorded when the request goroutine returns
			case "Crash":
				if up {
					r.amu.Lock()
					r.inc++
					r.busy = map[string]int{}
					r.amu.Unlock()
					h.coordinator.Stop()
					up = false
					// zombies of the dead incarnation: let them run to completion, unobservably
					for i := 0; i < 100; i++ {
						keys := r.parked()
						if len(keys) == 0 {
							break
						}
						for _, k := range keys {
							r.release(k, "dead")
						}
					}
					r.emit(map[string]any{"src": "harness", "ev": "Crash"})
				}
			case "LoseIdx":
				// fault injection: the .index object of a segment disappears while the broker is down
				if !up {
					gone := false
					s3.mu.Lock()
					for key := range s3.idx {
						if strings.Contains(key, "/"+lgTopic+"/0/") && lgBaseOfKey(key) == st.Base {
							delete(s3.idx, key)
							gone = true
						}
					}
					s3.mu.Unlock()
					if gone { // when steering diverged the object may not exist: nothing happened, nothing is logged
						r.emit(map[string]any{"src": "harness", "ev": "LoseIdx", "base": st.Base})
					}
				}
			case "Restart":
				if !up {
					h = mk()
					plog, err := h.getPartitionLog(readerCtx, lgTopic, 0)
					ev := map[string]any{"src": "harness", "ev": "Restart", "ok": err == nil, "next": int64(-1)}
					if err == nil {
						stt := plog.VerifStateLocked()
						ev["next"], ev["st"] = stt.Next, stt
						up = true
						// The reopened log consists of exactly the segments it registered: rebuild the
						// reference from the bucket (buffered batches died with the old broker, and an
						// orphan segment of an unacknowledged flush may have become part of the log).
						refMu.Lock()
						for b := range ref {
							delete(ref, b)
						}
						s3.mu.Lock()
						for key, body := range s3.seg {
							if !strings.Contains(key, "/"+lgTopic+"/0/") {
								continue // decoy partition / topic
							}
							sb := lgBaseOfKey(key)
							registered := false
							for _, sg := range stt.Segs {
								if sg[0] == sb {
									registered = true
								}
							}
							if !registered {
								continue
							}
							pos, end := 32, len(body)-16
							for pos+61 <= end {
								cnt := int(int32(binary.BigEndian.Uint32(body[pos+57 : pos+61])))
								sz := 61 + 9*cnt
								if cnt <= 0 || pos+sz > end {
									break
								}
								ref[int64(binary.BigEndian.Uint64(body[pos:pos+8]))] = append([]byte(nil), body[pos:pos+sz]...)
								pos += sz
							}
						}
						s3.mu.Unlock()
						refMu.Unlock()
					} else {
						h.coordinator.Stop()
					}
					r.emit(ev)
				}
			}
			synctest.Wait()
			// attach request shape to fresh Append lines, then update the reference log
			r.mu.Lock()
			for _, m := range r.lines {
				if m["ev"] == "Append" && m["k"] == nil {
					sh := pendingShape[m["p"].(string)]
					m["k"], m["n"], m["kind"] = sh[0], sh[1], sh[2]
				}
			}
			r.mu.Unlock()
			recordRef()
			decoy()
			synctest.Wait()
			grid()
		}
		// drain: finish every in-flight request with successful uploads
		for i := 0; i < 500; i++ {
			keys := r.parked()
			if len(keys) == 0 {
				break
			}
			for _, k := range keys {
				out := "go"
				if strings.HasSuffix(k, ":upseg") || strings.HasSuffix(k, ":upidx") {
					out = "ok"
				}
				r.release(k, out)
			}
			r.mu.Lock()
			for _, m := range r.lines {
				if m["ev"] == "Append" && m["k"] == nil {
					sh := pendingShape[m["p"].(string)]
					m["k"], m["n"], m["kind"] = sh[0], sh[1], sh[2]
				}
			}
			r.mu.Unlock()
			recordRef()
		}
		synctest.Wait()
		r.amu.Lock()
		left := 0
		for _, n := range r.busy {
			left += n
		}
		r.amu.Unlock()
		if left > 0 {
			t.Fatalf("verif harness: %d requests still in flight after the drain", left)
		}
		wg.Wait()
		synctest.Wait()
		decoy()
		synctest.Wait()
		grid()
		if up {
			h.coordinator.Stop()
		}
	})
	for _, m := range r.lines {
		delete(m, "reffed")
	}
	return r.lines, r.hit
}

// lgFold rewrites every integer x = j*2^31 + s (|s| < 2^30, j >= 1) in a trace line as j*2^20 + s: TLC integers are 32-bit, and
// offsets this large only arise from a batch with lastOffsetDelta = 2^31-1 (model: BigLod = 2^20-1). The map is order-preserving and
// injective as long as the low parts stay below 2^20, which holds for the handful of records a schedule produces.
func lgFold(line []byte) []byte {
	dec := json.NewDecoder(strings.NewReader(string(line)))
	dec.UseNumber()
	var v any
	if err := dec.Decode(&v); err != nil {
		return line
	}
	var walk func(any) any
	walk = func(x any) any {
		switch y := x.(type) {
		case map[string]any:
			for k, e := range y {
				y[k] = walk(e)
			}
			return y
		case []any:
			for i, e := range y {
				y[i] = walk(e)
			}
			return y
		case json.Number:
			if n, err := y.Int64(); err == nil {
				if n >= 1<<30 { // x = j*2^31 + s with |s| < 2^30  ->  j*2^20 + s
					j := (n + 1<<30) >> 31
					return n - j*(1<<31-1<<20)
				}
				if n < -(1 << 30) { // only a broken offset computation produces these: keep them negative and representable
					return -(1 << 30) - ((-n) & (1<<20 - 1))
				}
				return n
			}
			return y
		default:
			return x
		}
	}
	out, err := json.Marshal(walk(v))
	if err != nil {
		return line
	}
	return out
}

func TestVerifLogReplay(t *testing.T) {
	in, outPath := os.Getenv("VERIF_SCHEDULES"), os.Getenv("VERIF_TRACE_OUT")
	if in == "" || outPath == "" {
		t.Skip("no schedules")
	}
	f, err := os.Open(in)
	if err != nil {
		t.Fatal(err)
	}
	defer f.Close()
	out, err := os.Create(outPath)
	if err != nil {
		t.Fatal(err)
	}
	defer out.Close()
	w := bufio.NewWriter(out)
	defer w.Flush()
	sc := bufio.NewScanner(f)
	sc.Buffer(make([]byte, 1<<20), 1<<26)
	n := 0
	hits := map[string]int{}
	for sc.Scan() {
		var s lgSched
		if err := json.Unmarshal(sc.Bytes(), &s); err != nil {
			t.Fatal(err)
		}
		lines, h := lgRunSchedule(t, s)
		for k, v := range h {
			hits[k] += v
		}
		enc, _ := json.Marshal(map[string]any{"ev": "Reset", "src": "harness", "sched": n, "inline": s.Inline, "interval": s.Interval, "cache": s.Cache, "sync": s.Sync == nil || *s.Sync})
		w.Write(enc)
		w.WriteByte('\n')
		for _, m := range lines {
			enc, _ := json.Marshal(m)
			w.Write(lgFold(enc))
			w.WriteByte('\n')
		}
		n++
	}
	hb, _ := json.Marshal(hits)
	t.Logf("gate hits %s", hb)
	t.Logf("replayed %d schedules", n)
}
