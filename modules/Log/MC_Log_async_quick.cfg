CONSTANTS
 Producers = {"p1","p2","p3"}
 K = 1
 Shapes <- ShOk12
 MaxFaults = 1
 MaxCrashes = 0
 MaxIdxLoss = 0
 SyncFlush = FALSE
 InlineAt = 2
 Interval = 2
 MBs = {0,9,80,200}
 FixRestore = TRUE
 FixPublish = TRUE
 FixMonotone = TRUE
 FixReadOrder = TRUE
 FixRange = TRUE
 FixIndexSearch = TRUE
 FixValidate = TRUE
 DevNoWait = FALSE
 DevCommitBeforeIndex = FALSE
 DevRestoreKeepsOffset = FALSE
 DevOrphanNotSkipped = FALSE
 DevOrphanAlwaysSkipped = FALSE
 DevNoFlushOnAck = FALSE
 DevTolerateLostIdx = FALSE
 DevRestoreCountsOrphan = FALSE
 DevReadFloorSegment = FALSE
INIT Init
NEXT Next
VIEW View
CHECK_DEADLOCK FALSE
INVARIANTS C02_Unique C02_Monotone C02_BaseIsStored C05_Monotone C05_NotAhead C03_FetchExact C04_Progress
