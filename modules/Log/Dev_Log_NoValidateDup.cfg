CONSTANTS
 Producers = {"p1","p2"}
 K = 2
 Shapes <- ShAll
 MaxFaults = 0
 MaxCrashes = 0
 MaxIdxLoss = 0
 SyncFlush = TRUE
 InlineAt = 0
 Interval = 1
 MBs = {80}
 FixRestore = TRUE
 FixPublish = TRUE
 FixMonotone = TRUE
 FixReadOrder = TRUE
 FixRange = TRUE
 FixIndexSearch = TRUE
 FixValidate = FALSE
 DevNoWait = FALSE
 DevCommitBeforeIndex = FALSE
 DevRestoreKeepsOffset = FALSE
 DevOrphanNotSkipped = FALSE
 DevOrphanAlwaysSkipped = FALSE
 DevNoFlushOnAck = FALSE
 DevTolerateLostIdx = FALSE
 DevRestoreCountsOrphan = FALSE
 DevReadFloorSegment = FALSE
INIT Init
NEXT Next
VIEW View
CHECK_DEADLOCK FALSE
INVARIANTS C02_Unique
