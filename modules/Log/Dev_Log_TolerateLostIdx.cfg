CONSTANTS
 Producers = {"p1","p2","p3"}
 K = 1
 Shapes <- ShOk1
 MaxFaults = 0
 MaxCrashes = 1
 MaxIdxLoss = 1
 SyncFlush = TRUE
 InlineAt = 0
 Interval = 2
 MBs = {9}
 FixRestore = TRUE
 FixPublish = TRUE
 FixMonotone = TRUE
 FixReadOrder = TRUE
 FixRange = TRUE
 FixIndexSearch = TRUE
 FixValidate = TRUE
 DevNoWait = FALSE
 DevCommitBeforeIndex = FALSE
 DevRestoreKeepsOffset = FALSE
 DevOrphanNotSkipped = FALSE
 DevOrphanAlwaysSkipped = FALSE
 DevNoFlushOnAck = FALSE
 DevTolerateLostIdx = TRUE
 DevRestoreCountsOrphan = FALSE
 DevReadFloorSegment = FALSE
INIT Init
NEXT Next
VIEW View
CHECK_DEADLOCK FALSE
INVARIANTS C04_Progress
