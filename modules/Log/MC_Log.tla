---- MODULE MC_Log ----
EXTENDS Log
ShOk1 == {[n |-> 1, kind |-> "ok"]}
ShOk2 == {[n |-> 2, kind |-> "ok"]}
ShOk12 == {[n |-> 1, kind |-> "ok"], [n |-> 2, kind |-> "ok"]}
ShMax == {[n |-> 1, kind |-> "ok"], [n |-> 2, kind |-> "ok"], [n |-> 1, kind |-> "maxlod"]}
ShConcat == {[n |-> 1, kind |-> "ok"], [n |-> 1, kind |-> "concat"]}
ShAll == {[n |-> 1, kind |-> "ok"], [n |-> 2, kind |-> "ok"], [n |-> 1, kind |-> "neglod"], [n |-> 1, kind |-> "concat"]}
====
