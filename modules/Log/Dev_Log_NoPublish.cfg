CONSTANTS
 Producers = {"p1","p2"}
 K = 2
 Shapes <- ShOk1
 MaxFaults = 0
 MaxCrashes = 0
 MaxIdxLoss = 0
 SyncFlush = TRUE
 InlineAt = 0
 Interval = 1
 MBs = {80}
 FixRestore = TRUE
 FixPublish = FALSE
 FixMonotone = TRUE
 FixReadOrder = TRUE
 FixRange = TRUE
 FixIndexSearch = TRUE
 FixValidate = TRUE
 DevNoWait = FALSE
 DevCommitBeforeIndex = FALSE
 DevRestoreKeepsOffset = FALSE
 DevOrphanNotSkipped = FALSE
 DevOrphanAlwaysSkipped = FALSE
 DevNoFlushOnAck = FALSE
 DevTolerateLostIdx = FALSE
 DevRestoreCountsOrphan = FALSE
 DevReadFloorSegment = FALSE
INIT Init
NEXT Next
VIEW View
CHECK_DEADLOCK FALSE
INVARIANTS C05_NotAhead
