---- MODULE Trace_Store ----
(* Conformance layer: every recorded step of the real stores / coordinator / MCP tools must be a step of    *)
(* Store.tla (same operation, same arguments) and BOTH logged observation columns must equal what the model *)
(* computes for its two implementation copies.                                                              *)
EXTENDS Store
TraceLog == ndJsonDeserialize("trace.ndjson")
VARIABLES l, tr        \* tr: the (group, topic, partition) order of the coordinator snapshots (from the Reset line)
tvars == <<vars, l, tr>>
E == TraceLog[l]
Cur(ev) == l <= Len(TraceLog) /\ E.ev = ev /\ l' = l + 1
ToSet(s) == {s[i] : i \in DOMAIN s}
TInit == Init /\ l = 1 /\ tr = <<>> /\ TLCSet(7, 0)

\* coordinator: logged snapshots are sequences in the order `tr`
SnapMatch(ls, ms) == /\ Len(ls) = Len(tr)
                     /\ \A k \in 1..Len(tr) : LET x == <<tr[k][1], tr[k][2], tr[k][3]>> IN ls[k].off = ms[x].off /\ ls[k].meta = ms[x].meta
SnapMatch0(ls) == \A k \in 1..Len(ls) : ls[k].off = (IF DevFetchDefaultZero THEN 0 ELSE -1) /\ ls[k].meta = ""
NoTopics == <<>>
TReset == /\ Cur("Reset")
          /\ st' = [i \in Impls |-> EmptyStore(IF "init" \in DOMAIN E THEN E.init ELSE <<>>)]
          /\ committed' = [i \in Impls |-> [x \in Triples |-> NoCommit]]
          /\ last' = [kind |-> "init", op |-> "Init", mem |-> Obs("ok", 0), etcd |-> Obs("ok", 0)]
          /\ hist' = <<>>
          /\ tr' = IF "triples" \in DOMAIN E THEN E.triples ELSE <<>>
          /\ ("triples" \in DOMAIN E) => (ToSet(E.triples) = Triples /\ \A i \in Impls : SnapMatch0(E[i].after))

\* logged value lv against model value mv
ValMatch(op, lv, mv) ==
  CASE op \in {"ListOffsets", "ListGroups"} -> ToSet(lv) = mv /\ Len(lv) = Cardinality(mv)
    [] op = "Final" -> /\ lv.topics = mv.topics /\ ToSet(lv.next) = mv.next
                       /\ ToSet(lv.coff) = mv.coff /\ ToSet(lv.groups) = mv.groups
    [] OTHER -> lv = mv
ObsMatch == \A i \in Impls : E[i].err = last'[i].err /\ ValMatch(E.ev, E[i].val, last'[i].val)
Keep == UNCHANGED tr

TCreateTopic == Cur("CreateTopic") /\ CreateTopic(E.t, E.n, E.rf) /\ ObsMatch /\ Keep
TDeleteTopic == Cur("DeleteTopic") /\ DeleteTopic(E.t) /\ ObsMatch /\ Keep
TCreatePartitions == Cur("CreatePartitions") /\ CreatePartitions(E.t, E.n) /\ ObsMatch /\ Keep
TUpdateOffsets == Cur("UpdateOffsets") /\ UpdateOffsets(E.t, E.p, E.o) /\ ObsMatch /\ Keep
TNextOffset == Cur("NextOffset") /\ NextOffset(E.t, E.p) /\ ObsMatch /\ Keep
TMetadata == Cur("Metadata") /\ Metadata /\ ObsMatch /\ Keep
TRefresh == Cur("Refresh") /\ Refresh /\ ObsMatch /\ Keep
TCommit == Cur("Commit") /\ Commit(E.g, E.t, E.p, E.o, E.m) /\ ObsMatch /\ Keep
TFetchOffset == Cur("FetchOffset") /\ FetchOffset(E.g, E.t, E.p) /\ ObsMatch /\ Keep
TListOffsets == Cur("ListOffsets") /\ ListOffsets /\ ObsMatch /\ Keep
TPutGroup == Cur("PutGroup") /\ PutGroup(E.g, E.v) /\ ObsMatch /\ Keep
TFetchGroup == Cur("FetchGroup") /\ FetchGroup(E.g) /\ ObsMatch /\ Keep
TListGroups == Cur("ListGroups") /\ ListGroups /\ ObsMatch /\ Keep
TDeleteGroup == Cur("DeleteGroup") /\ DeleteGroup(E.g) /\ ObsMatch /\ Keep
TUpdateConfig == Cur("UpdateConfig") /\ UpdateConfig(E.t, E.c) /\ ObsMatch /\ Keep
TFinal == Cur("Final") /\ Final /\ ObsMatch /\ Keep

TCoordCommit == /\ Cur("CoordCommit") /\ CoordCommit(E.g, E.t, E.p, E.o, E.m, E.good) /\ Keep
                /\ \A i \in Impls : E[i].code = last'[i].code /\ SnapMatch(E[i].before, last'[i].before) /\ SnapMatch(E[i].after, last'[i].after)
TCoordFetch == /\ Cur("CoordFetch") /\ CoordFetch(E.g, E.t, E.p) /\ Keep
               /\ \A i \in Impls : E[i].code = 0 /\ E[i].after[1].off = last'[i].after[last'.tgt].off
                                   /\ E[i].after[1].meta = last'[i].after[last'.tgt].meta

\* tools: the logged projection (through the public interface) against the model's
ProjMatch(lp, mp) == /\ lp.topics = mp.full.topics /\ ToSet(lp.next) = mp.full.next /\ ToSet(lp.coff) = mp.full.coff
                     /\ ToSet(lp.groups) = {<<x[1], x[2]>> : x \in mp.glist}      \* as listed by ListConsumerGroups

TTool == /\ Cur("Tool") /\ Tool(E.name, E.shape) /\ Keep
         /\ \A i \in Impls : ProjMatch(E[i].before, last'[i].before) /\ ProjMatch(E[i].after, last'[i].after)

\* the topic configurations and the groups (FetchTopicConfig / FetchConsumerGroup) are read once, at the end of a tools schedule (reading them earlier could itself write)
TFinalCfg == /\ Cur("FinalCfg") /\ UNCHANGED vars /\ Keep
             /\ \A i \in Impls : /\ ToSet(E[i].cfgs) = {<<t, CfgVal(st[i], t).err, CfgVal(st[i], t).val>> : t \in Topics}
                                 /\ ToSet(E[i].groups) = {<<g, GroupVal(st[i], g)[1]>> : g \in Groups}
Consumed == TLCSet(7, IF TLCGet(7) < l THEN l ELSE TLCGet(7))
TNext == (TReset \/ TCreateTopic \/ TDeleteTopic \/ TCreatePartitions \/ TUpdateOffsets \/ TNextOffset \/ TMetadata \/ TRefresh
          \/ TCommit \/ TFetchOffset \/ TListOffsets \/ TPutGroup \/ TFetchGroup \/ TListGroups \/ TDeleteGroup \/ TUpdateConfig
          \/ TFinal \/ TFinalCfg \/ TCoordCommit \/ TCoordFetch \/ TTool) /\ Consumed
TSpec == TInit /\ [][TNext]_tvars
Reached == PrintT(<<"CONF", ToJson([reached |-> TLCGet(7), total |-> Len(TraceLog)])>>)
====
