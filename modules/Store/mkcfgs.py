#!/usr/bin/env python3
"""Regenerates every *.cfg of this module (run inside modules/Store).  The constants here are the single source of the
name domains; module.py imports DOMAINS from this file."""
import os
HERE = os.path.dirname(os.path.abspath(__file__))
TOOLS = ["cluster_status", "cluster_metrics", "list_topics", "describe_topics", "list_groups", "describe_group", "fetch_offsets", "describe_configs"]
SHAPES = ["none", "known", "unknown", "special", "empty", "many"]
COLON, SLASH, PERCENT = ["t:u", "g:t"], ["t/u", "g/x"], ["t%3Au", "g%3At"]
DOMAINS = {  # the name domains the harnesses run with (Sim_* and the trace configs use exactly these)
    "store": dict(topics=["u", "o", "o-d", "t:u"], groups=["g", "g:t", "g/x", "g%3At"], parts=3),
    "coord": dict(topics=["u", "t:u", "t%3Au"], groups=["g", "g:t", "g/x", "g%3At"], parts=2),
    "tools": dict(topics=["u", "t:u", "t/u"], groups=["g", "g:t", "g/x"], parts=2),
}
DEVS = ["DevKeyAliasing", "DevDeleteKeepsOffsets", "DevCloneDropsTimeouts", "DevEtcdListOmitsSlash", "DevEtcdPartsOrder", "DevFetchDefaultZero",
        "DevCommitUnchecked", "DevToolWrites", "DevToolReaps", "DevEscapeFastPath", "DevEtcdDeletePrefix",
        "DevStaleNextOffset", "DevGrowSameCountOk", "DevToolPersistsDefault", "DevToolGroupDefaults"]


def S(xs):
    return "{" + ",".join('"%s"' % x if isinstance(x, str) else str(x) for x in xs) + "}"


def consts(topics, groups, parts, offs, metas, variants, maxops, init="NoTopics", cfgv=(1,), tools=("fetch_offsets",), shapes=("known",), on=()):
    names = set(topics) | set(groups)
    lines = ["CONSTANTS", " Topics = " + S(topics), " Groups = " + S(groups), " ColonNames = " + S([n for n in COLON if n in names]),
             " SlashNames = " + S([n for n in SLASH if n in names]), " PercentNames = " + S([n for n in PERCENT if n in names]),
             " DeadVariants = {3}", " MaxParts = %d" % parts, " Offs = " + S(offs), " Metas = " + S(metas), " Variants = " + S(variants),
             " TimeoutVariants = {1}", " CfgVariants = " + S(cfgv), " ToolNames = " + S(tools), " ToolShapes = " + S(shapes),
             " InitTopics <- " + init, " MaxOps = %d" % maxops]
    lines += [" %s = %s" % (d, "TRUE" if d in on else "FALSE") for d in DEVS]
    return lines


def write(name, lines, nxt, invs, view=True, init="Init", post=None):
    out = lines + ["INIT " + init, "NEXT " + nxt]
    if invs:
        out.append("INVARIANTS " + " ".join(invs))
    if post:
        out.append("POSTCONDITION " + post)
    if view:
        out.append("VIEW View")
    out.append("CHECK_DEADLOCK FALSE")
    open(os.path.join(HERE, name), "w").write("\n".join(out) + "\n")


def trace_lines(mode, on):
    d = DOMAINS[mode]
    return consts(d["topics"], d["groups"], d["parts"], [0, 1, 2], ["", "m"], [1, 2, 3], 1000000, cfgv=(1, 2), tools=TOOLS, shapes=SHAPES, on=on) + \
        ["INIT TInit", "NEXT TNext", "POSTCONDITION Reached", "CHECK_DEADLOCK FALSE"]


def main():
    SI, CI, TI = ["C17_SameObs", "SameState"], ["C16_ReadBack", "C16_NeverCommitted", "C16_Isolation"], ["C40_Unchanged"]
    small_t, small_g = ["u", "t:u"], ["g", "g:t"]
    # exhaustive, repaired design
    write("MC_Store_quick.cfg", consts(["u", "o-d", "t:u"], small_g, 2, [1], ["m"], [1], 3), "NextStore", SI)
    write("MC_Store_thorough.cfg", consts(["u", "o-d", "t:u"], ["g", "g:t"], 2, [0, 1], ["", "m"], [1, 2], 3), "NextStore", SI)
    write("MC_Store_coord_quick.cfg", consts(small_t, ["g", "g:t", "g%3At"], 2, [0, 1], ["m"], [1], 3), "NextCoord", CI)
    write("MC_Store_coord_thorough.cfg", consts(small_t, ["g", "g:t", "g%3At"], 2, [0, 1], ["m"], [1], 4), "NextCoord", CI)
    tk = dict(init="ToolTopics2", tools=TOOLS, shapes=SHAPES)
    write("MC_Store_tools_quick.cfg", consts(small_t, small_g, 2, [1], ["m"], [1, 3], 3, **tk), "NextTools", TI)
    write("MC_Store_tools_thorough.cfg", consts(small_t, small_g, 2, [0, 1], ["m"], [1, 3], 4, **tk), "NextTools", TI)
    write("Cover_Store_tools.cfg", consts(small_t, small_g, 2, [1], ["m"], [1], 1, **tk), "NextTools", ["EmitSched"] + TI, view=False)
    # deviations: TLC must report the invariant violated; the counterexample is a regression schedule
    dv = lambda name, nxt, inv, on, **kw: write("Dev_Store_%s.cfg" % name, consts(**dict(dict(topics=small_t, groups=small_g, parts=2, offs=[0, 1], metas=["", "m"], variants=[1, 2], maxops=3), **kw), on=[on]), nxt, [inv])
    dv("KeyAliasing", "NextStore", "C17_SameObs", "DevKeyAliasing")
    dv("DeleteKeepsOffsets", "NextStore", "C17_SameObs", "DevDeleteKeepsOffsets", maxops=4, offs=[1], metas=["m"], variants=[1])
    dv("CloneDropsTimeouts", "NextStore", "C17_SameObs", "DevCloneDropsTimeouts")
    dv("EtcdListOmitsSlash", "NextStore", "C17_SameObs", "DevEtcdListOmitsSlash", groups=["g", "g/x"])
    dv("EtcdPartsOrder", "NextStore", "C17_SameObs", "DevEtcdPartsOrder")
    dv("StoreEscapeFastPath", "NextStore", "C17_SameObs", "DevEscapeFastPath", groups=["g:t", "g%3At"], topics=["u"], offs=[1], metas=["m"], variants=[1])
    dv("StaleNextOffset", "NextTopicOps", "C17_SameObs", "DevStaleNextOffset", topics=["u"], groups=["g"], parts=1, offs=[1], metas=["m"], variants=[1], maxops=5)
    dv("GrowSameCountOk", "NextStore", "C17_SameObs", "DevGrowSameCountOk", topics=["u"], groups=["g"], offs=[1], metas=["m"], variants=[1], maxops=2)
    dv("EtcdDeletePrefix", "NextTopicOps", "C17_SameObs", "DevEtcdDeletePrefix", topics=["o", "o-d"], groups=["g"], parts=1, offs=[1], metas=["m"], variants=[1], maxops=5)
    dv("FetchDefaultZero", "NextCoord", "C16_NeverCommitted", "DevFetchDefaultZero")
    dv("CoordKeyAliasing", "NextCoord", "C16_Isolation", "DevKeyAliasing")
    dv("CoordEscapeFastPath", "NextCoord", "C16_Isolation", "DevEscapeFastPath", groups=["g:t", "g%3At"], topics=["u"])
    dv("CommitUnchecked", "NextCoord", "C16_ReadBack", "DevCommitUnchecked", maxops=4)
    dv("ToolWrites", "NextTools", "C40_Unchanged", "DevToolWrites", offs=[1], metas=["m"], variants=[1], **tk)
    dv("ToolPersistsDefault", "NextTools", "C40_Unchanged", "DevToolPersistsDefault", offs=[1], metas=["m"], variants=[1], maxops=2, **tk)
    dv("ToolGroupDefaults", "NextTools", "C40_Unchanged", "DevToolGroupDefaults", offs=[1], metas=["m"], variants=[1, 2], maxops=2, **tk)
    dv("ToolReaps", "NextTools", "C40_Unchanged", "DevToolReaps", offs=[1], metas=["m"], variants=[1, 3], **tk)
    # simulation over the harness domains
    for mode, nxt, inv, mo, extra in (("store", "NextStore", SI, 14, {}), ("coord", "NextCoord", CI, 10, {}),
                                      ("tools", "NextTools", TI, 12, dict(init="ToolTopics3", tools=TOOLS, shapes=SHAPES, cfgv=(1, 2)))):
        d = DOMAINS[mode]
        name = "Sim_Store.cfg" if mode == "store" else "Sim_Store_%s.cfg" % mode
        write(name, consts(d["topics"], d["groups"], d["parts"], [0, 1, 2], ["", "m"], [1, 2, 3], mo, **extra), nxt, ["EmitSched"] + inv, view=False)
    open(os.path.join(HERE, "Trace_Store.cfg"), "w").write("\n".join(trace_lines("store", ["DevEtcdListOmitsSlash"])) + "\n")


if __name__ == "__main__":
    main()
