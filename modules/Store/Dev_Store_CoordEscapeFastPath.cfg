CONSTANTS
 Topics = {"u"}
 Groups = {"g:t","g%3At"}
 ColonNames = {"g:t"}
 SlashNames = {}
 PercentNames = {"g%3At"}
 DeadVariants = {3}
 MaxParts = 2
 Offs = {0,1}
 Metas = {"","m"}
 Variants = {1,2}
 TimeoutVariants = {1}
 CfgVariants = {1}
 ToolNames = {"fetch_offsets"}
 ToolShapes = {"known"}
 InitTopics <- NoTopics
 MaxOps = 3
 DevKeyAliasing = FALSE
 DevDeleteKeepsOffsets = FALSE
 DevCloneDropsTimeouts = FALSE
 DevEtcdListOmitsSlash = FALSE
 DevEtcdPartsOrder = FALSE
 DevFetchDefaultZero = FALSE
 DevCommitUnchecked = FALSE
 DevToolWrites = FALSE
 DevToolReaps = FALSE
 DevEscapeFastPath = TRUE
 DevEtcdDeletePrefix = FALSE
 DevStaleNextOffset = FALSE
 DevGrowSameCountOk = FALSE
 DevToolPersistsDefault = FALSE
 DevToolGroupDefaults = FALSE
INIT Init
NEXT NextCoord
INVARIANTS C16_Isolation
VIEW View
CHECK_DEADLOCK FALSE
