package broker

// Verification harness for Store.tla / C16 (injected with `go test -overlay`; not part of the repository).
// Replays TLC-generated commit/fetch sequences through the REAL GroupCoordinator.OffsetCommit / OffsetFetch,
// once over an InMemoryStore and once over an EtcdStore (one embedded etcd per test run), and records what
// OffsetFetch answers for the addressed partition and - around every commit - for every (group, topic,
// partition) of the schedule's name domain.

import (
	"bufio"
	"context"
	"encoding/json"
	"os"
	"testing"
	"time"

	"github.com/twmb/franz-go/pkg/kmsg"
	clientv3 "go.etcd.io/etcd/client/v3"

	"github.com/KafScale/platform/internal/testutil"
	"github.com/KafScale/platform/pkg/metadata"
	"github.com/KafScale/platform/pkg/protocol"
)

type vsCoordStep struct {
	A    string `json:"a"`
	G    string `json:"g"`
	T    string `json:"t"`
	P    int32  `json:"p"`
	O    int64  `json:"o"`
	M    string `json:"m"`
	Good bool   `json:"good"`
}

type vsCoordSched struct {
	Topics []string      `json:"topics"`
	Groups []string      `json:"groups"`
	Parts  int32         `json:"parts"`
	Steps  []vsCoordStep `json:"steps"`
}

type vsView struct {
	Off  int64  `json:"off"`
	Meta string `json:"meta"`
	Code int16  `json:"code"`
}

type vsMembership struct {
	member string
	gen    int32
}

// vsCoordSide is one coordinator over one store implementation.
type vsCoordSide struct {
	c       *GroupCoordinator
	members map[string]vsMembership
	snap    []vsView // most recent full observation
}

func (s *vsCoordSide) join(t *testing.T, ctx context.Context, g string) vsMembership {
	if m, ok := s.members[g]; ok {
		return m
	}
	resp, err := s.c.JoinGroup(ctx, &kmsg.JoinGroupRequest{
		Group: g, ProtocolType: "consumer", SessionTimeoutMillis: 3600000, RebalanceTimeoutMillis: 3600000,
		Protocols: []kmsg.JoinGroupRequestProtocol{{Name: "range", Metadata: s.c.encodeSubscription([]string{"u"})}},
	})
	if err != nil || resp.MemberID == "" {
		t.Fatalf("JoinGroup(%q): %v %+v", g, err, resp)
	}
	m := vsMembership{resp.MemberID, resp.Generation}
	s.members[g] = m
	return m
}

func (s *vsCoordSide) fetch(t *testing.T, ctx context.Context, g, topic string, p int32) vsView {
	resp, err := s.c.OffsetFetch(ctx, &kmsg.OffsetFetchRequest{Group: g, Topics: []kmsg.OffsetFetchRequestTopic{{Topic: topic, Partitions: []int32{p}}}})
	if err != nil || len(resp.Topics) != 1 || len(resp.Topics[0].Partitions) != 1 {
		t.Fatalf("OffsetFetch(%q,%q,%d): %v %+v", g, topic, p, err, resp)
	}
	part := resp.Topics[0].Partitions[0]
	meta := "<nil>"
	if part.Metadata != nil {
		meta = *part.Metadata
	}
	return vsView{part.Offset, meta, part.ErrorCode}
}

// fetchAll asks OffsetFetch for every triple of the domain (one request per group, all topics and partitions).
func (s *vsCoordSide) fetchAll(t *testing.T, ctx context.Context, sc *vsCoordSched) []vsView {
	out := []vsView{}
	for _, g := range sc.Groups {
		req := &kmsg.OffsetFetchRequest{Group: g}
		for _, topic := range sc.Topics {
			rt := kmsg.OffsetFetchRequestTopic{Topic: topic}
			for p := int32(0); p < sc.Parts; p++ {
				rt.Partitions = append(rt.Partitions, p)
			}
			req.Topics = append(req.Topics, rt)
		}
		resp, err := s.c.OffsetFetch(ctx, req)
		if err != nil || len(resp.Topics) != len(sc.Topics) {
			t.Fatalf("OffsetFetch(%q, all): %v", g, err)
		}
		for _, rt := range resp.Topics {
			if len(rt.Partitions) != int(sc.Parts) {
				t.Fatalf("OffsetFetch(%q, all): %d partitions answered", g, len(rt.Partitions))
			}
			for _, part := range rt.Partitions {
				meta := "<nil>"
				if part.Metadata != nil {
					meta = *part.Metadata
				}
				out = append(out, vsView{part.Offset, meta, part.ErrorCode})
			}
		}
	}
	return out
}

func (s *vsCoordSide) apply(t *testing.T, ctx context.Context, st vsCoordStep, ti int, sc *vsCoordSched) map[string]any {
	switch st.A {
	case "CoordCommit":
		m := s.join(t, ctx, st.G)
		member := m.member
		if !st.Good {
			member = "nobody"
		}
		before := s.snap
		meta := st.M
		resp, err := s.c.OffsetCommit(ctx, &kmsg.OffsetCommitRequest{Group: st.G, MemberID: member, Generation: m.gen,
			Topics: []kmsg.OffsetCommitRequestTopic{{Topic: st.T, Partitions: []kmsg.OffsetCommitRequestTopicPartition{{Partition: st.P, Offset: st.O, Metadata: &meta}}}}})
		if err != nil || len(resp.Topics) != 1 || len(resp.Topics[0].Partitions) != 1 {
			t.Fatalf("OffsetCommit: %v %+v", err, resp)
		}
		s.snap = s.fetchAll(t, ctx, sc)
		return map[string]any{"code": resp.Topics[0].Partitions[0].ErrorCode, "before": before, "after": s.snap}
	case "CoordFetch":
		v := s.fetch(t, ctx, st.G, st.T, st.P)
		return map[string]any{"code": v.Code, "before": []vsView{v}, "after": []vsView{v}}
	}
	t.Fatalf("unknown step %q", st.A)
	return nil
}

func TestVerifStoreCoordReplay(t *testing.T) {
	in, outPath := os.Getenv("VERIF_SCHEDULES"), os.Getenv("VERIF_TRACE_OUT")
	if in == "" || outPath == "" {
		t.Skip("no schedules")
	}
	f, err := os.Open(in)
	if err != nil {
		t.Fatal(err)
	}
	defer f.Close()
	out, err := os.Create(outPath)
	if err != nil {
		t.Fatal(err)
	}
	defer out.Close()
	w := bufio.NewWriter(out)
	defer w.Flush()
	emit := func(m map[string]any) {
		b, err := json.Marshal(m)
		if err != nil {
			t.Fatal(err)
		}
		w.Write(b)
		w.WriteByte('\n')
	}
	endpoints := testutil.StartEmbeddedEtcd(t)
	admin, err := clientv3.New(clientv3.Config{Endpoints: endpoints, DialTimeout: 5 * time.Second})
	if err != nil {
		t.Fatal(err)
	}
	defer admin.Close()
	ctx, cancel := context.WithTimeout(context.Background(), 20*time.Minute)
	defer cancel()
	cid := "verif"
	base := metadata.ClusterMetadata{ControllerID: 1, ClusterID: &cid, Brokers: []protocol.MetadataBroker{{NodeID: 1, Host: "127.0.0.1", Port: 9092}}}
	broker := protocol.MetadataBroker{NodeID: 1, Host: "127.0.0.1", Port: 9092}

	sc := bufio.NewScanner(f)
	sc.Buffer(make([]byte, 1<<20), 1<<26)
	n := 0
	for sc.Scan() {
		var s vsCoordSched
		if err := json.Unmarshal(sc.Bytes(), &s); err != nil {
			t.Fatal(err)
		}
		if _, err := admin.Delete(ctx, "/kafscale/", clientv3.WithPrefix()); err != nil {
			t.Fatal(err)
		}
		es, err := metadata.NewEtcdStore(ctx, base, metadata.EtcdStoreConfig{Endpoints: endpoints})
		if err != nil {
			t.Fatal(err)
		}
		sides := map[string]*vsCoordSide{
			"mem":  {c: NewGroupCoordinator(metadata.NewInMemoryStore(base), broker, nil), members: map[string]vsMembership{}},
			"etcd": {c: NewGroupCoordinator(es, broker, nil), members: map[string]vsMembership{}},
		}
		triples := [][]any{}
		index := map[string]int{}
		for _, g := range s.Groups {
			for _, topic := range s.Topics {
				for p := int32(0); p < s.Parts; p++ {
					triples = append(triples, []any{g, topic, p})
					b, _ := json.Marshal([]any{g, topic, p})
					index[string(b)] = len(triples) // 1-based, TLA+ sequence index
				}
			}
		}
		reset := map[string]any{"ev": "Reset", "sched": n, "triples": triples}
		for name, side := range sides {
			side.snap = side.fetchAll(t, ctx, &s)
			reset[name] = map[string]any{"code": 0, "before": side.snap, "after": side.snap}
		}
		emit(reset)
		for _, st := range s.Steps {
			b, _ := json.Marshal([]any{st.G, st.T, st.P})
			ti := index[string(b)]
			if ti == 0 {
				t.Fatalf("step outside the name domain: %+v", st)
			}
			line := map[string]any{"ev": st.A, "g": st.G, "t": st.T, "p": st.P, "o": st.O, "m": st.M, "good": st.Good, "ti": ti}
			for name, side := range sides {
				col := side.apply(t, ctx, st, ti, &s)
				line[name] = col
				// UNKNOWN_SERVER_ERROR is only produced when the store call itself failed (etcd timeout under load): no verdict
				bad := col["code"] == int16(protocol.UNKNOWN_SERVER_ERROR)
				for _, v := range col["after"].([]vsView) {
					bad = bad || v.Code == protocol.UNKNOWN_SERVER_ERROR
				}
				if bad {
					w.Flush()
					t.Fatalf("infrastructure error: the %s store failed during %s (no verdict)", name, st.A)
				}
			}
			emit(line)
		}
		for _, side := range sides {
			side.c.Stop()
		}
		es.Close()
		n++
	}
	t.Logf("replayed %d schedules", n)
}
