package mcpserver

// Verification harness for Store.tla / C40 (injected with `go test -overlay`; not part of the repository).
// Populates an InMemoryStore and an EtcdStore (one embedded etcd per test run) with TLC-generated write
// sequences, calls the ops MCP tools THROUGH THE REAL SERVER (NewServer + in-memory MCP transport, so every
// registered tool is reachable exactly as a client reaches it) with TLC-enumerated argument shapes, and records
// everything readable from the store before and after every call.

import (
	"bufio"
	"context"
	"crypto/sha1"
	"encoding/hex"
	"encoding/json"
	"errors"
	"os"
	"reflect"
	"sort"
	"strconv"
	"testing"
	"time"

	"github.com/modelcontextprotocol/go-sdk/mcp"
	"github.com/twmb/franz-go/pkg/kmsg"
	clientv3 "go.etcd.io/etcd/client/v3"

	console "github.com/KafScale/platform/internal/console"
	"github.com/KafScale/platform/internal/testutil"
	metadatapb "github.com/KafScale/platform/pkg/gen/metadata"
	"github.com/KafScale/platform/pkg/metadata"
	"github.com/KafScale/platform/pkg/protocol"
)

type vsToolStep struct {
	A     string `json:"a"`
	T     string `json:"t"`
	G     string `json:"g"`
	P     int32  `json:"p"`
	O     int64  `json:"o"`
	M     string `json:"m"`
	V     int    `json:"v"`
	C     int    `json:"c"`
	Name  string `json:"name"`
	Shape string `json:"shape"`
}

type vsToolSched struct {
	Topics []string     `json:"topics"`
	Groups []string     `json:"groups"`
	Parts  int32        `json:"parts"`
	Init   [][]any      `json:"init"`  // [[topic, partitions], ...] present when the store is built
	Tools  []string     `json:"tools"` // tool names the model knows
	Steps  []vsToolStep `json:"steps"`
}

type vsMetrics struct{}

func (vsMetrics) Snapshot(ctx context.Context) (*console.MetricsSnapshot, error) {
	return &console.MetricsSnapshot{S3State: "healthy", S3LatencyMS: 3, ProduceRPS: 1, FetchRPS: 2}, nil
}

func vsToolVariant(g string, v int) *metadatapb.ConsumerGroup {
	switch v {
	case 1:
		return &metadatapb.ConsumerGroup{GroupId: g, State: "stable", ProtocolType: "consumer", Protocol: "range", Leader: "m1", GenerationId: 3,
			RebalanceTimeoutMs: 45000,
			Members: map[string]*metadatapb.GroupMember{"m1": {ClientId: "c1", ClientHost: "h1", HeartbeatAt: "2026-01-01T00:00:00Z",
				Assignments:   []*metadatapb.Assignment{{Topic: "u", Partitions: []int32{0, 1}}},
				Subscriptions: []string{"u", "t:u"}, SessionTimeoutMs: 12000}}}
	case 2:
		return &metadatapb.ConsumerGroup{GroupId: g, State: "preparing_rebalance", ProtocolType: "consumer", Leader: "m2",
			Members: map[string]*metadatapb.GroupMember{"m1": {ClientId: "c1", Subscriptions: []string{"u"}}, "m2": {ClientId: "c2", ClientHost: "h2"}}}
	case 3: // a dead group without members
		return &metadatapb.ConsumerGroup{GroupId: g, State: "dead", ProtocolType: "consumer", GenerationId: 7, Members: map[string]*metadatapb.GroupMember{}}
	}
	return nil
}

func vsToolConfig(t string, c int) *metadatapb.TopicConfig {
	switch c {
	case 1:
		return &metadatapb.TopicConfig{Name: t, RetentionMs: 1000, RetentionBytes: -1, CreatedAt: "2026-01-01T00:00:00Z", Config: map[string]string{"cleanup.policy": "compact"}}
	case 2:
		return &metadatapb.TopicConfig{Name: t, RetentionMs: -1, RetentionBytes: 5, SegmentBytes: 7, CreatedAt: "2026-01-02T00:00:00Z", Config: map[string]string{}}
	}
	return nil
}

// vsCfgProj: every TopicConfig field except CreatedAt (a default config is stamped with time.Now() on every read).
func vsCfgProj(cfg *metadatapb.TopicConfig) map[string]any {
	conf := [][]string{} // sorted key/value pairs
	for k, v := range cfg.GetConfig() {
		conf = append(conf, []string{k, v})
	}
	sort.Slice(conf, func(i, j int) bool { return conf[i][0] < conf[j][0] })
	return map[string]any{"name": cfg.GetName(), "partitions": cfg.GetPartitions(), "rf": cfg.GetReplicationFactor(), "retention_ms": cfg.GetRetentionMs(),
		"retention_bytes": cfg.GetRetentionBytes(), "segment_bytes": cfg.GetSegmentBytes(), "config": conf}
}

func vsCfgAbstract(t string, cfg *metadatapb.TopicConfig) int {
	got := vsCfgProj(cfg)
	delete(got, "partitions")
	delete(got, "rf")
	for c := 1; c <= 2; c++ {
		want := vsCfgProj(vsToolConfig(t, c))
		delete(want, "partitions")
		delete(want, "rf")
		if reflect.DeepEqual(got, want) {
			return c
		}
	}
	def := map[string]any{"name": t, "retention_ms": int64(-1), "retention_bytes": int64(-1), "segment_bytes": int64(0), "config": [][]string{}}
	if reflect.DeepEqual(got, def) {
		return 0
	}
	return -1
}

func vsToolErr(err error) string {
	switch {
	case err == nil:
		return "ok"
	case errors.Is(err, metadata.ErrInvalidTopic):
		return "invalid"
	case errors.Is(err, metadata.ErrUnknownTopic):
		return "unknown"
	}
	return "other"
}

func vsGroupProj(g *metadatapb.ConsumerGroup) map[string]any {
	members := []map[string]any{}
	ids := []string{}
	for id := range g.GetMembers() {
		ids = append(ids, id)
	}
	sort.Strings(ids)
	for _, id := range ids {
		m := g.GetMembers()[id]
		asg := [][]any{}
		for _, a := range m.GetAssignments() {
			asg = append(asg, []any{a.GetTopic(), append([]int32{}, a.GetPartitions()...)})
		}
		members = append(members, map[string]any{"id": id, "client_id": m.GetClientId(), "client_host": m.GetClientHost(), "heartbeat_at": m.GetHeartbeatAt(),
			"assignments": asg, "subscriptions": append([]string{}, m.GetSubscriptions()...), "session_timeout_ms": m.GetSessionTimeoutMs()})
	}
	return map[string]any{"group_id": g.GetGroupId(), "state": g.GetState(), "protocol_type": g.GetProtocolType(), "protocol": g.GetProtocol(),
		"leader": g.GetLeader(), "generation_id": g.GetGenerationId(), "rebalance_timeout_ms": g.GetRebalanceTimeoutMs(), "members": members}
}

func vsGroupAbstract(id string, g *metadatapb.ConsumerGroup) int {
	if g == nil {
		return 0
	}
	strip := func(p map[string]any) map[string]any { // the in-memory store is known to drop the timeouts (C17)
		p["rebalance_timeout_ms"] = int32(0)
		for _, m := range p["members"].([]map[string]any) {
			m["session_timeout_ms"] = int32(0)
		}
		return p
	}
	for v := 1; v <= 3; v++ {
		if reflect.DeepEqual(strip(vsGroupProj(g)), strip(vsGroupProj(vsToolVariant(id, v)))) {
			return v
		}
	}
	return -1
}

// vsRawMem reads the in-memory store's private maps by reflection (read-only; the harness is sequential): the key
// sets of topicConfigs / consumerGroups and the entries of offsets / consumerOffsets / consumerMeta.  This is the
// in-memory counterpart of the raw etcd key dump: it does not go through any Store method, so a read method that
// writes (e.g. FetchTopicConfig persisting a derived default) cannot hide its own effect.
func vsRawMem(s metadata.Store) []any {
	mem, ok := s.(*metadata.InMemoryStore)
	if !ok {
		return []any{}
	}
	out := []any{}
	v := reflect.ValueOf(mem).Elem()
	for _, name := range []string{"topicConfigs", "consumerGroups", "offsets", "consumerOffsets", "consumerMeta"} {
		f := v.FieldByName(name)
		if !f.IsValid() || f.Kind() != reflect.Map {
			out = append(out, []any{name, "field not found"})
			continue
		}
		rows := []string{}
		for _, k := range f.MapKeys() {
			row := k.String()
			switch e := f.MapIndex(k); e.Kind() {
			case reflect.Int64:
				row += "=" + strconv.FormatInt(e.Int(), 10)
			case reflect.String:
				row += "=" + e.String()
			}
			rows = append(rows, row)
		}
		sort.Strings(rows)
		out = append(out, []any{name, rows})
	}
	return out
}

// vsToolRead: the raw state first (etcd keyspace with mod revisions / the in-memory maps), then everything readable
// through the Store interface over the schedule's name domain.  FetchTopicConfig is deliberately NOT part of it (it is
// read once at the end of a schedule, see vsCfgRead).
func vsToolRead(t *testing.T, ctx context.Context, s metadata.Store, admin *clientv3.Client, sc *vsToolSched) map[string]any {
	kv := [][]any{}
	if admin != nil {
		resp, err := admin.Get(ctx, "/kafscale/", clientv3.WithPrefix())
		if err != nil {
			t.Fatalf("etcd dump: %v", err)
		}
		for _, e := range resp.Kvs {
			sum := sha1.Sum(e.Value)
			kv = append(kv, []any{string(e.Key), e.ModRevision, hex.EncodeToString(sum[:])})
		}
	}
	rawmem := vsRawMem(s)
	meta, err := s.Metadata(ctx, nil)
	if err != nil {
		t.Fatalf("Metadata: %v", err)
	}
	topics, porder := [][]any{}, [][]any{}
	for _, tp := range meta.Topics {
		topics = append(topics, []any{*tp.Topic, len(tp.Partitions)})
		for _, part := range tp.Partitions { // stored order and content of the partition table
			porder = append(porder, []any{*tp.Topic, part.Partition, part.Leader, part.LeaderEpoch, len(part.Replicas), len(part.ISR)})
		}
	}
	next := [][]any{}
	for _, tp := range sc.Topics {
		for p := int32(0); p < sc.Parts; p++ {
			n, err := s.NextOffset(ctx, tp, p)
			next = append(next, []any{tp, p, vsToolErr(err), n})
		}
	}
	coff := [][]any{}
	for _, g := range sc.Groups {
		for _, tp := range sc.Topics {
			for p := int32(0); p < sc.Parts; p++ {
				off, m, err := s.FetchConsumerOffset(ctx, g, tp, p)
				if err != nil {
					t.Fatalf("FetchConsumerOffset: %v", err)
				}
				coff = append(coff, []any{g, tp, p, off, m})
			}
		}
	}
	offs, err := s.ListConsumerOffsets(ctx)
	if err != nil {
		t.Fatalf("ListConsumerOffsets: %v", err)
	}
	olist := [][]any{}
	for _, o := range offs {
		olist = append(olist, []any{o.Group, o.Topic, o.Partition, o.Offset})
	}
	sort.Slice(olist, func(i, j int) bool {
		a, _ := json.Marshal(olist[i])
		b, _ := json.Marshal(olist[j])
		return string(a) < string(b)
	})
	// groups are observed through ListConsumerGroups only: FetchConsumerGroup is a method the tools call themselves,
	// so it is kept out of the before/after reads (it is read once at the end of a schedule, see vsCfgRead)
	gl, err := s.ListConsumerGroups(ctx)
	if err != nil {
		t.Fatalf("ListConsumerGroups: %v", err)
	}
	sort.Slice(gl, func(i, j int) bool { return gl[i].GetGroupId() < gl[j].GetGroupId() })
	groups, graw, glist := [][]any{}, []any{}, []string{}
	for _, g := range gl {
		groups = append(groups, []any{g.GetGroupId(), vsGroupAbstract(g.GetGroupId(), g)})
		graw = append(graw, vsGroupProj(g))
		b, _ := json.Marshal(vsGroupProj(g))
		glist = append(glist, string(b))
	}
	return map[string]any{"topics": topics, "porder": porder, "next": next, "coff": coff, "olist": olist, "groups": groups, "graw": graw, "glist": glist,
		"kv": kv, "rawmem": rawmem}
}

// vsCfgRead reads every topic configuration and every group of the domain through FetchTopicConfig /
// FetchConsumerGroup (end of a schedule only).
func vsCfgRead(ctx context.Context, s metadata.Store, sc *vsToolSched) map[string]any {
	cfgs, craw := [][]any{}, []any{}
	for _, tp := range sc.Topics {
		cfg, err := s.FetchTopicConfig(ctx, tp)
		if err != nil {
			cfgs = append(cfgs, []any{tp, vsToolErr(err), 0})
			continue
		}
		cfgs = append(cfgs, []any{tp, "ok", vsCfgAbstract(tp, cfg)})
		craw = append(craw, vsCfgProj(cfg))
	}
	groups, graw := [][]any{}, []any{}
	for _, g := range sc.Groups {
		grp, err := s.FetchConsumerGroup(ctx, g)
		if err != nil {
			groups = append(groups, []any{g, -2})
			continue
		}
		groups = append(groups, []any{g, vsGroupAbstract(g, grp)})
		if grp != nil {
			graw = append(graw, vsGroupProj(grp))
		}
	}
	return map[string]any{"cfgs": cfgs, "craw": craw, "groups": groups, "graw": graw}
}

// vsToolArgs maps an abstract argument shape to concrete tool arguments. "known" names a topic of the initial
// snapshot and a group that currently exists in the store (existing = first group of the domain that is stored).
func vsToolArgs(sc *vsToolSched, shape string, existing string) map[string]any {
	first, g0 := "", ""
	if len(sc.Init) > 0 {
		first, _ = sc.Init[0][0].(string)
	}
	if len(sc.Groups) > 0 {
		g0 = sc.Groups[0]
	}
	if existing != "" {
		g0 = existing
	}
	switch shape {
	case "known":
		return map[string]any{"names": []string{first}, "topics": []string{first}, "group_id": g0}
	case "unknown":
		return map[string]any{"names": []string{"no-such-topic"}, "topics": []string{"no-such-topic"}, "group_id": "no-such-group"}
	case "special":
		special, sg := []string{}, g0
		for _, tp := range sc.Topics {
			special = append(special, tp)
		}
		for _, g := range sc.Groups {
			sg = g // last one: carries ':' or '/'
		}
		return map[string]any{"names": special, "topics": special, "group_id": sg}
	case "empty":
		return map[string]any{"names": []string{""}, "topics": []string{""}, "group_id": ""}
	case "many":
		many := []string{}
		for i := 0; i < 40; i++ {
			many = append(many, sc.Topics...)
			many = append(many, "no-such-topic")
		}
		return map[string]any{"names": many, "topics": many, "group_id": g0}
	}
	return map[string]any{}
}

// vsSchemaArgs keeps only the arguments the tool's input schema declares (the server rejects unknown properties).
func vsSchemaArgs(tool *mcp.Tool, all map[string]any) map[string]any {
	out := map[string]any{}
	b, err := json.Marshal(tool.InputSchema)
	if err != nil {
		return out
	}
	var schema struct {
		Properties map[string]any `json:"properties"`
	}
	_ = json.Unmarshal(b, &schema)
	for k, v := range all {
		if _, ok := schema.Properties[k]; ok {
			out[k] = v
		}
	}
	return out
}

type vsToolSide struct {
	store   metadata.Store
	admin   *clientv3.Client
	session *mcp.ClientSession
	tools   map[string]*mcp.Tool
}

func vsConnect(t *testing.T, ctx context.Context, store metadata.Store) (*mcp.ClientSession, map[string]*mcp.Tool) {
	server := NewServer(Options{Store: store, Metrics: vsMetrics{}, Version: "verif"})
	st, ct := mcp.NewInMemoryTransports()
	if _, err := server.Connect(ctx, st, nil); err != nil {
		t.Fatalf("server connect: %v", err)
	}
	cs, err := mcp.NewClient(&mcp.Implementation{Name: "verif", Version: "0"}, nil).Connect(ctx, ct, nil)
	if err != nil {
		t.Fatalf("client connect: %v", err)
	}
	lt, err := cs.ListTools(ctx, nil)
	if err != nil {
		t.Fatalf("ListTools: %v", err)
	}
	tools := map[string]*mcp.Tool{}
	for _, tool := range lt.Tools {
		tools[tool.Name] = tool
	}
	return cs, tools
}

func TestVerifStoreToolsReplay(t *testing.T) {
	in, outPath := os.Getenv("VERIF_SCHEDULES"), os.Getenv("VERIF_TRACE_OUT")
	if in == "" || outPath == "" {
		t.Skip("no schedules")
	}
	f, err := os.Open(in)
	if err != nil {
		t.Fatal(err)
	}
	defer f.Close()
	out, err := os.Create(outPath)
	if err != nil {
		t.Fatal(err)
	}
	defer out.Close()
	w := bufio.NewWriter(out)
	defer w.Flush()
	emit := func(m map[string]any) {
		b, err := json.Marshal(m)
		if err != nil {
			t.Fatal(err)
		}
		w.Write(b)
		w.WriteByte('\n')
	}
	endpoints := testutil.StartEmbeddedEtcd(t)
	admin, err := clientv3.New(clientv3.Config{Endpoints: endpoints, DialTimeout: 5 * time.Second})
	if err != nil {
		t.Fatal(err)
	}
	defer admin.Close()
	ctx, cancel := context.WithTimeout(context.Background(), 20*time.Minute)
	defer cancel()

	sc := bufio.NewScanner(f)
	sc.Buffer(make([]byte, 1<<20), 1<<26)
	n := 0
	for sc.Scan() {
		var s vsToolSched
		if err := json.Unmarshal(sc.Bytes(), &s); err != nil {
			t.Fatal(err)
		}
		if _, err := admin.Delete(ctx, "/kafscale/", clientv3.WithPrefix()); err != nil {
			t.Fatal(err)
		}
		cid := "verif"
		base := metadata.ClusterMetadata{ControllerID: 1, ClusterID: &cid, Brokers: []protocol.MetadataBroker{{NodeID: 1, Host: "127.0.0.1", Port: 9092}}}
		for _, it := range s.Init {
			name, _ := it[0].(string)
			cnt, _ := it[1].(float64)
			topic := protocol.MetadataTopic{Topic: kmsg.StringPtr(name)}
			for p := int(cnt) - 1; p >= 0; p-- { // stored out of id order, as an operator-written snapshot may be
				topic.Partitions = append(topic.Partitions, protocol.MetadataPartition{Partition: int32(p), Leader: 1, Replicas: []int32{1}, ISR: []int32{1}})
			}
			base.Topics = append(base.Topics, topic)
		}
		// The topics are part of the initial snapshot and the schedule contains no topic create/delete/grow step,
		// so the EtcdStore's snapshot watcher never fires during the schedule.
		es, err := metadata.NewEtcdStore(ctx, base, metadata.EtcdStoreConfig{Endpoints: endpoints})
		if err != nil {
			t.Fatal(err)
		}
		sides := map[string]*vsToolSide{"mem": {store: metadata.NewInMemoryStore(base)}, "etcd": {store: es, admin: admin}}
		registered := []string{}
		for name, side := range sides {
			side.session, side.tools = vsConnect(t, ctx, side.store)
			if name == "mem" {
				for tn := range side.tools {
					registered = append(registered, tn)
				}
				sort.Strings(registered)
			}
		}
		emit(map[string]any{"ev": "Reset", "sched": n, "init": s.Init, "registered": registered})
		known := map[string]bool{}
		for _, tn := range s.Tools {
			known[tn] = true
		}
		steps := append([]vsToolStep{}, s.Steps...)
		// tools the model does not know about are still called (every shape), after the schedule
		for _, tn := range registered {
			if !known[tn] {
				for _, sh := range []string{"none", "known", "unknown", "special", "empty", "many"} {
					steps = append(steps, vsToolStep{A: "Tool", Name: tn, Shape: sh})
				}
			}
		}
		for _, st := range steps {
			line := map[string]any{"ev": st.A, "t": st.T, "g": st.G, "p": st.P, "o": st.O, "m": st.M, "v": st.V, "c": st.C, "name": st.Name, "shape": st.Shape}
			for name, side := range sides {
				col := map[string]any{"val": 0}
				switch st.A {
				case "UpdateOffsets":
					col["err"] = vsToolErr(side.store.UpdateOffsets(ctx, st.T, st.P, st.O))
				case "UpdateConfig":
					col["err"] = vsToolErr(side.store.UpdateTopicConfig(ctx, vsToolConfig(st.T, st.C)))
				case "Commit":
					col["err"] = vsToolErr(side.store.CommitConsumerOffset(ctx, st.G, st.T, st.P, st.O, st.M))
				case "PutGroup":
					col["err"] = vsToolErr(side.store.PutConsumerGroup(ctx, vsToolVariant(st.G, st.V)))
				case "DeleteGroup":
					col["err"] = vsToolErr(side.store.DeleteConsumerGroup(ctx, st.G))
				case "Tool":
					delete(col, "val")
					tool := side.tools[st.Name]
					if tool == nil {
						t.Fatalf("tool %q of the model is not registered by the server (registered: %v)", st.Name, registered)
					}
					before := vsToolRead(t, ctx, side.store, side.admin, &s)
					col["before"] = before
					existing := ""
					for _, gv := range before["groups"].([][]any) {
						if gv[1].(int) != 0 {
							existing = gv[0].(string)
							break
						}
					}
					res, err := side.session.CallTool(ctx, &mcp.CallToolParams{Name: st.Name, Arguments: vsSchemaArgs(tool, vsToolArgs(&s, st.Shape, existing))})
					col["callErr"] = err != nil
					col["isError"] = res != nil && res.IsError
					col["after"] = vsToolRead(t, ctx, side.store, side.admin, &s)
				default:
					t.Fatalf("unknown step %q", st.A)
				}
				if col["err"] == "other" {
					t.Fatalf("infrastructure error: %s on the %s store failed (no verdict)", st.A, name)
				}
				line[name] = col
			}
			emit(line)
		}
		fin := map[string]any{"ev": "FinalCfg"}
		for name, side := range sides {
			fin[name] = vsCfgRead(ctx, side.store, &s)
		}
		emit(fin)
		for _, side := range sides {
			side.session.Close()
		}
		es.Close()
		n++
	}
	t.Logf("replayed %d schedules", n)
}
