package metadata

// Verification harness for Store.tla / C17 (injected with `go test -overlay`; not part of the repository).
// Replays TLC-generated operation sequences on BOTH metadata.Store implementations (InMemoryStore and
// EtcdStore over one embedded etcd per test run) and records, per operation, the two observation columns.
// Identifiers are prefixed vs*/TestVerifStore* (other verification harnesses share this package).

import (
	"bufio"
	"context"
	"encoding/json"
	"errors"
	"os"
	"reflect"
	"sort"
	"strings"
	"testing"
	"time"

	clientv3 "go.etcd.io/etcd/client/v3"

	"github.com/KafScale/platform/internal/testutil"
	metadatapb "github.com/KafScale/platform/pkg/gen/metadata"
	"github.com/KafScale/platform/pkg/protocol"
)

type vsStep struct {
	A  string `json:"a"`
	T  string `json:"t"`
	G  string `json:"g"`
	N  int32  `json:"n"`
	RF int16  `json:"rf"`
	P  int32  `json:"p"`
	O  int64  `json:"o"`
	M  string `json:"m"`
	V  int    `json:"v"`
}

type vsSched struct {
	Topics []string `json:"topics"`
	Groups []string `json:"groups"`
	Parts  int32    `json:"parts"`
	Steps  []vsStep `json:"steps"`
}

type vsObs struct {
	Err string `json:"err"`
	Val any    `json:"val"`
	Raw any    `json:"raw"` // list of full projections where `val` is an abstraction (groups); empty otherwise
}

// vsMember / vsGroup: every field of the protobuf messages, in a fixed shape (no omitempty).
type vsAssignment struct {
	Topic      string  `json:"topic"`
	Partitions []int32 `json:"partitions"`
}
type vsMember struct {
	ID               string         `json:"id"`
	ClientID         string         `json:"client_id"`
	ClientHost       string         `json:"client_host"`
	HeartbeatAt      string         `json:"heartbeat_at"`
	Assignments      []vsAssignment `json:"assignments"`
	Subscriptions    []string       `json:"subscriptions"`
	SessionTimeoutMs int32          `json:"session_timeout_ms"`
}
type vsGroup struct {
	GroupID            string     `json:"group_id"`
	State              string     `json:"state"`
	ProtocolType       string     `json:"protocol_type"`
	Protocol           string     `json:"protocol"`
	Leader             string     `json:"leader"`
	GenerationID       int32      `json:"generation_id"`
	RebalanceTimeoutMs int32      `json:"rebalance_timeout_ms"`
	Members            []vsMember `json:"members"`
}

// vsVariant builds the group value the schedule calls "variant v" for group g.
// Variant 1 carries non-zero timeouts, variant 2 has zero timeouts, two members and no assignments.
func vsVariant(g string, v int) *metadatapb.ConsumerGroup {
	switch v {
	case 1:
		return &metadatapb.ConsumerGroup{
			GroupId: g, State: "stable", ProtocolType: "consumer", Protocol: "range", Leader: "m1", GenerationId: 3,
			RebalanceTimeoutMs: 45000,
			Members: map[string]*metadatapb.GroupMember{
				"m1": {ClientId: "c1", ClientHost: "h1", HeartbeatAt: "2026-01-01T00:00:00Z",
					Assignments:   []*metadatapb.Assignment{{Topic: "u", Partitions: []int32{0, 1}}, {Topic: "t:u", Partitions: []int32{0}}},
					Subscriptions: []string{"u", "t:u"}, SessionTimeoutMs: 12000},
			},
		}
	case 2:
		return &metadatapb.ConsumerGroup{
			GroupId: g, State: "preparing_rebalance", ProtocolType: "consumer", Protocol: "", Leader: "m2", GenerationId: 0,
			Members: map[string]*metadatapb.GroupMember{
				"m1": {ClientId: "c1", Subscriptions: []string{"u"}},
				"m2": {ClientId: "c2", ClientHost: "h2", Subscriptions: []string{"t/u"}},
			},
		}
	case 3: // a dead group without members
		return &metadatapb.ConsumerGroup{GroupId: g, State: "dead", ProtocolType: "consumer", GenerationId: 7, Members: map[string]*metadatapb.GroupMember{}}
	}
	return nil
}

func vsProjectGroup(g *metadatapb.ConsumerGroup) vsGroup {
	out := vsGroup{GroupID: g.GetGroupId(), State: g.GetState(), ProtocolType: g.GetProtocolType(), Protocol: g.GetProtocol(),
		Leader: g.GetLeader(), GenerationID: g.GetGenerationId(), RebalanceTimeoutMs: g.GetRebalanceTimeoutMs(), Members: []vsMember{}}
	for id, m := range g.GetMembers() {
		pm := vsMember{ID: id, ClientID: m.GetClientId(), ClientHost: m.GetClientHost(), HeartbeatAt: m.GetHeartbeatAt(),
			Assignments: []vsAssignment{}, Subscriptions: append([]string{}, m.GetSubscriptions()...), SessionTimeoutMs: m.GetSessionTimeoutMs()}
		for _, a := range m.GetAssignments() {
			pm.Assignments = append(pm.Assignments, vsAssignment{Topic: a.GetTopic(), Partitions: append([]int32{}, a.GetPartitions()...)})
		}
		out.Members = append(out.Members, pm)
	}
	sort.Slice(out.Members, func(i, j int) bool { return out.Members[i].ID < out.Members[j].ID })
	return out
}

func vsStripTimeouts(g vsGroup) vsGroup {
	g.RebalanceTimeoutMs = 0
	ms := make([]vsMember, len(g.Members))
	copy(ms, g.Members)
	for i := range ms {
		ms[i].SessionTimeoutMs = 0
	}
	g.Members = ms
	return g
}

// vsAbstractGroup maps a fetched group to (variant id, timeouts intact): the variant whose non-timeout fields
// equal the fetched ones (-1: none), and whether the timeout fields equal that variant's.
func vsAbstractGroup(id string, g *metadatapb.ConsumerGroup) (int, bool) {
	if g == nil {
		return 0, true
	}
	got := vsProjectGroup(g)
	for v := 1; v <= 3; v++ {
		want := vsProjectGroup(vsVariant(id, v))
		if reflect.DeepEqual(vsStripTimeouts(got), vsStripTimeouts(want)) {
			return v, reflect.DeepEqual(got, want)
		}
	}
	return -1, true
}

var vsNoRaw = []any{}

// vsInfra remembers an error that is not a result of the store logic (etcd timeout under machine load, lost
// connection): the run is then abandoned (exit 2), it is never turned into an observation.
var vsInfra error

func vsErr(err error) string {
	switch {
	case err == nil:
		return "ok"
	case errors.Is(err, context.DeadlineExceeded) || errors.Is(err, context.Canceled) || strings.Contains(err.Error(), "context deadline exceeded") ||
		strings.Contains(err.Error(), "request timed out") || strings.Contains(err.Error(), "connection refused") || strings.Contains(err.Error(), "transport"):
		vsInfra = err
		return "infra"
	case errors.Is(err, ErrTopicExists):
		return "exists"
	case errors.Is(err, ErrInvalidTopic):
		return "invalid"
	case errors.Is(err, ErrUnknownTopic):
		return "unknown"
	}
	return "other"
}

func vsTopics(ctx context.Context, s Store) (string, [][]any) {
	meta, err := s.Metadata(ctx, nil)
	out := [][]any{}
	if err != nil {
		return vsErr(err), out
	}
	for _, t := range meta.Topics {
		out = append(out, []any{*t.Topic, len(t.Partitions)})
	}
	return "ok", out
}

func vsOffsetList(ctx context.Context, s Store) (string, [][]any) {
	offs, err := s.ListConsumerOffsets(ctx)
	out := [][]any{}
	if err != nil {
		return vsErr(err), out
	}
	sort.Slice(offs, func(i, j int) bool {
		a, b := offs[i], offs[j]
		if a.Group != b.Group {
			return a.Group < b.Group
		}
		if a.Topic != b.Topic {
			return a.Topic < b.Topic
		}
		return a.Partition < b.Partition
	})
	for _, o := range offs {
		out = append(out, []any{o.Group, o.Topic, o.Partition, o.Offset})
	}
	return "ok", out
}

func vsGroupList(ctx context.Context, s Store) (string, [][]any, []vsGroup) {
	groups, err := s.ListConsumerGroups(ctx)
	out, raw := [][]any{}, []vsGroup{}
	if err != nil {
		return vsErr(err), out, raw
	}
	sort.Slice(groups, func(i, j int) bool { return groups[i].GetGroupId() < groups[j].GetGroupId() })
	for _, g := range groups {
		v, to := vsAbstractGroup(g.GetGroupId(), g)
		out = append(out, []any{g.GetGroupId(), v, to})
		raw = append(raw, vsProjectGroup(g))
	}
	return "ok", out, raw
}

// vsFullRead performs every read the interface offers over the schedule's name domain.
func vsFullRead(ctx context.Context, s Store, sc *vsSched) map[string]any {
	_, topics := vsTopics(ctx, s)
	next := [][]any{}
	for _, t := range sc.Topics {
		for p := int32(0); p < sc.Parts; p++ {
			n, err := s.NextOffset(ctx, t, p)
			next = append(next, []any{t, p, vsErr(err), n})
		}
	}
	coff := [][]any{}
	for _, g := range sc.Groups {
		for _, t := range sc.Topics {
			for p := int32(0); p < sc.Parts; p++ {
				off, meta, err := s.FetchConsumerOffset(ctx, g, t, p)
				if err != nil {
					off, meta = -999, vsErr(err)
				}
				coff = append(coff, []any{g, t, p, off, meta})
			}
		}
	}
	groups, raws := [][]any{}, []any{}
	for _, g := range sc.Groups {
		grp, err := s.FetchConsumerGroup(ctx, g)
		if err != nil {
			groups = append(groups, []any{g, -2, true})
			continue
		}
		v, to := vsAbstractGroup(g, grp)
		groups = append(groups, []any{g, v, to})
		if grp != nil {
			raws = append(raws, vsProjectGroup(grp))
		}
	}
	// the two list operations are steps of their own (ListOffsets, ListGroups) and are not repeated here
	return map[string]any{"topics": topics, "next": next, "coff": coff, "groups": groups, "graw": raws}
}

func vsApply(ctx context.Context, s Store, st vsStep, sc *vsSched) vsObs {
	switch st.A {
	case "CreateTopic":
		topic, err := s.CreateTopic(ctx, TopicSpec{Name: st.T, NumPartitions: st.N, ReplicationFactor: st.RF})
		n := 0
		if topic != nil {
			n = len(topic.Partitions)
		}
		return vsObs{vsErr(err), n, vsNoRaw}
	case "DeleteTopic":
		return vsObs{vsErr(s.DeleteTopic(ctx, st.T)), 0, vsNoRaw}
	case "CreatePartitions":
		return vsObs{vsErr(s.CreatePartitions(ctx, st.T, st.N)), 0, vsNoRaw}
	case "UpdateOffsets":
		return vsObs{vsErr(s.UpdateOffsets(ctx, st.T, st.P, st.O)), 0, vsNoRaw}
	case "NextOffset":
		n, err := s.NextOffset(ctx, st.T, st.P)
		return vsObs{vsErr(err), n, vsNoRaw}
	case "Metadata":
		e, v := vsTopics(ctx, s)
		return vsObs{e, v, vsNoRaw}
	case "Refresh":
		if es, ok := s.(*EtcdStore); ok {
			return vsObs{vsErr(es.RefreshSnapshot(ctx)), 0, vsNoRaw}
		}
		return vsObs{"ok", 0, vsNoRaw}
	case "Commit":
		return vsObs{vsErr(s.CommitConsumerOffset(ctx, st.G, st.T, st.P, st.O, st.M)), 0, vsNoRaw}
	case "FetchOffset":
		off, meta, err := s.FetchConsumerOffset(ctx, st.G, st.T, st.P)
		return vsObs{vsErr(err), []any{off, meta}, vsNoRaw}
	case "ListOffsets":
		e, v := vsOffsetList(ctx, s)
		return vsObs{e, v, vsNoRaw}
	case "PutGroup":
		return vsObs{vsErr(s.PutConsumerGroup(ctx, vsVariant(st.G, st.V))), 0, vsNoRaw}
	case "FetchGroup":
		grp, err := s.FetchConsumerGroup(ctx, st.G)
		v, to := vsAbstractGroup(st.G, grp)
		raw := []any{}
		if grp != nil {
			raw = append(raw, vsProjectGroup(grp))
		}
		return vsObs{vsErr(err), []any{v, to}, raw}
	case "ListGroups":
		e, v, raw := vsGroupList(ctx, s)
		return vsObs{e, v, raw}
	case "DeleteGroup":
		return vsObs{vsErr(s.DeleteConsumerGroup(ctx, st.G)), 0, vsNoRaw}
	case "Final":
		return vsObs{"ok", vsFullRead(ctx, s, sc), vsNoRaw}
	}
	return vsObs{"nosuchop", 0, vsNoRaw}
}

func vsBase() ClusterMetadata {
	cid := "verif"
	return ClusterMetadata{ControllerID: 1, ClusterID: &cid, Brokers: []protocol.MetadataBroker{{NodeID: 1, Host: "127.0.0.1", Port: 9092}}}
}

func TestVerifStoreReplay(t *testing.T) {
	in, outPath := os.Getenv("VERIF_SCHEDULES"), os.Getenv("VERIF_TRACE_OUT")
	if in == "" || outPath == "" {
		t.Skip("no schedules")
	}
	f, err := os.Open(in)
	if err != nil {
		t.Fatal(err)
	}
	defer f.Close()
	out, err := os.Create(outPath)
	if err != nil {
		t.Fatal(err)
	}
	defer out.Close()
	w := bufio.NewWriter(out)
	defer w.Flush()
	emit := func(m map[string]any) {
		b, err := json.Marshal(m)
		if err != nil {
			t.Fatal(err)
		}
		w.Write(b)
		w.WriteByte('\n')
	}
	endpoints := testutil.StartEmbeddedEtcd(t)
	admin, err := clientv3.New(clientv3.Config{Endpoints: endpoints, DialTimeout: 5 * time.Second})
	if err != nil {
		t.Fatal(err)
	}
	defer admin.Close()
	ctx, cancel := context.WithTimeout(context.Background(), 20*time.Minute)
	defer cancel()

	sc := bufio.NewScanner(f)
	sc.Buffer(make([]byte, 1<<20), 1<<26)
	n := 0
	for sc.Scan() {
		var s vsSched
		if err := json.Unmarshal(sc.Bytes(), &s); err != nil {
			t.Fatal(err)
		}
		// fresh state: the key layout of EtcdStore is fixed, so wipe its prefix and build a new store
		if _, err := admin.Delete(ctx, "/kafscale/", clientv3.WithPrefix()); err != nil {
			t.Fatal(err)
		}
		mem := NewInMemoryStore(vsBase())
		es, err := NewEtcdStore(ctx, vsBase(), EtcdStoreConfig{Endpoints: endpoints})
		if err != nil {
			t.Fatal(err)
		}
		// Single-store sequential semantics: stop the asynchronous snapshot watcher so that a late watch event
		// cannot interleave with the next operation (that race is property C21's subject, module Snapshot).
		// The explicit "Refresh" step exercises the same reload path deterministically.
		es.cancel()
		emit(map[string]any{"ev": "Reset", "sched": n, "topics": s.Topics, "groups": s.Groups, "parts": s.Parts})
		for _, st := range s.Steps {
			line := map[string]any{"ev": st.A, "t": st.T, "g": st.G, "n": st.N, "rf": st.RF, "p": st.P, "o": st.O, "m": st.M, "v": st.V}
			line["mem"] = vsApply(ctx, mem, st, &s)
			line["etcd"] = vsApply(ctx, es, st, &s)
			emit(line)
			if vsInfra != nil {
				w.Flush()
				t.Fatalf("infrastructure error during %s (no verdict): %v", st.A, vsInfra)
			}
		}
		es.Close()
		n++
	}
	t.Logf("replayed %d schedules", n)
}
