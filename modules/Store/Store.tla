---- MODULE Store ----
(* Sequential reference model of the metadata.Store interface (pkg/metadata/store.go InMemoryStore,        *)
(* pkg/metadata/etcd_store.go EtcdStore), of GroupCoordinator.OffsetCommit/OffsetFetch on top of it        *)
(* (pkg/broker/coordinator.go) and of the ops MCP tools (internal/mcpserver/tools.go).                     *)
(*                                                                                                         *)
(* The model keeps ONE store state per implementation (st["mem"], st["etcd"]); every operation is applied  *)
(* to both and the two results are recorded side by side in `last`.  With all Dev* constants FALSE both    *)
(* copies implement the same isolated maps (the repaired design).  Each Dev* constant turns one expression *)
(* into the realistic wrong design found in (or plausible for) one implementation:                         *)
(*   DevKeyAliasing        mem: consumer offsets keyed by the string group ":" topic ":" partition         *)
(*                         (aliases g="a:b",t="c" with g="a",t="b:c"; ListConsumerOffsets drops ':' names)  *)
(*   DevDeleteKeepsOffsets mem: DeleteTopic leaves the topic's consumer offsets behind                     *)
(*   DevCloneDropsTimeouts mem: cloneConsumerGroup forgets Session/RebalanceTimeoutMs                      *)
(*   DevEtcdListOmitsSlash etcd: ListConsumerOffsets / ListConsumerGroups skip names containing '/'        *)
(*   DevEtcdPartsOrder     etcd: CreatePartitions looks the topic up before validating the count           *)
(*   DevFetchDefaultZero   coordinator: OffsetFetch forwards the store's 0 for a never-committed partition *)
(*   DevCommitUnchecked    coordinator: OffsetCommit writes before checking member/generation              *)
(*   DevToolWrites         mcp: fetch_offsets initialises missing offsets (a tool that writes)             *)
(*   DevToolPersistsDefault mcp: describe_configs (FetchTopicConfig) stores the derived default config record  *)
(*   DevToolGroupDefaults  mcp: describe_group (FetchConsumerGroup, mem) fills zero timeouts of the STORED group *)
(*   DevToolReaps          mcp: list_groups deletes stored groups that are dead and memberless             *)
(*   DevEscapeFastPath     mem: the consumer key escapes a name only when it contains ':', so the text     *)
(*                         "%3A" in one name collides with ':' in another ("g%3At" vs "g:t")               *)
(*   DevStaleNextOffset    etcd: the next offset written by UpdateOffsets is remembered outside etcd and      *)
(*                         survives DeleteTopic (delete + re-create of a name reads the old topic's offset)   *)
(*   DevGrowSameCountOk    mem: CreatePartitions with exactly the current count succeeds as a no-op           *)
(*   DevEtcdDeletePrefix   etcd: DeleteTopic(t) deletes the produce offsets under the key prefix of t      *)
(*                         without the closing '/', i.e. also those of every topic whose name starts with t *)
(* Topic names are validated by CreateTopic (metadata.ValidTopicName: [a-zA-Z0-9._-]); names containing    *)
(* ':' '/' '%' still reach the consumer-offset and group operations, which do not validate.                 *)
EXTENDS Integers, Sequences, FiniteSets, TLC, Json
CONSTANTS Topics, Groups, ColonNames, SlashNames, PercentNames, DeadVariants, MaxParts, Offs, Metas, Variants, TimeoutVariants,
          CfgVariants, ToolNames, ToolShapes, InitTopics, MaxOps,
          DevKeyAliasing, DevDeleteKeepsOffsets, DevCloneDropsTimeouts, DevEtcdListOmitsSlash,
          DevEtcdPartsOrder, DevFetchDefaultZero, DevCommitUnchecked, DevToolWrites,
          DevToolReaps, DevEscapeFastPath, DevEtcdDeletePrefix, DevStaleNextOffset, DevGrowSameCountOk,
          DevToolPersistsDefault, DevToolGroupDefaults
VARIABLES st,         \* [impl -> store record]
          committed,  \* ghost: [impl -> [triple -> last SUCCESSFUL coordinator commit]]
          last,       \* the last operation with both observation columns
          hist
vars == <<st, committed, last, hist>>

Impls == {"mem", "etcd"}
Parts == 0..(MaxParts - 1)
Triples == Groups \X Topics \X Parts
EmptyFn == [x \in {} |-> 0]
Put(f, k, v) == [x \in (DOMAIN f) \cup {k} |-> IF x = k THEN v ELSE f[x]]
Drop(f, K) == [x \in (DOMAIN f) \ K |-> f[x]]
Obs(e, v) == [err |-> e, val |-> v]
Res(s, o) == [s |-> s, o |-> o]

EmptyStore(tp) == [topics |-> tp, next |-> EmptyFn, coff |-> EmptyFn, groups |-> EmptyFn, cfgs |-> EmptyFn]
NoCommit == [set |-> FALSE, off |-> 0, meta |-> ""]

TopicIdx(s, t) == IF \E i \in 1..Len(s.topics) : s.topics[i][1] = t
                  THEN CHOOSE i \in 1..Len(s.topics) : s.topics[i][1] = t ELSE 0
PartsOf(s, t) == IF TopicIdx(s, t) = 0 THEN 0 ELSE s.topics[TopicIdx(s, t)][2]
Without(q, i) == [j \in 1..(Len(q) - 1) |-> IF j < i THEN q[j] ELSE q[j + 1]]

(* ---------------- topics, partitions, produce offsets (shared code path: EtcdStore delegates) ------------- *)
\* the name relations of the alphabet that the key layouts are sensitive to
EscapePairs == {<<"g:t", "g%3At">>, <<"t:u", "t%3Au">>}      \* <<name with ':', the same name with ':' spelled "%3A">>
PrefixPairs == {<<"o", "o-d">>}                               \* <<name, longer name that starts with it>>
Canon(n) == IF \E pr \in EscapePairs : pr[2] = n THEN (CHOOSE pr \in EscapePairs : pr[2] = n)[1] ELSE n
IllegalTopic(t) == t \in (ColonNames \cup SlashNames \cup PercentNames)

DoCreateTopic(i, s, t, n, rf) ==
  IF IllegalTopic(t) \/ n <= 0 THEN Res(s, Obs("invalid", 0))
  ELSE IF PartsOf(s, t) > 0 THEN Res(s, Obs("exists", 0))
  ELSE IF rf > 1 THEN Res(s, Obs("invalid", 0))              \* one broker in every harness
  ELSE Res([s EXCEPT !.topics = Append(@, <<t, n>>)], Obs("ok", n))

KeyOf(i, g, t, p) == IF DevKeyAliasing /\ i = "mem" THEN <<g \o ":" \o t, "", p>>
                     ELSE IF DevEscapeFastPath /\ i = "mem" THEN <<Canon(g), Canon(t), p>>
                     ELSE <<g, t, p>>

DoDeleteTopic(i, s, t) ==
  IF PartsOf(s, t) = 0 THEN Res(s, Obs("unknown", 0))
  ELSE Res([s EXCEPT !.topics = Without(@, TopicIdx(s, t)),
                     !.next = IF DevStaleNextOffset /\ i = "etcd" THEN @ ELSE
                              Drop(@, {k \in DOMAIN @ : k[1] = t \/ (DevEtcdDeletePrefix /\ i = "etcd" /\ <<t, k[1]>> \in PrefixPairs)}),
                     !.coff = IF DevDeleteKeepsOffsets /\ i = "mem" THEN @
                              ELSE Drop(@, {k \in DOMAIN @ : @[k].t = t})],
           Obs("ok", 0))

DoCreatePartitions(i, s, t, n) ==
  LET cur == PartsOf(s, t) IN
  IF DevEtcdPartsOrder /\ i = "etcd"
  THEN IF cur = 0 THEN Res(s, Obs("unknown", 0))
       ELSE IF n <= cur THEN Res(s, Obs("invalid", 0))
       ELSE Res([s EXCEPT !.topics[TopicIdx(s, t)] = <<t, n>>], Obs("ok", 0))
  ELSE IF n <= 0 THEN Res(s, Obs("invalid", 0))
       ELSE IF cur = 0 THEN Res(s, Obs("unknown", 0))
       ELSE IF n = cur /\ DevGrowSameCountOk /\ i = "mem" THEN Res(s, Obs("ok", 0))
       ELSE IF n <= cur THEN Res(s, Obs("invalid", 0))
       ELSE Res([s EXCEPT !.topics[TopicIdx(s, t)] = <<t, n>>], Obs("ok", 0))

\* neither implementation checks that the partition exists when recording an offset
DoUpdateOffsets(i, s, t, p, o) == Res([s EXCEPT !.next = Put(@, <<t, p>>, o + 1)], Obs("ok", 0))
NextVal(s, t, p) == IF p < PartsOf(s, t)
                    THEN Obs("ok", IF <<t, p>> \in DOMAIN s.next THEN s.next[<<t, p>>] ELSE 0)
                    ELSE Obs("unknown", 0)
DoNextOffset(i, s, t, p) == Res(s, NextVal(s, t, p))
DoMetadata(i, s) == Res(s, Obs("ok", s.topics))
DoRefresh(i, s) == Res(s, Obs("ok", 0))

(* ---------------- consumer offsets ------------------------------------------------------------------------- *)
Lookup(i, s, g, t, p) == LET k == KeyOf(i, g, t, p) IN
  IF k \in DOMAIN s.coff THEN [set |-> TRUE, off |-> s.coff[k].off, meta |-> s.coff[k].meta] ELSE NoCommit
DoCommit(i, s, g, t, p, o, m) ==
  Res([s EXCEPT !.coff = Put(@, KeyOf(i, g, t, p), [g |-> g, t |-> t, p |-> p, off |-> o, meta |-> m])], Obs("ok", 0))
\* store level: a missing entry reads as (0, "") in both implementations (asserted by the repository's tests)
DoFetchOffset(i, s, g, t, p) == Res(s, Obs("ok", <<Lookup(i, s, g, t, p).off, Lookup(i, s, g, t, p).meta>>))
Listed(i, e) == /\ (DevKeyAliasing /\ i = "mem") => (e.g \notin ColonNames /\ e.t \notin ColonNames)
                /\ (DevEtcdListOmitsSlash /\ i = "etcd") => (e.g \notin SlashNames /\ e.t \notin SlashNames)
OffsetList(i, s) == {<<s.coff[k].g, s.coff[k].t, s.coff[k].p, s.coff[k].off>> : k \in {x \in DOMAIN s.coff : Listed(i, s.coff[x])}}
DoListOffsets(i, s) == Res(s, Obs("ok", OffsetList(i, s)))

(* ---------------- consumer groups -------------------------------------------------------------------------- *)
DoPutGroup(i, s, g, v) ==
  Res([s EXCEPT !.groups = Put(@, g, <<v, ~(DevCloneDropsTimeouts /\ i = "mem" /\ v \in TimeoutVariants)>>)], Obs("ok", 0))
GroupVal(s, g) == IF g \in DOMAIN s.groups THEN s.groups[g] ELSE <<0, TRUE>>
DoFetchGroup(i, s, g) == Res(s, Obs("ok", GroupVal(s, g)))
GroupList(i, s) == {<<g, s.groups[g][1], s.groups[g][2]>> : g \in {x \in DOMAIN s.groups : (DevEtcdListOmitsSlash /\ i = "etcd") => x \notin SlashNames}}
DoListGroups(i, s) == Res(s, Obs("ok", GroupList(i, s)))
DoDeleteGroup(i, s, g) == Res([s EXCEPT !.groups = Drop(@, {g})], Obs("ok", 0))

(* ---------------- topic configs (used by the tools mode only; not part of C17's operation list) ------------ *)
DoUpdateConfig(i, s, t, c) == IF PartsOf(s, t) = 0 THEN Res(s, Obs("unknown", 0))
                              ELSE Res([s EXCEPT !.cfgs = Put(@, t, c)], Obs("ok", 0))
CfgVal(s, t) == IF PartsOf(s, t) = 0 THEN Obs("unknown", 0)
                ELSE Obs("ok", IF t \in DOMAIN s.cfgs THEN s.cfgs[t] ELSE 0)       \* 0 = defaults

\* everything the interface can read back over the name domain, as sets of tuples (the harness performs the same reads)
FullRead(i, s) == [topics |-> s.topics,
                   next |-> {<<t, p, NextVal(s, t, p).err, NextVal(s, t, p).val>> : t \in Topics, p \in Parts},
                   coff |-> {<<x[1], x[2], x[3], Lookup(i, s, x[1], x[2], x[3]).off, Lookup(i, s, x[1], x[2], x[3]).meta>> : x \in Triples},
                   groups |-> {<<g, GroupVal(s, g)[1], GroupVal(s, g)[2]>> : g \in Groups}]
\* the projection compared around a tool call: FullRead plus the list operations and the topic configurations
ToolProj(i, s) == [full |-> FullRead(i, s), olist |-> OffsetList(i, s), glist |-> GroupList(i, s),
                   cfgs |-> {<<t, CfgVal(s, t).err, CfgVal(s, t).val>> : t \in Topics},
                   cfgkeys |-> DOMAIN s.cfgs]      \* which topics have a stored config record (raw state, not a read result)
DoFinal(i, s) == Res(s, Obs("ok", FullRead(i, s)))

(* ---------------- the store-level step: one operation applied to both implementations ---------------------- *)
Apply(i, s, x) ==
  CASE x.a = "CreateTopic" -> DoCreateTopic(i, s, x.t, x.n, x.rf)
    [] x.a = "DeleteTopic" -> DoDeleteTopic(i, s, x.t)
    [] x.a = "CreatePartitions" -> DoCreatePartitions(i, s, x.t, x.n)
    [] x.a = "UpdateOffsets" -> DoUpdateOffsets(i, s, x.t, x.p, x.o)
    [] x.a = "NextOffset" -> DoNextOffset(i, s, x.t, x.p)
    [] x.a = "Metadata" -> DoMetadata(i, s)
    [] x.a = "Refresh" -> DoRefresh(i, s)
    [] x.a = "Commit" -> DoCommit(i, s, x.g, x.t, x.p, x.o, x.m)
    [] x.a = "FetchOffset" -> DoFetchOffset(i, s, x.g, x.t, x.p)
    [] x.a = "ListOffsets" -> DoListOffsets(i, s)
    [] x.a = "PutGroup" -> DoPutGroup(i, s, x.g, x.v)
    [] x.a = "FetchGroup" -> DoFetchGroup(i, s, x.g)
    [] x.a = "ListGroups" -> DoListGroups(i, s)
    [] x.a = "DeleteGroup" -> DoDeleteGroup(i, s, x.g)
    [] x.a = "UpdateConfig" -> DoUpdateConfig(i, s, x.t, x.c)
    [] x.a = "Final" -> DoFinal(i, s)
Both(x) ==
  /\ Len(hist) < MaxOps
  /\ st' = [i \in Impls |-> Apply(i, st[i], x).s]
  /\ last' = [kind |-> "store", op |-> x.a, mem |-> Apply("mem", st["mem"], x).o, etcd |-> Apply("etcd", st["etcd"], x).o]
  /\ hist' = Append(hist, x)
  /\ UNCHANGED committed

CreateTopic(t, n, rf) == Both([a |-> "CreateTopic", t |-> t, n |-> n, rf |-> rf])
DeleteTopic(t) == Both([a |-> "DeleteTopic", t |-> t])
CreatePartitions(t, n) == Both([a |-> "CreatePartitions", t |-> t, n |-> n])
UpdateOffsets(t, p, o) == Both([a |-> "UpdateOffsets", t |-> t, p |-> p, o |-> o])
NextOffset(t, p) == Both([a |-> "NextOffset", t |-> t, p |-> p])
Metadata == Both([a |-> "Metadata"])
Refresh == Both([a |-> "Refresh"])
Commit(g, t, p, o, m) == Both([a |-> "Commit", g |-> g, t |-> t, p |-> p, o |-> o, m |-> m])
FetchOffset(g, t, p) == Both([a |-> "FetchOffset", g |-> g, t |-> t, p |-> p])
ListOffsets == Both([a |-> "ListOffsets"])
PutGroup(g, v) == Both([a |-> "PutGroup", g |-> g, v |-> v])
FetchGroup(g) == Both([a |-> "FetchGroup", g |-> g])
ListGroups == Both([a |-> "ListGroups"])
DeleteGroup(g) == Both([a |-> "DeleteGroup", g |-> g])
UpdateConfig(t, c) == Both([a |-> "UpdateConfig", t |-> t, c |-> c])
Final == Both([a |-> "Final"])

(* ---------------- GroupCoordinator.OffsetCommit / OffsetFetch over a store --------------------------------- *)
\* what OffsetFetch answers for one partition
CoordView(i, s, x) == LET r == Lookup(i, s, x[1], x[2], x[3]) IN
  IF r.set THEN [off |-> r.off, meta |-> r.meta]
  ELSE [off |-> IF DevFetchDefaultZero THEN 0 ELSE -1, meta |-> ""]
Snap(i, s) == [x \in Triples |-> CoordView(i, s, x)]

\* good = the request carries a current member id and generation; otherwise UNKNOWN_MEMBER_ID (25), nothing written
CoordCommit(g, t, p, o, m, good) ==
  /\ Len(hist) < MaxOps
  /\ LET writes == good \/ DevCommitUnchecked
         ns == [i \in Impls |-> IF writes THEN DoCommit(i, st[i], g, t, p, o, m).s ELSE st[i]]
         col(i) == [code |-> IF good THEN 0 ELSE 25, before |-> Snap(i, st[i]), after |-> Snap(i, ns[i])]
     IN /\ st' = ns
        /\ committed' = [i \in Impls |-> IF good THEN [committed[i] EXCEPT ![<<g, t, p>>] = [set |-> TRUE, off |-> o, meta |-> m]]
                                         ELSE committed[i]]
        /\ last' = [kind |-> "coord", op |-> "CoordCommit", tgt |-> <<g, t, p>>, mem |-> col("mem"), etcd |-> col("etcd")]
  /\ hist' = Append(hist, [a |-> "CoordCommit", g |-> g, t |-> t, p |-> p, o |-> o, m |-> m, good |-> good])

CoordFetch(g, t, p) ==
  /\ Len(hist) < MaxOps
  /\ LET x == <<g, t, p>>
         col(i) == [code |-> 0, before |-> [y \in {x} |-> CoordView(i, st[i], x)], after |-> [y \in {x} |-> CoordView(i, st[i], x)]]
     IN last' = [kind |-> "coord", op |-> "CoordFetch", tgt |-> x, mem |-> col("mem"), etcd |-> col("etcd")]
  /\ hist' = Append(hist, [a |-> "CoordFetch", g |-> g, t |-> t, p |-> p])
  /\ UNCHANGED <<st, committed>>

(* ---------------- ops MCP tools ---------------------------------------------------------------------------- *)
Tool(name, shape) ==
  /\ Len(hist) < MaxOps
  /\ LET g == CHOOSE x \in Groups : TRUE
         ns == [i \in Impls |->
                  IF DevToolReaps /\ name = "list_groups"
                  THEN [st[i] EXCEPT !.groups = Drop(@, {x \in DOMAIN @ : @[x][1] \in DeadVariants})] ELSE
                  IF DevToolGroupDefaults /\ name = "describe_group" /\ shape = "known" /\ i = "mem"
                     /\ \E x \in DOMAIN st[i].groups : st[i].groups[x][1] \notin TimeoutVariants /\ st[i].groups[x][2]
                  THEN LET x == CHOOSE x \in DOMAIN st[i].groups : st[i].groups[x][1] \notin TimeoutVariants /\ st[i].groups[x][2]
                       IN [st[i] EXCEPT !.groups[x] = <<@[1], FALSE>>] ELSE
                  IF DevToolPersistsDefault /\ name = "describe_configs" /\ shape = "known" /\ Len(st[i].topics) > 0
                     /\ st[i].topics[1][1] \notin DOMAIN st[i].cfgs
                  THEN [st[i] EXCEPT !.cfgs = Put(@, st[i].topics[1][1], 0)] ELSE
                  IF DevToolWrites /\ name = "fetch_offsets" /\ shape = "known" /\ Len(st[i].topics) > 0
                     /\ ~Lookup(i, st[i], g, st[i].topics[1][1], 0).set
                  THEN DoCommit(i, st[i], g, st[i].topics[1][1], 0, 0, "").s ELSE st[i]]
         col(i) == [before |-> ToolProj(i, st[i]), after |-> ToolProj(i, ns[i])]
     IN /\ st' = ns
        /\ last' = [kind |-> "tool", op |-> "Tool", mem |-> col("mem"), etcd |-> col("etcd")]
  /\ hist' = Append(hist, [a |-> "Tool", name |-> name, shape |-> shape])
  /\ UNCHANGED committed

(* ---------------- behaviours ------------------------------------------------------------------------------- *)
Init == /\ st = [i \in Impls |-> EmptyStore(InitTopics)]
        /\ committed = [i \in Impls |-> [x \in Triples |-> NoCommit]]
        /\ last = [kind |-> "init", op |-> "Init", mem |-> Obs("ok", 0), etcd |-> Obs("ok", 0)]
        /\ hist = <<>>

\* C17: the operation list of the property statement (topics, partition growth, offsets, consumer offsets, groups)
NextStore ==
  \/ \E t \in Topics : \/ \E n \in 0..MaxParts, rf \in {1, 2} : CreateTopic(t, n, rf)
                       \/ DeleteTopic(t)
                       \/ \E n \in 0..MaxParts : CreatePartitions(t, n)
                       \/ \E p \in Parts : NextOffset(t, p) \/ \E o \in Offs : UpdateOffsets(t, p, o)
  \/ \E g \in Groups : \/ \E t \in Topics, p \in Parts : FetchOffset(g, t, p) \/ \E o \in Offs, m \in Metas : Commit(g, t, p, o, m)
                       \/ \E v \in Variants : PutGroup(g, v)
                       \/ FetchGroup(g) \/ DeleteGroup(g)
  \/ Metadata \/ Refresh \/ ListOffsets \/ ListGroups \/ Final
\* the topic / produce-offset half of NextStore (used by a deviation config that needs a deeper search)
NextTopicOps ==
  \E t \in Topics : \/ \E n \in 0..MaxParts, rf \in {1, 2} : CreateTopic(t, n, rf)
                     \/ DeleteTopic(t)
                     \/ \E p \in Parts : NextOffset(t, p) \/ \E o \in Offs : UpdateOffsets(t, p, o)
\* C16: commits and fetches through the coordinator
NextCoord == \E g \in Groups, t \in Topics, p \in Parts :
               \/ CoordFetch(g, t, p)
               \/ \E o \in Offs, m \in Metas, good \in BOOLEAN : CoordCommit(g, t, p, o, m, good)
\* C40: a populated store (InitTopics + non-snapshot writes) and tool calls
NextTools ==
  \/ \E t \in Topics : \/ \E p \in Parts, o \in Offs : UpdateOffsets(t, p, o)
                       \/ \E c \in CfgVariants : UpdateConfig(t, c)
  \/ \E g \in Groups : \/ \E t \in Topics, p \in Parts, o \in Offs, m \in Metas : Commit(g, t, p, o, m)
                       \/ \E v \in Variants : PutGroup(g, v)
                       \/ DeleteGroup(g)
  \/ \E n \in ToolNames, sh \in ToolShapes : Tool(n, sh)
Next == NextStore \/ NextCoord \/ NextTools
Spec == Init /\ [][Next]_vars

(* ---------------- properties (definitions shared with the observation layer through StoreProps) ------------ *)
P17 == INSTANCE StoreProps WITH obsA <- last.mem, obsB <- last.etcd,
         tgt <- 0, committedAt <- EmptyFn, before <- EmptyFn, after <- EmptyFn
C17_SameObs == last.kind = "store" => P17!C17_SameObs

P16(i) == INSTANCE StoreProps WITH obsA <- 0, obsB <- 0,
         tgt <- last.tgt, committedAt <- committed[i], before <- last[i].before, after <- last[i].after
C16_ReadBack == last.kind = "coord" => \A i \in Impls : P16(i)!C16_ReadBack
C16_NeverCommitted == last.kind = "coord" => \A i \in Impls : P16(i)!C16_NeverCommitted
C16_Isolation == last.kind = "coord" => \A i \in Impls : P16(i)!C16_Isolation

P40(i) == INSTANCE StoreProps WITH obsA <- 0, obsB <- 0,
         tgt <- 0, committedAt <- EmptyFn, before <- last[i].before, after <- last[i].after
C40_Unchanged == last.kind = "tool" => \A i \in Impls : P40(i)!C40_Unchanged

\* conformance-level facts
SameState == DevKeyAliasing \/ DevDeleteKeepsOffsets \/ DevCloneDropsTimeouts \/ DevEscapeFastPath \/ DevEtcdDeletePrefix \/ DevStaleNextOffset
             \/ st["mem"] = st["etcd"]

View == <<st, committed, last, Len(hist)>>
EmitSched == PrintT(<<"SCHED", ToJson(hist)>>)
====
