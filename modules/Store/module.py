"""Store.tla — C17 (pkg/metadata: InMemoryStore vs EtcdStore), C16 (pkg/broker: OffsetCommit/OffsetFetch over both
stores), C40 (internal/mcpserver: ops tools never write)."""
import copy, json, os, re
from lib import tlc as T, layers, gorun
from lib.common import Broken, Violation, verdict, save_replay

TECH = "TLA+ model (Store.tla) + TLC exhaustive check + replay of TLC behaviours into the real code + TLC trace validation (observation and conformance layers)"
PROPS = {
    "C17": {
        "text": "Store.tla is a sequential reference of the metadata.Store interface that carries one store state per implementation and applies every operation to both; TLC checks exhaustively (small name/offset domains, names containing ':' and '/') that the two observation columns are equal, and that each named wrong design (string-concatenated consumer key, DeleteTopic keeping consumer offsets, clone dropping timeouts, list operations skipping '/' names, CreatePartitions validation order) makes them differ. TLC-generated operation sequences (simulation + those counterexamples) are executed on the real InMemoryStore and the real EtcdStore (embedded etcd); TLC evaluates C17_SameObs on the two recorded columns (layer O) and checks both columns step by step against the model (layer C).",
        "note": "Trusted: TLC, the harness' projection of results (error class, values, full group projection). Operation list = the one in the statement (topics create/delete, partition growth, offsets, consumer offsets, groups) plus the read operations of the interface; topic configuration calls are outside the statement's list and are not compared. Sequential single-store histories; the EtcdStore's asynchronous snapshot watcher is stopped (its races are C21), the reload path is exercised by an explicit Refresh step. Two recorded findings (EtcdStore list operations omit names containing '/').",
        "technique": TECH,
    },
    "C16": {
        "text": "Store.tla models OffsetCommit (member/generation check, then store write) and OffsetFetch of the GroupCoordinator over both store implementations with a ghost map of the last successful commit per (group, topic, partition); TLC checks read-back, the -1 answer for never-committed partitions and isolation exhaustively over names containing ':' and '/', and that forwarding the store's 0, the concatenated key and an unchecked commit each violate a clause. TLC-generated commit/fetch sequences are replayed through the real GroupCoordinator over InMemoryStore and EtcdStore; around every commit the harness asks OffsetFetch for every partition of the domain, and TLC evaluates the three C16 clauses on those answers (layer O) and conformance with the model (layer C).",
        "note": "Trusted: TLC, the harness (real JoinGroup to obtain member id and generation; 'failed commit' = unknown member id). 'Last successful commit' is decided from the OffsetCommit response code observed on the real code. Histories are sequential (the commit check/write window under concurrency belongs to C13).",
        "technique": TECH,
    },
    "C40": {
        "text": "Store.tla adds Tool(name, argument shape) actions that must be stuttering steps of the store; TLC checks this exhaustively for every tool and shape over populated stores and shows that a tool which initialises missing offsets violates it. The harness populates an InMemoryStore and an EtcdStore with TLC-generated write sequences, calls every tool registered by the real MCP server (through NewServer and an in-memory MCP client session) with every TLC-enumerated argument shape, and records everything readable from the store (topics, next offsets, consumer offsets, groups, list results, configs; for etcd also every key with its mod revision) before and after each call; TLC evaluates before = after (layer O) and conformance of the projections with the model (layer C).",
        "note": "Trusted: TLC, the read-only projection through the public Store interface plus the raw etcd key dump. Tools registered by the server but unknown to the model are still called with every shape and checked by layer O (layer C then reports drift).",
        "technique": TECH,
    },
}

MODE = {"C17": "store", "C16": "coord", "C40": "tools"}
import importlib.util as _ilu
_spec = _ilu.spec_from_file_location("verif_store_mkcfgs", os.path.join(os.path.dirname(os.path.abspath(__file__)), "mkcfgs.py"))
K = _ilu.module_from_spec(_spec); _spec.loader.exec_module(K)   # name domains, tool names and the cfg generator (single source)
DOMAINS, TOOLS, SHAPES = K.DOMAINS, K.TOOLS, K.SHAPES
TOOL_INIT = [["u", 2], ["t:u", 1], ["t/u", 3]]
CFG = {  # mode -> harness/model parameters
    "store": dict(parts=3, pkg="./pkg/metadata/", target="pkg/metadata/zz_verif_store_test.go", src="store_verif_test.go", test="TestVerifStoreReplay",
                  mc="MC_Store_%s.cfg", sim="Sim_Store.cfg", depth=14, num=(100, 600),
                  devs={"KeyAliasing": "C17_SameObs", "DeleteKeepsOffsets": "C17_SameObs", "CloneDropsTimeouts": "C17_SameObs",
                        "EtcdListOmitsSlash": "C17_SameObs", "EtcdPartsOrder": "C17_SameObs",
                        "StoreEscapeFastPath": "C17_SameObs", "EtcdDeletePrefix": "C17_SameObs",
                        "StaleNextOffset": "C17_SameObs", "GrowSameCountOk": "C17_SameObs"}),
    "coord": dict(parts=2, pkg="./pkg/broker/", target="pkg/broker/zz_verif_store_coord_test.go", src="coord_verif_test.go", test="TestVerifStoreCoordReplay",
                  mc="MC_Store_coord_%s.cfg", sim="Sim_Store_coord.cfg", depth=10, num=(50, 250),
                  devs={"FetchDefaultZero": "C16_NeverCommitted", "CoordKeyAliasing": "C16_Isolation", "CommitUnchecked": "C16_ReadBack",
                        "CoordEscapeFastPath": "C16_Isolation"}),
    "tools": dict(parts=2, pkg="./internal/mcpserver/", target="internal/mcpserver/zz_verif_store_tools_test.go", src="tools_verif_test.go", test="TestVerifStoreToolsReplay",
                  mc="MC_Store_tools_%s.cfg", sim="Sim_Store_tools.cfg", depth=12, num=(25, 100),
                  devs={"ToolWrites": "C40_Unchanged", "ToolReaps": "C40_Unchanged", "ToolPersistsDefault": "C40_Unchanged", "ToolGroupDefaults": "C40_Unchanged"}),
}
# The tree shape the conformance layer validates against: the repaired design (the fix patches of this module are applied in
# /repo) plus the two recorded etcd list findings, which are part of the tree as it is.
SHAPE_FLAGS = {"repaired": ["DevEtcdListOmitsSlash"]}


def trace_cfg(mode, shape):
    return "\n".join(K.trace_lines(mode, SHAPE_FLAGS[shape])) + "\n"


def harness(ctx, mode, scheds, tag):
    c = CFG[mode]
    sp = os.path.join(ctx.scratch, "sched-%s.ndjson" % tag)
    tp = os.path.join(ctx.scratch, "trace-%s.ndjson" % tag)
    gorun.write_ndjson(sp, scheds)
    rc, out = gorun.go_test(ctx, ".", c["pkg"], {c["target"]: os.path.join(DIR, "harness", c["src"])}, "^%s$" % c["test"],
                            env={"VERIF_SCHEDULES": sp, "VERIF_TRACE_OUT": tp}, timeout=1500)
    if rc != 0 or "replayed %d schedules" % len(scheds) not in out:
        raise Broken("%s harness failed:\n%s" % (mode, out[-3000:]))
    return gorun.read_ndjson(tp)


def split(rows):
    runs, cur = [], None
    for r in rows:
        if r["ev"] == "Reset":
            cur = []
            runs.append(cur)
        cur.append(r)
    return runs


def mk_sched(mode, steps):
    c = CFG[mode]
    dm = DOMAINS[mode]
    s = {"topics": dm["topics"], "groups": dm["groups"], "parts": dm["parts"], "steps": list(steps)}
    if mode == "store":
        # every sequence ends with Refresh, Metadata, the two list operations and the full read-back (all are Store.tla steps)
        # (the snapshot reload first, so the closing reads also check what the etcd store persisted)
        s["steps"] += [{"a": "Refresh"}, {"a": "Metadata"}, {"a": "ListOffsets"}, {"a": "ListGroups"}, {"a": "Final"}]
    if mode == "tools":
        s["init"], s["tools"] = TOOL_INIT, TOOLS
    return s


# ---------------------------------------------------------------- violation signatures (classification only; verdicts come from layer O)
def _slash(x, n):
    return any("/" in str(v) for v in x[:n])


def sig17(row):
    op, m, e = row["ev"], row["mem"], row["etcd"]
    if op in ("ListGroups", "ListOffsets") and m["err"] == e["err"] == "ok":
        n = 1 if op == "ListGroups" else 2
        missing = [x for x in m["val"] if x not in e["val"]]
        extra = [x for x in e["val"] if x not in m["val"]]
        if missing and not extra and all(_slash(x, n) for x in missing) and not any(_slash(x, n) for x in e["val"]):
            return "C17_SameObs@%s.etcd_omits_names_with_slash" % op
        missing_m = [x for x in e["val"] if x not in m["val"]]
        if missing_m and not missing and all(any(":" in str(v) for v in x[:n]) for x in missing_m):
            return "C17_SameObs@%s.mem_omits_names_with_colon" % op
    if op == "Final" and m["err"] == e["err"]:
        for k in sorted(m["val"]):
            if m["val"][k] != e["val"].get(k):
                return "C17_SameObs@Final.%s" % k
    field = "err" if m["err"] != e["err"] else "val" if m["val"] != e["val"] else "raw"
    return "C17_SameObs@%s.%s" % (op, field)


def sig16(row, pred, col, committed):
    ev = "Initial" if row["ev"] == "Reset" else row["ev"]
    q = ""
    if pred == "C16_NeverCommitted":
        after = row[col]["after"]
        idx = [row["ti"] - 1] if row["ev"] == "CoordFetch" else range(len(after))
        vals = []
        for k, i in enumerate(idx):
            if not committed.get(col, {}).get(i + 1):
                v = after[k] if row["ev"] == "CoordFetch" else after[i]
                if v["off"] != -1:
                    vals.append((v["off"], v["meta"]))
        q = ".returns_0" if vals and all(v == (0, "") for v in vals) else ".returns_foreign_value"
    return "%s@%s.%s%s" % (pred, ev, col, q)


# ---------------------------------------------------------------- the check
def check(ctx, prop):
    mode, c, quick = MODE[prop], CFG[MODE[prop]], ctx.quick()
    d = T.stage(ctx, DIR, "mc")
    mc = T.model_check(ctx, d, "MC_Store.tla", c["mc"] % ctx.tier, coverage=not quick, timeout=2400, workers=8)
    ctx.log("model %s: %d distinct states, depth %d" % (c["mc"] % ctx.tier, mc.distinct, mc.depth))
    scheds, labels = [], []
    for dev, inv in sorted(c["devs"].items()):
        h, r = T.counterexample_hist(ctx, d, "MC_Store.tla", "Dev_Store_%s.cfg" % dev, timeout=1200, workers=1)  # one worker: deterministic shortest counterexample
        if h is None or inv not in r.violated:
            raise Broken("deviation %s no longer violates %s in the model (vacuous deviation): %s" % (dev, inv, r.violated))
        scheds.append(mk_sched(mode, h)); labels.append("dev:" + dev)
    ndev = len(scheds)
    if mode == "tools":  # every (tool, shape) pair of the model's constants, enumerated by TLC (one-step behaviours), after a populated prefix
        cov_hs, _ = T.simulate_hists(ctx, d, "MC_Store.tla", "Sim_Store_tools.cfg", num=40, depth=10, seed=ctx.seed + 1000)
        writes = [x for h in cov_hs for x in h if x["a"] != "Tool"]
        prefix = [x for kind in ("UpdateOffsets", "UpdateConfig", "Commit") for x in [y for y in writes if y["a"] == kind][:3]]
        gseen = {}
        for x in writes:  # one stored group per variant (variant 3 = dead and memberless), on different groups
            if x["a"] == "PutGroup" and x["v"] not in gseen.values() and x["g"] not in gseen:
                gseen[x["g"]] = x["v"]
                prefix.append(x)
        if sorted(gseen.values()) != [1, 2, 3] or not any(x["a"] == "Commit" for x in prefix):
            raise Broken("cover schedule: the simulated behaviours do not store every group variant / a commit (got %s)" % gseen)
        r = T.tlc(ctx, d, "MC_Store.tla", "Cover_Store_tools.cfg", workers=1, timeout=600, deadlock_off=True)
        pairs = sorted({(h[0]["name"], h[0]["shape"]) for h in r.prints.get("SCHED", []) if len(h) == 1 and h[0]["a"] == "Tool"})
        if len(pairs) != len(TOOLS) * len(SHAPES):
            raise Broken("TLC enumerated %d (tool, shape) pairs, expected %d" % (len(pairs), len(TOOLS) * len(SHAPES)))
        scheds.append(mk_sched(mode, prefix + [{"a": "Tool", "name": n, "shape": s} for n, s in pairs])); labels.append("cover")
    n = c["num"][0 if quick else 1]
    hs, _ = T.simulate_hists(ctx, d, "MC_Store.tla", c["sim"], num=n, depth=c["depth"], seed=ctx.seed, timeout=1500)
    for h in hs:
        scheds.append(mk_sched(mode, h)); labels.append("sim")
    ctx.log("%d schedules (%d deviation counterexamples, %d simulated)" % (len(scheds), ndev, len(hs)))
    rows = harness(ctx, mode, scheds, "main")
    runs = split(rows)
    if len(runs) != len(scheds):
        raise Broken("harness recorded %d runs for %d schedules" % (len(runs), len(scheds)))
    ops = {}
    for r in rows:
        k = r["ev"] + (".failed" if r["ev"] == "CoordCommit" and not r["good"] else "")
        ops[k] = ops.get(k, 0) + 1
    missing = [k for k in REQUIRED[mode] if not ops.get(k)]
    if missing:
        raise Broken("vacuous run: operations never executed on the real code: %s" % missing)
    consumed, viol, _ = layers.observe(ctx, DIR, "Obs_Store.tla", "Obs_Store.cfg", rows, timeout=1800)
    violations = classify(prop, rows, runs, scheds, labels, viol)
    # layer C: first against the repaired design, then against the pinned-tree shape (named deviations switched on)
    conf = {"shape": None, "reached": 0, "total": len(rows), "first_rejection": None}
    for shape in sorted(SHAPE_FLAGS):
        try:
            reached, total, _ = layers.conform(ctx, DIR, "Trace_Store.tla", "Trace_Store.cfg", rows, name="conf-" + shape, cfg_text=trace_cfg(mode, shape), timeout=1800)
        except Broken as ex:
            # TLC could not evaluate a recorded value against the model (a shape the model does not know): that is a
            # rejection of the trace, never a reason to lose layer O's verdict
            ctx.log("layer C could not evaluate the trace: %s" % str(ex)[-600:].replace("\n", " | "))
            reached, total = 0, len(rows)
            conf["evaluation_error"] = str(ex)[-400:]
        if reached == total:
            conf.update(shape=shape, reached=reached)
            break
        if conf["first_rejection"] is None:
            conf.update(reached=reached, first_rejection={"shape": shape, "line": _brief(rows[reached]) if reached < len(rows) else None})
    st = self_test(ctx, mode, runs, c)
    drift = conf["shape"] is None
    level = "model_checking"
    if drift and not violations:
        level = "exploration"
        ctx.log("DRIFT: conformance layer rejected the trace although the property held: " + json.dumps(conf["first_rejection"])[:600])
    cov = {
        "states": mc.distinct, "transitions": mc.generated, "depth": mc.depth, "exhaustive": True, "model_config": c["mc"] % ctx.tier,
        "traces_validated_against_impl": len(runs), "trace_events": len(rows), "evaluations": len(scheds),
        "distinct_nontrivial": nontrivial(mode, scheds), "rule": RULE[mode],
        "operations_observed": ops, "deviation_schedules": sorted(c["devs"]), "conformance": ("drift" if drift else "accepted"), "conformance_detail": conf,
        "tree_shape_accepted_by_layer_C": conf["shape"], "binding_self_test": st,
        "samples": [scheds[0], scheds[min(len(scheds) - 1, ndev + 1)], [_brief(r) for r in runs[0][:4]]],
    }
    if mode == "tools":
        called = sorted({(r["name"], r["shape"]) for r in rows if r["ev"] == "Tool"})
        cov["tool_shape_pairs_called"] = len(called)
        cov["tools_registered"] = rows[0].get("registered")
        unknown = sorted(set(rows[0].get("registered") or []) - set(TOOLS))
        if unknown:
            cov["tools_unknown_to_model"] = unknown
    if not quick:
        cov["action_coverage"] = {k: v[1] for k, v in mc.action_coverage().items()}
    return verdict(ctx, violations, level, cov, ASSUME[mode] + [INFRA])


REQUIRED = {  # every operation of the mode must have been executed on the real code at least once (else exit 2)
    "store": ["CreateTopic", "DeleteTopic", "CreatePartitions", "UpdateOffsets", "NextOffset", "Metadata", "Refresh", "Commit", "FetchOffset",
              "ListOffsets", "PutGroup", "FetchGroup", "ListGroups", "DeleteGroup", "Final"],
    "coord": ["CoordCommit", "CoordCommit.failed", "CoordFetch"],
    "tools": ["UpdateOffsets", "UpdateConfig", "Commit", "PutGroup", "Tool"],
}
RULE = {
    "store": "schedules = TLC counterexamples of the named deviations + TLC -simulate behaviours (seeded), each closed with Refresh, Metadata, ListOffsets, ListGroups, Final; non-trivial = writes to >=2 of {topics, produce offsets, consumer offsets, groups} and uses a name containing ':' or '/'",
    "coord": "schedules = TLC counterexamples + -simulate behaviours; non-trivial = >=2 successful commits on different (group, topic, partition) and >=1 fetch",
    "tools": "schedules = TLC counterexample + the TLC-enumerated cover of all (tool, shape) pairs + -simulate behaviours; non-trivial = >=1 write before a tool call and >=1 tool call",
}
INFRA = "an etcd timeout / lost connection (context deadline, UNKNOWN_SERVER_ERROR from a failed store call) aborts the run with exit 2; it is never recorded as an observation"
ASSUME = {
    "store": ["sequential histories on one store instance of each kind; the EtcdStore snapshot watcher goroutine is stopped after construction (explicit Refresh steps reload the snapshot instead)",
              "error results are compared by class (ok / exists / invalid / unknown / other); group values by every protobuf field",
              "one broker in the cluster metadata (replication factor 2 is the invalid case)"],
    "coord": ["member id and generation come from a real JoinGroup on each coordinator; session/rebalance timeouts are set to one hour so the coordinator's cleanup loop cannot expire the member during a schedule",
              "a failed commit is produced with an unknown member id (UNKNOWN_MEMBER_ID)"],
    "tools": ["store state is read through the public Store interface over the name domain plus, for etcd, a dump of every key with its mod revision; TopicConfig.CreatedAt is excluded because default configs are stamped with the current time on every read",
              "topics are part of the initial snapshot so the EtcdStore watcher stays idle during a schedule"],
}


def _brief(r):
    s = json.dumps(r, sort_keys=True)
    return json.loads(s) if len(s) < 1500 else {k: r[k] for k in r if k not in ("mem", "etcd")}


def nontrivial(mode, scheds):
    n = 0
    for s in scheds:
        st = s["steps"]
        special = any((":" in str(x.get(k, "")) or "/" in str(x.get(k, ""))) for x in st for k in ("t", "g"))
        if mode == "store":
            kinds = {{"CreateTopic": 1, "DeleteTopic": 1, "CreatePartitions": 1, "UpdateOffsets": 2, "Commit": 3, "PutGroup": 4, "DeleteGroup": 4}.get(x["a"]) for x in st} - {None}
            n += len(kinds) >= 2 and special
        elif mode == "coord":
            good = {(x["g"], x["t"], x["p"]) for x in st if x["a"] == "CoordCommit" and x["good"]}
            n += len(good) >= 2 and any(x["a"] == "CoordFetch" for x in st)
        else:
            first_tool = next((i for i, x in enumerate(st) if x["a"] == "Tool"), None)
            n += first_tool is not None and first_tool > 0
    return n


def classify(prop, rows, runs, scheds, labels, viol):
    violations, first = [], set()
    committed, sched_of = {}, []
    idx = -1
    for r in rows:
        if r["ev"] == "Reset":
            idx += 1
        sched_of.append(idx)
    # replay of "last successful commit" for the signature qualifier only (layer O holds the authoritative copy)
    cm_at = []
    cur = {}
    for r in rows:
        if r["ev"] == "Reset":
            cur = {"mem": {}, "etcd": {}}
        elif r["ev"] == "CoordCommit":
            nxt = {}
            for col in ("mem", "etcd"):
                nxt[col] = dict(cur[col])
                if r[col]["code"] == 0:
                    nxt[col][r["ti"]] = True
            cur = nxt
        cm_at.append(cur)
    for line, name in sorted(viol):
        pred, col = name.split(":")
        if not pred.startswith(prop):
            raise Broken("observation layer reported %s while checking %s" % (pred, prop))
        row, si = rows[line - 1], sched_of[line - 1]
        if prop == "C17":
            sig = sig17(row)
        elif prop == "C16":
            sig = sig16(row, pred, col, cm_at[line - 1])
        else:
            sig = "C40_Unchanged@%s.%s" % (row.get("name"), col)
        if (si, sig) in first:
            continue  # only the first line of a schedule at which this kind of failure shows
        first.add((si, sig))
        path = save_replay(prop, "sched-%s.json" % re.sub(r"\W", "_", sig), {"schedule": scheds[si], "label": labels[si], "line": _brief(row)})
        what = "%s false on the real code at %s [schedule %s #%d, replay %s]" % (pred, describe(row, col), labels[si], si, path)
        violations.append(Violation(prop, sig, what, {"schedule": scheds[si], "event": _brief(row)}))
    return violations


def describe(row, col):
    ev = row["ev"]
    if ev in ("CoordCommit", "CoordFetch"):
        return "%s(%s,%s,%s) over the %s store" % (ev, row["g"], row["t"], row["p"], col)
    if ev == "Tool":
        return "tool %s(%s) over the %s store" % (row["name"], row["shape"], col)
    if ev == "Reset":
        return "the initial OffsetFetch of every partition over the %s store" % col
    args = {k: row[k] for k in ("g", "t", "p", "n", "o", "v") if row.get(k) not in (None, "", 0)}
    if ev == "Final":
        return "the closing full read: mem and etcd differ"
    return "%s(%s): mem=%s etcd=%s" % (ev, args, json.dumps(row["mem"])[:160], json.dumps(row["etcd"])[:160])


def self_test(ctx, mode, runs, c):
    """Corrupt recorded fields: layer O must flag the property, layer C must reject the step."""
    if mode == "store":
        run = next((r for r in runs if r[-1]["ev"] == "Final"), None)
        if run is None:
            raise Broken("binding self-test: no schedule ends with Final")
        bad = copy.deepcopy(run); bad[-1]["etcd"]["val"]["topics"].append(["zz", 1]); want = "C17_SameObs"
        badc = copy.deepcopy(run)
        for col in ("mem", "etcd"):
            badc[-1][col]["val"]["topics"].append(["zz", 1])
    elif mode == "coord":
        run = next((r for r in runs if any(x["ev"] == "CoordCommit" and x["mem"]["code"] == 0 and x["etcd"]["code"] == 0 for x in r)), None)
        if run is None:
            raise Broken("binding self-test: no schedule with a successful commit")
        i = max(k for k, x in enumerate(run) if x["ev"] == "CoordCommit" and x["mem"]["code"] == 0 and x["etcd"]["code"] == 0)
        bad = copy.deepcopy(run[:i + 1]); bad[i]["mem"]["after"][bad[i]["ti"] - 1]["off"] += 5; want = "C16_ReadBack"
        badc = bad
    else:
        run = next((r for r in runs if any(x["ev"] == "Tool" for x in r)), None)
        if run is None:
            raise Broken("binding self-test: no schedule with a tool call")
        i = max(k for k, x in enumerate(run) if x["ev"] == "Tool")
        bad = copy.deepcopy(run[:i + 1]); bad[i]["etcd"]["after"]["next"].append(["zz", 0, "ok", 9]); want = "C40_Unchanged"
        badc = bad
    _, viol, _ = layers.observe(ctx, DIR, "Obs_Store.tla", "Obs_Store.cfg", bad, name="selfO")
    if not any(v[1].startswith(want) for v in viol):
        raise Broken("binding self-test: observation layer did not flag a corrupted observation (%s)" % want)
    rejected = False
    for shape in sorted(SHAPE_FLAGS):
        try:
            reached, total, _ = layers.conform(ctx, DIR, "Trace_Store.tla", "Trace_Store.cfg", badc, name="selfC-" + shape, cfg_text=trace_cfg(mode, shape))
        except Broken:
            reached, total = 0, 1  # an evaluation error on the corrupted trace is a rejection too
        rejected = reached < total
        if not rejected:
            break
    if not rejected:
        raise Broken("binding self-test: conformance layer accepted a corrupted observation")
    return {"observation_layer_flags_corrupted_field": True, "conformance_layer_rejects_corrupted_state": True}


def replay(ctx, prop, path):
    obj = json.load(open(path))
    sched = obj.get("schedule") or obj.get("detail", {}).get("schedule")
    mode = MODE[prop]
    rows = harness(ctx, mode, [sched], "replay")
    _, viol, _ = layers.observe(ctx, DIR, "Obs_Store.tla", "Obs_Store.cfg", rows)
    for r in rows:
        print(json.dumps(_brief(r), sort_keys=True))
    for line, inv in sorted(viol):
        print("VIOLATION property=%s replay=%s" % (prop, path))
        print("  %s false at line %d (%s)" % (inv, line, rows[line - 1]["ev"]))
    return 1 if viol else 0
