CONSTANTS
 Topics = {"u","t:u","t%3Au"}
 Groups = {"g","g:t","g/x","g%3At"}
 ColonNames = {"t:u","g:t"}
 SlashNames = {"g/x"}
 PercentNames = {"t%3Au","g%3At"}
 DeadVariants = {3}
 MaxParts = 2
 Offs = {0,1,2}
 Metas = {"","m"}
 Variants = {1,2,3}
 TimeoutVariants = {1}
 CfgVariants = {1}
 ToolNames = {"fetch_offsets"}
 ToolShapes = {"known"}
 InitTopics <- NoTopics
 MaxOps = 10
 DevKeyAliasing = FALSE
 DevDeleteKeepsOffsets = FALSE
 DevCloneDropsTimeouts = FALSE
 DevEtcdListOmitsSlash = FALSE
 DevEtcdPartsOrder = FALSE
 DevFetchDefaultZero = FALSE
 DevCommitUnchecked = FALSE
 DevToolWrites = FALSE
 DevToolReaps = FALSE
 DevEscapeFastPath = FALSE
 DevEtcdDeletePrefix = FALSE
 DevStaleNextOffset = FALSE
 DevGrowSameCountOk = FALSE
 DevToolPersistsDefault = FALSE
 DevToolGroupDefaults = FALSE
INIT Init
NEXT NextCoord
INVARIANTS EmitSched C16_ReadBack C16_NeverCommitted C16_Isolation
CHECK_DEADLOCK FALSE
