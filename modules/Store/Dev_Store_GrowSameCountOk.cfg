CONSTANTS
 Topics = {"u"}
 Groups = {"g"}
 ColonNames = {}
 SlashNames = {}
 PercentNames = {}
 DeadVariants = {3}
 MaxParts = 2
 Offs = {1}
 Metas = {"m"}
 Variants = {1}
 TimeoutVariants = {1}
 CfgVariants = {1}
 ToolNames = {"fetch_offsets"}
 ToolShapes = {"known"}
 InitTopics <- NoTopics
 MaxOps = 2
 DevKeyAliasing = FALSE
 DevDeleteKeepsOffsets = FALSE
 DevCloneDropsTimeouts = FALSE
 DevEtcdListOmitsSlash = FALSE
 DevEtcdPartsOrder = FALSE
 DevFetchDefaultZero = FALSE
 DevCommitUnchecked = FALSE
 DevToolWrites = FALSE
 DevToolReaps = FALSE
 DevEscapeFastPath = FALSE
 DevEtcdDeletePrefix = FALSE
 DevStaleNextOffset = FALSE
 DevGrowSameCountOk = TRUE
 DevToolPersistsDefault = FALSE
 DevToolGroupDefaults = FALSE
INIT Init
NEXT NextStore
INVARIANTS C17_SameObs
VIEW View
CHECK_DEADLOCK FALSE
