CONSTANTS
 Topics = {"u","o","o-d","t:u"}
 Groups = {"g","g:t","g/x","g%3At"}
 ColonNames = {"t:u","g:t"}
 SlashNames = {"g/x"}
 PercentNames = {"g%3At"}
 DeadVariants = {3}
 MaxParts = 3
 Offs = {0,1,2}
 Metas = {"","m"}
 Variants = {1,2,3}
 TimeoutVariants = {1}
 CfgVariants = {1,2}
 ToolNames = {"cluster_status","cluster_metrics","list_topics","describe_topics","list_groups","describe_group","fetch_offsets","describe_configs"}
 ToolShapes = {"none","known","unknown","special","empty","many"}
 InitTopics <- NoTopics
 MaxOps = 1000000
 DevKeyAliasing = FALSE
 DevDeleteKeepsOffsets = FALSE
 DevCloneDropsTimeouts = FALSE
 DevEtcdListOmitsSlash = TRUE
 DevEtcdPartsOrder = FALSE
 DevFetchDefaultZero = FALSE
 DevCommitUnchecked = FALSE
 DevToolWrites = FALSE
 DevToolReaps = FALSE
 DevEscapeFastPath = FALSE
 DevEtcdDeletePrefix = FALSE
 DevStaleNextOffset = FALSE
 DevGrowSameCountOk = FALSE
 DevToolPersistsDefault = FALSE
 DevToolGroupDefaults = FALSE
INIT TInit
NEXT TNext
POSTCONDITION Reached
CHECK_DEADLOCK FALSE
