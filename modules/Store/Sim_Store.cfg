CONSTANTS
 Topics = {"u","o","o-d","t:u"}
 Groups = {"g","g:t","g/x","g%3At"}
 ColonNames = {"t:u","g:t"}
 SlashNames = {"g/x"}
 PercentNames = {"g%3At"}
 DeadVariants = {3}
 MaxParts = 3
 Offs = {0,1,2}
 Metas = {"","m"}
 Variants = {1,2,3}
 TimeoutVariants = {1}
 CfgVariants = {1}
 ToolNames = {"fetch_offsets"}
 ToolShapes = {"known"}
 InitTopics <- NoTopics
 MaxOps = 14
 DevKeyAliasing = FALSE
 DevDeleteKeepsOffsets = FALSE
 DevCloneDropsTimeouts = FALSE
 DevEtcdListOmitsSlash = FALSE
 DevEtcdPartsOrder = FALSE
 DevFetchDefaultZero = FALSE
 DevCommitUnchecked = FALSE
 DevToolWrites = FALSE
 DevToolReaps = FALSE
 DevEscapeFastPath = FALSE
 DevEtcdDeletePrefix = FALSE
 DevStaleNextOffset = FALSE
 DevGrowSameCountOk = FALSE
 DevToolPersistsDefault = FALSE
 DevToolGroupDefaults = FALSE
INIT Init
NEXT NextStore
INVARIANTS EmitSched C17_SameObs SameState
CHECK_DEADLOCK FALSE
