CONSTANTS
 Topics = {"u","t:u","t/u"}
 Groups = {"g","g:t","g/x"}
 ColonNames = {"t:u","g:t"}
 SlashNames = {"t/u","g/x"}
 MaxParts = 3
 Offs = {0,1,2}
 Metas = {"","m"}
 Variants = {1,2}
 TimeoutVariants = {1}
 CfgVariants = {1}
 ToolNames = {"fetch_offsets"}
 ToolShapes = {"known"}
 InitTopics <- NoTopics
 MaxOps = 14
 DevKeyAliasing = FALSE
 DevDeleteKeepsOffsets = FALSE
 DevCloneDropsTimeouts = FALSE
 DevEtcdListOmitsSlash = FALSE
 DevEtcdPartsOrder = FALSE
 DevFetchDefaultZero = FALSE
 DevCommitUnchecked = FALSE
 DevToolWrites = FALSE
INIT Init
NEXT NextStore
INVARIANTS EmitSched C17_SameObs SameState
CHECK_DEADLOCK FALSE
