CONSTANTS
 Topics = {"o","o-d"}
 Groups = {"g"}
 ColonNames = {}
 SlashNames = {}
 PercentNames = {}
 DeadVariants = {3}
 MaxParts = 1
 Offs = {1}
 Metas = {"m"}
 Variants = {1}
 TimeoutVariants = {1}
 CfgVariants = {1}
 ToolNames = {"fetch_offsets"}
 ToolShapes = {"known"}
 InitTopics <- NoTopics
 MaxOps = 5
 DevKeyAliasing = FALSE
 DevDeleteKeepsOffsets = FALSE
 DevCloneDropsTimeouts = FALSE
 DevEtcdListOmitsSlash = FALSE
 DevEtcdPartsOrder = FALSE
 DevFetchDefaultZero = FALSE
 DevCommitUnchecked = FALSE
 DevToolWrites = FALSE
 DevToolReaps = FALSE
 DevEscapeFastPath = FALSE
 DevEtcdDeletePrefix = TRUE
 DevStaleNextOffset = FALSE
 DevGrowSameCountOk = FALSE
 DevToolPersistsDefault = FALSE
 DevToolGroupDefaults = FALSE
INIT Init
NEXT NextTopicOps
INVARIANTS C17_SameObs
VIEW View
CHECK_DEADLOCK FALSE
