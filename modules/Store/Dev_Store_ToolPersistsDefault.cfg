CONSTANTS
 Topics = {"u","t:u"}
 Groups = {"g","g:t"}
 ColonNames = {"t:u","g:t"}
 SlashNames = {}
 PercentNames = {}
 DeadVariants = {3}
 MaxParts = 2
 Offs = {1}
 Metas = {"m"}
 Variants = {1}
 TimeoutVariants = {1}
 CfgVariants = {1}
 ToolNames = {"cluster_status","cluster_metrics","list_topics","describe_topics","list_groups","describe_group","fetch_offsets","describe_configs"}
 ToolShapes = {"none","known","unknown","special","empty","many"}
 InitTopics <- ToolTopics2
 MaxOps = 2
 DevKeyAliasing = FALSE
 DevDeleteKeepsOffsets = FALSE
 DevCloneDropsTimeouts = FALSE
 DevEtcdListOmitsSlash = FALSE
 DevEtcdPartsOrder = FALSE
 DevFetchDefaultZero = FALSE
 DevCommitUnchecked = FALSE
 DevToolWrites = FALSE
 DevToolReaps = FALSE
 DevEscapeFastPath = FALSE
 DevEtcdDeletePrefix = FALSE
 DevStaleNextOffset = FALSE
 DevGrowSameCountOk = FALSE
 DevToolPersistsDefault = TRUE
 DevToolGroupDefaults = FALSE
INIT Init
NEXT NextTools
INVARIANTS C40_Unchanged
VIEW View
CHECK_DEADLOCK FALSE
