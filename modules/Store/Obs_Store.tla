---- MODULE Obs_Store ----
(* Observation layer for C16 / C17 / C40: no model actions.  State is accumulated from the lines recorded   *)
(* on the real code only (for C16: the last SUCCESSFUL commit per partition, i.e. OffsetCommit answered 0);  *)
(* the predicates are the StoreProps definitions instantiated with observed values.  Violations are          *)
(* accumulated and printed once.  A violation is named "<predicate>:<implementation column>".               *)
EXTENDS Integers, Sequences, FiniteSets, TLC, Json
TraceLog == ndJsonDeserialize("trace.ndjson")
VARIABLES l, kind, cm, viol      \* cm: [column -> sequence over the triple index -> last successful commit]
ovars == <<l, kind, cm, viol>>
Cols == {"mem", "etcd"}
NoCommit == [set |-> FALSE, off |-> 0, meta |-> ""]
KindOf(e) == IF "triples" \in DOMAIN e THEN "coord" ELSE IF "init" \in DOMAIN e THEN "tools" ELSE "store"

P17(e) == INSTANCE StoreProps WITH obsA <- e.mem, obsB <- e.etcd, tgt <- 0, committedAt <- <<>>, before <- <<>>, after <- <<>>
\* a plain fetch observes the addressed partition only; a commit (and Reset) observes the whole domain
Dom(e, s) == IF e.ev = "CoordFetch" THEN [x \in {e.ti} |-> s[1]] ELSE s
P16(e, c, cmt) == INSTANCE StoreProps WITH obsA <- 0, obsB <- 0, tgt <- e.ti, committedAt <- cmt,
                    before <- Dom(e, e[c].before), after <- Dom(e, e[c].after)
P40(e, c) == INSTANCE StoreProps WITH obsA <- 0, obsB <- 0, tgt <- 0, committedAt <- <<>>, before <- e[c].before, after <- e[c].after

Upd(c, e, cur) == IF e.ev = "Reset" THEN (IF KindOf(e) = "coord" THEN [i \in 1..Len(e.triples) |-> NoCommit] ELSE <<>>)
                  ELSE IF e.ev = "CoordCommit" /\ e[c].code = 0 THEN [cur EXCEPT ![e.ti] = [set |-> TRUE, off |-> e.o, meta |-> e.m]]
                  ELSE cur
Flag(b, n) == IF b THEN {} ELSE {n}
Check(e, k, ncm) ==
  IF e.ev = "Reset"
  THEN IF k = "coord" THEN UNION {Flag(P16(e, c, ncm[c])!C16_NeverCommitted, "C16_NeverCommitted:" \o c) : c \in Cols} ELSE {}
  ELSE IF k = "store" THEN Flag(P17(e)!C17_SameObs, "C17_SameObs:both")
  ELSE IF k = "coord"
  THEN UNION {Flag(P16(e, c, ncm[c])!C16_ReadBack, "C16_ReadBack:" \o c) \cup
              Flag(P16(e, c, ncm[c])!C16_NeverCommitted, "C16_NeverCommitted:" \o c) \cup
              Flag(P16(e, c, ncm[c])!C16_Isolation, "C16_Isolation:" \o c) : c \in Cols}
  ELSE IF e.ev = "Tool" THEN UNION {Flag(P40(e, c)!C40_Unchanged, "C40_Unchanged:" \o c) : c \in Cols}
  ELSE {}

OInit == l = 0 /\ kind = "none" /\ cm = [c \in Cols |-> <<>>] /\ viol = {}
Step ==
  /\ l < Len(TraceLog) /\ l' = l + 1
  /\ LET e == TraceLog[l + 1]
         k == IF e.ev = "Reset" THEN KindOf(e) ELSE kind
         ncm == [c \in Cols |-> Upd(c, e, cm[c])]
     IN /\ kind' = k /\ cm' = ncm
        /\ viol' = viol \cup {<<l + 1, n>> : n \in Check(e, k, ncm)}
        /\ (l' = Len(TraceLog)) => PrintT(<<"OBS", ToJson([consumed |-> l', viol |-> viol'])>>)
OSpec == OInit /\ [][Step]_ovars
====
