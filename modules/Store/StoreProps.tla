---- MODULE StoreProps ----
(* C16, C17 and C40 stated once, over parameters.  Store.tla instantiates them with model state,            *)
(* Obs_Store.tla with the values recorded from the real InMemoryStore / EtcdStore / GroupCoordinator /      *)
(* MCP tool handlers.                                                                                       *)
EXTENDS Integers
CONSTANTS obsA, obsB,    \* C17: what the in-memory store and the etcd store returned for the same operation
          tgt,           \* C16: the (group, topic, partition) the commit / fetch addressed (any key type)
          committedAt,   \* C16: key -> [set, off, meta]: the last SUCCESSFUL commit per key (set = FALSE: never)
          before, after  \* C16: key -> [off, meta] as answered by OffsetFetch before / after the operation
                         \*      (all keys of the domain around a commit; only tgt for a plain fetch)
                         \* C40: everything readable from the store before / after a tool call

\* C17 - same operation, same observable result on both implementations
C17_SameObs == obsA = obsB

\* C16 - the addressed partition reads back the last successful commit (offset and metadata)
C16_ReadBack == committedAt[tgt].set =>
                  (after[tgt].off = committedAt[tgt].off /\ after[tgt].meta = committedAt[tgt].meta)
\* C16 - a partition with no successful commit answers -1
C16_NeverCommitted == \A x \in DOMAIN after : ~committedAt[x].set => after[x].off = -1
\* C16 - the operation leaves the answer for every other (group, topic, partition) unchanged
C16_Isolation == \A x \in (DOMAIN before) \cap (DOMAIN after) : x # tgt => after[x] = before[x]

\* C40 - a tool call is a stuttering step of the store
C40_Unchanged == before = after
====
