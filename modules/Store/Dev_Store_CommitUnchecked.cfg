CONSTANTS
 Topics = {"u","t:u"}
 Groups = {"g","g:t"}
 ColonNames = {"t:u","g:t"}
 SlashNames = {}
 PercentNames = {}
 DeadVariants = {3}
 MaxParts = 2
 Offs = {0,1}
 Metas = {"","m"}
 Variants = {1,2}
 TimeoutVariants = {1}
 CfgVariants = {1}
 ToolNames = {"fetch_offsets"}
 ToolShapes = {"known"}
 InitTopics <- NoTopics
 MaxOps = 4
 DevKeyAliasing = FALSE
 DevDeleteKeepsOffsets = FALSE
 DevCloneDropsTimeouts = FALSE
 DevEtcdListOmitsSlash = FALSE
 DevEtcdPartsOrder = FALSE
 DevFetchDefaultZero = FALSE
 DevCommitUnchecked = TRUE
 DevToolWrites = FALSE
 DevToolReaps = FALSE
 DevEscapeFastPath = FALSE
 DevEtcdDeletePrefix = FALSE
 DevStaleNextOffset = FALSE
 DevGrowSameCountOk = FALSE
 DevToolPersistsDefault = FALSE
 DevToolGroupDefaults = FALSE
INIT Init
NEXT NextCoord
INVARIANTS C16_ReadBack
VIEW View
CHECK_DEADLOCK FALSE
