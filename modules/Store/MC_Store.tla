---- MODULE MC_Store ----
EXTENDS Store
\* constant values the cfg syntax cannot express
NoTopics == <<>>
ToolTopics2 == <<<<"u", 2>>, <<"t:u", 1>>>>
ToolTopics3 == <<<<"u", 2>>, <<"t:u", 1>>, <<"t/u", 3>>>>
====
