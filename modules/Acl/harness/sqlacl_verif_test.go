package proxy

// Verification harness (injected with `go test -overlay`; not part of the repository).
// Every sql-branch configuration enumerated by TLC (Acl.tla) is built as a proxy.ACL and the real
// ACL.Allows is evaluated for every topic name of the alphabet, for the configuration itself and for
// the configuration without each one of its patterns.

import (
	"bufio"
	"encoding/json"
	"os"
	"testing"
)

type vsStep struct {
	A    string `json:"a"`
	Kind string `json:"kind"`
	Name string `json:"name"`
}

type vsLine struct {
	Alpha *struct {
		Names []string `json:"names"`
	} `json:"alpha"`
	Steps []vsStep `json:"steps"`
}

func TestVerifSqlAclDecide(t *testing.T) {
	in, outPath := os.Getenv("VERIF_SCHEDULES"), os.Getenv("VERIF_TRACE_OUT")
	if in == "" || outPath == "" {
		t.Skip("no inputs")
	}
	f, err := os.Open(in)
	if err != nil {
		t.Fatal(err)
	}
	defer f.Close()
	out, err := os.Create(outPath)
	if err != nil {
		t.Fatal(err)
	}
	defer out.Close()
	w := bufio.NewWriterSize(out, 1<<20)
	defer w.Flush()
	sc := bufio.NewScanner(f)
	sc.Buffer(make([]byte, 1<<20), 1<<26)
	var first vsLine
	if !sc.Scan() || json.Unmarshal(sc.Bytes(), &first) != nil || first.Alpha == nil {
		t.Fatal("first line must carry the request alphabet")
	}
	names := first.Alpha.Names
	eval := func(rules []vsStep, skip int) []int {
		a := ACL{}
		for i, r := range rules {
			if i == skip {
				continue
			}
			if r.Kind == "allow" {
				a.Allow = append(a.Allow, r.Name)
			} else {
				a.Deny = append(a.Deny, r.Name)
			}
		}
		res := []int{}
		for _, nm := range names {
			if a.Allows(nm) {
				res = append(res, 1)
			} else {
				res = append(res, 0)
			}
		}
		return res
	}
	n := 0
	for sc.Scan() {
		var l vsLine
		if err := json.Unmarshal(sc.Bytes(), &l); err != nil {
			t.Fatal(err)
		}
		var rules []vsStep
		for _, st := range l.Steps {
			switch st.A {
			case "Sql":
			case "SqlAdd":
				rules = append(rules, st)
			default:
				t.Fatalf("unknown step %q", st.A)
			}
		}
		rl := [][]string{}
		for _, r := range rules {
			rl = append(rl, []string{"sql", r.Kind, "*", "*", r.Name})
		}
		less := []map[string]any{}
		for i := range rules {
			less = append(less, map[string]any{"i": i + 1, "res": eval(rules, i)})
		}
		line := map[string]any{"ev": "Acl", "impl": "sql", "k": n, "dflt": false, "rules": rl, "res": eval(rules, -1), "less": less}
		bs, _ := json.Marshal(line)
		w.Write(bs)
		w.WriteByte('\n')
		n++
	}
	t.Logf("replayed %d schedules", n)
}
