package acl

// Verification harness (injected with `go test -overlay`; not part of the repository).
// Every configuration enumerated by TLC (Acl.tla, broker branch) is built as an acl.Config and the
// real Authorizer.Allows is evaluated for every request of the alphabet, for the configuration itself
// and for the configuration without each one of its rules (monotonicity pairs).

import (
	"bufio"
	"encoding/json"
	"os"
	"testing"
)

type vaStep struct {
	A        string `json:"a"`
	Allow    bool   `json:"allow"`
	Pr       string `json:"pr"`
	Kind     string `json:"kind"`
	Action   string `json:"action"`
	Resource string `json:"resource"`
	Name     string `json:"name"`
}

type vaLine struct {
	Alpha *struct {
		Principals []string `json:"principals"`
		Actions    []string `json:"actions"`
		Resources  []string `json:"resources"`
		Names      []string `json:"names"`
	} `json:"alpha"`
	Steps []vaStep `json:"steps"`
}

func vaBuild(dflt bool, rules []vaStep, skip int) Config {
	cfg := Config{Enabled: true, DefaultPolicy: "deny"}
	if dflt {
		cfg.DefaultPolicy = "allow"
	}
	idx := map[string]int{}
	for i, r := range rules {
		if i == skip {
			continue
		}
		j, ok := idx[r.Pr]
		if !ok {
			j = len(cfg.Principals)
			idx[r.Pr] = j
			cfg.Principals = append(cfg.Principals, PrincipalRules{Name: r.Pr})
		}
		rule := Rule{Action: Action(r.Action), Resource: Resource(r.Resource), Name: r.Name}
		if r.Kind == "allow" {
			cfg.Principals[j].Allow = append(cfg.Principals[j].Allow, rule)
		} else {
			cfg.Principals[j].Deny = append(cfg.Principals[j].Deny, rule)
		}
	}
	return cfg
}

func TestVerifAclDecide(t *testing.T) {
	in, outPath := os.Getenv("VERIF_SCHEDULES"), os.Getenv("VERIF_TRACE_OUT")
	if in == "" || outPath == "" {
		t.Skip("no inputs")
	}
	f, err := os.Open(in)
	if err != nil {
		t.Fatal(err)
	}
	defer f.Close()
	out, err := os.Create(outPath)
	if err != nil {
		t.Fatal(err)
	}
	defer out.Close()
	w := bufio.NewWriterSize(out, 1<<20)
	defer w.Flush()
	sc := bufio.NewScanner(f)
	sc.Buffer(make([]byte, 1<<20), 1<<26)
	var first vaLine
	if !sc.Scan() || json.Unmarshal(sc.Bytes(), &first) != nil || first.Alpha == nil {
		t.Fatal("first line must carry the request alphabet")
	}
	al := first.Alpha
	eval := func(cfg Config) []int {
		a := NewAuthorizer(cfg)
		res := []int{}
		// mixed-radix order of Acl.tla Req(k): principal slowest, name fastest
		for _, pr := range al.Principals {
			for _, ac := range al.Actions {
				for _, rs := range al.Resources {
					for _, nm := range al.Names {
						if a.Allows(pr, Action(ac), Resource(rs), nm) {
							res = append(res, 1)
						} else {
							res = append(res, 0)
						}
					}
				}
			}
		}
		return res
	}
	n := 0
	for sc.Scan() {
		var l vaLine
		if err := json.Unmarshal(sc.Bytes(), &l); err != nil {
			t.Fatal(err)
		}
		dflt := false
		var rules []vaStep
		for _, st := range l.Steps {
			switch st.A {
			case "Default":
				dflt = st.Allow
			case "Add":
				rules = append(rules, st)
			default:
				t.Fatalf("unknown step %q", st.A)
			}
		}
		rl := [][]string{}
		for _, r := range rules {
			rl = append(rl, []string{r.Pr, r.Kind, r.Action, r.Resource, r.Name})
		}
		less := []map[string]any{}
		for i := range rules {
			less = append(less, map[string]any{"i": i + 1, "res": eval(vaBuild(dflt, rules, i))})
		}
		line := map[string]any{"ev": "Acl", "impl": "broker", "k": n, "dflt": dflt, "rules": rl, "res": eval(vaBuild(dflt, rules, -1)), "less": less}
		bs, _ := json.Marshal(line)
		w.Write(bs)
		w.WriteByte('\n')
		n++
	}
	t.Logf("replayed %d schedules", n)
}
