---- MODULE MC_Acl ----
EXTENDS Acl
AnonSmall == {[kind |-> "allow", action |-> "*", resource |-> "*", name |-> "*"],
              [kind |-> "deny", action |-> "*", resource |-> "*", name |-> "*"]}
AnonMore == AnonSmall \cup {[kind |-> "allow", action |-> "fetch", resource |-> "topic", name |-> "t*"],
                            [kind |-> "deny", action |-> "produce", resource |-> "*", name |-> "t"]}
AnonNone == {}
====
