---- MODULE AclProps ----
(* C23 stated once, from the property statement, over parameters.  Acl.tla instantiates it     *)
(* with the decision of the model's transcription of the code, Obs_Acl.tla with the decision  *)
(* observed from the real acl.Authorizer.Allows / sql-processor proxy ACL.Allows.              *)
EXTENDS Integers, Sequences
CONSTANTS deny,   \* the deny rules configured for the request's principal   (set of [action, resource, name])
          allow,  \* the allow rules configured for the request's principal  ({} and {} for an unknown principal)
          dflt,   \* the default policy: TRUE = allow
          req,    \* the request [pr, action, resource, name]
          res     \* the decision: TRUE = allowed

\* name patterns of the statement: exact, prefix wildcard ("abc*"), star
IsPrefixPat(p) == Len(p) > 1 /\ SubSeq(p, Len(p), Len(p)) = "*"
HasPrefix(s, pre) == Len(s) >= Len(pre) /\ SubSeq(s, 1, Len(pre)) = pre
NameMatches(p, n) == p = "*" \/ p = n \/ (IsPrefixPat(p) /\ HasPrefix(n, SubSeq(p, 1, Len(p) - 1)))
Matches(r, q) == /\ (r.action = "*" \/ r.action = q.action)
                 /\ (r.resource = "*" \/ r.resource = q.resource)
                 /\ NameMatches(r.name, q.name)
\* The statement fixes the meaning of exact / prefix-wildcard / star patterns and of named principals only:
\* rules with an empty field and requests without a principal are outside it (checked by the conformance layer).
Stated == req.pr # "" /\ \A r \in deny \cup allow : r.action # "" /\ r.resource # "" /\ r.name # ""
DenyHit == \E r \in deny : Matches(r, req)
AllowHit == \E r \in allow : Matches(r, req)

C23_DenyOverrides == (Stated /\ DenyHit) => ~res
C23_AllowIfMatched == (Stated /\ ~DenyHit /\ AllowHit) => res
C23_DefaultOtherwise == (Stated /\ ~DenyHit /\ ~AllowHit) => (res = dflt)
\* monotonicity, for one request: `before` = decision without the rule, `after` = decision with it
AllowMonotone(before, after) == before => after     \* adding an allow rule never removes access
DenyMonotone(before, after) == after => before      \* adding a deny rule never grants it
====
