CONSTANTS
 RuleActions = {"produce","*"}
 RuleResources = {"topic","group","*"}
 RuleNames = {"t","t*","*"}
 MaxAllow = 1
 MaxDeny = 1
 AnonRules <- AnonNone
 SqlPatterns = {}
 SqlMaxAllow = 1
 SqlMaxDeny = 2
 DevAllowFirst = FALSE
 DevUnknownDeny = FALSE
 DevKnownNoMatchDeny = FALSE
 DevPrefixExact = FALSE
 DevWhitelist = FALSE
 DevSqlAllowFirst = FALSE
 DevSuperuser = TRUE
INIT Init
NEXT Next
INVARIANTS C23_DenyOverrides
VIEW View
CHECK_DEADLOCK FALSE
