CONSTANTS
 RuleActions = {"produce","fetch","*"}
 RuleResources = {"topic","*"}
 RuleNames = {"t","t*","*","","ut"}
 MaxAllow = 100
 MaxDeny = 100
 AnonRules <- AnonAll
 SqlPatterns = {"t","t*","*","ut",""}
 SqlMaxAllow = 100
 SqlMaxDeny = 100
 DevAllowFirst = FALSE
 DevUnknownDeny = FALSE
 DevKnownNoMatchDeny = FALSE
 DevPrefixExact = FALSE
 DevWhitelist = FALSE
 DevSqlAllowFirst = FALSE
 DevSuperuser = FALSE
INIT TInit
NEXT TNext
POSTCONDITION Reached
CHECK_DEADLOCK FALSE
