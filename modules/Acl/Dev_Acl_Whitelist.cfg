CONSTANTS
 RuleActions = {"produce","*"}
 RuleResources = {"topic"}
 RuleNames = {"t","t*","*"}
 MaxAllow = 2
 MaxDeny = 1
 AnonRules <- AnonSmall
 SqlPatterns = {"t","t*","*","ut"}
 SqlMaxAllow = 2
 SqlMaxDeny = 2
 DevAllowFirst = FALSE
 DevUnknownDeny = FALSE
 DevKnownNoMatchDeny = FALSE
 DevPrefixExact = FALSE
 DevWhitelist = TRUE
 DevSqlAllowFirst = FALSE
 DevSuperuser = FALSE
INIT Init
NEXT Next
INVARIANTS C23_AllowMonotone
VIEW View
CHECK_DEADLOCK FALSE
