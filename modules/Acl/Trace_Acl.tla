---- MODULE Trace_Acl ----
(* Conformance layer: every decision of the real code (all requests, the configuration and each *)
(* configuration without one rule) must equal Decide / SqlDecide of Acl.tla.                    *)
EXTENDS Acl
TraceLog == ndJsonDeserialize("trace.ndjson")
VARIABLE l
tvars == <<vars, l>>
E == TraceLog[l]
Cur(ev) == l <= Len(TraceLog) /\ E.ev = ev /\ l' = l + 1
RuleSet(rs) == {[pr |-> rs[i][1], kind |-> rs[i][2], action |-> rs[i][3], resource |-> rs[i][4], name |-> rs[i][5]] : i \in DOMAIN rs}
RuleAt(rs, i) == [pr |-> rs[i][1], kind |-> rs[i][2], action |-> rs[i][3], resource |-> rs[i][4], name |-> rs[i][5]]
SqlOf(rs) == [allow |-> {rs[i][5] : i \in {j \in DOMAIN rs : rs[j][2] = "allow"}}, deny |-> {rs[i][5] : i \in {j \in DOMAIN rs : rs[j][2] = "deny"}}]
TInit == Init /\ l = 1 /\ TLCSet(7, 0)
TBroker == /\ Cur("Acl") /\ E.impl = "broker"
           /\ phase' = "broker" /\ dflt' = E.dflt /\ rules' = RuleSet(E.rules) /\ sql' = sql /\ hist' = <<>>
           /\ \A k \in 1..NReq : (E.res[k] = 1) = Decide(rules', dflt', ReqTab[k])
           /\ \A j \in DOMAIN E.less : LET less == rules' \ {RuleAt(E.rules, E.less[j].i)} IN
                \A k \in 1..NReq : (E.less[j].res[k] = 1) = Decide(less, dflt', ReqTab[k])
TSql == /\ Cur("Acl") /\ E.impl = "sql"
        /\ phase' = "sql" /\ sql' = SqlOf(E.rules) /\ dflt' = dflt /\ rules' = rules /\ hist' = <<>>
        /\ \A k \in 1..Len(QNames) : (E.res[k] = 1) = SqlDecide(sql', QNames[k])
        /\ \A j \in DOMAIN E.less : LET i == E.less[j].i
                                        less == [sql' EXCEPT ![E.rules[i][2]] = @ \ {E.rules[i][5]}] IN
             \A k \in 1..Len(QNames) : (E.less[j].res[k] = 1) = SqlDecide(less, QNames[k])
Consumed == TLCSet(7, IF TLCGet(7) < l THEN l ELSE TLCGet(7))
TNext == (TBroker \/ TSql) /\ Consumed
TSpec == TInit /\ [][TNext]_tvars
Reached == PrintT(<<"CONF", ToJson([reached |-> TLCGet(7), total |-> Len(TraceLog)])>>)
AnonAll == {}
====
