---- MODULE Obs_Acl ----
(* Observation layer: no model.  Every line is one configuration evaluated by the real code:    *)
(* `res` = decisions of the real Allows for all requests (Req order), `less[j]` = decisions for *)
(* the configuration without rule number less[j].i.  The C23 clauses and the two monotonicity   *)
(* comparisons are the AclProps definitions, instantiated with the observed decisions.          *)
EXTENDS Integers, Sequences, FiniteSets, TLC, Json, AclReq
TraceLog == ndJsonDeserialize("trace.ndjson")
VARIABLES l, viol
ovars == <<l, viol>>
P(dn, al, df, q, out) == INSTANCE AclProps WITH deny <- dn, allow <- al, dflt <- df, req <- q, res <- out
\* rules of a logged line: sequence of <<principal, kind, action, resource, name>>
RulesOf(rs, pr, kind) == {[action |-> rs[i][3], resource |-> rs[i][4], name |-> rs[i][5]] : i \in {j \in DOMAIN rs : rs[j][1] = pr /\ rs[j][2] = kind}}
Without(rs, i) == [j \in 1..(Len(rs) - 1) |-> IF j < i THEN rs[j] ELSE rs[j + 1]]
\* the sql proxy's default: allow iff no allow pattern is configured
Dflt(e, rs) == IF e.impl = "sql" THEN RulesOf(rs, "sql", "allow") = {} ELSE e.dflt
NQ(e) == IF e.impl = "sql" THEN Len(QNames) ELSE NReq
Q(e, k) == IF e.impl = "sql" THEN SqlReq(k) ELSE ReqTab[k]
Bad(e) ==
  LET rs == e.rules  df == Dflt(e, rs) IN
  {<<n, k>> \in {"C23_DenyOverrides", "C23_AllowIfMatched", "C23_DefaultOtherwise"} \X (1..NQ(e)) :
     LET q == Q(e, k)
         dn == RulesOf(rs, q.pr, "deny")  al == RulesOf(rs, q.pr, "allow")  out == (e.res[k] = 1)
     IN CASE n = "C23_DenyOverrides" -> ~P(dn, al, df, q, out)!C23_DenyOverrides
          [] n = "C23_AllowIfMatched" -> ~P(dn, al, df, q, out)!C23_AllowIfMatched
          [] OTHER -> ~P(dn, al, df, q, out)!C23_DefaultOtherwise}
  \cup
  {<<n, k>> \in {"C23_AllowMonotone", "C23_DenyMonotone"} \X (1..NQ(e)) :
     \E j \in DOMAIN e.less :
       LET i == e.less[j].i
           kind == rs[i][2]
           before == (e.less[j].res[k] = 1)  after == (e.res[k] = 1)
           \* sql: monotonicity is taken with the default held fixed
           fixed == Dflt(e, Without(rs, i)) = df
           q == Q(e, k)
       IN /\ fixed
          /\ \/ n = "C23_AllowMonotone" /\ kind = "allow" /\ ~P({}, {}, df, q, after)!AllowMonotone(before, after)
             \/ n = "C23_DenyMonotone" /\ kind = "deny" /\ ~P({}, {}, df, q, after)!DenyMonotone(before, after)}
OInit == l = 0 /\ viol = {}
Step ==
  /\ l < Len(TraceLog) /\ l' = l + 1
  /\ LET e == TraceLog[l + 1] IN
     /\ viol' = IF e.ev # "Acl" THEN viol ELSE viol \cup {<<l + 1, b[1], b[2]>> : b \in Bad(e)}
     /\ (l' = Len(TraceLog)) => PrintT(<<"OBS", ToJson([consumed |-> l', viol |-> viol'])>>)
OSpec == OInit /\ [][Step]_ovars
====
