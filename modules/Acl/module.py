"""Acl.tla — C23 (pkg/acl/acl.go Authorizer.Allows; sql-processor internal/proxy ACL.Allows).  Function-level module (DESIGN §3.3)."""
import copy, json, os, random, re
from lib import tlc as T, layers, gorun
from lib.common import Broken, Violation, verdict, save_replay

PROPS = {
    "C23": {
        "text": "Acl.tla enumerates, by TLC actions, every ACL configuration over a bounded alphabet (default allow/deny; up to 2 allow and 1 deny rule for the subject principal over actions x resources x name patterns exact / prefix* / *; an optional rule for a second principal; and, for the sql-processor ACL, up to 2 allow and 2 deny patterns). TLC checks deny-overrides, allow-if-matched and default-otherwise (AclProps.tla, written from the statement) for every configuration and all 48 requests (configured, other, unknown and empty principal), and the two monotonicity theorems for every (configuration, rule) pair, on the model's transcription of the two Go functions. Every enumerated configuration is then evaluated by the real acl.Authorizer.Allows / proxy ACL.Allows for every request, together with each configuration minus one rule; TLC evaluates the same predicates on the recorded real decisions (layer O) and compares every decision with the model function (layer C).",
        "note": "Trusted: TLC, the harness construction of acl.Config / proxy.ACL from the enumerated rule list. The sql proxy has no default_policy setting: its default is taken to be 'allow iff no allow pattern is configured' and monotonicity is evaluated with that default held fixed. Rules with an empty action/resource/name and requests with an empty principal are outside the statement; they are checked by the conformance layer only. Configurations listing the same principal twice, case/whitespace variants and Enabled=false are not in the domain.",
        "technique": "TLA+ model (Acl.tla) + TLC exhaustive check of the bounded configuration domain + every enumerated configuration run through the real Allows functions + TLC evaluation of the property predicates on the real decisions (observation layer) and comparison with the model function (conformance layer)",
    }
}
DEVIATIONS = {"AllowFirst": "C23_DenyOverrides", "UnknownDeny": "C23_DefaultOtherwise", "KnownNoMatchDeny": "C23_DefaultOtherwise",
              "PrefixExact": "C23_DenyOverrides", "Whitelist": "C23_AllowMonotone", "SqlAllowFirst": "C23_DenyOverrides",
              "Superuser": "C23_DenyOverrides"}
W = 6
SQLMOD = "addons/processors/sql-processor"


def par(fns):
    from concurrent.futures import ThreadPoolExecutor
    with ThreadPoolExecutor(max_workers=len(fns)) as ex:
        futs = [ex.submit(f) for f in fns]
        return [f.result() for f in futs]


def is_sql(h):
    return bool(h) and h[0]["a"] == "Sql"


def harness(ctx, alpha, inputs, tag):
    """Runs broker-branch inputs through pkg/acl and sql-branch inputs through the sql-processor module; rows in input order."""
    rows = [None] * len(inputs)
    for kind, sel in (("broker", [i for i, h in enumerate(inputs) if not is_sql(h)]), ("sql", [i for i, h in enumerate(inputs) if is_sql(h)])):
        if not sel:
            continue
        sp = os.path.join(ctx.scratch, "in-%s-%s.ndjson" % (tag, kind))
        tp = os.path.join(ctx.scratch, "trace-%s-%s.ndjson" % (tag, kind))
        gorun.write_ndjson(sp, [{"alpha": alpha}] + [{"steps": inputs[i]} for i in sel])
        if kind == "broker":
            rc, out = gorun.go_test(ctx, ".", "./pkg/acl/", {"pkg/acl/zz_verif_acl_test.go": os.path.join(DIR, "harness", "acl_verif_test.go")},
                                    "^TestVerifAclDecide$", env={"VERIF_SCHEDULES": sp, "VERIF_TRACE_OUT": tp})
        else:
            rc, out = gorun.go_test(ctx, SQLMOD, "./internal/proxy/", {SQLMOD + "/internal/proxy/zz_verif_sqlacl_test.go": os.path.join(DIR, "harness", "sqlacl_verif_test.go")},
                                    "^TestVerifSqlAclDecide$", env={"VERIF_SCHEDULES": sp, "VERIF_TRACE_OUT": tp})
        if rc != 0 or "replayed %d schedules" % len(sel) not in out:
            raise Broken("%s acl harness failed:\n%s" % (kind, out[-3000:]))
        got = gorun.read_ndjson(tp)
        if len(got) != len(sel):
            raise Broken("%s acl harness recorded %d lines for %d inputs" % (kind, len(got), len(sel)))
        for i, r in zip(sel, got):
            rows[i] = r
    return rows


def request(alpha, row, k):
    if row["impl"] == "sql":
        return {"topic": alpha["names"][k - 1]}
    z = k - 1
    nn, nr, na = len(alpha["names"]), len(alpha["resources"]), len(alpha["actions"])
    return {"principal": alpha["principals"][z // (nn * nr * na)], "action": alpha["actions"][(z // (nn * nr)) % na],
            "resource": alpha["resources"][(z // nn) % nr], "name": alpha["names"][z % nn]}


def observe_chunks(ctx, rows, extra, nchunks):
    """Layer O over `rows` (+ `extra` self-test lines appended to the last chunk); chunks run as concurrent TLC processes."""
    n = len(rows)
    size = (n + nchunks - 1) // nchunks
    chunks = [(s, rows[s:s + size]) for s in range(0, n, size)]
    chunks[-1] = (chunks[-1][0], chunks[-1][1] + extra)

    def one(ci):
        start, part = chunks[ci]
        _, _, r = layers.observe(ctx, DIR, "Obs_Acl.tla", "Obs_Acl.cfg", part, name="obs%d" % ci, timeout=3000)
        return [(start + v[0], v[1], v[2]) for v in r.prints["OBS"][-1]["viol"]]
    out = []
    for part in par([(lambda c=c: one(c)) for c in range(len(chunks))]):
        out += part
    return sorted(out)


def check(ctx, prop):
    quick = ctx.quick()
    # two exhaustive configurations, run together: the tier's main domain (narrow rule alphabet, <=2 allow <=1 deny, second
    # principal, sql branch) and the wide one (wildcard and specific action/resource/name forms incl. resource "*" and
    # "group", <=1 allow <=1 deny) so that catch-all rules meet specific deny rules in every tier
    def mc_run(cfg, cov):
        dd = T.stage(ctx, DIR, "mc-" + cfg)
        return T.model_check(ctx, dd, "MC_Acl.tla", cfg, workers=W if cfg != "MC_Acl_wide.cfg" else 3, coverage=cov, timeout=3000)
    mc, mcw = par([lambda: mc_run("MC_Acl_%s.cfg" % ctx.tier, not quick), lambda: mc_run("MC_Acl_wide.cfg", False)])
    alpha = (mc.prints.get("ALPHA") or [None])[0]
    enum = mc.prints.get("INPUT", [])
    wide = mcw.prints.get("INPUT", [])
    if not alpha or not enum or not wide or (mcw.prints.get("ALPHA") or [None])[0] != alpha:
        raise Broken("the model printed no alphabet / inputs")
    if not quick:
        cov_actions = {k: v[1] for k, v in mc.action_coverage().items() if k in ("SetDefault", "AddRule", "AddAnon", "StartSql", "SqlAdd")}
        if any(v == 0 for v in cov_actions.values()) or len(cov_actions) < 5:
            raise Broken("vacuous model run: action coverage %s" % cov_actions)
    ctx.log("model: %d + %d distinct states, %d + %d configurations enumerated (%d sql)" % (mc.distinct, mcw.distinct, len(enum), len(wide), sum(1 for h in enum if is_sql(h))))
    # counterexamples of the named wrong designs (regression inputs), independent TLC runs started together
    devs = sorted(DEVIATIONS)

    def dev_run(dev):
        dd = T.stage(ctx, DIR, "dev-" + dev)
        return T.counterexample_hist(ctx, dd, "MC_Acl.tla", "Dev_Acl_%s.cfg" % dev, workers=1, timeout=600)
    inputs, labels = [], []
    for dev, (h, r) in zip(devs, par([(lambda dv=dv: dev_run(dv)) for dv in devs])):
        if h is None or DEVIATIONS[dev] not in r.violated:
            raise Broken("deviation %s no longer violates %s in the model (vacuous deviation)" % (dev, DEVIATIONS[dev]))
        inputs.append(h); labels.append("dev:" + dev)
    # the enumerated domain: all of it in the quick tier; in the thorough tier all sql configurations and a seeded sample of the broker ones
    def key(h):
        return json.dumps(h, sort_keys=True)
    enum.sort(key=key)
    seen = {key(h) for h in enum}
    wide = sorted((h for h in wide if key(h) not in seen), key=key)
    cap = 6000
    if len(enum) > cap:
        rnd = random.Random(ctx.seed)
        sql = [h for h in enum if is_sql(h)]
        brk = [h for h in enum if not is_sql(h)]
        small = [h for h in brk if len(h) <= 2]
        rest = [h for h in brk if len(h) > 2]
        enum_run = sql + small + rnd.sample(rest, cap - len(sql) - len(small))
    else:
        enum_run = enum
    enum_run = enum_run + wide     # the wide configurations are always run in full
    enum = enum + wide
    for h in enum_run:
        inputs.append(h); labels.append("enum")
    ctx.log("%d configurations to evaluate (%d deviation counterexamples, %d of %d enumerated)" % (len(inputs), len(devs), len(enum_run), len(enum)))
    rows = harness(ctx, alpha, inputs, "main")
    decisions = sum(len(r["res"]) * (1 + len(r["less"])) for r in rows)
    ctx.log("harness: %d configurations, %d real decisions" % (len(rows), decisions))
    badO, badM, badC = corrupt(rows)
    viol = observe_chunks(ctx, rows, [badO, badM], 2 if quick else 4)
    n = len(rows)
    if not any(l == n + 1 and v == "C23_DenyOverrides" for l, v, _ in viol):
        raise Broken("binding self-test: observation layer did not flag a flipped decision under a matching deny rule")
    if not any(l == n + 2 and v in ("C23_AllowMonotone", "C23_DenyMonotone") for l, v, _ in viol):
        raise Broken("binding self-test: observation layer did not flag a corrupted monotonicity pair")
    viol = [v for v in viol if v[0] <= n]
    ctx.log("layer O: %d lines, %d predicate failures" % (n, len(viol)))
    violations, per_sig = [], {}
    for line, inv, k in viol:
        row = rows[line - 1]
        q = request(alpha, row, k)
        cls = "sql" if row["impl"] == "sql" else ("principal=" + ("configured" if any(r[0] == q["principal"] for r in row["rules"]) else "unconfigured"))
        sig = "%s@%s:%s" % (inv, row["impl"], cls)
        per_sig.setdefault(sig, []).append(line)
        if len(per_sig[sig]) > 1:
            continue
        path = save_replay(prop, "input-%s.json" % re.sub(r"\W", "_", sig), {"steps": inputs[line - 1], "alpha": alpha, "label": labels[line - 1], "line": row, "request": q})
        violations.append(Violation(prop, sig, "%s false on the decisions of the real %s for default=%s rules=%s request=%s [%s, replay %s]" % (
            inv, "Authorizer.Allows" if row["impl"] == "broker" else "sql proxy ACL.Allows", row["dflt"], json.dumps(row["rules"]), json.dumps(q, sort_keys=True), labels[line - 1], path),
            {"steps": inputs[line - 1], "alpha": alpha, "line": row, "request": q}))
    for v in violations:
        v.what += " (%d failures with this signature)" % len(per_sig[v.sig])
    reached, total, _ = layers.conform(ctx, DIR, "Trace_Acl.tla", "Trace_Acl.cfg", rows + [badC], timeout=3000)
    if reached > n:
        raise Broken("binding self-test: conformance layer accepted a flipped decision")
    if reached < n:
        r1, t1, _ = layers.conform(ctx, DIR, "Trace_Acl.tla", "Trace_Acl.cfg", [badC], name="selfC")
        if r1 == t1:
            raise Broken("binding self-test: conformance layer accepted a flipped decision")
    ctx.log("layer C: %d of %d lines accepted" % (reached, n))
    drift = reached != n
    conf = {"accepted_lines": reached, "total_lines": n, "first_rejection": None if not drift else rows[reached]}
    level = "model_checking"
    if drift and not violations:
        level = "exploration"
        ctx.log("DRIFT: conformance layer rejected line %d although C23 held: %s" % (reached + 1, json.dumps(conf["first_rejection"])[:600]))
    nontrivial = sum(1 for r in rows if {x[1] for x in r["rules"]} == {"allow", "deny"})
    cov = {
        "states": mc.distinct + mcw.distinct, "transitions": mc.generated + mcw.generated, "depth": mc.depth, "exhaustive": True,
        "model_config": "MC_Acl_%s.cfg + MC_Acl_wide.cfg" % ctx.tier,
        "traces_validated_against_impl": len(rows), "trace_events": len(rows), "real_decisions": decisions,
        "evaluations": len(rows), "distinct_nontrivial": nontrivial,
        "configurations_enumerated": len(enum), "sql_configurations": sum(1 for r in rows if r["impl"] == "sql"),
        "rule": "inputs = configurations enumerated by TLC in MC_Acl_<tier> (all of them in quick; thorough: all sql ones, all with <=1 rule and a seeded sample of the rest, 6000 in total) + counterexamples of the named deviations; every configuration is evaluated for all requests together with each configuration minus one rule; non-trivial = has both an allow and a deny rule",
        "deviation_schedules": devs, "conformance": ("drift" if drift else "accepted"), "conformance_detail": conf,
        "binding_self_test": {"observation_layer_flags_corrupted_field": True, "conformance_layer_rejects_corrupted_state": True},
        "samples": [inputs[0], {k: rows[0][k] for k in ("impl", "dflt", "rules", "res")}, inputs[len(inputs) // 2]],
    }
    if not quick:
        cov["action_coverage"] = cov_actions
    return verdict(ctx, violations, level, cov, [
        "the sql proxy's default policy is 'allow iff no allow pattern is configured'; its monotonicity is evaluated with that default held fixed",
        "rules with an empty field and requests with an empty principal are outside the statement (conformance layer only)",
        "each principal is listed once in acl.Config; names carry no surrounding whitespace; actions/resources are lower-case"])


def corrupt(rows):
    """Self-test lines: (O) flip a decision that a matching deny-all rule forces, (O) break a monotonicity pair, (C) flip one decision."""
    pick = None
    for r in rows:
        if r["impl"] == "broker" and any(x[0] == "p" and x[1] == "deny" and x[2:] == ["*", "topic", "*"] or x[0] == "p" and x[1] == "deny" and x[4] == "*" and x[3] in ("*", "topic") and x[2] in ("*", "produce") for x in r["rules"]):
            pick = r
            break
    if pick is None:
        raise Broken("binding self-test: no recorded configuration with a deny rule for p matching produce/topic/t")
    badO = copy.deepcopy(pick)
    badO["res"][0] = 1  # request 1 = (p, produce, topic, t): denied by the matching deny rule
    badM = copy.deepcopy(pick)
    i = [j for j, x in enumerate(badM["rules"]) if x[1] == "deny"][0]
    ent = [e for e in badM["less"] if e["i"] == i + 1][0]
    ent["res"] = [0] * len(ent["res"])       # without the deny rule nothing was allowed ...
    badM["res"] = [1] * len(badM["res"])      # ... with it everything is: adding a deny rule granted access
    badC = copy.deepcopy(pick)
    badC["res"][-1] = 1 - badC["res"][-1]
    return badO, badM, badC


def replay(ctx, prop, path):
    obj = json.load(open(path))
    det = obj.get("detail", obj)
    steps, alpha = det["steps"], det["alpha"]
    rows = harness(ctx, alpha, [steps], "replay")
    _, _, r = layers.observe(ctx, DIR, "Obs_Acl.tla", "Obs_Acl.cfg", rows)
    viol = r.prints["OBS"][-1]["viol"]
    for row in rows:
        print(json.dumps(row, sort_keys=True))
    for v in viol:
        print("VIOLATION property=%s replay=%s" % (prop, path))
        print("  %s false for request %s" % (v[1], json.dumps(request(alpha, rows[v[0] - 1], v[2]), sort_keys=True)))
    return 1 if viol else 0
