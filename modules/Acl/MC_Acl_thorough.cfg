CONSTANTS
 RuleActions = {"produce","*"}
 RuleResources = {"topic","*"}
 RuleNames = {"t","t*","*",""}
 MaxAllow = 2
 MaxDeny = 1
 AnonRules <- AnonMore
 SqlPatterns = {"t","t*","*","ut",""}
 SqlMaxAllow = 2
 SqlMaxDeny = 2
 DevAllowFirst = FALSE
 DevUnknownDeny = FALSE
 DevKnownNoMatchDeny = FALSE
 DevPrefixExact = FALSE
 DevWhitelist = FALSE
 DevSqlAllowFirst = FALSE
 DevSuperuser = FALSE
INIT Init
NEXT Next
INVARIANTS C23_DenyOverrides C23_AllowIfMatched C23_DefaultOtherwise C23_AllowMonotone C23_DenyMonotone EmitInput
VIEW View
CHECK_DEADLOCK FALSE
