---- MODULE Acl ----
(* pkg/acl/acl.go Authorizer.Allows and addons/processors/sql-processor/internal/proxy/acl.go    *)
(* ACL.Allows.  Function-level module (DESIGN 3.3): the actions ENUMERATE the bounded           *)
(* configuration domain (default policy, then rules added one at a time; or, in the sql branch, *)
(* allow/deny patterns added one at a time); every reachable state is a complete configuration. *)
(* `Decide` / `SqlDecide` transcribe the two Go functions; the C23 clauses (AclProps, written   *)
(* from the statement) and the two monotonicity theorems are invariants over all states and     *)
(* all requests.                                                                                 *)
EXTENDS Integers, Sequences, FiniteSets, TLC, Json, AclReq
CONSTANTS RuleActions, RuleResources, RuleNames, \* rule alphabet for the subject principal "p"
          MaxAllow, MaxDeny,                     \* bounds on p's rules
          AnonRules,                             \* candidate rules [kind, action, resource, name] of the unrelated principal "anonymous" (at most one is configured)
          SqlPatterns, SqlMaxAllow, SqlMaxDeny,  \* sql-processor ACL: pattern alphabet and bounds
          DevAllowFirst,       \* deviation: allow rules are consulted before deny rules
          DevUnknownDeny,      \* deviation: an unknown principal is denied whatever the default says
          DevKnownNoMatchDeny, \* deviation: a configured principal without a matching rule is denied whatever the default says
          DevPrefixExact,      \* deviation: "abc*" is compared literally
          DevWhitelist,        \* deviation: a principal with allow rules loses the default (the sql proxy's convention applied to the broker)
          DevSqlAllowFirst,    \* deviation (sql): allow patterns are consulted before deny patterns
          DevSuperuser         \* deviation: a principal holding a catch-all allow rule is answered TRUE before its deny rules are read
VARIABLES phase, dflt, rules, sql, hist
vars == <<phase, dflt, rules, sql, hist>>

Init == phase = "start" /\ dflt = FALSE /\ rules = {} /\ sql = [allow |-> {}, deny |-> {}] /\ hist = <<>>

\* ---- enumeration of the configuration domain ------------------------------------------------
Count(pr, kind) == Cardinality({r \in rules : r.pr = pr /\ r.kind = kind})
SetDefault(b) == /\ phase = "start" /\ phase' = "broker" /\ dflt' = b
                 /\ hist' = Append(hist, [a |-> "Default", allow |-> b]) /\ UNCHANGED <<rules, sql>>
AddRule(kind, ac, rs, nm) ==
  /\ phase = "broker" /\ Count("p", kind) < (IF kind = "allow" THEN MaxAllow ELSE MaxDeny)
  /\ LET r == [pr |-> "p", kind |-> kind, action |-> ac, resource |-> rs, name |-> nm] IN
     /\ r \notin rules /\ rules' = rules \cup {r}
     /\ hist' = Append(hist, [a |-> "Add", pr |-> "p", kind |-> kind, action |-> ac, resource |-> rs, name |-> nm])
  /\ UNCHANGED <<phase, dflt, sql>>
AddAnon(ar) ==
  /\ phase = "broker" /\ Count("anonymous", "allow") + Count("anonymous", "deny") = 0
  /\ rules' = rules \cup {[pr |-> "anonymous", kind |-> ar.kind, action |-> ar.action, resource |-> ar.resource, name |-> ar.name]}
  /\ hist' = Append(hist, [a |-> "Add", pr |-> "anonymous", kind |-> ar.kind, action |-> ar.action, resource |-> ar.resource, name |-> ar.name])
  /\ UNCHANGED <<phase, dflt, sql>>
StartSql == /\ phase = "start" /\ phase' = "sql" /\ hist' = Append(hist, [a |-> "Sql"]) /\ UNCHANGED <<dflt, rules, sql>>
SqlAdd(kind, pat) ==
  /\ phase = "sql" /\ pat \notin sql[kind]
  /\ Cardinality(sql[kind]) < (IF kind = "allow" THEN SqlMaxAllow ELSE SqlMaxDeny)
  /\ sql' = [sql EXCEPT ![kind] = @ \cup {pat}]
  /\ hist' = Append(hist, [a |-> "SqlAdd", kind |-> kind, name |-> pat]) /\ UNCHANGED <<phase, dflt, rules>>
Next == \/ \E b \in BOOLEAN : SetDefault(b)
        \/ \E kind \in {"allow", "deny"}, ac \in RuleActions, rs \in RuleResources, nm \in RuleNames : AddRule(kind, ac, rs, nm)
        \/ \E ar \in AnonRules : AddAnon(ar)
        \/ StartSql
        \/ \E kind \in {"allow", "deny"}, pat \in SqlPatterns : SqlAdd(kind, pat)
Spec == Init /\ [][Next]_vars

\* ---- the two Go functions as written ----------------------------------------------------------
Pfx(p) == Len(p) > 0 /\ SubSeq(p, Len(p), Len(p)) = "*"             \* strings.HasSuffix(ruleName, "*")
HasPfx(s, pre) == Len(s) >= Len(pre) /\ SubSeq(s, 1, Len(pre)) = pre
INameMatchesStr(p, n) == IF p = "" \/ p = "*" THEN TRUE
                         ELSE IF Pfx(p) /\ ~DevPrefixExact THEN HasPfx(n, SubSeq(p, 1, Len(p) - 1))
                         ELSE p = n
\* constant-level tables (TLC evaluates them once): the string operations stay out of the per-state loops
AllPats == RuleNames \cup {ar.name : ar \in AnonRules} \cup SqlPatterns
INameTab == [p \in AllPats |-> [n \in {QNames[i] : i \in DOMAIN QNames} |-> INameMatchesStr(p, n)]]
INameMatches(p, n) == INameTab[p][n]
IMatches(r, q) == /\ (r.action = "" \/ r.action = "*" \/ r.action = q.action)
                  /\ (r.resource = "" \/ r.resource = "*" \/ r.resource = q.resource)
                  /\ INameMatches(r.name, q.name)
Decide(rs, df, q) ==
  LET pr == IF q.pr = "" THEN "anonymous" ELSE q.pr
      known == \E r \in rs : r.pr = pr
      dn == \E r \in rs : r.pr = pr /\ r.kind = "deny" /\ IMatches(r, q)
      al == \E r \in rs : r.pr = pr /\ r.kind = "allow" /\ IMatches(r, q)
      hasAllow == \E r \in rs : r.pr = pr /\ r.kind = "allow"
      super == \E r \in rs : r.pr = pr /\ r.kind = "allow" /\ r.action \in {"", "*"} /\ r.resource \in {"", "*"} /\ r.name \in {"", "*"}
  IN IF ~known THEN (IF DevUnknownDeny THEN FALSE ELSE df)
     ELSE IF DevSuperuser /\ super THEN TRUE
     ELSE IF DevAllowFirst /\ al THEN TRUE
     ELSE IF dn THEN FALSE
     ELSE IF al THEN TRUE
     ELSE IF DevKnownNoMatchDeny \/ (DevWhitelist /\ hasAllow) THEN FALSE
     ELSE df
\* matchPatterns: empty patterns are skipped, "*" matches all, path.Match glob (prefix wildcard; names have no "/"), literal
SqlPatStr(p, n) == p # "" /\ (p = "*" \/ p = n \/ (Pfx(p) /\ HasPfx(n, SubSeq(p, 1, Len(p) - 1))))
SqlTab == [p \in AllPats |-> [n \in {QNames[i] : i \in DOMAIN QNames} |-> SqlPatStr(p, n)]]
SqlPat(p, n) == SqlTab[p][n]
SqlDecide(s, n) ==
  LET dn == \E p \in s.deny : SqlPat(p, n)
      al == \E p \in s.allow : SqlPat(p, n)
  IN IF DevSqlAllowFirst /\ al THEN TRUE
     ELSE IF dn THEN FALSE
     ELSE IF s.allow = {} THEN TRUE
     ELSE al

\* ---- C23 over the whole domain -------------------------------------------------------------------
RulesOf(rs, pr, kind) == {[action |-> r.action, resource |-> r.resource, name |-> r.name] : r \in {x \in rs : x.pr = pr /\ x.kind = kind}}
\* (the substituted expressions are LET-bound identifiers at every use, so TLC evaluates each once)
P(dn, al, df, q, out) == INSTANCE AclProps WITH deny <- dn, allow <- al, dflt <- df, req <- q, res <- out
SqlRules(ps) == {[action |-> "*", resource |-> "*", name |-> p] : p \in ps}
Rng(s) == {s[i] : i \in DOMAIN s}

Broker == phase = "broker"
Sql == phase = "sql"
\* Clause(dn, al, df, q, out) is one of the AclProps predicates; AllBroker/AllSql quantify it over all requests
AllBroker(Clause(_, _, _, _, _)) ==
  \A pr \in Rng(QPrincipals) :
    LET dn == RulesOf(rules, pr, "deny")  al == RulesOf(rules, pr, "allow") IN
    \A ac \in Rng(QActions), rs \in Rng(QResources), nm \in Rng(QNames) :
      LET q == [pr |-> pr, action |-> ac, resource |-> rs, name |-> nm]
          out == Decide(rules, dflt, q)
      IN Clause(dn, al, dflt, q, out)
\* the sql proxy has no default_policy setting: its default is "allow iff no allow pattern is configured" (whitelist convention)
AllSql(Clause(_, _, _, _, _)) ==
  LET dn == SqlRules(sql.deny)  al == SqlRules(sql.allow)  df == (sql.allow = {}) IN
  \A k \in 1..Len(QNames) :
    LET q == SqlReq(k)  out == SqlDecide(sql, QNames[k]) IN Clause(dn, al, df, q, out)
C1(dn, al, df, q, out) == P(dn, al, df, q, out)!C23_DenyOverrides
C2(dn, al, df, q, out) == P(dn, al, df, q, out)!C23_AllowIfMatched
C3(dn, al, df, q, out) == P(dn, al, df, q, out)!C23_DefaultOtherwise
C23_DenyOverrides == (Broker => AllBroker(C1)) /\ (Sql => AllSql(C1))
C23_AllowIfMatched == (Broker => AllBroker(C2)) /\ (Sql => AllSql(C2))
C23_DefaultOtherwise == (Broker => AllBroker(C3)) /\ (Sql => AllSql(C3))
\* theorems: for every configuration of the domain and every rule in it, compare with the configuration without that rule
\* (sql: the default is held fixed, i.e. the allow list stays non-empty)
M == INSTANCE AclProps WITH deny <- {}, allow <- {}, dflt <- FALSE, req <- [pr |-> ""], res <- FALSE   \* only the two Monotone operators are used
Mono(kind, Cmp(_, _)) ==
  /\ Broker => \A r \in {x \in rules : x.kind = kind} : LET less == rules \ {r} IN \A k \in 1..NReq :
        LET q == ReqTab[k] IN Cmp(Decide(less, dflt, q), Decide(rules, dflt, q))
  /\ Sql => \A p \in sql[kind] : LET less == [sql EXCEPT ![kind] = @ \ {p}] IN
        (kind = "allow" => less.allow # {}) => \A k \in 1..Len(QNames) : Cmp(SqlDecide(less, QNames[k]), SqlDecide(sql, QNames[k]))
C23_AllowMonotone == Mono("allow", M!AllowMonotone)
C23_DenyMonotone == Mono("deny", M!DenyMonotone)

View == <<phase, dflt, rules, sql>>
Alphabet == [principals |-> QPrincipals, actions |-> QActions, resources |-> QResources, names |-> QNames]
EmitInput == /\ (phase = "start") => PrintT(<<"ALPHA", ToJson(Alphabet)>>)
             /\ (phase # "start") => PrintT(<<"INPUT", ToJson(hist)>>)
EmitSched == EmitInput
====
