---- MODULE AclReq ----
(* The request alphabet, shared by the model (Acl.tla) and the observation layer (Obs_Acl.tla). *)
(* The harness receives these lists from TLC and evaluates the real function in Req order.      *)
EXTENDS Integers, Sequences
QPrincipals == <<"p", "anonymous", "r", "">>      \* "r" is configured nowhere; "" is the unauthenticated client
QActions == <<"produce", "fetch">>
QResources == <<"topic", "group">>
QNames == <<"t", "t1", "ut">>
NReq == Len(QPrincipals) * Len(QActions) * Len(QResources) * Len(QNames)
Req(k) == \* k in 1..NReq
  LET z == k - 1
      n == z % Len(QNames)
      r == (z \div Len(QNames)) % Len(QResources)
      a == (z \div (Len(QNames) * Len(QResources))) % Len(QActions)
      p == z \div (Len(QNames) * Len(QResources) * Len(QActions))
  IN [pr |-> QPrincipals[p + 1], action |-> QActions[a + 1], resource |-> QResources[r + 1], name |-> QNames[n + 1]]
ReqTab == [k \in 1..NReq |-> Req(k)]
SqlReq(k) == [pr |-> "sql", action |-> "query", resource |-> "topic", name |-> QNames[k]]

====
