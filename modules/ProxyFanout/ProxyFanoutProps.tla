---- MODULE ProxyFanoutProps ----
(* C27 stated once, over parameters.  ProxyFanout.tla instantiates it with model state,        *)
(* Obs_ProxyFanout.tla with the decoded client reply and the receive logs of the fake brokers. *)
EXTENDS Integers, Sequences, FiniteSets
CONSTANTS api,      \* "produce" | "fetch"
          req,      \* set of requested topic-partitions
          reply,    \* sequence of [tp, code]: the entries of the reply handed to the client (in wire order)
          recvs,    \* sequence of [b, tps (set), kind, codes (function tps -> code)]: every sub-request a broker received, in order
                    \*   kind = "codes": the broker answered codes[tp] for each tp;  "drop": connection died after the broker got
                    \*   the records;  "garbage": the broker answered bytes that do not decode
          finished  \* TRUE iff the proxy has returned the reply

NotLeader == 6

Entries(tp) == {i \in DOMAIN reply : reply[i].tp = tp}
Sends(tp)   == {i \in DOMAIN recvs : tp \in recvs[i].tps}
\* what broker i said about tp; -1 = nothing usable (the records may or may not have been written)
Ans(i, tp)  == IF recvs[i].kind = "codes" THEN recvs[i].codes[tp] ELSE -1

\* exactly one entry for each requested topic-partition (and none for others)
C27_OneEntryEach ==
  finished => /\ \A tp \in req : Cardinality(Entries(tp)) = 1
              /\ \A i \in DOMAIN reply : reply[i].tp \in req

\* a partition is reported successful only if a broker reported success for it
C27_SuccessBacked ==
  finished => \A i \in DOMAIN reply :
                reply[i].code = 0 => \E j \in Sends(reply[i].tp) : Ans(j, reply[i].tp) = 0

\* a produce partition is sent again only after every earlier receiver rejected it as NOT_LEADER
C27_ResendOnlyAfterNotLeader ==
  api = "produce" => \A tp \in req : \A i, j \in Sends(tp) : i < j => Ans(i, tp) = NotLeader

\* ... so at most one broker can have written it
C27_NoDuplicateWrite ==
  api = "produce" => \A tp \in req : Cardinality({i \in Sends(tp) : Ans(i, tp) # NotLeader}) <= 1
====
