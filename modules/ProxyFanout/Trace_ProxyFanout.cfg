CONSTANTS
 TPs = {"t1p0","t1p1","t2p0"}
 Backends = {"b1","b2","b3"}
 Apis = {"produce","fetch"}
 IdModes = {"name","id"}
 MaxAttempts = 3
 MaxFaults = 1000000
 CanonOrder = FALSE
 ErrCodes = {3}
 MaxDown = 3
 DevRetryOnTimeout = FALSE
 DevDropFailed = FALSE
 DevDoubleMerge = FALSE
 DevNoFillIn = FALSE
INIT TInit
NEXT TNext
POSTCONDITION Reached
CHECK_DEADLOCK FALSE
