"""ProxyFanout.tla — C27 (cmd/proxy/main.go: forwardProduce / forwardFetch)."""
import copy, json, os, re
from lib import tlc as T, layers, gorun
from lib.common import Broken, Violation, verdict, save_replay

PROPS = {
    "C27": {
        "text": "ProxyFanout.tla models one produce/fetch through the proxy (grouping by the routing table, connectForAddr with owner/round-robin/exclusion, per-(attempt, backend) outcomes: per-partition codes, unreachable backend, connection lost after the send, undecodable reply; NOT_LEADER invalidation and re-grouping, fetch transport retries, merge, final fill-in). TLC checks the four C27 clauses exhaustively (3 partitions over 2 topics, 2-3 backends, bounded faults); TLC-generated request/fault scripts (simulation + counterexamples of the three named wrong designs) are replayed through the real handleProduceRouting/handleFetchRouting against scripted loopback TCP brokers with a real PartitionRouter (table written in place, real LookupOwner/Invalidate), and the recorded traces (broker receive logs + decoded client reply) are validated by TLC: C27 predicates on observed values (layer O) and conformance with the model (layer C).",
        "note": "Trusted: TLC, franz-go kmsg as codec, the harness's fake brokers (they log a sub-request before answering it) and its decoding of the reply into [partition, code] entries. Brokers answer every partition they were sent (a broker reply that itself omits partitions is outside the quantifier). A record counts as possibly written whenever a broker received it and did not answer NOT_LEADER. Backends are up or down for the whole request; acks=0 and unparseable requests (raw forwarding) are not covered. Go map iteration order and the round-robin counter are left nondeterministic in the model and resolved from the trace.",
        "technique": "TLA+ model (ProxyFanout.tla) + TLC exhaustive check + replay of TLC behaviours into the real proxy handlers over loopback TCP + TLC trace validation (observation and conformance layers)",
    }
}
DEVIATIONS = {  # (cfg suffix, api) -> invariant TLC must report; one counterexample per code path (produce / fetch twins)
    ("RetryOnTimeout", "produce"): "C27_ResendOnlyAfterNotLeader",
    ("DropFailed", "produce"): "C27_OneEntryEach", ("DropFailed", "fetch"): "C27_OneEntryEach",
    ("DoubleMerge", "produce"): "C27_OneEntryEach", ("DoubleMerge", "fetch"): "C27_OneEntryEach",
    ("NoFillIn", "produce"): "C27_OneEntryEach", ("NoFillIn", "fetch"): "C27_OneEntryEach",
}
ALL_TPS = ["t1p0", "t1p1", "t2p0"]
ALL_BACKENDS = ["b1", "b2", "b3"]
OVERLAY = {"cmd/proxy/zz_verif_proxyfanout_test.go": "proxyfanout_verif_test.go"}


def par(jobs):
    """Run independent TLC/Go steps concurrently (each in its own staged directory); re-raise the first failure."""
    from concurrent.futures import ThreadPoolExecutor
    with ThreadPoolExecutor(max_workers=len(jobs)) as ex:
        futs = [ex.submit(j) for j in jobs]
        return [f.result() for f in futs]


def guarded(f):
    try:
        return f()
    except Broken as e:
        return e


def hist_to_sched(h, backends, rr, repeat_last=False):
    st = h[0]
    if st.get("a") != "Start":
        raise Broken("history does not begin with Start: %r" % (h[:1],))
    route = st["route"] if isinstance(st["route"], dict) else {}
    scripts = {}
    for e in h[1:]:
        if e["a"] == "Exchange":
            codes = e["codes"] if isinstance(e["codes"], dict) else {}
            scripts.setdefault(e["b"], []).append({"kind": e["kind"], "codes": {k: int(v) for k, v in codes.items()} if e["kind"] == "codes" else {}, "def": 0})
    down = sorted(set(st["down"]) | (set(ALL_BACKENDS) - set(backends)))
    dflt = None
    ex = [e for e in h[1:] if e["a"] == "Exchange"]
    if repeat_last and ex:
        # the proxy's round-robin choice may differ from TLC's: a backend whose script is used up keeps answering like the
        # last scripted exchange (NOT_LEADER everywhere if that one said NOT_LEADER), so the intended path survives
        last = ex[-1]
        vals = set(last["codes"].values()) if isinstance(last["codes"], dict) else set()
        dflt = {"kind": last["kind"], "codes": {}, "def": int(vals.pop()) if last["kind"] == "codes" and len(vals) == 1 else 0}
    return {"dflt": dflt, "api": st["api"], "ids": st["ids"], "req": sorted(st["req"]), "route": {tp: route.get(tp, "none") for tp in ALL_TPS},
            "down": down, "scripts": scripts, "rr": rr}


def harness(ctx, scheds, tag):
    sp = os.path.join(ctx.scratch, "sched-%s.ndjson" % tag)
    tp = os.path.join(ctx.scratch, "trace-%s.ndjson" % tag)
    gorun.write_ndjson(sp, scheds)
    rc, out = gorun.go_test(ctx, ".", "./cmd/proxy/", {k: os.path.join(DIR, "harness", v) for k, v in OVERLAY.items()},
                            "^TestVerifProxyFanoutReplay$", env={"VERIF_SCHEDULES": sp, "VERIF_TRACE_OUT": tp}, timeout=1500)
    if rc != 0 or "replayed %d schedules" % len(scheds) not in out:
        raise Broken("proxy fan-out harness failed:\n" + out[-3000:])
    return gorun.read_ndjson(tp)


def split(rows):
    runs, cur = [], None
    for r in rows:
        if r["ev"] == "Start":
            cur = []
            runs.append(cur)
        cur.append(r)
    return runs


def classify(inv, run):
    """Descriptive class of a violation for the signature (the verdict itself is TLC's)."""
    st, done = run[0], run[-1]
    recvs = [r for r in run if r["ev"] == "Recv"]
    if inv == "C27_OneEntryEach":
        cnt = {}
        for e in done.get("entries", []):
            cnt[e["tp"]] = cnt.get(e["tp"], 0) + 1
        kinds = set()
        for tp in st["req"]:
            if cnt.get(tp, 0) == 0:
                kinds.add("missing")
            elif cnt[tp] > 1:
                kinds.add("duplicate")
        if any(tp not in st["req"] for tp in cnt):
            kinds.add("extra")
        return "+".join(sorted(kinds)) or "?"
    if inv == "C27_SuccessBacked":
        return "success-without-broker-success"
    # resend / duplicate write: what had an earlier receiver of the same partition answered?
    answers, kinds = {}, set()
    for r in recvs:
        for tp in r["tps"]:
            for prev in answers.get(tp, []):
                if prev != 6:
                    kinds.add({-1: "after-transport-failure", 0: "after-success"}.get(prev, "after-code-%d" % prev))
            answers.setdefault(tp, []).append(r["codes"].get(tp, -1) if r["kind"] == "codes" else -1)
    return "+".join(sorted(kinds)) or "?"


def features(run):
    recvs = [r for r in run if r["ev"] == "Recv"]
    done = run[-1]
    f = set()
    tps = [tp for r in recvs for tp in r["tps"]]
    if len(tps) != len(set(tps)):
        f.add("retry")
    if any(r["kind"] == "drop" for r in recvs):
        f.add("drop")
    if any(r["kind"] == "garbage" for r in recvs):
        f.add("garbage")
    if any(r["kind"] == "codes" and any(v == 6 for v in r["codes"].values()) for r in recvs):
        f.add("not_leader")
    if any(e["code"] == 7 for e in done.get("entries", [])):
        f.add("timed_out_entry")
    if any(e["code"] == 6 for e in done.get("entries", [])):
        f.add("fill_in")
    if len({r["b"] for r in recvs}) >= 2:
        f.add("fanout")
    sent = set(tps)
    if any(tp not in sent for tp in run[0]["req"]):
        f.add("connect_fail")
    return f


def check(ctx, prop):
    quick = ctx.quick()
    n = 250 if quick else 2000
    devs = sorted(DEVIATIONS)

    def run_dev(dev):
        def f():
            name, api = dev
            dd = T.stage(ctx, DIR, "dev-%s-%s" % dev)
            cfg = "Dev_ProxyFanout_%s.cfg" % name
            text = re.sub(r"(?m)^ Apis = .*$", ' Apis = {"%s"}' % api, open(os.path.join(dd, cfg)).read())
            with open(os.path.join(dd, cfg), "w") as fh:
                fh.write(text)
            return T.counterexample_hist(ctx, dd, "MC_ProxyFanout.tla", cfg, timeout=600, workers=2)
        return f

    def run_mc2():
        # quick only: second small exhaustive config (2 partitions, <=3 faulty exchanges) that reaches the third attempt and the final fill-in
        if not quick:
            return None
        return T.model_check(ctx, T.stage(ctx, DIR, "mc2"), "MC_ProxyFanout.tla", "MC_ProxyFanout_quick2.cfg", timeout=1500, workers=4)

    res = par([
        lambda: T.model_check(ctx, T.stage(ctx, DIR, "mc"), "MC_ProxyFanout.tla", "MC_ProxyFanout_%s.cfg" % ctx.tier, coverage=not quick, timeout=2700, workers=8),
        lambda: T.simulate_hists(ctx, T.stage(ctx, DIR, "sim"), "MC_ProxyFanout.tla", "Sim_ProxyFanout.cfg", num=n, depth=40, seed=ctx.seed, timeout=2700),
        run_mc2,
    ] + [run_dev(dev) for dev in devs])
    mc, (hs, _), mc2 = res[0], res[1], res[2]
    ctx.log("model: %d distinct states, depth %d%s" % (mc.distinct, mc.depth, "" if mc2 is None else "; second config: %d distinct states, depth %d" % (mc2.distinct, mc2.depth)))
    scheds, labels = [], []
    for dev, (h, r) in zip(devs, res[3:]):
        inv = DEVIATIONS[dev]
        if h is None or inv not in r.violated:
            raise Broken("deviation %s/%s no longer violates %s in the model (vacuous deviation)" % (dev[0], dev[1], inv))
        scheds.append(hist_to_sched(h, ["b1", "b2"], 0, repeat_last=True)); labels.append("dev:%s/%s" % dev)
    seen = set()
    for h in hs:
        if not h or h[-1].get("a") != "Finish":
            continue
        s = hist_to_sched(h, ALL_BACKENDS, (ctx.seed + len(scheds)) % 3)
        # the wire encoding (names: produce v9 / fetch v11; ids: produce v7 / fetch v13 with topic ids) does not exist in the
        # model; it is assigned here, alternating, so that simulation does not spend its branching on it
        s["ids"] = ("name", "id")[(ctx.seed + len(scheds)) % 2]
        k = json.dumps(s, sort_keys=True)
        if k in seen:
            continue
        seen.add(k)
        scheds.append(s); labels.append("sim")
    if len(scheds) < len(DEVIATIONS) + (50 if quick else 400):
        raise Broken("only %d schedules generated" % len(scheds))
    ctx.log("%d schedules (%d deviation counterexamples, %d simulated)" % (len(scheds), len(DEVIATIONS), len(scheds) - len(DEVIATIONS)))
    rows = harness(ctx, scheds, "main")
    runs = split(rows)
    if len(runs) != len(scheds) or any(run[-1]["ev"] != "Done" for run in runs):
        raise Broken("harness recorded %d runs for %d schedules" % (len(runs), len(scheds)))
    (consumed, viol, _), (reached, total, _), st = par([
        lambda: layers.observe(ctx, DIR, "Obs_ProxyFanout.tla", "Obs_ProxyFanout.cfg", rows, timeout=1500),
        lambda: layers.conform(ctx, DIR, "Trace_ProxyFanout.tla", "Trace_ProxyFanout.cfg", rows, timeout=1500),
        lambda: guarded(lambda: self_test(ctx, runs))])
    violations, first = [], set()
    starts = [i for i, r in enumerate(rows) if r["ev"] == "Start"]
    for line, inv in sorted(viol):
        idx = sum(1 for s in starts if s < line) - 1
        if (idx, inv) in first:
            continue
        first.add((idx, inv))
        run = runs[idx]
        sig = "%s@%s:%s" % (inv, run[0]["api"], classify(inv, run))
        path = save_replay(prop, "sched-%s.json" % re.sub(r"\W", "_", sig), {"schedule": scheds[idx], "label": labels[idx], "trace": run})
        violations.append(Violation(prop, sig, "%s false on the real proxy: %s of %s, backends received %s, reply %s [schedule %s, replay %s]" % (
            inv, run[0]["api"], run[0]["req"], [(r["b"], r["tps"], r["kind"], r["codes"]) for r in run if r["ev"] == "Recv"], run[-1].get("entries"), labels[idx], path),
            {"schedule": scheds[idx], "trace": run}))
    if isinstance(st, Broken):
        if not violations:
            raise st
        st = {"skipped": str(st)}   # the tree is broken enough that no clean trace exists; the violations are the result
    drift = reached != total
    conf = {"reached": reached, "total": total, "first_rejection": rows[reached] if drift and reached < len(rows) else None}
    level = "model_checking"
    if drift and not violations:
        level = "exploration"
        ctx.log("DRIFT: conformance layer rejected a trace although C27 held: " + json.dumps(conf["first_rejection"]))
    feats = [features(run) for run in runs]
    hist = {}
    for f in feats:
        for x in f:
            hist[x] = hist.get(x, 0) + 1
    need = {"retry", "drop", "garbage", "not_leader", "timed_out_entry", "fanout", "connect_fail"}
    missing = sorted(need - set(hist))
    if missing and not violations:
        raise Broken("vacuous run: no observed trace exercised %s" % missing)
    nontrivial = sum(1 for f in feats if f & {"retry", "drop", "garbage", "not_leader", "connect_fail"})
    cov = {
        "states": mc.distinct, "transitions": mc.generated, "depth": mc.depth, "exhaustive": True,
        "model_config": "MC_ProxyFanout_%s.cfg" % ctx.tier,
        "second_model": None if mc2 is None else {"model_config": "MC_ProxyFanout_quick2.cfg", "states": mc2.distinct, "transitions": mc2.generated, "depth": mc2.depth},
        "traces_validated_against_impl": len(runs), "trace_events": len(rows),
        "evaluations": len(scheds), "distinct_nontrivial": nontrivial,
        "rule": "schedules = TLC counterexamples of the named deviations + distinct TLC -simulate behaviours (seeded); non-trivial = the OBSERVED trace contains a NOT_LEADER answer, a connection lost after the send, an undecodable reply, a retry or a sub-request that could not be connected",
        "observed_features": hist,
        "deviation_schedules": ["%s/%s" % d for d in sorted(DEVIATIONS)], "conformance": ("drift" if drift else "accepted"), "conformance_detail": conf,
        "binding_self_test": st,
        "samples": [scheds[0], runs[0], scheds[len(DEVIATIONS)], runs[len(DEVIATIONS)]],
    }
    if not quick:
        ac = {k: v[1] for k, v in mc.action_coverage().items()}
        cov["action_coverage"] = ac
        dead = [a for a in ("StartAny", "ConnectAny", "ExchangeAny", "Merge", "Finish") if ac.get(a, 0) == 0]
        if dead:
            raise Broken("vacuous model run: actions never taken: %s" % dead)
    return verdict(ctx, violations, level, cov, [
        "fake brokers answer every partition of a sub-request they received and log the sub-request before answering",
        "a record may have been written whenever a broker received it and did not answer NOT_LEADER (transport failure / undecodable reply count as possibly written)",
        "backends are reachable or unreachable for the whole client request; acks=0 and raw forwarding are out of scope",
        "the harness projects the reply bytes into [partition, code] entries with franz-go kmsg",
    ])


def self_test(ctx, runs):
    """Corrupt recorded fields: layer O must flag a dropped reply entry, layer C must reject a changed reply code / a dropped event."""
    def sole_success(run):
        """(recv, tp): the only Recv that answered 0 for tp, in a run whose reply has one entry per requested partition."""
        ent = run[-1]["entries"]
        if len(ent) < 2 or sorted(e["tp"] for e in ent) != sorted(run[0]["req"]):
            return None
        recvs = [r for r in run if r["ev"] == "Recv" and r["kind"] == "codes"]
        for e in ent:
            if e["code"] == 0:
                ok = [r for r in recvs if r["codes"].get(e["tp"]) == 0]
                if len(ok) == 1:
                    return ok[0]
        return None
    run = next((r for r in runs if sole_success(r) is not None), None)
    if run is None:
        raise Broken("binding self-test: no trace with a well-formed reply and a successful sub-request")
    bad = copy.deepcopy(run)
    bad[-1]["entries"] = bad[-1]["entries"][1:]
    _, viol, _ = layers.observe(ctx, DIR, "Obs_ProxyFanout.tla", "Obs_ProxyFanout.cfg", bad, name="selfO")
    if not any(v[1] == "C27_OneEntryEach" for v in viol):
        raise Broken("binding self-test: observation layer did not flag a removed reply entry")
    bad = copy.deepcopy(run)
    bad[-1]["entries"][0]["code"] = 55
    reached, total, _ = layers.conform(ctx, DIR, "Trace_ProxyFanout.tla", "Trace_ProxyFanout.cfg", bad, name="selfC")
    if reached == total:
        raise Broken("binding self-test: conformance layer accepted a corrupted reply code")
    bad = copy.deepcopy(run)
    bad.remove(sole_success(bad))
    reached, total, _ = layers.conform(ctx, DIR, "Trace_ProxyFanout.tla", "Trace_ProxyFanout.cfg", bad, name="selfC2")
    if reached == total:
        raise Broken("binding self-test: conformance layer accepted a trace with a dropped Recv event")
    _, viol, _ = layers.observe(ctx, DIR, "Obs_ProxyFanout.tla", "Obs_ProxyFanout.cfg", bad, name="selfO2")
    if not any(v[1] == "C27_SuccessBacked" for v in viol):
        raise Broken("binding self-test: observation layer did not flag a success without a broker success")
    return {"observation_layer_flags_removed_entry": True, "observation_layer_flags_unbacked_success": True,
            "conformance_layer_rejects_corrupted_reply": True, "conformance_layer_rejects_dropped_event": True}


def replay(ctx, prop, path):
    obj = json.load(open(path))
    sched = obj.get("schedule") or obj.get("detail", {}).get("schedule")
    rows = harness(ctx, [sched], "replay")
    _, viol, _ = layers.observe(ctx, DIR, "Obs_ProxyFanout.tla", "Obs_ProxyFanout.cfg", rows)
    for r in rows:
        print(json.dumps(r, sort_keys=True))
    for line, inv in viol:
        print("VIOLATION property=%s replay=%s" % (prop, path))
        print("  %s false at line %d" % (inv, line))
    return 1 if viol else 0
