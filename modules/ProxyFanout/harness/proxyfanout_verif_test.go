package main

// Verification harness for C27 (injected with `go test -overlay`; not part of the repository).
// Drives the real handleProduceRouting / handleFetchRouting (called exactly as handleConnection calls
// them) against scripted loopback TCP backends that record every sub-request they receive.  The routing
// table is a real metadata.PartitionRouter whose map is written directly.  One ndjson line per
// observable event: Start (inputs), Recv (a backend received a sub-request and what it answered),
// Done (decoded reply handed to the client).

import (
	"bufio"
	"context"
	"encoding/json"
	"fmt"
	"io"
	"log/slog"
	"net"
	"os"
	"reflect"
	"regexp"
	"sort"
	"strconv"
	"sync"
	"syscall"
	"testing"
	"time"
	"unsafe"

	"github.com/KafScale/platform/pkg/metadata"
	"github.com/KafScale/platform/pkg/protocol"
	"github.com/twmb/franz-go/pkg/kmsg"
)

type vfBehaviour struct {
	Kind  string           `json:"kind"` // codes | drop | garbage
	Codes map[string]int16 `json:"codes"`
	Def   int16            `json:"def"`
}

type vfSched struct {
	Api     string                   `json:"api"`
	Ids     string                   `json:"ids"`
	Req     []string                 `json:"req"`
	Route   map[string]string        `json:"route"`
	Down    []string                 `json:"down"`
	Scripts map[string][]vfBehaviour `json:"scripts"`
	RR      uint32                   `json:"rr"`
	Dflt    *vfBehaviour             `json:"dflt"` // what a backend does once its script is used up (nil: answer success)
}

var vfAllBackends = []string{"b1", "b2", "b3"}
var vfAllTPs = []string{"t1p0", "t1p1", "t2p0"}
var vfBrokerID = map[string]string{"b1": "1", "b2": "2", "b3": "3"}
var vfTopicID = map[string][16]byte{"t1": {1, 1, 1, 1}, "t2": {2, 2, 2, 2}}
var vfTPRe = regexp.MustCompile(`^(t\d+)p(\d+)$`)

func vfSplitTP(tp string) (string, int32) {
	m := vfTPRe.FindStringSubmatch(tp)
	if m == nil {
		panic("bad tp " + tp)
	}
	n, _ := strconv.Atoi(m[2])
	return m[1], int32(n)
}

func vfTPName(topic string, id [16]byte, part int32) string {
	if topic == "" {
		for n, tid := range vfTopicID {
			if tid == id {
				topic = n
			}
		}
	}
	if topic == "" {
		topic = fmt.Sprintf("id:%x", id)
	}
	return fmt.Sprintf("%sp%d", topic, part)
}

type vfRecv struct {
	B     string           `json:"b"`
	Tps   []string         `json:"tps"`
	Kind  string           `json:"kind"`
	Codes map[string]int16 `json:"codes"`
	NRec  int              `json:"nrec"`
}

type vfRecorder struct {
	mu    sync.Mutex
	recvs []vfRecv
	errs  []string
}

func (r *vfRecorder) add(v vfRecv) {
	r.mu.Lock()
	r.recvs = append(r.recvs, v)
	r.mu.Unlock()
}
func (r *vfRecorder) fail(s string) {
	r.mu.Lock()
	r.errs = append(r.errs, s)
	r.mu.Unlock()
}

type vfBackend struct {
	name   string
	addr   string
	ln     net.Listener
	fd     int // bound, never listening socket for a "down" backend (connect is refused, port stays reserved)
	mu     sync.Mutex
	script []vfBehaviour
	dflt   *vfBehaviour
	n      int
	rec    *vfRecorder
	conns  []net.Conn
}

func vfNewBackend(name string, down bool, script []vfBehaviour, dflt *vfBehaviour, rec *vfRecorder) (*vfBackend, error) {
	b := &vfBackend{name: name, script: script, dflt: dflt, rec: rec, fd: -1}
	if down {
		fd, err := syscall.Socket(syscall.AF_INET, syscall.SOCK_STREAM, 0)
		if err != nil {
			return nil, err
		}
		if err := syscall.Bind(fd, &syscall.SockaddrInet4{Port: 0, Addr: [4]byte{127, 0, 0, 1}}); err != nil {
			syscall.Close(fd)
			return nil, err
		}
		sa, err := syscall.Getsockname(fd)
		if err != nil {
			syscall.Close(fd)
			return nil, err
		}
		b.fd = fd
		b.addr = fmt.Sprintf("127.0.0.1:%d", sa.(*syscall.SockaddrInet4).Port)
		return b, nil
	}
	ln, err := net.Listen("tcp", "127.0.0.1:0")
	if err != nil {
		return nil, err
	}
	b.ln = ln
	b.addr = ln.Addr().String()
	go b.serve()
	return b, nil
}

func (b *vfBackend) close() {
	if b.ln != nil {
		b.ln.Close()
	}
	if b.fd >= 0 {
		syscall.Close(b.fd)
	}
	b.mu.Lock()
	for _, c := range b.conns {
		c.Close()
	}
	b.mu.Unlock()
}

func (b *vfBackend) serve() {
	for {
		c, err := b.ln.Accept()
		if err != nil {
			return
		}
		b.mu.Lock()
		b.conns = append(b.conns, c)
		b.mu.Unlock()
		go b.handle(c)
	}
}

func (b *vfBackend) next() vfBehaviour {
	b.mu.Lock()
	defer b.mu.Unlock()
	var beh vfBehaviour
	if b.n < len(b.script) {
		beh = b.script[b.n]
	} else if b.dflt != nil {
		beh = *b.dflt
	} else {
		beh = vfBehaviour{Kind: "codes"} // script exhausted: answer success
	}
	b.n++
	return beh
}

func vfGarbage(corr int32) []byte {
	return []byte{byte(corr >> 24), byte(corr >> 16), byte(corr >> 8), byte(corr), 0x00, 0x05}
}

func (b *vfBackend) handle(c net.Conn) {
	defer c.Close()
	for {
		fr, err := protocol.ReadFrame(c)
		if err != nil {
			return
		}
		hdr, req, err := protocol.ParseRequest(fr.Payload)
		if err != nil {
			b.rec.fail(fmt.Sprintf("backend %s: undecodable sub-request: %v", b.name, err))
			return
		}
		beh := b.next()
		code := func(tp string) int16 {
			if beh.Kind != "codes" {
				return -1
			}
			if v, ok := beh.Codes[tp]; ok {
				return v
			}
			return beh.Def
		}
		rv := vfRecv{B: b.name, Kind: beh.Kind, Codes: map[string]int16{}}
		var resp kmsg.Response
		switch r := req.(type) {
		case *kmsg.ProduceRequest:
			out := kmsg.NewPtrProduceResponse()
			for _, t := range r.Topics {
				rt := kmsg.NewProduceResponseTopic()
				rt.Topic = t.Topic
				for _, p := range t.Partitions {
					tp := vfTPName(t.Topic, [16]byte{}, p.Partition)
					rv.Tps = append(rv.Tps, tp)
					rv.Codes[tp] = code(tp)
					if len(p.Records) > 0 {
						rv.NRec++
					}
					rp := kmsg.NewProduceResponseTopicPartition()
					rp.Partition = p.Partition
					rp.ErrorCode = code(tp)
					rp.BaseOffset = -1
					if rp.ErrorCode == 0 {
						rp.BaseOffset = 42
					}
					rt.Partitions = append(rt.Partitions, rp)
				}
				out.Topics = append(out.Topics, rt)
			}
			resp = out
		case *kmsg.FetchRequest:
			out := kmsg.NewPtrFetchResponse()
			out.SessionID = r.SessionID
			for _, t := range r.Topics {
				rt := kmsg.NewFetchResponseTopic()
				rt.Topic = t.Topic
				rt.TopicID = t.TopicID
				for _, p := range t.Partitions {
					tp := vfTPName(t.Topic, t.TopicID, p.Partition)
					rv.Tps = append(rv.Tps, tp)
					rv.Codes[tp] = code(tp)
					rp := kmsg.NewFetchResponseTopicPartition()
					rp.Partition = p.Partition
					rp.ErrorCode = code(tp)
					rp.HighWatermark = 7
					rp.LastStableOffset = 7
					rt.Partitions = append(rt.Partitions, rp)
				}
				out.Topics = append(out.Topics, rt)
			}
			resp = out
		default:
			b.rec.fail(fmt.Sprintf("backend %s: unexpected request %T", b.name, req))
			return
		}
		sort.Strings(rv.Tps)
		b.rec.add(rv) // logged before anything is sent back: ordered before the proxy can see the outcome
		switch beh.Kind {
		case "codes":
			if err := protocol.WriteFrame(c, protocol.EncodeResponse(hdr.CorrelationID, hdr.APIVersion, resp)); err != nil {
				return
			}
		case "garbage":
			if err := protocol.WriteFrame(c, vfGarbage(hdr.CorrelationID)); err != nil {
				return
			}
		default: // drop: the connection dies after the request (and its records) arrived
			return
		}
	}
}

// ---- routing table: a real metadata.PartitionRouter whose table is written directly ----
//
// LookupOwner and Invalidate are the real methods on the real struct; only the *feeding* of the table
// (etcd load + watch, which is C20's subject) is replaced by writing the unexported map, so the check
// needs no etcd, no goroutine and no real-time wait.

func vfSetRoutes(t *testing.T, r *metadata.PartitionRouter, want map[string]string) {
	routes := map[string]string{}
	for tp, owner := range want {
		if owner == "" {
			continue
		}
		topic, part := vfSplitTP(tp)
		routes[fmt.Sprintf("%s:%d", topic, part)] = owner // metadata.partitionKey
	}
	f := reflect.ValueOf(r).Elem().FieldByName("routes")
	if !f.IsValid() || f.Kind() != reflect.Map {
		t.Fatalf("metadata.PartitionRouter has no map field 'routes' any more: adapt the harness")
	}
	reflect.NewAt(f.Type(), unsafe.Pointer(f.UnsafeAddr())).Elem().Set(reflect.ValueOf(routes))
	for _, tp := range vfAllTPs { // the key format is the router's business: verify through its own lookup
		topic, part := vfSplitTP(tp)
		if got := r.LookupOwner(topic, part); got != want[tp] {
			t.Fatalf("router lookup of %s = %q after feeding %q: adapt the harness", tp, got, want[tp])
		}
	}
}

// ---- requests / replies ----

func vfVersion(api, ids string) int16 {
	switch {
	case api == "produce" && ids == "id":
		return 7 // older non-flexible encoding
	case api == "produce":
		return 9
	case ids == "id":
		return 13 // topic ids on the wire, no names
	default:
		return 11
	}
}

func vfBuildRequest(s *vfSched, corr int32) []byte {
	v := vfVersion(s.Api, s.Ids)
	byTopic := map[string][]int32{}
	var order []string
	for _, tp := range s.Req {
		t, p := vfSplitTP(tp)
		if _, ok := byTopic[t]; !ok {
			order = append(order, t)
		}
		byTopic[t] = append(byTopic[t], p)
	}
	var req kmsg.Request
	if s.Api == "produce" {
		r := kmsg.NewPtrProduceRequest()
		r.Version = v
		r.Acks = -1
		r.TimeoutMillis = 1000
		for _, t := range order {
			rt := kmsg.NewProduceRequestTopic()
			rt.Topic = t
			for _, p := range byTopic[t] {
				rp := kmsg.NewProduceRequestTopicPartition()
				rp.Partition = p
				rp.Records = []byte(fmt.Sprintf("records-of-%sp%d", t, p))
				rt.Partitions = append(rt.Partitions, rp)
			}
			r.Topics = append(r.Topics, rt)
		}
		req = r
	} else {
		r := kmsg.NewPtrFetchRequest()
		r.Version = v
		r.ReplicaID = -1
		r.MaxWaitMillis = 10
		r.MinBytes = 1
		r.MaxBytes = 1 << 20
		r.SessionEpoch = -1
		for _, t := range order {
			rt := kmsg.NewFetchRequestTopic()
			rt.Topic = t
			rt.TopicID = vfTopicID[t]
			for _, p := range byTopic[t] {
				rp := kmsg.NewFetchRequestTopicPartition()
				rp.Partition = p
				rp.PartitionMaxBytes = 1 << 20
				rt.Partitions = append(rt.Partitions, rp)
			}
			r.Topics = append(r.Topics, rt)
		}
		req = r
	}
	b := kmsg.NewRequestFormatter(kmsg.FormatterClientID("verif")).AppendRequest(nil, req, corr)
	return b[4:]
}

type vfEntry struct {
	Tp   string `json:"tp"`
	Code int16  `json:"code"`
}

func vfDecodeReply(api string, version int16, data []byte, corr int32) ([]vfEntry, error) {
	if len(data) < 4 {
		return nil, fmt.Errorf("short reply")
	}
	got := int32(data[0])<<24 | int32(data[1])<<16 | int32(data[2])<<8 | int32(data[3])
	if got != corr {
		return nil, fmt.Errorf("correlation id %d, want %d", got, corr)
	}
	var resp kmsg.Response
	if api == "produce" {
		resp = kmsg.NewPtrProduceResponse()
	} else {
		resp = kmsg.NewPtrFetchResponse()
	}
	resp.SetVersion(version)
	body := data[4:]
	if resp.IsFlexible() {
		if len(body) < 1 || body[0] != 0 {
			return nil, fmt.Errorf("unexpected response header tags")
		}
		body = body[1:]
	}
	if err := resp.ReadFrom(body); err != nil {
		return nil, err
	}
	out := []vfEntry{}
	switch r := resp.(type) {
	case *kmsg.ProduceResponse:
		for _, t := range r.Topics {
			for _, p := range t.Partitions {
				out = append(out, vfEntry{vfTPName(t.Topic, [16]byte{}, p.Partition), p.ErrorCode})
			}
		}
	case *kmsg.FetchResponse:
		for _, t := range r.Topics {
			for _, p := range t.Partitions {
				out = append(out, vfEntry{vfTPName(t.Topic, t.TopicID, p.Partition), p.ErrorCode})
			}
		}
	}
	return out, nil
}

func TestVerifProxyFanoutReplay(t *testing.T) {
	in, outPath := os.Getenv("VERIF_SCHEDULES"), os.Getenv("VERIF_TRACE_OUT")
	if in == "" || outPath == "" {
		t.Skip("no schedules")
	}
	f, err := os.Open(in)
	if err != nil {
		t.Fatal(err)
	}
	defer f.Close()
	out, err := os.Create(outPath)
	if err != nil {
		t.Fatal(err)
	}
	defer out.Close()
	w := bufio.NewWriter(out)
	defer w.Flush()
	emit := func(m any) {
		b, err := json.Marshal(m)
		if err != nil {
			t.Fatal(err)
		}
		w.Write(b)
		w.WriteByte('\n')
	}

	// sanity of the harness's own "undecodable reply"
	for _, v := range []int16{7, 9} {
		if _, err := parseProduceResponse(vfGarbage(1), v); err == nil {
			t.Fatalf("garbage decodes as produce v%d", v)
		}
	}
	for _, v := range []int16{11, 13} {
		if _, err := parseFetchResponse(vfGarbage(1), v); err == nil {
			t.Fatalf("garbage decodes as fetch v%d", v)
		}
	}

	logger := slog.New(slog.NewTextHandler(io.Discard, nil))
	router := &metadata.PartitionRouter{}

	sc := bufio.NewScanner(f)
	sc.Buffer(make([]byte, 1<<20), 1<<26)
	n := 0
	for sc.Scan() {
		var s vfSched
		if err := json.Unmarshal(sc.Bytes(), &s); err != nil {
			t.Fatal(err)
		}
		rec := &vfRecorder{}
		down := map[string]bool{}
		for _, d := range s.Down {
			down[d] = true
		}
		backends := map[string]*vfBackend{}
		var addrs []string
		brokerAddrs := map[string]string{}
		for _, name := range vfAllBackends {
			b, err := vfNewBackend(name, down[name], s.Scripts[name], s.Dflt, rec)
			if err != nil {
				t.Fatal(err)
			}
			backends[name] = b
			addrs = append(addrs, b.addr)
			brokerAddrs[vfBrokerID[name]] = b.addr
		}
		want := map[string]string{}
		routeLog := map[string]string{}
		for _, tp := range vfAllTPs {
			routeLog[tp] = "none"
			if o, ok := s.Route[tp]; ok && o != "none" {
				want[tp] = vfBrokerID[o]
				routeLog[tp] = o
			}
		}
		vfSetRoutes(t, router, want)

		p := &proxy{
			backends:       addrs,
			logger:         logger,
			dialTimeout:    2 * time.Second,
			backendRetries: 2,
			backendBackoff: time.Millisecond,
			router:         router,
			brokerAddrs:    brokerAddrs,
			topicNames:     map[[16]byte]string{vfTopicID["t1"]: "t1", vfTopicID["t2"]: "t2"},
			rr:             s.RR,
		}
		p.setReady(true)
		pool := newConnPool(p.dialTimeout)

		req := append([]string(nil), s.Req...)
		sort.Strings(req)
		dn := append([]string{}, s.Down...)
		sort.Strings(dn)
		emit(map[string]any{"ev": "Start", "sched": n, "api": s.Api, "ids": s.Ids, "req": req, "route": routeLog, "down": dn})

		corr := int32(1000 + n)
		payload := vfBuildRequest(&s, corr)
		// exactly what handleConnection does with a frame
		header, body, err := protocol.ParseRequestHeader(payload)
		if err != nil {
			t.Fatal(err)
		}
		ctx, cancel := context.WithTimeout(context.Background(), 20*time.Second)
		var resp []byte
		var herr error
		if s.Api == "produce" {
			resp, herr = p.handleProduceRouting(ctx, header, payload, pool)
		} else {
			resp, herr = p.handleFetchRouting(ctx, header, payload, pool)
		}
		errText := ""
		if herr != nil {
			errText = herr.Error()
			var ok bool
			resp, ok, err = p.buildNotReadyResponse(header, body) // respondBackendError
			if err != nil || !ok {
				resp = nil
			}
		}
		cancel()
		pool.Close()
		for _, b := range backends {
			b.close()
		}
		rec.mu.Lock()
		if len(rec.errs) > 0 {
			t.Fatalf("schedule %d: %v", n, rec.errs)
		}
		for _, rv := range rec.recvs {
			emit(map[string]any{"ev": "Recv", "b": rv.B, "tps": rv.Tps, "kind": rv.Kind, "codes": rv.Codes, "nrec": rv.NRec})
		}
		rec.mu.Unlock()
		entries := []vfEntry{}
		decodeErr := ""
		if resp != nil {
			var derr error
			entries, derr = vfDecodeReply(s.Api, header.APIVersion, resp, corr)
			if derr != nil {
				decodeErr = derr.Error()
				entries = []vfEntry{}
			}
		}
		emit(map[string]any{"ev": "Done", "entries": entries, "err": errText, "decodeErr": decodeErr, "replied": resp != nil})
		n++
	}
	t.Logf("replayed %d schedules", n)
}
