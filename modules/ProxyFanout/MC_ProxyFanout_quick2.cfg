CONSTANTS
 TPs = {"t1p0","t2p0"}
 Backends = {"b1","b2"}
 Apis = {"produce","fetch"}
 IdModes = {"name"}
 MaxAttempts = 3
 MaxFaults = 3
 CanonOrder = TRUE
 ErrCodes = {3}
 MaxDown = 1
 DevRetryOnTimeout = FALSE
 DevDropFailed = FALSE
 DevDoubleMerge = FALSE
 DevNoFillIn = FALSE
INIT Init
NEXT Next
INVARIANTS C27_OneEntryEach C27_SuccessBacked C27_ResendOnlyAfterNotLeader C27_NoDuplicateWrite TypeOK InjectiveTargets
VIEW View
CHECK_DEADLOCK FALSE
