---- MODULE Obs_ProxyFanout ----
(* Observation layer: no model actions.  State is accumulated from the lines recorded around the real    *)
(* handleProduceRouting / handleFetchRouting (inputs, what each fake broker received and answered, the   *)
(* decoded client reply); the C27 predicates are the ProxyFanoutProps definitions instantiated with the  *)
(* observed values.  Violations are accumulated and printed once.                                        *)
EXTENDS Integers, Sequences, FiniteSets, TLC, Json
TraceLog == ndJsonDeserialize("trace.ndjson")
VARIABLES l, api, req, recvs, viol
ovars == <<l, api, req, recvs, viol>>
ToSet(s) == {s[i] : i \in DOMAIN s}
P(a, rq, rp, rv, fin) == INSTANCE ProxyFanoutProps WITH api <- a, req <- rq, reply <- rp, recvs <- rv, finished <- fin
OInit == l = 0 /\ api = "none" /\ req = {} /\ recvs = <<>> /\ viol = {}
Step ==
  /\ l < Len(TraceLog) /\ l' = l + 1
  /\ LET e == TraceLog[l + 1] IN
     /\ api' = IF e.ev = "Start" THEN e.api ELSE api
     /\ req' = IF e.ev = "Start" THEN ToSet(e.req) ELSE req
     /\ recvs' = IF e.ev = "Start" THEN <<>>
                 ELSE IF e.ev = "Recv" THEN Append(recvs, [b |-> e.b, tps |-> ToSet(e.tps), kind |-> e.kind, codes |-> e.codes])
                 ELSE recvs
     /\ LET fin == e.ev = "Done"
            rp  == IF fin THEN e.entries ELSE <<>>
        IN viol' = IF e.ev = "Start" THEN viol ELSE viol \cup
             {<<l + 1, n>> : n \in
                (IF P(api', req', rp, recvs', fin)!C27_OneEntryEach THEN {} ELSE {"C27_OneEntryEach"}) \cup
                (IF P(api', req', rp, recvs', fin)!C27_SuccessBacked THEN {} ELSE {"C27_SuccessBacked"}) \cup
                (IF P(api', req', rp, recvs', fin)!C27_ResendOnlyAfterNotLeader THEN {} ELSE {"C27_ResendOnlyAfterNotLeader"}) \cup
                (IF P(api', req', rp, recvs', fin)!C27_NoDuplicateWrite THEN {} ELSE {"C27_NoDuplicateWrite"})}
     /\ (l' = Len(TraceLog)) => PrintT(<<"OBS", ToJson([consumed |-> l', viol |-> viol'])>>)
OSpec == OInit /\ [][Step]_ovars
====
