CONSTANTS
 TPs = {"t1p0","t1p1","t2p0"}
 Backends = {"b1","b2","b3"}
 Apis = {"produce","fetch"}
 IdModes = {"name"}
 MaxAttempts = 3
 MaxFaults = 4
 CanonOrder = FALSE
 ErrCodes = {3}
 MaxDown = 2
 DevRetryOnTimeout = FALSE
 DevDropFailed = FALSE
 DevDoubleMerge = FALSE
 DevNoFillIn = FALSE
INIT Init
NEXT Next
INVARIANTS EmitSched C27_OneEntryEach C27_SuccessBacked C27_ResendOnlyAfterNotLeader C27_NoDuplicateWrite
CHECK_DEADLOCK FALSE
