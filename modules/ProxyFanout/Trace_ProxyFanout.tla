---- MODULE Trace_ProxyFanout ----
(* Conformance layer: the recorded events of one client request must be a behaviour of ProxyFanout.tla.  *)
(* Logged: Start (inputs), Recv (= Exchange: which backend got which partitions and what it answered),   *)
(* Done (= Finish: the reply, compared as a bag of [tp, code]).  ConnectGroup and Merge are not           *)
(* observable from outside the proxy and are composed in as silent steps; the logged events pin down     *)
(* which of them happened (a partition can only arrive at backend b if some ConnectGroup chose b).       *)
EXTENDS ProxyFanout
TraceLog == ndJsonDeserialize("trace.ndjson")
VARIABLE l
tvars == <<vars, l>>
E == TraceLog[l]
ToSet(s) == {s[i] : i \in DOMAIN s}
Cur(ev) == l <= Len(TraceLog) /\ E.ev = ev /\ l' = l + 1
Bag(s) == [x \in ToSet(s) |-> Cardinality({i \in DOMAIN s : s[i] = x})]
TInit == Init /\ l = 1 /\ TLCSet(7, 0)
TStart == /\ Cur("Start") /\ phase \in {"idle", "end"}
          /\ StartVars(E.api, E.ids, ToSet(E.req), [tp \in TPs |-> E.route[tp]], ToSet(E.down))
          /\ hist' = <<>>
TRecv == /\ Cur("Recv")
         /\ \E w \in work : /\ w.t = E.b /\ w.tps = ToSet(E.tps)
                            /\ Exchange(w, E.kind, [tp \in w.tps |-> E.codes[tp]])
TDone == /\ Cur("Done") /\ Finish
         /\ Bag(reply) = Bag(E.entries)
Silent == /\ l <= Len(TraceLog) /\ UNCHANGED l
          /\ \/ \E g \in todo, t \in Backends \cup {"fail"} : ConnectGroup(g, t)
             \/ Merge
Consumed == TLCSet(7, IF TLCGet(7) < l' - 1 THEN l' - 1 ELSE TLCGet(7))   \* high-water mark of consumed lines
TNext == (TStart \/ TRecv \/ TDone \/ Silent) /\ Consumed
TSpec == TInit /\ [][TNext]_tvars
Reached == PrintT(<<"CONF", ToJson([reached |-> TLCGet(7), total |-> Len(TraceLog)])>>)
====
