---- MODULE MC_ProxyFanout ----
EXTENDS ProxyFanout
====
