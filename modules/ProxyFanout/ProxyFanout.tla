---- MODULE ProxyFanout ----
(* cmd/proxy/main.go: handleProduceRouting/forwardProduce/fanOutProduce and the fetch twins.               *)
(* One client request.  Actions follow the code:                                                            *)
(*   Start         groupPartitionsByBroker(req, nil) with the routing table as it is                         *)
(*   ConnectGroup  one iteration of `for addr, subReq := range groups` in fanOut*: connectForAddr            *)
(*                 (owner if known, not yet used in this attempt and reachable; otherwise round-robin over   *)
(*                 the reachable backends not yet used; otherwise a connect error).  Go map order and the    *)
(*                 round-robin counter are not modelled: any order / any eligible backend.                   *)
(*   Exchange      one forwardToBackend goroutine: the backend receives the sub-request and answers per      *)
(*                 partition, or the connection dies after the send, or the answer does not decode           *)
(*   Merge         the result loop of forward*: errors -> REQUEST_TIMED_OUT entries (produce; fetch on the    *)
(*                 last attempt) or retry (fetch), NOT_LEADER -> Invalidate + retry set, other codes ->      *)
(*                 merged; then regroup (groupPartitionsByBroker(fullReq, failed)) or final fill-in          *)
EXTENDS Integers, Sequences, FiniteSets, TLC, Json
CONSTANTS TPs, Backends, Apis, IdModes, MaxAttempts, MaxFaults, MaxDown,
          ErrCodes,           \* per-partition error codes a broker may answer besides 0 and NOT_LEADER (they are merged like a success)
          CanonOrder,         \* TRUE: the concurrent exchanges of one attempt are explored in one fixed order only (they touch
                              \* disjoint partitions and commute; the properties do not depend on their relative order)
          DevRetryOnTimeout,  \* deviation: produce retries a sub-request whose connection failed after the send (as fetch may)
          DevDropFailed,      \* deviation: partitions of a failed sub-request get no entry
          DevDoubleMerge,     \* deviation: NOT_LEADER partitions are merged and also retried
          DevNoFillIn         \* deviation: partitions still NOT_LEADER after the last attempt get no entry
VARIABLES phase, api, ids, req, route, down, attempt, todo, tried, work, results, reply, recvs, nfault, hist
vars == <<phase, api, ids, req, route, down, attempt, todo, tried, work, results, reply, recvs, nfault, hist>>

OK == 0   NL == 6   TO == 7
Codes == {OK, NL} \cup ErrCodes
None == "none"
Up == Backends \ down

RECURSIVE SetToSeq(_)
SetToSeq(S) == IF S = {} THEN <<>> ELSE LET x == CHOOSE x \in S : TRUE IN <<x>> \o SetToSeq(S \ {x})

\* groups of the partitions `ps` under routing table `rt`: set of [g, tps]
GroupsOf(ps, rt) == {[g |-> g, tps |-> {tp \in ps : rt[tp] = g}] : g \in {rt[tp] : tp \in ps}}

Init == /\ phase = "idle" /\ api = "none" /\ ids = "none" /\ req = {} /\ route = [tp \in TPs |-> None] /\ down = {}
        /\ attempt = 0 /\ todo = {} /\ tried = {} /\ work = {} /\ results = {} /\ reply = <<>> /\ recvs = <<>>
        /\ nfault = 0 /\ hist = <<>>

StartVars(a, im, rq, rt, dn) ==
  /\ phase' = "connect" /\ api' = a /\ ids' = im /\ req' = rq /\ route' = rt /\ down' = dn
  /\ attempt' = 0 /\ todo' = GroupsOf(rq, rt) /\ tried' = {} /\ work' = {} /\ results' = {}
  /\ reply' = <<>> /\ recvs' = <<>> /\ nfault' = 0

Start(a, im, rq, rt, dn) ==
  /\ phase = "idle" /\ rq # {} /\ Cardinality(dn) <= MaxDown
  /\ \A tp \in TPs \ rq : rt[tp] = None
  /\ StartVars(a, im, rq, rt, dn)
  /\ hist' = <<[a |-> "Start", api |-> a, ids |-> im, req |-> rq, route |-> rt, down |-> dn]>>

\* connectForAddr(addr, triedBackends): t = the backend connected to, or "fail"
ConnectGroup(g, t) ==
  /\ phase = "connect" /\ g \in todo
  /\ LET direct == g.g # None /\ g.g \notin tried /\ g.g \in Up
         rr == Up \ tried
     IN \/ /\ direct /\ t = g.g
        \/ /\ ~direct /\ t \in rr
        \/ /\ ~direct /\ rr = {} /\ t = "fail"
  /\ todo' = todo \ {g}
  /\ IF t = "fail"
     THEN /\ results' = results \cup {[tps |-> g.tps, kind |-> "err", codes |-> [tp \in g.tps |-> -1]]}
          /\ UNCHANGED <<tried, work>>
     ELSE /\ tried' = tried \cup {t} /\ work' = work \cup {[t |-> t, tps |-> g.tps]}
          /\ UNCHANGED results
  /\ phase' = IF todo' = {} THEN "exchange" ELSE "connect"
  /\ hist' = Append(hist, [a |-> "Connect", g |-> g.g, t |-> t])
  /\ UNCHANGED <<api, ids, req, route, down, attempt, reply, recvs, nfault>>

Exchange(w, kind, codes) ==
  /\ phase = "exchange" /\ w \in work
  /\ CanonOrder => w = CHOOSE x \in work : TRUE
  /\ LET faulty == kind # "codes" \/ \E tp \in w.tps : codes[tp] # OK IN
       /\ nfault' = nfault + (IF faulty THEN 1 ELSE 0)
       /\ nfault' <= MaxFaults
  /\ work' = work \ {w}
  /\ recvs' = Append(recvs, [b |-> w.t, tps |-> w.tps, kind |-> kind, codes |-> codes])
  /\ results' = results \cup {[tps |-> w.tps, kind |-> IF kind = "codes" THEN "ok" ELSE "err", codes |-> codes]}
  /\ hist' = Append(hist, [a |-> "Exchange", b |-> w.t, tps |-> w.tps, kind |-> kind, codes |-> codes])
  /\ UNCHANGED <<phase, api, ids, req, route, down, attempt, todo, tried, reply>>

Merge ==
  /\ phase = "exchange" /\ work = {}
  /\ LET last     == attempt = MaxAttempts - 1
         errTps   == UNION {r.tps : r \in {x \in results : x.kind = "err"}}
         okPairs  == UNION {{[tp |-> tp, code |-> r.codes[tp]] : tp \in r.tps} : r \in {x \in results : x.kind = "ok"}}
         nlTps    == {e.tp : e \in {x \in okPairs : x.code = NL}}
         errRetry == ~last /\ (api = "fetch" \/ DevRetryOnTimeout)
         errEnt   == IF errRetry \/ DevDropFailed THEN {} ELSE {[tp |-> tp, code |-> TO] : tp \in errTps}
         okEnt    == {e \in okPairs : e.code # NL \/ DevDoubleMerge}
         failed   == nlTps \cup (IF errRetry THEN errTps ELSE {})
         rt2      == [tp \in TPs |-> IF tp \in nlTps THEN None ELSE route[tp]]
         merged   == reply \o SetToSeq(errEnt) \o SetToSeq(okEnt)
     IN /\ route' = rt2
        /\ results' = {}
        /\ IF failed = {}
           THEN /\ reply' = merged /\ phase' = "done" /\ UNCHANGED <<attempt, todo, tried>>
           ELSE IF last
                THEN /\ reply' = IF DevNoFillIn THEN merged ELSE merged \o SetToSeq({[tp |-> tp, code |-> NL] : tp \in failed})
                     /\ phase' = "done" /\ UNCHANGED <<attempt, todo, tried>>
                ELSE /\ reply' = merged /\ attempt' = attempt + 1 /\ todo' = GroupsOf(failed, rt2) /\ tried' = {}
                     /\ phase' = "connect"
  /\ hist' = Append(hist, [a |-> "Merge"])
  /\ UNCHANGED <<api, ids, req, down, work, recvs, nfault>>

\* the reply is written to the client
Finish ==
  /\ phase = "done" /\ phase' = "end"
  /\ hist' = Append(hist, [a |-> "Finish"])
  /\ UNCHANGED <<api, ids, req, route, down, attempt, todo, tried, work, results, reply, recvs, nfault>>

\* one named operator per action so that TLC's coverage reports them by name
\* (guards repeated outside the quantifiers: TLC would otherwise enumerate them in every state)
StartAny ==
  /\ phase = "idle"
  /\ \E a \in Apis, im \in IdModes, rq \in (SUBSET TPs) \ {{}}, dn \in SUBSET Backends :
       \E rt \in [rq -> Backends \cup {None}] :
          Start(a, im, rq, [tp \in TPs |-> IF tp \in rq THEN rt[tp] ELSE None], dn)
ConnectAny ==
  /\ phase = "connect"
  /\ \E g \in todo, t \in Backends \cup {"fail"} : ConnectGroup(g, t)
ExchangeAny ==
  /\ phase = "exchange"
  /\ \E w \in work : \/ \E codes \in [w.tps -> Codes] : Exchange(w, "codes", codes)
                      \/ \E k \in {"drop", "garbage"} : Exchange(w, k, [tp \in w.tps |-> -1])
Next == StartAny \/ ConnectAny \/ ExchangeAny \/ Merge \/ Finish
Spec == Init /\ [][Next]_vars

P == INSTANCE ProxyFanoutProps WITH api <- api, req <- req, reply <- reply, recvs <- recvs,
                                    finished <- (phase \in {"done", "end"})
C27_OneEntryEach == P!C27_OneEntryEach
C27_SuccessBacked == P!C27_SuccessBacked
C27_ResendOnlyAfterNotLeader == P!C27_ResendOnlyAfterNotLeader
C27_NoDuplicateWrite == P!C27_NoDuplicateWrite

\* internal facts (conformance level)
TypeOK == /\ phase \in {"idle", "connect", "exchange", "done", "end"}
          /\ attempt \in 0..(MaxAttempts - 1)
          /\ \A w \in work : w.t \in Up
InjectiveTargets == \A w1, w2 \in work : w1.t = w2.t => w1 = w2

View == <<phase, api, ids, req, route, down, attempt, todo, tried, work, results, reply, recvs, nfault>>
\* printed for complete requests only (TLC -simulate evaluates invariants on every generated successor)
EmitSched == (phase = "end") => PrintT(<<"SCHED", ToJson(hist)>>)
====
