---- MODULE Processor ----
(* addons/processors/{skeleton,sql-processor,iceberg-processor}/internal/processor/processor.go *)
(* The polling loop `Run` for the one partition whose lease the worker holds: every tick it      *)
(* lists the completed segments and, per segment in list order, LoadOffset -> Decode ->          *)
(* filterRecords(offset > loaded) -> [iceberg: LFS resolve per record] -> sink.Write ->          *)
(* CommitOffset(last written).  One action per external call (= one call on a harness fake).     *)
(* Every call may fail transiently (budget MaxFaults).                                           *)
EXTENDS Integers, Sequences, FiniteSets, TLC, Json
CONSTANTS MaxCycles, MaxFaults,
          Stores,           \* subset of {"noop","etcd"}: noop = the module's placeholder store (persists nothing,
                            \* LoadOffset returns a constant); etcd = LoadOffset returns -1 when absent, else the commit
          HasLfs,           \* TRUE: iceberg processor (every record value is an LFS envelope resolved with one worker)
          FixBreakOnError,  \* TRUE: a failed step ends the cycle (repaired); FALSE: `continue` with the next segment
          FixSentinel,      \* TRUE: noop LoadOffset returns -1 (repaired); FALSE: returns 0 = "offset 0 is done"
          FixLfsFail        \* TRUE: an unresolved LFS blob fails the segment (repaired); FALSE: the record is dropped
SegOffsets == <<{0, 1}, {2}, {3}>>
NSeg == Len(SegOffsets)
AllOffsets == UNION {SegOffsets[i] : i \in 1..NSeg}
Min(S) == CHOOSE x \in S : \A y \in S : x <= y
Max(S) == CHOOSE x \in S : \A y \in S : x >= y

VARIABLES store, cyc, pc, idx, loaded, recs, lfsTodo, lfsBad,
          ckpt,     \* the checkpoint: offset of the last CommitOffset the store accepted (-1 = none)
          persist,  \* what the store really keeps and LoadOffset returns (etcd only; the placeholder keeps nothing)
          sink, nf, cycFaults, cleanDone, hist
vars == <<store, cyc, pc, idx, loaded, recs, lfsTodo, lfsBad, ckpt, persist, sink, nf, cycFaults, cleanDone, hist>>

Init == /\ store \in Stores /\ cyc = 0 /\ pc = "idle" /\ idx = 0 /\ loaded = -1 /\ recs = {} /\ lfsTodo = {}
        /\ lfsBad = FALSE /\ ckpt = -1 /\ persist = -1 /\ sink = {} /\ nf = 0 /\ cycFaults = 0 /\ cleanDone = FALSE /\ hist = <<>>

Bump(ok) == /\ (ok \/ nf < MaxFaults)
            /\ nf' = IF ok THEN nf ELSE nf + 1
            /\ cycFaults' = IF ok THEN cycFaults ELSE cycFaults + 1
\* the segment loop ran off its end (or was left): the select loop waits for the next tick
Finish == pc' = "idle" /\ idx' = 0 /\ cleanDone' = (cleanDone \/ cycFaults' = 0)
NextSeg == IF idx < NSeg THEN pc' = "load" /\ idx' = idx + 1 /\ UNCHANGED cleanDone ELSE Finish
OnError == IF FixBreakOnError THEN Finish ELSE NextSeg
Log(r) == hist' = Append(hist, r)
LoadValue == IF store = "noop" THEN (IF FixSentinel THEN -1 ELSE 0) ELSE persist

List(ok) ==
  /\ pc = "idle" /\ cyc < MaxCycles /\ (ok \/ nf < MaxFaults)
  /\ cyc' = cyc + 1 /\ nf' = (IF ok THEN nf ELSE nf + 1) /\ cycFaults' = (IF ok THEN 0 ELSE 1)
  /\ IF ok THEN pc' = "load" /\ idx' = 1 ELSE pc' = "idle" /\ idx' = 0
  /\ Log([a |-> "List", c |-> cyc', seg |-> 0, ok |-> ok])
  /\ UNCHANGED <<store, loaded, recs, lfsTodo, lfsBad, ckpt, persist, sink, cleanDone>>

Load(ok) ==
  /\ pc = "load" /\ Bump(ok)
  /\ IF ok THEN loaded' = LoadValue /\ pc' = "decode" /\ UNCHANGED <<idx, cleanDone>>
           ELSE OnError /\ UNCHANGED loaded
  /\ Log([a |-> "Load", c |-> cyc, seg |-> idx, ok |-> ok])
  /\ UNCHANGED <<store, cyc, recs, lfsTodo, lfsBad, ckpt, persist, sink>>

Decode(ok) ==
  /\ pc = "decode" /\ Bump(ok)
  /\ IF ok
     THEN LET r == {o \in SegOffsets[idx] : o > loaded} IN
          /\ recs' = r /\ lfsBad' = FALSE
          /\ IF r = {} THEN NextSeg /\ UNCHANGED lfsTodo
             ELSE IF HasLfs THEN pc' = "lfs" /\ lfsTodo' = r /\ UNCHANGED <<idx, cleanDone>>
             ELSE pc' = "write" /\ UNCHANGED <<idx, cleanDone, lfsTodo>>
     ELSE OnError /\ UNCHANGED <<recs, lfsTodo, lfsBad>>
  /\ Log([a |-> "Decode", c |-> cyc, seg |-> idx, ok |-> ok])
  /\ UNCHANGED <<store, cyc, loaded, ckpt, persist, sink>>

Lfs(ok) ==
  /\ pc = "lfs" /\ lfsTodo # {} /\ Bump(ok)
  /\ LET o == Min(lfsTodo) IN
     /\ lfsTodo' = lfsTodo \ {o}
     /\ recs' = IF ok \/ FixLfsFail THEN recs ELSE recs \ {o}
     /\ lfsBad' = (lfsBad \/ (~ok /\ FixLfsFail))
     /\ IF lfsTodo' # {} THEN UNCHANGED <<pc, idx, cleanDone>>
        ELSE IF lfsBad' THEN OnError
        ELSE IF recs' = {} THEN NextSeg
        ELSE pc' = "write" /\ UNCHANGED <<idx, cleanDone>>
     /\ Log([a |-> "Lfs", c |-> cyc, seg |-> idx, off |-> o, ok |-> ok])
  /\ UNCHANGED <<store, cyc, loaded, ckpt, persist, sink>>

Write(ok) ==
  /\ pc = "write" /\ Bump(ok)
  /\ IF ok THEN sink' = sink \cup recs /\ pc' = "commit" /\ UNCHANGED <<idx, cleanDone>>
           ELSE OnError /\ UNCHANGED sink
  /\ Log([a |-> "Write", c |-> cyc, seg |-> idx, ok |-> ok])
  /\ UNCHANGED <<store, cyc, loaded, recs, lfsTodo, lfsBad, ckpt, persist>>

\* a failed commit is harmless (records were written; the checkpoint stays): the loop goes on with the next segment
Commit(ok) ==
  /\ pc = "commit" /\ Bump(ok)
  /\ ckpt' = IF ok THEN Max(recs) ELSE ckpt
  /\ persist' = IF ok /\ store = "etcd" THEN Max(recs) ELSE persist
  /\ NextSeg
  /\ Log([a |-> "Commit", c |-> cyc, seg |-> idx, ok |-> ok])
  /\ UNCHANGED <<store, cyc, loaded, recs, lfsTodo, lfsBad, sink>>

Next == \E ok \in BOOLEAN : List(ok) \/ Load(ok) \/ Decode(ok) \/ Lfs(ok) \/ Write(ok) \/ Commit(ok)
Spec == Init /\ [][Next]_vars

P == INSTANCE ProcessorProps WITH all <- AllOffsets, sink <- sink, ckpt <- ckpt, cleanDone <- cleanDone
C33_CheckpointSafe == P!C33_CheckpointSafe
C33_CleanCycleDelivers == P!C33_CleanCycleDelivers
\* internal facts (conformance level)
TypeOK == /\ pc \in {"idle", "load", "decode", "lfs", "write", "commit"} /\ sink \subseteq AllOffsets
          /\ ckpt \in {-1} \cup AllOffsets /\ (store = "noop" => persist = -1) /\ (store = "etcd" => persist = ckpt)
Terminal == pc = "idle" /\ cyc = MaxCycles

View == <<store, cyc, pc, idx, loaded, recs, lfsTodo, lfsBad, ckpt, persist, sink, nf, cycFaults, cleanDone>>
EmitSched == PrintT(<<"SCHED", ToJson([store |-> store, steps |-> hist])>>)
\* exhaustive enumeration of complete behaviours (cfg without VIEW): print the history of every terminal state
EmitFinal == Terminal => PrintT(<<"SCHED", ToJson([store |-> store, steps |-> hist])>>)
====
