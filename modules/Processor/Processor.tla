---- MODULE Processor ----
(* addons/processors/{skeleton,sql-processor,iceberg-processor}/internal/processor/processor.go *)
(* The polling loop `Run` of one worker over two partitions.  Every tick it lists the completed  *)
(* segments; without a lease it tries ClaimLease partition by partition (list order) and pins    *)
(* itself to the first one granted; then, per segment of the leased partition in list order,     *)
(* LoadOffset -> Decode -> filterRecords(offset > loaded) -> [iceberg: LFS resolve per record]   *)
(* -> sink.Write -> CommitOffset(last written).  A failed lease renewal (goroutine, every 10 s = *)
(* every second tick after the claim) makes the loop release the lease; the next tick claims     *)
(* again, possibly another partition.  One action per external call (= one call on a harness     *)
(* fake).  Every call may fail transiently (budget MaxFaults); a segment download may also be    *)
(* cut short in the middle of the body ("trunc").                                                *)
EXTENDS Integers, Sequences, FiniteSets, TLC, Json
CONSTANTS MaxCycles, MaxFaults,
          Stores,           \* subset of {"noop","etcd"}: noop = the module's placeholder store (persists nothing,
                            \* LoadOffset returns a constant); etcd = LoadOffset returns -1 when absent, else the commit
          HasLfs,           \* TRUE: iceberg processor (every record value is an LFS envelope resolved with one worker)
          FixBreakOnError,  \* TRUE: a failed step ends the cycle (repaired); FALSE: `continue` with the next segment
          FixSentinel,      \* TRUE: noop LoadOffset returns -1 (repaired); FALSE: returns 0 = "offset 0 is done"
          FixLfsFail,       \* TRUE: an unresolved LFS blob fails the segment (repaired); FALSE: the record is dropped
          DevStaleCache,    \* deviation: LoadOffset once, then a local copy updated on commit - not keyed by partition,
                            \* not reset when the lease is lost
          DevTruncAccepted  \* deviation: a download cut short is decoded as if complete (leading records only, no error)
Parts == {0, 1}
SegList == << [p |-> 0, offs |-> {0, 1}], [p |-> 0, offs |-> {2}], [p |-> 0, offs |-> {3}],
              [p |-> 1, offs |-> {0}], [p |-> 1, offs |-> {5}] >>
NSeg == Len(SegList)
AllOf(p) == UNION {SegList[i].offs : i \in {j \in 1..NSeg : SegList[j].p = p}}
Min(S) == CHOOSE x \in S : \A y \in S : x <= y
Max(S) == CHOOSE x \in S : \A y \in S : x >= y
None == -2   \* "no value" for the deviation's local checkpoint copy

VARIABLES store, cyc, pc, idx, loaded, recs, lfsTodo, lfsBad,
          lease,     \* partition the worker is pinned to, -1 = no lease
          claimCyc,  \* cycle in which the current lease was claimed (the renewal ticker starts then)
          claimTodo, \* partitions still to try in this cycle's claim loop
          ckpt,      \* per partition: offset of the last CommitOffset the store accepted (-1 = none)
          persist,   \* per partition: what the store really keeps and LoadOffset returns (etcd only)
          sink,      \* per partition: offsets successfully written
          cached,    \* DevStaleCache only: the local copy of the checkpoint
          nf, cycFaults, cleanDone, hist
vars == <<store, cyc, pc, idx, loaded, recs, lfsTodo, lfsBad, lease, claimCyc, claimTodo, ckpt, persist, sink, cached,
          nf, cycFaults, cleanDone, hist>>
loopv == <<loaded, recs, lfsTodo, lfsBad>>          \* per-segment scratch
stv == <<ckpt, persist, sink>>                      \* store and sink
lsv == <<lease, claimCyc, claimTodo>>               \* lease

Init == /\ store \in Stores /\ cyc = 0 /\ pc = "idle" /\ idx = 0 /\ loaded = -1 /\ recs = {} /\ lfsTodo = {}
        /\ lfsBad = FALSE /\ lease = -1 /\ claimCyc = 0 /\ claimTodo = <<>>
        /\ ckpt = [p \in Parts |-> -1] /\ persist = [p \in Parts |-> -1] /\ sink = [p \in Parts |-> {}]
        /\ cached = None /\ nf = 0 /\ cycFaults = 0 /\ cleanDone = {} /\ hist = <<>>

Bump(ok) == /\ (ok \/ nf < MaxFaults)
            /\ nf' = IF ok THEN nf ELSE nf + 1
            /\ cycFaults' = IF ok THEN cycFaults ELSE cycFaults + 1
SegsOf(p) == {j \in 1..NSeg : SegList[j].p = p}
\* the segment loop ran off its end (or was left) while pinned to partition p: the select loop waits for the next tick
Finish(p) == pc' = "idle" /\ idx' = 0 /\ cleanDone' = (IF cycFaults' = 0 /\ p # -1 THEN cleanDone \cup {p} ELSE cleanDone)
Enter(p, after) == LET later == {j \in SegsOf(p) : j > after} IN
                   IF later = {} THEN Finish(p) ELSE pc' = "load" /\ idx' = Min(later) /\ UNCHANGED cleanDone
NextSeg == Enter(lease, idx)
OnError == IF FixBreakOnError THEN Finish(lease) ELSE NextSeg
Log(r) == hist' = Append(hist, r)
LoadValue == IF store = "noop" THEN (IF FixSentinel THEN -1 ELSE 0) ELSE persist[lease]

List(ok) ==
  /\ pc = "idle" /\ cyc < MaxCycles /\ (ok \/ nf < MaxFaults)
  /\ cyc' = cyc + 1 /\ nf' = (IF ok THEN nf ELSE nf + 1) /\ cycFaults' = (IF ok THEN 0 ELSE 1)
  /\ IF ~ok THEN pc' = "idle" /\ idx' = 0 /\ UNCHANGED <<cleanDone, claimTodo>>
     ELSE IF lease = -1 THEN pc' = "claim" /\ idx' = 0 /\ claimTodo' = <<0, 1>> /\ UNCHANGED cleanDone
     ELSE Enter(lease, 0) /\ UNCHANGED claimTodo
  /\ Log([a |-> "List", c |-> cyc', seg |-> 0, ok |-> ok])
  /\ UNCHANGED <<store, loopv, lease, claimCyc, stv, cached>>

\* ClaimLease for the next partition of the list (the code asks once per listed segment; same answer within a cycle)
Claim(ok) ==
  /\ pc = "claim" /\ claimTodo # <<>> /\ Bump(ok)
  /\ LET p == Head(claimTodo) IN
     /\ IF ok THEN lease' = p /\ claimCyc' = cyc /\ claimTodo' = <<>> /\ Enter(p, 0)
        ELSE /\ claimTodo' = Tail(claimTodo) /\ UNCHANGED <<lease, claimCyc>>
             /\ IF Tail(claimTodo) = <<>> THEN Finish(-1) ELSE UNCHANGED <<pc, idx, cleanDone>>
     /\ Log([a |-> "Claim", c |-> cyc, seg |-> 0, p |-> p, ok |-> ok])
  /\ UNCHANGED <<store, cyc, loopv, stv, cached>>

\* the j-th renewal after the claim fires at tick claimCyc + 2j; its failure reaches the loop before the next tick
Lose ==
  /\ pc = "idle" /\ lease # -1 /\ cyc < MaxCycles /\ nf < MaxFaults
  /\ cyc - claimCyc >= 2 /\ (cyc - claimCyc) % 2 = 0
  /\ lease' = -1 /\ nf' = nf + 1
  /\ Log([a |-> "Lose", c |-> cyc, seg |-> 0, ok |-> FALSE])
  /\ UNCHANGED <<store, cyc, pc, idx, loopv, claimCyc, claimTodo, stv, cached, cycFaults, cleanDone>>

Load(ok) ==
  /\ pc = "load" /\ (DevStaleCache => cached = None) /\ Bump(ok)
  /\ IF ok THEN /\ loaded' = LoadValue /\ pc' = "decode" /\ UNCHANGED <<idx, cleanDone>>
                /\ cached' = IF DevStaleCache THEN LoadValue ELSE cached
           ELSE OnError /\ UNCHANGED <<loaded, cached>>
  /\ Log([a |-> "Load", c |-> cyc, seg |-> idx, ok |-> ok])
  /\ UNCHANGED <<store, cyc, recs, lfsTodo, lfsBad, lsv, stv>>
\* deviation only: no store call, the local copy is used (silent step)
LoadCached ==
  /\ pc = "load" /\ DevStaleCache /\ cached # None
  /\ loaded' = cached /\ pc' = "decode"
  /\ UNCHANGED <<store, cyc, idx, recs, lfsTodo, lfsBad, lsv, stv, cached, nf, cycFaults, cleanDone, hist>>

\* r = "ok" | "err" (the download request fails) | "trunc" (the body is cut short in the middle)
Decode(r) ==
  /\ pc = "decode" /\ Bump(r = "ok")
  /\ LET good == r = "ok" \/ (r = "trunc" /\ DevTruncAccepted)
         got == IF r = "trunc" THEN {Min(SegList[idx].offs)} ELSE SegList[idx].offs
         keep == {o \in got : o > loaded}
     IN IF good
        THEN /\ recs' = keep /\ lfsBad' = FALSE
             /\ IF keep = {} THEN NextSeg /\ UNCHANGED lfsTodo
                ELSE IF HasLfs THEN pc' = "lfs" /\ lfsTodo' = keep /\ UNCHANGED <<idx, cleanDone>>
                ELSE pc' = "write" /\ UNCHANGED <<idx, cleanDone, lfsTodo>>
        ELSE OnError /\ UNCHANGED <<recs, lfsTodo, lfsBad>>
  /\ Log([a |-> "Decode", c |-> cyc, seg |-> idx, ok |-> (r = "ok"), kind |-> r])
  /\ UNCHANGED <<store, cyc, loaded, lsv, stv, cached>>

Lfs(ok) ==
  /\ pc = "lfs" /\ lfsTodo # {} /\ Bump(ok)
  /\ LET o == Min(lfsTodo) IN
     /\ lfsTodo' = lfsTodo \ {o}
     /\ recs' = IF ok \/ FixLfsFail THEN recs ELSE recs \ {o}
     /\ lfsBad' = (lfsBad \/ (~ok /\ FixLfsFail))
     /\ IF lfsTodo' # {} THEN UNCHANGED <<pc, idx, cleanDone>>
        ELSE IF lfsBad' THEN OnError
        ELSE IF recs' = {} THEN NextSeg
        ELSE pc' = "write" /\ UNCHANGED <<idx, cleanDone>>
     /\ Log([a |-> "Lfs", c |-> cyc, seg |-> idx, off |-> o, ok |-> ok])
  /\ UNCHANGED <<store, cyc, loaded, lsv, stv, cached>>

Write(ok) ==
  /\ pc = "write" /\ Bump(ok)
  /\ IF ok THEN sink' = [sink EXCEPT ![lease] = @ \cup recs] /\ pc' = "commit" /\ UNCHANGED <<idx, cleanDone>>
           ELSE OnError /\ UNCHANGED sink
  /\ Log([a |-> "Write", c |-> cyc, seg |-> idx, ok |-> ok])
  /\ UNCHANGED <<store, cyc, loopv, lsv, ckpt, persist, cached>>

\* a failed commit is harmless (records were written; the checkpoint stays): the loop goes on with the next segment
Commit(ok) ==
  /\ pc = "commit" /\ Bump(ok)
  /\ ckpt' = IF ok THEN [ckpt EXCEPT ![lease] = Max(recs)] ELSE ckpt
  /\ persist' = IF ok /\ store = "etcd" THEN [persist EXCEPT ![lease] = Max(recs)] ELSE persist
  /\ cached' = IF ok /\ DevStaleCache THEN Max(recs) ELSE cached
  /\ NextSeg
  /\ Log([a |-> "Commit", c |-> cyc, seg |-> idx, ok |-> ok])
  /\ UNCHANGED <<store, cyc, loopv, lsv, sink>>

Next == \/ \E ok \in BOOLEAN : List(ok) \/ Claim(ok) \/ Load(ok) \/ Lfs(ok) \/ Write(ok) \/ Commit(ok)
        \/ \E r \in {"ok", "err", "trunc"} : Decode(r)
        \/ Lose \/ LoadCached
Spec == Init /\ [][Next]_vars

P == INSTANCE ProcessorProps WITH all <- [p \in Parts |-> AllOf(p)], sink <- sink, ckpt <- ckpt, cleanDone <- cleanDone
C33_CheckpointSafe == P!C33_CheckpointSafe
C33_CleanCycleDelivers == P!C33_CleanCycleDelivers
\* internal facts (conformance level)
TypeOK == /\ pc \in {"idle", "claim", "load", "decode", "lfs", "write", "commit"}
          /\ \A p \in Parts : sink[p] \subseteq AllOf(p) /\ ckpt[p] \in {-1} \cup AllOf(p)
          /\ (store = "noop" => persist = [p \in Parts |-> -1]) /\ (store = "etcd" => persist = ckpt)
          /\ (pc \notin {"idle", "claim"} => lease # -1 /\ SegList[idx].p = lease)
Terminal == pc = "idle" /\ cyc = MaxCycles

View == <<store, cyc, pc, idx, loaded, recs, lfsTodo, lfsBad, lease, claimCyc, claimTodo, ckpt, persist, sink, cached,
          nf, cycFaults, cleanDone>>
EmitSched == PrintT(<<"SCHED", ToJson([store |-> store, steps |-> hist])>>)
\* exhaustive enumeration of complete behaviours (cfg without VIEW): print the history of every terminal state
EmitFinal == Terminal => PrintT(<<"SCHED", ToJson([store |-> store, steps |-> hist])>>)
====
