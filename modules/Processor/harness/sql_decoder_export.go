//go:build verif

package decoder

// Verification shim (injected with `go test -overlay`; not part of the repository): lets the processor harness run the
// REAL S3 segment decoder (getObject + decodeSegment) over an in-memory object store instead of an AWS client.
func VerifNewS3Decoder(client getObjectAPI, bucket string) Decoder {
	return &s3Decoder{client: client, bucket: bucket, metrics: newS3Metrics()}
}
