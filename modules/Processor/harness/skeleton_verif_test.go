//go:debug asynctimerchan=0
package processor

// Verification harness (injected with `go test -overlay`; not part of the repository).
// Runs the real Processor.Run of the skeleton add-on under testing/synctest with in-package fakes for
// Lister / Decoder / Store / Writer, injects the transient failures named by TLC-generated schedules
// (keyed "cycle:segment:op"), and records one ndjson line per external call the loop made.

import (
	"bufio"
	"context"
	"encoding/json"
	"errors"
	"fmt"
	"os"
	"sync"
	"testing"
	"testing/synctest"
	"time"

	"github.com/KafScale/platform/addons/processors/skeleton/internal/checkpoint"
	"github.com/KafScale/platform/addons/processors/skeleton/internal/decoder"
	"github.com/KafScale/platform/addons/processors/skeleton/internal/discovery"
	"github.com/KafScale/platform/addons/processors/skeleton/internal/sink"
)

const pvProc = "skeleton"

type pvSched struct {
	Store  string   `json:"store"`  // "noop": the module's own placeholder store (wrapped); "etcd": in-memory, -1 when absent
	Cycles int      `json:"cycles"` // polling ticks to run
	Faults []string `json:"faults"` // "c:seg:op" (op = list|load|decode|trunc|write|commit), "c:seg:lfs:off", "c:0:claim:p", "c:0:lose"
	Segs   [][]int  `json:"segs"`   // offsets per segment, list order
	Parts  []int    `json:"parts"`  // partition of each segment
}

var errPvInjected = errors.New("verif: injected transient failure")

type pvWorld struct {
	mu     sync.Mutex
	emit   func(map[string]any)
	faults map[string]bool
	hit    map[string]bool
	segs   [][]int
	parts  []int
	cyc    int // number of ListCompleted calls so far
	seg    int // list index (1-based) of the segment being processed: guessed at LoadOffset, fixed by the Decode key
	loads  int // LoadOffset calls in this cycle
	lease  int // partition of the lease the loop holds (-1: none), as granted / released through the store
	asked  map[string]bool
	start  time.Time
	bad    string
}

// nthSegOf returns the list index (1-based) of the n-th segment of partition p (0 if there is none).
func (w *pvWorld) nthSegOf(p, n int) int {
	for i, q := range w.parts {
		if q == p {
			n--
			if n == 0 {
				return i + 1
			}
		}
	}
	return 0
}

func (w *pvWorld) fail(op string, extra ...int) bool {
	k := fmt.Sprintf("%d:%d:%s", w.cyc, w.seg, op)
	if op == "list" {
		k = fmt.Sprintf("%d:0:list", w.cyc)
	}
	for _, e := range extra {
		k += fmt.Sprintf(":%d", e)
	}
	if w.faults[k] {
		w.hit[k] = true
		return true
	}
	return false
}

type pvLister struct{ w *pvWorld }

func (l *pvLister) ListCompleted(ctx context.Context) ([]discovery.SegmentRef, error) {
	w := l.w
	w.mu.Lock()
	defer w.mu.Unlock()
	w.cyc++
	w.seg, w.loads = 0, 0
	if w.fail("list") {
		w.emit(map[string]any{"ev": "List", "c": w.cyc, "ok": false})
		return nil, errPvInjected
	}
	out := make([]discovery.SegmentRef, 0, len(w.segs))
	for i, offs := range w.segs {
		out = append(out, discovery.SegmentRef{Topic: "t", Partition: int32(w.parts[i]), BaseOffset: int64(offs[0]),
			SegmentKey: fmt.Sprintf("seg-%d", i+1), IndexKey: fmt.Sprintf("idx-%d", i+1)})
	}
	w.emit(map[string]any{"ev": "List", "c": w.cyc, "ok": true})
	return out, nil
}

type pvDecoder struct{ w *pvWorld }

func (d *pvDecoder) Decode(ctx context.Context, segmentKey, indexKey string) ([]decoder.Batch, error) {
	w := d.w
	w.mu.Lock()
	defer w.mu.Unlock()
	var seg int
	fmt.Sscanf(segmentKey, "seg-%d", &seg)
	w.seg = seg // the key is authoritative (a loop that does not load per segment is still traced correctly)
	if w.fail("decode") {
		w.emit(map[string]any{"ev": "Decode", "c": w.cyc, "seg": seg, "ok": false, "kind": "err"})
		return nil, errPvInjected
	}
	if w.fail("trunc") { // behind this interface a download cut short can only surface as an error
		w.emit(map[string]any{"ev": "Decode", "c": w.cyc, "seg": seg, "ok": false, "kind": "trunc"})
		return nil, errPvInjected
	}
	var out []decoder.Batch
	for _, o := range w.segs[seg-1] {
		out = append(out, decoder.Batch{Topic: "t", Partition: int32(w.parts[seg-1]), Offset: int64(o), Payload: []byte(fmt.Sprintf("v%d", o))})
	}
	w.emit(map[string]any{"ev": "Decode", "c": w.cyc, "seg": seg, "ok": true, "kind": "ok"})
	return out, nil
}

type pvStore struct {
	w     *pvWorld
	inner checkpoint.Store // non-nil: the module's placeholder store decides what is loaded / kept
	offs  map[int32]int64
}

func (s *pvStore) ClaimLease(ctx context.Context, topic string, partition int32, ownerID string) (checkpoint.Lease, error) {
	w := s.w
	w.mu.Lock()
	defer w.mu.Unlock()
	k := fmt.Sprintf("%d:0:claim:%d", w.cyc, partition)
	first := !w.asked[k]
	w.asked[k] = true
	if w.faults[k] { // held by another worker for this whole cycle (the loop asks once per listed segment)
		w.hit[k] = true
		if first {
			w.emit(map[string]any{"ev": "Claim", "c": w.cyc, "p": partition, "ok": false})
		}
		return checkpoint.Lease{}, errPvInjected
	}
	w.lease = int(partition)
	w.emit(map[string]any{"ev": "Claim", "c": w.cyc, "p": partition, "ok": true})
	return checkpoint.Lease{Topic: topic, Partition: partition, OwnerID: ownerID}, nil
}

// RenewLease is called every 10 s by the renewal goroutine, i.e. at the instant of every second poll tick after the
// claim.  A failing renewal answers one (virtual) second late, so the loss reaches the loop strictly between two ticks.
func (s *pvStore) RenewLease(ctx context.Context, lease checkpoint.Lease) error {
	w := s.w
	w.mu.Lock()
	c := int(time.Since(w.start) / (5 * time.Second))
	k := fmt.Sprintf("%d:0:lose", c)
	lose := w.faults[k]
	if lose {
		w.hit[k] = true
	}
	w.mu.Unlock()
	if !lose {
		return nil
	}
	time.Sleep(time.Second)
	w.mu.Lock()
	w.emit(map[string]any{"ev": "Lose", "c": c, "p": lease.Partition})
	w.mu.Unlock()
	return errPvInjected
}

func (s *pvStore) ReleaseLease(ctx context.Context, lease checkpoint.Lease) error {
	s.w.mu.Lock()
	s.w.lease = -1
	s.w.mu.Unlock()
	return nil
}

func (s *pvStore) LoadOffset(ctx context.Context, topic string, partition int32) (checkpoint.OffsetState, error) {
	w := s.w
	w.mu.Lock()
	defer w.mu.Unlock()
	w.loads++
	w.seg = w.nthSegOf(int(partition), w.loads)
	if w.fail("load") {
		w.emit(map[string]any{"ev": "Load", "c": w.cyc, "seg": w.seg, "ok": false, "ret": -1})
		return checkpoint.OffsetState{}, errPvInjected
	}
	var st checkpoint.OffsetState
	if s.inner != nil {
		var err error
		if st, err = s.inner.LoadOffset(ctx, topic, partition); err != nil {
			w.bad = "placeholder store failed: " + err.Error()
		}
	} else {
		st = checkpoint.OffsetState{Topic: topic, Partition: partition, Offset: -1}
		if off, ok := s.offs[partition]; ok {
			st.Offset = off
		}
	}
	w.emit(map[string]any{"ev": "Load", "c": w.cyc, "seg": w.seg, "ok": true, "ret": st.Offset})
	return st, nil
}

func (s *pvStore) CommitOffset(ctx context.Context, state checkpoint.OffsetState) error {
	w := s.w
	w.mu.Lock()
	defer w.mu.Unlock()
	if w.fail("commit") {
		w.emit(map[string]any{"ev": "Commit", "c": w.cyc, "seg": w.seg, "p": state.Partition, "off": state.Offset, "ok": false})
		return errPvInjected
	}
	if s.inner != nil {
		if err := s.inner.CommitOffset(ctx, state); err != nil {
			w.bad = "placeholder store failed: " + err.Error()
		}
	} else {
		s.offs[state.Partition] = state.Offset
	}
	w.emit(map[string]any{"ev": "Commit", "c": w.cyc, "seg": w.seg, "p": state.Partition, "off": state.Offset, "ok": true})
	return nil
}

type pvSink struct{ w *pvWorld }

func (k *pvSink) Write(ctx context.Context, records []sink.Record) error {
	w := k.w
	w.mu.Lock()
	defer w.mu.Unlock()
	offs := make([]int64, 0, len(records))
	part := int32(-1)
	for _, r := range records {
		offs = append(offs, r.Offset)
		if part == -1 {
			part = r.Partition
		}
		if r.Topic != "t" || r.Partition != part || string(r.Payload) != fmt.Sprintf("v%d", r.Offset) {
			w.bad = fmt.Sprintf("sink received a record that is not the decoded one: %+v", r)
		}
	}
	if w.fail("write") {
		w.emit(map[string]any{"ev": "Write", "c": w.cyc, "seg": w.seg, "p": part, "offs": offs, "ok": false})
		return errPvInjected
	}
	w.emit(map[string]any{"ev": "Write", "c": w.cyc, "seg": w.seg, "p": part, "offs": offs, "ok": true})
	return nil
}

func (k *pvSink) Close(ctx context.Context) error {
	k.w.mu.Lock()
	defer k.w.mu.Unlock()
	k.w.emit(map[string]any{"ev": "Close"})
	return nil
}

func pvNewProcessor(w *pvWorld, st *pvStore) *Processor {
	return &Processor{discover: &pvLister{w}, decode: &pvDecoder{w}, store: st, sink: &pvSink{w}, locks: newTopicLocker()}
}

func pvPlaceholderStore() checkpoint.Store { return checkpoint.New() }

func TestVerifProcessorReplay(t *testing.T) {
	in, outPath := os.Getenv("VERIF_SCHEDULES"), os.Getenv("VERIF_TRACE_OUT")
	if in == "" || outPath == "" {
		t.Skip("no schedules")
	}
	f, err := os.Open(in)
	if err != nil {
		t.Fatal(err)
	}
	defer f.Close()
	out, err := os.Create(outPath)
	if err != nil {
		t.Fatal(err)
	}
	defer out.Close()
	bw := bufio.NewWriter(out)
	defer bw.Flush()
	emit := func(m map[string]any) {
		b, _ := json.Marshal(m)
		bw.Write(b)
		bw.WriteByte('\n')
	}
	sc := bufio.NewScanner(f)
	sc.Buffer(make([]byte, 1<<20), 1<<26)
	n := 0
	for sc.Scan() {
		var s pvSched
		if err := json.Unmarshal(sc.Bytes(), &s); err != nil {
			t.Fatal(err)
		}
		emit(map[string]any{"ev": "Reset", "proc": pvProc, "store": s.Store, "cycles": s.Cycles, "sched": n, "all": pvAll(s.Segs, s.Parts)})
		w := &pvWorld{emit: emit, faults: map[string]bool{}, hit: map[string]bool{}, asked: map[string]bool{}, segs: s.Segs, parts: s.Parts, lease: -1}
		for _, k := range s.Faults {
			w.faults[k] = true
		}
		synctest.Test(t, func(t *testing.T) {
			w.start = time.Now()
			st := &pvStore{w: w, offs: map[int32]int64{}}
			if s.Store == "noop" {
				st.inner = pvPlaceholderStore()
			}
			p := pvNewProcessor(w, st)
			ctx, cancel := context.WithCancel(context.Background())
			done := make(chan error, 1)
			go func() { done <- p.Run(ctx) }()
			synctest.Wait()
			for c := 1; c <= s.Cycles; c++ {
				time.Sleep(5 * time.Second) // the poll ticker fires at the same virtual instant
				synctest.Wait()             // every goroutine of Run is blocked again: the cycle is over
				w.mu.Lock()
				if w.cyc != c {
					w.bad = fmt.Sprintf("after %d ticks the loop has listed %d times", c, w.cyc)
				}
				emit(map[string]any{"ev": "CycleEnd", "c": c, "lease": w.lease})
				w.mu.Unlock()
			}
			cancel()
			if err := <-done; err != nil {
				w.bad = "Run returned " + err.Error()
			}
		})
		if w.bad != "" {
			t.Fatalf("schedule %d: harness assumption broken: %s", n, w.bad)
		}
		unhit := []string{}
		for k := range w.faults {
			if !w.hit[k] {
				unhit = append(unhit, k)
			}
		}
		emit(map[string]any{"ev": "End", "unhit": len(unhit)})
		n++
	}
	t.Logf("replayed %d schedules", n)
}

// pvAll: offsets of all records per partition (index = partition)
func pvAll(segs [][]int, parts []int) [][]int {
	out := [][]int{}
	for i, s := range segs {
		for len(out) <= parts[i] {
			out = append(out, []int{})
		}
		out[parts[i]] = append(out[parts[i]], s...)
	}
	return out
}
