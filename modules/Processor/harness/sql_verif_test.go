//go:debug asynctimerchan=0
package processor

// Verification harness (injected with `go test -overlay`; not part of the repository).
// Runs the real Processor.Run of the sql-processor add-on under testing/synctest with in-package fakes for
// Lister / Decoder / Store / Writer, injects the transient failures named by TLC-generated schedules
// (keyed "cycle:segment:op"), and records one ndjson line per external call the loop made.

import (
	"bufio"
	"context"
	"encoding/json"
	"errors"
	"fmt"
	"os"
	"sync"
	"testing"
	"testing/synctest"
	"time"

	"github.com/kafscale/platform/addons/processors/sql-processor/internal/checkpoint"
	"github.com/kafscale/platform/addons/processors/sql-processor/internal/decoder"
	"github.com/kafscale/platform/addons/processors/sql-processor/internal/discovery"
	"github.com/kafscale/platform/addons/processors/sql-processor/internal/sink"
)

const pvProc = "sql"

type pvSched struct {
	Store  string   `json:"store"`  // "noop": the module's own placeholder store (wrapped); "etcd": in-memory, -1 when absent
	Cycles int      `json:"cycles"` // polling ticks to run
	Faults []string `json:"faults"` // "c:seg:op" (op = list|load|decode|write|commit), "c:seg:lfs:off"
	Segs   [][]int  `json:"segs"`   // offsets per segment, list order
}

var errPvInjected = errors.New("verif: injected transient failure")

type pvWorld struct {
	mu     sync.Mutex
	emit   func(map[string]any)
	faults map[string]bool
	hit    map[string]bool
	segs   [][]int
	cyc    int // number of ListCompleted calls so far
	seg    int // number of LoadOffset calls in this cycle (= index of the segment being processed)
	bad    string
}

func (w *pvWorld) fail(op string, extra ...int) bool {
	k := fmt.Sprintf("%d:%d:%s", w.cyc, w.seg, op)
	if op == "list" {
		k = fmt.Sprintf("%d:0:list", w.cyc)
	}
	for _, e := range extra {
		k += fmt.Sprintf(":%d", e)
	}
	if w.faults[k] {
		w.hit[k] = true
		return true
	}
	return false
}

type pvLister struct{ w *pvWorld }

func (l *pvLister) ListCompleted(ctx context.Context) ([]discovery.SegmentRef, error) {
	w := l.w
	w.mu.Lock()
	defer w.mu.Unlock()
	w.cyc++
	w.seg = 0
	if w.fail("list") {
		w.emit(map[string]any{"ev": "List", "c": w.cyc, "ok": false})
		return nil, errPvInjected
	}
	out := make([]discovery.SegmentRef, 0, len(w.segs))
	for i, offs := range w.segs {
		out = append(out, discovery.SegmentRef{Topic: "t", Partition: 0, BaseOffset: int64(offs[0]),
			SegmentKey: fmt.Sprintf("seg-%d", i+1), IndexKey: fmt.Sprintf("idx-%d", i+1)})
	}
	w.emit(map[string]any{"ev": "List", "c": w.cyc, "ok": true})
	return out, nil
}

type pvDecoder struct{ w *pvWorld }

func (d *pvDecoder) Decode(ctx context.Context, segmentKey, indexKey string, topic string, partition int32) ([]decoder.Record, error) {
	w := d.w
	w.mu.Lock()
	defer w.mu.Unlock()
	var seg int
	fmt.Sscanf(segmentKey, "seg-%d", &seg)
	if seg != w.seg {
		w.bad = fmt.Sprintf("Decode(%s) while the %d-th LoadOffset of the cycle is current", segmentKey, w.seg)
	}
	if w.fail("decode") {
		w.emit(map[string]any{"ev": "Decode", "c": w.cyc, "seg": seg, "ok": false})
		return nil, errPvInjected
	}
	var out []decoder.Record
	for _, o := range w.segs[seg-1] {
		out = append(out, decoder.Record{Topic: "t", Partition: 0, Offset: int64(o), Timestamp: int64(1000 + o), Value: []byte(fmt.Sprintf("v%d", o))})
	}
	w.emit(map[string]any{"ev": "Decode", "c": w.cyc, "seg": seg, "ok": true})
	return out, nil
}

type pvStore struct {
	w     *pvWorld
	inner checkpoint.Store // non-nil: the module's placeholder store decides what is loaded / kept
	have  bool
	off   int64
}

func (s *pvStore) ClaimLease(ctx context.Context, topic string, partition int32, ownerID string) (checkpoint.Lease, error) {
	return checkpoint.Lease{Topic: topic, Partition: partition, OwnerID: ownerID}, nil
}
func (s *pvStore) RenewLease(ctx context.Context, lease checkpoint.Lease) error   { return nil }
func (s *pvStore) ReleaseLease(ctx context.Context, lease checkpoint.Lease) error { return nil }

func (s *pvStore) LoadOffset(ctx context.Context, topic string, partition int32) (checkpoint.OffsetState, error) {
	w := s.w
	w.mu.Lock()
	defer w.mu.Unlock()
	w.seg++
	if w.fail("load") {
		w.emit(map[string]any{"ev": "Load", "c": w.cyc, "seg": w.seg, "ok": false, "ret": -1})
		return checkpoint.OffsetState{}, errPvInjected
	}
	var st checkpoint.OffsetState
	if s.inner != nil {
		var err error
		if st, err = s.inner.LoadOffset(ctx, topic, partition); err != nil {
			w.bad = "placeholder store failed: " + err.Error()
		}
	} else {
		st = checkpoint.OffsetState{Topic: topic, Partition: partition, Offset: -1}
		if s.have {
			st.Offset = s.off
		}
	}
	w.emit(map[string]any{"ev": "Load", "c": w.cyc, "seg": w.seg, "ok": true, "ret": st.Offset})
	return st, nil
}

func (s *pvStore) CommitOffset(ctx context.Context, state checkpoint.OffsetState) error {
	w := s.w
	w.mu.Lock()
	defer w.mu.Unlock()
	if w.fail("commit") {
		w.emit(map[string]any{"ev": "Commit", "c": w.cyc, "seg": w.seg, "off": state.Offset, "ok": false})
		return errPvInjected
	}
	if s.inner != nil {
		if err := s.inner.CommitOffset(ctx, state); err != nil {
			w.bad = "placeholder store failed: " + err.Error()
		}
	} else {
		s.have, s.off = true, state.Offset
	}
	w.emit(map[string]any{"ev": "Commit", "c": w.cyc, "seg": w.seg, "off": state.Offset, "ok": true})
	return nil
}

type pvSink struct{ w *pvWorld }

func (k *pvSink) Write(ctx context.Context, records []sink.Record) error {
	w := k.w
	w.mu.Lock()
	defer w.mu.Unlock()
	offs := make([]int64, 0, len(records))
	for _, r := range records {
		offs = append(offs, r.Offset)
		if r.Topic != "t" || r.Partition != 0 || string(r.Payload) != fmt.Sprintf("v%d", r.Offset) {
			w.bad = fmt.Sprintf("sink received a record that is not the decoded one: %+v", r)
		}
	}
	if w.fail("write") {
		w.emit(map[string]any{"ev": "Write", "c": w.cyc, "seg": w.seg, "offs": offs, "ok": false})
		return errPvInjected
	}
	w.emit(map[string]any{"ev": "Write", "c": w.cyc, "seg": w.seg, "offs": offs, "ok": true})
	return nil
}

func (k *pvSink) Close(ctx context.Context) error {
	k.w.mu.Lock()
	defer k.w.mu.Unlock()
	k.w.emit(map[string]any{"ev": "Close"})
	return nil
}

func pvNewProcessor(w *pvWorld, st *pvStore) *Processor {
	return &Processor{discover: &pvLister{w}, decode: &pvDecoder{w}, store: st, sink: &pvSink{w}, locks: newTopicLocker()}
}

func pvPlaceholderStore() checkpoint.Store { return checkpoint.New() }

func TestVerifProcessorReplay(t *testing.T) {
	in, outPath := os.Getenv("VERIF_SCHEDULES"), os.Getenv("VERIF_TRACE_OUT")
	if in == "" || outPath == "" {
		t.Skip("no schedules")
	}
	f, err := os.Open(in)
	if err != nil {
		t.Fatal(err)
	}
	defer f.Close()
	out, err := os.Create(outPath)
	if err != nil {
		t.Fatal(err)
	}
	defer out.Close()
	bw := bufio.NewWriter(out)
	defer bw.Flush()
	emit := func(m map[string]any) {
		b, _ := json.Marshal(m)
		bw.Write(b)
		bw.WriteByte('\n')
	}
	sc := bufio.NewScanner(f)
	sc.Buffer(make([]byte, 1<<20), 1<<26)
	n := 0
	for sc.Scan() {
		var s pvSched
		if err := json.Unmarshal(sc.Bytes(), &s); err != nil {
			t.Fatal(err)
		}
		emit(map[string]any{"ev": "Reset", "proc": pvProc, "store": s.Store, "cycles": s.Cycles, "sched": n, "all": pvAll(s.Segs)})
		w := &pvWorld{emit: emit, faults: map[string]bool{}, hit: map[string]bool{}, segs: s.Segs}
		for _, k := range s.Faults {
			w.faults[k] = true
		}
		synctest.Test(t, func(t *testing.T) {
			st := &pvStore{w: w}
			if s.Store == "noop" {
				st.inner = pvPlaceholderStore()
			}
			p := pvNewProcessor(w, st)
			ctx, cancel := context.WithCancel(context.Background())
			done := make(chan error, 1)
			go func() { done <- p.Run(ctx) }()
			synctest.Wait()
			for c := 1; c <= s.Cycles; c++ {
				time.Sleep(5 * time.Second) // the poll ticker fires at the same virtual instant
				synctest.Wait()             // every goroutine of Run is blocked again: the cycle is over
				w.mu.Lock()
				if w.cyc != c {
					w.bad = fmt.Sprintf("after %d ticks the loop has listed %d times", c, w.cyc)
				}
				emit(map[string]any{"ev": "CycleEnd", "c": c})
				w.mu.Unlock()
			}
			cancel()
			if err := <-done; err != nil {
				w.bad = "Run returned " + err.Error()
			}
		})
		if w.bad != "" {
			t.Fatalf("schedule %d: harness assumption broken: %s", n, w.bad)
		}
		unhit := []string{}
		for k := range w.faults {
			if !w.hit[k] {
				unhit = append(unhit, k)
			}
		}
		emit(map[string]any{"ev": "End", "unhit": len(unhit)})
		n++
	}
	t.Logf("replayed %d schedules", n)
}

func pvAll(segs [][]int) []int {
	out := []int{}
	for _, s := range segs {
		out = append(out, s...)
	}
	return out
}
