---- MODULE Obs_Processor ----
(* Observation layer: no model actions.  State is accumulated from the calls the real Run loop  *)
(* made on the harness fakes (sink writes, checkpoint commits, injected failures, end of cycle   *)
(* with the partition whose lease the loop held); the C33 predicates are the ProcessorProps      *)
(* definitions instantiated with these values.  Partition p is index p + 1 of the sequences.     *)
EXTENDS Integers, Sequences, FiniteSets, TLC, Json
TraceLog == ndJsonDeserialize("trace.ndjson")
Range(s) == {s[i] : i \in DOMAIN s}
VARIABLES l, all, sink, ckpt, cycFaults, listed, cleanDone,
          bad,   \* predicates already found false in the current run (only the first violating line per run is recorded)
          viol
ovars == <<l, all, sink, ckpt, cycFaults, listed, cleanDone, bad, viol>>
P(a, s, c, d) == INSTANCE ProcessorProps WITH all <- a, sink <- s, ckpt <- c, cleanDone <- d
OInit == l = 0 /\ all = <<>> /\ sink = <<>> /\ ckpt = <<>> /\ cycFaults = 0 /\ listed = FALSE /\ cleanDone = {} /\ bad = {} /\ viol = {}
Failed(e) == e.ev \in {"List", "Claim", "Load", "Decode", "Lfs", "Write", "Commit"} /\ ~e.ok
Step ==
  /\ l < Len(TraceLog) /\ l' = l + 1
  /\ LET e == TraceLog[l + 1] IN
     /\ all' = IF e.ev = "Reset" THEN [i \in DOMAIN e.all |-> Range(e.all[i])] ELSE all
     /\ sink' = IF e.ev = "Reset" THEN [i \in DOMAIN e.all |-> {}]
                ELSE IF e.ev = "Write" /\ e.ok THEN [sink EXCEPT ![e.p + 1] = @ \cup Range(e.offs)] ELSE sink
     /\ ckpt' = IF e.ev = "Reset" THEN [i \in DOMAIN e.all |-> -1]
                ELSE IF e.ev = "Commit" /\ e.ok THEN [ckpt EXCEPT ![e.p + 1] = e.off] ELSE ckpt
     /\ listed' = IF e.ev \in {"Reset", "CycleEnd"} THEN FALSE ELSE IF e.ev = "List" THEN TRUE ELSE listed
     /\ cycFaults' = IF e.ev \in {"Reset", "CycleEnd"} THEN 0 ELSE IF Failed(e) THEN cycFaults + 1 ELSE cycFaults
     /\ cleanDone' = IF e.ev = "Reset" THEN {}
                     ELSE IF e.ev = "CycleEnd" /\ listed /\ cycFaults = 0 /\ e.lease >= 0 THEN cleanDone \cup {e.lease + 1}
                     ELSE cleanDone
     /\ LET now == (IF P(all', sink', ckpt', cleanDone')!C33_CheckpointSafe THEN {} ELSE {"C33_CheckpointSafe"}) \cup
                   (IF P(all', sink', ckpt', cleanDone')!C33_CleanCycleDelivers THEN {} ELSE {"C33_CleanCycleDelivers"})
        IN /\ bad' = IF e.ev = "Reset" THEN {} ELSE bad \cup now
           /\ viol' = IF e.ev = "Reset" THEN viol ELSE viol \cup {<<l + 1, n>> : n \in now \ bad}
     /\ (l' = Len(TraceLog)) => PrintT(<<"OBS", ToJson([consumed |-> l', viol |-> viol'])>>)
OSpec == OInit /\ [][Step]_ovars
====
