CONSTANTS
 MaxCycles = 3
 MaxFaults = 1
 Stores = {"noop","etcd"}
 HasLfs = FALSE
 FixBreakOnError = TRUE
 FixSentinel = TRUE
 FixLfsFail = TRUE
 DevStaleCache = FALSE
 DevTruncAccepted = TRUE
INIT Init
NEXT Next
INVARIANTS C33_CheckpointSafe
VIEW View
CHECK_DEADLOCK FALSE
