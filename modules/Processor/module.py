"""Processor.tla — C33 (add-on processors: skeleton, sql-processor, iceberg-processor polling loop `Run`)."""
import copy, json, os, random, re
from lib import tlc as T, layers, gorun
from lib.common import Broken, Violation, verdict, save_replay

PROPS = {
    "C33": {
        "text": "Processor.tla models the polling loop Run of the three add-on processors (list, then per segment LoadOffset -> Decode -> filter(offset > loaded) -> [iceberg: LFS resolve per record] -> sink.Write -> CommitOffset; placeholder or etcd-like checkpoint store; every step may fail transiently). TLC checks exhaustively that the checkpoint never passes an unwritten record and that one failure-free cycle delivers every record incl. offset 0; TLC then enumerates every complete behaviour of the bounded model (all placements of <=2 failures over 3 cycles, both stores) plus counterexamples of the named wrong designs; each is replayed on the REAL Run of all three processors (in-package fakes, virtual time) and the recorded calls are validated by TLC: C33 predicates on observed sink writes / commits (layer O) and step-by-step conformance (layer C).",
        "note": "Trusted: TLC, testing/synctest as clock, the fakes for Lister/Decoder/Writer/Store/S3Reader (the placeholder checkpoint store used is the module's own, wrapped). One partition, 3 segments (offsets {0,1},{2},{3}), lease always granted; iceberg: LFS mode resolve with one worker, schema validation off. The real etcd checkpoint store of the iceberg processor is represented by an in-memory store with its contract (-1 when absent).",
        "technique": "TLA+ model (Processor.tla) + TLC exhaustive check + exhaustive enumeration of bounded behaviours replayed into the three real Run loops + TLC trace validation (observation and conformance layers)",
    }
}

SEGS = [[0, 1], [2], [3], [0], [5]]
PARTS = [0, 0, 0, 1, 1]  # partition of each segment (SegList of Processor.tla)
PROCS = {
    "skeleton": dict(gomod="addons/processors/skeleton", src="skeleton_verif_test.go", toolchain="go1.25.2", lfs=False),
    "sql": dict(gomod="addons/processors/sql-processor", src="sql_verif_test.go", toolchain=None, lfs=False,
                extra={"internal/decoder/zz_verif_export.go": "sql_decoder_export.go"}),
    "iceberg": dict(gomod="addons/processors/iceberg-processor", src="iceberg_verif_test.go", toolchain=None, lfs=True),
}
# deviation cfg suffix -> (invariant TLC must report, model has LFS)
DEVIATIONS = {
    "StaleCache": ("C33_CheckpointSafe", False),
    "StaleCacheClean": ("C33_CleanCycleDelivers", False),
    "TruncAccepted": ("C33_CheckpointSafe", False),
    "BreakOnError": ("C33_CheckpointSafe", False),
    "Sentinel": ("C33_CleanCycleDelivers", False),
    "LfsFail": ("C33_CheckpointSafe", True),
    "BreakOnErrorLfs": ("C33_CheckpointSafe", True),
}
TRACE_CFG = """CONSTANTS
 MaxCycles = 1000
 MaxFaults = 1000
 Stores = {"noop","etcd"}
 HasLfs = %s
 FixBreakOnError = TRUE
 FixSentinel = TRUE
 FixLfsFail = TRUE
 DevStaleCache = FALSE
 DevTruncAccepted = FALSE
INIT TInit
NEXT TNext
POSTCONDITION Reached
CHECK_DEADLOCK FALSE
"""
OPS = {"List": "list", "Claim": "claim", "Lose": "lose", "Load": "load", "Decode": "decode", "Lfs": "lfs", "Write": "write", "Commit": "commit"}


def to_sched(store, steps, label, cycles=None):
    faults = []
    for s in steps:
        if not s["ok"]:
            op = OPS[s["a"]]
            if s["a"] == "Decode" and s.get("kind") == "trunc":
                op = "trunc"
            k = "%d:%d:%s" % (s["c"], s["seg"], op)
            if s["a"] == "Lfs":
                k += ":%d" % s["off"]
            if s["a"] == "Claim":
                k += ":%d" % s["p"]
            faults.append(k)
    c = max([s["c"] for s in steps] + [1])
    return {"store": store, "cycles": cycles or c + 1, "faults": sorted(faults), "segs": SEGS, "parts": PARTS, "label": label}


def enumerate_all(ctx, d, cfg):
    r = T.tlc(ctx, d, "MC_Processor.tla", cfg, workers=1, timeout=900, deadlock_off=True)
    if r.violated or not r.ok:
        raise Broken("enumeration %s failed:\n%s" % (cfg, r.out[-2000:]))
    hs = r.prints.get("SCHED", [])
    if not hs:
        raise Broken("enumeration %s printed no behaviours" % cfg)
    out, seen = [], set()
    for h in hs:
        s = to_sched(h["store"], h["steps"], "enum", cycles=5)
        k = json.dumps(s, sort_keys=True)
        if k not in seen:
            seen.add(k)
            out.append(s)
    out.sort(key=lambda s: (len(s["faults"]), s["store"], s["faults"]))
    return out, r


def harness(ctx, proc, scheds, tag):
    p = PROCS[proc]
    sp = os.path.join(ctx.scratch, "sched-%s-%s.ndjson" % (proc, tag))
    tp = os.path.join(ctx.scratch, "trace-%s-%s.ndjson" % (proc, tag))
    gorun.write_ndjson(sp, [{k: v for k, v in s.items() if k != "label"} for s in scheds])
    ov = {p["gomod"] + "/internal/processor/zz_verif_processor_test.go": os.path.join(DIR, "harness", p["src"])}
    for rel, src in p.get("extra", {}).items():  # export shim compiled into another package of the module (build tag verif)
        ov[p["gomod"] + "/" + rel] = os.path.join(DIR, "harness", src)
    rc, out = gorun.go_test(ctx, p["gomod"], "./internal/processor/", ov,
                            "^TestVerifProcessorReplay$", env={"VERIF_SCHEDULES": sp, "VERIF_TRACE_OUT": tp},
                            toolchain=p["toolchain"], timeout=1500)
    if rc != 0 or "replayed %d schedules" % len(scheds) not in out:
        raise Broken("%s processor harness failed:\n%s" % (proc, out[-3000:]))
    return gorun.read_ndjson(tp)


def split(rows):
    runs, cur = [], None
    for r in rows:
        if r["ev"] == "Reset":
            cur = []
            runs.append(cur)
        cur.append(r)
    return runs


def describe(run, upto, inv):
    """Signature detail for a violating line: the mechanism class (descriptive only; the verdict was TLC's)."""
    nparts = len(run[0]["all"])
    sink = [set() for _ in range(nparts)]
    ckpt = [-1] * nparts
    for r in run[:upto + 1]:
        if r["ev"] == "Write" and r["ok"]:
            sink[r["p"]] |= set(r["offs"])
        if r["ev"] == "Commit" and r["ok"]:
            ckpt[r["p"]] = r["off"]
    # the partition and first record concerned
    part, first = -1, None
    for p in range(nparts):
        miss = sorted(o for o in run[0]["all"][p] if o not in sink[p] and (inv != "C33_CheckpointSafe" or o <= ckpt[p]))
        if miss and (inv == "C33_CheckpointSafe" or any(r["ev"] == "CycleEnd" and r.get("lease") == p for r in run[:upto + 1])):
            part, first = p, miss[0]
            break
    if part == -1:
        return "unclassified"
    lost = any(r["ev"] == "Lose" for r in run[:upto + 1])
    if run[0]["store"] == "noop" and first == 0 and not lost and all(o in sink[part] for o in run[0]["all"][part] if o != 0):
        return "placeholder-store-skips-offset-0"
    seg = next((i + 1 for i, offs in enumerate(SEGS) if PARTS[i] == part and first in offs), 0)
    hit = [("trunc" if r.get("kind") == "trunc" else OPS[r["ev"]]) for r in run[:upto + 1]
           if r["ev"] in ("Load", "Decode", "Lfs", "Write") and not r["ok"] and r.get("seg") == seg]
    if hit:
        return "record-skipped-after-failed-%s" % hit[-1]
    if lost and part != 0:
        return "record-skipped-after-lease-moved-to-another-partition"
    return "record-skipped-after-failed-none"


def build_schedules(ctx, d):
    quick = ctx.quick()
    rnd = random.Random(ctx.seed)
    out = {}
    devs = {}
    for dev, (inv, lfs) in sorted(DEVIATIONS.items()):
        path = os.path.join(d, "ce-Dev_Processor_%s.json" % dev)
        r = T.tlc(ctx, d, "MC_Processor.tla", "Dev_Processor_%s.cfg" % dev, dump_trace=path, timeout=300, workers=4, deadlock_off=True)
        if inv not in r.violated or not os.path.exists(path):
            raise Broken("deviation %s no longer violates %s in the model (vacuous deviation)" % (dev, inv))
        st = json.load(open(path))["counterexample"]["state"][-1][1]
        devs[dev] = to_sched(st["store"], st["hist"], "dev:" + dev, cycles=5)
    for lfs in (False, True):
        name = "Processor" if lfs else "ProcessorNoLfs"
        scheds = [s for dv, s in sorted(devs.items()) if DEVIATIONS[dv][1] == lfs or not DEVIATIONS[dv][1]]
        f2, _ = enumerate_all(ctx, d, "All_%s_f2.cfg" % name)  # every complete behaviour with <= 2 failures
        f1 = [s for s in f2 if len(s["faults"]) <= 1]
        f2only = [s for s in f2 if len(s["faults"]) == 2]
        rnd.shuffle(f2only)
        f2only = f2only[:200] if quick else f2only[:1500]
        enum = f1 + f2only
        sims = []
        if not quick:
            r = T.tlc(ctx, d, "MC_Processor.tla", "Sim_%s.cfg" % name, workers=1, simulate="num=600", depth=120, seed=ctx.seed, deadlock_off=True, timeout=900)
            if r.violated:
                raise Broken("simulation config Sim_%s.cfg reported a violation:\n%s" % (name, r.out[-2000:]))
            ps = r.prints.get("SCHED", [])
            hs = [h for i, h in enumerate(ps) if i + 1 == len(ps) or len(ps[i + 1]["steps"]) <= len(h["steps"])]  # maximal ones
            for h in hs:
                if h["steps"] and sum(1 for x in h["steps"] if not x["ok"]) >= 3:
                    s = to_sched(h["store"], h["steps"], "sim")
                    sims.append(s)
            sims = sims[:400]
        out[lfs] = scheds + enum + sims
        ctx.log("%s: %d schedules (%d deviation counterexamples, %d enumerated of %d, %d simulated)" % (name, len(out[lfs]), len(scheds), len(enum), len(f2), len(sims)))
    return out, devs


def check(ctx, prop):
    quick = ctx.quick()
    d = T.stage(ctx, DIR, "mc")
    mcs = {}
    for name in ("Processor", "ProcessorNoLfs"):
        mcs[name] = T.model_check(ctx, d, "MC_Processor.tla", "MC_%s_%s.cfg" % (name, ctx.tier), coverage=not quick, timeout=1500, workers=4, deadlock_off=True)
        ctx.log("model %s: %d distinct states, depth %d" % (name, mcs[name].distinct, mcs[name].depth))
    scheds, devs = build_schedules(ctx, d)
    rows, runs, meta = [], [], []  # meta: (proc, schedule)
    for proc in sorted(PROCS):
        ss = scheds[PROCS[proc]["lfs"]]
        rs = harness(ctx, proc, ss, "main")
        rr = split(rs)
        if len(rr) != len(ss):
            raise Broken("%s harness recorded %d runs for %d schedules" % (proc, len(rr), len(ss)))
        ctx.log("%s: replayed %d schedules, %d events" % (proc, len(ss), len(rs)))
        rows += rs
        runs += rr
        meta += [(proc, s) for s in ss]
    consumed, viol, _ = layers.observe(ctx, DIR, "Obs_Processor.tla", "Obs_Processor.cfg", rows)
    ctx.log("layer O: %d lines consumed, %d violating lines" % (consumed, len(viol)))
    # map line -> run
    starts, n = [], 0
    for r in runs:
        starts.append(n)
        n += len(r)
    import bisect
    violations, first = [], set()
    for line, inv in sorted(viol):
        i = bisect.bisect_right(starts, line - 1) - 1
        if (i, inv) in first:
            continue
        first.add((i, inv))
        proc, s = meta[i]
        ev = rows[line - 1]
        sig = "%s@%s:%s" % (inv, proc, describe(runs[i], line - 1 - starts[i], inv))
        path = save_replay(prop, "sched-%s.json" % re.sub(r"\W+", "_", sig)[:150], {"proc": proc, "schedule": s, "trace": runs[i], "line": ev})
        violations.append(Violation(prop, sig, "%s false on the real %s processor after %s (cycle %s) [schedule %s faults=%s store=%s, replay %s]" % (inv, proc, ev["ev"], ev.get("c"), s["label"], s["faults"], s["store"], path), {"proc": proc, "schedule": s, "event": ev}))
    # layer C, one TLC start per model variant
    conf = {"accepted": 0, "rejected": 0, "first_rejection": None}
    for lfs in (False, True):
        idxs = [i for i, (proc, _) in enumerate(meta) if PROCS[proc]["lfs"] == lfs]
        sub = [r for i in idxs for r in runs[i]]
        reached, total, _ = layers.conform(ctx, DIR, "Trace_Processor.tla", "Trace_Processor.cfg", sub, name="conf%d" % lfs, cfg_text=TRACE_CFG % ("TRUE" if lfs else "FALSE"))
        if reached == total:
            conf["accepted"] += len(idxs)
        else:
            conf["rejected"] += 1
            conf["first_rejection"] = conf["first_rejection"] or {"lfs": lfs, "line": sub[reached] if reached < len(sub) else None, "before": sub[max(0, reached - 3):reached]}
    st = self_test(ctx, runs, meta)
    unhit = sum(r[-1].get("unhit", 0) for r, (_, s) in zip(runs, meta) if s["label"] == "enum")
    level = "model_checking"
    drift = conf["rejected"] > 0
    if drift and not violations:
        level = "exploration"
        ctx.log("DRIFT: conformance layer rejected a trace although C33 held: " + json.dumps(conf["first_rejection"]))
    allscheds = scheds[False] + scheds[True]
    nontrivial = len({json.dumps(s, sort_keys=True) for s in allscheds if s["faults"]})
    cov = {
        "states": sum(m.distinct for m in mcs.values()), "transitions": sum(m.generated for m in mcs.values()),
        "depth": max(m.depth for m in mcs.values()), "exhaustive": True,
        "model_config": ["MC_Processor_%s.cfg" % ctx.tier, "MC_ProcessorNoLfs_%s.cfg" % ctx.tier],
        "traces_validated_against_impl": len(runs), "trace_events": len(rows),
        "per_processor": {p: sum(1 for q, _ in meta if q == p) for p in PROCS},
        "evaluations": len(runs), "distinct_nontrivial": nontrivial,
        "rule": "schedules = TLC counterexamples of the named deviations + every complete behaviour of the bounded model with <=1 failure + (quick: seeded sample of 200; thorough: all) behaviours with 2 failures + (thorough) TLC -simulate behaviours with >=3 failures over 5 cycles; each replayed on all applicable processors; non-trivial = distinct schedules with at least one injected failure",
        "deviation_schedules": sorted(DEVIATIONS), "conformance": ("drift" if drift else "accepted"), "conformance_detail": conf,
        "binding_self_test": st, "fault_points_not_reached_in_enumerated_schedules": unhit,
        "samples": [devs["BreakOnError"], devs["Sentinel"], runs[0][:8]],
    }
    if not quick:
        cov["action_coverage"] = {n: {k: v[1] for k, v in m.action_coverage().items()} for n, m in mcs.items()}
    return verdict(ctx, violations, level, cov, [
        "two partitions (three + two completed segments, listed by partition and offset), one worker; lease claims may be refused per cycle and partition, a renewal may fail",
        "the sink and checkpoint store are fakes that record calls; the placeholder (noop) store is the module's own, wrapped",
        "the segment a Write/Commit/LFS call belongs to is the one named by the last Decode key; for LoadOffset it is inferred from the number of LoadOffset calls in the cycle",
        "sql-processor: the Decoder is the module's real S3 segment decoder (getObject + decodeSegment) over an in-memory object store injected through a verif-tagged export shim; skeleton / iceberg use a fake Decoder",
        "iceberg: LFS mode resolve, one worker, schema validation off; the etcd checkpoint store is an in-memory stand-in with the same contract (-1 when absent)",
    ])


def self_test(ctx, runs, meta):
    """Corrupt recorded fields: layer O must flag a commit past an unwritten record, layer C must reject a changed sink write."""
    i = next(i for i, (p, s) in enumerate(meta) if s["store"] == "etcd" and not s["faults"] and not PROCS[p]["lfs"])
    bad = copy.deepcopy(runs[i])
    w = next(r for r in bad if r["ev"] == "Write" and r["ok"] and r["p"] == 0 and 0 in r["offs"])
    w["offs"] = [o for o in w["offs"] if o != 0]
    _, viol, _ = layers.observe(ctx, DIR, "Obs_Processor.tla", "Obs_Processor.cfg", bad, name="selfO")
    if not any(v[1] == "C33_CheckpointSafe" for v in viol) or not any(v[1] == "C33_CleanCycleDelivers" for v in viol):
        raise Broken("binding self-test: observation layer did not flag a sink write that lost offset 0")
    reached, total, _ = layers.conform(ctx, DIR, "Trace_Processor.tla", "Trace_Processor.cfg", bad, name="selfC", cfg_text=TRACE_CFG % "FALSE")
    if reached == total:
        raise Broken("binding self-test: conformance layer accepted a corrupted sink write")
    bad = copy.deepcopy(runs[i])
    k = next(j for j, r in enumerate(bad) if r["ev"] == "Commit")
    del bad[k]
    reached, total, _ = layers.conform(ctx, DIR, "Trace_Processor.tla", "Trace_Processor.cfg", bad, name="selfC2", cfg_text=TRACE_CFG % "FALSE")
    if reached == total:
        raise Broken("binding self-test: conformance layer accepted a trace with a dropped Commit event")
    return {"observation_layer_flags_corrupted_field": True, "conformance_layer_rejects_corrupted_state": True, "conformance_layer_rejects_dropped_event": True}


def replay(ctx, prop, path):
    obj = json.load(open(path))
    det = obj.get("detail", obj)
    sched, proc = det["schedule"], det["proc"]
    rows = harness(ctx, proc, [sched], "replay")
    _, viol, _ = layers.observe(ctx, DIR, "Obs_Processor.tla", "Obs_Processor.cfg", rows)
    for r in rows:
        print(json.dumps(r, sort_keys=True))
    for line, inv in viol:
        print("VIOLATION property=%s replay=%s" % (prop, path))
        print("  %s false at line %d" % (inv, line))
    return 1 if viol else 0
