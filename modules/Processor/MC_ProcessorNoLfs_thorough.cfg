CONSTANTS
 MaxCycles = 6
 MaxFaults = 3
 Stores = {"noop","etcd"}
 HasLfs = FALSE
 FixBreakOnError = TRUE
 FixSentinel = TRUE
 FixLfsFail = TRUE
 DevStaleCache = FALSE
 DevTruncAccepted = FALSE
INIT Init
NEXT Next
INVARIANTS C33_CheckpointSafe C33_CleanCycleDelivers TypeOK
VIEW View
CHECK_DEADLOCK FALSE
