CONSTANTS
 MaxCycles = 3
 MaxFaults = 2
 Stores = {"noop","etcd"}
 HasLfs = TRUE
 FixBreakOnError = TRUE
 FixSentinel = TRUE
 FixLfsFail = FALSE
 DevStaleCache = FALSE
 DevTruncAccepted = FALSE
INIT Init
NEXT Next
INVARIANTS C33_CheckpointSafe
VIEW View
CHECK_DEADLOCK FALSE
