CONSTANTS
 MaxCycles = 7
 MaxFaults = 4
 Stores = {"noop","etcd"}
 HasLfs = FALSE
 FixBreakOnError = TRUE
 FixSentinel = TRUE
 FixLfsFail = TRUE
 DevStaleCache = FALSE
 DevTruncAccepted = FALSE
INIT Init
NEXT Next
INVARIANTS EmitSched C33_CheckpointSafe C33_CleanCycleDelivers
CHECK_DEADLOCK FALSE
