CONSTANTS
 MaxCycles = 5
 MaxFaults = 2
 Stores = {"noop","etcd"}
 HasLfs = FALSE
 FixBreakOnError = TRUE
 FixSentinel = TRUE
 FixLfsFail = TRUE
 DevStaleCache = FALSE
 DevTruncAccepted = FALSE
INIT Init
NEXT Next
INVARIANTS C33_CheckpointSafe C33_CleanCycleDelivers TypeOK
VIEW View
CHECK_DEADLOCK FALSE
