---- MODULE ProcessorProps ----
(* C33 stated once, over parameters.  Processor.tla instantiates it with model state,          *)
(* Obs_Processor.tla with values accumulated from the calls the real Run loop made on the      *)
(* fake sink / checkpoint store.  All values are per partition (functions with one domain).    *)
EXTENDS Integers
CONSTANTS all,        \* partition -> set of offsets of all records of the partition's completed segments
          sink,       \* partition -> set of offsets successfully written to the sink so far
          ckpt,       \* partition -> the partition's checkpoint (-1 = none)
          cleanDone   \* partitions for which some polling cycle of their lease holder ran to completion without any injected failure

\* a checkpoint never moves past a record that has not been written
C33_CheckpointSafe == \A p \in DOMAIN all : \A o \in all[p] : o <= ckpt[p] => o \in sink[p]
\* at least once: as soon as one polling cycle met no failure, every record (offset 0 included) has been written
C33_CleanCycleDelivers == \A p \in cleanDone : all[p] \subseteq sink[p]
====
