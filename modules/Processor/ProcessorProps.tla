---- MODULE ProcessorProps ----
(* C33 stated once, over parameters.  Processor.tla instantiates it with model state,          *)
(* Obs_Processor.tla with values accumulated from the calls the real Run loop made on the      *)
(* fake sink / checkpoint store.                                                               *)
EXTENDS Integers
CONSTANTS all,        \* set of offsets of all records of the partition's completed segments
          sink,       \* set of offsets successfully written to the sink so far
          ckpt,       \* the partition's persisted checkpoint (-1 = none)
          cleanDone   \* TRUE iff some polling cycle has run to completion without any injected failure

\* a checkpoint never moves past a record that has not been written
C33_CheckpointSafe == \A o \in all : o <= ckpt => o \in sink
\* at least once: as soon as one polling cycle met no failure, every record (offset 0 included) has been written
C33_CleanCycleDelivers == cleanDone => all \subseteq sink
====
