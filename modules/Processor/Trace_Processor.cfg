CONSTANTS
 MaxCycles = 1000
 MaxFaults = 1000
 Stores = {"noop","etcd"}
 HasLfs = FALSE
 FixBreakOnError = TRUE
 FixSentinel = TRUE
 FixLfsFail = TRUE
 DevStaleCache = FALSE
 DevTruncAccepted = FALSE
INIT TInit
NEXT TNext
POSTCONDITION Reached
CHECK_DEADLOCK FALSE
