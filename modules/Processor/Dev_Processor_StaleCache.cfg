CONSTANTS
 MaxCycles = 5
 MaxFaults = 2
 Stores = {"noop","etcd"}
 HasLfs = FALSE
 FixBreakOnError = TRUE
 FixSentinel = TRUE
 FixLfsFail = TRUE
 DevStaleCache = TRUE
 DevTruncAccepted = FALSE
INIT Init
NEXT Next
INVARIANTS C33_CheckpointSafe
VIEW View
CHECK_DEADLOCK FALSE
