---- MODULE MC_Processor ----
EXTENDS Processor
====
