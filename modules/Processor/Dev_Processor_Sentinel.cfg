CONSTANTS
 MaxCycles = 3
 MaxFaults = 2
 Stores = {"noop","etcd"}
 HasLfs = FALSE
 FixBreakOnError = TRUE
 FixSentinel = FALSE
 FixLfsFail = TRUE
 DevStaleCache = FALSE
 DevTruncAccepted = FALSE
INIT Init
NEXT Next
INVARIANTS C33_CleanCycleDelivers
VIEW View
CHECK_DEADLOCK FALSE
