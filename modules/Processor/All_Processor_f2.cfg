CONSTANTS
 MaxCycles = 5
 MaxFaults = 2
 Stores = {"noop","etcd"}
 HasLfs = TRUE
 FixBreakOnError = TRUE
 FixSentinel = TRUE
 FixLfsFail = TRUE
 DevStaleCache = FALSE
 DevTruncAccepted = FALSE
INIT Init
NEXT Next
INVARIANTS EmitFinal
CHECK_DEADLOCK FALSE
