---- MODULE Trace_Processor ----
(* Conformance layer: every call the real Run loop made on the fakes must be the next step of    *)
(* Processor.tla (same operation, same cycle / segment / partition / outcome) and the logged     *)
(* values (offset returned by LoadOffset, offsets handed to the sink, offset committed) must      *)
(* equal the model's.                                                                             *)
EXTENDS Processor
TraceLog == ndJsonDeserialize("trace.ndjson")
VARIABLE l
tvars == <<vars, l>>
E == TraceLog[l]
Cur(ev) == l <= Len(TraceLog) /\ E.ev = ev /\ l' = l + 1
SetOf(s) == {s[i] : i \in DOMAIN s}
TInit == Init /\ l = 1 /\ TLCSet(7, 0)
TReset == /\ Cur("Reset") /\ E.store \in Stores /\ \A p \in Parts : SetOf(E.all[p + 1]) = AllOf(p)
          /\ store' = E.store /\ cyc' = 0 /\ pc' = "idle" /\ idx' = 0 /\ loaded' = -1 /\ recs' = {} /\ lfsTodo' = {}
          /\ lfsBad' = FALSE /\ lease' = -1 /\ claimCyc' = 0 /\ claimTodo' = <<>>
          /\ ckpt' = [p \in Parts |-> -1] /\ persist' = [p \in Parts |-> -1] /\ sink' = [p \in Parts |-> {}]
          /\ cached' = None /\ nf' = 0 /\ cycFaults' = 0 /\ cleanDone' = {} /\ hist' = <<>>
TList == Cur("List") /\ List(E.ok) /\ cyc' = E.c
TClaim == Cur("Claim") /\ Claim(E.ok) /\ cyc = E.c /\ Head(claimTodo) = E.p
TLose == Cur("Lose") /\ Lose /\ cyc = E.c /\ lease = E.p
TLoad == Cur("Load") /\ Load(E.ok) /\ cyc = E.c /\ idx = E.seg /\ (E.ok => loaded' = E.ret)
TDecode == Cur("Decode") /\ Decode(E.kind) /\ cyc = E.c /\ idx = E.seg /\ E.ok = (E.kind = "ok")
TLfs == Cur("Lfs") /\ Lfs(E.ok) /\ cyc = E.c /\ idx = E.seg /\ E.off = Min(lfsTodo)
TWrite == Cur("Write") /\ Write(E.ok) /\ cyc = E.c /\ idx = E.seg /\ lease = E.p /\ SetOf(E.offs) = recs
TCommit == Cur("Commit") /\ Commit(E.ok) /\ cyc = E.c /\ idx = E.seg /\ lease = E.p /\ E.off = Max(recs)
\* the harness saw every goroutine of Run blocked again after tick c: the model must be waiting for the next tick
TCycleEnd == Cur("CycleEnd") /\ pc = "idle" /\ cyc = E.c /\ lease = E.lease /\ UNCHANGED vars
TClose == Cur("Close") /\ pc = "idle" /\ UNCHANGED vars
TEnd == Cur("End") /\ UNCHANGED vars
Consumed == TLCSet(7, IF TLCGet(7) < l THEN l ELSE TLCGet(7))
TNext == (TReset \/ TList \/ TClaim \/ TLose \/ TLoad \/ TDecode \/ TLfs \/ TWrite \/ TCommit \/ TCycleEnd \/ TClose \/ TEnd) /\ Consumed
TSpec == TInit /\ [][TNext]_tvars
Reached == PrintT(<<"CONF", ToJson([reached |-> TLCGet(7), total |-> Len(TraceLog)])>>)
====
