CONSTANTS
 MaxCycles = 3
 MaxFaults = 2
 Stores = {"noop","etcd"}
 HasLfs = FALSE
 FixBreakOnError = FALSE
 FixSentinel = TRUE
 FixLfsFail = TRUE
INIT Init
NEXT Next
INVARIANTS C33_CheckpointSafe
VIEW View
CHECK_DEADLOCK FALSE
