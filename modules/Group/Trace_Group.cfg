CONSTANTS
 Members = {"m1","m2","m3"}
 Topics = {"t1","t2"}
 NParts <- NP21
 SubsChoices = {{"t1"},{"t2"},{"t1","t2"}}
 CommitTP <- CTP
 SessChoices = {2}
 RebT = 2
 DefT = 30
 KeepT = {TRUE,FALSE}
 MaxClock = 1000000
 MaxGen = 1000000
 HbCoalesce = 0
 FixSubChange = TRUE
 FixHbRefresh = TRUE
 DevHbNoGen = FALSE
 DevSyncNoGen = FALSE
 DevCommitNoGen = FALSE
 DevJoinOkEarly = FALSE
 DevAssignAllMembers = FALSE
 DevRestoreDropsAsg = FALSE
 DevRestoreGenZero = FALSE
 DevExpireIgnoresHb = FALSE
 DevNoLaggerDrop = FALSE
 DevNoExpire = FALSE
 DevLaggerSkippedOnExpiry = FALSE
 DevRestoreSkipsExpired = FALSE
 DevJoinPutFailDropsMember = FALSE
 DevMalformedJoinGhost = FALSE
 DevJoinNewSkipsLoad = FALSE
 DevJoinIgnoresLoadError = FALSE
 DevSyncRefusesIdle = FALSE
 DevHbWriteUnlocked = FALSE
 DevCleanupWriteUnlocked = FALSE
 DevSyncLookupUnlocked = FALSE
INIT TInit
NEXT TNext
POSTCONDITION Reached
CHECK_DEADLOCK FALSE
