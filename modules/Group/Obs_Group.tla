---- MODULE Obs_Group ----
(* Observation layer: no model actions.  Every recorded step of the real GroupCoordinator is turned into the  *)
(* parameters of GroupProps (request/reply, group before, group after, restored group, clock, offsets) and    *)
(* the C12/C13/C14/C15/C43 predicates - the same text Group.tla checks - are evaluated on these observed      *)
(* values.  Bookkeeping (alive, gstart) uses GroupProps!NextAlive/NextGstart, i.e. only requests and replies. *)
(* Violations are accumulated and printed once (no -continue).                                                *)
EXTENDS Integers, Sequences, FiniteSets, TLC, Json
TraceLog == ndJsonDeserialize("trace.ndjson")
AllMembers == {"m1", "m2", "m3"}
VARIABLES l, alive, gstart, fgen, sessReq, conf, viol
ovars == <<l, alive, gstart, fgen, sessReq, conf, viol>>
Range(s) == {s[i] : i \in DOMAIN s}
NoGrp == [none |-> TRUE]
Norm(st) == IF st.none THEN NoGrp
            ELSE [none |-> FALSE, gen |-> st.gen, phase |-> st.phase, leader |-> st.leader,
                  mem |-> [m \in DOMAIN st.mem |-> [topics |-> Range(st.mem[m].topics), sess |-> st.mem[m].sess, hb |-> st.mem[m].hb, jg |-> st.mem[m].jg]],
                  asg |-> [m \in DOMAIN st.mem |-> IF m \in DOMAIN st.asg THEN Range(st.asg[m]) ELSE {}],
                  rebT |-> st.rebT, deadline |-> st.deadline]
Eff(x) == IF ~x.st.none THEN Norm(x.st) ELSE Norm(x.rst)
Mem(g) == IF g.none THEN {} ELSE DOMAIN g.mem
\* ev may also be "Hold" (a request parked before its decision, outside the lock) or "Release" (a parked store write lands):
\* only the step-generic predicates apply to those
Ev(x) == IF x.ev = "Join" THEN [ev |-> x.ev, c |-> x.c, gen |-> x.gen, code |-> x.code, pending |-> x.pending, rgen |-> x.rgen, leader |-> x.leader,
                                list |-> Range(x.list), sub |-> Range(x.sub)]
         ELSE IF x.ev = "Sync" THEN [ev |-> x.ev, c |-> x.c, gen |-> x.gen, code |-> x.code, pending |-> x.pending, asg |-> Range(x.asg)]
         ELSE [ev |-> x.ev, c |-> x.c, gen |-> x.gen, code |-> x.code, pending |-> x.pending]

P(a) == INSTANCE GroupProps WITH e <- a.e, pre <- a.pre, post <- a.post, mem <- a.mem, rst <- a.rst, restored <- a.restored,
          now <- a.now, alive <- a.alive, sessOf <- a.sessOf, gstart <- a.gstart, fgen <- a.fgen, offsPre <- a.offsPre, offsPost <- a.offsPost,
          AllTP <- a.tps, RebT <- a.reb

Zero == [m \in AllMembers |-> 0]
Never == [m \in AllMembers |-> -1]
OInit == l = 0 /\ alive = Never /\ gstart = 0 /\ fgen = -1 /\ sessReq = Zero /\ conf = [sess |-> 0, reb |-> 0, tps |-> {}] /\ viol = {}

Names == {"C12_OnlySubscribed", "C12_ExactlyOne", "C12_ReplyFromMap", "C12_OneMapPerGen",
          "C13_StaleRejected", "C13_StaleNoCommit", "C13_GenMonotone", "C13_ReplyGen",
          "C14_JoinOK", "C14_Leader", "C14_ListOnlyLeader", "C14_SyncAfterLeader",
          "C15_RestoreEqual", "C15_NotFenced", "C15_ActsOnRestored", "C15_KeepWorking", "C43_RemovedJustified", "C43_NoOverdue", "C43_Rebalances"}

Step ==
  /\ l < Len(TraceLog) /\ l' = l + 1
  /\ LET x == TraceLog[l + 1] IN
     IF x.ev = "Reset"
     THEN /\ alive' = Never /\ gstart' = 0 /\ fgen' = -1 /\ sessReq' = Zero /\ viol' = viol
          /\ conf' = [sess |-> x.sess, reb |-> x.reb, tps |-> Range(x.tps)]
          /\ (l' = Len(TraceLog)) => PrintT(<<"OBS", ToJson([consumed |-> l', viol |-> viol'])>>)
     ELSE
       LET prev == TraceLog[l]
           pre == Eff(prev)
           post == Eff(x)
           al == [m \in AllMembers \cup Mem(pre) |-> IF m \in AllMembers THEN alive[m] ELSE -1]
           so == [m \in Mem(pre) |-> IF m \in AllMembers /\ sessReq[m] # 0 THEN sessReq[m] ELSE pre.mem[m].sess]
           a == [e |-> Ev(x), pre |-> pre, post |-> post, mem |-> Norm(x.st), rst |-> Norm(x.rst),
                 restored |-> (prev.st.none /\ ~prev.rst.none), now |-> x.now, alive |-> al, sessOf |-> so, gstart |-> gstart, fgen |-> fgen,
                 offsPre |-> prev.offs, offsPost |-> x.offs, tps |-> conf.tps, reb |-> conf.reb]
           bad == (IF P(a)!C12_OnlySubscribed THEN {} ELSE {"C12_OnlySubscribed"}) \cup
                  (IF P(a)!C12_ExactlyOne THEN {} ELSE {"C12_ExactlyOne"}) \cup
                  (IF P(a)!C12_ReplyFromMap THEN {} ELSE {"C12_ReplyFromMap"}) \cup
                  (IF P(a)!C12_OneMapPerGen THEN {} ELSE {"C12_OneMapPerGen"}) \cup
                  (IF P(a)!C13_StaleRejected THEN {} ELSE {"C13_StaleRejected"}) \cup
                  (IF P(a)!C13_StaleNoCommit THEN {} ELSE {"C13_StaleNoCommit"}) \cup
                  (IF P(a)!C13_GenMonotone THEN {} ELSE {"C13_GenMonotone"}) \cup
                  (IF P(a)!C13_ReplyGen THEN {} ELSE {"C13_ReplyGen"}) \cup
                  (IF P(a)!C14_JoinOK THEN {} ELSE {"C14_JoinOK"}) \cup
                  (IF P(a)!C14_Leader THEN {} ELSE {"C14_Leader"}) \cup
                  (IF P(a)!C14_ListOnlyLeader THEN {} ELSE {"C14_ListOnlyLeader"}) \cup
                  (IF P(a)!C14_SyncAfterLeader THEN {} ELSE {"C14_SyncAfterLeader"}) \cup
                  (IF P(a)!C15_RestoreEqual THEN {} ELSE {"C15_RestoreEqual"}) \cup
                  (IF P(a)!C15_NotFenced THEN {} ELSE {"C15_NotFenced"}) \cup
                  (IF P(a)!C15_ActsOnRestored THEN {} ELSE {"C15_ActsOnRestored"}) \cup
                  (IF P(a)!C15_KeepWorking THEN {} ELSE {"C15_KeepWorking"}) \cup
                  (IF P(a)!C43_RemovedJustified THEN {} ELSE {"C43_RemovedJustified"}) \cup
                  (IF P(a)!C43_NoOverdue THEN {} ELSE {"C43_NoOverdue"}) \cup
                  (IF P(a)!C43_Rebalances THEN {} ELSE {"C43_Rebalances"})
       IN /\ viol' = viol \cup {<<l + 1, n>> : n \in bad}
          /\ alive' = [m \in AllMembers |-> P(a)!NextAlive[m]]
          /\ gstart' = P(a)!NextGstart
          /\ fgen' = P(a)!NextFgen
          /\ sessReq' = IF x.ev = "Failover" THEN Zero
                        ELSE IF x.ev = "Join" /\ x.c \in AllMembers THEN [sessReq EXCEPT ![x.c] = x.sess] ELSE sessReq
          /\ conf' = conf
          /\ (l' = Len(TraceLog)) => PrintT(<<"OBS", ToJson([consumed |-> l', viol |-> viol'])>>)
OSpec == OInit /\ [][Step]_ovars
====
