"""Group.tla — C12 C13 C14 C15 C43 (pkg/broker/coordinator.go, the consumer-group coordinator)."""
import copy, json, os, re
from concurrent.futures import ThreadPoolExecutor
from lib import tlc as T, layers, gorun
from lib.common import Broken, Violation, verdict, save_replay

_TECH = ("TLA+ model (Group.tla) + TLC exhaustive check + replay of TLC behaviours (deviation counterexamples, simulations) into the real "
         "GroupCoordinator under virtual time + TLC trace validation (observation and conformance layers)")
_NOTE = ("Trusted: TLC; testing/synctest virtual time (the coordinator's own cleanupLoop/ticker runs, one cleanup per tick); the in-package "
         "projection of c.groups under c.mu; the real restoreGroupState applied by the harness to the store contents after every step; "
         "the mapping of random member ids to model ids in order of first appearance. One group, sequential requests (every public method is "
         "one critical section under c.mu; the OffsetCommit check/write window is not split), InMemoryStore. ")
PROPS = {
    "C12": {"text": "Group.tla models JoinGroup/SyncGroup/Heartbeat/LeaveGroup/OffsetCommit/DeleteGroups, cleanup ticks and failover; the C12 predicates "
                    "(only subscribed topics, every partition of a subscribed topic with exactly one subscribing member, replies taken from one map per "
                    "generation) are checked exhaustively by TLC and then evaluated by TLC on every SyncGroup reply recorded from the real coordinator.",
            "note": _NOTE + "Partition counts 2/1 (exhaustive, deviations) and 3/2 (simulation).", "technique": _TECH},
    "C13": {"text": "Same model and traces; TLC evaluates on every recorded Heartbeat/SyncGroup/OffsetCommit whose sender is not a member of the current "
                    "generation that the reply is an error and no committed offset changed, and on every step that the generation reported by JoinGroup "
                    "equals the group's generation and never decreases while the group exists.",
            "note": _NOTE + "Stale generations are current-1; unknown members are never-joined or removed ids.", "technique": _TECH},
    "C14": {"text": "Same model and traces; TLC evaluates on every recorded JoinGroup reply: success only if every member's joinGeneration equals the "
                    "generation, leader is a member, member list only (and complete) in the leader's successful reply; and on every SyncGroup of a current "
                    "member in a stable generation that it succeeds.",
            "note": _NOTE + "'Has joined the current generation' is the coordinator's joinGeneration field (restore marks every restored member as joined).", "technique": _TECH},
    "C15": {"text": "Same model and traces; after every step the harness runs the real restoreGroupState on the store contents and TLC compares generation, "
                    "phase, leader, members, subscriptions and assignments with the in-memory group; after a failover (new GroupCoordinator over the same "
                    "store) requests of current-generation members must not be fenced.",
            "note": _NOTE + "Timeouts are not among the fields C15 lists (InMemoryStore drops them: C17).", "technique": _TECH},
    "C43": {"text": "Same model and traces on virtual time; TLC evaluates on every step that a member disappears only by LeaveGroup, DeleteGroups, session "
                    "expiry measured from its last JoinGroup/current-generation Heartbeat *as observed in the requests*, or as a rebalance lagger after the "
                    "rebalance timeout; that after every cleanup tick no overdue member remains; and that a removal starts a rebalance.",
            "note": _NOTE + "Tick = 1 s = CleanupInterval; session = rebalance timeout = 2 ticks; the session that applies after a failover is the one the "
                            "coordinator restored (timeouts lost by the store are C17).", "technique": _TECH},
}
# cfg suffix -> property whose predicates TLC must report violated
DEVIATIONS = {
    "SubChange": "C12", "AssignAllMembers": "C12", "SyncLookupUnlocked": "C12", "RestoreSkipsExpired": "C12",
    "HbNoGen": "C13", "SyncNoGen": "C13", "CommitNoGen": "C13", "HbWriteUnlocked": "C13", "JoinIgnoresLoadError": "C13",
    "JoinOkEarly": "C14", "MalformedJoinGhost": "C14", "JoinPutFailDropsMember": "C14",
    "RestoreDropsAsg": "C15", "RestoreGenZero": "C15", "SyncRefusesIdle": "C15", "CleanupWriteUnlocked": "C15", "JoinNewSkipsLoad": "C15",
    "HbRefresh": "C43", "ExpireIgnoresHb": "C43", "NoLaggerDrop": "C43", "NoExpire": "C43", "LaggerSkippedOnExpiry": "C43", "HbCoalesce": "C43",
}
DEV_REB = {"LaggerSkippedOnExpiry": 3}   # rebalance timeout of the deviation config when it is not 2 (see gen_cfg.py)
NP = {"NP21": {"t1": 2, "t2": 1}, "NP32": {"t1": 3, "t2": 2}}
EVENTS = {"Join", "Sync", "Heartbeat", "Commit", "Leave", "Tick", "Failover", "DeleteGroups"}
OVERLAY = {"pkg/broker/zz_verif_group_test.go": None}


def harness(ctx, scheds, tag):
    sp = os.path.join(ctx.scratch, "sched-%s.ndjson" % tag)
    tp = os.path.join(ctx.scratch, "trace-%s.ndjson" % tag)
    gorun.write_ndjson(sp, scheds)
    rc, out = gorun.go_test(ctx, ".", "./pkg/broker/", {"pkg/broker/zz_verif_group_test.go": os.path.join(DIR, "harness", "group_verif_test.go")},
                            "^TestVerifGroupReplay$", env={"VERIF_SCHEDULES": sp, "VERIF_TRACE_OUT": tp}, timeout=1200)
    if rc != 0 or "replayed %d schedules" % len(scheds) not in out:
        raise Broken("group harness failed:\n" + out[-3000:])
    return gorun.read_ndjson(tp)


def split(rows):
    runs, cur = [], None
    for r in rows:
        if r["ev"] == "Reset":
            cur = []
            runs.append(cur)
        cur.append(r)
    return runs


def sched(np, steps, reb=2, unit=1000):
    """unit = milliseconds of virtual time per model tick (= cleanup interval); all timeouts are in ticks"""
    return {"sess": 2, "reb": reb, "nparts": NP[np], "np": np, "steps": steps, "unit_ms": unit}


def trace_cfg(np, reb=2, unit=1000):
    t = open(os.path.join(DIR, "Trace_Group.cfg")).read().replace("NParts <- NP21", "NParts <- " + np).replace("RebT = 2", "RebT = %d" % reb)
    return t.replace("DefT = 30", "DefT = %d" % (30000 // unit))   # the 30 s defaults, in ticks


def deviation_schedules(ctx, names):
    def one(name):
        d = T.stage(ctx, DIR, "dev-" + name)
        h, r = T.counterexample_hist(ctx, d, "MC_Group.tla", "Dev_Group_%s.cfg" % name, timeout=900, workers=1)   # one worker: strict breadth-first search, the shortest counterexample, the same one in every run
        want = DEVIATIONS[name]
        if h is None or not any(v.startswith(want + "_") for v in r.violated):
            raise Broken("deviation %s no longer violates a %s predicate in the model (vacuous deviation): %s" % (name, want, r.violated))
        return name, h, [v for v in r.violated if v.startswith(want + "_")][0]
    with ThreadPoolExecutor(max_workers=6) as ex:
        return list(ex.map(one, names))


def simulations(ctx, quick):
    jobs = []  # (cfg, num, depth, seed)
    if quick:
        jobs = [("Sim_Group.cfg", 60, 24, ctx.seed), ("Sim_Group_clock.cfg", 90, 24, ctx.seed), ("Sim_Group_race.cfg", 50, 24, ctx.seed)]
    else:
        for i in range(4):
            jobs.append(("Sim_Group.cfg", 350, 28, ctx.seed * 1000 + i))
            jobs.append(("Sim_Group_clock.cfg", 350, 28, ctx.seed * 1000 + 100 + i))
        for i in range(2):
            jobs.append(("Sim_Group_race.cfg", 350, 28, ctx.seed * 1000 + 200 + i))

    def one(job):
        cfg, num, depth, seed = job
        d = T.stage(ctx, DIR, "sim-%s-%d" % (cfg.split(".")[0], seed))
        hs, _ = T.simulate_hists(ctx, d, "MC_Group.tla", cfg, num=num, depth=depth, seed=seed, timeout=1500)
        return [(cfg, h) for h in hs]
    out = []
    with ThreadPoolExecutor(max_workers=4) as ex:
        for part in ex.map(one, jobs):
            out += part
    return out


def pipeline(ctx, prop):
    quick = ctx.quick()
    # exhaustive runs (repaired design).  thorough: 3 members, short session, current-generation requests (NextCore) AND 2 members, session 2, both store kinds, full Next
    cfgs = ["MC_Group_quick.cfg"] if quick else ["MC_Group_thorough.cfg", "MC_Group_thorough3.cfg", "MC_Group_thorough2.cfg"]

    def run_mc(cfg):
        return T.model_check(ctx, T.stage(ctx, DIR, "mc-" + cfg.split(".")[0]), "MC_Group.tla", cfg, coverage=(not quick and cfg == cfgs[-1]),
                             timeout=5400, workers=None if quick else 6)
    with ThreadPoolExecutor(max_workers=3) as ex:
        mcs = list(ex.map(run_mc, cfgs))
    mc = mcs[0]
    mc.cov_run = mcs[-1]   # per-action coverage is taken on the configuration with the full Next (thorough2)
    mc.extra = [{"config": c, "states": m.distinct, "transitions": m.generated, "depth": m.depth} for c, m in zip(cfgs, mcs)]
    for e in mc.extra:
        ctx.log("model %(config)s: %(states)d distinct states, %(transitions)d generated, depth %(depth)d" % e)
    names = sorted(n for n, p in DEVIATIONS.items() if not quick or p == prop or n in ("SubChange", "HbRefresh"))
    scheds, labels = [], []
    devs = deviation_schedules(ctx, names)
    for name, h, inv in devs:
        scheds.append(sched("NP21", h, DEV_REB.get(name, 2))); labels.append("dev:" + name)
        # which member the code treats specially (round-robin order, i.e. who is left without a partition) depends on the random
        # member ids, not on the model's choice: also replay the counterexample with its last request sent by each other member
        last = h[-1]
        if last.get("c"):
            for other in sorted({x["c"] for x in h if x.get("c")} - {last["c"]}):
                scheds.append(sched("NP21", h[:-1] + [dict(last, c=other)], DEV_REB.get(name, 2))); labels.append("dev:%s~%s" % (name, other))
        # the timing deviations once more with a 500 ms tick: consecutive ticks are then less than a second apart
        if DEVIATIONS[name] == "C43":
            scheds.append(sched("NP21", h, DEV_REB.get(name, 2), 500)); labels.append("dev:%s@500ms" % name)
    sims = simulations(ctx, quick)
    for k, (cfg, h) in enumerate(sims):
        half = "clock" in cfg and k % 2 == 1     # every other clock-heavy simulation runs on the 500 ms tick
        scheds.append(sched("NP32", h, 2, 500 if half else 1000)); labels.append("sim:" + cfg.split(".")[0] + ("@500ms" if half else ""))
    ctx.log("%d schedules (%d deviation counterexamples + %d member/500ms variants, %d simulated)" % (len(scheds), len(devs), len(scheds) - len(devs) - len(sims), len(sims)))
    rows = harness(ctx, scheds, "main")
    runs = split(rows)
    if len(runs) != len(scheds):
        raise Broken("harness recorded %d runs for %d schedules" % (len(runs), len(scheds)))
    for i, run in enumerate(runs):
        # a "Release" step records a line only when a store call was really parked outside the lock
        need = sum(1 for x in scheds[i]["steps"] if x["a"] != "Release")
        if len(run) - 1 < need:
            raise Broken("schedule %d (%s): %d steps but %d recorded lines" % (i, labels[i], need, len(run) - 1))
    seen = {r["ev"] for r in rows}
    if not EVENTS <= seen:
        raise Broken("vacuous run: no recorded step of kind %s" % sorted(EVENTS - seen))
    return mc, devs, scheds, labels, rows, runs


def check(ctx, prop):
    quick = ctx.quick()
    mc, devs, scheds, labels, rows, runs = pipeline(ctx, prop)
    consumed, viol, _ = layers.observe(ctx, DIR, "Obs_Group.tla", "Obs_Group.cfg", rows, timeout=1800)
    starts, k = [], 0
    for run in runs:
        starts.append(k); k += len(run)
    violations, first, other = [], set(), {}
    for line, inv in sorted(viol):
        idx = max(i for i, s0 in enumerate(starts) if s0 < line)
        if not inv.startswith(prop + "_"):
            other[inv] = other.get(inv, 0) + 1
            continue
        if (idx, inv) in first:
            continue
        first.add((idx, inv))
        ev, prev = rows[line - 1], rows[line - 2]
        pre = prev["st"] if not prev["st"]["none"] else prev["rst"]
        sig = "%s@%s:%s" % (inv, ev["ev"], "none" if pre["none"] else pre["phase"])
        path = save_replay(prop, "sched-%s.json" % re.sub(r"\W", "_", sig), {"schedule": scheds[idx], "label": labels[idx], "trace": runs[idx], "line": ev})
        what = "%s false on the real coordinator at step %d (%s%s, reply code %s) of schedule %s [replay %s]" % (
            inv, line - starts[idx] - 1, ev["ev"], "(%s)" % ev["c"] if ev.get("c") else "", ev.get("code"), labels[idx], path)
        violations.append(Violation(prop, sig, what, {"schedule": scheds[idx], "event": {k2: v for k2, v in ev.items() if k2 not in ("rst",)}, "before": pre}))
    if other:
        ctx.log("predicates of other properties false in this run (reported by their own checks): %s" % json.dumps(other, sort_keys=True))
    # layer C per partition-count configuration
    conf = {"accepted": 0, "rejected": 0, "first_rejection": None}
    for np, reb, unit in sorted({(s["np"], s["reb"], s["unit_ms"]) for s in scheds}):
        idxs = [i for i, s in enumerate(scheds) if (s["np"], s["reb"], s["unit_ms"]) == (np, reb, unit)]
        sub = [r for i in idxs for r in runs[i]]
        reached, total, _ = layers.conform(ctx, DIR, "Trace_Group.tla", "Trace_Group.cfg", sub, name="conf-%s-%d-%d" % (np, reb, unit), cfg_text=trace_cfg(np, reb, unit), timeout=1800)
        if reached == total:
            conf["accepted"] += len(idxs)
        else:
            conf["rejected"] += 1
            if conf["first_rejection"] is None:
                bad = sub[reached] if reached < len(sub) else None
                conf["first_rejection"] = {"np": np, "reb": reb, "unit_ms": unit, "line": {k2: v for k2, v in (bad or {}).items() if k2 != "rst"}}
    st = self_test(ctx, prop, runs)
    level = "model_checking"
    drift = conf["rejected"] > 0
    if drift:
        level = "exploration" if not violations else level
        ctx.log("DRIFT: conformance layer rejected a trace: " + json.dumps(conf["first_rejection"])[:1500])

    def nontrivial(run):
        joined = {r["c"] for r in run if r["ev"] == "Join"}
        return len(joined) >= 2 and any(r["ev"] == "Sync" and r["code"] == 0 for r in run) and any(r["ev"] in ("Tick", "Failover", "Leave") for r in run)
    kinds = {}
    for r in rows:
        if r["ev"] != "Reset":
            key = "%s/%s" % (r["ev"], r["code"])
            kinds[key] = kinds.get(key, 0) + 1
    cov = {
        "states": mc.distinct, "transitions": mc.generated, "depth": mc.depth, "exhaustive": True,
        "model_config": mc.extra[0]["config"], "model_runs": mc.extra,
        "traces_validated_against_impl": len(runs), "trace_events": len(rows),
        "evaluations": len(scheds), "distinct_nontrivial": sum(1 for run in runs if nontrivial(run)),
        "rule": "schedules = TLC counterexamples of the named deviations + TLC -simulate behaviours of Sim_Group.cfg / Sim_Group_clock.cfg (seeded); "
                "non-trivial = observed trace has >=2 members joining, >=1 successful SyncGroup and >=1 Tick/Failover/Leave",
        "deviation_schedules": {n: inv for n, _, inv in devs}, "conformance": ("drift" if drift else "accepted"), "conformance_detail": conf,
        "observed_step_kinds": kinds, "binding_self_test": st,
        "held_steps": {k2: sum(run[0].get("holds", {}).get(k2, 0) for run in runs) for k2 in ("outside", "underlock", "noio")},
        "held_steps_rule": "steps with hold=true park at their first gated store call (Metadata / Put-/DeleteConsumerGroup); underlock = the call was made "
                           "under c.mu, so the step ran as a plain sequential call (hold not replayed); outside = the call was parked outside the lock while later steps ran",
        "samples": [scheds[0], scheds[-1], [{k2: v for k2, v in r.items() if k2 != "rst"} for r in runs[0][:4]]],
    }
    if not quick:
        ac = {k2: v[1] for k2, v in mc.cov_run.action_coverage().items()}
        cov["action_coverage"] = ac
        dead = [a for a in ("Join", "Sync", "Heartbeat", "Leave", "Commit", "DeleteGroups", "Tick", "Failover") if a in ac and ac[a] == 0]
        if dead or not ac:
            raise Broken("vacuous exhaustive run: actions never taken or no coverage output: %s" % dead)
    return verdict(ctx, violations, level, cov, [
        "every public method of GroupCoordinator is one critical section under c.mu and returns synchronously, so sequential histories cover all interleavings of complete calls (the OffsetCommit check/write window is not split)",
        "one cleanup per tick: CleanupInterval = 1 s of synctest virtual time, requests arrive at whole seconds",
        "the harness projects groupState fields (generation, phase, leader, members, joinGeneration, lastHeartbeat, timeouts, assignments, deadline) into the abstract record; the property predicates are evaluated by TLC only",
    ])


def _corrupt(prop, runs):
    """One recorded line changed so that a predicate of `prop` must turn false; returns (run copy, expected predicate)."""
    for run in runs:
        for i, r in enumerate(run):
            if i == 0:
                continue
            bad = None
            if prop == "C12" and r["ev"] == "Sync" and r["code"] == 0:
                bad = copy.deepcopy(run); bad[i]["asg"] = bad[i]["asg"] + [["zz", 0]]; inv = "C12_ReplyFromMap"
            elif prop == "C13" and r["ev"] in ("Heartbeat", "Sync", "Commit") and r["code"] == 22:
                bad = copy.deepcopy(run); bad[i]["code"] = 0; inv = "C13_StaleRejected"
            elif prop == "C14" and r["ev"] == "Join" and r["code"] == 0 and not r["st"]["none"]:
                bad = copy.deepcopy(run); m = sorted(bad[i]["st"]["mem"])[0]; bad[i]["st"]["mem"][m]["jg"] = -5; inv = "C14_JoinOK"
            elif prop == "C15" and not r["st"]["none"] and not r["rst"]["none"]:
                bad = copy.deepcopy(run); bad[i]["rst"]["gen"] += 1; inv = "C15_RestoreEqual"
            elif prop == "C43" and r["ev"] == "Tick" and not r["st"]["none"] and not run[i - 1]["st"]["none"] and set(r["st"]["mem"]) & set(run[i - 1]["st"]["mem"]):
                bad = copy.deepcopy(run); bad[i]["now"] += 100; inv = "C43_NoOverdue"
            if bad is not None:
                return bad, inv
    raise Broken("binding self-test: no recorded line suitable for corrupting a %s observation (vacuous run)" % prop)


def self_test(ctx, prop, runs):
    """Corrupt recorded fields: layer O must flag the property, layer C must reject a changed state."""
    bad, inv = _corrupt(prop, runs)
    _, viol, _ = layers.observe(ctx, DIR, "Obs_Group.tla", "Obs_Group.cfg", bad, name="selfO")
    if not any(v[1] == inv for v in viol):
        raise Broken("binding self-test: observation layer did not flag a corrupted line (%s expected, got %s)" % (inv, viol))
    run = next((r for r in runs if not r[-1]["st"]["none"]), None)
    if run is None:
        raise Broken("binding self-test: no run ending with a group in memory")
    bad = copy.deepcopy(run)
    bad[-1]["st"]["gen"] += 1
    np = "NP21" if len(bad[0]["tps"]) == 3 else "NP32"
    reached, total, _ = layers.conform(ctx, DIR, "Trace_Group.tla", "Trace_Group.cfg", bad, name="selfC", cfg_text=trace_cfg(np, bad[0]["reb"], bad[0]["unit_ms"]))
    if reached == total:
        raise Broken("binding self-test: conformance layer accepted a corrupted generation")
    return {"observation_layer_flags_corrupted_field": inv, "conformance_layer_rejects_corrupted_state": True}


def replay(ctx, prop, path):
    obj = json.load(open(path))
    s = obj.get("schedule") or obj.get("detail", {}).get("schedule")
    rows = harness(ctx, [s], "replay")
    _, viol, _ = layers.observe(ctx, DIR, "Obs_Group.tla", "Obs_Group.cfg", rows)
    for r in rows:
        print(json.dumps({k: v for k, v in r.items() if k != "rst"}, sort_keys=True))
    hit = [(line, inv) for line, inv in viol if inv.startswith(prop + "_")]
    for line, inv in hit:
        print("VIOLATION property=%s replay=%s" % (prop, path))
        print("  %s false at line %d" % (inv, line))
    return 1 if hit else 0
