---- MODULE MC_Group ----
EXTENDS Group
NP21 == [t1 |-> 2, t2 |-> 1]
NP32 == [t1 |-> 3, t2 |-> 2]
CTP == <<"t1", 0>>
\* simulation only: a clock-heavy mix (time must pass for the C43 paths; uniform choice among ~30 requests rarely ticks)
NextClock == \/ \E c \in Members : \/ \E s \in SubsChoices : Join(c, s)
                                   \/ Sync(c, 0) \/ Heartbeat(c, 0)
             \/ Tick \/ Failover
====
