---- MODULE MC_Group ----
EXTENDS Group
NP21 == [t1 |-> 2, t2 |-> 1]
NP32 == [t1 |-> 3, t2 |-> 2]
CTP == <<"t1", 0>>
\* reduced action mix (current-generation requests only, no commits); was needed for the 3-member run while the store
\* dropped the timeouts (KeepT={FALSE}: 22 M transitions with the full Next); not used by the registered configs any more
NextCore == \/ \E c \in Members : \/ \E s \in SubsChoices, ss \in SessChoices : Join(c, s, ss, FALSE)
                                  \/ Sync(c, 0) \/ Heartbeat(c, 0) \/ Leave(c)
            \/ Tick \/ Failover \/ DeleteGroups
\* simulation only: a clock-heavy mix (time must pass for the C43 paths; uniform choice among ~30 requests rarely ticks)
NextClock == \/ \E c \in Members : \/ \E s \in SubsChoices, ss \in SessChoices : Join(c, s, ss, FALSE)
                                   \/ Sync(c, 0) \/ Heartbeat(c, 0)
             \/ Tick \/ Failover
\* simulation only, with the Dev*Unlocked designs on: requests and ticks whose store I/O is held, released later
NextRace == \/ \E c \in Members : \/ \E s \in SubsChoices, ss \in SessChoices : Join(c, s, ss, FALSE)
                                  \/ Sync(c, 0) \/ Heartbeat(c, 0)
            \/ Tick \/ Failover \/ Release
====
