---- MODULE MC_Group ----
EXTENDS Group
NP21 == [t1 |-> 2, t2 |-> 1]
NP32 == [t1 |-> 3, t2 |-> 2]
CTP == <<"t1", 0>>
\* 3-member exhaustive run: current-generation requests only and no commits (stale generations, unknown members and
\* commits are independent of the third member and are covered exhaustively by the 2-member configurations)
NextCore == \/ \E c \in Members : \/ \E s \in SubsChoices : Join(c, s)
                                  \/ Sync(c, 0) \/ Heartbeat(c, 0) \/ Leave(c)
            \/ Tick \/ Failover \/ DeleteGroups
\* simulation only: a clock-heavy mix (time must pass for the C43 paths; uniform choice among ~30 requests rarely ticks)
NextClock == \/ \E c \in Members : \/ \E s \in SubsChoices : Join(c, s)
                                   \/ Sync(c, 0) \/ Heartbeat(c, 0)
             \/ Tick \/ Failover
====
