---- MODULE Trace_Group ----
(* Conformance layer: every recorded step of the real GroupCoordinator must be a step of Group.tla (same     *)
(* action, same arguments, same reply) and the logged projection of the lock-protected group state and of    *)
(* the persisted group must equal the model's post-state.  The model's nondeterminism (leader choice,        *)
(* round-robin order, whether the store kept the timeouts) is resolved by the logged state.                  *)
EXTENDS Group
TraceLog == ndJsonDeserialize("trace.ndjson")
NP21 == [t1 |-> 2, t2 |-> 1]
NP32 == [t1 |-> 3, t2 |-> 2]
CTP == <<"t1", 0>>
VARIABLE l
tvars == <<vars, l>>
E == TraceLog[l]
Range(s) == {s[i] : i \in DOMAIN s}
Cur(ev) == l <= Len(TraceLog) /\ E.ev = ev /\ l' = l + 1
Norm(st) == IF st.none THEN NoGrp
            ELSE [none |-> FALSE, gen |-> st.gen, phase |-> st.phase, leader |-> st.leader,
                  mem |-> [m \in DOMAIN st.mem |-> [topics |-> Range(st.mem[m].topics), sess |-> st.mem[m].sess, hb |-> st.mem[m].hb, jg |-> st.mem[m].jg]],
                  asg |-> [m \in DOMAIN st.mem |-> IF m \in DOMAIN st.asg THEN Range(st.asg[m]) ELSE {}],
                  rebT |-> st.rebT, deadline |-> st.deadline]
StMatch == /\ now' = E.now
           /\ grp' = Norm(E.st)
           /\ (~E.st.none => DOMAIN E.st.asg \subseteq DOMAIN E.st.mem)
           /\ store'.none = E.rst.none
           /\ (~E.rst.none => Norm(E.rst) \in RestoreSet(store', now'))
TInit == Init /\ l = 1 /\ TLCSet(7, 0)
TReset == /\ Cur("Reset") /\ E.reb = RebT /\ Range(E.tps) = AllTP
          /\ grp' = NoGrp /\ store' = NoGrp /\ now' = 0 /\ offs' = [tp \in AllTP |-> -1]
          /\ alive' = [m \in Members |-> -1] /\ gstart' = 0 /\ fgen' = -1 /\ pend' = NoPend /\ last' = [ev |-> "Init"] /\ obs' = [ev |-> "Init"] /\ hist' = <<>>
TJoinErr == Cur("JoinErr") /\ Join(E.c, Range(E.sub), E.sess, TRUE) /\ last'.ev = "JoinErr" /\ StMatch
TJoinFail == /\ Cur("JoinFail") /\ JoinX(E.c, Range(E.sub), E.sess, FALSE, TRUE) /\ last'.ev = "JoinFail"
             /\ last'.rgen = E.rgen /\ last'.leader = E.leader /\ StMatch
TJoin == /\ Cur("Join") /\ Join(E.c, Range(E.sub), E.sess, FALSE)
         /\ last'.code = E.code /\ last'.rgen = E.rgen /\ last'.leader = E.leader /\ last'.list = Range(E.list) /\ StMatch
TSync == /\ Cur("Sync") /\ \E d \in {0, -1} : Sync(E.c, d)
         /\ last'.gen = E.gen /\ last'.code = E.code /\ last'.asg = Range(E.asg) /\ StMatch
THeartbeat == /\ Cur("Heartbeat") /\ \E d \in {0, -1} : Heartbeat(E.c, d)
              /\ last'.gen = E.gen /\ last'.code = E.code /\ StMatch
TCommit == /\ Cur("Commit") /\ \E d \in {0, -1} : Commit(E.c, d)
           /\ last'.gen = E.gen /\ last'.code = E.code /\ StMatch
           /\ (offs' # offs) = (E.offs # TraceLog[l - 1].offs)
TLeave == Cur("Leave") /\ Leave(E.c) /\ last'.code = E.code /\ StMatch
TDelete == Cur("DeleteGroups") /\ DeleteGroups /\ last'.code = E.code /\ StMatch
TTick == Cur("Tick") /\ Tick /\ StMatch
TFailover == Cur("Failover") /\ Failover /\ StMatch
Consumed == TLCSet(7, IF TLCGet(7) < l THEN l ELSE TLCGet(7))   \* high-water mark of consumed lines
TNext == (TReset \/ TJoin \/ TJoinErr \/ TJoinFail \/ TSync \/ THeartbeat \/ TCommit \/ TLeave \/ TDelete \/ TTick \/ TFailover) /\ Consumed
TSpec == TInit /\ [][TNext]_tvars
Reached == PrintT(<<"CONF", ToJson([reached |-> TLCGet(7), total |-> Len(TraceLog)])>>)
====
