CONSTANTS
 Members = {"m1","m2"}
 Topics = {"t1","t2"}
 NParts <- NP21
 SubsChoices = {{"t1"},{"t1","t2"}}
 CommitTP <- CTP
 SessChoices = {2}
 RebT = 2
 DefT = 30
 KeepT = {TRUE}
 MaxClock = 4
 MaxGen = 4
 HbCoalesce = 0
 FixSubChange = TRUE
 FixHbRefresh = TRUE
 DevHbNoGen = FALSE
 DevSyncNoGen = FALSE
 DevCommitNoGen = FALSE
 DevJoinOkEarly = TRUE
 DevAssignAllMembers = FALSE
 DevRestoreDropsAsg = FALSE
 DevRestoreGenZero = FALSE
 DevExpireIgnoresHb = FALSE
 DevNoLaggerDrop = FALSE
 DevNoExpire = FALSE
 DevLaggerSkippedOnExpiry = FALSE
 DevRestoreSkipsExpired = FALSE
 DevJoinPutFailDropsMember = FALSE
 DevMalformedJoinGhost = FALSE
 DevJoinNewSkipsLoad = FALSE
 DevJoinIgnoresLoadError = FALSE
 DevSyncRefusesIdle = FALSE
 DevHbWriteUnlocked = FALSE
 DevCleanupWriteUnlocked = FALSE
 DevSyncLookupUnlocked = FALSE
INIT Init
NEXT Next
PROPERTIES C14_JoinOK C14_Leader C14_ListOnlyLeader C14_SyncAfterLeader
CONSTRAINT GenBound
VIEW View
CHECK_DEADLOCK FALSE
