CONSTANTS
 Members = {"m1","m2","m3"}
 Topics = {"t1","t2"}
 NParts <- NP32
 SubsChoices = {{"t1"},{"t2"},{"t1","t2"}}
 CommitTP <- CTP
 SessChoices = {2,4}
 RebT = 2
 DefT = 30
 KeepT = {TRUE}
 MaxClock = 1000
 MaxGen = 1000
 HbCoalesce = 0
 FixSubChange = TRUE
 FixHbRefresh = TRUE
 DevHbNoGen = FALSE
 DevSyncNoGen = FALSE
 DevCommitNoGen = FALSE
 DevJoinOkEarly = FALSE
 DevAssignAllMembers = FALSE
 DevRestoreDropsAsg = FALSE
 DevRestoreGenZero = FALSE
 DevExpireIgnoresHb = FALSE
 DevNoLaggerDrop = FALSE
 DevNoExpire = FALSE
 DevLaggerSkippedOnExpiry = FALSE
 DevRestoreSkipsExpired = FALSE
 DevJoinPutFailDropsMember = FALSE
 DevMalformedJoinGhost = FALSE
 DevJoinNewSkipsLoad = FALSE
 DevJoinIgnoresLoadError = FALSE
 DevSyncRefusesIdle = FALSE
 DevHbWriteUnlocked = FALSE
 DevCleanupWriteUnlocked = FALSE
 DevSyncLookupUnlocked = FALSE
INIT Init
NEXT NextClock
INVARIANTS EmitSched
PROPERTIES C12_OnlySubscribed C12_ExactlyOne C12_ReplyFromMap C12_OneMapPerGen C13_StaleRejected C13_StaleNoCommit C13_GenMonotone C13_ReplyGen C14_JoinOK C14_Leader C14_ListOnlyLeader C14_SyncAfterLeader C15_RestoreEqual C15_NotFenced C15_ActsOnRestored C15_KeepWorking C43_RemovedJustified C43_NoOverdue C43_Rebalances
CHECK_DEADLOCK FALSE
