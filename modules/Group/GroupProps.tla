---- MODULE GroupProps ----
(* C12 C13 C14 C15 C43 stated ONCE over parameters describing one step of the group coordinator:          *)
(* the request/reply `e`, the group the request acted on (`pre`), the group afterwards (`post`), ...       *)
(* Group.tla instantiates it with model values (primed variables: the predicates are action properties),  *)
(* Obs_Group.tla with values observed on the real GroupCoordinator.                                        *)
(* A group is a record [none |-> TRUE] or                                                                  *)
(*   [none |-> FALSE, gen, phase, leader, mem : member -> [topics, sess, hb, jg], asg : member -> SUBSET TP, *)
(*    rebT, deadline].   Times are integer ticks.  Error codes are the Kafka wire codes.                   *)
EXTENDS Integers, FiniteSets
CONSTANTS e,          \* the step: [ev, c, gen (generation sent), code (reply), pending, + rgen/leader/list/sub (Join), asg (Sync)]
                      \*   pending = TRUE: the step's store write is still in flight (only possible when a design does store I/O
                      \*   outside the coordinator lock; such a step is followed later by a "Release" step when the write lands;
                      \*   a request parked *before* its decision shows up as "Hold" and its reply as a later ordinary step)
          pre,        \* group the step acted on: in-memory group, or what the coordinator restores from the store
          post,       \* same after the step
          mem,        \* in-memory group after the step ([none |-> TRUE] when not loaded)
          rst,        \* restoreGroupState(store contents) after the step ([none |-> TRUE] when nothing is stored)
          restored,   \* TRUE iff the step had to load the group from the store (first request after a failover)
          now,        \* clock after the step
          alive,      \* member -> time of its last sign of life before the step (-1 = none):
                      \*   any JoinGroup, or a Heartbeat of a known member carrying the current generation
          sessOf,     \* member of pre -> session timeout that applies to it
          gstart,     \* time at which the current generation was first seen
          fgen,       \* generation in which a coordinator failover happened and which is still current (-1 = none)
          offsPre, offsPost,  \* committed offsets before / after the step
          AllMembers, AllTP, RebT

NONE == 0
ILLEGAL_GENERATION == 22
UNKNOWN_MEMBER_ID == 25
REBALANCE_IN_PROGRESS == 27

Mem(g) == IF g.none THEN {} ELSE DOMAIN g.mem
IsReq == e.ev \in {"Sync", "Heartbeat", "Commit"}
\* the sender is not a member of the group's current generation
Stale == IsReq /\ (pre.none \/ e.c \notin Mem(pre) \/ e.gen # pre.gen)
SyncOk == e.ev = "Sync" /\ e.code = NONE

\* ------------------------------------------------------------------ C12
C12_OnlySubscribed == (SyncOk /\ e.c \in Mem(post)) => \A tp \in e.asg : tp[1] \in post.mem[e.c].topics
C12_ExactlyOne ==
  (SyncOk /\ ~post.none) =>
     \A tp \in AllTP :
        (\E m \in Mem(post) : tp[1] \in post.mem[m].topics) =>
            /\ Cardinality({m \in Mem(post) : tp \in post.asg[m]}) = 1
            /\ \A m \in Mem(post) : tp \in post.asg[m] => tp[1] \in post.mem[m].topics
\* one consistent assignment per generation: every reply is the member's entry of the group's map, and the
\* map (and the membership) cannot change while the generation stays the same
C12_ReplyFromMap == (SyncOk /\ e.c \in Mem(post)) => e.asg = post.asg[e.c]
C12_OneMapPerGen ==
  (~pre.none /\ ~post.none /\ pre.phase = "stable" /\ post.gen = pre.gen) =>
     /\ post.phase = "stable" /\ Mem(post) = Mem(pre)
     /\ \A m \in Mem(pre) : post.asg[m] = pre.asg[m]

\* ------------------------------------------------------------------ C13
C13_StaleRejected == Stale => e.code # NONE
C13_StaleNoCommit == Stale => offsPost = offsPre
C13_GenMonotone == (~pre.none /\ ~post.none) => post.gen >= pre.gen
C13_ReplyGen == (e.ev = "Join") => (~post.none /\ e.rgen = post.gen)

\* ------------------------------------------------------------------ C14
C14_JoinOK == (e.ev = "Join" /\ e.code = NONE) => (~post.none /\ \A m \in Mem(post) : post.mem[m].jg = post.gen)
\* every reply that admits the member (NONE / REBALANCE_IN_PROGRESS) names a leader, and a leader named in any reply is a member
C14_Leader == (e.ev = "Join" /\ (e.code \in {NONE, REBALANCE_IN_PROGRESS} \/ e.leader # "")) => e.leader \in Mem(post)
C14_ListOnlyLeader == (e.ev = "Join" /\ e.list # {}) => (e.code = NONE /\ e.c = e.leader /\ e.list = Mem(post))
C14_SyncAfterLeader == (e.ev = "Sync" /\ ~Stale /\ pre.phase = "stable") => e.code = NONE

\* ------------------------------------------------------------------ C15
Proj(g) == IF g.none THEN <<"none">>
           ELSE <<g.gen, g.phase, g.leader, [m \in Mem(g) |-> g.mem[m].topics], [m \in Mem(g) |-> g.asg[m]]>>
\* at every quiescent point (no store write in flight) a failover would restore what is in memory
C15_RestoreEqual == (~mem.none /\ ~e.pending) => (~rst.none /\ Proj(rst) = Proj(mem))
\* the first request after a failover is not fenced ...
C15_NotFenced == (IsReq /\ restored /\ ~Stale) => e.code \notin {ILLEGAL_GENERATION, UNKNOWN_MEMBER_ID}
\* ... it acts on the group the store holds: no member disappears (except the one that leaves), the generation does not restart
\* ("JoinErr" = JoinGroup answered with an error because the store could not be read: nothing may change)
C15_ActsOnRestored ==
  (restored /\ e.ev \in {"Join", "JoinErr", "Sync", "Heartbeat", "Leave", "Commit"}) =>
     /\ (Mem(pre) \ (IF e.ev = "Leave" /\ e.code = NONE THEN {e.c} ELSE {})) \subseteq Mem(post)
     /\ (~post.none => post.gen >= pre.gen)
\* ... and as long as the generation in which the failover happened is current, its members keep working without
\* rejoining: in a stable group every request of a member succeeds and SyncGroup returns the persisted assignment
C15_KeepWorking == (IsReq /\ ~Stale /\ fgen = pre.gen /\ pre.phase = "stable") =>
                      (e.code = NONE /\ (e.ev = "Sync" => e.asg = pre.asg[e.c]))

\* ------------------------------------------------------------------ C43
Removed == Mem(pre) \ Mem(post)
Left(m) == e.ev = "Leave" /\ e.c = m /\ e.code = NONE
Deleted == e.ev = "DeleteGroups" /\ e.code = NONE
Expired(m) == e.ev = "Tick" /\ now - alive[m] > sessOf[m]
Lagger(m) == /\ e.ev = "Tick" /\ pre.deadline # 0 /\ now >= pre.deadline /\ pre.mem[m].jg # pre.gen
             /\ now - gstart >= RebT
C43_RemovedJustified == \A m \in Removed : Left(m) \/ Deleted \/ Expired(m) \/ Lagger(m)
C43_NoOverdue ==
  (e.ev = "Tick" /\ ~mem.none /\ ~pre.none) =>
     \A m \in Mem(mem) \cap Mem(pre) :
        /\ ~(now - alive[m] > sessOf[m])
        \* nobody who had missed the rebalance deadline before this cleanup is still there ...
        /\ ~(pre.deadline # 0 /\ now >= pre.deadline /\ pre.mem[m].jg # pre.gen)
        \* ... nor anybody who has missed the deadline that holds after it
        /\ ~(mem.deadline # 0 /\ now >= mem.deadline /\ mem.mem[m].jg # mem.gen)
C43_Rebalances == (e.ev = "Tick" /\ Removed # {} /\ ~post.none) => (post.gen > pre.gen /\ post.phase = "preparing_rebalance")

\* ------------------------------------------------------------------ observation bookkeeping (same rule on both sides)
Refreshes(m) == e.c = m /\ (e.ev = "Join" \/ (e.ev = "Heartbeat" /\ e.code \in {NONE, REBALANCE_IN_PROGRESS}))
NextAlive == [m \in AllMembers |-> IF m \notin Mem(post) THEN -1 ELSE IF Refreshes(m) THEN now ELSE alive[m]]
NextGstart == IF post.none THEN 0 ELSE IF pre.none \/ post.gen # pre.gen THEN now ELSE gstart
NextFgen == IF post.none THEN -1 ELSE IF e.ev = "Failover" /\ ~pre.none THEN pre.gen ELSE IF fgen # post.gen THEN -1 ELSE fgen
====
