CONSTANTS
 Members = {"m1","m2","m3"}
 Topics = {"t1","t2"}
 NParts <- NP32
 SubsChoices = {{"t1"},{"t1","t2"}}
 CommitTP <- CTP
 SessChoices = {2}
 RebT = 2
 DefT = 30
 KeepT = {TRUE}
 MaxClock = 1000
 MaxGen = 1000
 HbCoalesce = 0
 FixSubChange = TRUE
 FixHbRefresh = TRUE
 DevHbNoGen = FALSE
 DevSyncNoGen = FALSE
 DevCommitNoGen = FALSE
 DevJoinOkEarly = FALSE
 DevAssignAllMembers = FALSE
 DevRestoreDropsAsg = FALSE
 DevRestoreGenZero = FALSE
 DevExpireIgnoresHb = FALSE
 DevNoLaggerDrop = FALSE
 DevNoExpire = FALSE
 DevLaggerSkippedOnExpiry = FALSE
 DevRestoreSkipsExpired = FALSE
 DevJoinPutFailDropsMember = FALSE
 DevMalformedJoinGhost = FALSE
 DevJoinNewSkipsLoad = FALSE
 DevJoinIgnoresLoadError = FALSE
 DevSyncRefusesIdle = FALSE
 DevHbWriteUnlocked = TRUE
 DevCleanupWriteUnlocked = TRUE
 DevSyncLookupUnlocked = TRUE
INIT Init
NEXT NextRace
INVARIANTS EmitSched
CHECK_DEADLOCK FALSE
