package broker

// Verification harness (injected with `go test -overlay`; not part of the repository).
// Replays TLC-generated schedules on the real GroupCoordinator inside a testing/synctest bubble
// (virtual time drives the real cleanupLoop) and records one ndjson line per step: request, reply,
// the group state projected under c.mu (`st`), what the real restoreGroupState makes of the store
// contents (`rst`), and the committed offsets.  No repository hook is needed.
// Replay is adaptive: only the inputs of a schedule are applied; real member ids (rand.Int63) are
// mapped to model ids, generations are sent relative to the group's current generation.
//
// Scheduler point for store I/O (DESIGN 2.5): the coordinator works on a wrapper of the InMemoryStore whose
// Metadata / PutConsumerGroup / DeleteConsumerGroup can be armed to park the next call.  A step with
// "hold":true is started in its own goroutine (a Tick: the coordinator's cleanup goroutine) and parks at its
// first gated store call.  If c.mu is held at that moment (TryLock fails: the tree does this I/O under the
// lock) the call is released at once and the step is an ordinary sequential one ("hold not replayed").
// Otherwise the step stays parked outside the lock while the following steps run; a "Release" step (or the
// next Tick/Failover/hold, or the end of the schedule) lets it finish.

import (
	"bufio"
	"context"
	"encoding/binary"
	"encoding/json"
	"errors"
	"os"
	"sort"
	"sync"
	"testing"
	"testing/synctest"
	"time"

	metadatapb "github.com/KafScale/platform/pkg/gen/metadata"
	"github.com/KafScale/platform/pkg/metadata"
	"github.com/KafScale/platform/pkg/protocol"
	"github.com/twmb/franz-go/pkg/kmsg"
)

type vgStep struct {
	A    string   `json:"a"`
	C    string   `json:"c"`
	Sub  []string `json:"sub"`
	D    int      `json:"d"`
	Sess int      `json:"sess"`
	Hold bool     `json:"hold"`
	// Fault: the next FetchConsumerGroup of the coordinator fails once (a Join right after a fail-over)
	Fault bool `json:"fault"`
	// PutFail: the next PutConsumerGroup fails once (the write at the end of this JoinGroup)
	PutFail bool `json:"putfail"`
}

const (
	vgGateMeta  = 1 // store.Metadata (a read before the decision)
	vgGateWrite = 2 // PutConsumerGroup / DeleteConsumerGroup (the write after the decision)
)

// vgGateStore parks the next armed store call until release() is called.
type vgGateStore struct {
	metadata.Store
	mu        sync.Mutex
	armed     int
	parked    bool
	failFetch bool
	failPut   bool
	release   chan struct{}
}

func (g *vgGateStore) gate(kind int) {
	g.mu.Lock()
	if g.armed&kind == 0 {
		g.mu.Unlock()
		return
	}
	g.armed = 0
	g.parked = true
	ch := make(chan struct{})
	g.release = ch
	g.mu.Unlock()
	<-ch
}

func (g *vgGateStore) arm(kind int) {
	g.mu.Lock()
	g.armed = kind
	g.mu.Unlock()
}

func (g *vgGateStore) isParked() bool {
	g.mu.Lock()
	defer g.mu.Unlock()
	return g.parked
}

func (g *vgGateStore) open() {
	g.mu.Lock()
	g.armed = 0
	if g.parked {
		g.parked = false
		close(g.release)
	}
	g.mu.Unlock()
}

func (g *vgGateStore) setFailFetch(on bool) {
	g.mu.Lock()
	g.failFetch = on
	g.mu.Unlock()
}

func (g *vgGateStore) FetchConsumerGroup(ctx context.Context, groupID string) (*metadatapb.ConsumerGroup, error) {
	g.mu.Lock()
	fail := g.failFetch
	g.failFetch = false
	g.mu.Unlock()
	if fail {
		return nil, errors.New("verif: injected metadata store read failure")
	}
	return g.Store.FetchConsumerGroup(ctx, groupID)
}

func (g *vgGateStore) Metadata(ctx context.Context, topics []string) (*metadata.ClusterMetadata, error) {
	g.gate(vgGateMeta)
	return g.Store.Metadata(ctx, topics)
}

func (g *vgGateStore) PutConsumerGroup(ctx context.Context, group *metadatapb.ConsumerGroup) error {
	g.mu.Lock()
	fail := g.failPut
	g.failPut = false
	g.mu.Unlock()
	if fail {
		return errors.New("verif: injected metadata store write failure")
	}
	g.gate(vgGateWrite)
	return g.Store.PutConsumerGroup(ctx, group)
}

func (g *vgGateStore) DeleteConsumerGroup(ctx context.Context, groupID string) error {
	g.gate(vgGateWrite)
	return g.Store.DeleteConsumerGroup(ctx, groupID)
}

type vgSched struct {
	Sess   int            `json:"sess"`
	Reb    int            `json:"reb"`
	NParts map[string]int `json:"nparts"`
	UnitMs int            `json:"unit_ms"`
	Steps  []vgStep       `json:"steps"`
}

const vgGroup = "g"

func vgStore(nparts map[string]int) *metadata.InMemoryStore {
	cid := "c"
	names := make([]string, 0, len(nparts))
	for n := range nparts {
		names = append(names, n)
	}
	sort.Strings(names)
	topics := []protocol.MetadataTopic{}
	for _, name := range names {
		ps := make([]protocol.MetadataPartition, nparts[name])
		for i := range ps {
			ps[i] = protocol.MetadataPartition{Partition: int32(i)}
		}
		topics = append(topics, protocol.MetadataTopic{Topic: kmsg.StringPtr(name), Partitions: ps})
	}
	return metadata.NewInMemoryStore(metadata.ClusterMetadata{ClusterID: &cid, Brokers: []protocol.MetadataBroker{{NodeID: 0, Host: "h", Port: 1}}, Topics: topics})
}

func vgDecodeAsg(b []byte) [][]any {
	out := [][]any{}
	if len(b) < 6 {
		return out
	}
	pos := 2
	nt := int(binary.BigEndian.Uint32(b[pos:]))
	pos += 4
	for i := 0; i < nt; i++ {
		l := int(binary.BigEndian.Uint16(b[pos:]))
		pos += 2
		name := string(b[pos : pos+l])
		pos += l
		np := int(binary.BigEndian.Uint32(b[pos:]))
		pos += 4
		for j := 0; j < np; j++ {
			out = append(out, []any{name, int(int32(binary.BigEndian.Uint32(b[pos:])))})
			pos += 4
		}
	}
	return out
}

// vgProject turns a groupState into the abstract group record of Group.tla (ticks = seconds since start).
func vgProject(g *groupState, start time.Time, unit time.Duration, name func(string) string) map[string]any {
	if g == nil {
		return map[string]any{"none": true}
	}
	secs := func(t time.Time) int {
		if t.IsZero() {
			return 0
		}
		return int(t.Sub(start) / unit)
	}
	mem := map[string]any{}
	asg := map[string]any{}
	for id, m := range g.members {
		tp := append([]string{}, m.topics...)
		sort.Strings(tp)
		hb := -1
		if !m.lastHeartbeat.IsZero() {
			hb = secs(m.lastHeartbeat)
		}
		mem[name(id)] = map[string]any{"topics": tp, "jg": int(m.joinGeneration), "hb": hb, "sess": int(m.sessionTimeout / unit)}
		asg[name(id)] = [][]any{}
	}
	for id, a := range g.assignments {
		l := [][]any{}
		for _, at := range a {
			for _, p := range at.Partitions {
				l = append(l, []any{at.Name, int(p)})
			}
		}
		asg[name(id)] = l // an entry of a non-member shows up as an extra key and is rejected by layer C
	}
	return map[string]any{"none": false, "gen": int(g.generationID), "phase": groupPhaseString(g.state), "leader": name(g.leaderID),
		"mem": mem, "asg": asg, "rebT": int(g.rebalanceTimeout / unit), "deadline": secs(g.rebalanceDeadline)}
}

func TestVerifGroupReplay(t *testing.T) {
	in, outPath := os.Getenv("VERIF_SCHEDULES"), os.Getenv("VERIF_TRACE_OUT")
	if in == "" || outPath == "" {
		t.Skip("no schedules")
	}
	f, err := os.Open(in)
	if err != nil {
		t.Fatal(err)
	}
	defer f.Close()
	out, err := os.Create(outPath)
	if err != nil {
		t.Fatal(err)
	}
	defer out.Close()
	w := bufio.NewWriter(out)
	defer w.Flush()
	sc := bufio.NewScanner(f)
	sc.Buffer(make([]byte, 1<<20), 1<<26)
	n := 0
	for sc.Scan() {
		var s vgSched
		if err := json.Unmarshal(sc.Bytes(), &s); err != nil {
			t.Fatal(err)
		}
		var lines []map[string]any
		idx := n
		synctest.Test(t, func(t *testing.T) {
			lines = vgRun(t, s, idx)
		})
		for _, m := range lines {
			enc, err := json.Marshal(m)
			if err != nil {
				t.Fatal(err)
			}
			w.Write(enc)
			w.WriteByte('\n')
		}
		n++
	}
	t.Logf("replayed %d schedules", n)
}

func vgRun(t *testing.T, s vgSched, idx int) []map[string]any {
	ctx := context.Background()
	store := vgStore(s.NParts)
	gate := &vgGateStore{Store: store}
	start := time.Now()
	// one model tick = one cleanup interval = `unit` of virtual time (1 s unless the schedule says otherwise: with 500 ms two
	// consecutive ticks are less than a second apart, which matters for anything that treats sub-second spacing specially)
	unit := time.Second
	if s.UnitMs > 0 {
		unit = time.Duration(s.UnitMs) * time.Millisecond
	}
	unitMs := int(unit / time.Millisecond)
	cfg := &CoordinatorConfig{CleanupInterval: unit}
	c := NewGroupCoordinator(gate, protocol.MetadataBroker{}, cfg)
	real2model := map[string]string{}
	model2real := map[string]string{}
	name := func(id string) string {
		if id == "" {
			return ""
		}
		if m, ok := real2model[id]; ok {
			return m
		}
		return "?" + id
	}
	idOf := func(c string) string { // the id a client that never joined would not have: a well-formed unknown id
		if id, ok := model2real[c]; ok {
			return id
		}
		return vgGroup + "-0-" + c
	}
	tnames := make([]string, 0, len(s.NParts))
	for tn := range s.NParts {
		tnames = append(tnames, tn)
	}
	sort.Strings(tnames)
	tps := [][]any{}
	for _, tn := range tnames {
		for p := 0; p < s.NParts[tn]; p++ {
			tps = append(tps, []any{tn, p})
		}
	}
	memState := func() map[string]any {
		c.mu.Lock()
		defer c.mu.Unlock()
		return vgProject(c.groups[vgGroup], start, unit, name)
	}
	restored := func() *groupState {
		g, err := store.FetchConsumerGroup(ctx, vgGroup)
		if err != nil {
			t.Fatalf("FetchConsumerGroup: %v", err)
		}
		if g == nil {
			return nil
		}
		return restoreGroupState(g) // the real restore function, on a fresh copy: the coordinator is not touched
	}
	curGen := func() int32 { // generation of the group the next request will act on (memory, else store)
		c.mu.Lock()
		g := c.groups[vgGroup]
		c.mu.Unlock()
		if g != nil {
			return g.generationID
		}
		if r := restored(); r != nil {
			return r.generationID
		}
		return 0
	}
	offsets := func() []int {
		o := []int{}
		for _, tp := range tps {
			v, _, err := store.FetchConsumerOffset(ctx, vgGroup, tp[0].(string), int32(tp[1].(int)))
			if err != nil {
				t.Fatalf("FetchConsumerOffset: %v", err)
			}
			o = append(o, int(v))
		}
		return o
	}
	var lines []map[string]any
	emit := func(m map[string]any) {
		if _, ok := m["pending"]; !ok {
			m["pending"] = false
		}
		m["st"] = memState()
		m["rst"] = vgProject(restored(), start, unit, name)
		m["offs"] = offsets()
		m["now"] = int(time.Since(start) / unit)
		lines = append(lines, m)
	}
	emit(map[string]any{"ev": "Reset", "sched": idx, "sess": s.Sess, "reb": s.Reb, "tps": tps, "unit_ms": unitMs})
	// ---- held steps (see the comment at the top of the file)
	type heldStep struct {
		kind string
		done chan map[string]any
		line int
	}
	var held *heldStep
	holdsOutside, holdsUnderLock, holdsNoIO := 0, 0, 0
	releaseHeld := func() {
		if held == nil {
			return
		}
		h := held
		held = nil
		gate.open()
		switch h.kind {
		case "Tick":
			synctest.Wait()
			emit(map[string]any{"ev": "Release", "c": "", "gen": 0, "code": 0})
		case "Sync": // parked before its decision: the reply is an ordinary (late) step
			r := <-h.done
			r["late"] = true
			emit(r)
		default: // parked at the write after its decision: the begin line gets the reply code, the write lands now
			r := <-h.done
			lines[h.line]["code"] = r["code"]
			emit(map[string]any{"ev": "Release", "c": "", "gen": 0, "code": 0})
		}
	}
	// runHeld starts call() in its own goroutine with the gate armed; base = the request fields known before the reply
	runHeld := func(kind string, mask int, base map[string]any, call func() map[string]any) {
		releaseHeld()
		gate.arm(mask)
		done := make(chan map[string]any, 1)
		go func() { done <- call() }()
		synctest.Wait()
		select {
		case r := <-done: // no gated store call on this path
			gate.arm(0)
			holdsNoIO++
			emit(r)
			return
		default:
		}
		if !gate.isParked() {
			t.Fatalf("held %s is blocked, but not at the store gate", kind)
		}
		if !c.mu.TryLock() { // the store call is made under c.mu: nothing can overlap it
			holdsUnderLock++
			gate.open()
			emit(<-done)
			return
		}
		c.mu.Unlock()
		holdsOutside++
		if kind == "Sync" {
			emit(map[string]any{"ev": "Hold", "c": base["c"], "gen": base["gen"], "code": 0})
			held = &heldStep{kind: kind, done: done, line: -1}
			return
		}
		b := map[string]any{"pending": true, "code": -1}
		for k, v := range base {
			b[k] = v
		}
		emit(b)
		held = &heldStep{kind: kind, done: done, line: len(lines) - 1}
	}
	for i, st := range s.Steps {
		switch st.A {
		case "Join":
			r := kmsg.NewPtrJoinGroupRequest()
			r.Group, r.ProtocolType = vgGroup, "consumer"
			r.MemberID = model2real[st.C] // "" for a first join, the old id otherwise (a removed member gets a fresh id)
			sess := s.Sess
			if st.Sess > 0 {
				sess = st.Sess
			}
			r.SessionTimeoutMillis, r.RebalanceTimeoutMillis = int32(sess*unitMs), int32(s.Reb*unitMs)
			if len(st.Sub) > 0 { // the empty subscription is sent as a request without any protocol (nothing to parse)
				p := kmsg.NewJoinGroupRequestProtocol()
				p.Name, p.Metadata = "range", c.encodeSubscription(st.Sub)
				r.Protocols = append(r.Protocols, p)
			}
			sub := append([]string{}, st.Sub...)
			sort.Strings(sub)
			gate.setFailFetch(st.Fault)
			gate.mu.Lock()
			gate.failPut = st.PutFail
			gate.mu.Unlock()
			resp, err := c.JoinGroup(ctx, r)
			gate.setFailFetch(false)
			gate.mu.Lock()
			gate.failPut = false
			gate.mu.Unlock()
			if err != nil {
				if !st.Fault {
					t.Fatalf("JoinGroup: %v", err)
				}
				emit(map[string]any{"ev": "JoinErr", "c": st.C, "gen": 0, "sub": sub, "sess": sess, "code": -100})
				break
			}
			if resp.MemberID != "" {
				model2real[st.C] = resp.MemberID
				real2model[resp.MemberID] = st.C
			}
			list := []string{}
			for _, m := range resp.Members {
				list = append(list, name(m.MemberID))
			}
			sort.Strings(list)
			ev, pending := "Join", false
			if st.PutFail && resp.ErrorCode == protocol.UNKNOWN_SERVER_ERROR {
				ev, pending = "JoinFail", true // the write failed: memory is ahead of the store until the next successful write
			}
			emit(map[string]any{"ev": ev, "pending": pending, "c": st.C, "gen": 0, "sub": sub, "sess": sess, "code": int(resp.ErrorCode), "rgen": int(resp.Generation), "leader": name(resp.LeaderID), "list": list})
		case "Sync":
			r := kmsg.NewPtrSyncGroupRequest()
			r.Group, r.MemberID, r.Generation = vgGroup, idOf(st.C), curGen()+int32(st.D)
			call := func() map[string]any {
				resp, err := c.SyncGroup(ctx, r)
				if err != nil {
					t.Errorf("SyncGroup: %v", err)
					return map[string]any{"ev": "Sync", "c": st.C, "gen": int(r.Generation), "code": -1, "asg": [][]any{}}
				}
				return map[string]any{"ev": "Sync", "c": st.C, "gen": int(r.Generation), "code": int(resp.ErrorCode), "asg": vgDecodeAsg(resp.MemberAssignment)}
			}
			if st.Hold {
				runHeld("Sync", vgGateMeta, map[string]any{"ev": "Sync", "c": st.C, "gen": int(r.Generation)}, call)
			} else {
				emit(call())
			}
		case "Heartbeat":
			r := kmsg.NewPtrHeartbeatRequest()
			r.Group, r.MemberID, r.Generation = vgGroup, idOf(st.C), curGen()+int32(st.D)
			call := func() map[string]any {
				resp := c.Heartbeat(ctx, r)
				return map[string]any{"ev": "Heartbeat", "c": st.C, "gen": int(r.Generation), "code": int(resp.ErrorCode)}
			}
			if st.Hold {
				runHeld("Heartbeat", vgGateWrite, map[string]any{"ev": "Heartbeat", "c": st.C, "gen": int(r.Generation)}, call)
			} else {
				emit(call())
			}
		case "Commit":
			r := kmsg.NewPtrOffsetCommitRequest()
			r.Group, r.MemberID, r.Generation = vgGroup, idOf(st.C), curGen()+int32(st.D)
			tp := kmsg.NewOffsetCommitRequestTopic()
			tp.Topic = "t1"
			pp := kmsg.NewOffsetCommitRequestTopicPartition()
			pp.Partition, pp.Offset = 0, int64(i+1) // a fresh value: an accepted commit always changes the stored offset
			tp.Partitions = append(tp.Partitions, pp)
			r.Topics = append(r.Topics, tp)
			resp, err := c.OffsetCommit(ctx, r)
			if err != nil || len(resp.Topics) != 1 || len(resp.Topics[0].Partitions) != 1 {
				t.Fatalf("OffsetCommit: %v %#v", err, resp)
			}
			emit(map[string]any{"ev": "Commit", "c": st.C, "gen": int(r.Generation), "code": int(resp.Topics[0].Partitions[0].ErrorCode), "v": i + 1})
		case "Leave":
			r := kmsg.NewPtrLeaveGroupRequest()
			r.Group, r.MemberID = vgGroup, idOf(st.C)
			resp := c.LeaveGroup(ctx, r)
			emit(map[string]any{"ev": "Leave", "c": st.C, "gen": 0, "code": int(resp.ErrorCode)})
		case "DeleteGroups":
			r := kmsg.NewPtrDeleteGroupsRequest()
			r.Groups = []string{vgGroup}
			resp, err := c.DeleteGroups(ctx, r)
			if err != nil || len(resp.Groups) != 1 {
				t.Fatalf("DeleteGroups: %v", err)
			}
			emit(map[string]any{"ev": "DeleteGroups", "c": "", "gen": 0, "code": int(resp.Groups[0].ErrorCode)})
		case "Tick":
			releaseHeld()
			if st.Hold {
				gate.arm(vgGateWrite)
			}
			time.Sleep(unit) // virtual: the coordinator's own ticker fires at the same instant
			synctest.Wait()  // ... and cleanupGroups has finished (or is parked at the gate) when every goroutine is blocked again
			tick := map[string]any{"ev": "Tick", "c": "", "gen": 0, "code": 0}
			if st.Hold && gate.isParked() {
				if c.mu.TryLock() { // cleanup writes outside the lock
					c.mu.Unlock()
					holdsOutside++
					tick["pending"] = true
					emit(tick)
					held = &heldStep{kind: "Tick"}
					break
				}
				holdsUnderLock++
				gate.open()
				synctest.Wait()
			} else if st.Hold {
				gate.arm(0)
				holdsNoIO++
			}
			emit(tick)
		case "Release":
			releaseHeld()
		case "Failover":
			releaseHeld()
			c.Stop()
			synctest.Wait()
			c = NewGroupCoordinator(gate, protocol.MetadataBroker{}, cfg)
			emit(map[string]any{"ev": "Failover", "c": "", "gen": 0, "code": 0})
		default:
			t.Fatalf("unknown step %q", st.A)
		}
	}
	releaseHeld()
	c.Stop()
	synctest.Wait()
	lines[0]["holds"] = map[string]any{"outside": holdsOutside, "underlock": holdsUnderLock, "noio": holdsNoIO}
	return lines
}
