#!/usr/bin/env python3
"""Regenerates the static TLC configs of this module (run by hand after changing the constant list)."""
import os
D = os.path.dirname(os.path.abspath(__file__))
FLAGS = ["FixSubChange", "FixHbRefresh", "DevHbNoGen", "DevSyncNoGen", "DevCommitNoGen", "DevJoinOkEarly", "DevAssignAllMembers",
         "DevRestoreDropsAsg", "DevRestoreGenZero", "DevExpireIgnoresHb", "DevNoLaggerDrop", "DevNoExpire",
         "DevLaggerSkippedOnExpiry", "DevRestoreSkipsExpired", "DevJoinPutFailDropsMember", "DevMalformedJoinGhost", "DevJoinNewSkipsLoad", "DevJoinIgnoresLoadError", "DevSyncRefusesIdle", "DevHbWriteUnlocked", "DevCleanupWriteUnlocked", "DevSyncLookupUnlocked"]
PROPS = ["C12_OnlySubscribed", "C12_ExactlyOne", "C12_ReplyFromMap", "C12_OneMapPerGen", "C13_StaleRejected", "C13_StaleNoCommit",
         "C13_GenMonotone", "C13_ReplyGen", "C14_JoinOK", "C14_Leader", "C14_ListOnlyLeader", "C14_SyncAfterLeader",
         "C15_RestoreEqual", "C15_NotFenced", "C15_ActsOnRestored", "C15_KeepWorking", "C43_RemovedJustified", "C43_NoOverdue", "C43_Rebalances"]
INTERNAL = ["StoreInSync", "LeaderIsMember", "AsgOnlyStable", "HbIsAlive"]
S2 = '{{"t1"},{"t1","t2"}}'
S3 = '{{"t1"},{"t2"},{"t1","t2"}}'
S4 = '{{},{"t1"},{"t2"},{"t1","t2"}}'   # {} = JoinGroup without protocols / with unparseable metadata
ST2 = '{{"t2"},{"t1","t2"}}'   # two members on the single partition of t2: one of them gets nothing


def consts(members, subs, nparts, keept, maxclock, maxgen, flips=(), sess="{2}", reb=2, coalesce=0):
    fl = {f: (f.startswith("Fix")) for f in FLAGS}
    for f in flips:
        fl[f] = not fl[f]
    out = ["CONSTANTS", " Members = {%s}" % ",".join('"%s"' % m for m in members), ' Topics = {"t1","t2"}', " NParts <- %s" % nparts,
           " SubsChoices = %s" % subs, " CommitTP <- CTP", " SessChoices = %s" % sess, " RebT = %d" % reb, " DefT = 30",
           " KeepT = %s" % keept, " MaxClock = %d" % maxclock, " MaxGen = %d" % maxgen, " HbCoalesce = %d" % coalesce]
    out += [" %s = %s" % (f, "TRUE" if v else "FALSE") for f, v in fl.items()]
    return "\n".join(out) + "\n"


def mc(name, c, props=PROPS, internal=INTERNAL, view=True, constraint=True, extra="", nxt="Next"):
    s = c + "INIT Init\nNEXT %s\n" % nxt
    if props:
        s += "PROPERTIES " + " ".join(props) + "\n"
    if internal:
        s += "INVARIANTS " + " ".join(internal) + "\n"
    if constraint:
        s += "CONSTRAINT GenBound\n"
    if view:
        s += "VIEW View\n"
    s += "CHECK_DEADLOCK FALSE\n" + extra
    open(os.path.join(D, name), "w").write(s)


# KeepT = {TRUE}: the in-memory store keeps the timeouts since the cloneConsumerGroup fix (C17); {FALSE} = the older store, kept in thorough2.
mc("MC_Group_quick.cfg", consts(["m1", "m2"], S2, "NP21", "{TRUE}", 3, 3), props=["AllC"])
mc("MC_Group_thorough.cfg", consts(["m1", "m2", "m3"], S2, "NP21", "{TRUE}", 2, 3, sess="{1}", reb=1), props=["AllC"])
mc("MC_Group_thorough2.cfg", consts(["m1", "m2"], S2, "NP21", "{TRUE,FALSE}", 3, 3), props=["AllC"])
# per-member session timeouts (longer than the rebalance timeout) and the idle-member subscriptions, exhaustively (thorough)
mc("MC_Group_thorough3.cfg", consts(["m1", "m2"], ST2, "NP21", "{TRUE}", 3, 2, sess="{1,3}", reb=2), props=["AllC"])

# name -> (flag, property, overrides): a deviation config lists only the predicates of the property it must break
DEV = {
    "SubChange": ("FixSubChange", "C12", {}), "AssignAllMembers": ("DevAssignAllMembers", "C12", {}),
    "SyncLookupUnlocked": ("DevSyncLookupUnlocked", "C12", {}),
    # time passes while the group is not loaded (no cleanup), the short session (2) lapses, the long one (6) does not
    "RestoreSkipsExpired": ("DevRestoreSkipsExpired", "C12", {"sess": "{2,6}", "clock": 4}),
    "HbNoGen": ("DevHbNoGen", "C13", {}), "SyncNoGen": ("DevSyncNoGen", "C13", {}), "CommitNoGen": ("DevCommitNoGen", "C13", {}),
    "HbWriteUnlocked": ("DevHbWriteUnlocked", "C13", {}),
    "JoinIgnoresLoadError": ("DevJoinIgnoresLoadError", "C13", {}),
    "JoinOkEarly": ("DevJoinOkEarly", "C14", {}),
    # a member may join with no (parseable) subscription at all: the request alphabet contains the empty subscription
    "MalformedJoinGhost": ("DevMalformedJoinGhost", "C14", {"subs": '{{},{"t1"}}'}),
    # the only configuration with failing store writes (NextPutFault): on the repaired tree a failed write leaves memory ahead of the store
    "JoinPutFailDropsMember": ("DevJoinPutFailDropsMember", "C14", {"nxt": "NextPutFault"}),
    "RestoreDropsAsg": ("DevRestoreDropsAsg", "C15", {}), "RestoreGenZero": ("DevRestoreGenZero", "C15", {}),
    # both members on the single partition of t2: whoever sorts second (random ids) is idle, whatever the model chose
    "SyncRefusesIdle": ("DevSyncRefusesIdle", "C15", {"subs": '{{"t2"}}'}),
    "CleanupWriteUnlocked": ("DevCleanupWriteUnlocked", "C15", {}),
    "JoinNewSkipsLoad": ("DevJoinNewSkipsLoad", "C15", {}),
    "HbRefresh": ("FixHbRefresh", "C43", {}), "ExpireIgnoresHb": ("DevExpireIgnoresHb", "C43", {}),
    "NoLaggerDrop": ("DevNoLaggerDrop", "C43", {}), "NoExpire": ("DevNoExpire", "C43", {}),
    # heartbeats closer than 2 ticks to the recorded one are not recorded (with a 500 ms tick: closer than 1 s)
    "HbCoalesce": (None, "C43", {"coalesce": 2}),
    # the lagger's session (6) outlasts the rebalance timeout (3), the other member's session (2) lapses in the deadline tick
    "LaggerSkippedOnExpiry": ("DevLaggerSkippedOnExpiry", "C43", {"sess": "{2,6}", "reb": 3, "clock": 4}),
}
for n, (f, pid, o) in DEV.items():
    mc("Dev_Group_%s.cfg" % n,
       consts(["m1", "m2"], o.get("subs", S2), "NP21", "{TRUE}", o.get("clock", 4), 4, flips=[f] if f else [], sess=o.get("sess", "{2}"), reb=o.get("reb", 2), coalesce=o.get("coalesce", 0)),
       props=[p for p in PROPS if p.startswith(pid)], internal=[], nxt=o.get("nxt", "Next"))

SIMTAIL = "INIT Init\nNEXT %s\nINVARIANTS EmitSched\nPROPERTIES " + " ".join(PROPS) + "\nCHECK_DEADLOCK FALSE\n"
open(os.path.join(D, "Sim_Group.cfg"), "w").write(consts(["m1", "m2", "m3"], S4, "NP32", "{TRUE}", 1000, 1000) + SIMTAIL % "Next")
open(os.path.join(D, "Sim_Group_clock.cfg"), "w").write(consts(["m1", "m2", "m3"], S3, "NP32", "{TRUE}", 1000, 1000, sess="{2,4}") + SIMTAIL % "NextClock")
# all three "store I/O outside the lock" designs at once, no properties: the schedules contain hold/Release steps at random places.
# On a tree that does its store I/O under c.mu every hold degenerates into the plain sequential call.
open(os.path.join(D, "Sim_Group_race.cfg"), "w").write(
    consts(["m1", "m2", "m3"], S2, "NP32", "{TRUE}", 1000, 1000, flips=["DevHbWriteUnlocked", "DevCleanupWriteUnlocked", "DevSyncLookupUnlocked"])
    + "INIT Init\nNEXT NextRace\nINVARIANTS EmitSched\nCHECK_DEADLOCK FALSE\n")
open(os.path.join(D, "Trace_Group.cfg"), "w").write(
    consts(["m1", "m2", "m3"], S3, "NP21", "{TRUE,FALSE}", 1000000, 1000000, sess="{2}") + "INIT TInit\nNEXT TNext\nPOSTCONDITION Reached\nCHECK_DEADLOCK FALSE\n")
