#!/usr/bin/env python3
"""Regenerates the static TLC configs of this module (run by hand after changing the constant list)."""
import os
D = os.path.dirname(os.path.abspath(__file__))
FLAGS = ["FixSubChange", "FixHbRefresh", "DevHbNoGen", "DevSyncNoGen", "DevCommitNoGen", "DevJoinOkEarly", "DevAssignAllMembers",
         "DevRestoreDropsAsg", "DevRestoreGenZero", "DevExpireIgnoresHb", "DevNoLaggerDrop", "DevNoExpire"]
PROPS = ["C12_OnlySubscribed", "C12_ExactlyOne", "C12_ReplyFromMap", "C12_OneMapPerGen", "C13_StaleRejected", "C13_StaleNoCommit",
         "C13_GenMonotone", "C13_ReplyGen", "C14_JoinOK", "C14_Leader", "C14_ListOnlyLeader", "C14_SyncAfterLeader",
         "C15_RestoreEqual", "C15_KeepWorking", "C43_RemovedJustified", "C43_NoOverdue", "C43_Rebalances"]
INTERNAL = ["StoreInSync", "LeaderIsMember", "AsgOnlyStable", "HbIsAlive"]


def consts(members, subs, nparts, keept, maxclock, maxgen, flip=None, sess=2, reb=2):
    fl = {f: (f.startswith("Fix")) for f in FLAGS}
    if flip:
        fl[flip] = not fl[flip]
    out = ["CONSTANTS", " Members = {%s}" % ",".join('"%s"' % m for m in members), ' Topics = {"t1","t2"}', " NParts <- %s" % nparts,
           " SubsChoices = %s" % subs, " CommitTP <- CTP", " SessT = %d" % sess, " RebT = %d" % reb, " DefT = 30",
           " KeepT = %s" % keept, " MaxClock = %d" % maxclock, " MaxGen = %d" % maxgen]
    out += [" %s = %s" % (f, "TRUE" if v else "FALSE") for f, v in fl.items()]
    return "\n".join(out) + "\n"


def mc(name, c, props=PROPS, internal=INTERNAL, view=True, constraint=True, extra="", nxt="Next"):
    s = c + "INIT Init\nNEXT %s\n" % nxt
    if props:
        s += "PROPERTIES " + " ".join(props) + "\n"
    if internal:
        s += "INVARIANTS " + " ".join(internal) + "\n"
    if constraint:
        s += "CONSTRAINT GenBound\n"
    if view:
        s += "VIEW View\n"
    s += "CHECK_DEADLOCK FALSE\n" + extra
    open(os.path.join(D, name), "w").write(s)


S2 = '{{"t1"},{"t1","t2"}}'
S3 = '{{"t1"},{"t2"},{"t1","t2"}}'
# KeepT = {TRUE}: the in-memory store keeps the timeouts since the cloneConsumerGroup fix (C17); {FALSE} = the older store, kept in thorough2.
# measured with KeepT={FALSE} (16 workers, idle machine): quick 35 747 distinct / 723 028 transitions; 2 members, session 2, clock 3: 103 556 / 2 107 072 (82 s);
# 3 members, session 2, clock 3, gen 3, KeepT both: 5 635 138 / 214 881 644 (24 min with 8 workers on a loaded machine) - too slow for a tier
mc("MC_Group_quick.cfg", consts(["m1", "m2"], S2, "NP21", "{TRUE}", 3, 3), props=["AllC"])
mc("MC_Group_thorough.cfg", consts(["m1", "m2", "m3"], S2, "NP21", "{TRUE}", 2, 3, sess=1, reb=1), props=["AllC"])
mc("MC_Group_thorough2.cfg", consts(["m1", "m2"], S2, "NP21", "{TRUE,FALSE}", 3, 3), props=["AllC"])
DEV = {"SubChange": ("FixSubChange", "C12"), "AssignAllMembers": ("DevAssignAllMembers", "C12"),
       "HbNoGen": ("DevHbNoGen", "C13"), "SyncNoGen": ("DevSyncNoGen", "C13"), "CommitNoGen": ("DevCommitNoGen", "C13"),
       "JoinOkEarly": ("DevJoinOkEarly", "C14"),
       "RestoreDropsAsg": ("DevRestoreDropsAsg", "C15"), "RestoreGenZero": ("DevRestoreGenZero", "C15"),
       "HbRefresh": ("FixHbRefresh", "C43"), "ExpireIgnoresHb": ("DevExpireIgnoresHb", "C43"),
       "NoLaggerDrop": ("DevNoLaggerDrop", "C43"), "NoExpire": ("DevNoExpire", "C43")}
for n, (f, pid) in DEV.items():   # a deviation config lists only the predicates of the property it must break
    mc("Dev_Group_%s.cfg" % n, consts(["m1", "m2"], S2, "NP21", "{TRUE}", 4, 4, flip=f), props=[p for p in PROPS if p.startswith(pid)], internal=[])
open(os.path.join(D, "Sim_Group.cfg"), "w").write(
    consts(["m1", "m2", "m3"], S3, "NP32", "{TRUE}", 1000, 1000) + "INIT Init\nNEXT Next\nINVARIANTS EmitSched\nPROPERTIES " + " ".join(PROPS) + "\nCHECK_DEADLOCK FALSE\n")

open(os.path.join(D, "Trace_Group.cfg"), "w").write(
    consts(["m1", "m2", "m3"], S3, "NP21", "{TRUE,FALSE}", 1000000, 1000000) + "INIT TInit\nNEXT TNext\nPOSTCONDITION Reached\nCHECK_DEADLOCK FALSE\n")

open(os.path.join(D, "Sim_Group_clock.cfg"), "w").write(
    consts(["m1", "m2", "m3"], S2, "NP32", "{TRUE}", 1000, 1000) + "INIT Init\nNEXT NextClock\nINVARIANTS EmitSched\nPROPERTIES " + " ".join(PROPS) + "\nCHECK_DEADLOCK FALSE\n")
