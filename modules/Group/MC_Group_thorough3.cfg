CONSTANTS
 Members = {"m1","m2"}
 Topics = {"t1","t2"}
 NParts <- NP21
 SubsChoices = {{"t2"},{"t1","t2"}}
 CommitTP <- CTP
 SessChoices = {1,3}
 RebT = 2
 DefT = 30
 KeepT = {TRUE}
 MaxClock = 3
 MaxGen = 2
 HbCoalesce = 0
 FixSubChange = TRUE
 FixHbRefresh = TRUE
 DevHbNoGen = FALSE
 DevSyncNoGen = FALSE
 DevCommitNoGen = FALSE
 DevJoinOkEarly = FALSE
 DevAssignAllMembers = FALSE
 DevRestoreDropsAsg = FALSE
 DevRestoreGenZero = FALSE
 DevExpireIgnoresHb = FALSE
 DevNoLaggerDrop = FALSE
 DevNoExpire = FALSE
 DevLaggerSkippedOnExpiry = FALSE
 DevRestoreSkipsExpired = FALSE
 DevJoinPutFailDropsMember = FALSE
 DevMalformedJoinGhost = FALSE
 DevJoinNewSkipsLoad = FALSE
 DevJoinIgnoresLoadError = FALSE
 DevSyncRefusesIdle = FALSE
 DevHbWriteUnlocked = FALSE
 DevCleanupWriteUnlocked = FALSE
 DevSyncLookupUnlocked = FALSE
INIT Init
NEXT Next
PROPERTIES AllC
INVARIANTS StoreInSync LeaderIsMember AsgOnlyStable HbIsAlive
CONSTRAINT GenBound
VIEW View
CHECK_DEADLOCK FALSE
