---- MODULE Group ----
(* pkg/broker/coordinator.go: the consumer-group coordinator, one group ("g").                              *)
(* One action per public method (each is one critical section under c.mu and returns synchronously);        *)
(* Tick = one CleanupInterval passes and cleanupGroups runs; Failover = a new GroupCoordinator over the     *)
(* same metadata store (the group is restored lazily by the first request: loadGroupIfMissing).             *)
(* Member identity, leader choice (ensureLeader = smallest random id) and the round-robin order             *)
(* (sortedMembers) are nondeterministic: ids are rand.Int63.                                                *)
(* Time is integer ticks.  Codes are the Kafka wire codes.                                                  *)
EXTENDS Integers, Sequences, FiniteSets, TLC, Json
CONSTANTS Members, Topics, NParts, SubsChoices, CommitTP,
          SessChoices,        \* session timeouts a JoinGroup may carry (per member)
          RebT,               \* rebalance timeout sent in every JoinGroup
          DefT,               \* defaultSessionTimeout = defaultRebalanceTimeout (30 s)
          KeepT,              \* subset of BOOLEAN: does the store keep the timeouts? InMemoryStore.cloneConsumerGroup drops them (FALSE)
          MaxClock, MaxGen,
          FixSubChange,       \* TRUE: a Stable member re-joining with a changed subscription starts a rebalance (repair of C12)
          FixHbRefresh,       \* TRUE: Heartbeat refreshes lastHeartbeat before the phase check (repair of C43)
          DevHbNoGen, DevSyncNoGen, DevCommitNoGen,   \* generation check skipped
          DevJoinOkEarly,     \* completeIfReady does not look at joinGeneration
          DevAssignAllMembers,\* round-robin over all members, subscriptions ignored
          DevRestoreDropsAsg, DevRestoreGenZero,      \* failover loses assignments / generation
          DevExpireIgnoresHb, \* Heartbeat never refreshes lastHeartbeat
          HbCoalesce,         \* deviation when > 0: a Heartbeat less than HbCoalesce ticks after the recorded one is answered but not recorded (0 = repaired tree)
          DevNoLaggerDrop,    \* dropRebalanceLaggers never drops
          DevNoExpire,        \* removeExpiredMembers never removes
          DevLaggerSkippedOnExpiry, \* cleanup: `expired || laggers` short-circuit - no lagger drop in a tick in which a session expired
          DevRestoreSkipsExpired,   \* restoreGroupState drops members whose persisted heartbeat is older than their session
          DevJoinPutFailDropsMember, \* JoinGroup whose PutConsumerGroup fails deletes the new member but keeps leader / generation / phase
          DevMalformedJoinGhost,    \* JoinGroup without parseable subscription metadata is refused (INVALID_REQUEST) *after* the member was inserted
          DevJoinNewSkipsLoad,      \* JoinGroup of a first-time joiner does not load the persisted group
          DevJoinIgnoresLoadError,  \* JoinGroup treats a failed FetchConsumerGroup as "no such group"
          DevSyncRefusesIdle, \* after a failover SyncGroup refuses a member whose (persisted) assignment is empty
          \* store I/O outside the coordinator lock (the repaired tree does all of it under c.mu):
          DevHbWriteUnlocked,      \* Heartbeat snapshots under the lock, PutConsumerGroup after unlocking
          DevCleanupWriteUnlocked, \* cleanupGroups sweeps under the lock, Put/DeleteConsumerGroup after unlocking
          DevSyncLookupUnlocked    \* leader's SyncGroup releases the lock around store.Metadata, assigns with the topics seen before
VARIABLES grp,     \* c.groups["g"]  ([none |-> TRUE] when not in memory)
          store,   \* the persisted ConsumerGroup ([none |-> TRUE] when absent)
          now, offs,
          alive, gstart, fgen,   \* observation bookkeeping (GroupProps!NextAlive / NextGstart / NextFgen)
          pend,    \* store operation in flight outside the lock ([k |-> "none"] always, unless a Dev*Unlocked deviation is on)
          last,    \* the step just taken: request, reply, group it acted on
          obs,     \* derived from the post-state once per step: [post, rst, sessOf] (see GroupProps parameters)
          hist
vars == <<grp, store, now, offs, alive, gstart, fgen, pend, last, obs, hist>>

PE == "empty"  PP == "preparing_rebalance"  PC == "completing_rebalance"  PS == "stable"
AllTP == {tp \in Topics \X (0..3) : tp[2] < NParts[tp[1]]}
NoGrp == [none |-> TRUE]
NoPend == [k |-> "none"]
Mem(g) == IF g.none THEN {} ELSE DOMAIN g.mem
EmptyGrp == [none |-> FALSE, gen |-> 0, leader |-> "", phase |-> PE, mem |-> <<>>, asg |-> <<>>, rebT |-> DefT, deadline |-> 0]
Restrict(f, S) == [x \in S |-> f[x]]

Init == /\ grp = NoGrp /\ store = NoGrp /\ now = 0 /\ offs = TLCEval([tp \in AllTP |-> -1])
        /\ alive = [m \in Members |-> -1] /\ gstart = 0 /\ fgen = -1 /\ pend = NoPend /\ last = [ev |-> "Init"] /\ obs = [ev |-> "Init"] /\ hist = <<>>

\* ensureLeader: keeps a leader that is a member, otherwise the smallest (random) id
EnsureLeaderSet(g) ==
  IF g.leader # "" /\ g.leader \in Mem(g) THEN {g}
  ELSE IF Mem(g) = {} THEN {[g EXCEPT !.leader = ""]}
  ELSE {[g EXCEPT !.leader = l] : l \in Mem(g)}
\* startRebalance(timeout) at time t
StartRebalanceSet(g, timeout, t) ==
  IF Mem(g) = {} THEN {[g EXCEPT !.phase = PE, !.asg = <<>>, !.deadline = 0, !.leader = ""]}
  ELSE LET rt == IF timeout > 0 THEN timeout ELSE g.rebT
           g1 == [g EXCEPT !.rebT = rt, !.gen = @ + 1, !.phase = PP, !.asg = [m \in Mem(g) |-> {}], !.deadline = t + rt]
       IN {[g2 EXCEPT !.mem = [m \in Mem(g2) |-> [g2.mem[m] EXCEPT !.jg = 0]]] : g2 \in EnsureLeaderSet(g1)}
AllJoined(g) == Mem(g) # {} /\ \A m \in Mem(g) : g.mem[m].jg = g.gen
\* persistGroupLocked / buildConsumerGroup
Persist(g) == IF g.none \/ Mem(g) = {} THEN NoGrp
              ELSE [none |-> FALSE, gen |-> g.gen, leader |-> g.leader, phase |-> g.phase, rebT |-> g.rebT,
                    mem |-> [m \in Mem(g) |-> [topics |-> g.mem[m].topics, sess |-> g.mem[m].sess, hb |-> g.mem[m].hb, asg |-> g.asg[m]]]]
\* restoreGroupState at time t; keep = the store returned the timeouts
RestoreK(s, t, keep) ==
  LET gen == IF DevRestoreGenZero THEN 0 ELSE s.gen
      rt == IF keep THEN s.rebT ELSE DefT
      live == IF DevRestoreSkipsExpired THEN {m \in DOMAIN s.mem : ~(t - s.mem[m].hb > (IF keep THEN s.mem[m].sess ELSE DefT))} ELSE DOMAIN s.mem
      g0 == [none |-> FALSE, gen |-> gen, leader |-> s.leader, phase |-> s.phase,
             mem |-> [m \in live |-> [topics |-> s.mem[m].topics, sess |-> IF keep THEN s.mem[m].sess ELSE DefT,
                                              hb |-> s.mem[m].hb, jg |-> gen]],
             asg |-> [m \in live |-> IF DevRestoreDropsAsg THEN {} ELSE s.mem[m].asg],
             rebT |-> rt, deadline |-> IF s.phase \in {PP, PC} THEN t + rt ELSE 0]
  IN EnsureLeaderSet(g0)
RestoreSet(s, t) == UNION {RestoreK(s, t, k) : k \in KeepT}
RestoreDet(s, t) == IF s.none THEN NoGrp ELSE CHOOSE g \in RestoreK(s, t, TRUE) : TRUE
\* loadGroupIfMissing
Loaded == IF ~grp.none THEN {grp} ELSE IF store.none THEN {NoGrp} ELSE RestoreSet(store, now)
EffGen(g) == IF g.none THEN 0 ELSE g.gen

Base(ev, c, gen, code, g0) == [ev |-> ev, c |-> c, gen |-> gen, code |-> code, pre |-> g0, restored |-> (grp.none /\ ~g0.none), pending |-> FALSE]
Pending(r) == [r EXCEPT !.pending = TRUE]

\* ---------------------------------------------------------------- observation bookkeeping + shared property text
P == INSTANCE GroupProps WITH e <- last', pre <- last'.pre, post <- obs'.post, mem <- grp', rst <- obs'.rst,
       restored <- last'.restored, now <- now', alive <- alive, sessOf <- obs'.sessOf, gstart <- gstart, fgen <- fgen,
       offsPre <- offs, offsPost <- offs', AllMembers <- Members, AllTP <- AllTP, RebT <- RebT
Book == /\ obs' = TLCEval(LET r == RestoreDet(store', now') IN
                          [post |-> IF ~grp'.none THEN grp' ELSE r, rst |-> r,
                           sessOf |-> [m \in Mem(last'.pre) |-> last'.pre.mem[m].sess]])
        /\ alive' = P!NextAlive /\ gstart' = P!NextGstart /\ fgen' = P!NextFgen

\* ---------------------------------------------------------------- JoinGroup
\* fault = the store read of loadGroupIfMissing fails (only possible when the group is not in memory)
\* putfail = the PutConsumerGroup at the end of JoinGroup fails: the reply is UNKNOWN_SERVER_ERROR ("JoinFail"), memory is ahead of the
\*           store until the next successful write (used only by NextPutFault, i.e. by the deviation configuration)
JoinX(c, topics, sess, fault, putfail) ==
  /\ fault => grp.none
  /\ IF fault /\ ~DevJoinIgnoresLoadError
     THEN \* ensureGroup returns the error: JoinGroup fails, nothing changes
          /\ UNCHANGED <<grp, store>> /\ last' = Base("JoinErr", c, 0, -100, RestoreDet(store, now)) @@ [sub |-> topics, sess |-> sess]
     ELSE IF DevMalformedJoinGhost /\ topics = {} /\ ~fault
     THEN \* the member record exists already when the request is refused: a ghost with joinGeneration 0, nothing persisted, no rebalance
          \E g0 \in Loaded :
            LET g == IF g0.none THEN EmptyGrp ELSE g0
                g1 == IF c \in Mem(g) THEN g
                      ELSE [g EXCEPT !.mem = [m \in Mem(g) \cup {c} |-> IF m = c THEN [topics |-> {}, sess |-> sess, hb |-> -1000, jg |-> 0] ELSE g.mem[m]],
                                     !.asg = [m \in Mem(g) \cup {c} |-> IF m \in Mem(g) THEN g.asg[m] ELSE {}]]
            IN /\ grp' = g1 /\ UNCHANGED store
               /\ last' = Base("Join", c, 0, 42, g0) @@ [sub |-> topics, sess |-> sess, rgen |-> 0, leader |-> "", list |-> {}]
     ELSE
     \E g0 \in (IF fault \/ (DevJoinNewSkipsLoad /\ grp.none /\ c \notin Mem(RestoreDet(store, now))) THEN {NoGrp} ELSE Loaded) :
     LET g == IF g0.none THEN EmptyGrp ELSE g0
         pre0 == IF g0.none /\ grp.none THEN RestoreDet(store, now) ELSE g0     \* the group the request should have acted on
         exists == c \in Mem(g)
         subChanged == exists /\ g.mem[c].topics # topics
         ms == IF exists THEN [g.mem[c] EXCEPT !.topics = topics, !.hb = now, !.sess = sess]
               ELSE [topics |-> topics, sess |-> sess, hb |-> now, jg |-> 0]
         g1 == [g EXCEPT !.mem = [m \in Mem(g) \cup {c} |-> IF m = c THEN ms ELSE g.mem[m]],
                         !.asg = [m \in Mem(g) \cup {c} |-> IF m \in Mem(g) THEN g.asg[m] ELSE {}]]
         cands == IF Cardinality(Mem(g1)) = 1 /\ g1.phase = PE THEN StartRebalanceSet([g1 EXCEPT !.leader = c], RebT, now)
                  ELSE IF g1.phase = PS /\ (~exists \/ (FixSubChange /\ subChanged)) THEN StartRebalanceSet(g1, RebT, now)
                  ELSE IF g1.phase = PE THEN StartRebalanceSet(g1, RebT, now)
                  ELSE IF g1.phase \in {PP, PC} THEN {[g1 EXCEPT !.rebT = RebT, !.deadline = now + RebT]}
                  ELSE {g1}
     IN \E g2 \in cands :
          LET g3 == [g2 EXCEPT !.mem[c].jg = g2.gen]
          IN \E g4 \in (IF g3.leader = "" THEN EnsureLeaderSet(g3) ELSE {g3}) :
               LET ready0 == g4.phase \in {PS, PC}
                   complete == ~ready0 /\ (DevJoinOkEarly \/ AllJoined(g4))      \* completeIfReady
                   g5 == IF complete THEN [g4 EXCEPT !.phase = PC, !.deadline = 0] ELSE g4
                   ready == ready0 \/ complete
                   drop == putfail /\ DevJoinPutFailDropsMember /\ ~exists
                   g6 == IF drop THEN [g5 EXCEPT !.mem = Restrict(g5.mem, Mem(g5) \ {c}), !.asg = Restrict(g5.asg, Mem(g5) \ {c})] ELSE g5
               IN /\ grp' = g6 /\ store' = (IF putfail THEN store ELSE Persist(g5))
                  /\ last' = [Base(IF putfail THEN "JoinFail" ELSE "Join", c, 0, IF putfail THEN -1 ELSE IF ready THEN 0 ELSE 27, pre0)
                                 EXCEPT !.restored = (grp.none /\ ~pre0.none), !.pending = putfail] @@
                             [sub |-> topics, sess |-> sess, rgen |-> g5.gen, leader |-> g5.leader, list |-> IF ready /\ c = g5.leader THEN Mem(g5) ELSE {}]
  /\ hist' = Append(hist, IF putfail THEN [a |-> "Join", c |-> c, sub |-> topics, sess |-> sess, putfail |-> TRUE]
                                    ELSE IF fault THEN [a |-> "Join", c |-> c, sub |-> topics, sess |-> sess, fault |-> TRUE]
                                    ELSE [a |-> "Join", c |-> c, sub |-> topics, sess |-> sess])
  /\ UNCHANGED <<now, offs, pend>> /\ Book

\* ---------------------------------------------------------------- assignPartitions: round-robin in sortedMembers order
Perms(S) == {f \in [1..Cardinality(S) -> S] : \A i, j \in 1..Cardinality(S) : i # j => f[i] # f[j]}
Subscribed(g) == UNION {g.mem[m].topics : m \in Mem(g)}
AssignOf(g, ord, topics) ==     \* topics = the topics whose partitions were looked up
  [m \in Mem(g) |-> {tp \in AllTP :
       LET el == SelectSeq(ord, LAMBDA x : DevAssignAllMembers \/ tp[1] \in g.mem[x].topics)
       IN tp[1] \in topics /\ el # <<>> /\ el[(tp[2] % Len(el)) + 1] = m}]
AssignSetT(g, topics) == {AssignOf(g, ord, topics) : ord \in Perms(Mem(g))}
AssignSet(g) == AssignSetT(g, Subscribed(g))

Hold == [hold |-> TRUE]
Sync(c, d) ==
  /\ \E g \in Loaded :
     LET gen == EffGen(g) + d
         R(code) == Base("Sync", c, gen, code, g) @@ [asg |-> {}]
         H == [a |-> "Sync", c |-> c, d |-> d]
         Plain(l, g2, st) == last' = l /\ grp' = g2 /\ store' = st /\ pend' = pend /\ hist' = Append(hist, H)
     IN IF g.none THEN Plain(R(25), grp, store)
        ELSE IF ~DevSyncNoGen /\ gen # g.gen THEN Plain(R(22), g, store)
        ELSE IF c \notin Mem(g) THEN Plain(R(25), g, store)
        ELSE IF g.phase = PP THEN Plain(R(27), g, store)
        ELSE IF g.phase = PC /\ c # g.leader THEN Plain(R(27), g, store)
        ELSE IF DevSyncRefusesIdle /\ g.phase = PS /\ g.asg[c] = {} /\ fgen = g.gen THEN Plain(R(27), g, store)
        ELSE IF g.phase = PC /\ DevSyncLookupUnlocked
        THEN \* the leader parks in store.Metadata with the lock released; nothing is decided yet
             /\ pend = NoPend
             /\ last' = Base("Hold", c, gen, 0, g) /\ grp' = g /\ store' = store
             /\ pend' = [k |-> "sync", c |-> c, gen |-> gen, topics |-> Subscribed(g)]
             /\ hist' = Append(hist, H @@ Hold)
        ELSE \E a \in (IF g.phase = PC THEN AssignSet(g) ELSE {g.asg}) :
               LET g1 == IF g.phase = PC THEN [g EXCEPT !.asg = a, !.phase = PS, !.deadline = 0] ELSE g
               IN Plain(Base("Sync", c, gen, 0, g) @@ [asg |-> g1.asg[c]], g1, Persist(g1))
  /\ UNCHANGED <<now, offs>> /\ Book

Heartbeat(c, d) ==
  /\ \E g \in Loaded :
     LET gen == EffGen(g) + d
         R(code) == Base("Heartbeat", c, gen, code, g)
         H == [a |-> "Heartbeat", c |-> c, d |-> d]
         Plain(l, g2, st) == last' = l /\ grp' = g2 /\ store' = st /\ pend' = pend /\ hist' = Append(hist, H)
         Write(l, g1) == IF DevHbWriteUnlocked      \* snapshot under the lock, PutConsumerGroup after unlocking
                         THEN /\ pend = NoPend /\ last' = Pending(l) /\ grp' = g1 /\ store' = store
                              /\ pend' = [k |-> "put", snap |-> Persist(g1)] /\ hist' = Append(hist, H @@ Hold)
                         ELSE Plain(l, g1, Persist(g1))
     IN IF g.none THEN Plain(R(25), grp, store)
        ELSE IF c \notin Mem(g) THEN Plain(R(25), g, store)
        ELSE IF ~DevHbNoGen /\ gen # g.gen THEN Plain(R(22), g, store)
        ELSE LET g1 == IF DevExpireIgnoresHb \/ now - g.mem[c].hb < HbCoalesce THEN g ELSE [g EXCEPT !.mem[c].hb = now] IN
             IF g.phase # PS
             THEN IF FixHbRefresh THEN Write(R(27), g1) ELSE Plain(R(27), g, store)
             ELSE Write(R(0), g1)
  /\ UNCHANGED <<now, offs>> /\ Book

Leave(c) ==
  /\ \E g \in Loaded :
     LET R(code) == Base("Leave", c, 0, code, g) IN
     IF g.none THEN /\ last' = R(25) /\ UNCHANGED <<grp, store>>
     ELSE IF c \notin Mem(g) THEN /\ last' = R(25) /\ grp' = g /\ UNCHANGED store
     ELSE LET g1 == [g EXCEPT !.mem = Restrict(g.mem, Mem(g) \ {c}), !.asg = Restrict(g.asg, Mem(g) \ {c})] IN
          IF Mem(g1) = {} THEN /\ grp' = NoGrp /\ store' = NoGrp /\ last' = R(0)
          ELSE \E g2 \in StartRebalanceSet(IF g1.leader = c THEN [g1 EXCEPT !.leader = ""] ELSE g1, 0, now) :
                 /\ grp' = g2 /\ store' = Persist(g2) /\ last' = R(0)
  /\ hist' = Append(hist, [a |-> "Leave", c |-> c])
  /\ UNCHANGED <<now, offs, pend>> /\ Book

\* OffsetCommit: member/generation check under c.mu, then the store write (atomic here: the harness is sequential)
Commit(c, d) ==
  /\ \E g \in Loaded :
     LET gen == EffGen(g) + d
         v == Len(hist) + 1          \* a fresh value: every accepted commit changes the stored offset
         code == IF g.none THEN 25 ELSE IF c \notin Mem(g) THEN 25 ELSE IF ~DevCommitNoGen /\ gen # g.gen THEN 22 ELSE 0
     IN /\ grp' = g
        /\ offs' = TLCEval(IF code = 0 THEN [offs EXCEPT ![CommitTP] = v] ELSE offs)
        /\ last' = Base("Commit", c, gen, code, g) @@ [v |-> v]
  /\ hist' = Append(hist, [a |-> "Commit", c |-> c, d |-> d])
  /\ UNCHANGED <<now, store, pend>> /\ Book

\* DeleteGroups: store lookup decides; the in-memory state is dropped either way
DeleteGroups ==
  /\ LET pre == IF ~grp.none THEN grp ELSE RestoreDet(store, now) IN
     IF store.none THEN /\ grp' = NoGrp /\ UNCHANGED store /\ last' = Base("DeleteGroups", "", 0, 69, pre)
     ELSE /\ grp' = NoGrp /\ store' = NoGrp /\ last' = Base("DeleteGroups", "", 0, 0, pre)
  /\ hist' = Append(hist, [a |-> "DeleteGroups"])
  /\ UNCHANGED <<now, offs, pend>> /\ Book

\* one cleanup interval passes, then cleanupGroups: removeExpiredMembers, dropRebalanceLaggers, startRebalance(0)
Tick ==
  /\ now < MaxClock /\ pend = NoPend
  /\ now' = now + 1
  /\ LET t == now + 1 IN
     IF grp.none THEN /\ UNCHANGED <<grp, store, pend>> /\ last' = Base("Tick", "", 0, 0, RestoreDet(store, now))
                      /\ hist' = Append(hist, [a |-> "Tick"])
     ELSE
       LET g == grp
           expired == IF DevNoExpire THEN {} ELSE {m \in Mem(g) : t - g.mem[m].hb > g.mem[m].sess}
           keep1 == Mem(g) \ expired
           g1 == [g EXCEPT !.mem = Restrict(g.mem, keep1), !.asg = Restrict(g.asg, keep1),
                           !.leader = IF g.leader \in expired THEN "" ELSE g.leader,
                           !.phase = IF keep1 = {} THEN PE ELSE g.phase]
           lagOn == ~DevNoLaggerDrop /\ ~(DevLaggerSkippedOnExpiry /\ expired # {}) /\ g1.deadline # 0 /\ t >= g1.deadline
           laggers == IF lagOn THEN {m \in Mem(g1) : g1.mem[m].jg # g1.gen} ELSE {}
           keep2 == Mem(g1) \ laggers
           g2 == [g1 EXCEPT !.mem = Restrict(g1.mem, keep2), !.asg = Restrict(g1.asg, keep2),
                            !.leader = IF g1.leader \in laggers THEN "" ELSE g1.leader,
                            !.phase = IF keep2 = {} THEN PE ELSE g1.phase]
           T == Base("Tick", "", 0, 0, g)
           Write(g3) == IF DevCleanupWriteUnlocked    \* sweep under the lock, Put/DeleteConsumerGroup after unlocking
                        THEN /\ last' = Pending(T) /\ grp' = g3 /\ store' = store /\ pend' = [k |-> "put", snap |-> Persist(g3)]
                             /\ hist' = Append(hist, [a |-> "Tick"] @@ Hold)
                        ELSE /\ last' = T /\ grp' = g3 /\ store' = Persist(g3) /\ pend' = pend /\ hist' = Append(hist, [a |-> "Tick"])
       IN IF keep2 = {} THEN Write(NoGrp)
          ELSE IF expired \cup laggers # {} THEN \E g3 \in StartRebalanceSet(g2, 0, t) : Write(g3)
          ELSE /\ last' = T /\ UNCHANGED <<grp, store, pend>> /\ hist' = Append(hist, [a |-> "Tick"])
  /\ UNCHANGED offs /\ Book

\* the store operation parked outside the lock goes through (only with a Dev*Unlocked deviation)
Release ==
  /\ pend.k # "none"
  /\ LET pre == IF ~grp.none THEN grp ELSE RestoreDet(store, now) IN
     IF pend.k = "put"
     THEN /\ store' = pend.snap /\ grp' = grp /\ last' = Base("Release", "", 0, 0, pre)
     ELSE \* leader's SyncGroup re-locks, re-checks generation and phase, assigns the *current* members over the topics seen *before*
       LET R(code) == Base("Sync", pend.c, pend.gen, code, pre) @@ [asg |-> {}] IN
       IF grp.none \/ pre.none THEN /\ last' = R(27) /\ UNCHANGED <<grp, store>>
       ELSE IF pend.gen # grp.gen \/ grp.phase # PC \/ pend.c \notin Mem(grp) THEN /\ last' = R(27) /\ UNCHANGED <<grp, store>>
       ELSE \E a \in AssignSetT(grp, pend.topics) :
              LET g1 == [grp EXCEPT !.asg = a, !.phase = PS, !.deadline = 0]
              IN /\ grp' = g1 /\ store' = Persist(g1) /\ last' = Base("Sync", pend.c, pend.gen, 0, pre) @@ [asg |-> g1.asg[pend.c]]
  /\ pend' = NoPend /\ hist' = Append(hist, [a |-> "Release"])
  /\ UNCHANGED <<now, offs>> /\ Book

\* the coordinator is replaced: memory is lost, the store stays
Failover ==
  /\ ~grp.none /\ pend = NoPend
  /\ grp' = NoGrp /\ last' = Base("Failover", "", 0, 0, grp)
  /\ hist' = Append(hist, [a |-> "Failover"])
  /\ UNCHANGED <<now, store, offs, pend>> /\ Book

Join(c, topics, sess, fault) == JoinX(c, topics, sess, fault, FALSE)
Next == \/ \E c \in Members : \/ \E s \in SubsChoices, ss \in SessChoices, f \in BOOLEAN : Join(c, s, ss, f)
                              \/ \E d \in {0, -1} : Sync(c, d) \/ Heartbeat(c, d) \/ Commit(c, d)
                              \/ Leave(c)
        \/ Tick \/ Failover \/ DeleteGroups \/ Release
NextPutFault == Next \/ \E c \in Members, s \in SubsChoices, ss \in SessChoices : JoinX(c, s, ss, FALSE, TRUE)
Spec == Init /\ [][Next]_vars

\* ---------------------------------------------------------------- properties (GroupProps, as action properties over a step)
C12_OnlySubscribed == [][P!C12_OnlySubscribed]_vars
C12_ExactlyOne == [][P!C12_ExactlyOne]_vars
C12_ReplyFromMap == [][P!C12_ReplyFromMap]_vars
C12_OneMapPerGen == [][P!C12_OneMapPerGen]_vars
C13_StaleRejected == [][P!C13_StaleRejected]_vars
C13_StaleNoCommit == [][P!C13_StaleNoCommit]_vars
C13_GenMonotone == [][P!C13_GenMonotone]_vars
C13_ReplyGen == [][P!C13_ReplyGen]_vars
C14_JoinOK == [][P!C14_JoinOK]_vars
C14_Leader == [][P!C14_Leader]_vars
C14_ListOnlyLeader == [][P!C14_ListOnlyLeader]_vars
C14_SyncAfterLeader == [][P!C14_SyncAfterLeader]_vars
C15_RestoreEqual == [][P!C15_RestoreEqual]_vars
C15_NotFenced == [][P!C15_NotFenced]_vars
C15_ActsOnRestored == [][P!C15_ActsOnRestored]_vars
C15_KeepWorking == [][P!C15_KeepWorking]_vars
C43_RemovedJustified == [][P!C43_RemovedJustified]_vars
C43_NoOverdue == [][P!C43_NoOverdue]_vars
C43_Rebalances == [][P!C43_Rebalances]_vars

\* all of them as one action property (one evaluation per transition: used by the exhaustive configs)
AllC == [][/\ P!C12_OnlySubscribed /\ P!C12_ExactlyOne /\ P!C12_ReplyFromMap /\ P!C12_OneMapPerGen /\ P!C13_StaleRejected /\ P!C13_StaleNoCommit
           /\ P!C13_GenMonotone /\ P!C13_ReplyGen /\ P!C14_JoinOK /\ P!C14_Leader /\ P!C14_ListOnlyLeader /\ P!C14_SyncAfterLeader
           /\ P!C15_RestoreEqual /\ P!C15_NotFenced /\ P!C15_ActsOnRestored /\ P!C15_KeepWorking /\ P!C43_RemovedJustified /\ P!C43_NoOverdue /\ P!C43_Rebalances]_vars

\* internal facts of the model (conformance level, not part of any property)
StoreInSync == ~grp.none => (~store.none /\ store.gen = grp.gen /\ store.phase = grp.phase /\ DOMAIN store.mem = Mem(grp))
LeaderIsMember == ~grp.none => grp.leader \in Mem(grp)
AsgOnlyStable == (~grp.none /\ grp.phase # PS) => \A m \in Mem(grp) : grp.asg[m] = {}
HbIsAlive == (FixHbRefresh /\ ~DevExpireIgnoresHb /\ HbCoalesce = 0 /\ ~grp.none) => \A m \in Mem(grp) : grp.mem[m].hb = alive[m]

GenBound == grp.none \/ grp.gen <= MaxGen
View == <<grp, store, now, alive, gstart, fgen, pend>>
EmitSched == PrintT(<<"SCHED", ToJson(hist)>>)
====
