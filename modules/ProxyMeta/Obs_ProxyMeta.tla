---- MODULE Obs_ProxyMeta ----
(* Observation layer: one line = one call of the real function, [input, decoded real reply].  The C28 *)
(* predicates are the ProxyMetaProps definitions instantiated with the real reply.                    *)
EXTENDS Integers, Sequences, FiniteSets, TLC, Json
TraceLog == ndJsonDeserialize("trace.ndjson")
VARIABLES l, viol
ovars == <<l, viol>>
Proxy == [node |-> 0, host |-> "proxy.verif", port |-> 19092]
P(e) == INSTANCE ProxyMetaProps WITH proxy <- Proxy, inp <- e.in, reply <- e.reply
OInit == l = 0 /\ viol = {}
Step ==
  /\ l < Len(TraceLog) /\ l' = l + 1
  /\ LET e == TraceLog[l + 1] IN
     /\ viol' = viol \cup
          {<<l + 1, n>> : n \in
             (IF P(e)!C28_OnlyProxyBrokers THEN {} ELSE {"C28_OnlyProxyBrokers"}) \cup
             (IF P(e)!C28_OnlyProxyLeaders THEN {} ELSE {"C28_OnlyProxyLeaders"}) \cup
             (IF P(e)!C28_OnlyProxyCoordinator THEN {} ELSE {"C28_OnlyProxyCoordinator"}) \cup
             (IF P(e)!C28_TopologyKept THEN {} ELSE {"C28_TopologyKept"})}
     /\ (l' = Len(TraceLog)) => PrintT(<<"OBS", ToJson([consumed |-> l', viol |-> viol'])>>)
OSpec == OInit /\ [][Step]_ovars
====
