CONSTANTS
 Names = {"ta","tb"}
 UnknownName = "tx"
 UnknownId = 9
 TopicErrs = {3}
 PartErrs = {0}
 Epochs = {0}
 Leaders = {1}
 MaxParts = 2
 DevKeepLeader = FALSE
 DevKeepBrokers = FALSE
 DevIdFilterAll = FALSE
 DevDropErrTopics = FALSE
 DevDupNameLosesSlot = FALSE
 DevFlightKeyIgnoresIds = FALSE
 DevStaleIdCache = FALSE
INIT TInit
NEXT TNext
POSTCONDITION Reached
CHECK_DEADLOCK FALSE
