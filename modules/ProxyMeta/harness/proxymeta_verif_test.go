package main

// Verification harness for C28 (injected with `go test -overlay`; not part of the repository).
// Runs every TLC-enumerated input (cluster snapshot + request) through the real handleMetadata
// (loadMetadata + buildProxyMetadataResponse over a real InMemoryStore), handleFindCoordinator and
// buildNotReadyResponse, decodes the produced bytes with franz-go kmsg and logs [input, decoded reply].

import (
	"bufio"
	"context"
	"encoding/json"
	"fmt"
	"io"
	"log/slog"
	"os"
	"sync"
	"testing"
	"testing/synctest"

	"github.com/KafScale/platform/pkg/metadata"
	"github.com/KafScale/platform/pkg/protocol"
	"github.com/twmb/franz-go/pkg/kmsg"
)

type vmPart struct {
	P      int32 `json:"p"`
	Perr   int16 `json:"perr"`
	Epoch  int32 `json:"epoch"`
	Leader int32 `json:"leader"`
}
type vmTopic struct {
	Name  string   `json:"name"`
	ID    int      `json:"id"`
	Terr  int16    `json:"terr"`
	Parts []vmPart `json:"parts"`
}
type vmPrev struct {
	Name string `json:"name"`
	ID   int    `json:"id"`
}
type vmInput struct {
	Kind  string    `json:"kind"`
	Snap  []vmTopic `json:"snap"`
	Reqs  [][]int   `json:"reqs"`  // kind metadata2: the topic ids of the two overlapping by-id requests
	Sched [][]any   `json:"sched"` // kind metadata2: [["S",i] request i enters handleMetadata | ["R",i] its store call returns]
	Prev  []vmPrev  `json:"prev"` // topics (name, id) of the cluster metadata the proxy's caches were refreshed from earlier
	Mode  string    `json:"mode"`
	Names []string  `json:"names"`
	Ids   []int     `json:"ids"`
}

const (
	vmProxyHost = "proxy.verif"
	vmProxyPort = 19092
)

func vmID(n int) [16]byte {
	var id [16]byte
	if n != 0 {
		id[0] = byte(n)
		id[15] = 0xAA
	}
	return id
}
func vmIDBack(id [16]byte) int {
	var zero [16]byte
	if id == zero {
		return 0
	}
	if id == vmID(int(id[0])) {
		return int(id[0])
	}
	return -1
}

func vmEncode(req kmsg.Request, corr int32) []byte {
	b := kmsg.NewRequestFormatter(kmsg.FormatterClientID("verif")).AppendRequest(nil, req, corr)
	return b[4:]
}

func vmBody(resp kmsg.Response, version int16, data []byte, corr int32) error {
	if len(data) < 4 {
		return fmt.Errorf("short reply")
	}
	got := int32(data[0])<<24 | int32(data[1])<<16 | int32(data[2])<<8 | int32(data[3])
	if got != corr {
		return fmt.Errorf("correlation id %d, want %d", got, corr)
	}
	resp.SetVersion(version)
	body := data[4:]
	if resp.IsFlexible() {
		if len(body) < 1 || body[0] != 0 {
			return fmt.Errorf("unexpected response header tags")
		}
		body = body[1:]
	}
	return resp.ReadFrom(body)
}

func vmInts(xs []int32) []int32 {
	if xs == nil {
		return []int32{}
	}
	return xs
}

func vmProjectMeta(r *kmsg.MetadataResponse) map[string]any {
	brokers := []map[string]any{}
	for _, b := range r.Brokers {
		brokers = append(brokers, map[string]any{"node": b.NodeID, "host": b.Host, "port": b.Port})
	}
	topics := []map[string]any{}
	for _, t := range r.Topics {
		name := ""
		if t.Topic != nil {
			name = *t.Topic
		}
		parts := []map[string]any{}
		for _, p := range t.Partitions {
			parts = append(parts, map[string]any{"p": p.Partition, "perr": p.ErrorCode, "epoch": p.LeaderEpoch, "leader": p.Leader,
				"replicas": vmInts(p.Replicas), "isr": vmInts(p.ISR)})
		}
		topics = append(topics, map[string]any{"name": name, "id": vmIDBack(t.TopicID), "terr": t.ErrorCode, "parts": parts})
	}
	return map[string]any{"brokers": brokers, "controller": r.ControllerID, "topics": topics}
}

// vmGateStore parks every Metadata call until the schedule releases it; the calling request is identified through the context.
type vmReqKey struct{}
type vmGateStore struct {
	metadata.Store
	mu     sync.Mutex
	parked map[int]chan struct{}
	calls  []int
}

func (g *vmGateStore) Metadata(ctx context.Context, topics []string) (*metadata.ClusterMetadata, error) {
	i, _ := ctx.Value(vmReqKey{}).(int)
	ch := make(chan struct{})
	g.mu.Lock()
	g.parked[i] = ch
	g.calls = append(g.calls, i)
	g.mu.Unlock()
	<-ch
	return g.Store.Metadata(ctx, topics)
}

func (g *vmGateStore) release(i int) bool {
	g.mu.Lock()
	ch, ok := g.parked[i]
	delete(g.parked, i)
	g.mu.Unlock()
	if ok {
		close(ch)
	}
	return ok
}

// vmRunPair replays two overlapping by-id Metadata requests on ONE proxy inside a synctest bubble: synctest.Wait() is the
// quiescence barrier between schedule steps (a request is then parked in the store, waiting for another request, or finished).
// Returns per request the decoded reply and the steps that could actually be taken.
func vmRunPair(t *testing.T, inp *vmInput, state metadata.ClusterMetadata, logger *slog.Logger, corrBase int32) ([2]map[string]any, []string) {
	var replies [2]map[string]any
	var taken []string
	synctest.Test(t, func(t *testing.T) {
		gs := &vmGateStore{Store: metadata.NewInMemoryStore(state), parked: map[int]chan struct{}{}}
		p := &proxy{store: gs, advertisedHost: vmProxyHost, advertisedPort: vmProxyPort, logger: logger}
		var raw [2][]byte
		var errs [2]error
		var done [2]bool
		start := func(i int) {
			req := kmsg.NewPtrMetadataRequest()
			req.Version = 12
			req.Topics = []kmsg.MetadataRequestTopic{}
			for _, id := range inp.Reqs[i-1] {
				rt := kmsg.NewMetadataRequestTopic()
				rt.TopicID = vmID(id)
				req.Topics = append(req.Topics, rt)
			}
			payload := vmEncode(req, corrBase+int32(i))
			header, _, err := protocol.ParseRequestHeader(payload)
			if err != nil {
				t.Fatal(err)
			}
			ctx := context.WithValue(context.Background(), vmReqKey{}, i)
			go func() {
				raw[i-1], errs[i-1] = p.handleMetadata(ctx, header, payload)
				done[i-1] = true
			}()
		}
		for _, st := range inp.Sched {
			op, _ := st[0].(string)
			fi, _ := st[1].(float64)
			i := int(fi)
			switch op {
			case "S":
				start(i)
				taken = append(taken, fmt.Sprintf("S%d", i))
			case "R":
				if gs.release(i) {
					taken = append(taken, fmt.Sprintf("R%d", i))
				} else {
					taken = append(taken, fmt.Sprintf("R%d-not-in-store", i))
				}
			}
			synctest.Wait()
		}
		for k := 0; k < 4; k++ { // whatever is still parked
			for i := 1; i <= 2; i++ {
				gs.release(i)
			}
			synctest.Wait()
		}
		for i := 0; i < 2; i++ {
			if !done[i] || errs[i] != nil {
				t.Fatalf("request %d of the pair did not complete: done=%v err=%v", i+1, done[i], errs[i])
			}
			resp := kmsg.NewPtrMetadataResponse()
			if err := vmBody(resp, 12, raw[i], corrBase+int32(i+1)); err != nil {
				t.Fatalf("pair reply %d does not decode: %v", i+1, err)
			}
			replies[i] = vmProjectMeta(resp)
		}
	})
	return replies, taken
}

func TestVerifProxyMetaReplay(t *testing.T) {
	in, outPath := os.Getenv("VERIF_SCHEDULES"), os.Getenv("VERIF_TRACE_OUT")
	if in == "" || outPath == "" {
		t.Skip("no schedules")
	}
	f, err := os.Open(in)
	if err != nil {
		t.Fatal(err)
	}
	defer f.Close()
	out, err := os.Create(outPath)
	if err != nil {
		t.Fatal(err)
	}
	defer out.Close()
	w := bufio.NewWriter(out)
	defer w.Flush()
	logger := slog.New(slog.NewTextHandler(io.Discard, nil))
	ctx := context.Background()
	sc := bufio.NewScanner(f)
	sc.Buffer(make([]byte, 1<<20), 1<<26)
	n := 0
	for sc.Scan() {
		var raw json.RawMessage = append([]byte(nil), sc.Bytes()...)
		var inp vmInput
		if err := json.Unmarshal(raw, &inp); err != nil {
			t.Fatal(err)
		}
		// the cluster as the brokers publish it: two real brokers, leaders/replicas among them
		clusterID := "cluster-verif"
		state := metadata.ClusterMetadata{
			ControllerID: 1,
			ClusterID:    &clusterID,
			Brokers: []protocol.MetadataBroker{
				{NodeID: 1, Host: "broker1", Port: 9092},
				{NodeID: 2, Host: "broker2", Port: 9092},
			},
		}
		for _, tp := range inp.Snap {
			mt := protocol.MetadataTopic{ErrorCode: tp.Terr, Topic: kmsg.StringPtr(tp.Name), TopicID: vmID(tp.ID)}
			for _, p := range tp.Parts {
				mt.Partitions = append(mt.Partitions, protocol.MetadataPartition{
					ErrorCode: p.Perr, Partition: p.P, Leader: p.Leader, LeaderEpoch: p.Epoch,
					Replicas: []int32{1, 2}, ISR: []int32{p.Leader}, OfflineReplicas: []int32{3 - p.Leader},
				})
			}
			state.Topics = append(state.Topics, mt)
		}
		var p *proxy
		if len(inp.Prev) == 0 {
			// cold proxy: caches never filled
			p = &proxy{store: metadata.NewInMemoryStore(state), advertisedHost: vmProxyHost, advertisedPort: vmProxyPort, logger: logger}
		} else {
			// long-lived proxy: (1) the cluster as it was, (2) the real cache refresh (what initMetadataCache, its 10 s
			// ticker and every cache miss run), (3) the cluster changes to the current snapshot, (4) the request below
			before := metadata.ClusterMetadata{ControllerID: 1, ClusterID: &clusterID, Brokers: state.Brokers}
			for _, pt := range inp.Prev {
				before.Topics = append(before.Topics, protocol.MetadataTopic{
					Topic: kmsg.StringPtr(pt.Name), TopicID: vmID(pt.ID),
					Partitions: []protocol.MetadataPartition{{Partition: 0, Leader: 1, LeaderEpoch: 1, Replicas: []int32{1, 2}, ISR: []int32{1}}},
				})
			}
			store := metadata.NewInMemoryStore(before)
			p = &proxy{store: store, advertisedHost: vmProxyHost, advertisedPort: vmProxyPort, logger: logger}
			p.refreshMetadataCache(ctx)
			for _, pt := range inp.Prev {
				if got := p.resolveTopicID(ctx, vmID(pt.ID)); got != pt.Name {
					t.Fatalf("input %d: cache refresh did not learn %s (got %q)", n, pt.Name, got)
				}
			}
			store.Update(state)
		}
		corr := int32(7000 + n)
		if inp.Kind == "metadata2" {
			// two lines, one per request, each shaped like a single call: in = that request alone, reply = what it got
			replies, taken := vmRunPair(t, &inp, state, logger, corr*4)
			for i := 0; i < 2; i++ {
				one := map[string]any{"kind": "metadata", "snap": inp.Snap, "mode": "ids", "names": []string{}, "ids": inp.Reqs[i], "prev": []vmPrev{},
					"conc": map[string]any{"req": i + 1, "other": inp.Reqs[1-i], "sched": inp.Sched, "taken": taken}}
				line, err := json.Marshal(map[string]any{"ev": "Call", "n": n, "in": one, "reply": replies[i]})
				if err != nil {
					t.Fatal(err)
				}
				w.Write(line)
				w.WriteByte('\n')
			}
			n++
			continue
		}
		var reply map[string]any
		switch inp.Kind {
		case "metadata", "nr_metadata":
			req := kmsg.NewPtrMetadataRequest()
			req.Version = 12
			switch inp.Mode {
			case "all":
				req.Topics = nil
			case "names":
				req.Topics = []kmsg.MetadataRequestTopic{}
				for _, name := range inp.Names {
					rt := kmsg.NewMetadataRequestTopic()
					rt.Topic = kmsg.StringPtr(name)
					req.Topics = append(req.Topics, rt)
				}
			case "ids":
				req.Topics = []kmsg.MetadataRequestTopic{}
				for _, id := range inp.Ids {
					rt := kmsg.NewMetadataRequestTopic()
					rt.TopicID = vmID(id)
					req.Topics = append(req.Topics, rt)
				}
			}
			payload := vmEncode(req, corr)
			header, body, err := protocol.ParseRequestHeader(payload)
			if err != nil {
				t.Fatal(err)
			}
			var respBytes []byte
			if inp.Kind == "metadata" {
				respBytes, err = p.handleMetadata(ctx, header, payload)
				if err != nil {
					t.Fatalf("input %d: handleMetadata: %v", n, err)
				}
			} else {
				var ok bool
				respBytes, ok, err = p.buildNotReadyResponse(header, body)
				if err != nil || !ok {
					t.Fatalf("input %d: buildNotReadyResponse: ok=%v err=%v", n, ok, err)
				}
			}
			resp := kmsg.NewPtrMetadataResponse()
			if err := vmBody(resp, 12, respBytes, corr); err != nil {
				t.Fatalf("input %d: reply does not decode: %v", n, err)
			}
			reply = vmProjectMeta(resp)
		case "coordinator", "nr_coordinator":
			req := kmsg.NewPtrFindCoordinatorRequest()
			req.Version = 3
			req.CoordinatorKey = "group-verif"
			payload := vmEncode(req, corr)
			header, body, err := protocol.ParseRequestHeader(payload)
			if err != nil {
				t.Fatal(err)
			}
			var respBytes []byte
			if inp.Kind == "coordinator" {
				respBytes, err = p.handleFindCoordinator(header)
				if err != nil {
					t.Fatal(err)
				}
			} else {
				var ok bool
				respBytes, ok, err = p.buildNotReadyResponse(header, body)
				if err != nil || !ok {
					t.Fatalf("input %d: buildNotReadyResponse: ok=%v err=%v", n, ok, err)
				}
			}
			resp := kmsg.NewPtrFindCoordinatorResponse()
			if err := vmBody(resp, 3, respBytes, corr); err != nil {
				t.Fatalf("input %d: reply does not decode: %v", n, err)
			}
			reply = map[string]any{"node": resp.NodeID, "host": resp.Host, "port": resp.Port, "err": resp.ErrorCode}
		default:
			t.Fatalf("unknown kind %q", inp.Kind)
		}
		line, err := json.Marshal(map[string]any{"ev": "Call", "n": n, "in": raw, "reply": reply})
		if err != nil {
			t.Fatal(err)
		}
		w.Write(line)
		w.WriteByte('\n')
		n++
	}
	t.Logf("replayed %d schedules", n)
}
