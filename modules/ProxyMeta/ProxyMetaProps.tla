---- MODULE ProxyMetaProps ----
(* C28 stated once, over parameters.  ProxyMeta.tla instantiates it with the specification's reply,   *)
(* Obs_ProxyMeta.tla with the reply decoded (franz-go kmsg) from the bytes the real proxy produced.   *)
EXTENDS Integers, Sequences, FiniteSets
CONSTANTS proxy,   \* [node, host, port]: the proxy's advertised identity
          inp,     \* the input: [kind, snap, mode, names, ids, prev]
                   \*   (prev: what the proxy's caches were last refreshed from; the property never looks at it:
                   \*    "the cluster metadata" is the CURRENT one, snap)
                   \*   kind: "metadata" | "coordinator" | "nr_metadata" | "nr_coordinator"   (nr = proxy not ready)
                   \*   snap: the cluster metadata, sequence of [name, id, terr, parts: seq of [p, perr, epoch, leader]]
                   \*   mode: "all" | "names" | "ids" with the requested names / topic ids
          reply    \* metadata kinds: [brokers: seq of [node, host, port], controller, topics: seq of [name, id, terr,
                   \*                   parts: seq of [p, perr, epoch, leader, replicas, isr]]]
                   \* coordinator kinds: [node, host, port, err]

Range(s) == {s[i] : i \in DOMAIN s}
kind == inp.kind

\* the cluster metadata the request selects: sequence of [name, id, terr, known, parts: seq of [p, perr, epoch]];
\* known = FALSE for a requested name / topic id the cluster does not have
Strip(t, known) == [name |-> t.name, id |-> t.id, terr |-> t.terr, known |-> known,
                    parts |-> [j \in DOMAIN t.parts |-> [p |-> t.parts[j].p, perr |-> t.parts[j].perr, epoch |-> t.parts[j].epoch]]]
Find(sn, Q(_)) == LET I == {i \in DOMAIN sn : Q(sn[i])} IN IF I = {} THEN 0 ELSE CHOOSE i \in I : TRUE
sel ==
  IF inp.mode = "all" THEN [i \in DOMAIN inp.snap |-> Strip(inp.snap[i], TRUE)]
  ELSE IF inp.mode = "names"
  THEN [k \in DOMAIN inp.names |->
          LET HasName(t) == t.name = inp.names[k]  i == Find(inp.snap, HasName) IN
          IF i # 0 THEN Strip(inp.snap[i], TRUE)
          ELSE [name |-> inp.names[k], id |-> 0, terr |-> 3, known |-> FALSE, parts |-> <<>>]]     \* UNKNOWN_TOPIC_OR_PARTITION
  ELSE [k \in DOMAIN inp.ids |->
          LET HasId(t) == t.id = inp.ids[k]  i == Find(inp.snap, HasId) IN
          IF i # 0 THEN Strip(inp.snap[i], TRUE)
          ELSE [name |-> "", id |-> inp.ids[k], terr |-> 100, known |-> FALSE, parts |-> <<>>]]    \* UNKNOWN_TOPIC_ID
IsMeta == kind \in {"metadata", "nr_metadata"}
Nobody == [node |-> -1, host |-> "", port |-> 0]     \* a reply field that names no broker at all

\* ---- names only the proxy ----
C28_OnlyProxyBrokers ==
  IsMeta => /\ Range(reply.brokers) \subseteq {proxy}
            /\ (kind = "metadata" => Range(reply.brokers) = {proxy} /\ reply.controller = proxy.node)
            /\ reply.controller \in {proxy.node, -1}
C28_OnlyProxyLeaders ==
  IsMeta => \A i \in DOMAIN reply.topics : \A j \in DOMAIN reply.topics[i].parts :
              LET q == reply.topics[i].parts[j] IN
                /\ q.leader = proxy.node
                /\ Range(q.replicas) \subseteq {proxy.node}
                /\ Range(q.isr) \subseteq {proxy.node}
C28_OnlyProxyCoordinator ==
  ~IsMeta => LET c == [node |-> reply.node, host |-> reply.host, port |-> reply.port] IN
               /\ c \in {proxy, Nobody}
               /\ (kind = "coordinator" => c = proxy /\ reply.err = 0)

\* ---- keeps topics, topic ids, partitions, error codes, leader epochs of the cluster metadata ----
BagOf(idx, f(_)) == LET vals == {f(x) : x \in idx} IN [v \in vals |-> Cardinality({x \in idx : f(x) = v})]
Known(t) == \E i \in DOMAIN sel : sel[i].known /\ sel[i].name = t.name /\ sel[i].id = t.id
\* a requested name / topic id the cluster does not have
AskedUnknown(t) == \E i \in DOMAIN sel : /\ ~sel[i].known
                                         /\ \/ sel[i].name # "" /\ sel[i].name = t.name
                                            \/ sel[i].id # 0 /\ sel[i].id = t.id
TopicBag(ts, keep(_)) ==
  LET idx == {i \in DOMAIN ts : keep(ts[i])}
      f(i) == <<ts[i].name, ts[i].id, ts[i].terr>>
  IN BagOf(idx, f)
PartBag(ts) ==
  LET idx == UNION {{<<i, j>> : j \in DOMAIN ts[i].parts} : i \in DOMAIN ts}
      f(x) == LET t == ts[x[1]] q == t.parts[x[2]] IN <<t.name, t.id, q.p, q.perr, q.epoch>>
  IN BagOf(idx, f)
SelKnown(t) == t.known
C28_TopologyKept ==
  kind = "metadata" =>
    \* every topic of the cluster metadata the request selects: same name, id, error code, once each
    /\ TopicBag(reply.topics, Known) = TopicBag(sel, SelKnown)
    \* same partitions with their error codes and leader epochs
    /\ PartBag(reply.topics) = PartBag(sel)
    \* anything else in the reply is a requested name / id the cluster does not have, reported as an error without partitions
    \* (whether and with which code such an entry appears is not part of the property)
    /\ \A i \in DOMAIN reply.topics :
          ~Known(reply.topics[i]) => /\ AskedUnknown(reply.topics[i])
                                     /\ reply.topics[i].terr # 0 /\ reply.topics[i].parts = <<>>
====
