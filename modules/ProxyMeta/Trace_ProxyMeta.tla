---- MODULE Trace_ProxyMeta ----
(* Conformance layer: for every recorded call, the decoded real reply equals Reply(input) of ProxyMeta.tla *)
(* field by field and in order (topics, partitions, brokers, replicas, ISR).                               *)
EXTENDS ProxyMeta
TraceLog == ndJsonDeserialize("trace.ndjson")
VARIABLE l
tvars == <<vars, l>>
E == TraceLog[l]
TInit == Init /\ l = 1 /\ TLCSet(7, 0)
TCall == /\ l <= Len(TraceLog) /\ E.ev = "Call" /\ l' = l + 1
         /\ E.reply = Reply(E.in)
         /\ phase' = "done" /\ snap' = E.in.snap /\ input' = E.in /\ hist' = <<>> /\ run' = <<>>
Consumed == TLCSet(7, IF TLCGet(7) < l THEN l ELSE TLCGet(7))
TNext == TCall /\ Consumed
TSpec == TInit /\ [][TNext]_tvars
Reached == PrintT(<<"CONF", ToJson([reached |-> TLCGet(7), total |-> Len(TraceLog)])>>)
====
