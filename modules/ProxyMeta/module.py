"""ProxyMeta.tla — C28 (cmd/proxy/main.go: handleMetadata/loadMetadata/buildProxyMetadataResponse, handleFindCoordinator, buildNotReadyResponse)."""
import copy, json, os, re
from lib import tlc as T, layers, gorun
from lib.common import Broken, Violation, verdict, save_replay

PROPS = {
    "C28": {
        "text": "ProxyMeta.tla is a function-level specification (DESIGN §3.3): TLC enumerates every cluster snapshot of up to 2 topics x up to 2 partitions (topic/partition error codes, leader epochs, topic ids, broker leaders) with every request by name, by topic id (incl. unknown ones, every order) and all-topics, plus FindCoordinator and the not-ready replies, plus a history dimension for by-id requests (the long-lived proxy's id->name cache was refreshed from the same metadata, or from metadata in which every topic still had an older id, i.e. topics were since deleted / re-created), by-name requests repeating a name, and pairs of by-id requests overlapping inside the store lookup on one proxy (ReqStart / StoreReturn interleavings), and proves the C28 predicates for the specified reply over that whole domain. Every enumerated input is run through the real handleMetadata (loadMetadata + buildProxyMetadataResponse on a real InMemoryStore; for history inputs the real refreshMetadataCache runs against the earlier metadata, then the store is updated; overlapping pairs run in a testing/synctest bubble against a gating store wrapper, synctest.Wait() being the barrier between schedule steps), handleFindCoordinator and buildNotReadyResponse; the produced bytes are decoded with franz-go kmsg and TLC evaluates the C28 predicates on the real reply (layer O) and checks real reply = Reply(input) (layer C).",
        "note": "Trusted: TLC, franz-go kmsg as the reference codec, the harness projection of the decoded reply into records. Snapshots are the well-formed ones the metadata stores can hold (a topic with a topic-level error carries no partitions; topic ids non-zero). Metadata v12 / FindCoordinator v3 only (the versions that carry topic ids and leader epochs / the only advertised one). For a requested name / id the cluster does not have, the reply may carry an error entry without partitions or nothing (its presence and code are conformance-level, not part of C28). Exhaustive for the stated bounds only.",
        "technique": "TLA+ function-level specification (ProxyMeta.tla) + TLC exhaustive enumeration of the input domain + every input run through the real proxy functions + TLC evaluation of the property predicates and of spec equality on the decoded real replies",
        "level": "model_checking",
    }
}
DEVIATIONS = {
    "KeepLeader": "C28_OnlyProxyLeaders", "KeepBrokers": "C28_OnlyProxyBrokers",
    "IdFilterAll": "C28_TopologyKept", "DropErrTopics": "C28_TopologyKept", "StaleIdCache": "C28_TopologyKept", "DupNameLosesSlot": "C28_TopologyKept", "FlightKeyIgnoresIds": "C28_TopologyKept",
}
OVERLAY = {"cmd/proxy/zz_verif_proxymeta_test.go": "proxymeta_verif_test.go"}
INVS = ["C28_OnlyProxyBrokers", "C28_OnlyProxyLeaders", "C28_OnlyProxyCoordinator", "C28_TopologyKept"]


def par(jobs):
    """Run independent TLC/Go steps concurrently (each in its own staged directory); re-raise the first failure."""
    from concurrent.futures import ThreadPoolExecutor
    with ThreadPoolExecutor(max_workers=len(jobs)) as ex:
        futs = [ex.submit(j) for j in jobs]
        return [f.result() for f in futs]


def guarded(f):
    try:
        return f()
    except Broken as e:
        return e


def harness(ctx, inputs, tag):
    sp = os.path.join(ctx.scratch, "in-%s.ndjson" % tag)
    tp = os.path.join(ctx.scratch, "trace-%s.ndjson" % tag)
    gorun.write_ndjson(sp, inputs)
    rc, out = gorun.go_test(ctx, ".", "./cmd/proxy/", {k: os.path.join(DIR, "harness", v) for k, v in OVERLAY.items()},
                            "^TestVerifProxyMetaReplay$", env={"VERIF_SCHEDULES": sp, "VERIF_TRACE_OUT": tp}, timeout=900)
    if rc != 0 or "replayed %d schedules" % len(inputs) not in out:
        raise Broken("proxy metadata harness failed:\n" + out[-3000:])
    return gorun.read_ndjson(tp)


def key(i):
    return json.dumps(i, sort_keys=True)


def klass(i):
    """Input class: kind:mode, plus the history of the proxy's caches (refreshed from unchanged / since-changed metadata)."""
    k = i["kind"] + ":" + i["mode"]
    if i["mode"] == "names" and len(set(i["names"])) < len(i["names"]):
        k += ":repeated-name"
    if i.get("conc"):
        tk = i["conc"]["taken"]
        k += ":overlapping-requests" if tk[:2] == ["S1", "S2"] else ":back-to-back-requests"
    if i.get("prev"):
        cur = {(t["name"], t["id"]) for t in i["snap"]}
        k += ":warm-cache-unchanged" if {(t["name"], t["id"]) for t in i["prev"]} == cur else ":after-metadata-change"
    return k


def check(ctx, prop):
    quick = ctx.quick()
    def run_mc():
        # workers=1: every "done" state prints its input exactly once, in a deterministic order
        return T.model_check(ctx, T.stage(ctx, DIR, "mc"), "MC_ProxyMeta.tla", "MC_ProxyMeta_%s.cfg" % ctx.tier, coverage=not quick, timeout=1500, workers=1)

    def run_dev(dev):
        return lambda: T.counterexample_hist(ctx, T.stage(ctx, DIR, "dev-" + dev), "MC_ProxyMeta.tla", "Dev_ProxyMeta_%s.cfg" % dev, timeout=300, workers=1)

    devs = sorted(DEVIATIONS)
    res = par([run_mc] + [run_dev(dev) for dev in devs])
    mc = res[0]
    inputs = [h[0] for h in mc.prints.get("SCHED", [])]
    uniq = {key(i): i for i in inputs}
    if len(uniq) != len(inputs) or len(inputs) < 1000:
        raise Broken("input enumeration looks wrong: %d printed, %d distinct" % (len(inputs), len(uniq)))
    ctx.log("model: %d distinct states, %d inputs enumerated, theorem holds on all" % (mc.distinct, len(inputs)))
    dev_inputs = {}
    for dev, (h, r) in zip(devs, res[1:]):
        inv = DEVIATIONS[dev]
        if h is None or inv not in r.violated:
            raise Broken("deviation %s no longer violates %s in the model (vacuous deviation)" % (dev, inv))
        dev_inputs[dev] = h[0]
        if key(h[0]) not in uniq:
            uniq[key(h[0])] = h[0]
    inputs = [uniq[k] for k in sorted(uniq)]
    rows = harness(ctx, inputs, "main")
    # a pair input (two overlapping requests on one proxy) yields one line per request, every other input one line
    expect = [j for j, i in enumerate(inputs) for _ in range(2 if i["kind"] == "metadata2" else 1)]
    if [r["n"] for r in rows] != expect or any(key(r["in"]) != key(inputs[r["n"]]) for r in rows if "conc" not in r["in"]):
        raise Broken("harness recorded %d calls, expected %d for %d inputs" % (len(rows), len(expect), len(inputs)))
    if any(r["in"]["ids"] != inputs[r["n"]]["reqs"][r["in"]["conc"]["req"] - 1] for r in rows if "conc" in r["in"]):
        raise Broken("harness mislabelled the requests of a pair")
    (consumed, viol, _), (reached, total, _), st = par([
        lambda: layers.observe(ctx, DIR, "Obs_ProxyMeta.tla", "Obs_ProxyMeta.cfg", rows, timeout=1500),
        lambda: layers.conform(ctx, DIR, "Trace_ProxyMeta.tla", "Trace_ProxyMeta.cfg", rows, timeout=1500),
        lambda: guarded(lambda: self_test(ctx, rows))])
    violations, seen = [], set()
    for line, inv in sorted(viol):
        r = rows[line - 1]
        sig = "%s@%s" % (inv, klass(r["in"]))
        if sig in seen:
            continue
        seen.add(sig)
        n = sum(1 for l2, i2 in viol if i2 == inv and klass(rows[l2 - 1]["in"]) == klass(r["in"]))
        path = save_replay(prop, "input-%s.json" % re.sub(r"\W", "_", sig), {"schedule": inputs[r["n"]], "line": r["in"], "reply": r["reply"]})
        violations.append(Violation(prop, sig, "%s false on the real reply for %d input(s); first: input %s -> reply %s [replay %s]" % (
            inv, n, json.dumps(r["in"], sort_keys=True), json.dumps(r["reply"], sort_keys=True), path), {"schedule": inputs[r["n"]], "line": r["in"], "reply": r["reply"]}))
    if isinstance(st, Broken):
        if not violations:
            raise st
        st = {"skipped": str(st)}
    drift = reached != total
    conf = {"reached": reached, "total": total, "first_rejection": rows[reached] if drift and reached < len(rows) else None}
    level = "model_checking"
    if drift and not violations:
        level = "exploration"
        ctx.log("DRIFT: real reply differs from Reply(input) although C28 held: " + json.dumps(conf["first_rejection"]))
    kinds = {}
    for i in [r["in"] for r in rows]:
        k = klass(i)
        kinds[k] = kinds.get(k, 0) + 1
    for k in ("metadata:all", "metadata:names", "metadata:ids", "metadata:ids:warm-cache-unchanged", "metadata:ids:after-metadata-change", "metadata:names:repeated-name", "metadata:ids:overlapping-requests", "metadata:ids:back-to-back-requests",
              "nr_metadata:names", "nr_metadata:ids", "coordinator:all", "nr_coordinator:all"):
        if not kinds.get(k):
            raise Broken("vacuous run: no input of kind %s" % k)
    nontrivial = sum(1 for i in [r["in"] for r in rows] if i["kind"] == "metadata" and any(t["parts"] for t in i["snap"]) and (len(i["snap"]) >= 2 or i["mode"] != "all"))
    cov = {
        "states": mc.distinct, "transitions": mc.generated, "depth": mc.depth, "exhaustive": True,
        "model_config": "MC_ProxyMeta_%s.cfg" % ctx.tier,
        "traces_validated_against_impl": len(rows), "trace_events": len(rows),
        "evaluations": len(rows), "inputs": len(inputs), "distinct_nontrivial": nontrivial, "inputs_by_kind": kinds,
        "rule": "inputs = every 'done' state of the exhaustive TLC run (whole bounded domain), each run through the real function; non-trivial = metadata request over a snapshot with at least one partition and (two topics or a by-name/by-id selection)",
        "deviation_schedules": sorted(DEVIATIONS), "deviation_inputs": dev_inputs,
        "conformance": ("drift" if drift else "accepted"), "conformance_detail": conf,
        "binding_self_test": st,
        "samples": [rows[0], rows[len(rows) // 2], rows[-1]],
    }
    if not quick:
        cov["action_coverage"] = {k: v[1] for k, v in mc.action_coverage().items()}
    return verdict(ctx, violations, level, cov, [
        "cluster snapshots are well-formed: a topic with a topic-level error has no partitions; topic ids are non-zero",
        "replies are observed at Metadata v12 / FindCoordinator v3 after decoding with franz-go kmsg",
        "an entry for a requested name / id unknown to the cluster is optional; if present it must carry an error and no partitions",
    ])


def self_test(ctx, rows):
    """Corrupt one decoded field: layer O must flag a foreign leader, layer C must reject a changed epoch."""
    row = next((r for r in rows if r["in"]["kind"] == "metadata" and any(t["parts"] for t in r["reply"]["topics"])), None)
    if row is None:
        raise Broken("binding self-test: no metadata reply with partitions")
    bad1 = copy.deepcopy(row)
    next(t for t in bad1["reply"]["topics"] if t["parts"])["parts"][0]["leader"] = 2
    bad = copy.deepcopy(row)
    next(t for t in bad["reply"]["topics"] if t["parts"])["parts"][0]["epoch"] += 1
    _, viol, _ = layers.observe(ctx, DIR, "Obs_ProxyMeta.tla", "Obs_ProxyMeta.cfg", [bad1, bad], name="selfO")
    if (1, "C28_OnlyProxyLeaders") not in viol:
        raise Broken("binding self-test: observation layer did not flag a foreign leader")
    if (2, "C28_TopologyKept") not in viol:
        raise Broken("binding self-test: observation layer did not flag a changed leader epoch")
    reached, total, _ = layers.conform(ctx, DIR, "Trace_ProxyMeta.tla", "Trace_ProxyMeta.cfg", [bad], name="selfC")
    if reached == total:
        raise Broken("binding self-test: conformance layer accepted a corrupted leader epoch")
    return {"observation_layer_flags_foreign_leader": True, "observation_layer_flags_changed_epoch": True, "conformance_layer_rejects_corrupted_reply": True}


def replay(ctx, prop, path):
    obj = json.load(open(path))
    inp = obj.get("schedule") or obj.get("detail", {}).get("schedule")
    rows = harness(ctx, [inp], "replay")
    _, viol, _ = layers.observe(ctx, DIR, "Obs_ProxyMeta.tla", "Obs_ProxyMeta.cfg", rows)
    for r in rows:
        print(json.dumps(r, sort_keys=True))
    for line, inv in viol:
        print("VIOLATION property=%s replay=%s" % (prop, path))
        print("  %s false at line %d" % (inv, line))
    return 1 if viol else 0
