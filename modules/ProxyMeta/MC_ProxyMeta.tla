---- MODULE MC_ProxyMeta ----
EXTENDS ProxyMeta
====
