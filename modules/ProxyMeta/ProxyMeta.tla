---- MODULE ProxyMeta ----
(* cmd/proxy/main.go: handleMetadata = loadMetadata (by name / by topic id / all) + buildProxyMetadataResponse,  *)
(* handleFindCoordinator, buildNotReadyResponse (Metadata and FindCoordinator keys).  Function-level (DESIGN     *)
(* §3.3): the actions only enumerate the input domain (cluster snapshot built topic by topic, then one request); *)
(* every "done" state is one input, `Reply` is the specification of the function, and the C28 predicates on      *)
(* Reply(input) are the theorem TLC checks over the whole domain.                                                 *)
(* History dimension: the proxy is long-lived and keeps a topic-id -> name cache (p.topicNames, filled by          *)
(* refreshMetadataCache at start, every 10 s and on a cache miss).  An input therefore also carries `prev`, the   *)
(* (name, id) pairs of the cluster metadata the proxy refreshed its caches from BEFORE the cluster changed to      *)
(* `snap`: <<>> = cold proxy, the same topics (nothing changed), or every topic under an older id (a topic of      *)
(* `snap` was deleted and re-created with a new id; a topic missing from `snap` was deleted).  The property is     *)
(* about the CURRENT cluster metadata `snap`; the specified reply does not depend on `prev`.                       *)
EXTENDS Integers, Sequences, FiniteSets, TLC, Json
CONSTANTS Names,        \* topic names that may exist in the cluster, e.g. {"ta","tb"}
          UnknownName,  \* a name no cluster has
          UnknownId,    \* a topic id no cluster has
          TopicErrs,    \* topic-level error codes a stored topic may carry besides 0 (such a topic has no partitions)
          PartErrs, Epochs, Leaders,   \* per-partition error codes / leader epochs / leader broker ids
          MaxParts,
          DevKeepLeader,     \* deviation: partition leader copied from the cluster metadata
          DevKeepBrokers,    \* deviation: the cluster's broker list is passed through
          DevIdFilterAll,    \* deviation: a by-id request is answered with all topics
          DevDropErrTopics,  \* deviation: topics carrying an error are omitted
          DevDupNameLosesSlot,  \* deviation: a name repeated in a by-name request is found only in its last slot; earlier
                             \*            slots are answered UNKNOWN_TOPIC_OR_PARTITION although the topic exists
          DevFlightKeyIgnoresIds,  \* deviation: overlapping metadata lookups are shared through a singleflight keyed by the
                             \*            requested NAMES only, so all by-id requests share one key
          DevStaleIdCache    \* deviation: a by-id request whose ids are all in the (possibly stale) id -> name cache is
                             \*            answered by a by-NAME lookup of the cached names
VARIABLES phase, snap, input, hist, run
vars == <<phase, snap, input, hist, run>>

Proxy == [node |-> 0, host |-> "proxy.verif", port |-> 19092]
IdOf(n) == IF n = "ta" THEN 1 ELSE IF n = "tb" THEN 2 ELSE 3
Range(s) == {s[i] : i \in DOMAIN s}
Brokers == <<[node |-> 1, host |-> "broker1", port |-> 9092], [node |-> 2, host |-> "broker2", port |-> 9092]>>

PartsOf(n) == [1..n -> [perr : PartErrs, epoch : Epochs, leader : Leaders]]
MkParts(ps) == [i \in DOMAIN ps |-> [p |-> i - 1, perr |-> ps[i].perr, epoch |-> ps[i].epoch, leader |-> ps[i].leader]]

Init == phase = "build" /\ snap = <<>> /\ input = [kind |-> "none"] /\ hist = <<>> /\ run = <<>>

AddTopic(n, terr, ps) ==
  /\ phase = "build" /\ Len(snap) < Cardinality(Names) /\ n \notin {snap[i].name : i \in DOMAIN snap}
  /\ terr # 0 => ps = <<>>
  /\ snap' = Append(snap, [name |-> n, id |-> IdOf(n), terr |-> terr, parts |-> MkParts(ps)])
  /\ UNCHANGED <<phase, input, hist, run>>

OldIdOf(n) == IdOf(n) + 10        \* the id a topic of that name had before it was deleted (and possibly re-created)
RECURSIVE SetToSeq(_)
SetToSeq(S) == IF S = {} THEN <<>> ELSE LET x == CHOOSE x \in S : TRUE IN <<x>> \o SetToSeq(S \ {x})
PrevSame == [i \in DOMAIN snap |-> [name |-> snap[i].name, id |-> snap[i].id]]
PrevOld  == LET ns == SetToSeq(Names) IN [i \in DOMAIN ns |-> [name |-> ns[i], id |-> OldIdOf(ns[i])]]

Choose(kind, mode, names, tids, prev) ==
  /\ phase = "build" /\ phase' = "done"
  /\ kind # "metadata" => snap = <<>>          \* these replies do not depend on the cluster metadata
  /\ input' = [kind |-> kind, snap |-> snap, mode |-> mode, names |-> names, ids |-> tids, prev |-> prev]
  /\ hist' = <<input'>>
  /\ UNCHANGED <<snap, run>>

\* requested names / ids: non-empty sequences without repetition over the cluster's names (ids) plus an unknown one
RECURSIVE Perms(_)
Perms(S) == IF S = {} THEN {<<>>} ELSE UNION {{<<x>> \o p : p \in Perms(S \ {x})} : x \in S}
ReqSeqs(S) == UNION {Perms(T) : T \in (SUBSET S) \ {{}}}
\* requests that name the same existing-or-not topic twice (a client concatenating topic lists without de-duplicating)
DupSeqs(S, T) == {<<a, a>> : a \in S} \cup UNION {UNION {{<<a, b, a>>, <<a, a, b>>, <<b, a, a>>} : b \in T \ {a}} : a \in S}

\* one named operator per action so that TLC's coverage reports them by name
AddAny ==
  /\ phase = "build"
  /\ \E n \in Names :
       \/ \E k \in 0..MaxParts : \E ps \in PartsOf(k) : AddTopic(n, 0, ps)
       \/ \E te \in TopicErrs : AddTopic(n, te, <<>>)
ChooseAny ==
  /\ phase = "build"
  /\ \/ \E kind \in {"metadata", "nr_metadata"} :
          \/ Choose(kind, "all", <<>>, <<>>, <<>>)
          \/ \E ns \in ReqSeqs(Names \cup {UnknownName}) : Choose(kind, "names", ns, <<>>, <<>>)
          \/ \E ns \in DupSeqs(Names, Names \cup {UnknownName}) : Choose(kind, "names", ns, <<>>, <<>>)
          \/ \E is \in ReqSeqs({IdOf(n) : n \in Names} \cup {UnknownId}) : Choose(kind, "ids", <<>>, is, <<>>)
     \/ \E kind \in {"coordinator", "nr_coordinator"} : Choose(kind, "all", <<>>, <<>>, <<>>)
     \* long-lived proxy, by-id request after its caches were refreshed from `prev`
     \/ /\ snap # <<>>     \* nothing changed since the refresh
        /\ \E is \in ReqSeqs({IdOf(n) : n \in Names} \cup {UnknownId}) : Choose("metadata", "ids", <<>>, is, PrevSame)
     \/ \* every topic was deleted (and those in `snap` re-created under a new id) since the refresh; old and current ids asked
        \E is \in ReqSeqs({OldIdOf(n) : n \in Names} \cup {IdOf(CHOOSE n \in Names : TRUE)}) : Choose("metadata", "ids", <<>>, is, PrevOld)

\* ---------------- the specification of the functions ----------------
PP(in) == INSTANCE ProxyMetaProps WITH proxy <- Proxy, inp <- in, reply <- <<>>
Find(sn, Q(_)) == LET I == {i \in DOMAIN sn : Q(sn[i])} IN IF I = {} THEN 0 ELSE CHOOSE i \in I : TRUE
\* what store.Metadata / loadMetadata select from the cluster metadata (ProxyMetaProps!sel is the definition)
CachedName(in, id) == LET I == {i \in DOMAIN in.prev : in.prev[i].id = id} IN in.prev[CHOOSE i \in I : TRUE].name
AllCached(in) == in.ids # <<>> /\ \A k \in DOMAIN in.ids : \E i \in DOMAIN in.prev : in.prev[i].id = in.ids[k]
Select(in) ==
  IF in.mode = "ids" /\ DevIdFilterAll THEN PP([in EXCEPT !.mode = "all"])!sel
  ELSE IF in.mode = "ids" /\ DevStaleIdCache /\ AllCached(in)
  THEN PP([in EXCEPT !.mode = "names", !.names = [k \in DOMAIN in.ids |-> CachedName(in, in.ids[k])]])!sel
  ELSE IF in.mode = "names" /\ DevDupNameLosesSlot
  THEN [k \in DOMAIN in.names |->
          IF \E k2 \in DOMAIN in.names : k2 > k /\ in.names[k2] = in.names[k]
          THEN [name |-> in.names[k], id |-> 0, terr |-> 3, known |-> FALSE, parts |-> <<>>]
          ELSE PP(in)!sel[k]]
  ELSE PP(in)!sel
\* the leaders of the selected topics, needed only by the deviation
LeaderOf(in, name, p) == LET HasName(t) == t.name = name  i == Find(in.snap, HasName) IN
                         IF i = 0 THEN 0 ELSE in.snap[i].parts[p + 1].leader
NoErr(t) == t.terr = 0
\* buildProxyMetadataResponse
MetaReply(in) ==
  LET s0 == Select(in)
      s  == IF DevDropErrTopics THEN SelectSeq(s0, NoErr) ELSE s0
  IN [brokers |-> IF DevKeepBrokers THEN Brokers ELSE <<Proxy>>,
      controller |-> Proxy.node,
      topics |-> [i \in DOMAIN s |->
         [name |-> s[i].name, id |-> s[i].id, terr |-> s[i].terr,
          parts |-> [j \in DOMAIN s[i].parts |->
             [p |-> s[i].parts[j].p, perr |-> s[i].parts[j].perr, epoch |-> s[i].parts[j].epoch,
              leader |-> IF DevKeepLeader THEN LeaderOf(in, s[i].name, s[i].parts[j].p) ELSE Proxy.node,
              replicas |-> <<Proxy.node>>, isr |-> <<Proxy.node>>]]]]]
\* buildNotReadyResponse, Metadata key: no brokers, controller -1, every requested topic with REQUEST_TIMED_OUT
NotReadyMeta(in) ==
  [brokers |-> <<>>, controller |-> -1,
   topics |-> IF in.mode = "names" THEN [k \in DOMAIN in.names |-> [name |-> in.names[k], id |-> 0, terr |-> 7, parts |-> <<>>]]
              ELSE IF in.mode = "ids" THEN [k \in DOMAIN in.ids |-> [name |-> "", id |-> in.ids[k], terr |-> 7, parts |-> <<>>]]
              ELSE <<>>]
Reply(in) ==
  CASE in.kind = "metadata"       -> MetaReply(in)
    [] in.kind = "nr_metadata"    -> NotReadyMeta(in)
    [] in.kind = "coordinator"    -> [node |-> Proxy.node, host |-> Proxy.host, port |-> Proxy.port, err |-> 0]
    [] in.kind = "nr_coordinator" -> [node |-> -1, host |-> "", port |-> 0, err |-> 7]

\* ---------------- two overlapping Metadata requests on one proxy ----------------
\* handleMetadata runs once per client connection; two requests overlap when the second arrives while the first is
\* still inside store.Metadata.  ReqStart(i): request i enters handleMetadata and reaches the store (or, in the deviation,
\* joins the in-flight lookup with the same key).  StoreReturn(i): the store call of request i returns, its reply is built
\* (and, in the deviation, the joined requests get replies built from the SAME ClusterMetadata).
PairReqs == LET a == IdOf("ta") b == IdOf("tb") IN {<<a>>, <<b>>, <<b, a>>}
ReqInput(i) == [kind |-> "metadata", snap |-> input.snap, mode |-> "ids", names |-> <<>>, ids |-> input.reqs[i], prev |-> <<>>]
ChoosePair(r1, r2) ==
  /\ phase = "build" /\ phase' = "run"
  /\ input' = [kind |-> "metadata2", snap |-> snap, mode |-> "pair", names |-> <<>>, ids |-> <<>>, prev |-> <<>>,
                reqs |-> <<r1, r2>>, sched |-> <<>>]
  /\ run' = [st |-> <<"new", "new">>, lead |-> <<0, 0>>, reply |-> <<<<>>, <<>>>>]
  /\ UNCHANGED <<snap, hist>>
ReqStart(i) ==
  /\ phase = "run" /\ run.st[i] = "new"
  /\ i = 2 => run.st[1] # "new"        \* request 1 is the one that arrives first (ordered pairs cover the symmetric case)
  /\ LET J == {j \in 1..2 : run.st[j] = "store"}     \* lookups in flight (all by-id: same key in the deviation)
     IN IF DevFlightKeyIgnoresIds /\ J # {}
        THEN run' = [run EXCEPT !.st[i] = "wait", !.lead[i] = CHOOSE j \in J : TRUE]
        ELSE run' = [run EXCEPT !.st[i] = "store"]
  /\ input' = [input EXCEPT !.sched = Append(@, <<"S", i>>)]
  /\ UNCHANGED <<phase, snap, hist>>
StoreReturn(i) ==
  /\ phase = "run" /\ run.st[i] = "store"
  /\ LET rep == MetaReply(ReqInput(i))
         W == {j \in 1..2 : run.st[j] = "wait" /\ run.lead[j] = i}
         run2 == [run EXCEPT !.st = [j \in 1..2 |-> IF j = i \/ j \in W THEN "done" ELSE run.st[j]],
                             !.reply = [j \in 1..2 |-> IF j = i \/ j \in W THEN rep ELSE run.reply[j]]]
         in2 == [input EXCEPT !.sched = Append(@, <<"R", i>>)]
     IN /\ run' = run2 /\ input' = in2
        /\ IF \A j \in 1..2 : run2.st[j] = "done"
           THEN phase' = "done" /\ hist' = <<in2>>
           ELSE UNCHANGED <<phase, hist>>
  /\ UNCHANGED snap
PairAny ==
  \/ /\ phase = "build" /\ Len(snap) = Cardinality(Names)
     /\ \E r1, r2 \in PairReqs : r1 # r2 /\ ChoosePair(r1, r2)
  \/ /\ phase = "run"
     /\ \E i \in 1..2 : ReqStart(i) \/ StoreReturn(i)
Next == AddAny \/ ChooseAny \/ PairAny
Spec == Init /\ [][Next]_vars

P(in) == INSTANCE ProxyMetaProps WITH proxy <- Proxy, inp <- in, reply <- Reply(in)
PR(in, rep) == INSTANCE ProxyMetaProps WITH proxy <- Proxy, inp <- in, reply <- rep
Done == phase = "done"
IsPair == input.kind = "metadata2"
\* for a pair: every reply describes exactly what THAT request asked for, whatever the interleaving
C28_OnlyProxyBrokers == Done => IF IsPair THEN \A i \in 1..2 : PR(ReqInput(i), run.reply[i])!C28_OnlyProxyBrokers ELSE P(input)!C28_OnlyProxyBrokers
C28_OnlyProxyLeaders == Done => IF IsPair THEN \A i \in 1..2 : PR(ReqInput(i), run.reply[i])!C28_OnlyProxyLeaders ELSE P(input)!C28_OnlyProxyLeaders
C28_OnlyProxyCoordinator == Done => IF IsPair THEN TRUE ELSE P(input)!C28_OnlyProxyCoordinator
C28_TopologyKept == Done => IF IsPair THEN \A i \in 1..2 : PR(ReqInput(i), run.reply[i])!C28_TopologyKept ELSE P(input)!C28_TopologyKept

View == <<phase, snap, input, run>>
\* one line per enumerated input
EmitSched == Done => PrintT(<<"SCHED", ToJson(hist)>>)
====
