CONSTANTS
 Names = {"ta","tb"}
 UnknownName = "tx"
 UnknownId = 9
 TopicErrs = {3}
 PartErrs = {0,5}
 Epochs = {5}
 Leaders = {2}
 MaxParts = 2
 DevKeepLeader = FALSE
 DevKeepBrokers = FALSE
 DevIdFilterAll = FALSE
 DevDropErrTopics = FALSE
 DevDupNameLosesSlot = FALSE
 DevFlightKeyIgnoresIds = FALSE
 DevStaleIdCache = TRUE
INIT Init
NEXT Next
INVARIANTS C28_OnlyProxyBrokers C28_OnlyProxyLeaders C28_OnlyProxyCoordinator C28_TopologyKept 
VIEW View
CHECK_DEADLOCK FALSE
