---- MODULE Obs_LfsUpload ----
(* Observation layer: no model actions.  Each recorded line is one HTTP request to the real       *)
(* handlers with its status and, for requests that report the outcome of an upload, what the      *)
(* harness observed around it: the envelope in the response body, the fake bucket's object under  *)
(* the envelope's key (size, SHA-256 computed with crypto/sha256), the scripted broker's reply    *)
(* code for the record naming that key.  The C32 predicates are the LfsUploadProps definitions.   *)
EXTENDS Integers, Sequences, FiniteSets, TLC, Json
TraceLog == ndJsonDeserialize("trace.ndjson")
VARIABLES l, viol
ovars == <<l, viol>>
P(e) == INSTANCE LfsUploadProps WITH
      final <- e.final, http <- e.status, objExists <- e.o.objExists, objSize <- e.o.objSize, objSha <- e.o.objSha,
      envSize <- e.o.envSize, envSha <- e.o.envSha, ack <- e.o.ack
OInit == l = 0 /\ viol = {}
Step ==
  /\ l < Len(TraceLog) /\ l' = l + 1
  /\ LET e == TraceLog[l + 1] IN
     /\ viol' = IF e.ev = "Reset" THEN viol ELSE viol \cup
          {<<l + 1, n>> : n \in
             (IF P(e)!C32_Stored THEN {} ELSE {"C32_Stored"}) \cup
             (IF P(e)!C32_Acked THEN {} ELSE {"C32_Acked"})}
     /\ (l' = Len(TraceLog)) => PrintT(<<"OBS", ToJson([consumed |-> l', viol |-> viol'])>>)
OSpec == OInit /\ [][Step]_ovars
====
