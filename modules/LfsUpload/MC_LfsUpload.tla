---- MODULE MC_LfsUpload ----
EXTENDS LfsUpload
====
