---- MODULE LfsUploadProps ----
(* C32 stated once, over parameters.  LfsUpload.tla instantiates it with model state (digests are *)
(* the sequence of chunks hashed / assembled), Obs_LfsUpload.tla with values observed on the     *)
(* real handlers: HTTP status, the envelope in the response body, the fake bucket's object under  *)
(* the envelope's key (size and SHA-256 computed by the harness), the broker's reply code to the *)
(* produce request that carried this envelope.                                                   *)
EXTENDS Integers
CONSTANTS final,      \* TRUE iff the request is one that reports the outcome of an upload (POST /lfs/produce, POST .../complete)
          http,       \* HTTP status of the response
          objExists,  \* an object exists in the bucket under the key named in the returned envelope
          objSize, objSha,   \* its size and SHA-256
          envSize, envSha,   \* size and sha256 fields of the returned envelope
          ack         \* broker's error code for the partition in its reply to the envelope record (0 = acknowledged; 1000 = no code for the partition: no reply, or a reply without it)

Success == final /\ http = 200
C32_Stored == Success => (objExists /\ objSize = envSize /\ objSha = envSha)
C32_Acked == Success => ack = 0
====
