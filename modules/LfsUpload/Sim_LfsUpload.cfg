CONSTANTS
 Sizes = {1, 5, 6, 10, 11}
 SingleSizes = {1, 5, 6, 10, 11}
 Lens = {1, 5}
 MaxPart = 3
 MaxFault = 6
 MaxOps = 9
 FixCheckReply = TRUE
 FixAllParts = TRUE
 FixHashAfterStore = TRUE
 DevIgnoreCompleteErr = FALSE
 DevNegAck = FALSE
 DevEmptyAck = FALSE
 DevDupParts = FALSE
INIT Init
NEXT Next
INVARIANTS EmitSched C32_Stored C32_Acked
CHECK_DEADLOCK FALSE
