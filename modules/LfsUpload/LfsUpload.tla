---- MODULE LfsUpload ----
(* C32.  The LFS HTTP upload API of the proxy (cmd/proxy/lfs_http.go, lfs_s3.go), one action per   *)
(* HTTP request (each handler runs to completion under the session lock; the harness issues        *)
(* requests one after the other):                                                                  *)
(*   Single(size, reply)      POST /lfs/produce      UploadStream (PutObject below one chunk, else  *)
(*                                                   an internal multipart upload), envelope, produce *)
(*   InitUp(size)             POST /lfs/uploads      CreateMultipartUpload, new session             *)
(*   Part(n, len)             PUT  .../parts/n       order / size rules, running hash, UploadPart   *)
(*   Complete(listed, reply)  POST .../complete      part-list check, CompleteMultipartUpload,      *)
(*                                                   envelope from the running hash, produce        *)
(*   Abort                    DELETE session                                                        *)
(* S3 is modelled as the multipart store it is: parts by number, an object assembled from exactly  *)
(* the parts listed (strictly ascending or InvalidPartOrder), at most one injected failure (the    *)
(* faultAt-th API call).  The broker's answer to the produce request is an environment choice:     *)
(* "ok" (error code 0), "perr" (positive per-partition error code), "nerr" (negative code:         *)
(* UNKNOWN_SERVER_ERROR = -1), "empty" (a reply naming no partition), "conn" (closed, no reply).   *)
(* Sizes are in units of 1 MiB; digests are modelled as the sequence of <<part, len>> chunks        *)
(* that went into the hasher / into the object (collision-free hashing).                           *)
EXTENDS Integers, Sequences, FiniteSets, TLC, Json
CONSTANTS Sizes,          \* declared sizes of multipart sessions
          SingleSizes,    \* body sizes of single-request uploads
          Lens,           \* part body lengths a client may send
          MaxPart,        \* highest part number used
          MaxFault,       \* S3 API calls that may be chosen to fail (0 = never)
          MaxOps,
          FixCheckReply,      \* TRUE: a per-partition error code in the produce reply is an error (repaired); FALSE: reply discarded (pinned tree)
          FixAllParts,        \* TRUE: completion must list exactly the uploaded parts (repaired); FALSE: any listed part just has to exist (pinned tree)
          FixHashAfterStore,  \* TRUE: running hash advanced after S3 accepted the part (repaired); FALSE: before, so a failed-then-retried part is hashed twice (pinned tree)
          DevIgnoreCompleteErr, \* deviation: error of CompleteMultipartUpload ignored
          DevNegAck,            \* deviation: only positive partition error codes count as errors (UNKNOWN_SERVER_ERROR = -1 passes)
          DevEmptyAck,          \* deviation: a reply that names no partition counts as an acknowledgement
          DevDupParts           \* deviation: completion list de-duplicated and sorted through a map, completeness judged by the raw length only
VARIABLES phase, decl, parts, total, hashed, mpu, obj, s3calls, faultAt, http, final, env, ack, hist,
          lclass     \* shape of the part list of the last completion request (pure history; kept in VIEW so that the state cover
                     \* contains a schedule for every shape, although all rejected shapes lead to the same state otherwise)
vars == <<phase, decl, parts, total, hashed, mpu, obj, s3calls, faultAt, http, final, env, ack, hist, lclass>>
KeepClass == lclass' = lclass

PS == 5      \* session part size = normalizeChunkSize(5 MiB)
MIN == 5     \* minMultipartChunkSize
Replies == {"ok", "perr", "nerr", "empty", "conn"}
NoAck == 1000     \* the broker gave no code for the partition (no reply at all, or a reply without the partition)
NoEnv == [size |-> 0, sha |-> <<>>]

Init == /\ phase = "idle" /\ decl = 0 /\ parts = <<>> /\ total = 0 /\ hashed = <<>> /\ mpu = "none" /\ obj = <<>>
        /\ s3calls = 0 /\ faultAt = 0 /\ http = 0 /\ final = FALSE /\ env = NoEnv /\ ack = NoAck /\ hist = <<>> /\ lclass = "none"

RECURSIVE SumLen(_)
SumLen(s) == IF s = <<>> THEN 0 ELSE Head(s)[2] + SumLen(Tail(s))
StrictAsc(s) == \A i \in 1..(Len(s) - 1) : s[i] < s[i + 1]
Range(s) == {s[i] : i \in DOMAIN s}
Step(rec) == Len(hist) < MaxOps /\ hist' = Append(hist, rec)
Fails(i) == faultAt # 0 /\ faultAt = s3calls + i     \* the i-th S3 call of this request is the injected failure

\* choose which S3 API call of the schedule fails (first step of a schedule, optional)
Arm(k) == /\ hist = <<>> /\ k \in 1..MaxFault /\ faultAt' = k /\ KeepClass /\ Step([a |-> "Arm", k |-> k])
          /\ UNCHANGED <<phase, decl, parts, total, hashed, mpu, obj, s3calls, http, final, env, ack>>

\* produce the envelope record; result = <<http status, ack code>>
Produce(reply) == CASE reply = "conn" -> <<502, NoAck>>
                    [] reply = "perr" -> <<IF FixCheckReply THEN 502 ELSE 200, 6>>
                    [] reply = "nerr" -> <<IF FixCheckReply /\ ~DevNegAck THEN 502 ELSE 200, -1>>
                    [] reply = "empty" -> <<IF FixCheckReply /\ ~DevEmptyAck THEN 502 ELSE 200, NoAck>>
                    [] OTHER -> <<200, 0>>

\* ---- single request -------------------------------------------------------------------------
NChunks(size) == (size + PS - 1) \div PS
RECURSIVE ChunksFrom(_, _)
ChunksFrom(i, left) == IF left <= 0 THEN <<>> ELSE <<<<i, IF left >= PS THEN PS ELSE left>>>> \o ChunksFrom(i + 1, left - PS)
ChunkSeq(size) == ChunksFrom(1, size)
Single(size, reply) ==
  /\ phase = "idle"
  /\ LET put == size < MIN
         ncalls == IF put THEN 1 ELSE NChunks(size) + 2
         failed == faultAt # 0 /\ faultAt > s3calls /\ faultAt <= s3calls + ncalls
         content == IF put THEN <<<<1, size>>>> ELSE ChunkSeq(size)
         pr == Produce(reply)
     IN /\ (failed => reply = "ok")            \* the reply is only consulted when the produce is reached
        /\ s3calls' = IF failed THEN faultAt ELSE s3calls + ncalls
        /\ IF failed
           THEN /\ http' = 502 /\ UNCHANGED <<obj, env, ack, hashed>>
           ELSE /\ obj' = content /\ hashed' = content
                /\ env' = [size |-> size, sha |-> content]
                /\ http' = pr[1] /\ ack' = pr[2]
  /\ phase' = "closed" /\ final' = TRUE
  /\ KeepClass /\ Step([a |-> "Single", size |-> size, reply |-> reply])
  /\ UNCHANGED <<decl, parts, total, mpu, faultAt>>

\* ---- multipart session ----------------------------------------------------------------------
InitUp(size) ==
  /\ phase = "idle"
  /\ s3calls' = s3calls + 1
  /\ IF Fails(1) THEN /\ http' = 502 /\ UNCHANGED <<phase, decl, mpu>>
                 ELSE /\ http' = 200 /\ phase' = "open" /\ decl' = size /\ mpu' = "open"
  /\ final' = FALSE
  /\ KeepClass /\ Step([a |-> "Init", size |-> size])
  /\ UNCHANGED <<parts, total, hashed, obj, faultAt, env, ack>>

Part(n, len) ==
  /\ phase = "open" /\ final' = FALSE
  /\ KeepClass /\ Step([a |-> "Part", n |-> n, len |-> len])
  /\ UNCHANGED <<phase, decl, mpu, obj, faultAt, env, ack>>
  /\ IF n <= Len(parts) THEN http' = 200 /\ UNCHANGED <<parts, total, hashed, s3calls>>        \* already received: stored etag echoed
     ELSE IF n # Len(parts) + 1 THEN http' = 409 /\ UNCHANGED <<parts, total, hashed, s3calls>>
     ELSE IF len > PS \/ total + len > decl \/ (total + len < decl /\ len < MIN)
          THEN http' = 400 /\ UNCHANGED <<parts, total, hashed, s3calls>>
     ELSE /\ s3calls' = s3calls + 1
          /\ IF Fails(1)
             THEN /\ http' = 502 /\ UNCHANGED <<parts, total>>
                  /\ hashed' = IF FixHashAfterStore THEN hashed ELSE Append(hashed, <<n, len>>)
             ELSE /\ http' = 200 /\ parts' = Append(parts, len) /\ total' = total + len
                  /\ hashed' = Append(hashed, <<n, len>>)

PN == 1..MaxPart
Listings == {<<>>} \cup {<<x>> : x \in PN} \cup {<<x, y>> : x, y \in PN} \cup {<<x, y, z>> : x, y, z \in PN}
Known(listed) == \A i \in DOMAIN listed : listed[i] <= Len(parts)
Exact(listed) == Len(listed) = Len(parts) /\ Range(listed) = 1..Len(parts)
\* does the request get as far as the S3 call / the produce?
\* shape of a completion list relative to the uploaded parts
ListClass(listed) == CASE listed = <<>> -> "empty"
                       [] ~Known(listed) -> "unknown_part"
                       [] Exact(listed) /\ StrictAsc(listed) -> "exact"
                       [] Exact(listed) -> "reordered"
                       [] Len(listed) = Len(parts) -> "repeated_and_omitted"     \* right length, one part twice, another missing
                       [] Len(listed) < Len(parts) -> "subset"
                       [] OTHER -> "too_long"
RECURSIVE SortSet(_)
SortSet(S) == IF S = {} THEN <<>> ELSE LET m == CHOOSE x \in S : \A y \in S : x <= y IN <<m>> \o SortSet(S \ {m})
ToS3(listed) == IF DevDupParts THEN SortSet(Range(listed)) ELSE listed         \* the list handed to CompleteMultipartUpload
ReachesS3(listed) == total = decl /\ listed # <<>> /\ Known(listed)
                     /\ (FixAllParts => IF DevDupParts THEN Len(listed) = Len(parts) ELSE Exact(listed))
RECURSIVE Assemble(_)
Assemble(ls) == IF ls = <<>> THEN <<>> ELSE <<<<Head(ls), parts[Head(ls)]>>>> \o Assemble(Tail(ls))
S3CompleteOk(listed) == mpu = "open" /\ ~Fails(1) /\ StrictAsc(ToS3(listed))
Complete(listed, reply) ==
  /\ phase = "open" /\ final' = TRUE
  /\ Step([a |-> "Complete", listed |-> listed, reply |-> reply, cls |-> ListClass(listed)])
  /\ lclass' = ListClass(listed)
  /\ UNCHANGED <<decl, parts, total, hashed, faultAt>>
  /\ IF ~ReachesS3(listed)
     THEN /\ reply = "ok" /\ http' = 400
          /\ (total # decl => listed = <<1>>)      \* the part list is not looked at: one representative
          /\ UNCHANGED <<phase, mpu, obj, s3calls, env, ack>>
     ELSE /\ s3calls' = s3calls + 1
          /\ IF ~S3CompleteOk(listed) /\ ~DevIgnoreCompleteErr
             THEN /\ reply = "ok" /\ http' = 502 /\ UNCHANGED <<phase, mpu, obj, env, ack>>
             ELSE LET pr == Produce(reply) IN
                  /\ IF S3CompleteOk(listed)
                     THEN obj' = Assemble(ToS3(listed)) /\ mpu' = "done"
                     ELSE UNCHANGED <<obj, mpu>>
                  /\ env' = [size |-> total, sha |-> hashed]
                  /\ http' = pr[1] /\ ack' = pr[2]
                  /\ phase' = IF pr[1] = 200 THEN "closed" ELSE phase

Abort ==
  /\ phase = "open" /\ phase' = "closed" /\ http' = 204 /\ final' = FALSE
  /\ mpu' = IF mpu = "open" THEN "aborted" ELSE mpu
  /\ KeepClass /\ Step([a |-> "Abort"])
  /\ UNCHANGED <<decl, parts, total, hashed, obj, s3calls, faultAt, env, ack>>

Next == \/ \E k \in 1..MaxFault : Arm(k)
        \/ \E s \in SingleSizes, r \in Replies : Single(s, r)
        \/ \E s \in Sizes : InitUp(s)
        \/ \E n \in 1..MaxPart, len \in Lens : Part(n, len)
        \/ \E ls \in Listings, r \in Replies : Complete(ls, r)
        \/ Abort
Spec == Init /\ [][Next]_vars

P == INSTANCE LfsUploadProps WITH
       objExists <- (obj # <<>>), objSize <- SumLen(obj), objSha <- obj, envSize <- env.size, envSha <- env.sha
C32_Stored == P!C32_Stored
C32_Acked == P!C32_Acked
\* internal facts (conformance level)
RECURSIVE Numbered(_, _)
Numbered(i, s) == IF s = <<>> THEN <<>> ELSE <<<<i, Head(s)>>>> \o Numbered(i + 1, Tail(s))
SessionAccounting == total = SumLen(Numbered(1, parts)) /\ total <= decl
HashFollowsParts == (FixHashAfterStore /\ phase = "open") => hashed = Numbered(1, parts)

View == <<phase, decl, parts, total, hashed, mpu, obj, s3calls, faultAt, http, final, env, ack, lclass, Len(hist)>>
EmitSched == PrintT(<<"SCHED", ToJson(hist)>>)
====
