CONSTANTS
 Sizes = {1, 6, 11}
 SingleSizes = {1, 5, 11}
 Lens = {1, 5}
 MaxPart = 3
 MaxFault = 5
 MaxOps = 7
 FixCheckReply = FALSE
 FixAllParts = TRUE
 FixHashAfterStore = TRUE
 DevIgnoreCompleteErr = FALSE
 DevNegAck = FALSE
 DevEmptyAck = FALSE
 DevDupParts = FALSE
INIT Init
NEXT Next
INVARIANTS C32_Stored C32_Acked
VIEW View
CHECK_DEADLOCK FALSE
