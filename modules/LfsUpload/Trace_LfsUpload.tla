---- MODULE Trace_LfsUpload ----
(* Conformance layer: every recorded request must be a step of LfsUpload.tla (same action, same   *)
(* arguments), with the same HTTP status and the same projected state: session (presence, next    *)
(* part, bytes, part sizes - read in-package under the session lock), multipart-upload state and  *)
(* object layout in the fake bucket, number of S3 API calls made.                                 *)
EXTENDS LfsUpload
TraceLog == ndJsonDeserialize("trace.ndjson")
VARIABLE l
tvars == <<vars, l>>
E == TraceLog[l]
Cur(ev) == l <= Len(TraceLog) /\ E.ev = ev /\ l' = l + 1
StMatch == /\ http' = E.status
           /\ phase' = E.st.phase /\ mpu' = E.st.mpu /\ obj' = E.st.obj /\ s3calls' = E.st.s3calls
           /\ (E.st.phase = "open" => (parts' = E.st.parts /\ total' = E.st.total /\ E.st.next = Len(parts') + 1))
           /\ (IF E.broker = -2 THEN ack' = ack ELSE ack' = E.broker)      \* produce reached the broker iff the model says so
           /\ ((E.final /\ E.status = 200) => ((env'.sha = obj') = E.shaMatch /\ ack' = E.o.ack))
TInit == Init /\ l = 1 /\ TLCSet(7, 0)
TReset == /\ Cur("Reset")
          /\ phase' = "idle" /\ decl' = 0 /\ parts' = <<>> /\ total' = 0 /\ hashed' = <<>> /\ mpu' = "none" /\ obj' = <<>>
          /\ s3calls' = 0 /\ faultAt' = 0 /\ http' = 0 /\ final' = FALSE /\ env' = NoEnv /\ ack' = NoAck /\ hist' = <<>> /\ lclass' = "none"
TArm == Cur("Arm") /\ Arm(E.k)
TSingle == Cur("Single") /\ Single(E.size, E.reply) /\ StMatch
TInitUp == Cur("Init") /\ InitUp(E.size) /\ StMatch
TPart == Cur("Part") /\ Part(E.n, E.len) /\ StMatch
TComplete == Cur("Complete") /\ Complete(E.listed, E.reply) /\ StMatch
TAbort == Cur("Abort") /\ Abort /\ StMatch
Consumed == TLCSet(7, IF TLCGet(7) < l THEN l ELSE TLCGet(7))
TNext == (TReset \/ TArm \/ TSingle \/ TInitUp \/ TPart \/ TComplete \/ TAbort) /\ Consumed
TSpec == TInit /\ [][TNext]_tvars
Reached == PrintT(<<"CONF", ToJson([reached |-> TLCGet(7), total |-> Len(TraceLog)])>>)
====
